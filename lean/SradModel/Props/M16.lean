/-
M16 — `SimpleMetricManager` (srad-eon/src/metric_manager/simple.rs) as a state machine:
supporting model, theorems only. Model: `Model/SimpleMgr.lean`; vocabulary (`Inv`, `route`,
`birthMetricOf`, `IdShape`, `Used`, `withToken`, `toSimple`): `Model/SimpleMgrSpec.lean`; helper
lemmas: `Proofs/SimpleMgr.lean`.

Quantification: every theorem holds for an arbitrary handle type `H`, arbitrary hash
`h : Name → Nat`, build parameters `cfg`, clock readings, an arbitrary `BirthInitializer` state
`bi` the manager is handed (node: bdSeq / Rebirth / template definitions already inside; device:
empty; anything else), an arbitrary `HashMap` iteration order (`order`), arbitrary `update`
closures, arbitrary command messages — and for every state reachable from
`SimpleMetricManager::new()` by ANY sequence of operations (`M16_invariant_reachable` lifts the
invariant `Inv` over all histories by induction; the theorems below that take `Inv s` therefore
hold in every reachable state).
-/
import SradModel.Proofs.SimpleMgr
import SradModel.Model.Derive

namespace Srad.SimpleMgr
open Srad.Birth Srad.Codec

variable {H : Type}

/-! ### the invariant, for all histories -/

/-- After ANY sequence of `register_metric` / `initialise_birth` (any initializer, any iteration
order, panicking or not) / `update` / `publish_metrics` / `on_ncmd` / `init` calls on a new
manager: names are pairwise distinct and, as long as no birth panicked, the tokens the entries
hold are pairwise distinct and `cmd_lookup` is exactly the map (current token id ↦ entry) over the
entries that have a command handler and a token. -/
theorem M16_invariant_reachable (ops : List (Op H)) : Inv (run ({} : St H) ops) :=
  run_inv ops Inv.empty

/-- the invariant is inductive: every single operation preserves it from any state -/
theorem M16_invariant_step (s : St H) (op : Op H) (hi : Inv s) : Inv (step s op) :=
  step_inv op hi

/-- no two entries hold the same token: a metric id of the latest birth names ONE metric -/
theorem M16_current_id_unique (s : St H) (hi : Inv s) (hd : s.dead = false) (e₁ e₂ : Entry)
    (h₁ : e₁ ∈ s.metrics) (h₂ : e₂ ∈ s.metrics) (id : MetricId)
    (t₁ : e₁.token = some id) (t₂ : e₂.token = some id) : e₁ = e₂ :=
  nodup_filterMap_inj (·.token) s.metrics (hi.tokens hd) e₁ h₁ e₂ h₂ id t₁ t₂

/-! ### `register_metric` -/

/-- a new name is accepted: the entry holds the builder's value, alias flag and handler flag, has
no token yet; nothing else changes -/
theorem M16_register_fresh (s : St H) (n : Name) (ty : STy) (v : SV) (a c : Bool)
    (hd : s.dead = false) (hn : n ∉ s.metrics.map (·.name)) :
    register s n ty v a c =
      .ok ({ s with metrics := s.metrics ++
              [{ name := n, ty := ty, value := v, useAlias := a, hasCb := c }] }, true) := by
  unfold register
  simp [hd, hn]

/-- a duplicate registration returns `None` and changes NOTHING, whatever type, value, alias flag
or handler the second builder carries -/
theorem M16_register_duplicate (s : St H) (n : Name) (ty : STy) (v : SV) (a c : Bool)
    (hd : s.dead = false) (hn : n ∈ s.metrics.map (·.name)) :
    register s n ty v a c = .ok (s, false) := by
  unfold register
  simp [hd, hn]

/-! ### `initialise_birth` -/

/-- A birth that does not panic, from any reachable state: the loop visits a permutation of the
registered entries (`toks` pairs each with the id of its new token); the initializer gains exactly
one metric per entry, in iteration order, each with the entry's name, `T`'s datatype, the birth's
clock reading, the entry's CURRENT value, and an alias iff `use_alias` (`IdShape` / `birthMetricOf`);
the ids are pairwise distinct and new to the initializer. Afterwards every entry holds the token of
THIS birth and `cmd_lookup` has been rebuilt from scratch: exactly the ids of this birth of the
entries with a handler. -/
theorem M16_birth_contents (cfg : Cfg) (h : Name → Nat) (now : Nat) (order : List Name)
    (bi bi' : Init PV) (s : St H) (hi : Inv s)
    (hb : (initialiseBirth cfg h now order bi s).bi = some bi') :
    ∃ toks : List (Entry × MetricId),
      toks.map (·.1) = arrange s.metrics order ∧ (toks.map (·.1)).Perm s.metrics ∧
      bi'.metrics = bi.metrics ++ toks.map (fun p => birthMetricOf now p.1 p.2) ∧
      (∀ p ∈ toks, IdShape p.1 p.2) ∧ (toks.map (·.2)).Nodup ∧
      (∀ id ∈ toks.map (·.2), ¬ Used bi id) ∧
      ((initialiseBirth cfg h now order bi s).st.metrics).Perm (toks.map withToken) ∧
      (initialiseBirth cfg h now order bi s).st.lookup = cmdPairs toks ∧
      (initialiseBirth cfg h now order bi s).st.handle = s.handle ∧
      (initialiseBirth cfg h now order bi s).st.dead = false := by
  obtain ⟨hd, toks, g, hp, hst⟩ := initialiseBirth_ok hi hb
  refine ⟨toks, g.ents, hp, g.metrics, g.shape, g.nodup, g.fresh, ?_, ?_, ?_, ?_⟩
  · rw [hst]; exact setTokens_perm hi.names hp
  · rw [hst]
  · rw [hst]
  · rw [hst]; exact hd

/-- … read per metric: every registered metric appears in every birth EXACTLY ONCE, with its
current value and its alias flag -/
theorem M16_birth_every_metric_once (cfg : Cfg) (h : Name → Nat) (now : Nat) (order : List Name)
    (bi bi' : Init PV) (s : St H) (hi : Inv s)
    (hb : (initialiseBirth cfg h now order bi s).bi = some bi') (e : Entry) (he : e ∈ s.metrics) :
    ∃ id, IdShape e id ∧
      (bi'.metrics.drop bi.metrics.length).filter (fun m => decide (m.name = some e.name)) =
        [birthMetricOf now e id] := by
  obtain ⟨toks, _, hp, hm, hshape, _, _, _⟩ := M16_birth_contents cfg h now order bi bi' s hi hb
  have hkeys : (toks.map (fun p => p.1.name)).Nodup := by
    have := (hp.map (·.name)).nodup_iff.mpr hi.names
    rw [List.map_map] at this
    exact this
  obtain ⟨p, hpm, hpe⟩ := List.mem_map.mp (hp.mem_iff.mpr he)
  refine ⟨p.2, hpe ▸ hshape p hpm, ?_⟩
  rw [hm, List.drop_left]
  -- among metrics with pairwise distinct names, filtering by a member's name leaves that member
  have key : ∀ (l : List (Entry × MetricId)), (l.map (fun p => p.1.name)).Nodup → p ∈ l →
      (l.map (fun q => birthMetricOf now q.1 q.2)).filter (fun m => decide (m.name = some p.1.name)) =
        [birthMetricOf now p.1 p.2] := by
    intro l
    induction l with
    | nil => intro _ hc; cases hc
    | cons x t ih =>
      intro hnd hx
      simp only [List.map_cons, List.nodup_cons] at hnd
      simp only [List.map_cons, List.filter_cons, birthMetricOf, Option.some.injEq]
      simp only [List.mem_cons] at hx
      rcases hx with hx | hx
      · subst hx
        simp only [decide_true, if_true]
        congr 1
        rw [List.filter_eq_nil_iff]
        intro m hm'
        obtain ⟨q, hq, rfl⟩ := List.mem_map.mp hm'
        simp only [Option.some.injEq, decide_eq_true_eq]
        intro hc
        exact hnd.1 (hc ▸ List.mem_map.mpr ⟨q, hq, rfl⟩)
      · have hne : x.1.name ≠ p.1.name := fun hc => hnd.1 (hc ▸ List.mem_map.mpr ⟨p, hx, rfl⟩)
        simp only [hne, decide_false, Bool.false_eq_true, if_false]
        have := ih hnd.2 hx
        simpa [birthMetricOf] using this
  have := key toks hkeys hpm
  rw [hpe] at this
  exact this

/-- after a birth that did not panic, every entry holds a token, and it is the id of the metric
this very birth wrote for it -/
theorem M16_birth_tokens (cfg : Cfg) (h : Name → Nat) (now : Nat) (order : List Name)
    (bi bi' : Init PV) (s : St H) (hi : Inv s)
    (hb : (initialiseBirth cfg h now order bi s).bi = some bi') :
    ∀ e' ∈ (initialiseBirth cfg h now order bi s).st.metrics,
      ∃ e ∈ s.metrics, ∃ id, e' = { e with token := some id } ∧ IdShape e id ∧
        birthMetricOf now e id ∈ bi'.metrics := by
  obtain ⟨toks, _, hp, hm, hshape, _, _, hperm, _⟩ := M16_birth_contents cfg h now order bi bi' s hi hb
  intro e' he'
  obtain ⟨p, hpm, rfl⟩ := List.mem_map.mp (hperm.mem_iff.mp he')
  refine ⟨p.1, hp.mem_iff.mp (List.mem_map.mpr ⟨p, hpm, rfl⟩), p.2, rfl, hshape p hpm, ?_⟩
  rw [hm]
  exact List.mem_append_right _ (List.mem_map.mpr ⟨p, hpm, rfl⟩)

/-- `initialise_birth` of this model IS `Birth.runSimple`, the model C11 uses for a
SimpleMetricManager (`C11_simple_node_birth`, `C11_simple_device_birth`, `C11_cmd_lookup` apply):
same initializer afterwards, same ids, `cmd_lookup` = `Birth.cmdLookup`; and it panics exactly
when `runSimple` does. -/
theorem M16_birth_is_runSimple (cfg : Cfg) (h : Name → Nat) (now : Nat) (order : List Name)
    (bi : Init PV) (s : St H) (hd : s.dead = false) :
    (∀ bi', (initialiseBirth cfg h now order bi s).bi = some bi' →
      ∃ ids, runSimple cfg h now bi ((arrange s.metrics order).map toSimple) = .ok (bi', ids) ∧
        (initialiseBirth cfg h now order bi s).st.lookup =
          cmdLookup ((arrange s.metrics order).map toSimple) ids) ∧
    ((initialiseBirth cfg h now order bi s).bi = none ↔
      runSimple cfg h now bi ((arrange s.metrics order).map toSimple) = .panic) := by
  have hrs := birthGo_runSimple (cfg := cfg) (h := h) (now := now) (arrange s.metrics order) bi
  cases hf : (birthGo cfg h now bi (arrange s.metrics order)).2.2 with
  | none =>
    rw [hf] at hrs
    have hsucc := initialiseBirth_succ (order := order) hd hf
    have g := birthGo_ok (arrange s.metrics order) bi hf
    constructor
    · intro bi' hb
      rw [hsucc] at hb ⊢
      simp only [Option.some.injEq] at hb
      refine ⟨_, by rw [hrs, hb], ?_⟩
      show collect _ = _
      rw [collect_eq_self (cmdPairs_keys_nodup g.nodup), cmdPairs_cmdLookup, g.ents]
    · rw [hsucc, hrs]; simp
  | some n =>
    rw [hf] at hrs
    have hfail := initialiseBirth_fail (order := order) hd hf
    constructor
    · intro bi' hb; rw [hfail] at hb; cases hb
    · rw [hfail, hrs]; simp

/-- a birth that panics (an entry the initializer refuses: `.unwrap()`) leaves the manager
poisoned, and the entry at which it panicked too; `cmd_lookup` and the handle are as before, no
name is lost -/
theorem M16_birth_panic_poisons (cfg : Cfg) (h : Name → Nat) (now : Nat) (order : List Name)
    (bi : Init PV) (s : St H) (hd : s.dead = false)
    (hb : (initialiseBirth cfg h now order bi s).bi = none) :
    (initialiseBirth cfg h now order bi s).st.dead = true ∧
    (initialiseBirth cfg h now order bi s).st.lookup = s.lookup ∧
    (initialiseBirth cfg h now order bi s).st.handle = s.handle ∧
    (initialiseBirth cfg h now order bi s).st.metrics.map (·.name) = s.metrics.map (·.name) ∧
    ∃ n ∈ s.metrics.map (·.name), ∀ e ∈ (initialiseBirth cfg h now order bi s).st.metrics,
      e.name = n → e.poisoned = true := by
  cases hf : (birthGo cfg h now bi (arrange s.metrics order)).2.2 with
  | none => rw [initialiseBirth_succ hd hf] at hb; cases hb
  | some n =>
    rw [initialiseBirth_fail hd hf]
    refine ⟨rfl, rfl, rfl, by simp only [poison_names, setTokens_names], n, ?_, ?_⟩
    · have := birthGo_fail _ _ _ hf
      obtain ⟨e, he, rfl⟩ := List.mem_map.mp this
      have hin : e ∈ s.metrics := by
        unfold arrange at he
        obtain ⟨nm, _, hfind⟩ := List.mem_filterMap.mp he
        exact List.mem_of_find?_eq_some hfind
      exact List.mem_map.mpr ⟨e, hin, rfl⟩
    · intro e he hn
      simp only [poison, List.mem_map] at he
      obtain ⟨x, _, rfl⟩ := he
      by_cases hx : x.name = n
      · simp [hx]
      · simp [hx] at hn

/-! ### `cmd_lookup`, and which handler a command metric reaches -/

/-- In every reachable state `cmd_lookup.get(id)` is the entry that has a handler and whose
CURRENT token is `id` — nothing else. In particular an id of an earlier birth that no entry with a
handler holds any more does not route, and an id that moved to another entry routes to THAT
entry. -/
theorem M16_lookup_exact (s : St H) (hi : Inv s) (hd : s.dead = false) (id : MetricId) :
    hmGet s.lookup id =
      (s.metrics.find? (fun e => e.hasCb && decide (e.token = some id))).map (·.name) := by
  cases hf : s.metrics.find? (fun e => e.hasCb && decide (e.token = some id)) with
  | none =>
    rw [Option.map_none, hmGet_eq_none]
    intro n hm
    obtain ⟨e, he, _, h2, h3⟩ := (hi.lookup hd id n).mp hm
    have := List.find?_eq_none.mp hf e he
    simp [h2, h3] at this
  | some e =>
    have hem := List.mem_of_find?_eq_some hf
    have hpe := List.find?_some hf
    simp only [Bool.and_eq_true, decide_eq_true_eq] at hpe
    rw [Option.map_some]
    exact (hmGet_eq_some (hi.keys hd) id e.name).mpr
      ((hi.lookup hd id e.name).mpr ⟨e, hem, rfl, hpe.1, hpe.2⟩)

/-- ids that are not the current token of an entry with a handler — ids of earlier births, ids of
metrics without handler, the name of an aliased metric, unknown ids — are not in `cmd_lookup` -/
theorem M16_old_ids_do_not_route (s : St H) (hi : Inv s) (hd : s.dead = false) (id : MetricId)
    (hno : ∀ e ∈ s.metrics, e.hasCb = true → e.token ≠ some id) : hmGet s.lookup id = none := by
  rw [M16_lookup_exact s hi hd id]
  have : s.metrics.find? (fun e => e.hasCb && decide (e.token = some id)) = none := by
    rw [List.find?_eq_none]
    intro e he hc
    simp only [Bool.and_eq_true, decide_eq_true_eq] at hc
    exact hno e he hc.1 hc.2
  rw [this]; rfl

/-- `on_ncmd` / `on_dcmd` meets its specification in every reachable state: the handler calls
are, in command order, for each command metric at most one call — `route`: the handler of the
entry whose current token id equals the metric's id, with the converted value. -/
theorem M16_command_spec (s : St H) (hi : Inv s) (ms : List CmdMetric) :
    command s ms = if s.dead then .panic else .ok (ms.filterMap (route s)) := by
  unfold command
  cases hd : s.dead
  · simp only [Bool.false_eq_true, if_false]
    rw [callbacks_eq_route hi hd]
  · rfl

/-- what `route` is, spelled out: a call happens iff some entry with a handler holds the command
metric's id as its current token (there is at most one: `M16_current_id_unique`), and the value
is null (the handler gets `None`) or converts to the entry's type (the handler gets the
converted value); the call is that entry's handler. -/
theorem M16_route_iff (s : St H) (hi : Inv s) (hd : s.dead = false) (m : CmdMetric) (i : Invocation) :
    route s m = some i ↔
      ∃ e ∈ s.metrics, e.hasCb = true ∧ e.token = some m.id ∧ i.name = e.name ∧
        ((m.value = none ∧ i.value = none) ∨
         (∃ pv sv, m.value = some pv ∧ fromProto e.ty pv = .ok sv ∧ i.value = some sv)) := by
  obtain ⟨iname, ival⟩ := i
  have hcb : ∀ e : Entry, e.hasCb = true → (cmdCb e m.value = some ⟨iname, ival⟩ ↔
      iname = e.name ∧ ((m.value = none ∧ ival = none) ∨
        (∃ pv sv, m.value = some pv ∧ fromProto e.ty pv = .ok sv ∧ ival = some sv))) := by
    intro e hc
    unfold cmdCb
    simp only [hc, if_true]
    cases hv : m.value with
    | none =>
      simp only [Option.some.injEq, Invocation.mk.injEq]
      constructor
      · rintro ⟨rfl, rfl⟩; exact ⟨rfl, Or.inl ⟨by simp, rfl⟩⟩
      · rintro ⟨h1, h2 | ⟨pv, sv, h3, _⟩⟩
        · exact ⟨h1.symm, h2.2.symm⟩
        · simp at h3
    | some pv =>
      simp only
      cases hfp : fromProto e.ty pv with
      | ok sv =>
        simp only [Option.some.injEq, Invocation.mk.injEq]
        constructor
        · rintro ⟨rfl, rfl⟩; exact ⟨rfl, Or.inr ⟨pv, sv, by simp, hfp, rfl⟩⟩
        · rintro ⟨h1, ⟨h2, _⟩ | ⟨pv', sv', h3, h4, h5⟩⟩
          · simp at h2
          · cases h3
            rw [hfp] at h4; cases h4
            exact ⟨h1.symm, h5.symm⟩
      | err er =>
        simp only [reduceCtorEq, false_iff]
        rintro ⟨_, ⟨h2, _⟩ | ⟨pv', sv', h3, h4, _⟩⟩
        · simp at h2
        · cases h3; rw [hfp] at h4; cases h4
      | panic =>
        simp only [reduceCtorEq, false_iff]
        rintro ⟨_, ⟨h2, _⟩ | ⟨pv', sv', h3, h4, _⟩⟩
        · simp at h2
        · cases h3; rw [hfp] at h4; cases h4
  unfold route
  cases hf : s.metrics.find? (fun e => e.hasCb && decide (e.token = some m.id)) with
  | none =>
    simp only [Option.bind_none, reduceCtorEq, false_iff]
    rintro ⟨e, he, h1, h2, _⟩
    have := List.find?_eq_none.mp hf e he
    simp [h1, h2] at this
  | some e =>
    have hem := List.mem_of_find?_eq_some hf
    have hpe := List.find?_some hf
    simp only [Bool.and_eq_true, decide_eq_true_eq] at hpe
    simp only [Option.bind_some]
    rw [hcb e hpe.1]
    constructor
    · rintro ⟨h1, h2⟩; exact ⟨e, hem, hpe.1, hpe.2, h1, h2⟩
    · rintro ⟨e', he', h1, h2, h3, h4⟩
      have : e' = e := M16_current_id_unique s hi hd e' e he' hem m.id h2 hpe.2
      subst this
      exact ⟨h3, h4⟩

/-- nothing is invoked for a command metric whose id no entry with a handler currently holds
(unknown id, id of an earlier birth, metric without handler, wrong id form) -/
theorem M16_no_route_without_current_handler (s : St H) (m : CmdMetric)
    (hno : ∀ e ∈ s.metrics, e.hasCb = true → e.token ≠ some m.id) : route s m = none := by
  unfold route
  have : s.metrics.find? (fun e => e.hasCb && decide (e.token = some m.id)) = none := by
    rw [List.find?_eq_none]
    intro e he hc
    simp only [Bool.and_eq_true, decide_eq_true_eq] at hc
    exact hno e he hc.1 hc.2
  rw [this]; rfl

/-- nothing is invoked for a value that does not convert to the metric's type — the handler is
NOT called with `None` -/
theorem M16_unconvertible_invokes_nothing (e : Entry) (pv : PV)
    (hne : ∀ sv, fromProto e.ty pv ≠ .ok sv) : cmdCb e (some pv) = none := by
  unfold cmdCb
  split
  · cases hfp : fromProto e.ty pv with
    | ok sv => exact absurd hfp (hne sv)
    | err _ => simp [hfp]
    | panic => simp [hfp]
  · rfl

/-- a null command value reaches the handler as `None`, whatever the type -/
theorem M16_null_invokes_with_none (e : Entry) (hc : e.hasCb = true) :
    cmdCb e none = some ⟨e.name, none⟩ := by
  unfold cmdCb; simp [hc]

/-- the calls are a subsequence image of the command metrics: at most one per metric, in order -/
theorem M16_command_at_most_once_in_order (s : St H) (hi : Inv s) (hd : s.dead = false)
    (ms : List CmdMetric) :
    callbacks s ms = ms.filterMap (route s) ∧ (callbacks s ms).length ≤ ms.length := by
  rw [callbacks_eq_route hi hd]
  exact ⟨rfl, List.length_filterMap_le _ _⟩

/-- the command path changes nothing in the manager (`step`): the handlers are the only effect -/
theorem M16_command_pure (s : St H) (ms : List CmdMetric) : step s (.command ms) = s := rfl

/-! ### `update` and `publish_metric(s)` -/

/-- `metric.update(f)` in any state with pairwise distinct names (every reachable one): the value
becomes `f value`, nothing else changes anywhere; a publish metric is produced IFF the entry holds
a token, and it carries that token's id, the NEW value and the clock reading -/
theorem M16_update_spec (now : Nat) (s : St H) (hnd : (s.metrics.map (·.name)).Nodup) (e : Entry)
    (he : e ∈ s.metrics) (hp : e.poisoned = false) (f : SV → SV) :
    update now s e.name f =
      .ok ({ s with metrics := s.metrics.map fun x =>
                if x.name = e.name then { x with value := f x.value } else x },
           e.token.map fun id => ⟨id, some (toProto e.ty (f e.value)), now⟩) := by
  unfold update
  rw [find?_key_of_mem (fun x : Entry => x.name) hnd he]
  simp [hp, createPublish]

/-- … and the entry afterwards is the entry before with the new value -/
theorem M16_update_value (now : Nat) (s s' : St H) (hnd : (s.metrics.map (·.name)).Nodup) (e : Entry)
    (he : e ∈ s.metrics) (f : SV → SV) (pm : Option PM)
    (hu : update now s e.name f = .ok (s', pm)) :
    { e with value := f e.value } ∈ s'.metrics ∧ s'.lookup = s.lookup ∧ s'.handle = s.handle ∧
    s'.dead = s.dead ∧ (pm.isSome ↔ e.token.isSome) := by
  unfold update at hu
  rw [find?_key_of_mem (fun x : Entry => x.name) hnd he] at hu
  cases hp : e.poisoned with
  | true => simp [hp] at hu
  | false =>
    simp only [hp, Bool.false_eq_true, if_false, R.ok.injEq, Prod.mk.injEq] at hu
    obtain ⟨rfl, rfl⟩ := hu
    refine ⟨List.mem_map.mpr ⟨e, he, by simp [hp]⟩, rfl, rfl, rfl, ?_⟩
    cases e.token <;> simp

/-- publishing before `init`: `Err(UnBirthed)`, and nothing is handed to anybody -/
theorem M16_publish_before_init (s : St H) (hd : s.dead = false) (hh : s.handle = none)
    (pms : List (Option PM)) : publish s pms = .ok .noHandle := by
  unfold publish; simp [hd, hh]

/-- with a handle: exactly the publish metrics that exist (the results of `update` on entries
without token are filtered out) go to `handle.publish_metrics`, in the order given -/
theorem M16_publish_hands_over (s : St H) (hd : s.dead = false) (h : H) (hh : s.handle = some h)
    (pms : List (Option PM)) : publish s pms = .ok (.handed h (pms.filterMap id)) := by
  unfold publish; simp [hd, hh]

/-- the freshest handle wins: after `init(h)` everything is handed to `h` -/
theorem M16_init_then_publish (s : St H) (hd : s.dead = false) (h : H) (pms : List (Option PM)) :
    ∃ s', init s h = .ok s' ∧ s'.metrics = s.metrics ∧ s'.lookup = s.lookup ∧
      publish s' pms = .ok (.handed h (pms.filterMap id)) := by
  refine ⟨{ s with handle := some h }, by unfold init; simp [hd], rfl, rfl, ?_⟩
  unfold publish; simp [hd]

/-- the handler of the doc example, run for a call with a value on a birthed entry of a manager
with a handle: the entry holds the received value afterwards, and one publish metric with the
entry's current token id and that value is handed to the handle -/
theorem M16_echo_handler (now : Nat) (s : St H) (hi : Inv s) (hd : s.dead = false) (h : H)
    (hh : s.handle = some h) (e : Entry) (he : e ∈ s.metrics) (hp : e.poisoned = false)
    (id : MetricId) (ht : e.token = some id) (v : SV) :
    ∃ s', echoHandler now s ⟨e.name, some v⟩ =
        (s', some (.ok (.handed h [⟨id, some (toProto e.ty v), now⟩]))) ∧
      { e with value := v } ∈ s'.metrics ∧ s'.lookup = s.lookup := by
  have hu := M16_update_spec now s hi.names e he hp (fun _ => v)
  simp only [echoHandler, hu, ht, Option.map_some]
  refine ⟨{ s with metrics := s.metrics.map fun x =>
      if x.name = e.name then { x with value := v } else x }, ?_,
    List.mem_map.mpr ⟨e, he, by rw [if_pos rfl, ht]⟩, rfl⟩
  unfold publish
  simp [hd, hh]

/-! ### a poisoned manager -/

/-- once a birth panicked, every call that takes the manager's lock panics and changes nothing -/
theorem M16_dead_absorbing (s : St H) (hd : s.dead = true) :
    (∀ n ty v a c, register s n ty v a c = .panic) ∧
    (∀ pms, publish s pms = .panic) ∧
    (∀ ms, command s ms = .panic) ∧
    (∀ h, init s h = .panic) ∧
    (∀ cfg h now order bi, initialiseBirth cfg h now order bi s = ⟨s, none⟩) := by
  refine ⟨?_, ?_, ?_, ?_, ?_⟩
  · intro n ty v a c; unfold register; simp [hd]
  · intro pms; unfold publish; simp [hd]
  · intro ms; unfold command; simp [hd]
  · intro h; unfold init; simp [hd]
  · intro cfg h now order bi; exact initialiseBirth_dead cfg h now order bi hd

/-! ### consistency with the other models -/

/-- `dtCode` is `T::default_datatype()` as modelled for the derive macro (C18) -/
theorem M16_dtCode_is_default_datatype (ty : STy) : dtCode ty = (Srad.Derive.dtOf ty).code := by
  cases ty <;> decide

/-- no scalar type is of datatype Template: `register_metric` never refuses a SimpleMetricManager
entry for its datatype (a refusal is always a name clash or an alias overflow) -/
theorem M16_dtCode_ne_template (ty : STy) : dtCode ty ≠ dtTemplate := by
  cases ty <;> decide

/-! ### non-vacuity (tests, not the claim) -/

section Examples

def exH : Name → Nat := fun n => if n = [1] then 7 else if n = [2] then 7 else 40
def exCfg : Cfg := ⟨true, true, true⟩
def exBi : Init PV := { obj := 0, registry := [] }
/-- a device's initializer (id 3): same names, other aliases -/
def exBiDev : Init PV := { obj := 3, registry := [] }

/-- register [1] (u8, alias, handler), [2] (string, by name, handler), [3] (bool, alias, no
handler), [1] again (refused); birth; update [1]; register [4] (alias, handler); init -/
def exOps : List (Op Nat) :=
  [ .register [1] .u8 (.n 5) true true,
    .register [2] .string (.s [0x61]) false true,
    .register [3] .bool (.b false) true false,
    .register [1] .string (.s []) false false,
    .birth exCfg exH 100 [[2], [1], [3]] exBi,
    .update 101 [1] (fun _ => .n 9),
    .register [4] .u8 (.n 1) true true,
    .init 77 ]

def exSt : St Nat := run {} exOps

example : exSt.metrics.map (fun e => (e.name, e.value, e.token)) =
    [([1], .n 9, some (.alias 7)), ([2], .s [0x61], some (.name [2])),
     ([3], .b false, some (.alias 40)), ([4], .n 1, none)] := by decide +kernel

example : exSt.lookup = [(.name [2], [2]), (.alias 7, [1])] ∧ exSt.handle = some 77 ∧
    exSt.dead = false := by decide +kernel

/-- the birth wrote the three metrics in iteration order with their current values -/
example : ((initialiseBirth exCfg exH 100 [[2], [1], [3]] exBi (run {} (exOps.take 4))).bi.map
      (·.metrics)) =
    some [ { name := some [2], datatype := some 12, timestamp := some 100,
             value := some (.user (.str [0x61])) },
           { name := some [1], alias := some 7, datatype := some 5, timestamp := some 100,
             value := some (.user (.int 5)) },
           { name := some [3], alias := some 40, datatype := some 11, timestamp := some 100,
             value := some (.user (.bool false)) } ] := by decide +kernel

/-- commands: alias of [1] with an int (converted, low byte), with a string (skipped), null
(handler gets None); [2] by name; [3] has no handler; [4] has no token yet; unknown alias; the NAME
of the aliased [1] -/
example : command exSt
      [⟨.alias 7, some (.int 300)⟩, ⟨.alias 7, some (.str [])⟩, ⟨.alias 7, none⟩,
       ⟨.name [2], some (.str [0x62])⟩, ⟨.alias 40, some (.bool true)⟩, ⟨.alias 41, some (.int 1)⟩,
       ⟨.alias 99, none⟩, ⟨.name [1], some (.int 1)⟩] =
    .ok [⟨[1], some (.n 44)⟩, ⟨[1], none⟩, ⟨[2], some (.s [0x62])⟩] := by decide +kernel

/-- a rebirth in another iteration order with the colliding name [2]… here [1] and [2] collide
(both hash to 7) once [2] is aliased too: the ids depend on the order, and after a rebirth the
OLD id of one metric routes to the OTHER -/
def exOps2 : List (Op Nat) :=
  [ .register [1] .u8 (.n 5) true true,
    .register [2] .u8 (.n 6) true true,
    .birth exCfg exH 100 [[1], [2]] exBi ]

example : (run {} exOps2).lookup = [(.alias 7, [1]), (.alias 8, [2])] ∧
    (run (run {} exOps2) [.birth exCfg exH 200 [[2], [1]] exBi]).lookup =
      [(.alias 7, [2]), (.alias 8, [1])] := by decide +kernel

example : command (run (run {} exOps2) [.birth exCfg exH 200 [[2], [1]] exBi])
    [⟨.alias 7, some (.int 1)⟩] = .ok [⟨[2], some (.n 1)⟩] := by decide +kernel

/-- the same manager birthed by a device with id 3: other aliases; the node-birth ids are gone -/
example : (run (run {} exOps2) [.birth exCfg exH 300 [[1], [2]] exBiDev]).lookup =
      [(.alias (3 * two32 + 7), [1]), (.alias (3 * two32 + 8), [2])] ∧
    command (run (run {} exOps2) [.birth exCfg exH 300 [[1], [2]] exBiDev])
      [⟨.alias 7, some (.int 1)⟩, ⟨.alias (3 * two32 + 7), some (.int 2)⟩] =
      .ok [⟨[1], some (.n 2)⟩] := by decide +kernel

/-- update before any birth: no publish metric; after: one with the token's id and the new value;
publishing without handle hands nothing over, with handle the tokenless results are filtered -/
example : (match update 5 (run {} (exOps.take 3)) [1] (fun _ => .n 6) with
      | .ok (_, pm) => pm.isNone | .panic => false) = true ∧
    (match update 5 exSt [1] (fun _ => .n 6) with
      | .ok (_, some pm) => decide (pm.id = .alias 7 ∧ pm.value = some (.int 6) ∧ pm.ts = 5)
      | _ => false) = true ∧
    (match publish (run {} (exOps.take 7)) [none, some ⟨.alias 7, some (.int 6), 5⟩] with
      | .ok .noHandle => true | _ => false) = true ∧
    (match publish exSt [none, some ⟨.alias 7, some (.int 6), 5⟩, none] with
      | .ok (.handed 77 [pm]) => decide (pm.id = .alias 7)
      | _ => false) = true := by decide +kernel

/-- a node manager with an entry named bdSeq: the initializer already holds that name, the birth
panics, the manager is dead, the entry poisoned; everything on the manager panics afterwards -/
def exBiNode : Init PV := { obj := 0, registry := [], names := [rebirthName, bdSeqName] }

example :
    let s := run ({} : St Nat) [.register [1] .u8 (.n 5) true true,
      .register bdSeqName .i64 (.n 0) true false, .birth exCfg exH 100 [] exBiNode]
    s.dead = true ∧ s.metrics.map (·.poisoned) = [false, true] ∧
    (match register s [9] .u8 (.n 0) true false with | .panic => true | _ => false) = true ∧
    (match update 1 s bdSeqName id with | .panic => true | _ => false) = true ∧
    (match update 1 s [1] id with | .ok _ => true | _ => false) = true := by decide +kernel

/-- the hypotheses of the theorems are satisfiable: the example state is reachable, alive, has a
handle, entries with and without token / handler -/
example : Inv exSt := M16_invariant_reachable exOps

end Examples

end Srad.SimpleMgr
