/-
C05 — Host applies each node's messages in publisher order, exactly once.
Property theorems only (helper lemmas: `SradModel/Proofs/HostSeq.lean`).
-/
import SradModel.Proofs.HostSeq

namespace Srad.Host
open Srad.Host.SeqP

/-- **Order, for every history** (duplicates, losses, any arrival order): the messages one step
applies carry consecutive sequence numbers starting at the expected one; unless the step ends in
staleness the expected number advances by exactly their count. Hence between an accepted NBIRTH
(which sets the expected number to 1, next theorem) and the next staleness the applied messages
carry 1, 2, 3, … (mod 256) with no gap, repeat or inversion. -/
theorem C05_applied_consecutive (c : Cfg) (s : St) (i : In) (now wall : Nat) (hinv : HostInv s)
    (hwf : i.WF) (hres : c.resequence = true) :
    (∀ k (hk : k < (appliedSeqs c s i).length),
        (appliedSeqs c s i)[k] = (s.reseq.next + k) % 256) ∧
    ((step c s i now wall).1.life = .birthed → (∀ ts bd id ans, i ≠ .nbirth ts bd id ans) →
        (step c s i now wall).1.reseq.next = (s.reseq.next + (appliedSeqs c s i).length) % 256) := by
  exact applied_consecutive c s i now wall hinv hwf hres

/-- an accepted NBIRTH restarts the sequence at 1 with an empty buffer; an NBIRTH that is not
strictly newer is ignored (C14) -/
theorem C05_nbirth_restarts (c : Cfg) (s : St) (ts bd id : Nat) (ans : Ans) (now wall : Nat)
    (hnew : s.birthTs < ts) (hok : ans = .ok) :
    (step c s (.nbirth ts bd id ans) now wall).1.reseq = Reseq.setNext Reseq.init 1 ∧
    (step c s (.nbirth ts bd id ans) now wall).1.life = .birthed ∧
    (step c s (.nbirth ts bd id ans) now wall).1.birthTs = ts := by
  exact nbirth_restarts c s ts bd id ans now wall hnew hok

/-- the number of store-touching effects of a step never exceeds the number of messages it
applied: nothing is applied twice within a step, nothing is invented -/
theorem C05_effects_bounded (c : Cfg) (s : St) (seq ts : Nat) (m : RMsg) (now wall : Nat)
    (hinv : HostInv s) (hseq : seq < 256) :
    ((step c s (.rmsg seq ts m) now wall).2.filter
        (fun e => match e with | .nodeData _ | .devData _ _ | .devBirth _ _ _ => true | _ => false)).length
      ≤ (appliedSeqs c s (.rmsg seq ts m)).length := by
  have hp : (fun e : Eff => match e with
      | .nodeData _ | .devData _ _ | .devBirth _ _ _ => true | _ => false) = isMsgEff := by
    funext e; cases e <;> rfl
  rw [hp]
  exact effects_bounded c s seq ts m now wall hinv hseq

/-- **Promptness and order for complete streams (and C07's "never requests a rebirth of a node
whose messages all arrive").** Start right after an accepted NBIRTH. Deliver the messages
`msgs 0, msgs 1, …` of the session (message `i` carries sequence number `(1+i) % 256`, as many
wraps as it takes) without duplicates in any order that keeps fewer than 256 numbers
outstanding, at arbitrary clock readings, the timer never firing (every gap closes in time). If
the publisher and the stores are well behaved — applying the messages in publish order raises no
reason — then the observable effects of the whole delivery are exactly the effects of applying
`msgs 0 … msgs (mex-1)` in publish order, where `mex` is the first message still missing: every
message is applied as soon as all its predecessors have arrived, in publisher order, once; no
rebirth is requested; the node stays birthed. -/
theorem C05_prompt_in_order (c : Cfg) (s0 : St) (ts : Nat → Nat) (msgs : Nat → RMsg)
    (clk : Nat → Nat × Nat) (arr : List Nat)
    (hres : c.resequence = true) (hinv : HostInv s0) (hb : s0.life = .birthed)
    (hstart : s0.reseq = Reseq.setNext Reseq.init 1) (htimer : s0.timer = .none)
    (hnodup : arr.Nodup) (hwin : Reseq.WindowOk arr) (hfresh : ∀ i ∈ arr, Fresh s0 (ts i))
    (hclean : (applyAll s0 ((List.range (Reseq.mexOf arr)).map msgs)).2.2 = none) :
    ((run c s0 (arr.map (sessEv ts msgs clk))).2.filter Eff.observable
        = (applyAll s0 ((List.range (Reseq.mexOf arr)).map msgs)).2.1) ∧
    Eff.ncmd ∉ (run c s0 (arr.map (sessEv ts msgs clk))).2 ∧
    (run c s0 (arr.map (sessEv ts msgs clk))).1.life = .birthed ∧
    (run c s0 (arr.map (sessEv ts msgs clk))).1.reseq.next = (1 + Reseq.mexOf arr) % 256 := by
  have _ := hinv; have _ := htimer   -- not needed by the proof
  exact prompt_in_order c s0 ts msgs clk arr hres hb hstart hnodup hwin hfresh hclean

/-! ### non-vacuity: a session delivered as 1,3,0,2 (sequence numbers 2,4,1,3) -/
example :
    let c := exampleCfg (some 100) 0
    let s0 := (step c init (.nbirth 10 3 1 .ok) 10 10).1
    let msgs : Nat → RMsg := fun i => .ndata (100 + i) .ok
    ((run c s0 ([1, 3, 0, 2].map (sessEv (fun i => 11 + i) msgs (fun i => (20 + i, 20 + i))))).2.filter Eff.observable)
      = [.nodeData 100, .nodeData 101, .nodeData 102, .nodeData 103] := by decide

end Srad.Host
