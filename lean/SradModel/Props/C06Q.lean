/-
C06 (and the history-universal statements of C05 / C07) WITHOUT quiescence between events.
`Model/HostQ` is the host application as a labelled transition system: the dispatcher with its
inbox, per node a bounded message queue, the capacity-1 rebirth channel, the actor (`Host.step`
as a black box) and the reorder-timeout task; `Reach c q t0 σ outs` = an execution (any
interleaving of push / dispatch / offl / actMsg / actReason / fire / tick) from the initial state
to `σ`, `outs` being the record of what every transition did.

The theorems of `Props/C05.lean`, `C06.lean`, `C07.lean` quantify over ALL input histories of one
actor. Here: in every execution of the LTS every node's actor has run exactly such a history
(`C06Q_actor_trace_is_run`), hence all of them hold without quiescence too.
Property theorems only (helper lemmas: `SradModel/Proofs/HostQ.lean`).

Hypotheses, explicitly:
* events pushed by the environment are `u8`-well-formed (`AppEv.wf`, the GUARD of `push`: it is
  what the types `u8` of `seq` / `bdseq` in srad-app/src/events.rs guarantee);
* `DeathsPrompt outs` (only `C06Q_actor_trace_is_run`): every NDEATH was handled at the clock
  reading it was dispatched at. `Node::handle_death` marks stale with the DISPATCH time and, on a
  bdSeq mismatch, `issue_rebirth` reads the clock AGAIN: one NDEATH = two actor inputs with two
  readings. `C06Q_actor_trace_is_run_exact` needs no such hypothesis and is what the corollaries
  use; `C06Q_ndeath_is_one_step` says when the two inputs collapse into `Host.step` on the NDEATH;
* ClockCoherent (`birthTs ≤` the clock readings involved) where `C07_ncmd_only_when_stale` has it.
-/
import SradModel.Proofs.HostQ
import SradModel.Props.C05
import SradModel.Props.C06
import SradModel.Props.C07

namespace Srad.HostQ
open Srad.Host

/-- **Every actor's trace is a run of `Host.run`, exact form** (no hypothesis). For every
execution and every node `n`: the effects `n`'s actor produced are those of `Host.run` from
`Host.init` on the history `histOf n outs` of inputs it executed, and its state is the state
that run ends in. The messages it took from its queue followed by those still queued are, in
order, exactly the messages the dispatcher put in (FIFO, none lost, none duplicated); the reasons
it took from the rebirth channel followed by the pending one are exactly the reasons that were
ACCEPTED into the channel (by the dispatcher or the timeout task; a reason offered while one was
pending is in neither list). Every input of the history is well formed, its `now` reading is at
most its `wall` reading (they differ only for an NDEATH: dispatch vs. handling time), `wall` is at
most the clock and never decreases along the history. -/
theorem C06Q_actor_trace_is_run_exact (c : Cfg) (q t0 : Nat) (σ : State) (outs : List Out)
    (h : Reach c q t0 σ outs) (n : Nat) :
    effsOf n outs = (Host.run c Host.init (histOf n outs)).2 ∧
    (σ.node n).st = (Host.run c Host.init (histOf n outs)).1 ∧
    tookMsgsOf n outs ++ (σ.node n).queue = sentOf n outs ∧
    tookReasonsOf n outs ++ (σ.node n).pending.toList = acceptedOf n outs ∧
    (∀ e ∈ histOf n outs, e.inp.WF ∧ e.now ≤ e.wall ∧ e.wall ≤ σ.clock) ∧
    (histOf n outs).Pairwise (fun a b => a.wall ≤ b.wall) := by
  have g := (reach_ginv h).nodes n
  exact ⟨g.effs_eq, g.st_eq, g.fifo, g.chan, g.hist_ok, g.sorted⟩

/-- **Every actor's trace is a run of `Host.run`** — the statement with the history spelled out.
If every NDEATH was handled at the clock reading it was dispatched at (`DeathsPrompt`; e.g. the
clock does not move while an NDEATH waits in a queue), then for every execution and node `n`
there is a history `evs : List Host.Ev` such that
* the effects of `n`'s actor are `(Host.run c Host.init evs).2`, its state `(…).1`;
* the message inputs of `evs` (nbirth / ndeath / rmsg / offline) are, in order, exactly the
  messages the actor took from its queue, and these followed by the queue's content are exactly
  the messages dispatched to `n`: FIFO preserved, none lost, none duplicated;
* the `rebirthReq` inputs of `evs` are, in order, exactly the reasons taken from the rebirth
  channel, and these followed by the pending one are exactly the reasons ACCEPTED into it
  (`timerFire` never occurs: the timeout task's reason arrives as `rebirthReq reorderTimeout`);
* every input is well formed; `now ≤ wall ≤` the clock; `wall` never decreases. -/
theorem C06Q_actor_trace_is_run (c : Cfg) (q t0 : Nat) (σ : State) (outs : List Out)
    (h : Reach c q t0 σ outs) (hp : DeathsPrompt outs) (n : Nat) :
    ∃ evs : List Ev,
      effsOf n outs = (Host.run c Host.init evs).2 ∧
      (σ.node n).st = (Host.run c Host.init evs).1 ∧
      msgInputs evs = (tookMsgsOf n outs).map (·.inp) ∧
      tookMsgsOf n outs ++ (σ.node n).queue = sentOf n outs ∧
      reasonInputs evs = tookReasonsOf n outs ∧
      tookReasonsOf n outs ++ (σ.node n).pending.toList = acceptedOf n outs ∧
      (∀ e ∈ evs, e.inp.WF ∧ e.now ≤ e.wall ∧ e.wall ≤ σ.clock) ∧
      evs.Pairwise (fun a b => a.wall ≤ b.wall) := by
  have G := reach_ginv h
  have g := G.nodes n
  have hpl := wf_plain G.wf hp n
  have hin := wf_plain_inputs G.wf n
  have hcl := wf_plain_clocks G.wf n
  refine ⟨plainHistOf n outs, ?_, ?_, hin.1, g.fifo, hin.2, g.chan, hcl.1, hcl.2⟩
  · rw [hpl]; exact g.effs_eq
  · rw [hpl]; exact g.st_eq

/-- when one queued NDEATH is one `Host.step`: the clock did not move between dispatch and
handling, or the birth timestamp the actor holds is not ahead of the dispatch time
(ClockCoherent), or the node is held stale anyway. Otherwise (the excluded point lies inside known
finding K1: node clock ahead of the host's) the code's two clock readings are two inputs. -/
theorem C06Q_ndeath_is_one_step (c : Cfg) (s : St) (bd d t : Nat)
    (h : d = t ∨ s.birthTs ≤ d ∨ s.life = .stale) :
    Host.run c s (actEvs s ⟨.ndeath bd, d⟩ t) = Host.step c s (.ndeath bd) d t :=
  death_two_steps c s bd d t h

/-- **C06, first sentence, without quiescence.** In every execution, in every node's effect
trace, each data effect on the node's store is preceded, most recently among its lifecycle
effects, by an accepted birth, and each data effect on a device's store likewise for the node
and for that device. (`C06_data_guarded` instantiated with the history of
`C06Q_actor_trace_is_run_exact`.) -/
theorem C06Q_data_guarded (c : Cfg) (q t0 : Nat) (σ : State) (outs : List Out)
    (h : Reach c q t0 σ outs) (n : Nat) :
    DataGuarded .stale (fun _ => .stale) (effsOf n outs) := by
  obtain ⟨he, _, _, _, hok, _⟩ := C06Q_actor_trace_is_run_exact c q t0 σ outs h n
  rw [he]
  exact C06_data_guarded c (histOf n outs) (fun e he => (hok e he).1)

/-- every actor state in every reachable state of the LTS satisfies the invariant -/
theorem C06Q_reachable_inv (c : Cfg) (q t0 : Nat) (σ : State) (outs : List Out)
    (h : Reach c q t0 σ outs) (n : Nat) : HostInv (σ.node n).st := by
  obtain ⟨_, hs, _, _, hok, _⟩ := C06Q_actor_trace_is_run_exact c q t0 σ outs h n
  rw [hs]
  exact C06_reachable_inv c (histOf n outs) (fun e he => (hok e he).1)

/-- what an actor records as lifecycle is what its stores were told, in every reachable state -/
theorem C06Q_state_matches_trace (c : Cfg) (q t0 : Nat) (σ : State) (outs : List Out)
    (h : Reach c q t0 σ outs) (n : Nat) :
    (σ.node n).st.life = nodeLife .stale (effsOf n outs) ∧
    ∀ d, devState (σ.node n).st d = devLife d .stale (effsOf n outs) := by
  obtain ⟨he, hs, _, _, hok, _⟩ := C06Q_actor_trace_is_run_exact c q t0 σ outs h n
  rw [he, hs]
  exact C06_state_matches_trace c (histOf n outs) (fun e he => (hok e he).1)

/-- **C07 "only for a node it holds stale", without quiescence** (ClockCoherent). In every
reachable state, whichever arm of the actor's `select!` is taken — a queued message or the pending
reason, at whatever position the scheduler chose —: if the step publishes the rebirth NCMD, the
node is held stale afterwards and its store was marked stale if it was not.
`hclock` / `hdisp`: the birth timestamp the actor holds is not ahead of the clock readings the
step uses (the handling time; for a queued NDEATH its dispatch time). -/
theorem C07Q_ncmd_only_when_stale (c : Cfg) (q t0 : Nat) (σ σ' : State) (outs o : List Out)
    (h : Reach c q t0 σ outs) (n : Nat)
    (hs : HostQ.step c q σ (.actMsg n) = some (σ', o) ∨ HostQ.step c q σ (.actReason n) = some (σ', o))
    (hclock : (σ.node n).st.birthTs ≤ σ.clock)
    (hdisp : ∀ m ∈ (σ.node n).queue, (σ.node n).st.birthTs ≤ m.disp)
    (hn : Eff.ncmd ∈ effsOf n o) :
    (σ'.node n).st.life = .stale ∧
    ((σ.node n).st.life = .birthed → Eff.nodeStale ∈ effsOf n o) := by
  have hinv := C06Q_reachable_inv c q t0 σ outs h n
  have g := (reach_ginv h).nodes n
  rcases hs with hs | hs
  · simp only [HostQ.step] at hs
    obtain ⟨nd, nd', hg, hf, rfl⟩ := onNode_some hs
    obtain ⟨m, rest, hq, rfl, rfl⟩ := actMsg_some hf
    have hnd := node_of_get hg
    unfold NodeInv at g
    rw [hnd] at hinv hclock hdisp g
    have hm := g.queue_ok m (by rw [hq]; exact List.mem_cons_self ..)
    have hmd := hdisp m (by rw [hq]; exact List.mem_cons_self ..)
    have hpl := actEvs_plain c nd.st m σ.clock (fun bd _ => Or.inr (Or.inl hmd))
    rw [run_single] at hpl
    have hnow : nd.st.birthTs ≤ m.now σ.clock := by
      unfold QMsg.now
      split
      · exact hmd
      · exact hclock
    rw [node_withNode_self, hnd]
    simp only [effsOf, Out.effs, List.flatMap_cons, List.flatMap_nil, if_true, List.append_nil] at hn ⊢
    rw [hpl] at hn ⊢
    exact C07_ncmd_only_when_stale c nd.st m.inp (m.now σ.clock) σ.clock hinv hm.1 hnow hn
  · simp only [HostQ.step] at hs
    obtain ⟨nd, nd', hg, hf, rfl⟩ := onNode_some hs
    obtain ⟨r, hp, rfl, rfl⟩ := actReason_some hf
    have hnd := node_of_get hg
    rw [hnd] at hinv hclock
    rw [node_withNode_self, hnd]
    simp only [effsOf, Out.effs, List.flatMap_cons, List.flatMap_nil, if_true, List.append_nil] at hn ⊢
    exact C07_ncmd_only_when_stale c nd.st (.rebirthReq r) σ.clock σ.clock hinv trivial hclock hn

/-- **C05 order, without quiescence.** In every reachable state, when node `n`'s actor takes a
resequenceable message from its queue — wherever the scheduler placed that step relative to
pending reasons —, the messages the step applies carry consecutive sequence numbers starting at
the expected one, and unless the step ends in staleness the expected number advances by exactly
their count. -/
theorem C05Q_applied_consecutive (c : Cfg) (q t0 : Nat) (σ σ' : State) (outs o : List Out)
    (h : Reach c q t0 σ outs) (n : Nat) (seq ts d : Nat) (rm : RMsg) (rest : List QMsg)
    (hq : (σ.node n).queue = ⟨.rmsg seq ts rm, d⟩ :: rest)
    (hs : HostQ.step c q σ (.actMsg n) = some (σ', o)) (hres : c.resequence = true) :
    (∀ k (hk : k < (appliedSeqs c (σ.node n).st (.rmsg seq ts rm)).length),
        (appliedSeqs c (σ.node n).st (.rmsg seq ts rm))[k] = ((σ.node n).st.reseq.next + k) % 256) ∧
    ((σ'.node n).st.life = .birthed →
        (σ'.node n).st.reseq.next
          = ((σ.node n).st.reseq.next + (appliedSeqs c (σ.node n).st (.rmsg seq ts rm)).length) % 256) := by
  have hinv := C06Q_reachable_inv c q t0 σ outs h n
  have g := (reach_ginv h).nodes n
  simp only [HostQ.step] at hs
  obtain ⟨nd, nd', hg, hf, rfl⟩ := onNode_some hs
  obtain ⟨m, rest', hq', rfl, rfl⟩ := actMsg_some hf
  have hnd := node_of_get hg
  unfold NodeInv at g
  rw [hnd] at hinv g hq ⊢
  rw [hq] at hq'
  simp only [List.cons.injEq] at hq'
  obtain ⟨rfl, rfl⟩ := hq'
  have hwf : In.WF (.rmsg seq ts rm) := (g.queue_ok _ (by rw [hq]; exact List.mem_cons_self ..)).1
  obtain ⟨h1, h2⟩ := C05_applied_consecutive c nd.st (.rmsg seq ts rm) σ.clock σ.clock hinv hwf hres
  refine ⟨h1, ?_⟩
  rw [node_withNode_self]
  have e : run c nd.st (actEvs nd.st ⟨.rmsg seq ts rm, d⟩ σ.clock)
      = Host.step c nd.st (.rmsg seq ts rm) σ.clock σ.clock := by
    simp [actEvs, run_single]
  simp only [e]
  exact fun hb => h2 hb (fun _ _ _ _ hc => by cases hc)

/-- **The capacity-1 rebirth channel, stated outright**: `try_send` while a reason is pending
changes nothing and reports failure (the new reason is dropped); into the empty channel it is
accepted. -/
theorem HostQ_reason_dropped_when_pending (nd : Node) (r r0 : Reason) (h : nd.pending = some r0) :
    offer nd r = (nd, false) := by
  simp [offer, h]

theorem HostQ_reason_accepted_when_empty (nd : Node) (r : Reason) (h : nd.pending = none) :
    offer nd r = ({ nd with pending := some r }, true) := by
  simp [offer, h]

/-- … at the level of the LTS: the dispatcher handling an invalid payload for a node whose
rebirth channel is occupied records a dropped offer and leaves that node as it was; the same for
the reorder-timeout task completing -/
theorem HostQ_dispatch_drops_reason (c : Cfg) (q : Nat) (σ σ' : State) (o : List Out) (n : Nat)
    (nd : Node) (r0 : Reason) (rest : List AppEv) (hip : c.invalidPayload = true)
    (hin : σ.inbox = .invalid n :: rest) (hsend : σ.sending = [])
    (hg : getNode n σ.nodes = some nd) (hp : nd.pending = some r0)
    (hs : HostQ.step c q σ .dispatch = some (σ', o)) :
    o = [.offered n .invalidPayload false] ∧ σ'.node n = nd ∧ acceptedOf n o = [] := by
  simp only [HostQ.step, hsend, List.isEmpty_nil, if_true, hin, dispatchEv, hip,
    Option.some.injEq, Prod.mk.injEq] at hs
  obtain ⟨rfl, rfl⟩ := hs
  simp [State.node, State.withNode, hg, offer, hp, getNode_setNode_self, acceptedOf, Out.accepted]

theorem HostQ_timeout_drops_reason (c : Cfg) (q : Nat) (σ σ' : State) (o : List Out) (n : Nat)
    (nd : Node) (r0 : Reason) (hg : getNode n σ.nodes = some nd) (hp : nd.pending = some r0)
    (hs : HostQ.step c q σ (.fire n) = some (σ', o)) :
    o = [.offered n .reorderTimeout false] ∧ (σ'.node n).pending = some r0 ∧
    (σ'.node n).task = none := by
  simp only [HostQ.step] at hs
  obtain ⟨nd1, nd', hg', hf, rfl⟩ := onNode_some hs
  rw [hg] at hg'
  cases hg'
  unfold Node.fire at hf
  split at hf
  · cases hf
  · split at hf
    · simp only [Option.some.injEq, Prod.mk.injEq] at hf
      obtain ⟨rfl, rfl⟩ := hf
      rw [HostQ_reason_dropped_when_pending { nd with task := none } _ r0 hp, node_withNode_self]
      exact ⟨rfl, hp, rfl⟩
    · cases hf

/-! ### non-vacuity -/

/-- srad's default switches plus `invalid_payload`, timeout 100 ms, no cooldown -/
def exQ : Cfg := { exampleCfg (some 100) 0 with invalidPayload := true }

/-- **The unbiased select**: NDATA for an unknown node queues the `UnknownNode` reason, the NBIRTH
right behind it is queued as a message. Schedule A takes the reason first (NCMD, then the birth),
schedule B takes the NBIRTH first and the OLDER reason AFTER it: the node that was just birthed
is marked stale again and asked for a rebirth. Both are executions of the LTS. -/
example :
    (execL exQ 1 (State.init 1000)
      [.push (.node 1 (.rmsg 1 1000 (.ndata 7 .ok))), .push (.node 1 (.nbirth 1000 3 8 .ok)),
       .dispatch, .dispatch, .actReason 1, .actMsg 1]).map (fun r => effsOf 1 r.2)
      = some [.ncmd, .nodeBirth 8 true] := by decide

example :
    (execL exQ 1 (State.init 1000)
      [.push (.node 1 (.rmsg 1 1000 (.ndata 7 .ok))), .push (.node 1 (.nbirth 1000 3 8 .ok)),
       .dispatch, .dispatch, .actMsg 1, .actReason 1]).map (fun r => effsOf 1 r.2)
      = some [.nodeBirth 8 true, .nodeStale, .ncmd] := by decide

/-- **The dispatcher is blocked by a full queue** (capacity 1): the second message cannot be
dispatched until the actor has taken the first -/
example :
    (execL exQ 1 (State.init 1000)
      [.push (.node 1 (.nbirth 1000 3 1 .ok)), .push (.node 1 (.rmsg 1 1001 (.ndata 2 .ok))),
       .dispatch, .dispatch]).isNone = true ∧
    (execL exQ 1 (State.init 1000)
      [.push (.node 1 (.nbirth 1000 3 1 .ok)), .push (.node 1 (.rmsg 1 1001 (.ndata 2 .ok))),
       .dispatch, .actMsg 1, .dispatch, .actMsg 1]).map (fun r => effsOf 1 r.2)
      = some [.nodeBirth 1 true, .nodeData 2] ∧
    -- with room for two the same schedule of the dispatcher is enabled
    (execL exQ 2 (State.init 1000)
      [.push (.node 1 (.nbirth 1000 3 1 .ok)), .push (.node 1 (.rmsg 1 1001 (.ndata 2 .ok))),
       .dispatch, .dispatch]).isSome = true := by decide

/-- **A second reason is dropped while one is pending**: two invalid payloads, one NCMD -/
example :
    (execL exQ 4 (State.init 1000)
      [.push (.invalid 1), .push (.invalid 1), .dispatch, .dispatch, .actReason 1]).map
        (fun r => (effsOf 1 r.2, acceptedOf 1 r.2, (r.1.node 1).pending))
      = some ([.ncmd], [.invalidPayload], none) := by decide

/-- the hypotheses of `C06Q_actor_trace_is_run` are satisfiable by a non-trivial execution: an
NDEATH with a wrong bdSeq handled at the reading it was dispatched at (`DeathsPrompt`), the
history has three inputs, the trace is the `Host.run` of it -/
example :
    (execL exQ 4 (State.init 1000)
      [.push (.node 1 (.nbirth 990 3 1 .ok)), .push (.node 1 (.ndeath 4)), .dispatch, .dispatch,
       .actMsg 1, .actMsg 1]).map (fun r => (effsOf 1 r.2, plainHistOf 1 r.2))
      = some ([.nodeBirth 1 true, .nodeStale, .ncmd],
              [⟨.nbirth 990 3 1 .ok, 1000, 1000⟩, ⟨.ndeath 4, 1000, 1000⟩]) ∧
    (Host.run exQ Host.init [⟨.nbirth 990 3 1 .ok, 1000, 1000⟩, ⟨.ndeath 4, 1000, 1000⟩]).2
      = [.nodeBirth 1 true, .nodeStale, .ncmd] := by decide

/-- ClockCoherent (`hclock`, `hdisp` of `C07Q_ncmd_only_when_stale`) is satisfiable by a reachable
state whose next actor step publishes the NCMD: node 1 birthed with timestamp 990 at clock 1000,
an NDEATH with a wrong bdSeq dispatched at 1000 waiting in its queue -/
example :
    (execL exQ 4 (State.init 1000)
      [.push (.node 1 (.nbirth 990 3 1 .ok)), .push (.node 1 (.ndeath 4)), .dispatch, .dispatch,
       .actMsg 1]).map (fun r =>
        (decide ((r.1.node 1).st.birthTs ≤ r.1.clock),
         (r.1.node 1).queue.all (fun m => decide ((r.1.node 1).st.birthTs ≤ m.disp)),
         (HostQ.step exQ 4 r.1 (.actMsg 1)).map (fun x => (effsOf 1 x.2, (x.1.node 1).st.life))))
      = some (true, true, some ([.nodeStale, .ncmd], .stale)) := by decide

/-- the point `DeathsPrompt` / ClockCoherent exclude, exhibited: the clock moves on while an NDEATH
with a wrong bdSeq, for a node whose birth timestamp (1005) is ahead of the dispatch time (1000),
waits in the queue. The two clock readings of `Node::handle_death` differ: the staleness is the
second one's, the exact history `histOf` has three inputs … -/
example :
    (execL exQ 4 (State.init 1000)
      [.push (.node 1 (.nbirth 1005 3 1 .ok)), .push (.node 1 (.ndeath 4)), .dispatch, .dispatch,
       .actMsg 1, .tick, .tick, .tick, .tick, .tick, .tick, .actMsg 1]).map
        (fun r => (effsOf 1 r.2, histOf 1 r.2))
      = some ([.nodeBirth 1 true, .nodeStale, .ncmd],
              [⟨.nbirth 1005 3 1 .ok, 1000, 1000⟩, ⟨.ndeath 3, 1000, 1006⟩,
               ⟨.rebirthReq .outOfSyncBdSeq, 1006, 1006⟩]) ∧
    -- … while a single `Host.step` on that NDEATH with the dispatch time does not mark stale (K1)
    (Host.run exQ Host.init [⟨.nbirth 1005 3 1 .ok, 1000, 1000⟩, ⟨.ndeath 4, 1000, 1006⟩]).2
      = [.nodeBirth 1 true, .ncmd] := by decide

/-- resequencing on, a queued resequenceable message (hypotheses of `C05Q_applied_consecutive`):
seq 2 before seq 1 in the queue, both applied by the step that takes seq 1 -/
example :
    (execL exQ 4 (State.init 1000)
      [.push (.node 1 (.nbirth 990 3 1 .ok)), .push (.node 1 (.rmsg 2 991 (.ndata 3 .ok))),
       .push (.node 1 (.rmsg 1 991 (.ndata 2 .ok))), .dispatch, .dispatch, .dispatch,
       .actMsg 1, .actMsg 1]).map (fun r =>
        (exQ.resequence, (r.1.node 1).queue,
         appliedSeqs exQ (r.1.node 1).st (.rmsg 1 991 (.ndata 2 .ok))))
      = some (true, [⟨.rmsg 1 991 (.ndata 2 .ok), 1000⟩], [1, 2]) := by decide

/-- executions built by `execL` are executions: the theorems apply to the examples above -/
theorem execL_reach (c : Cfg) (q t0 : Nat) (ls : List Label) (σ : State) (o : List Out)
    (h : execL c q (State.init t0) ls = some (σ, o)) : Reach c q t0 σ o := by
  have := reach_execL ls (Reach.init (c := c) (q := q) (t0 := t0)) h
  simpa using this

end Srad.HostQ
