/-
C06 — Host withholds data from stale nodes and devices.
Property theorems only (helper lemmas: `SradModel/Proofs/Host.lean`).
The stores' answers travel with the messages (`Ans`), every step takes arbitrary clock readings:
the theorems hold for every store and every clock, except where `s.birthTs ≤ now` is assumed
explicitly (ClockCoherent: the node's clock is not ahead of the host's) — see K1 below.
-/
import SradModel.Proofs.Host

namespace Srad.Host

/-- every state reachable by any history satisfies the invariant -/
theorem C06_reachable_inv (c : Cfg) (evs : List Ev) (hwf : ∀ e ∈ evs, e.inp.WF) :
    HostInv (run c init evs).1 := by
  exact (run_spec c evs init init_inv hwf).1

/-- **First sentence.** In the effect trace of every history, each data effect on the node's
store is preceded, most recently among its lifecycle effects, by an accepted birth, and each
data effect on a device's store likewise for the node and for that device. -/
theorem C06_data_guarded (c : Cfg) (evs : List Ev) (hwf : ∀ e ∈ evs, e.inp.WF) :
    DataGuarded .stale (fun _ => .stale) (run c init evs).2 := by
  exact Guard_dataGuarded _ _ _ (run_spec c evs init init_inv hwf).2.2.2

/-- what the actor records as lifecycle is what the stores were told -/
theorem C06_state_matches_trace (c : Cfg) (evs : List Ev) (hwf : ∀ e ∈ evs, e.inp.WF) :
    (run c init evs).1.life = nodeLife .stale (run c init evs).2 ∧
    ∀ d, devState (run c init evs).1 d = devLife d .stale (run c init evs).2 := by
  obtain ⟨h1, h2, _⟩ := (run_spec c evs init init_inv hwf).2
  exact ⟨h1.symm, fun d => (h2 d).symm⟩

/-- **Second sentence, NDEATH** (matching or not): afterwards the node and all devices are held
stale, and if the node was birthed its store and every device store were told so. -/
theorem C06_ndeath_marks_stale (c : Cfg) (s : St) (bd now wall : Nat) (hinv : HostInv s)
    (hclock : s.birthTs ≤ now) :
    (step c s (.ndeath bd) now wall).1.life = .stale ∧
    (∀ d ∈ (step c s (.ndeath bd) now wall).1.devices, d.2 = .stale) ∧
    (s.life = .birthed → Eff.nodeStale ∈ (step c s (.ndeath bd) now wall).2 ∧
      ∀ d ∈ s.devices, Eff.devStale d.1 ∈ (step c s (.ndeath bd) now wall).2) := by
  exact ndeath_marks c s bd now wall hinv hclock

/-- **Second sentence, host offline.** -/
theorem C06_offline_marks_stale (c : Cfg) (s : St) (now wall : Nat) (hinv : HostInv s)
    (hclock : s.birthTs ≤ now) :
    (step c s .offline now wall).1.life = .stale ∧
    (∀ d ∈ (step c s .offline now wall).1.devices, d.2 = .stale) ∧
    (s.life = .birthed → Eff.nodeStale ∈ (step c s .offline now wall).2 ∧
      ∀ d ∈ s.devices, Eff.devStale d.1 ∈ (step c s .offline now wall).2) := by
  exact offline_marks c s now wall hinv hclock

/-- **Second sentence, rebirth request issued by the host**, whatever triggered it. -/
theorem C06_rebirth_marks_stale (c : Cfg) (s : St) (i : In) (now wall : Nat) (hinv : HostInv s)
    (hwf : i.WF) (hclock : s.birthTs ≤ now) (h : Eff.ncmd ∈ (step c s i now wall).2) :
    (step c s i now wall).1.life = .stale ∧
    (∀ d ∈ (step c s i now wall).1.devices, d.2 = .stale) ∧
    (s.life = .birthed → Eff.nodeStale ∈ (step c s i now wall).2 ∧
      ∀ d ∈ s.devices, Eff.devStale d.1 ∈ (step c s i now wall).2) := by
  exact rebirth_marks c s i now wall hinv hwf hclock h

/-- … and from then on no data reaches the node's store or any device store: a step taken in a
stale state emits no data effect at all (the next data effect needs an accepted NBIRTH first,
and by `C06_data_guarded` a device's needs its own DBIRTH). -/
theorem C06_stale_blocks_data (c : Cfg) (s : St) (i : In) (now wall : Nat) (hinv : HostInv s)
    (hst : s.life = .stale) :
    ∀ e ∈ (step c s i now wall).2, (∀ id, e ≠ Eff.nodeData id) ∧ (∀ d id, e ≠ Eff.devData d id) := by
  exact fun e he => Eff.not_data e (stale_no_data c s i now wall hst e he)

/-- **Third sentence.** A message time-stamped before the current birth or before the last
staleness changes nothing and reaches no store. -/
theorem C06_old_message_discarded (c : Cfg) (s : St) (seq ts : Nat) (m : RMsg) (now wall : Nat)
    (h : ts < s.birthTs ∨ ts < s.staleTs) :
    step c s (.rmsg seq ts m) now wall = (s, []) := by
  simp [step, handleRMsg, h]

/-! ### K1 — the excluded point of `hclock`, exhibited (a finding, see KNOWN_FINDINGS.json):
with the node's clock ahead of the host's, an NDEATH is ignored and later data is applied. -/
example :
    let c : Cfg := exampleCfg none 0
    (run c init [⟨.nbirth 20000 3 1 .ok, 10000, 10000⟩, ⟨.ndeath 3, 10001, 10001⟩,
                 ⟨.rmsg 1 20001 (.ndata 2 .ok), 10002, 10002⟩]).2
      = [.nodeBirth 1 true, .nodeData 2] := by decide

/-! ### non-vacuity -/
example :
    let c : Cfg := exampleCfg (some 100) 0
    (run c init [⟨.nbirth 10 3 1 .ok, 10, 10⟩, ⟨.rmsg 1 11 (.dbirth 1 2 .ok), 11, 11⟩,
                 ⟨.rmsg 3 13 (.ddata 1 4 .ok), 12, 12⟩, ⟨.rmsg 2 12 (.ndata 3 .ok), 13, 13⟩,
                 ⟨.ndeath 3, 14, 14⟩, ⟨.rmsg 4 15 (.ndata 5 .ok), 15, 15⟩]).2
      = [.nodeBirth 1 true, .devCreated 1, .devBirth 1 2 true, .timerStart, .nodeData 3,
         .devData 1 4, .timerCancel, .nodeStale, .devStale 1, .ncmd] := by decide

end Srad.Host
