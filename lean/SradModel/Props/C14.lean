/-
C14 — Host admits only well-formed, current births, deaths and data.
Property theorems only; helper lemmas are in `SradModel/Proofs/Admit.lean`, the model of
srad-app's validation (events.rs, metrics.rs, the message arms of eventloop.rs) in
`SradModel/Model/Admit.lean`, the declarative conditions (`Wf…`, `…Of`) in `Model/AdmitSpec.lean`.

Scope: the per-type payload validation and how `AppEventLoop::poll` surfaces its verdict. The
replay rule ("an NBIRTH that is not strictly newer never replaces the applied one") and the frame
theorem over the host's node state are statements about generic_app.rs and live with the
host-actor model.

All theorems quantify over every payload, every node/device id and every property-set decoder
`decodePS` (srad-types' `PropertySet::try_from`; its concrete model is `decodePSet`, characterised
by `C14_property_set_decodable`). `LongsAreU64` says that a `LongValue(u64)` holds a `u64`.
-/
import SradModel.Proofs.Admit
import SradModel.Generated.AdmitTable

namespace Srad.Admit
open Srad.Codec

section
variable {π : Type} (decodePS : PSet → Option π)

/-! ### NBIRTH -/

/-- An NBIRTH payload is admitted as `x` exactly when it is well-formed (seq 0, a timestamp, a
bdSeq metric found by name holding a 64-bit integer in 0..=255, every metric a valid birth
metric) and `x` carries exactly its fields: the timestamp, that bdSeq, and per metric the name,
alias, datatype, value, metadata, timestamp, flags and decoded property set, in order. -/
theorem C14_nbirth (p : Payload) (hty : LongsAreU64 p.metrics) (x : NBirth π) :
    nbirthTryFrom decodePS p = .ok x ↔
      WfNBirth decodePS p ∧ p.timestamp = some x.timestamp ∧ HasBdSeq p.metrics x.bdseq ∧
      Pointwise (BirthOf decodePS) p.metrics x.metrics :=
  nbirth_ok_iff decodePS p hty x

/-- every well-formed NBIRTH is admitted, and only those -/
theorem C14_nbirth_admitted_iff_wellformed (p : Payload) (hty : LongsAreU64 p.metrics) :
    (∃ x, nbirthTryFrom decodePS p = .ok x) ↔ WfNBirth decodePS p :=
  nbirth_wf_iff decodePS p hty

/-- anything else is an invalid payload -/
theorem C14_nbirth_invalid_iff_malformed (p : Payload) (hty : LongsAreU64 p.metrics) :
    (∃ e, nbirthTryFrom decodePS p = .error e) ↔ ¬ WfNBirth decodePS p := by
  rw [except_error_iff, nbirth_wf_iff decodePS p hty]

/-! ### NDEATH -/

/-- An NDEATH is admitted exactly when it has such a bdSeq metric, and carries that bdSeq. -/
theorem C14_ndeath (p : Payload) (hty : LongsAreU64 p.metrics) (x : NDeath) :
    ndeathTryFrom p = .ok x ↔ WfNDeath p ∧ HasBdSeq p.metrics x.bdseq :=
  ndeath_ok_iff p hty x

theorem C14_ndeath_admitted_iff_wellformed (p : Payload) (hty : LongsAreU64 p.metrics) :
    (∃ x, ndeathTryFrom p = .ok x) ↔ WfNDeath p :=
  ndeath_wf_iff p hty

theorem C14_ndeath_invalid_iff_malformed (p : Payload) (hty : LongsAreU64 p.metrics) :
    (∃ e, ndeathTryFrom p = .error e) ↔ ¬ WfNDeath p := by
  rw [except_error_iff, ndeath_wf_iff p hty]

/-! ### NDATA, DDATA -/

/-- An NDATA is admitted exactly when it has seq and timestamp and every metric is a valid data
metric; the admitted object carries seq (as `u8`), timestamp and, per metric, the id (alias if
present, else name) and the details. -/
theorem C14_ndata (p : Payload) (x : NData π) :
    ndataTryFrom decodePS p = .ok x ↔
      WfData decodePS p ∧ (∃ s, p.seq = some s ∧ x.seq = s % 256) ∧
      p.timestamp = some x.timestamp ∧ Pointwise (DataOf decodePS) p.metrics x.metrics :=
  ndata_ok_iff decodePS p x

theorem C14_ndata_admitted_iff_wellformed (p : Payload) :
    (∃ x, ndataTryFrom decodePS p = .ok x) ↔ WfData decodePS p :=
  ndata_wf_iff decodePS p

theorem C14_ndata_invalid_iff_malformed (p : Payload) :
    (∃ e, ndataTryFrom decodePS p = .error e) ↔ ¬ WfData decodePS p := by
  rw [except_error_iff, ndata_wf_iff decodePS p]

theorem C14_ddata (p : Payload) (x : DData π) :
    ddataTryFrom decodePS p = .ok x ↔
      WfData decodePS p ∧ (∃ s, p.seq = some s ∧ x.seq = s % 256) ∧
      p.timestamp = some x.timestamp ∧ Pointwise (DataOf decodePS) p.metrics x.metrics :=
  ddata_ok_iff decodePS p x

theorem C14_ddata_admitted_iff_wellformed (p : Payload) :
    (∃ x, ddataTryFrom decodePS p = .ok x) ↔ WfData decodePS p :=
  ddata_wf_iff decodePS p

theorem C14_ddata_invalid_iff_malformed (p : Payload) :
    (∃ e, ddataTryFrom decodePS p = .error e) ↔ ¬ WfData decodePS p := by
  rw [except_error_iff, ddata_wf_iff decodePS p]

/-! ### DBIRTH, DDEATH -/

theorem C14_dbirth (p : Payload) (x : DBirth π) :
    dbirthTryFrom decodePS p = .ok x ↔
      WfDBirth decodePS p ∧ (∃ s, p.seq = some s ∧ x.seq = s % 256) ∧
      p.timestamp = some x.timestamp ∧ Pointwise (BirthOf decodePS) p.metrics x.metrics :=
  dbirth_ok_iff decodePS p x

theorem C14_dbirth_admitted_iff_wellformed (p : Payload) :
    (∃ x, dbirthTryFrom decodePS p = .ok x) ↔ WfDBirth decodePS p :=
  dbirth_wf_iff decodePS p

theorem C14_dbirth_invalid_iff_malformed (p : Payload) :
    (∃ e, dbirthTryFrom decodePS p = .error e) ↔ ¬ WfDBirth decodePS p := by
  rw [except_error_iff, dbirth_wf_iff decodePS p]

theorem C14_ddeath (p : Payload) (x : DDeath) :
    ddeathTryFrom p = .ok x ↔
      WfDDeath p ∧ (∃ s, p.seq = some s ∧ x.seq = s % 256) ∧ p.timestamp = some x.timestamp :=
  ddeath_ok_iff p x

theorem C14_ddeath_admitted_iff_wellformed (p : Payload) :
    (∃ x, ddeathTryFrom p = .ok x) ↔ WfDDeath p :=
  ddeath_wf_iff p

theorem C14_ddeath_invalid_iff_malformed (p : Payload) :
    (∃ e, ddeathTryFrom p = .error e) ↔ ¬ WfDDeath p := by
  rw [except_error_iff, ddeath_wf_iff p]

/-! ### what `AppEventLoop::poll` returns for a node / device message -/

/-- `poll` yields a node event for a node-level message exactly when the message is well-formed
for its type; the event names the sender, is the event of that verb and carries exactly the
payload's fields. -/
theorem C14_poll_node_admitted (id id' : NodeId) (k : Kind) (p : Payload)
    (hty : LongsAreU64 p.metrics) (ev : NodeEvent π) :
    handleNode decodePS id k p = some (.node id' ev) ↔
      id' = id ∧ WfNode decodePS k p ∧ NodeEventOf decodePS k p ev :=
  handleNode_admitted_iff decodePS id id' k p hty ev

/-- `poll` yields `InvalidPayload` exactly for BIRTH/DEATH/DATA messages that are not well-formed
for their type; the event names the sender (no device) and holds the validator's error. -/
theorem C14_poll_node_invalid (id : NodeId) (k : Kind) (p : Payload)
    (hty : LongsAreU64 p.metrics) (d : ErrDetails) :
    handleNode decodePS id k p = some (.invalidPayload d) ↔
      Supported k ∧ ¬ WfNode decodePS k p ∧ d.nodeId = id ∧ d.device = none ∧
      ((k = .birth ∧ nbirthTryFrom decodePS p = .error d.error) ∨
       (k = .death ∧ ndeathTryFrom p = .error d.error) ∨
       (k = .data ∧ ndataTryFrom decodePS p = .error d.error)) :=
  handleNode_invalid_iff decodePS id k p hty d

/-- the three outcomes are exhaustive: unsupported verbs produce no event, a well-formed message
is always admitted, anything else always surfaces as an invalid payload of the sender -/
theorem C14_poll_node_total (id : NodeId) (k : Kind) (p : Payload) (hty : LongsAreU64 p.metrics) :
    (¬ Supported k → handleNode decodePS id k p = none) ∧
    (Supported k → WfNode decodePS k p → ∃ ev, handleNode decodePS id k p = some (.node id ev)) ∧
    (Supported k → ¬ WfNode decodePS k p →
      ∃ e, handleNode decodePS id k p = some (.invalidPayload ⟨id, none, e⟩)) :=
  handleNode_total decodePS id k p hty

theorem C14_poll_device_admitted (id id' : NodeId) (name name' : Bytes) (k : Kind) (p : Payload)
    (ev : DeviceEvent π) :
    handleDevice decodePS id name k p = some (.device id' name' ev) ↔
      id' = id ∧ name' = name ∧ WfDevice decodePS k p ∧ DeviceEventOf decodePS k p ev :=
  handleDevice_admitted_iff decodePS id id' name name' k p ev

theorem C14_poll_device_invalid (id : NodeId) (name : Bytes) (k : Kind) (p : Payload)
    (d : ErrDetails) :
    handleDevice decodePS id name k p = some (.invalidPayload d) ↔
      Supported k ∧ ¬ WfDevice decodePS k p ∧ d.nodeId = id ∧ d.device = some name ∧
      ((k = .birth ∧ dbirthTryFrom decodePS p = .error d.error) ∨
       (k = .death ∧ ddeathTryFrom p = .error d.error) ∨
       (k = .data ∧ ddataTryFrom decodePS p = .error d.error)) :=
  handleDevice_invalid_iff decodePS id name k p d

theorem C14_poll_device_total (id : NodeId) (name : Bytes) (k : Kind) (p : Payload) :
    (¬ Supported k → handleDevice decodePS id name k p = none) ∧
    (Supported k → WfDevice decodePS k p →
      ∃ ev, handleDevice decodePS id name k p = some (.device id name ev)) ∧
    (Supported k → ¬ WfDevice decodePS k p →
      ∃ e, handleDevice decodePS id name k p = some (.invalidPayload ⟨id, some name, e⟩)) :=
  handleDevice_total decodePS id name k p

end

/-! ### the property-set decoder of srad-types -/

/-- a property set attached to a metric is decodable exactly when it has as many values as keys
and every value has a value or is_null = true and, if it names a datatype, a valid one -/
theorem C14_property_set_decodable (ps : PSet) : decodePSet ps ≠ none ↔ PSetOk ps :=
  decodePSet_ne_none_iff ps

/-! ### T-table: verb × (valid message, every single deviation, every pair of deviations),
regenerated on every run by pushing the messages through the freshly compiled
`AppEventLoop::poll` (`SradModel/Generated/AdmitTable.lean`). A change to any validation rule
makes one of these obligations fail at `lake build`. -/

/-- the compiled code and the model agree on every row: same outcome, same error variant -/
theorem C14_table_matches_model :
    ∀ row ∈ Srad.Generated.admitTable, handleRow row.1 row.2.1 row.2.2.1 = row.2.2.2 := by
  decide +kernel

/-- in the compiled code itself: a row is admitted iff its payload is well-formed for its type
(the declarative condition, evaluated by its decision procedure), silent iff the verb is not
BIRTH/DEATH/DATA, and therefore an invalid payload in all remaining cases -/
theorem C14_table_property :
    ∀ row ∈ Srad.Generated.admitTable,
      (row.2.2.2 = .admitted ↔ WfRow row.1 row.2.1 row.2.2.1) ∧
      (row.2.2.2 = .silent ↔ ¬ Supported row.2.1) := by
  decide +kernel

/-- the table exercises all six message types in the admitted case and every error variant -/
theorem C14_table_covers :
    (∀ dk ∈ [(false, Kind.birth), (false, .death), (false, .data), (true, .birth), (true, .death),
        (true, .data)],
      ∃ row ∈ Srad.Generated.admitTable, (row.1, row.2.1) = dk ∧ row.2.2.2 = .admitted) ∧
    (∀ e ∈ [PErr.missingSeq, .invalidSeq, .invalidBdseq, .missingTimestamp,
        .metric .missingTimestamp, .metric .missingDatatype, .metric .invalidDatatype,
        .metric .missingName, .metric .notNullNoValue, .metric .invalidProperties],
      ∃ row ∈ Srad.Generated.admitTable, row.2.2.2 = .invalid e) := by
  decide +kernel

/-! ### non-vacuity (tests, not the claim) -/

private def mBd : Metric :=
  ⟨some BDSEQ, none, some 5, some 4, none, none, none, none, none, some (.long 7)⟩
private def mX : Metric :=
  ⟨some [0x78], some 3, some 6, some 3, some true, none, none, some "meta",
   some ⟨[[0x6b]], [⟨some 3, none, some (.int 5)⟩]⟩, some (.int 9)⟩
private def pBirth : Payload := ⟨some 100, [mBd, mX], some 0, none, none⟩

example : WfNBirth decodePSet pBirth := by decide
example : LongsAreU64 pBirth.metrics := by
  intro m hm n hv
  simp [pBirth, mBd, mX] at hm
  rcases hm with rfl | rfl <;> simp at hv <;> omega
example : nbirthTryFrom decodePSet pBirth = .ok
    ⟨7, 100, [(⟨BDSEQ, none, .int64⟩, ⟨some (.long 7), none, none, 5, false, false⟩),
              (⟨[0x78], some 3, .int32⟩,
               ⟨some (.int 9), some [([0x6b], ⟨some (.int 5), some .int32⟩)], some "meta", 6, true, false⟩)]⟩ := by
  rfl
example : ¬ WfNBirth decodePSet { pBirth with seq := some 1 } := by decide
example : ¬ WfNBirth decodePSet { pBirth with metrics := [{ mBd with value := some (.int 7) }, mX] } := by decide
example : ¬ WfNBirth decodePSet { pBirth with metrics := [{ mBd with value := some (.long 256) }, mX] } := by decide
example : WfData decodePSet ⟨some 1, [{ mX with name := none }], some 300, none, none⟩ := by decide
example : ndataTryFrom decodePSet ⟨some 1, [{ mX with name := none, properties := none }], some 300, none, none⟩
    = .ok ⟨44, 1, [(.alias 3, ⟨some (.int 9), none, some "meta", 6, true, false⟩)]⟩ := by rfl
example : handleNode decodePSet ⟨[0x67], [0x6e]⟩ .death ⟨none, [], none, none, none⟩
    = some (.invalidPayload ⟨⟨[0x67], [0x6e]⟩, none, .invalidBdseq⟩) := by rfl
example : handleDevice decodePSet ⟨[0x67], [0x6e]⟩ [0x64] .cmd pBirth = none := by rfl
example : Srad.Generated.admitTable.length > 900 := by decide +kernel

end Srad.Admit
