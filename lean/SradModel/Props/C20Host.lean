/-
C20, host sentence, the generic `Application` (srad-app/src/generic_app.rs, `Application::run` /
`handle_event`): "Cancelling a host application likewise publishes its offline STATE, disconnects and
makes its run loop return."

The certificate and the disconnect are `AppClient::cancel()` + `AppEventLoop::poll`, proved on the
event-loop model (`Props/C16.lean`: `C16_cancel_publishes_offline_then_disconnects`,
`C16_cancel_returns`: the event loop yields `Cancelled` after the final Offline or the bounded wait).
Here: what `Application::run` does with it (`Host.runStep`, `Model/Host.lean`). The point of the
theorems is what the run loop does NOT do when it is cancelled: it sends nothing to any node actor
and touches no store — a send into a node's bounded queue would wait for an actor that may itself be
waiting for the client (back-pressure on its rebirth NCMD), and the shutdown would hang on the client.
Tied to the real code by component `host` (`host cancel …` request lines: effects and the time until
`run()` has returned) and by the oracle clause `C20:host-run-returns` (cancel with node actors parked
in blocking client calls and their queues exactly full).
Helper lemmas: `SradModel/Proofs/HostRun.lean`.
-/
import SradModel.Proofs.HostRun

namespace Srad.Host

/-- **`AppEvent::Cancelled` makes the run loop return, and does nothing else**: whatever the state of
the application (running or already waiting for the final Offline), the step has no effect on any
node or store, leaves every node actor's state and the online flag as they are, and the loop is
`returned`. -/
theorem C20H_cancelled_returns (c : Cfg) (r : RunApp) (now wall : Nat) :
    (runStep c r .cancelled now wall).1.phase = .returned ∧
    (runStep c r .cancelled now wall).2 = [] ∧
    (runStep c r .cancelled now wall).1.app = r.app := by
  exact Run.cancelled_returns c r now wall

/-- **taking the stop request does nothing to the nodes either**: no effect, same application state,
and a running loop is `stopping` afterwards -/
theorem C20H_stop_is_silent (c : Cfg) (r : RunApp) (now wall : Nat) :
    (runStep c r .stop now wall).2 = [] ∧ (runStep c r .stop now wall).1.app = r.app ∧
    (r.phase = .running → (runStep c r .stop now wall).1.phase = .stopping) := by
  exact Run.stop_is_silent c r now wall

/-- **while the host waits for the final Offline nothing is dispatched**: an event the client's event
loop yields in that phase — a node or device message, an invalid payload, Online, the Offline itself —
reaches no node actor: no effect, every node's state unchanged (only a reorder-timeout task of a
still living actor can act, `C20H_stopping_timer`) -/
theorem C20H_stopping_dispatches_nothing (c : Cfg) (r : RunApp) (i : AppIn) (now wall : Nat)
    (hp : r.phase = .stopping) (hi : ∀ n, i ≠ .timerFire n) :
    (runStep c r (.ev i) now wall).2 = [] ∧ (runStep c r (.ev i) now wall).1.app.nodes = r.app.nodes ∧
    (runStep c r (.ev i) now wall).1.phase = .stopping := by
  exact Run.stopping_dispatches_nothing c r i now wall hp hi

/-- the reorder-timeout task of a node completes while the host is stopping: exactly what it does in a
running host (`appStep`) -/
theorem C20H_stopping_timer (c : Cfg) (r : RunApp) (n : Nat) (now wall : Nat) (hp : r.phase = .stopping) :
    runStep c r (.ev (.timerFire n)) now wall =
      ({ r with app := (appStep c r.app (.timerFire n) now wall).1 }, (appStep c r.app (.timerFire n) now wall).2) := by
  exact Run.stopping_timer c r n now wall hp

/-- **once `run()` has returned nothing happens any more**: no input has any effect or changes
anything -/
theorem C20H_returned_is_final (c : Cfg) (r : RunApp) (i : RunIn) (now wall : Nat) (hp : r.phase = .returned) :
    runStep c r i now wall = (r, []) := by
  exact Run.returned_is_final c r i now wall hp

/-- … for whole histories: after the return every continuation is silent and leaves the state alone -/
theorem C20H_nothing_after_return (c : Cfg) (r : RunApp) (h : List (RunIn × Nat × Nat)) (hp : r.phase = .returned) :
    runAll c r h = (r, []) := by
  exact Run.nothing_after_return c r h hp

/-- **cancel of a running host** (`cancelHist`): the stop request is taken, then — whatever the client's
event loop yields meanwhile (`evs`: anything but timeout tasks completing) — `Cancelled` arrives: the run
loop has returned, no store was touched, no NCMD was published, no node actor's state has changed. -/
theorem C20H_cancel_returns_silently (c : Cfg) (r : RunApp) (evs : List (AppIn × Nat × Nat))
    (t1 t2 : Nat) (hp : r.phase = .running) (hev : ∀ x ∈ evs, ∀ n, x.1 ≠ .timerFire n) :
    (runAll c r (cancelHist evs t1 t2)).1.phase = .returned ∧ (runAll c r (cancelHist evs t1 t2)).2 = [] ∧
    (runAll c r (cancelHist evs t1 t2)).1.app.nodes = r.app.nodes := by
  exact Run.cancel_returns_silently c r evs t1 t2 hp hev

/-! ### non-vacuity -/

private def exCfg : Cfg :=
  { invalidPayload := true, outOfSyncBdSeq := true, unknownNode := true, unknownDevice := true, unknownMetric := true,
    reorderFailure := true, recordedStateStale := true, reorderTimeout := some 100, cooldown := 0, resequence := true }

/-- a host holding node 1 birthed with device 1 birthed; cancel, an NDATA and the final Offline arrive
while it is stopping, then `Cancelled`: returned, no effect at all — in particular node 1 and its device
are NOT told that the host went offline (their stores keep what they hold), and a message delivered
afterwards does nothing -/
example :
    let r0 : RunApp := { app := { online := true } }
    let h : List (RunIn × Nat × Nat) :=
      [(.ev (.node 1 (.nbirth 1000 3 1 .ok)), 1000, 1000),
       (.ev (.node 1 (.rmsg 1 1001 (.dbirth 1 2 .ok))), 1001, 1001),
       (.stop, 1002, 1002),
       (.ev (.node 1 (.rmsg 2 1002 (.ndata 3 .ok))), 1002, 1002),
       (.ev .offline, 1003, 1003),
       (.cancelled, 1003, 1003),
       (.ev (.node 1 (.rmsg 2 1002 (.ndata 3 .ok))), 1004, 1004)]
    (runAll exCfg r0 h).1.phase = .returned ∧
    (runAll exCfg r0 h).2 = [.nodeCreated 1, .node 1 (.nodeBirth 1 true), .node 1 (.devCreated 1), .node 1 (.devBirth 1 2 true)] ∧
    ((runAll exCfg r0 h).1.app.nodes.map fun p => (p.1, p.2.life, p.2.devices)) = [(1, .birthed, [(1, .birthed)])] := by
  decide

end Srad.Host
