/-
C01 — Edge node emits no data outside a birthed session.
Property theorems only (helper lemmas: `SradModel/Proofs/EonC01.lean`).
-/
import SradModel.Proofs.EonC01

namespace Srad.Eon
open Srad.Eon.P01

/-- **No data outside a birthed session.** In every execution no NDATA, DBIRTH, DDATA or DDEATH
is handed over before an NBIRTH of the current connection has been accepted, while a node
(re)birth is in flight (from the moment it starts until its NBIRTH is accepted), or after the
loss of the connection has been processed (a new will registered), until the next NBIRTH is
accepted. -/
theorem C01_gate (cd : Nat) (acts : List Act) (s : St) (tr : List Obs)
    (h : runActs (init cd) acts = some (s, tr)) : gateOk false none tr = true := by
  exact gate_runActs acts (init cd) s false none tr (SInv_init cd) (GInv_init cd) h

/-- on every connection the first hand-over after the subscriptions is the NBIRTH (the NDEATH and
disconnect of a cancel excepted) -/
theorem C01_first_after_subscribe (cd : Nat) (acts : List Act) (s : St) (tr : List Obs)
    (h : runActs (init cd) acts = some (s, tr)) : firstAfterSubOk false tr = true := by
  exact fas_runActs acts (init cd) s false tr (SInv_init cd) (fun hw => by cases hw) h

/-- every seq-bearing hand-over in the log was made while the node was online and birthed, and
`birthed` implies `online` -/
theorem C01_data_only_when_birthed (cd : Nat) (acts : List Act) (s : St) (tr : List Obs)
    (h : runActs (init cd) acts = some (s, tr)) :
    (∀ c ∈ s.calls, c.kind.bearsSeq = true → c.gOnline = true ∧ c.gBirthed = true) ∧
    (s.birthed = true → s.online = true) := by
  have hi := SInv_runActs acts (init cd) s tr (SInv_init cd) h
  exact ⟨hi.cg, hi.bo⟩

/-- **A publish in any of those states returns an error and emits nothing**: a node-handle
publish of a non-empty batch taken while the node is not (online and birthed) ends with an error
result, hands nothing over and leaves the shared state untouched -/
theorem C01_node_publish_refused (s : St) (j : Nat) (isTry : Bool) (n : Nat) (dec : Dec) (k : Nat)
    (s' : St) (o : List Obs) (hn : 0 < n)
    (hu : s.ucalls.find? (·.j == j) = some { j := j, kind := .pub .node isTry n, pc := .start })
    (hgate : ¬ (s.online = true ∧ s.birthed = true))
    (h : (step s (.user j) dec)[k]? = some (s', o)) :
    (o = [.ures j .offline] ∨ o = [.ures j .unbirthed]) ∧ s'.calls = s.calls ∧ s'.seq = s.seq := by
  exact node_publish_refused s j isTry n dec (s', o) hn hu hgate (List.mem_of_getElem? h)

/-- the same through a device handle; additionally refused when the device is not birthed in the
current node birth -/
theorem C01_device_publish_refused (s : St) (j d : Nat) (isTry : Bool) (n : Nat) (dec : Dec) (k : Nat)
    (s' : St) (o : List Obs) (hn : 0 < n)
    (hu : s.ucalls.find? (·.j == j) = some { j := j, kind := .pub (.dev d) isTry n, pc := .start })
    (hgate : ¬ (s.online = true ∧ s.birthed = true) ∨
             (∀ x, findDev d s.devs = some x → x.flag = false ∨ x.epoch ≠ s.epoch))
    (h : (step s (.user j) dec)[k]? = some (s', o)) :
    (o = [.ures j .offline] ∨ o = [.ures j .unbirthed]) ∧ s'.calls = s.calls ∧ s'.seq = s.seq := by
  exact device_publish_refused s j d isTry n dec (s', o) hn hu hgate (List.mem_of_getElem? h)

end Srad.Eon
