/-
C17 — Derived templates obey round-trip and diff/patch laws.
Property theorems only; helper lemmas are in `SradModel/Proofs/Derive.lean`, the model (an
interpreter of the `quote!` blocks of srad-macros/src/lib.rs over a schema) in
`SradModel/Model/Derive.lean`, the vocabulary of the statements in `Model/DeriveSpec.lean`.

Every theorem is for EVERY schema `σ` (any number of fields, any nesting depth, any mix of
scalar / optional / parameter / renamed / defaulted / skipped fields) and every value.
Hypotheses: `wf` = what the macro enforces at compile time (wire names of non-skipped fields
pairwise different, at every level); `wt` = what the Rust type system enforces (the value is a
value of the struct: a cell per field, `T` fields hold a value, bit patterns in range).
"Agree" (`agree`) is Rust `==` field by field (IEEE on floats), skipped fields excluded, nested
templates recursively. Where a law needs `x == x` the hypothesis `agree fs b b` (no NaN in a
template field of `b`) is stated; a NaN-proof field-wise form is given besides.
-/
import SradModel.Proofs.Derive
import SradModel.Generated.DeriveTable

namespace Srad.Derive
open Srad.Codec

/-! ### round trip -/

/-- Rebuilding a struct from its own template instance succeeds and yields a struct that is
identical (same bits) on every non-skipped field, nested templates included; hence equal (`==`)
on them whenever the value is equal to itself. -/
theorem C17_roundtrip (σ : Schema) (a : Vals) (hwf : wf σ.fields = true) (hwt : wt σ.fields a = true) :
    ∃ a', fromInstance σ (instanceOf σ a) = .ok a' ∧ same σ.fields a a' = true ∧
      (agree σ.fields a a = true → agree σ.fields a a' = true) := by
  refine ⟨rtVal σ.fields a, fromInstance_instanceOf σ a hwf hwt, same_rtVal _ a hwt, ?_⟩
  exact agree_of_same _ a _ (same_rtVal _ a hwt)

/-- The instance names exactly the metrics and parameters of the definition, in the same order
and with the same datatypes — namely the declared non-skipped fields under their wire names —
and carries the definition's version and the struct's definition metric name. -/
theorem C17_instance_names_definition (σ : Schema) (a : Vals) (hwt : wt σ.fields a = true) :
    (instanceOf σ a).metrics.decls = (definition σ).metrics.decls ∧
    (instanceOf σ a).params.map WP.decl = (definition σ).params.map WP.decl ∧
    (definition σ).metrics.decls = metricDecls σ.fields ∧
    (definition σ).params.map WP.decl = paramDecls σ.fields ∧
    (instanceOf σ a).ver = (definition σ).ver ∧ (instanceOf σ a).ref = σ.ref := by
  simp only [instanceOf, definition, instMetrics_decls _ a hwt, instParams_decls _ a hwt,
    defMetrics_decls, defParams_decls, and_self]

/-! ### difference -/

/-- The difference of `b` from `a` is absent exactly when they agree on all template fields. -/
theorem C17_diff_none_iff_agree (σ : Schema) (b a : Vals) :
    diff σ b a = none ↔ agree σ.fields b a = true := by
  exact mkDiff_eq_none_iff_agree σ.ref σ.ver σ.fields b a

/-- A present difference contains only fields that differ, and all of them: a name is among its
metrics (parameters) exactly when it is the wire name of a non-skipped metric (parameter) field
on which `b` and `a` differ; every entry is a declared metric / parameter with its datatype. -/
theorem C17_diff_only_differing (σ : Schema) (b a : Vals) (d : TInst) (h : diff σ b a = some d) :
    (∀ n, (∃ dt, (some n, dt) ∈ d.metrics.decls) ↔ metricDiffers σ.fields b a n = true) ∧
    (∀ n, (∃ p ∈ d.params, p.name = some n) ↔ paramDiffers σ.fields b a n = true) ∧
    (∀ e ∈ d.metrics.decls, e ∈ metricDecls σ.fields) ∧
    (∀ p ∈ d.params, p.decl ∈ paramDecls σ.fields) ∧
    d.ref = σ.ref ∧ d.ver = σ.ver := by
  have hd := mkDiff_some _ _ _ _ _ h
  subst hd
  exact ⟨diffMetrics_name_iff _ b a, diffParams_name_iff _ b a, diffMetrics_decls_sub _ b a,
    diffParams_decls_sub _ b a, rfl, rfl⟩

/-! ### patch -/

/-- Applying the difference of `b` from `a` to `a` succeeds and makes `a` equal to `b` on all
template fields (nested templates and optional fields included), provided `b` is equal to
itself there. The result is again a value of the struct. -/
theorem C17_patch_makes_equal (σ : Schema) (b a : Vals) (d : TInst) (hwf : wf σ.fields = true)
    (hb : wt σ.fields b = true) (ha : wt σ.fields a = true) (h : diff σ b a = some d)
    (hrefl : agree σ.fields b b = true) :
    ∃ a', update σ a d = (.ok (), a') ∧ agree σ.fields b a' = true ∧ wt σ.fields a' = true := by
  exact ⟨patch σ.fields a b, update_diff σ b a d hwf hb ha h, agree_patch _ a b hrefl,
    wt_patch _ a b ha hb⟩

/-- The same without appeal to `x == x` (NaN allowed): after the patch every skipped field is
untouched and every template field is either bit-identical to `b`'s, or untouched and `==` to
`b`'s; nested templates recursively. -/
theorem C17_patch_fieldwise (σ : Schema) (b a : Vals) (d : TInst) (hwf : wf σ.fields = true)
    (hb : wt σ.fields b = true) (ha : wt σ.fields a = true) (h : diff σ b a = some d) :
    ∃ a', update σ a d = (.ok (), a') ∧ patched σ.fields a b a' = true := by
  exact ⟨patch σ.fields a b, update_diff σ b a d hwf hb ha h, patched_patch _ a b ha hb⟩

/-! ### rejection -/

/-- An instance naming another template, another version, or an unknown metric / parameter —
at the top level or inside an instance addressed to a nested template field — is rejected and
the target is left exactly as it was. For every target, well typed or not. -/
theorem C17_foreign_rejected (σ : Schema) (a : Vals) (i : TInst) (h : foreign σ i = true) :
    ∃ e, update σ a i = (.error e, a) := by
  exact update_foreign σ a i h

/-- All-or-nothing for every instance whatsoever: if `update_from_instance` returns an error the
target is unchanged. -/
theorem C17_error_leaves_target (σ : Schema) (a : Vals) (i : TInst) (e : TErr)
    (h : (update σ a i).1 = .error e) : (update σ a i).2 = a := by
  exact update_error_unchanged σ a i e h

/-- `try_from` rejects the same foreign instances. -/
theorem C17_foreign_rejected_try_from (σ : Schema) (i : TInst) (h : foreign σ i = true) :
    ∃ e, fromInstance σ i = .error e := by
  exact fromInstance_foreign σ i h

/-! ### T-table: the leaf decisions of template.rs / value.rs the generated code relies on,
regenerated from the compiled crates on every run (`SradModel/Generated/DeriveTable.lean`):
default datatypes of `T` / `Option<T>` / a derived struct, `try_from_template_metric_value`,
`try_update_from_metric_value` and `try_from_template_parameter_value` for every scalar type,
plain and optional, on a sample of every value variant (incl. absent and template-valued),
and the `is_definition` × `template_ref` markers accepted by `TemplateInstance::try_from`. -/

open Srad.Generated in
/-- the compiled code and the model's leaf functions agree on every cell of the tables -/
theorem C17_table_matches_model :
    (∀ r ∈ deriveDtTable, (dtOf r.1).code = r.2.1 ∧ (dtOf r.1).code = r.2.2) ∧
    deriveTemplateCode = templateCode ∧
    (∀ r ∈ deriveMetricConv, convMetric r.1 r.2.1 = r.2.2) ∧
    (∀ r ∈ deriveUpdConv, convMetric r.1 r.2.1 = r.2.2) ∧
    (∀ r ∈ deriveParamConv, convScalar r.1 r.2.1 = r.2.2) ∧
    (∀ r ∈ deriveMarkers,
      (instMarkers r.1 (if r.2.1 then some [0x72] else none)).isSome = r.2.2) := by
  decide +kernel

open Srad.Generated in
/-- in the compiled code itself: an absent value is accepted exactly by the optional kinds (as
`None`); a template value is rejected by every scalar kind; only `is_definition = Some(false)`
with a reference is an instance; every one of the 13 types (× plain / optional, metric /
parameter) accepts some sample; `Option<T>` has the datatype of `T`. -/
theorem C17_table_laws :
    (∀ r ∈ deriveMetricConv ++ deriveUpdConv,
      (r.2.1 = MVal.val none → r.2.2 = (if r.1.isOpt then some none else none)) ∧
      (r.2.1 = MVal.templ → r.2.2 = none)) ∧
    (∀ r ∈ deriveParamConv, r.2.1 = none → r.2.2 = (if r.1.isOpt then some none else none)) ∧
    (∀ r ∈ deriveMarkers, r.2.2 = (decide (r.1 = some false) && r.2.1)) ∧
    (((deriveMetricConv.filter (·.2.2.isSome)).map (·.1)).eraseDups.length = 26) ∧
    (((deriveUpdConv.filter (·.2.2.isSome)).map (·.1)).eraseDups.length = 24) ∧
    (((deriveParamConv.filter (·.2.2.isSome)).map (·.1)).eraseDups.length = 26) ∧
    (∀ r ∈ deriveDtTable, r.2.1 = r.2.2) ∧ deriveDtTable.length = 13 := by
  decide +kernel

/-- the datatype the definition announces for a scalar field decodes with that field's type
(cross-check with the codec model's `try_from_metric_value` arms) -/
theorem C17_datatype_decodes_as_type (t : STy) : (kindArm (dtOf t)).2 = .scalar t := by
  cases t <;> rfl

/-! ### non-vacuity (tests, not the claim) -/

/-- Leaf { #[rename = "v"] value: i32, opt: Option<f64>, #[parameter] scale: u16, #[skip] cache } -/
def exLeaf : Fields :=
  .scalar [0x76] false (.metric .i32) (some (.n 0))
  (.scalar [0x6f] false (.optMetric .f64) none
  (.scalar [0x73] false (.param .u16) (some (.n 0))
  (.scalar [0x63] true (.metric .u32) (some (.n 0)) .nil)))

/-- Mid { id: u8, leaf: Leaf, #[skip] dirty: bool }, Top { on: bool, mid: Mid } -/
def exMid : Fields :=
  .scalar [0x69] false (.metric .u8) (some (.n 0))
  (.nested [0x6c] false [0x6c, 0x3a, 0x32] (some [0x32]) exLeaf
    (.s (some (.n 5)) (.s (some (.n 1)) (.s (some (.n 10)) (.s (some (.n 99)) .nil))))
  (.scalar [0x64] true (.metric .bool) (some (.b false)) .nil))

def exTop : Schema :=
  { ref := [0x74], ver := none
    fields := .scalar [0x6f] false (.metric .bool) (some (.b false))
      (.nested [0x6d] false [0x6d] none exMid
        (.s (some (.n 0)) (.nest (.s (some (.n 0)) (.s none (.s (some (.n 0)) (.s (some (.n 0)) .nil))))
          (.s (some (.b false)) .nil))) .nil) }

def exA : Vals :=
  .s (some (.b false))
    (.nest (.s (some (.n 1)) (.nest (.s (some (.n 7)) (.s none (.s (some (.n 2)) (.s (some (.n 11)) .nil))))
      (.s (some (.b true)) .nil))) .nil)

def exB : Vals :=
  .s (some (.b false))
    (.nest (.s (some (.n 1)) (.nest (.s (some (.n 7)) (.s (some (.n 4607182418800017408))
      (.s (some (.n 3)) (.s (some (.n 0)) .nil)))) (.s (some (.b false)) .nil))) .nil)

example : wf exTop.fields = true ∧ wt exTop.fields exA = true ∧ wt exTop.fields exB = true ∧
    agree exTop.fields exB exB = true ∧ agree exTop.fields exB exA = false := by decide

-- the difference reaches two levels down and names only `mid` → `leaf` → {`o`, parameter `s`}
example : (diff exTop exB exA).map (fun d => d.metrics.decls) = some [(some [0x6d], some 19)] := by
  decide
example : (diff exTop exB exA).isSome = true ∧ (diff exTop exA exA) = none := by decide
-- patched: template fields from b, skipped fields (cache 11, dirty true) kept from a
example : (diff exTop exB exA).map (update exTop exA) = some (.ok (),
    .s (some (.b false))
      (.nest (.s (some (.n 1)) (.nest (.s (some (.n 7)) (.s (some (.n 4607182418800017408))
        (.s (some (.n 3)) (.s (some (.n 11)) .nil)))) (.s (some (.b true)) .nil))) .nil)) := by decide
-- a foreign instance two levels down (unknown metric inside `leaf`) is rejected
def exForeign : TInst :=
  { ref := [0x74]
    ver := none
    metrics := .templ (some [0x6d]) none (some false) (some [0x6d]) none
      (.templ (some [0x6c]) none (some false) (some [0x6c, 0x3a, 0x32]) (some [0x32])
        (.val (some [0x7a]) none (some (.int 1)) .nil) [] .nil) [] .nil
    params := [] }
example : foreign exTop exForeign = true ∧
    update exTop exA exForeign = (.error (.invalidMetricValue [0x6d]), exA) := by decide
-- NaN: f32 0x7FC00000 differs from itself, the two zeros are equal
example : svEq .f32 (.n 0x7FC00000) (.n 0x7FC00000) = false ∧ svEq .f32 (.n 0) (.n 0x80000000) = true := by
  decide

end Srad.Derive
