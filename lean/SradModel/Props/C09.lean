/-
C09 — Resequencer releases messages in order, once, and loses none.
Property theorems only (helper lemmas live in `SradModel/Proofs/Reseq.lean`).

Messages are tagged with the sequence number they arrived with (`Nat × α`, first component
the number), so that "the payload that arrived with that number" can be stated.
-/
import SradModel.Proofs.Reseq

namespace Srad.Reseq

/-! ### Part 1: contiguous runs, every start value, every permutation, any length ≤ 256 -/

/-- **C09 (first sentence).** For every start value `e`, every length `n ≤ 256`, every payload
assignment and every arrival order `arr` that is a permutation of `0..n-1`, feeding the run
`(e+i) % 256 ↦ p i` (drained after each arrival until `drain` stops returning messages)
releases exactly the run, in sequence order, each message once, ends with an empty buffer in
state `Good` expecting `(e+n) % 256`, and the drain loop never needs more than
`buffer length + 1` calls. -/
theorem C09_contiguous {α : Type} (e n : Nat) (p : Nat → α) (arr : List Nat)
    (he : e < 256) (hn : n ≤ 256) (hperm : arr.Perm (List.range n)) :
    feed ({ buf := [], next := e, mode := .good } : St (Nat × α)) (arr.map (runMsg e p))
      = ({ buf := [], next := (e + n) % 256, mode := .good },
         (List.range n).map (runMsg e p), false) :=
  contiguous_main e n p arr he hn hperm

/-- **Promptness for unbounded streams (the resequencer half of C05).** A duplicate-free stream
of any length, delivered in any order that keeps fewer than 256 numbers outstanding
(`WindowOk`), sequence numbers wrapping as often as it takes: after the whole delivery exactly
the messages `0 .. mex` (everything whose predecessors have all arrived) have been released,
in order, each once; the resequencer expects `(e + mex) % 256` next, and it is back in `Good`
with an empty buffer iff nothing beyond `mex` has arrived. Applied to every prefix of a
delivery this says each message is released in the very step in which its last predecessor
arrives. -/
theorem C09_prompt {α : Type} (e : Nat) (p : Nat → α) (arr : List Nat)
    (he : e < 256) (hnodup : arr.Nodup) (hwin : WindowOk arr) :
    let r := feed ({ buf := [], next := e, mode := .good } : St (Nat × α)) (arr.map (runMsg e p))
    r.2.1 = (List.range (mexOf arr)).map (runMsg e p) ∧ r.2.2 = false ∧
    r.1.next = (e + mexOf arr) % 256 ∧
    (∀ m, m ∈ r.1.buf.map Prod.snd ↔ ∃ i ∈ arr, mexOf arr < i ∧ m = runMsg e p i) ∧
    (r.1.mode = .good ↔ ∀ i ∈ arr, i < mexOf arr) :=
  prompt_main e p arr he hnodup hwin

/-! ### Part 2: arbitrary input -/

/-- The invariant holds in every state reachable by any sequence of well-formed calls
(`process` / `drain` / `reset` / `set_next_sequence` with `u8` arguments). -/
theorem C09_reachable_inv {α : Type} (ops : List (Op α)) (hwf : ∀ o ∈ ops, o.WF) :
    Inv (runOps init ops).1 :=
  runOps_inv init ops init_inv hwf

/-- `drain` never trips its `assert!` in a reachable state. -/
theorem C09_drain_no_panic {α : Type} (ops : List (Op α)) (hwf : ∀ o ∈ ops, o.WF) :
    (drain (runOps init ops).1).2 ≠ DrainRes.panic :=
  drain_no_panic _ (C09_reachable_inv ops hwf)

/-- **Never out of order, always the payload that arrived with that number.** In a reachable
state, a call that releases a message releases one that arrived with exactly the number that
was expected before the call, and advances the expected number by one (mod 256); a call
that releases nothing and is not `reset`/`set_next_sequence` leaves the expected number
unchanged. Hence between two `reset`/`set_next_sequence` calls the released numbers are
consecutive: no repeat, no inversion, no gap. -/
theorem C09_release_in_order {α : Type} (ops : List (Op α)) (hwf : ∀ o ∈ ops, o.WF)
    (o : Op α) (ho : o.WF) :
    let s := (runOps init ops).1
    let r := stepOp s o
    (∀ m, r.2 = Ev.released m → m.1 = s.next ∧ r.1.next = (s.next + 1) % 256) ∧
    ((∀ m, r.2 ≠ Ev.released m) → (∀ n, o ≠ Op.setNext n) → o ≠ Op.reset → r.1.next = s.next) :=
  step_release_in_order _ o (C09_reachable_inv ops hwf) ho

/-- **Conservation (no loss, no duplication, no invention).** For every sequence of calls, the
messages handed to `process` are, as a multiset, exactly: those released, those reported as
duplicates, those cleared by `reset`, and those still in the buffer. In particular nothing is
released twice and nothing that was not an input is released. -/
theorem C09_conservation {α : Type} (ops : List (Op α)) (hwf : ∀ o ∈ ops, o.WF) :
    (inputsOf ops).Perm
      (releasedOf (runOps init ops).2 ++ dupsOf (runOps init ops).2 ++
       clearedOf (runOps init ops).2 ++ (runOps init ops).1.buf.map Prod.snd) :=
  runOps_conservation ops hwf

/-- **A redelivered copy of a message that is still waiting is reported duplicate.** In every
reachable state - whatever mixture of `process` / `drain` / `reset` / `set_next_sequence` calls led
to it, drained or not, the expected number wrapped past 255 since buffering began or not - if a
message that arrived with number `seq` is still in the buffer, then `process seq` neither releases
the new copy nor files it beside the first one: the answer is `DuplicateMessageSequence` and the
state is unchanged (so the number is not released twice and the waiting message is not stranded). -/
theorem C09_copy_of_waiting_is_duplicate {α : Type} (ops : List (Op α)) (hwf : ∀ o ∈ ops, o.WF)
    (seq : Nat) (p q : α) (k : Nat) (hw : (k, (seq, q)) ∈ (runOps init ops).1.buf) :
    stepOp (runOps init ops).1 (Op.proc seq p) = ((runOps init ops).1, Ev.dup (seq, p)) := by
  obtain ⟨_, hm⟩ := C09_reachable_inv ops hwf
  cases hmode : (runOps init ops).1.mode with
  | good =>
    rw [hmode] at hm
    simp [hm] at hw
  | reseq off =>
    rw [hmode] at hm
    obtain ⟨_, _, _, hkeys⟩ := hm
    have hk := (hkeys _ hw).2
    have hh : hasKey (wsub seq off) (runOps init ops).1.buf = true := (hasKey_iff _ _).2 ⟨_, hw, hk⟩
    by_cases hnx : (runOps init ops).1.next = seq
    · simp [stepOp, process, hnx, hmode, hh]
    · simp [stepOp, process, hnx, hmode, hh]

/-! ### Non-vacuity: concrete runs that meet the hypotheses (these are tests, not the claim) -/

/-- a wrapping run: start 250, twenty messages, reversed arrival order -/
example :
    feed ({ buf := [], next := 250, mode := .good } : St (Nat × Nat))
        (((List.range 20).reverse).map (runMsg 250 (fun i => 1000 + i)))
      = ({ buf := [], next := 14, mode := .good },
         (List.range 20).map (runMsg 250 (fun i => 1000 + i)), false) := by decide

/-- a stream that satisfies `WindowOk` although it is longer than 256 and never lets the buffer
empty before its end: 2,4,1,6,3,… (first 12 shown by evaluation) -/
example : mexOf [1, 3, 0, 5, 2] = 4 := by decide
example : (feed ({ buf := [], next := 254, mode := .good } : St (Nat × Nat))
    ([1, 3, 0, 5, 2].map (runMsg 254 (fun i => i)))).2.1 = (List.range 4).map (runMsg 254 (fun i => i)) := by decide

/-- a reachable state that is in `ReSequencing` with a non-empty buffer -/
example : (runOps (init : St (Nat × Nat)) [Op.proc 2 7, Op.proc 1 6]).1.buf.length = 2 := by decide

/-- the hypothesis of `C09_copy_of_waiting_is_duplicate` is met after `set_next_sequence(255); process(1);
process(255); process(0)` (no drain): number 1 is expected and still waiting -/
example : (2, ((1 : Nat), (7 : Nat))) ∈ (runOps (init : St (Nat × Nat))
    [Op.setNext 255, Op.proc 1 7, Op.proc 255 8, Op.proc 0 9]).1.buf ∧
    (runOps (init : St (Nat × Nat)) [Op.setNext 255, Op.proc 1 7, Op.proc 255 8, Op.proc 0 9]).1.next = 1 := by
  decide

end Srad.Reseq
