/-
C20 — Shutdown terminates and try-publishes never wait on the client (edge-node half; the host
half is proved in `Props/C16.lean`: `C16_cancel_publishes_offline_then_disconnects`,
`C16_cancel_returns`). Property theorems only (helper lemmas: `SradModel/Proofs/EonC20.lean`).
-/
import SradModel.Proofs.EonC20

namespace Srad.Eon
open Srad.Eon.P20

/-- every NDEATH and DISCONNECT is handed over through a non-blocking client call, and no
hand-over made through a `try_` call ever waits (parks) -/
theorem C20_try_calls_never_wait (cd : Nat) (acts : List Act) (s : St) (tr : List Obs)
    (h : runActs (init cd) acts = some (s, tr)) : tryOk tr = true := by
  exact try_calls_never_wait cd acts s tr h

/-- a `try_` publish never parks: its task finishes in the very step that hands the call over -/
theorem C20_try_publish_returns_at_once (s : St) (j : Nat) (t : PubTarget) (n : Nat) (dec : Dec)
    (k : Nat) (s' : St) (o : List Obs)
    (hu : s.ucalls.find? (·.j == j) = some { j := j, kind := .pub t true n, pc := .start })
    (h : (step s (.user j) dec)[k]? = some (s', o)) :
    ∃ r, o.getLast? = some (.ures j r) ∧ (s'.ucalls.find? (·.j == j)).map (·.pc) = some .done := by
  exact try_publish_returns_at_once s j t n dec k s' o hu h

/-- cancel while running: the first step hands over exactly one NDEATH carrying the current bdSeq
through a non-blocking call and marks the node as stopping; cancel while not running does
nothing at all -/
theorem C20_cancel_ndeath (s : St) (j : Nat) (dec : Dec) (k : Nat) (s' : St) (o : List Obs)
    (hu : s.ucalls.find? (·.j == j) = some { j := j, kind := .cancel, pc := .start })
    (h : (step s (.user j) dec)[k]? = some (s', o)) :
    (s.running = true → ∃ dc, o = [.call s.calls.length .ndeath none none (some s.bdseq) true dc] ∧
        s'.stopping = true) ∧
    (s.running = false → o = [.ures j .cancelled] ∧ s'.calls = s.calls) := by
  exact cancel_ndeath s j dec k s' o hu h

/-- … followed, once the stop signal is queued, by the disconnect (also non-blocking) -/
theorem C20_cancel_disconnect (s : St) (j : Nat) (dec : Dec) (k : Nat) (s' : St) (o : List Obs)
    (hu : s.ucalls.find? (·.j == j) = some { j := j, kind := .cancel, pc := .cancelDisc })
    (h : (step s (.user j) dec)[k]? = some (s', o)) :
    ∃ dc, o = [.call s.calls.length .disconnect none none none true dc, .ures j .cancelled] := by
  exact cancel_disconnect s j dec k s' o hu h

/-- once the run loop has returned the node is offline, unbirthed and not running -/
theorem C20_stopped_is_offline (cd : Nat) (acts : List Act) (s : St) (tr : List Obs)
    (h : runActs (init cd) acts = some (s, tr)) (hd : s.loop = .done) :
    s.online = false ∧ s.birthed = false ∧ s.running = false := by
  exact stopped_is_offline cd acts s tr h hd

/-- … and stays so: from then on, whatever happens (new events, publishes through any handle,
cancels, device requests, resolutions), no sequence-bearing message, no SUB, no NBIRTH and no
NDEATH is ever handed over again (only the disconnects of cancels that were still waiting), and the
node stays offline and unbirthed, so every publish started from then on is refused
(`C01_node_publish_refused`, `C01_device_publish_refused`) -/
theorem C20_nothing_after_stop (cd : Nat) (acts more : List Act) (s s' : St) (tr tr' : List Obs)
    (h : runActs (init cd) acts = some (s, tr)) (hd : s.loop = .done)
    (h' : runActs s more = some (s', tr')) :
    (∀ o ∈ tr', ∀ id k dv sq bd t dc, o = Obs.call id k dv sq bd t dc → k = .disconnect) ∧
    s'.online = false ∧ s'.birthed = false := by
  exact nothing_after_stop cd acts more s s' tr tr' h hd h'

/-- **Termination, partial.** Once cancel has signalled the stop, if no client call stays parked,
no user callback stays parked and the 1 s timer has elapsed, the run loop can always finish: there
is a finite schedule of task steps (and of time passing) after which it has returned. (`_partial`: existence of a
terminating schedule from every such state; that the tokio scheduler actually runs the tasks and
fires the timer is runtime behaviour outside the model.) -/
theorem C20_termination_partial (cd : Nat) (acts : List Act) (s : St) (tr : List Obs)
    (h : runActs (init cd) acts = some (s, tr))
    (hstop : s.stop = true ∨ s.loop = .stopCheck ∨ s.loop = .stopPolling ∨ (∃ o, s.loop = .stopSendCs o) ∨
             (∃ o, s.loop = .stopAwaitWill o) ∨ (∃ o, s.loop = .forceSendCs o) ∨ (∃ o, s.loop = .forceAwaitWill o) ∨
             s.loop = .sendStopped)
    (hstarted : s.loop ≠ .start)
    (hnopark : ∀ c ∈ s.calls, c.res.isSome = true) (hcb : s.nodeCbPark = false ∧ s.devCbPark = [])
    (htimer : ∀ dl, s.stopDeadline = some dl → dl ≤ s.wall) :
    ∃ sched s' tr', (∀ a ∈ sched, (∃ t dec k, a = Act.task t dec k) ∨ (∃ ms, a = Act.stim (.advance ms))) ∧
      runActs s sched = some (s', tr') ∧ s'.loop = .done := by
  exact termination_partial cd acts s tr h hstop hstarted hnopark hcb htimer

end Srad.Eon
