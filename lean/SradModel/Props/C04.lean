/-
C04 — Device births, data and deaths are ordered within each node birth.
Property theorems only (helper lemmas: `SradModel/Proofs/EonC04.lean`).
-/
import SradModel.Proofs.EonC04

namespace Srad.Eon
open Srad.Eon.P04

/-- **DDATA ordering.** In every execution, for every device: no DDATA is handed over before that
device's DBIRTH of the current node birth has been accepted, nor after its DDEATH.
Hypothesis (the property's own): a device name is re-registered only after its previous
incarnation has finished — at most one live incarnation per name at any time. -/
theorem C04_ddata_ordered (cd : Nat) (acts : List Act) (s : St) (tr : List Obs) (d : Nat)
    (h : runActs (init cd) acts = some (s, tr))
    (hone : ∀ pre, pre <+: acts → ∀ s1 t1, runActs (init cd) pre = some (s1, t1) →
        ((s1.devs.filter fun x => x.name == d && x.pc != .done).length ≤ 1)) :
    ddataOk d .none tr = true := by
  exact ddata_ordered cd acts s tr d h hone

/-- **DDEATH only after DBIRTH.** A DDEATH is only handed over for a device whose latest
lifecycle hand-over on the connection was a DBIRTH.
Hypothesis (the property's own): a device name is re-registered only after its previous
incarnation has finished — stated here as: at most one live incarnation per name at any time. -/
theorem C04_ddeath_after_dbirth (cd : Nat) (acts : List Act) (s : St) (tr : List Obs) (d : Nat)
    (h : runActs (init cd) acts = some (s, tr))
    (hone : ∀ pre, pre <+: acts → ∀ s1 t1, runActs (init cd) pre = some (s1, t1) →
        ((s1.devs.filter fun x => x.name == d && x.pc != .done).length ≤ 1)) :
    ddeathOk d false tr = true := by
  exact ddeath_after_dbirth cd acts s tr d h hone

/-- **DBIRTH never for a disabled or unregistered device**: a device-task step that hands a
DBIRTH over leaves that device enabled and registered (it was enabled before the step, or the
step is the one processing the enable request), and the node was online and birthed -/
theorem C04_dbirth_only_enabled_registered (s s' : St) (u : Nat) (dec : Dec) (k : Nat) (o : List Obs)
    (id : Nat) (d : Option Nat) (sq bd : Option Nat) (t : Bool) (dc : Dec)
    (h : (step s (.dev u) dec)[k]? = some (s', o)) (hc : Obs.call id .dbirth d sq bd t dc ∈ o) :
    ∃ x x', findUid u s.devs = some x ∧ findUid u s'.devs = some x' ∧ d = some x.name ∧
      x'.enabled = true ∧ x.registered = true ∧ s.online = true ∧ s.birthed = true := by
  exact dbirth_only_enabled_registered s s' u dec k o id d sq bd t dc h hc

/-- **DBIRTH on enable**: processing an enable request while the node is online and birthed and
the device is registered and not yet birthed hands over exactly one DBIRTH with the next
sequence number -/
theorem C04_enable_births (s : St) (u : Nat) (dec : Dec) (x : Dev) (rest : List HR)
    (hx : findUid u s.devs = some x) (hpc : x.pc = .idle) (hq : x.nsq = []) (hh : x.hq = .enable :: rest)
    (hreg : x.registered = true) (hfl : x.flag = false) (hon : s.online = true) (hb : s.birthed = true) :
    ∃ s' id dc, step s (.dev u) dec = [(s', [.bDev x.name,
        .call id .dbirth (some x.name) (some ((s.seq + 1) % 256)) none false dc])] := by
  exact enable_births s u dec x rest hx hpc hq hh hreg hfl hon hb

/-- **DDEATH on disable**: processing a disable request while the node is online and birthed and the
device is birthed in the current node birth hands over exactly one DDEATH with the next sequence
number (the counterpart of `C04_enable_births`) -/
theorem C04_disable_deaths (s : St) (u : Nat) (dec : Dec) (x : Dev) (rest : List HR)
    (hx : findUid u s.devs = some x) (hpc : x.pc = .idle) (hq : x.nsq = []) (hh : x.hq = .disable :: rest)
    (hfl : x.flag = true) (hep : x.epoch = s.epoch) (hon : s.online = true) (hb : s.birthed = true) :
    ∃ s' id dc, step s (.dev u) dec = [(s',
        [.call id .ddeath (some x.name) (some ((s.seq + 1) % 256)) none false dc])] := by
  simp only [step, stepDev, hx, hpc, hq, hh, devDeath, nextSeqIn, handOver]
  simp [hfl, hep, hon, hb]
  cases dec <;> simp [callRes]

/-- **DBIRTH on an explicit device rebirth**: processing a rebirth request while the node is online
and birthed and the device is enabled and registered hands over exactly one DBIRTH with the next
sequence number, whether or not the device is birthed already -/
theorem C04_rebirth_births (s : St) (u : Nat) (dec : Dec) (x : Dev) (rest : List HR)
    (hx : findUid u s.devs = some x) (hpc : x.pc = .idle) (hq : x.nsq = []) (hh : x.hq = .rebirth :: rest)
    (hen : x.enabled = true) (hreg : x.registered = true) (hon : s.online = true) (hb : s.birthed = true) :
    ∃ s' id dc, step s (.dev u) dec = [(s', [.bDev x.name,
        .call id .dbirth (some x.name) (some ((s.seq + 1) % 256)) none false dc])] := by
  simp only [step, stepDev, hx, hpc, hq, hh, devBirth, nextSeqIn, handOver]
  simp [hen, hreg, hon, hb]
  cases dec <;> simp [callRes]

/-- **No request through a handle is ever dropped**: an enable / disable / rebirth request for a
device the handle refers to is appended to that device's request queue whatever the queue already
holds (there is no bound on the number of requests waiting for a busy device task), nothing else
changes and nothing is observed; the device task takes them from the front one at a time
(`stepDev`), so they take effect in the order they were made. -/
theorem C04_request_never_dropped (s : St) (d : Nat) (x : Dev) (hx : findDev d s.devs = some x) :
    applyStim s (.enable d) = ({ s with devs := setDev { x with hq := x.hq ++ [.enable] } s.devs }, []) ∧
    applyStim s (.disable d) = ({ s with devs := setDev { x with hq := x.hq ++ [.disable] } s.devs }, []) ∧
    applyStim s (.drebirth d) = ({ s with devs := setDev { x with hq := x.hq ++ [.rebirth] } s.devs }, []) := by
  simp [applyStim, hx]

/-- non-vacuity of `C04_request_never_dropped` and of the queue discipline: 40 requests made while the
device task is parked in its DBIRTH are all still queued, in order -/
example :
    let x0 : Dev := { uid := 0, name := 1, enabled := true, pc := .waitBirth 0 1 }
    let s0 : St := { (init 0) with online := true, birthed := true, devs := [x0] }
    let reqs : List Stim := (List.range 20).flatMap fun _ => [Stim.disable 1, Stim.enable 1]
    let s := reqs.foldl (fun s r => (applyStim s r).1) s0
    (s.devs.map (·.hq.length)) = [40] ∧ (s.devs.map (·.hq.take 3)) = [[.disable, .enable, .disable]] := by
  decide +kernel

end Srad.Eon
