/-
C04 — Device births, data and deaths are ordered within each node birth.
Property theorems only (helper lemmas: `SradModel/Proofs/EonC04.lean`).
-/
import SradModel.Proofs.EonC04

namespace Srad.Eon
open Srad.Eon.P04

/-- **DDATA ordering.** In every execution, for every device: no DDATA is handed over before that
device's DBIRTH of the current node birth has been accepted, nor after its DDEATH.
Hypothesis (the property's own): a device name is re-registered only after its previous
incarnation has finished — at most one live incarnation per name at any time. -/
theorem C04_ddata_ordered (cd : Nat) (acts : List Act) (s : St) (tr : List Obs) (d : Nat)
    (h : runActs (init cd) acts = some (s, tr))
    (hone : ∀ pre, pre <+: acts → ∀ s1 t1, runActs (init cd) pre = some (s1, t1) →
        ((s1.devs.filter fun x => x.name == d && x.pc != .done).length ≤ 1)) :
    ddataOk d .none tr = true := by
  exact ddata_ordered cd acts s tr d h hone

/-- **DDEATH only after DBIRTH.** A DDEATH is only handed over for a device whose latest
lifecycle hand-over on the connection was a DBIRTH.
Hypothesis (the property's own): a device name is re-registered only after its previous
incarnation has finished — stated here as: at most one live incarnation per name at any time. -/
theorem C04_ddeath_after_dbirth (cd : Nat) (acts : List Act) (s : St) (tr : List Obs) (d : Nat)
    (h : runActs (init cd) acts = some (s, tr))
    (hone : ∀ pre, pre <+: acts → ∀ s1 t1, runActs (init cd) pre = some (s1, t1) →
        ((s1.devs.filter fun x => x.name == d && x.pc != .done).length ≤ 1)) :
    ddeathOk d false tr = true := by
  exact ddeath_after_dbirth cd acts s tr d h hone

/-- **DBIRTH never for a disabled or unregistered device**: a device-task step that hands a
DBIRTH over leaves that device enabled and registered (it was enabled before the step, or the
step is the one processing the enable request), and the node was online and birthed -/
theorem C04_dbirth_only_enabled_registered (s s' : St) (u : Nat) (dec : Dec) (k : Nat) (o : List Obs)
    (id : Nat) (d : Option Nat) (sq bd : Option Nat) (t : Bool) (dc : Dec)
    (h : (step s (.dev u) dec)[k]? = some (s', o)) (hc : Obs.call id .dbirth d sq bd t dc ∈ o) :
    ∃ x x', findUid u s.devs = some x ∧ findUid u s'.devs = some x' ∧ d = some x.name ∧
      x'.enabled = true ∧ x.registered = true ∧ s.online = true ∧ s.birthed = true := by
  exact dbirth_only_enabled_registered s s' u dec k o id d sq bd t dc h hc

/-- **DBIRTH on enable**: processing an enable request while the node is online and birthed and
the device is registered and not yet birthed hands over exactly one DBIRTH with the next
sequence number -/
theorem C04_enable_births (s : St) (u : Nat) (dec : Dec) (x : Dev) (rest : List HR)
    (hx : findUid u s.devs = some x) (hpc : x.pc = .idle) (hq : x.nsq = []) (hh : x.hq = .enable :: rest)
    (hreg : x.registered = true) (hfl : x.flag = false) (hon : s.online = true) (hb : s.birthed = true) :
    ∃ s' id dc, step s (.dev u) dec = [(s', [.bDev x.name,
        .call id .dbirth (some x.name) (some ((s.seq + 1) % 256)) none false dc])] := by
  exact enable_births s u dec x rest hx hpc hq hh hreg hfl hon hb

end Srad.Eon
