/-
C11 — Birth certificates are complete and uniquely identify every metric.
Property theorems only; helper lemmas are in `SradModel/Proofs/Birth.lean`, the vocabulary
(`bdSeqMetric`, `accepted`, `Accepts`, `WellFormed`, `Identifies`, `RegOk`, `DevOk`, `NoCarry`, …)
in `SradModel/Model/BirthSpec.lean`.

Quantification: every theorem holds for an arbitrary hash `h : Name → Nat` (nothing about
SipHash is used), arbitrary build parameters `cfg`, an arbitrary clock reading `now`, an
arbitrary registry `reg` satisfying what `TemplateRegistry::register` guarantees (`RegOk`, itself
a theorem: `C11_registry_ok`) in ANY iteration order (it is a list argument), and an arbitrary
manager `mgr`: any list of registration requests (duplicates, reserved names, every datatype,
with and without value, aliased or not, template instances of registered or unregistered
definitions) or the library's `SimpleMetricManager` with its entries in any iteration order.
Births, rebirths and reconnects all go through `nodeBirth` / `deviceBirth` with the then-current
`bdseq`, registry and device id, so the theorems cover every one of them.
-/
import SradModel.Proofs.Birth
import SradModel.Generated.BirthTable

namespace Srad.Birth

variable {U : Type}

/-! ### what an NBIRTH / DBIRTH contains -/

/-- Every NBIRTH is exactly: bdSeq (Int64, by name, no alias), Node Control/Rebirth (Boolean
false, by name, no alias), one definition metric per registry entry, then the metric of every
request of the manager that was accepted, in order; the manager sees one result per request. -/
theorem C11_nbirth_contents (cfg : Cfg) (h : Name → Nat) (now bdseq : Nat)
    (reg : List (Name × U)) (hreg : RegOk reg) (mgr : Mgr U)
    (ms : List (Metric U)) (res : List (Res MetricId))
    (hb : nodeBirth cfg h now bdseq reg mgr = .ok (ms, res)) :
    ms = bdSeqMetric now bdseq :: rebirthMetric now ::
          (reg.map (defMetric now) ++ accepted (mgrReqs now mgr) res) ∧
    res.length = (mgrReqs now mgr).length := by
  obtain ⟨st3, st4, h1, _, _, _, _, _, hr, hms⟩ := nodeBirth_final hreg hb
  obtain ⟨k1, k2, _, _, _⟩ := runReqs_spec _ _ _ _ hr
  refine ⟨?_, k1⟩
  rw [hms, k2, h1]; simp

/-- … and with a manager that looks at its results (a list of requests) an NBIRTH is always
produced: none of the `.unwrap()`s in `generate_birth_payload` can fire. -/
theorem C11_nbirth_total (cfg : Cfg) (h : Name → Nat) (now bdseq : Nat)
    (reg : List (Name × U)) (hreg : RegOk reg) (reqs : List (Req U)) :
    ∃ ms res, nodeBirth cfg h now bdseq reg (.scripted reqs) = .ok (ms, res) := by
  obtain ⟨st3, _, _, _, _, _, _, h7⟩ :=
    nodeBirth_header (cfg := cfg) (h := h) (U := U) now bdseq hreg
  rw [h7]
  exact ⟨_, _, rfl⟩

/-- Every DBIRTH contains exactly the accepted metrics of its device's manager, in order. -/
theorem C11_dbirth_contents (cfg : Cfg) (h : Name → Nat) (now id : Nat) (regNames : List Name)
    (mgr : Mgr U) (ms : List (Metric U)) (res : List (Res MetricId))
    (hb : deviceBirth cfg h now id regNames mgr = .ok (ms, res)) :
    ms = accepted (mgrReqs now mgr) res ∧ res.length = (mgrReqs now mgr).length := by
  obtain ⟨st4, hr, hms⟩ := deviceBirth_final hb
  obtain ⟨k1, k2, _, _, _⟩ := runReqs_spec _ _ _ _ hr
  exact ⟨by rw [hms, k2]; simp, k1⟩

theorem C11_dbirth_total (cfg : Cfg) (h : Name → Nat) (now id : Nat) (regNames : List Name)
    (reqs : List (Req U)) :
    ∃ ms res, deviceBirth cfg h now id regNames (.scripted reqs) = .ok (ms, res) :=
  ⟨_, _, rfl⟩

/-! ### every metric is well formed, names and aliases are unique within a birth -/

/-- In every NBIRTH every metric has a name, a datatype, a timestamp and either a value or
`is_null = true`; names are pairwise distinct; aliases are pairwise distinct. -/
theorem C11_nbirth_well_formed (cfg : Cfg) (h : Name → Nat) (now bdseq : Nat)
    (reg : List (Name × U)) (hreg : RegOk reg) (mgr : Mgr U)
    (ms : List (Metric U)) (res : List (Res MetricId))
    (hb : nodeBirth cfg h now bdseq reg mgr = .ok (ms, res)) :
    (∀ m ∈ ms, WellFormed m) ∧ NamesDistinct ms ∧ AliasesDistinct ms := by
  obtain ⟨st3, st4, _, _, _, _, hi, _, hr, hms⟩ := nodeBirth_final hreg hb
  obtain ⟨_, _, _, _, k5⟩ := runReqs_spec _ _ _ _ hr
  have := k5 hi
  subst hms
  exact ⟨this.wf, this.nd, this.ad⟩

/-- the same in every DBIRTH -/
theorem C11_dbirth_well_formed (cfg : Cfg) (h : Name → Nat) (now id : Nat) (regNames : List Name)
    (mgr : Mgr U) (ms : List (Metric U)) (res : List (Res MetricId))
    (hb : deviceBirth cfg h now id regNames mgr = .ok (ms, res)) :
    (∀ m ∈ ms, WellFormed m) ∧ NamesDistinct ms ∧ AliasesDistinct ms := by
  obtain ⟨st4, hr, hms⟩ := deviceBirth_final hb
  obtain ⟨_, _, _, _, k5⟩ := runReqs_spec _ _ _ _ hr
  have := k5 (Inv.init id regNames)
  subst hms
  exact ⟨this.wf, this.nd, this.ad⟩

/-! ### which registrations are accepted -/

/-- One registration, in any state of the initializer whose names mirror its metrics: it is
accepted iff its name is not used yet, it is not a Template through `register_metric` and, for a
template instance, its definition is registered. (`hg`: the alias generator does not overflow,
see `C11_alias_generator_total`.) -/
theorem C11_register_accept_iff (cfg : Cfg) (h : Name → Nat) (st : Init U) (r : Req U)
    (hg : genAlias cfg h st r.name ≠ .panic) :
    (∃ id st', runReq cfg h st r = .ok (id, st')) ↔ Accepts st.names st.registry r :=
  runReq_accept_iff hg

/-- … and a rejection names its reason: `DuplicateMetric` iff the name is used (and nothing
else is wrong), `UnregisteredTemplate` iff the instance's definition is not registered,
`UnsupportedDatatype` for a Template through the wrong API, `ValueNotProvided` for template
details without a value (the last two only without debug assertions; with them they panic,
`C11_register_panic_reason`). -/
theorem C11_register_reject_reason (cfg : Cfg) (h : Name → Nat) (st : Init U) (r : Req U) (e : Err)
    (hr : runReq cfg h st r = .err e) :
    (e = .duplicate ∧ r.name ∈ st.names ∧ ¬ WrongApi r ∧ ¬ Unregistered st.registry r ∧
        ¬ NoInstance r) ∨
    (e = .unsupportedDatatype ∧ WrongApi r ∧ cfg.dbg = false) ∨
    (e = .valueNotProvided ∧ NoInstance r ∧ cfg.dbg = false) ∨
    (e = .unregisteredTemplate ∧ Unregistered st.registry r) :=
  runReq_err hr

theorem C11_register_panic_reason (cfg : Cfg) (h : Name → Nat) (st : Init U) (r : Req U)
    (hr : runReq cfg h st r = .panic) :
    (WrongApi r ∧ cfg.dbg = true) ∨ (NoInstance r ∧ cfg.dbg = true) ∨
    (Accepts st.names st.registry r ∧ r.details.useAlias = true ∧
      genAlias cfg h st r.name = .panic) :=
  runReq_panic hr

/-- the "names used" of the rule are exactly the names of the metrics already in the birth -/
theorem C11_used_names_are_birth_names (cfg : Cfg) (h : Name → Nat) (now bdseq : Nat)
    (reg : List (Name × U)) (hreg : RegOk reg) (mgr : Mgr U)
    (ms : List (Metric U)) (res : List (Res MetricId))
    (hb : nodeBirth cfg h now bdseq reg mgr = .ok (ms, res)) :
    ∃ st : Init U, st.metrics = ms ∧ ∀ n, n ∈ st.names ↔ some n ∈ ms.map (·.name) := by
  obtain ⟨st3, st4, _, _, _, _, hi, _, hr, hms⟩ := nodeBirth_final hreg hb
  obtain ⟨_, _, _, _, k5⟩ := runReqs_spec _ _ _ _ hr
  exact ⟨st4, hms.symm, by rw [hms]; exact (k5 hi).names⟩

/-- A whole NBIRTH: which requests of the manager are accepted is decided by names alone —
request `k` is accepted iff the rule holds with `used` = bdSeq, Node Control/Rebirth, the
registered definitions' names and the names of the requests accepted before it. -/
theorem C11_nbirth_accept_iff (cfg : Cfg) (h : Name → Nat) (now bdseq : Nat)
    (hc : cfg.inHalf = true ∨ cfg.ovf = false)
    (reg : List (Name × U)) (hreg : RegOk reg) (mgr : Mgr U)
    (hl : (mgrReqs now mgr).length < two32)
    (ms : List (Metric U)) (res : List (Res MetricId))
    (hb : nodeBirth cfg h now bdseq reg mgr = .ok (ms, res)) :
    res.map Res.isOk =
      acceptFlags (reg.map (·.1)) (bdSeqName :: rebirthName :: reg.map (·.1)) (mgrReqs now mgr) := by
  obtain ⟨st3, st4, _, h2, _, h4, _, h6, hr, _⟩ := nodeBirth_final hreg hb
  have := runReqs_flags (U := U) (h := h) hc (mgrReqs now mgr) st3 (by rw [h2]; simpa using hl)
  rw [hr, h4] at this
  rw [this]
  exact acceptFlags_congr _ _ _ _ (by intro n; rw [h6 n]; simp)

/-- the same for a DBIRTH: nothing is used before the device's manager runs -/
theorem C11_dbirth_accept_iff (cfg : Cfg) (h : Name → Nat) (now id : Nat)
    (hc : cfg.inHalf = true ∨ cfg.ovf = false) (regNames : List Name) (mgr : Mgr U)
    (hl : (mgrReqs now mgr).length < two32)
    (ms : List (Metric U)) (res : List (Res MetricId))
    (hb : deviceBirth cfg h now id regNames mgr = .ok (ms, res)) :
    res.map Res.isOk = acceptFlags regNames [] (mgrReqs now mgr) := by
  obtain ⟨st4, hr, _⟩ := deviceBirth_final hb
  have := runReqs_flags (U := U) (h := h) hc (mgrReqs now mgr)
    ({ obj := id, registry := regNames } : Init U) (by simpa using hl)
  rw [hr] at this
  exact this

/-! ### aliases across the node and all of its devices -/

/-- the repaired alias generator always yields an alias (fewer than 2^32 aliases per object);
with `alias += 1` the only panic is the `u64` overflow under overflow checks -/
theorem C11_alias_generator_total (cfg : Cfg) (h : Name → Nat) (st : Init U) (n : Name)
    (hl : st.aliases.length < two32) :
    (cfg.inHalf = true → ∃ a, genAlias cfg h st n = .ok a) ∧
    (genAlias cfg h st n = .panic →
      cfg.inHalf = false ∧ cfg.ovf = true ∧ (two64 - 1) ∈ st.aliases) :=
  ⟨fun hc => genAlias_total hc hl, genAlias_panic hl⟩

/-- The high half of every alias in an NBIRTH is 0 — for the repaired bump always, for
`alias += 1` under `NoCarry`. -/
theorem C11_nbirth_alias_half (cfg : Cfg) (h : Name → Nat) (now bdseq : Nat)
    (reg : List (Name × U)) (hreg : RegOk reg) (mgr : Mgr U)
    (hc : cfg.inHalf = true ∨ NoCarry h ((mgrReqs now mgr).map (·.name)))
    (ms : List (Metric U)) (res : List (Res MetricId))
    (hb : nodeBirth cfg h now bdseq reg mgr = .ok (ms, res)) :
    ∀ m ∈ ms, ∀ a, m.alias = some a → a / two32 = 0 := by
  obtain ⟨st3, st4, _, h2, h3, _, hi, _, hr, hms⟩ := nodeBirth_final hreg hb
  obtain ⟨_, _, k3, _, k5⟩ := runReqs_spec _ _ _ _ hr
  have hh : HalfInv st4 := by
    refine runReqs_half _ _ _ _ hr (by intro a ha; rw [h2] at ha; cases ha) ?_
    rcases hc with hc | hc
    · left; exact hc
    · right
      refine ⟨by rw [h3]; decide, ?_⟩
      intro r hr'
      have := hc r.name (List.mem_map.mpr ⟨r, hr', rfl⟩)
      rw [h2]; simpa using this
  subst hms
  have := halfInv_aliases (k5 hi) hh
  rw [k3, h3] at this
  exact this

/-- The high half of every alias in the DBIRTH of the device with id `id` is `id`. -/
theorem C11_dbirth_alias_half (cfg : Cfg) (h : Name → Nat) (now id : Nat) (hid : id < two32)
    (regNames : List Name) (mgr : Mgr U)
    (hc : cfg.inHalf = true ∨ NoCarry h ((mgrReqs now mgr).map (·.name)))
    (ms : List (Metric U)) (res : List (Res MetricId))
    (hb : deviceBirth cfg h now id regNames mgr = .ok (ms, res)) :
    ∀ m ∈ ms, ∀ a, m.alias = some a → a / two32 = id := by
  obtain ⟨st4, hr, hms⟩ := deviceBirth_final hb
  obtain ⟨_, _, k3, _, k5⟩ := runReqs_spec _ _ _ _ hr
  have hh : HalfInv st4 := by
    refine runReqs_half _ _ _ _ hr (by intro a ha; cases ha) ?_
    rcases hc with hc | hc
    · left; exact hc
    · right
      refine ⟨hid, ?_⟩
      intro r hr'
      have := hc r.name (List.mem_map.mpr ⟨r, hr', rfl⟩)
      simpa using this
  subst hms
  have := halfInv_aliases (k5 (Inv.init id regNames)) hh
  rw [k3] at this
  exact this

/-- Device ids: after ANY sequence of `register_device` / `unregister_device` calls the device
map holds one id per device name, non-zero (0 is the node), below 2^32 and pairwise distinct. -/
theorem C11_device_ids (cfg : Cfg) (h : Name → Nat) (ops : List DevOp) :
    DevOk (ops.foldl (applyDevOp cfg h) DevMap.empty) := by
  have hgen : ∀ (ops : List DevOp) (dm : DevMap), DevOk dm →
      DevOk (ops.foldl (applyDevOp cfg h) dm) := by
    intro ops
    induction ops with
    | nil => intro dm hd; exact hd
    | cons op t ih => intro dm hd; exact ih _ (applyDevOp_ok op hd)
  refine hgen ops _ ?_
  refine ⟨?_, ?_, ?_, ?_⟩ <;> simp [DevMap.empty]

/-- Every alias is unique across the node and all of its devices: an alias of the NBIRTH is
not an alias of any DBIRTH, and DBIRTHs of different devices share no alias — for the
repaired bump always, for `alias += 1` under `NoCarry` for each manager (the excluded point is
finding D10, see the `example` at the end). Within one birth: `C11_*_well_formed`. -/
theorem C11_alias_unique_across (cfg : Cfg) (h : Name → Nat) (now bdseq : Nat)
    (reg : List (Name × U)) (hreg : RegOk reg) (dm : DevMap) (hdm : DevOk dm)
    (mgrN : Mgr U) (msN : List (Metric U)) (resN : List (Res MetricId))
    (hcN : cfg.inHalf = true ∨ NoCarry h ((mgrReqs now mgrN).map (·.name)))
    (hbN : nodeBirth cfg h now bdseq reg mgrN = .ok (msN, resN))
    (d1 d2 : Name × Nat) (hd1 : d1 ∈ dm.devs) (hd2 : d2 ∈ dm.devs)
    (now1 now2 : Nat) (reg1 reg2 : List Name) (mgr1 mgr2 : Mgr U)
    (hc1 : cfg.inHalf = true ∨ NoCarry h ((mgrReqs now1 mgr1).map (·.name)))
    (hc2 : cfg.inHalf = true ∨ NoCarry h ((mgrReqs now2 mgr2).map (·.name)))
    (ms1 ms2 : List (Metric U)) (res1 res2 : List (Res MetricId))
    (hb1 : deviceBirth cfg h now1 d1.2 reg1 mgr1 = .ok (ms1, res1))
    (hb2 : deviceBirth cfg h now2 d2.2 reg2 mgr2 = .ok (ms2, res2)) :
    (∀ a ∈ aliasesOf msN, a ∉ aliasesOf ms1) ∧
    (d1.1 ≠ d2.1 → ∀ a ∈ aliasesOf ms1, a ∉ aliasesOf ms2) := by
  obtain ⟨_, k2, k3, _⟩ := hdm
  have hN := C11_nbirth_alias_half cfg h now bdseq reg hreg mgrN hcN msN resN hbN
  have h1 := C11_dbirth_alias_half cfg h now1 d1.2 (k3 d1 hd1).2 reg1 mgr1 hc1 ms1 res1 hb1
  have h2 := C11_dbirth_alias_half cfg h now2 d2.2 (k3 d2 hd2).2 reg2 mgr2 hc2 ms2 res2 hb2
  constructor
  · intro a ha ha1
    obtain ⟨m, hm, hma⟩ := List.mem_filterMap.mp ha
    obtain ⟨m1, hm1, hma1⟩ := List.mem_filterMap.mp ha1
    have e0 := hN m hm a hma
    have e1 := h1 m1 hm1 a hma1
    have := (k3 d1 hd1).1
    omega
  · intro hne a ha1 ha2
    obtain ⟨m1, hm1, hma1⟩ := List.mem_filterMap.mp ha1
    obtain ⟨m2, hm2, hma2⟩ := List.mem_filterMap.mp ha2
    have e1 := h1 m1 hm1 a hma1
    have e2 := h2 m2 hm2 a hma2
    have : d1 = d2 := nodup_map_inj (·.2) dm.devs k2 d1 hd1 d2 hd2 (by rw [← e1, ← e2])
    exact hne (by rw [this])

/-! ### tokens -/

/-- Token fidelity, NBIRTH: if request `k` was accepted with a token carrying `id`, the birth
contains the metric of that request declaring exactly that id (its alias if `id` is an alias,
no alias and the request's name otherwise), and every metric later created from the token —
any value, any time — carries that id and nothing else, and names that birth metric and no
other metric of the birth. -/
theorem C11_token_fidelity_node (cfg : Cfg) (h : Name → Nat) (now bdseq : Nat)
    (reg : List (Name × U)) (hreg : RegOk reg) (mgr : Mgr U)
    (ms : List (Metric U)) (res : List (Res MetricId))
    (hb : nodeBirth cfg h now bdseq reg mgr = .ok (ms, res))
    (k : Nat) (r : Req U) (id : MetricId)
    (hk : (mgrReqs now mgr)[k]? = some r) (hres : res[k]? = some (.ok id))
    (v : Option U) (t : Nat) :
    specMetric r id ∈ ms ∧
    (publishToMetric (createPublish id v t)).alias = idAlias id ∧
    (publishToMetric (createPublish id v t)).name = idName id ∧
    Identifies (publishToMetric (createPublish id v t)) (specMetric r id) ∧
    ∀ b ∈ ms, Identifies (publishToMetric (createPublish id v t)) b → b = specMetric r id := by
  obtain ⟨hms, _⟩ := C11_nbirth_contents cfg h now bdseq reg hreg mgr ms res hb
  obtain ⟨_, hnd, had⟩ := C11_nbirth_well_formed cfg h now bdseq reg hreg mgr ms res hb
  obtain ⟨st3, st4, _, _, _, _, _, _, hr, _⟩ := nodeBirth_final hreg hb
  have hmem : specMetric r id ∈ ms := by
    rw [hms]
    simp only [List.mem_cons, List.mem_append]
    right; right; right
    exact accepted_mem _ _ k r id hk hres
  have hshape := runReqs_ids (cfg := cfg) (h := h) (mgrReqs now mgr) st3 k r id hk
    (by rw [hr]; exact hres)
  have hshape' : (r.details.useAlias = false ∧ id = .name r.name) ∨ (∃ a, id = .alias a) := by
    rcases hshape with hs | ⟨_, hs⟩
    · exact Or.inl hs
    · exact Or.inr hs
  obtain ⟨i1, i2⟩ := token_identifies hnd had hshape' hmem v t
  refine ⟨hmem, ?_, ?_, i1, i2⟩
  · cases id <;> cases v <;> simp [publishToMetric, createPublish, idAlias]
  · cases id <;> cases v <;> simp [publishToMetric, createPublish, idName]

/-- Token fidelity, DBIRTH. -/
theorem C11_token_fidelity_device (cfg : Cfg) (h : Name → Nat) (now did : Nat)
    (regNames : List Name) (mgr : Mgr U)
    (ms : List (Metric U)) (res : List (Res MetricId))
    (hb : deviceBirth cfg h now did regNames mgr = .ok (ms, res))
    (k : Nat) (r : Req U) (id : MetricId)
    (hk : (mgrReqs now mgr)[k]? = some r) (hres : res[k]? = some (.ok id))
    (v : Option U) (t : Nat) :
    specMetric r id ∈ ms ∧
    (publishToMetric (createPublish id v t)).alias = idAlias id ∧
    (publishToMetric (createPublish id v t)).name = idName id ∧
    Identifies (publishToMetric (createPublish id v t)) (specMetric r id) ∧
    ∀ b ∈ ms, Identifies (publishToMetric (createPublish id v t)) b → b = specMetric r id := by
  obtain ⟨hms, _⟩ := C11_dbirth_contents cfg h now did regNames mgr ms res hb
  obtain ⟨_, hnd, had⟩ := C11_dbirth_well_formed cfg h now did regNames mgr ms res hb
  obtain ⟨st4, hr, _⟩ := deviceBirth_final hb
  have hmem : specMetric r id ∈ ms := by
    rw [hms]; exact accepted_mem _ _ k r id hk hres
  have hshape := runReqs_ids (cfg := cfg) (h := h) (mgrReqs now mgr)
    ({ obj := did, registry := regNames } : Init U) k r id hk (by rw [hr]; exact hres)
  have hshape' : (r.details.useAlias = false ∧ id = .name r.name) ∨ (∃ a, id = .alias a) := by
    rcases hshape with hs | ⟨_, hs⟩
    · exact Or.inl hs
    · exact Or.inr hs
  obtain ⟨i1, i2⟩ := token_identifies hnd had hshape' hmem v t
  refine ⟨hmem, ?_, ?_, i1, i2⟩
  · cases id <;> cases v <;> simp [publishToMetric, createPublish, idAlias]
  · cases id <;> cases v <;> simp [publishToMetric, createPublish, idName]

/-! ### SimpleMetricManager and the template registry -/

/-- `SimpleMetricManager::register_metric` keeps its names pairwise distinct -/
theorem C11_simple_names_nodup (ms ms' : List (SimpleMetric U)) (m : SimpleMetric U)
    (hnd : (ms.map (·.name)).Nodup) (hr : simpleRegister ms m = some ms') :
    (ms'.map (·.name)).Nodup ∧ ms' = ms ++ [m] := by
  unfold simpleRegister at hr
  split at hr
  · cases hr
  · rename_i hn
    cases hr
    refine ⟨?_, rfl⟩
    rw [List.map_append, List.nodup_append]
    refine ⟨hnd, by simp, ?_⟩
    intro a ha b hb
    simp at hb; subst hb
    intro hab; subst hab; exact hn ha

/-- A node whose manager is a SimpleMetricManager (entries in any iteration order): the
`.unwrap()` in `birth_metric` fires — the node task panics, no NBIRTH — exactly when an entry
is named bdSeq, Node Control/Rebirth or like a registered template definition, or has datatype
Template; otherwise the NBIRTH is that of the scripted manager making the same calls, every
entry gets its token. -/
theorem C11_simple_node_birth (cfg : Cfg) (h : Name → Nat) (now bdseq : Nat)
    (hc : cfg.inHalf = true ∨ cfg.ovf = false)
    (reg : List (Name × U)) (hreg : RegOk reg) (sm : List (SimpleMetric U))
    (hl : sm.length < two32) (hnd : (sm.map (·.name)).Nodup) :
    (nodeBirth cfg h now bdseq reg (.simple sm) = .panic ↔
      ∃ m ∈ sm, m.name = bdSeqName ∨ m.name = rebirthName ∨ m.name ∈ reg.map (·.1) ∨
        m.dt = dtTemplate) ∧
    (∀ ms res, nodeBirth cfg h now bdseq reg (.simple sm) = .ok (ms, res) →
      nodeBirth cfg h now bdseq reg (.scripted (simpleReqs now sm)) = .ok (ms, res) ∧
      ∀ o ∈ res, o.isOk = true) := by
  obtain ⟨st3, _, h2, _, _, _, h6, h7all⟩ :=
    nodeBirth_header (cfg := cfg) (h := h) (U := U) now bdseq hreg
  have h7 := h7all (.simple sm)
  have h7' := h7all (.scripted (simpleReqs now sm))
  have hpan := runSimple_panic_names (cfg := cfg) (h := h) now hc st3 sm
    (by rw [h2]; simpa using hl) hnd
  constructor
  · rw [h7]
    simp only [runMgr]
    cases hrs : runSimple cfg h now st3 sm with
    | ok p =>
      simp only
      constructor
      · intro hx; cases hx
      · intro hx
        have := hpan.mpr (by
          obtain ⟨m, hm, hbad⟩ := hx
          refine ⟨m, hm, ?_⟩
          rcases hbad with hb | hb | hb | hb
          · left; exact (h6 _).mpr (Or.inl hb)
          · left; exact (h6 _).mpr (Or.inr (Or.inl hb))
          · left; exact (h6 _).mpr (Or.inr (Or.inr hb))
          · right; exact hb)
        rw [hrs] at this; cases this
    | err e => exact absurd hrs (runSimple_ne_err now sm st3 e)
    | panic =>
      simp only [true_iff]
      obtain ⟨m, hm, hbad⟩ := hpan.mp hrs
      refine ⟨m, hm, ?_⟩
      rcases hbad with hb | hb
      · rcases (h6 _).mp hb with hb | hb | hb
        · left; exact hb
        · right; left; exact hb
        · right; right; left; exact hb
      · right; right; right; exact hb
  · intro ms res hb
    have hsame : nodeBirth cfg h now bdseq reg (.scripted (simpleReqs now sm))
        = .ok (ms, res) := by
      rw [h7] at hb
      rw [h7']
      simp only [runMgr] at hb ⊢
      cases hrs : runSimple cfg h now st3 sm with
      | ok p =>
        obtain ⟨s, ids⟩ := p
        rw [hrs] at hb
        simp only [Res.ok.injEq, Prod.mk.injEq] at hb
        obtain ⟨rfl, rfl⟩ := hb
        have hq := runSimple_ok now sm st3 s ids hrs
        rw [hq]
      | err e => rw [hrs] at hb; cases hb
      | panic => rw [hrs] at hb; cases hb
    refine ⟨hsame, ?_⟩
    rw [h7] at hb
    simp only [runMgr] at hb
    cases hrs : runSimple cfg h now st3 sm with
    | ok p =>
      rw [hrs] at hb
      simp only [Res.ok.injEq, Prod.mk.injEq] at hb
      obtain ⟨_, rfl⟩ := hb
      intro o ho
      obtain ⟨i, _, rfl⟩ := List.mem_map.mp ho
      rfl
    | err e => rw [hrs] at hb; cases hb
    | panic => rw [hrs] at hb; cases hb

/-- `cmd_lookup` of a SimpleMetricManager after a birth: an id routes to the entry's callback
only if that entry has a callback and the id is the token the birth gave that very entry -/
theorem C11_cmd_lookup (sm : List (SimpleMetric U)) (ids : List MetricId) (id : MetricId) (n : Name)
    (hm : (id, n) ∈ cmdLookup sm ids) :
    ∃ (k : Nat) (m : SimpleMetric U), sm[k]? = some m ∧ ids[k]? = some id ∧ m.name = n ∧
      m.hasCb = true := by
  induction sm generalizing ids with
  | nil => simp [cmdLookup] at hm
  | cons m ms ih =>
    cases ids with
    | nil => simp [cmdLookup] at hm
    | cons i is =>
      simp only [cmdLookup, List.zip_cons_cons, List.filterMap_cons] at hm
      split at hm
      · have hm' : (id, n) ∈ cmdLookup ms is := hm
        obtain ⟨k, m', h1, h2, h3, h4⟩ := ih is hm'
        exact ⟨k + 1, m', by simp [h1], by simp [h2], h3, h4⟩
      · rename_i b heq
        split at heq
        · rename_i hcb
          cases heq
          simp only [List.mem_cons] at hm
          rcases hm with hm | hm
          · cases hm
            exact ⟨0, m, rfl, rfl, rfl, hcb⟩
          · have hm' : (id, n) ∈ cmdLookup ms is := hm
            obtain ⟨k, m', h1, h2, h3, h4⟩ := ih is hm'
            exact ⟨k + 1, m', by simp [h1], by simp [h2], h3, h4⟩
        · cases heq

/-- `register_device` yields an id whenever the name is valid and new — without overflow checks
always (fewer than 2^32 − 1 devices), with them unless the id 0xFFFF_FFFF is taken (the `u32`
`id += 1` then panics while the device map is locked) -/
theorem C11_device_id_total (cfg : Cfg) (h : Name → Nat) (dm : DevMap) (n : Name)
    (hv : validName n = true) (hn : n ∉ dm.devs.map (·.1)) (hl : dm.ids.length + 1 < two32) :
    (∃ dm' id, addDevice cfg h dm n = .ok dm' id) ∨
    (cfg.ovf = true ∧ (two32 - 1) ∈ dm.ids ∧ ∃ p, addDevice cfg h dm n = p ∧
      match p with | .panic => True | _ => False) := by
  unfold addDevice
  simp only [hv, Bool.not_true, Bool.false_eq_true, if_false, hn]
  cases hg : genDeviceId cfg h dm.ids n with
  | ok id => left; exact ⟨_, id, rfl⟩
  | err e => exact absurd hg (bump_ne_err e)
  | panic =>
    right
    obtain ⟨h1, h2⟩ := bump_panic (by simpa using hl) hg
    refine ⟨h1, ?_, _, rfl, trivial⟩
    simp only [List.mem_cons, Nat.zero_add] at h2
    rcases h2 with h2 | h2
    · unfold two32 at h2; omega
    · exact h2

/-- what `TemplateRegistry::register` / `deregister` / `clear` guarantee, from the empty
registry: keys distinct, never bdSeq or Node Control/Rebirth -/
theorem C11_registry_ok :
    RegOk ([] : List (Name × U)) ∧
    (∀ (reg reg' : List (Name × U)) n u, RegOk reg → regRegister reg n u = .ok reg' →
      RegOk reg' ∧ reg' = reg ++ [(n, u)]) ∧
    (∀ (reg : List (Name × U)) n, RegOk reg → RegOk (regDeregister reg n)) := by
  refine ⟨by simp [RegOk], ?_, ?_⟩
  · intro reg reg' n u ⟨h1, h2, h3⟩ hr
    unfold regRegister at hr
    split at hr
    · cases hr
    · rename_i hres
      split at hr
      · cases hr
      · rename_i hn
        cases hr
        refine ⟨⟨?_, ?_, ?_⟩, rfl⟩
        · rw [List.map_append, List.nodup_append]
          refine ⟨h1, by simp, ?_⟩
          intro a ha b hb
          simp at hb; subst hb
          intro hab; subst hab; exact hn ha
        · simp only [List.map_append, List.mem_append, not_or]
          refine ⟨h2, ?_⟩
          simp; intro hc; exact hres (Or.inr hc.symm)
        · simp only [List.map_append, List.mem_append, not_or]
          refine ⟨h3, ?_⟩
          simp; intro hc; exact hres (Or.inl hc.symm)
  · intro reg n ⟨h1, h2, h3⟩
    unfold regDeregister
    refine ⟨?_, ?_, ?_⟩
    · exact List.Nodup.sublist (List.Sublist.map _ List.filter_sublist) h1
    · intro hc
      obtain ⟨e, he, hex⟩ := List.mem_map.mp hc
      exact h2 (List.mem_map.mpr ⟨e, (List.mem_filter.mp he).1, hex⟩)
    · intro hc
      obtain ⟨e, he, hex⟩ := List.mem_map.mp hc
      exact h3 (List.mem_map.mpr ⟨e, (List.mem_filter.mp he).1, hex⟩)

/-- a device whose manager is a SimpleMetricManager: only a Template-typed entry can panic -/
theorem C11_simple_device_birth (cfg : Cfg) (h : Name → Nat) (now id : Nat)
    (hc : cfg.inHalf = true ∨ cfg.ovf = false) (regNames : List Name)
    (sm : List (SimpleMetric U)) (hl : sm.length < two32) (hnd : (sm.map (·.name)).Nodup) :
    (deviceBirth cfg h now id regNames (.simple sm) = .panic ↔ ∃ m ∈ sm, m.dt = dtTemplate) ∧
    (∀ ms res, deviceBirth cfg h now id regNames (.simple sm) = .ok (ms, res) →
      deviceBirth cfg h now id regNames (.scripted (simpleReqs now sm)) = .ok (ms, res) ∧
      ∀ o ∈ res, o.isOk = true) := by
  have hpan := runSimple_panic_names (cfg := cfg) (h := h) now hc
    ({ obj := id, registry := regNames } : Init U) sm (by simpa using hl) hnd
  constructor
  · simp only [deviceBirth, runMgr]
    cases hrs : runSimple cfg h now ({ obj := id, registry := regNames } : Init U) sm with
    | ok p =>
      simp only
      constructor
      · intro hx; cases hx
      · rintro ⟨m, hm, hbad⟩
        have := hpan.mpr ⟨m, hm, Or.inr hbad⟩
        rw [hrs] at this; cases this
    | err e => exact absurd hrs (runSimple_ne_err now sm _ e)
    | panic =>
      simp only [true_iff]
      obtain ⟨m, hm, hbad⟩ := hpan.mp hrs
      rcases hbad with hb | hb
      · simp at hb
      · exact ⟨m, hm, hb⟩
  · intro ms res hb
    simp only [deviceBirth, runMgr] at hb ⊢
    cases hrs : runSimple cfg h now ({ obj := id, registry := regNames } : Init U) sm with
    | ok p =>
      obtain ⟨s, ids⟩ := p
      rw [hrs] at hb
      simp only [Res.ok.injEq, Prod.mk.injEq] at hb
      obtain ⟨rfl, rfl⟩ := hb
      rw [runSimple_ok now sm _ s ids hrs]
      refine ⟨rfl, ?_⟩
      intro o ho
      obtain ⟨i, _, rfl⟩ := List.mem_map.mp ho
      rfl
    | err e => rw [hrs] at hb; cases hb
    | panic => rw [hrs] at hb; cases hb

/-! ### T-table: the registration decision of `BirthInitializer`, regenerated on every run by
executing the freshly compiled crate on {node, device} × {register_metric, register_template_metric}
× {Int32, Template} × {value, none} × {alias, name} × {fresh, used name} × {registered,
unregistered definition} (`SradModel/Generated/BirthTable.lean`, 96 rows). A change to any
branch of `register_metric` / `register_template_metric` / `create_metric_token` /
`into_metric_value` breaks one of these two obligations at `lake build`. -/

/-- the compiled code and the model (a full `nodeBirth` / `deviceBirth`) agree on every row -/
theorem C11_table_matches_model :
    ∀ row ∈ Srad.Generated.birthTable,
      rowShape Srad.Generated.birthTableCfg row.1 = row.2 := by
  decide +kernel

/-- in the compiled code itself: a registration is accepted iff its name is not used, it is not
a Template through `register_metric`, and a template instance has a value whose definition is
registered; the accepted metric carries an alias iff one was asked for, the requested
datatype, and `is_null = true` exactly when there is no value. All 96 rows are present. -/
theorem C11_table_decision :
    (∀ row ∈ Srad.Generated.birthTable,
      ((match row.2 with | .ok .. => true | _ => false) =
        (!row.1.dup && (row.1.apiT || row.1.dt != dtTemplate) &&
          (!row.1.apiT || (row.1.hasVal && row.1.reg)))) ∧
      ((match row.2 with
        | .ok a d n v => a == row.1.alias && d == row.1.dt && n == !row.1.hasVal && v == row.1.hasVal
        | _ => true) = true)) ∧
    (Srad.Generated.birthTable.map (·.1)).Nodup ∧ Srad.Generated.birthTable.length = 96 := by
  decide +kernel

/-! ### non-vacuity and the excluded point (tests, not the claim) -/

section Examples

def exH : Name → Nat := fun n =>
  if n = [1] then 0xFFFFFFFF else if n = [2] then 0x1_FFFFFFFF else if n = [3] then 0
  else if n = [4] then 7 else if n = [5] then 7 else 12345

def exCfg : Cfg := { dbg := true, ovf := true, inHalf := true }

/-- a node birth with one registered template `[9]`, a manager that registers: an aliased
metric, the same name again, bdSeq, a null metric by name, a Template through the wrong API, an
instance of the registered template, an instance of an unregistered one, and two names with
colliding hashes -/
def exReqs : List (Req Nat) :=
  [ .metric ⟨[4], true, 3, 100⟩ (some 11),
    .metric ⟨[4], true, 3, 100⟩ (some 12),
    .metric ⟨bdSeqName, false, 4, 100⟩ (some 1),
    .metric ⟨[6], false, 12, 101⟩ none,
    .metric ⟨[7], true, dtTemplate, 100⟩ (some 1),
    .template ⟨[8], true, dtTemplate, 100⟩ (some ([9], 5)),
    .template ⟨[10], true, dtTemplate, 100⟩ (some ([11], 5)),
    .metric ⟨[5], true, 10, 100⟩ (some 13) ]

example :
    nodeBirth exCfg exH 100 3 [([9], 77)] (.scripted exReqs) =
      .ok ([ bdSeqMetric 100 3, rebirthMetric 100, defMetric 100 ([9], 77),
             { name := some [4], alias := some 7, datatype := some 3, timestamp := some 100,
               value := some (.user 11) },
             { name := some [6], datatype := some 12, timestamp := some 101, isNull := some true },
             { name := some [8], alias := some 12345, datatype := some 19, timestamp := some 100,
               value := some (.inst [9] 5) },
             { name := some [5], alias := some 8, datatype := some 10, timestamp := some 100,
               value := some (.user 13) } ],
           [ .ok (.alias 7), .err .duplicate, .err .duplicate, .ok (.name [6]), .panic,
             .ok (.alias 12345), .err .unregisteredTemplate, .ok (.alias 8) ]) := by
  decide +kernel

example : RegOk [(([9] : Name), (77 : Nat))] := by decide +kernel
example : acceptFlags [[9]] (bdSeqName :: rebirthName :: [[9]]) exReqs
    = [true, false, false, true, false, true, false, true] := by decide +kernel

/-- device ids: two names with the same 32-bit hash, and one hashing to 0 -/
example :
    (([DevOp.add [1], .add [2], .add [3], .remove [1], .add [1]].foldl
      (applyDevOp exCfg (fun n => if n = [3] then 0 else 41)) DevMap.empty).devs)
      = [([1], 41), ([3], 1), ([2], 42)] := by decide +kernel

def exCarry : Cfg := { dbg := true, ovf := true, inHalf := false }
def exNodeReqs : List (Req Nat) :=
  [.metric ⟨[1], true, 3, 0⟩ (some 0), .metric ⟨[2], true, 3, 0⟩ (some 0)]
def exDevReqs : List (Req Nat) := [.metric ⟨[3], true, 3, 0⟩ (some 0)]

/-- The excluded point of `C11_alias_unique_across` (finding D10) with `alias += 1`
(`inHalf = false`): two node metrics whose names hash to 0xFFFF_FFFF (low 32 bits) — the second
is bumped to 0x1_0000_0000 — and a metric hashing to 0 in the device with id 1: the NBIRTH and
the DBIRTH declare the same alias. `NoCarry` fails for the node's manager. With the repaired
bump (`exCfg`) the second node alias wraps to 0 inside the node's half. -/
example :
    birthAliases (nodeBirth exCarry exH 0 0 [] (.scripted exNodeReqs)) = [0xFFFFFFFF, 0x100000000] ∧
    birthAliases (deviceBirth exCarry exH 0 1 [] (.scripted exDevReqs)) = [0x100000000] ∧
    ¬ NoCarry exH (exNodeReqs.map (·.name)) ∧
    birthAliases (nodeBirth exCfg exH 0 0 [] (.scripted exNodeReqs)) = [0xFFFFFFFF, 0] := by
  decide +kernel

/-- `NoCarry` is satisfiable together with a genuine collision: [4] and [5] both hash to 7 -/
example : NoCarry exH [[4], [5]] ∧
    birthAliases (nodeBirth exCarry exH 0 0 []
      (.scripted [.metric ⟨[4], true, 3, 0⟩ (some 0), .metric ⟨[5], true, 3, 0⟩ (some (0 : Nat))]))
      = [7, 8] := by
  decide +kernel

/-- the `u64` overflow of `alias += 1` in the device with id 0xFFFF_FFFF: a panic with overflow
checks, alias 0 (the node's half) without -/
example :
    (deviceBirth exCarry exH 0 0xFFFFFFFF [] (.scripted exNodeReqs)).casesOn
      (fun p => p.2) (fun _ => []) [] = [.ok (.alias 0xFFFFFFFFFFFFFFFF), .panic] ∧
    birthAliases (deviceBirth { exCarry with ovf := false } exH 0 0xFFFFFFFF []
      (.scripted exNodeReqs)) = [0xFFFFFFFFFFFFFFFF, 0] := by
  decide +kernel

/-- SimpleMetricManager with an entry named bdSeq: the node birth panics -/
example : nodeBirth exCfg exH 0 0 ([] : List (Name × Nat))
    (.simple [⟨[4], true, 3, 1, false⟩, ⟨bdSeqName, true, 4, 2, false⟩]) = .panic := by
  decide +kernel

end Examples

end Srad.Birth
