/-
C20, liveness half — **shutdown terminates under every scheduler** (edge node).

`Props/C20.lean` proves `C20_termination_partial`: from a stopping state *some* schedule makes the
run loop return. Here the quantifier is turned round: *every* schedule does.

* `termMeasure : St → Nat` (defined in `Proofs/EonTerm.lean`) is a potential: for every task the
  number of steps it can still take plus the work these steps create for the other tasks
  (weights grow with the number of devices, because one node birth or death sends a message to
  every device task). It does not mention the clock.
* `C20_step_decreases`: **every** task step (loop, loop timeout, node, device, user; every
  alternative of an unbiased `select!`; every client decision, parking included) strictly lowers
  it, in every reachable state — stopping or not. `C20_time_keeps_measure`: letting time pass
  leaves it alone (so does a late answer of the client to a parked call). So without new
  external stimuli no schedule can run more than `termMeasure s` task steps
  (`C20_schedule_bound`): there is no livelock between the tasks.
* `C20_progress`: in a shutdown run whose loop has not returned a task step is enabled, or
  `poll_until_offline` sits in `poll()` with nothing to return and only the 1 s timer is awaited.
* `C20_termination_all_schedules`: hence every schedule from a stopping state is bounded by
  `termMeasure s`, every maximal one (nothing enabled, timer expired) has `loop = done`, and every
  non-maximal one can be continued to `done`.

A *schedule* (`Act.isSched`) is any sequence of task steps, time advances and late answers of the
client to calls it had parked; the client may answer a hand-over of a device task or of a user
call as it likes (accept, reject, park), only a hand-over of the node task (SUB, NBIRTH) is not
parked. What the environment must provide is thus reduced to `NodeFree`: the **node task** is not
parked inside `on_ncmd` and the SUB / NBIRTH it waits for has been answered. Device tasks and
user calls may stay parked in client calls or callbacks for ever: they do not hold up the
shutdown (example `exDevPre`). `C20_node_parked_blocks_shutdown` shows that `NodeFree` cannot be
dropped: the 1 s timeout does *not* rescue a shutdown whose node task is parked (a FINDING about
`EoN::run`, see there).

Outside the model: that the tokio runtime actually runs enabled tasks and fires the timer
(fairness of the scheduler), and user code (`on_ncmd`) that never returns.

Helper lemmas: `SradModel/Proofs/EonTerm.lean`.
-/
import SradModel.Proofs.EonTerm

namespace Srad.Eon
open Srad.Eon.P20 Srad.Eon.Term

/-- **Every task step lowers the measure.** `s` is any reachable state (no side condition: the
bound also holds before the stop is signalled and after `run` has returned), `t` any task,
`dec` any client decision (a parked hand-over included), `(s', o)` any alternative the step
offers. -/
theorem C20_step_decreases (cd : Nat) (acts : List Act) (s : St) (tr : List Obs)
    (h : runActs (init cd) acts = some (s, tr))
    (t : Task) (dec : Dec) (s' : St) (o : List Obs) (hm : (s', o) ∈ step s t dec) :
    termMeasure s' < termMeasure s :=
  step_dec (uidOk_reach h) hm

/-- the passage of time does not change the measure, nor does a late answer of the client to a
call it had parked -/
theorem C20_time_keeps_measure (s : St) (ms id : Nat) (ok : Bool) :
    termMeasure (applyStim s (.advance ms)).1 = termMeasure s ∧
    termMeasure (applyStim s (.resolve id ok)).1 = termMeasure s :=
  ⟨rfl, (resolve_frame s id ok).1⟩

/-- **No livelock.** From any reachable state, a run made of task steps (any client decisions),
time advances and late answers to parked calls — no new external stimulus — contains at most
`termMeasure s` task steps. -/
theorem C20_schedule_bound (cd : Nat) (acts : List Act) (s : St) (tr : List Obs)
    (h : runActs (init cd) acts = some (s, tr))
    (sched : List Act) (hs : ∀ a ∈ sched, a.isInternal = true) (s' : St) (tr' : List Obs)
    (hr : runActs s sched = some (s', tr')) :
    taskCount sched + termMeasure s' ≤ termMeasure s :=
  runActs_bound sched s s' tr' (uidOk_reach h) hs hr

/-- **Progress.** In a reachable stopping state with a free node task whose run loop has not
returned: some task step is enabled (with a client that answers), or the loop is in
`poll_until_offline`, blocked in `poll()` with no event to return, the 1 s timer is armed and
has not expired — only the passage of time is awaited — and once the clock has reached the
deadline the timeout task is enabled. -/
theorem C20_progress (cd : Nat) (acts : List Act) (s : St) (tr : List Obs)
    (h : runActs (init cd) acts = some (s, tr)) (hstop : Stopping s) (hfree : NodeFree s)
    (hnd : s.loop ≠ .done) :
    (∃ (t : Task) (dec : Dec) (k : Nat), dec ≠ Dec.park ∧ (step s t dec)[k]? ≠ none) ∨
    (∃ dl, s.stopDeadline = some dl ∧ s.wall < dl ∧ s.loop = .stopPolling ∧ s.inbox = [] ∧
      (step (applyStim s (.advance (dl - s.wall))).1 .loopTimeout .acc)[0]? ≠ none) :=
  progress (Good_reach h hstop hfree) hnd

/-- **Shutdown terminates under every scheduler.** `s` is a reachable state in which the stop has
been signalled (`Stopping`) and the node task is not held up by its environment (`NodeFree`).
Take *any* schedule `sched` from `s` (`Act.isSched`): task steps — whichever task, whichever
alternative, whatever the client decides, except that it does not park a hand-over of the node
task —, time advances and late answers to parked calls, without further external stimuli. Then
1. it contains at most `termMeasure s` task steps (and what is left of the budget is
   `termMeasure s'`);
2. if it is maximal — in `s'` no task step is enabled and the timer has expired — then `run` has
   returned (`s'.loop = .done`; by `C20_stopped_is_offline` the node is then offline, unbirthed
   and not running);
3. if it is not, it can be continued to such a state: it never paints itself into a corner.
So a scheduler that keeps running enabled tasks and lets time pass reaches `done` after at most
`termMeasure s` task steps, whatever order it picks. -/
theorem C20_termination_all_schedules (cd : Nat) (acts : List Act) (s : St) (tr : List Obs)
    (h : runActs (init cd) acts = some (s, tr)) (hstop : Stopping s) (hfree : NodeFree s)
    (sched : List Act) (hs : ∀ a ∈ sched, a.isSched = true) (s' : St) (tr' : List Obs)
    (hr : runActs s sched = some (s', tr')) :
    taskCount sched + termMeasure s' ≤ termMeasure s ∧
    (Quiescent s' → s'.loop = .done) ∧
    (∃ more s'' tr'', (∀ a ∈ more, a.isSched = true) ∧ runActs s' more = some (s'', tr'') ∧ s''.loop = .done) := by
  have hg := Good_reach h hstop hfree
  have hg' := Good_runActs sched s s' tr' hg hs hr
  exact ⟨runActs_bound sched s s' tr' hg.uid (fun a ha => isInternal_of_isSched (hs a ha)) hr,
    quiescent_done hg', extend_to_done _ s' (Nat.le_refl _) hg'⟩

/-- the contrapositive reading of the bound: a schedule with more than `termMeasure s` task
steps is not executable -/
theorem C20_no_longer_schedule (cd : Nat) (acts : List Act) (s : St) (tr : List Obs)
    (h : runActs (init cd) acts = some (s, tr))
    (sched : List Act) (hs : ∀ a ∈ sched, a.isInternal = true) (hlong : termMeasure s < taskCount sched) :
    runActs s sched = none := by
  cases hr : runActs s sched with
  | none => rfl
  | some r =>
    have := C20_schedule_bound cd acts s tr h sched hs r.1 r.2 hr
    omega

/-- the hypotheses of `C20_termination_partial` (stop signalled, `run` started, no call parked, no
node callback parked) give `Stopping` and `NodeFree`; the timer hypothesis is not needed -/
theorem C20_stopping_of_partial_hyps (cd : Nat) (acts : List Act) (s : St) (tr : List Obs)
    (h : runActs (init cd) acts = some (s, tr))
    (hstop : s.stop = true ∨ s.loop = .stopCheck ∨ s.loop = .stopPolling ∨ (∃ o, s.loop = .stopSendCs o) ∨
             (∃ o, s.loop = .stopAwaitWill o) ∨ (∃ o, s.loop = .forceSendCs o) ∨ (∃ o, s.loop = .forceAwaitWill o) ∨
             s.loop = .sendStopped)
    (hstarted : s.loop ≠ .start)
    (hnopark : ∀ c ∈ s.calls, c.res.isSome = true) (hcb : s.nodeCbPark = false) :
    Stopping s ∧ NodeFree s := by
  refine ⟨⟨hstarted, ?_⟩, NodeFree_of_resolved (Inv_reach h) hnopark hcb⟩
  rcases hstop with h | h | h | ⟨o, h⟩ | ⟨o, h⟩ | ⟨o, h⟩ | ⟨o, h⟩ | h
  · exact .inl h
  all_goals (right; rw [h]; rfl)

/-! ### non-vacuity: a reachable stopping state, its measure, and a full run to `done` -/

/-- connect, subscribe, NBIRTH accepted; then `cancel`: NDEATH handed over, stop queued -/
def exPre : List Act :=
  [.task .loop .acc 0, .stim (.ev .online), .task .loop .acc 0, .task .loop .acc 0,
   .task .node .acc 0, .task .node .acc 0, .task .node .acc 0, .task .node .acc 0,
   .stim (.cancel 0), .task (.user 0) .acc 0, .task (.user 0) .acc 0]

/-- the loop takes the stop, cancel disconnects, `poll_until_offline` polls, nothing arrives, the
timer fires, the node task answers the forced Offline, the loop sends Stopped and returns -/
def exFin : List Act :=
  [.task .loop .acc 0, .task (.user 0) .acc 0, .task .loop .acc 0, .stim (.advance 1000),
   .task .loopTimeout .acc 0, .task .node .acc 0, .task .loop .acc 0, .task .loop .acc 0]

/-- the state after `exPre`: online, birthed, stop queued, loop at the top of its main loop, node
task idle; its measure is 20 -/
example : (runActs (init 0) exPre).map (fun r => (r.1.loop, r.1.stop, termMeasure r.1)) = some (.sel, true, 20) ∧
    (runActs (init 0) exPre).map (fun r => (r.1.online, r.1.birthed, r.1.node, r.1.nodeCbPark))
      = some (true, true, .idle, false) := by decide

/-- `exFin` is a schedule, has 7 task steps (≤ 20) and ends with `run` returned, offline -/
example : exFin.all Act.isSched = true ∧ taskCount exFin = 7 ∧
    (runActs (init 0) (exPre ++ exFin)).map (fun r => (r.1.loop, r.1.online, r.1.running, termMeasure r.1))
      = some (.done, false, false, 6) := by decide

/-- the measure along `exFin` -/
example : (List.range 9).map (fun n => (runActs (init 0) (exPre ++ exFin.take n)).map (fun r => termMeasure r.1))
    = [some 20, some 18, some 17, some 16, some 16, some 14, some 8, some 7, some 6] := by decide

/-! ### device tasks and user calls may stay parked -/

/-- one device; its DBIRTH is parked by the client and never answered; a blocking NDATA publish
is parked too; then `cancel` -/
def exDevPre : List Act :=
  [.task .loop .acc 0, .stim (.reg 7), .stim (.enable 7), .stim (.ev .online), .task .loop .acc 0, .task .loop .acc 0,
   .task .node .acc 0, .task .node .acc 0, .task .node .acc 0, .task .node .acc 0,
   .task (.dev 0) .acc 0, .task (.dev 0) .park 0,
   .stim (.pub 1 .node false 1), .task (.user 1) .park 0,
   .stim (.cancel 0), .task (.user 0) .acc 0, .task (.user 0) .acc 0]

/-- the same closing schedule `exFin` makes `run` return, the device task and the publish still
waiting for the client (calls 2 and 3 unanswered) -/
example : (runActs (init 0) exDevPre).map (fun r => (r.1.loop, r.1.stop, termMeasure r.1)) = some (.sel, true, 29) ∧
    (runActs (init 0) (exDevPre ++ exFin)).map (fun r => (r.1.loop, r.1.devs.map (·.pc), r.1.ucalls.map (·.pc),
        r.1.calls.map (·.res)))
      = some (.done, [.waitBirth 2 1], [.wait 3, .done], [some true, some true, none, none, some true, some true]) := by
  decide

/-! ### what `NodeFree` is for: a parked node task blocks the shutdown, timeout or not -/

/-- connect, subscribe; the client **parks the NBIRTH** (a blocking publish that does not return);
`cancel`; the loop takes the stop, polls, the 1 s timer fires, the forced `on_offline` hands the
Offline message to the node task … -/
def exStuck : List Act :=
  [.task .loop .acc 0, .stim (.ev .online), .task .loop .acc 0, .task .loop .acc 0,
   .task .node .acc 0, .task .node .acc 0, .task .node .park 0,
   .stim (.cancel 0), .task (.user 0) .acc 0, .task (.user 0) .acc 0, .task (.user 0) .acc 0,
   .task .loop .acc 0, .task .loop .acc 0, .stim (.advance 1000), .task .loopTimeout .acc 0]

def stuckSt : St := ((runActs (init 0) exStuck).getD (init 0, [])).1

theorem exStuck_runs : runActs (init 0) exStuck = some (stuckSt, ((runActs (init 0) exStuck).getD (init 0, [])).2) := by
  decide

/-- **Negative result (FINDING).** … and there the shutdown hangs: the node task is parked in the
NBIRTH publish, never takes the `Offline(sender)` message, so the will oneshot is never answered
and `EoN::run` stays in the forced `on_offline().await` (`loop = forceAwaitWill`). The state is
reachable, stopping, the timer has expired, **no task step is enabled** and `run` has not
returned. The 1 s timeout only covers `poll_until_offline`; the `on_offline` that follows it
waits for the node task without a timeout. (Same if the node task is parked in the SUB call or
in an `on_ncmd` callback that does not return.) To replay against the real code: a client whose
`publish_node_message` blocks, `Event::Online`, then `NodeHandle::cancel()`: `EoN::run` does not
return until the publish is released. -/
theorem C20_node_parked_blocks_shutdown :
    (∃ tr, runActs (init 0) exStuck = some (stuckSt, tr)) ∧ Stopping stuckSt ∧ ¬ NodeFree stuckSt ∧
    Quiescent stuckSt ∧ stuckSt.loop = .forceAwaitWill 0 ∧ stuckSt.node = .waitNb 1 .birth none := by
  have hloop : stuckSt.loop = .forceAwaitWill 0 := by decide
  have hnode : stuckSt.node = .waitNb 1 .birth none := by decide
  have hdevs : stuckSt.devs = [] := by decide
  have huc : stuckSt.ucalls = [{ j := 0, kind := .cancel, pc := .done }] := by decide
  have hL : stepLoop stuckSt = [] := by decide
  have hT : stepLoopTimeout stuckSt = [] := by decide
  have hN : ∀ dec, stepNode stuckSt dec = [] := by intro dec; cases dec <;> decide
  refine ⟨⟨_, exStuck_runs⟩, ⟨by rw [hloop]; decide, .inr (by rw [hloop]; rfl)⟩, ?_, ⟨?_, ?_⟩, hloop, hnode⟩
  · intro hf
    have := hf.2 1 (by rw [hnode]; rfl)
    revert this
    decide
  · intro t dec k _
    cases t with
    | loop => simp [step, hL]
    | loopTimeout => simp [step, hT]
    | node => simp [step, hN]
    | dev d => simp [step, stepDev, findUid, hdevs]
    | user j =>
      by_cases hj : j = 0
      · subst hj; simp [step, stepUser, huc]
      · have : (0 == j) = false := by simpa using fun h => hj h.symm
        simp [step, stepUser, huc, this]
  · intro dl hdl
    have : stuckSt.stopDeadline = none := by decide
    rw [this] at hdl
    exact absurd hdl (by simp)

end Srad.Eon
