/-
C12 — Metric fields survive the trip from node handle to host store.

Property theorems only; helper lemmas are in `SradModel/Proofs/Metric.lean`, the vocabulary
(`Delivered`, `PropsMatch`, `StableSortedByTs`, `Path`, …) in `SradModel/Model/MetricSpec.lean`.

Reading of the theorems: a `PubMetric` is what an edge-node task builds through a `MetricToken`
and the `PublishMetric` builder (any metric value or null, custom timestamp, flags, metadata,
a property set whose list order is whatever order its `HashMap` iterates in). `enc`/`dec` stand
for prost (`WireSound`: `dec (enc p) = some p`, exercised on every run by really encoding and
decoding every payload). `hostReceiveData … = .data d` is the host event whose `d.metrics` is
handed to the store in one `update_from_data` call once the node actor admits the message
(admission is C05/C06/C14; the harness runs it for real with in-order messages).

The edge conversion in the model is the repaired one (D11); on the unrepaired tree the regenerated
`metricEdgeTable` differs and `C12_table_*` fail at `lake build`, and the oracle names a concrete null
metric that never reaches the store.
-/
import SradModel.Proofs.Metric
import SradModel.Proofs.Codec
import SradModel.Generated.MetricTable

namespace Srad.Metric
open Srad.Codec (Bytes DT)

/-! ### one metric -/

/-- Whatever metric a task publishes — any value or null, timestamp, flags, metadata, property
set — the payload carrying it alone decodes at the host to exactly one store entry with the same
identifier, value, timestamp, flags (absent = false), metadata and a property set equal as a map;
the message carries the sequence number (as a `u8`) and the clock reading it was given. -/
theorem C12_single_metric (enc : Payload → Bytes) (dec : Bytes → Option Payload)
    (hw : WireSound enc dec) (seq now : Nat) (pm : PubMetric) (hwf : pm.WF) :
    ∃ d e, hostReceiveData dec (enc (payloadOf seq now [pm])) = .data d ∧
      d.seq = seq % 256 ∧ d.timestamp = now ∧ d.metrics = [e] ∧ Delivered pm e := by
  refine ⟨_, hostEntry pm, hostReceive_payloadOf enc dec hw seq now [pm], rfl, rfl, rfl,
    delivered_hostEntry pm hwf⟩

/-- In particular a null arrives as a null (never as a missing or rejected metric), and an
absent flag arrives as `false`. -/
theorem C12_null_and_absent_flags (enc : Payload → Bytes) (dec : Bytes → Option Payload)
    (hw : WireSound enc dec) (seq now : Nat) (pm : PubMetric) (hwf : pm.WF)
    (hnull : pm.value = none) (hh : pm.isHistorical = none) (ht : pm.isTransient = none) :
    ∃ d e, hostReceiveData dec (enc (payloadOf seq now [pm])) = .data d ∧ d.metrics = [e] ∧
      e.1 = pm.id ∧ e.2.value = none ∧ e.2.isHistorical = false ∧ e.2.isTransient = false := by
  obtain ⟨d, e, h1, _, _, h4, hd⟩ := C12_single_metric enc dec hw seq now pm hwf
  refine ⟨d, e, h1, h4, hd.identifier, ?_, ?_, ?_⟩
  · rw [hd.value, hnull]
  · rw [hd.historical, hh]; rfl
  · rw [hd.transient, ht]; rfl

/-- Any supported datatype: a value of each of the 13 scalar Rust types (as `create_publish_metric`
converts it, model of C10) and every array type (the bytes its encoder produces) arrives as a
metric value from which the host's typed conversion reads back the same Rust value. -/
theorem C12_typed_value_reads_back (pm : PubMetric) (e : MetricId × Details) (hd : Delivered pm e) :
    (∀ (t : Srad.Codec.STy) (v : Srad.Codec.SV), t.holds v = true →
      pm.value = MVal.ofPV (Srad.Codec.toProto t v) →
      ∃ hv, e.2.value = some hv ∧ Srad.Codec.fromProto t hv.toPV = .ok v) ∧
    (∀ (w : Nat) (l : List Nat), 0 < w → (∀ x ∈ l, x < 2 ^ (8 * w)) →
      pm.value = some (.bytes (Srad.Codec.encodeW w l)) →
      ∃ b, e.2.value = some (.bytes b) ∧ (Srad.Codec.decodeW w b).res = .ok l) ∧
    (∀ (l : List Bool), l.length < 4294967296 →
      pm.value = some (.bytes (Srad.Codec.encodeBool l)) →
      ∃ b, e.2.value = some (.bytes b) ∧ (Srad.Codec.decodeBool b).res = .ok l) ∧
    (∀ (valid : Bytes → Bool) (l : List Bytes), (∀ s ∈ l, valid s = true ∧ (0 : UInt8) ∉ s) →
      pm.value = some (.bytes (Srad.Codec.encodeStr l)) →
      ∃ b, e.2.value = some (.bytes b) ∧ (Srad.Codec.decodeStr valid b).res = .ok l) := by
  refine ⟨?_, ?_, ?_, ?_⟩
  · intro t v hh hv
    have hrt := Srad.Codec.scalar_roundtrip t v hh
    rw [hd.value, hv]
    cases t <;> cases v <;>
      simp_all [Srad.Codec.STy.holds, Srad.Codec.toProto, MVal.ofPV, MVal.toPV]
  · intro w l hw hl hv
    exact ⟨_, by rw [hd.value, hv], by rw [Srad.Codec.decodeW_encodeW w hw l hl]⟩
  · intro l hl hv
    exact ⟨_, by rw [hd.value, hv], Srad.Codec.decodeBool_encodeBool l hl⟩
  · intro valid l hl hv
    exact ⟨_, by rw [hd.value, hv], by rw [Srad.Codec.decodeStr_encodeStr valid l hl]⟩

/-! ### batches -/

/-- A batch handed over in one payload decodes to one host message whose entries are the
batch's metrics, entry by entry in the same order. -/
theorem C12_batch_in_order (enc : Payload → Bytes) (dec : Bytes → Option Payload)
    (hw : WireSound enc dec) (seq now : Nat) (ms : List PubMetric) (hwf : ∀ pm ∈ ms, pm.WF) :
    ∃ d, hostReceiveData dec (enc (payloadOf seq now ms)) = .data d ∧
      d.seq = seq % 256 ∧ d.timestamp = now ∧ InOrder Delivered ms d.metrics := by
  exact ⟨_, hostReceive_payloadOf enc dec hw seq now ms, rfl, rfl, forall2_delivered ms hwf⟩

/-- The non-sorting variants (`publish_metric`, `publish_metrics_unsorted` and their `try_`
forms; node handle, or device handle of a birthed device): a non-empty batch is handed to the
client as ONE payload with the next sequence number, and the host's entries are the metrics in
the published order. -/
theorem C12_publish_unsorted_end_to_end (enc : Payload → Bytes) (dec : Bytes → Option Payload)
    (hw : WireSound enc dec) (now : Nat) (s : EdgeState) (hs : s.Ready)
    (ms : List PubMetric) (hne : ms ≠ []) (hwf : ∀ pm ∈ ms, pm.WF) :
    ∃ p s' d, publishUnsorted true now s ms = .handedOver p s' ∧
      s'.seq = (s.seq + 1) % 256 ∧
      hostReceiveData dec (enc p) = .data d ∧
      d.seq = (s.seq + 1) % 256 ∧ d.timestamp = now ∧ InOrder Delivered ms d.metrics := by
  refine ⟨_, _, _, publishUnsorted_ready now s hs ms hne, rfl,
    hostReceive_payloadOf enc dec hw _ now ms, ?_, rfl, forall2_delivered ms hwf⟩
  simp

/-- The sorting variants (`publish_metrics`, `try_publish_metrics`): one payload, and the host's
entries are the batch stably sorted by timestamp — a permutation of the batch, ascending, metrics
with equal timestamps in their published order. -/
theorem C12_publish_sorted_end_to_end (enc : Payload → Bytes) (dec : Bytes → Option Payload)
    (hw : WireSound enc dec) (now : Nat) (s : EdgeState) (hs : s.Ready)
    (ms : List PubMetric) (hne : ms ≠ []) (hwf : ∀ pm ∈ ms, pm.WF) :
    ∃ p s' d sorted, publishSorted true now s ms = .handedOver p s' ∧
      s'.seq = (s.seq + 1) % 256 ∧
      hostReceiveData dec (enc p) = .data d ∧
      d.seq = (s.seq + 1) % 256 ∧ d.timestamp = now ∧
      StableSortedByTs ms sorted ∧ InOrder Delivered sorted d.metrics := by
  have hperm := sortByTs_perm ms
  have hne' : sortByTs ms ≠ [] := by
    intro h; rw [h] at hperm; exact hne (List.Perm.nil_eq hperm).symm
  have hwf' : ∀ pm ∈ sortByTs ms, pm.WF := fun pm hp => hwf pm (hperm.mem_iff.mp hp)
  refine ⟨_, _, _, sortByTs ms, publishUnsorted_ready now s hs (sortByTs ms) hne', rfl,
    hostReceive_payloadOf enc dec hw _ now _, ?_, rfl, sortByTs_stable ms,
    forall2_delivered _ hwf'⟩
  simp

/-- The model's sort is a stable sort by timestamp (permutation, ordered, stable). -/
theorem C12_sort_is_stable (ms : List PubMetric) : StableSortedByTs ms (sortByTs ms) :=
  sortByTs_stable ms

/-- … and those three conditions leave no freedom: whatever list is a permutation of the batch,
ascending by timestamp and keeps equal timestamps in published order IS the order the host sees
(so `Vec::sort_by`, a stable sort, can only produce this order). -/
theorem C12_stable_sort_unique (ms sorted : List PubMetric) (h : StableSortedByTs ms sorted) :
    sorted = sortByTs ms :=
  stable_sorted_unique ms sorted h

/-- An empty batch is refused before anything is handed to the client. -/
theorem C12_empty_batch_refused (b : Bool) (now : Nat) (s : EdgeState) :
    publishUnsorted b now s [] = .refused .noMetrics ∧
    publishSorted b now s [] = .refused .noMetrics := by
  constructor <;> rfl

/-! ### property sets -/

/-- The host's property set equals the edge's *as a map*, whatever order the edge's hash map
happens to be iterated in when it is encoded (`m'` is any permutation of the entries of `m`). -/
theorem C12_props_same_map_any_iteration_order (m m' : UPS) (hp : m'.Perm m)
    (hn : UPS.KeysDistinct m) :
    ∃ h, decPS (encPS m') = .ok h ∧ PropsMatch m h ∧ PropsMatchLeaves m h := by
  obtain ⟨h, h1, h2⟩ := props_roundtrip m m' hp hn
  exact ⟨h, h1, h2, propsMatch_leaves m h h2⟩

/-- Nested property sets and property-set lists: along every path of keys (and list indices) the
host — converting nested values with srad's own `PropertySet::try_from` /
`PropertySetList::try_from` — reads an entry exactly where the edge has one, with the same datatype
and the same leaf (null, the same scalar, a set, a list of the same length). `m` ranges over all
iteration orders at all levels. -/
theorem C12_props_nested (m : UPS) (hw : UPS.WF m) :
    ∃ h, decPS (encPS m) = .ok h ∧
      ∀ (p : Path) (k : Str),
        (HMap.lookup p h k).map (fun e => (e.1, e.2.leaf))
          = (UPS.lookup p m k).map (fun e => (e.1, e.2.leaf)) := by
  refine ⟨hostView m, decPS_encPS m, ?_⟩
  intro p k
  rw [lookup_deep p m hw k]
  cases UPS.lookup p m k with
  | none => rfl
  | some e => simp [leaf_encVal]

/-- The quality of a metric: a set made with `new_with_quality q` carries, after any `insert`s,
the entry `Quality ↦ Int32 q`, it arrives as that entry, and reads back as `q`. The sets the API
builds have distinct keys. -/
theorem C12_quality (q : Quality) :
    UPS.KeysDistinct (UPS.newWithQuality q) ∧
    mapGet (UPS.newWithQuality q) qualityKey = some (some .int32, .sc (.int q.code)) ∧
    Quality.ofCode q.code = some q ∧
    (∀ m m' k dt v, UPS.insert m k dt v = some m' →
        mapGet m' qualityKey = mapGet m qualityKey ∧ (UPS.KeysDistinct m → UPS.KeysDistinct m')) ∧
    (∀ m : UPS, UPS.KeysDistinct m → mapGet m qualityKey = some (some .int32, .sc (.int q.code)) →
        ∃ h, decPS (encPS m) = .ok h ∧ mapGet h qualityKey = some (some .int32, .sc (.int q.code))) := by
  refine ⟨newWithQuality_keysDistinct q, ?_, ?_, ?_, ?_⟩
  · simp [UPS.newWithQuality, mapGet]
  · cases q <;> rfl
  · intro m m' k dt v hi
    exact ⟨insert_keeps_quality m m' k dt v hi, fun hn => insert_keysDistinct m m' k dt v hn hi⟩
  · intro m hn hq
    obtain ⟨h, h1, h2, h3⟩ := C12_props_same_map_any_iteration_order m m (.refl _) hn
    exact ⟨h, h1, h3.1 _ _ _ hq⟩

/-! ### payload property sets on hostile input (the C19 clause on property sets) -/

/-- Decoding a payload property set, a list of them, or a nested value never panics. -/
theorem C12_propset_decode_total (s : PSet) (l : List PSet) (v : PVal) :
    decPS s ≠ .panic ∧ decPSList l ≠ .panic ∧ setOfValue v ≠ .panic ∧ setsOfValue v ≠ .panic := by
  refine ⟨decPS_ne_panic s, decPSList_ne_panic l, ?_, ?_⟩
  · cases v <;> simp [setOfValue, decPS_ne_panic]
  · cases v <;> simp [setsOfValue, decPSList_ne_panic]

/-- A payload property set is accepted exactly when it has as many values as keys and every
value has a value or `is_null = true`, and a type code (if any) below 35; so mismatched counts,
`value = none` without `is_null = true`, or an unknown type code yield an error. -/
theorem C12_propset_accepted_iff (s : PSet) :
    (∃ h, decPS s = .ok h) ↔ PSet.Acceptable s :=
  decPS_ok_iff s

theorem C12_propset_malformed_is_error (s : PSet) (h : ¬ PSet.Acceptable s) : decPS s = .err := by
  cases hd : decPS s with
  | ok m => exact absurd ((decPS_ok_iff s).mp ⟨m, hd⟩) h
  | err => rfl
  | panic => exact absurd hd (decPS_ne_panic s)

/-! ### T-tables: decision tables regenerated from the compiled crates on every run
(`SradModel/Generated/MetricTable.lean`): 1296 marker combinations of a payload metric at the
host, 288 marker combinations of a publish metric at the edge, 648 payload property sets. -/

def hostRowOk : Bool × Bool × Bool × Bool × Option Bool × Option Bool × Option Bool × Nat × HShape → Bool
  | (alias, name, ts, value, nu, hi, tr, props, shape) =>
    decide (hostShape (markerMetric alias name ts value nu hi tr props) = shape)

/-- the compiled host code and the model agree on every marker combination of a payload metric -/
theorem C12_table_host_matches_model : ∀ row ∈ Srad.Generated.metricHostTable, hostRowOk row = true := by
  decide +kernel

def edgeRowOk : (Bool × Bool × Option Bool × Option Bool × Bool × Bool × Bool) × EShape → Bool
  | ((alias, value, tr, hi, ts, md, props), shape) =>
    decide ((edgeEncode (markerPub alias value tr hi ts md props)).markers = shape)

/-- the compiled edge conversion and the model agree on every marker combination of a publish metric -/
theorem C12_table_edge_matches_model : ∀ row ∈ Srad.Generated.metricEdgeTable, edgeRowOk row = true := by
  decide +kernel

def propRowOk : Nat × Nat × Bool × Option Bool × Option Nat × PShape → Bool
  | (nk, nv, value, nu, ty, shape) => decide (propShape (markerPSet nk nv value nu ty) = shape)

/-- the compiled property-set decoder and the model agree on every row -/
theorem C12_table_prop_matches_model : ∀ row ∈ Srad.Generated.metricPropTable, propRowOk row = true := by
  decide +kernel

/-- the compiled `new_with_quality` writes exactly the three quality codes of the model, and the
compiled `Quality::try_from` reads a code back exactly when the model's does -/
theorem C12_table_quality_matches_model :
    (Srad.Generated.metricQualityTable.take 3).map (·.1)
      = [Quality.good.code, Quality.bad.code, Quality.stale.code] ∧
    ∀ row ∈ Srad.Generated.metricQualityTable, (Quality.ofCode row.1).map Quality.code = row.2 := by
  decide +kernel

def ob3 : Option Bool → Nat
  | none => 0 | some true => 1 | some false => 2

/-- the row of `metricHostTable` for the given markers: found by its position in the enumeration order
and checked to carry exactly these markers -/
def hostTableLookup (alias name ts value : Bool) (nu hi tr : Option Bool) (props : Nat) : Option HShape :=
  let idx := ((((((alias.toNat * 2 + name.toNat) * 2 + ts.toNat) * 2 + value.toNat) * 3 + ob3 nu) * 3
    + ob3 hi) * 3 + ob3 tr) * 3 + props
  match Srad.Generated.metricHostTable[idx]? with
  | some r =>
    if r.1 == alias && r.2.1 == name && r.2.2.1 == ts && r.2.2.2.1 == value && r.2.2.2.2.1 == nu &&
      r.2.2.2.2.2.1 == hi && r.2.2.2.2.2.2.1 == tr && r.2.2.2.2.2.2.2.1 == props
    then some r.2.2.2.2.2.2.2.2 else none
  | none => none

def edgeRowDelivered : (Bool × Bool × Option Bool × Option Bool × Bool × Bool × Bool) × EShape → Bool
  | ((alias, value, tr, hi, _ts, _md, props), e) =>
    decide (hostTableLookup e.alias e.name e.timestamp e.value e.isNull e.isHistorical e.isTransient
        (if e.properties then 1 else 0)
      = some (HShape.ok alias (!value) (hi.getD false) (tr.getD false) props))

/-- In the compiled code itself, with no model in between: for every combination of identifier
kind, value/null, flags, timestamp, metadata and properties a user can build, the payload metric
the edge conversion produces is accepted by the host, under the same identifier kind, null exactly
when no value was given, flags with absent = false, properties present exactly when given. -/
theorem C12_table_edge_accepted_by_host :
    ∀ row ∈ Srad.Generated.metricEdgeTable, edgeRowDelivered row = true := by
  decide +kernel

def propRowSpec : Nat × Nat × Bool × Option Bool × Option Nat × PShape → Bool
  | (nk, nv, value, nu, ty, shape) =>
    let malformed := nk != nv || (0 < nk && ((!value && nu != some true) ||
      (match ty with | some c => decide (35 ≤ c) | none => false)))
    if malformed then decide (shape = .err)
    else decide (shape = (if nk = 0 then .ok 0 false none else .ok nk (!value) ty))

/-- In the compiled code itself: mismatched key/value counts, an absent value without
`is_null = true`, or an unknown type code are refused with an error (no panic, no acceptance);
everything else is accepted as the map it denotes. -/
theorem C12_table_prop_malformed_refused :
    ∀ row ∈ Srad.Generated.metricPropTable, propRowSpec row = true := by
  decide +kernel

/-! ### non-vacuity (tests, not the claim) -/

/-- a metric by alias, null, with a two-entry property set holding a nested set -/
def exPm : PubMetric :=
  ((PubMetric.new 1000 none (.alias 7) none).historical true).withProperties
    [([98], some .propertyset, .set [(qualityKey, some .int32, .sc (.int 0))]),
     (qualityKey, some .int32, .sc (.int 192))]

example : exPm.WF := by
  intro m h; cases h; unfold UPS.KeysDistinct; decide
example : UPS.WF [([98], some .propertyset, .set [(qualityKey, some .int32, .sc (.int 0))]),
     (qualityKey, some .int32, .sc (.int 192))] := by
  simp [UPS.WF, entsWF, UVal.WF, encKeys, qualityKey]
example : (edgeEncode exPm).isNull = some true ∧ (edgeEncode exPm).alias = some 7 ∧
    (edgeEncode exPm).isHistorical = some true ∧ (edgeEncode exPm).isTransient = none := by
  decide
example : (sortByTs [PubMetric.new 5 none (.alias 1) none, PubMetric.new 3 none (.alias 2) none,
    PubMetric.new 5 none (.alias 3) none, PubMetric.new 3 none (.alias 4) none]).map (·.id)
    = [.alias 2, .alias 4, .alias 1, .alias 3] := by decide
example : ({ seq := 255, online := true, birthed := true } : EdgeState).Ready := ⟨rfl, rfl⟩
example : getNextSeq { seq := 255, online := true, birthed := true }
    = .ok (0, { seq := 0, online := true, birthed := true }) := by rfl
example : ¬ PSet.Acceptable ([[97]], []) := by simp [PSet.Acceptable]
example : ¬ PSet.Acceptable ([[97]], [(some 35, none, .sc (.int 1))]) := by
  simp [PSet.Acceptable, PPV.Acceptable]
example : PSet.Acceptable ([[97]], [(some 34, some true, .none)]) := by
  simp [PSet.Acceptable, PPV.Acceptable]
example : UPS.lookup [(none, qualityKey)]
    [([98], some .propertyset, .set [(qualityKey, some .int32, .sc (.int 0))])] [98]
    = some (some .int32, .sc (.int 0)) := by rfl

end Srad.Metric
