/-
C18 — Template definitions and instances keep their wire identity.

  A template definition converted to a metric value is marked as a definition without a template
  reference, a template instance is marked as an instance with its reference, and converting
  either back (directly or through datatype-directed decoding) returns an equal definition or
  instance while the opposite kind, or a value with the marker missing, is rejected. A template
  can be registered with a node only if its name is not reserved or already taken and every
  template it nests is already registered.

Property theorems only; helper lemmas are in `SradModel/Proofs/Templ.lean`, the vocabulary
(`Nests`, `WF`, `Closed`, `NestedBefore`) in `SradModel/Model/TemplSpec.lean`.
Content (version, metrics, parameters) is arbitrary: metrics are trees of any depth, every field
the template code does not look at is an opaque token.
-/
import SradModel.Proofs.Templ
import SradModel.Generated.TemplTable

namespace Srad.Templ
open Srad.Codec (Bytes Res Err DT PV KV)

/-! ### encoders: the markers on the wire -/

/-- a definition goes on the wire as a template value with `is_definition = true`, no
`template_ref`, and its version, metrics and parameters unchanged -/
theorem C18_definition_marked (d : TDef) :
    ∃ t, defToMV d = .templ t ∧ t.isDef = some true ∧ t.ref = none ∧
      t.version = d.version ∧ t.metrics = d.metrics ∧ t.params = d.params :=
  ⟨defToTmpl d, rfl, rfl, rfl, rfl, rfl, rfl⟩

/-- an instance goes on the wire with `is_definition = false`, `template_ref` = its reference,
content unchanged -/
theorem C18_instance_marked (i : TInst) :
    ∃ t, instToMV i = .templ t ∧ t.isDef = some false ∧ t.ref = some i.ref ∧
      t.version = i.version ∧ t.metrics = i.metrics ∧ t.params = i.params :=
  ⟨instToTmpl i, rfl, rfl, rfl, rfl, rfl, rfl⟩

/-! ### decoders: exactly what each accepts, for every metric value -/

/-- the definition decoder accepts exactly the template values marked `is_definition = true`
without a `template_ref`, and returns their content; it never panics -/
theorem C18_definition_decoder (mv : MV) (d : TDef) :
    (defFromMV mv = .ok d ↔
      ∃ t, mv = .templ t ∧ t.isDef = some true ∧ t.ref = none ∧
        d = { version := t.version, metrics := t.metrics, params := t.params }) ∧
    defFromMV mv ≠ .panic := by
  cases mv with
  | other tok => simp [defFromMV]
  | templ t =>
    rw [defFromMV_templ]
    by_cases h : t.isDef = some true ∧ t.ref = none
    · simp only [h, and_self, ↓reduceIte, Res.ok.injEq, MV.templ.injEq, ne_eq, reduceCtorEq,
        not_false_eq_true, and_true]
      constructor
      · intro e; exact ⟨t, rfl, h.1, h.2, e.symm⟩
      · rintro ⟨t', rfl, _, _, e⟩; exact e.symm
    · simp only [h, ↓reduceIte, reduceCtorEq, MV.templ.injEq, false_iff, not_exists, not_and, ne_eq,
        not_false_eq_true, and_true]
      rintro t' rfl h1 h2
      exact absurd ⟨h1, h2⟩ h

/-- the instance decoder accepts exactly the template values marked `is_definition = false` that
carry a `template_ref`, and returns reference and content; it never panics -/
theorem C18_instance_decoder (mv : MV) (i : TInst) :
    (instFromMV mv = .ok i ↔
      ∃ t r, mv = .templ t ∧ t.isDef = some false ∧ t.ref = some r ∧
        i = { ref := r, version := t.version, metrics := t.metrics, params := t.params }) ∧
    instFromMV mv ≠ .panic := by
  cases mv with
  | other tok => simp [instFromMV]
  | templ t =>
    rw [instFromMV_templ]
    obtain ⟨v, ms, ps, ref, isDef⟩ := t
    cases ref <;> rcases isDef with _ | _ | _ <;> simp <;>
      first
      | (constructor
         · intro e; exact e.symm
         · intro e; exact e.symm)
      | skip

/-- the value decoder classifies by the marker: a value is decoded as a definition exactly when
the definition decoder accepts it, as an instance exactly when the instance decoder accepts it,
with the same result; a value without the marker is rejected; it never panics -/
theorem C18_value_decoder (mv : MV) :
    (∀ d, valueFromMV mv = .ok (.definition d) ↔ defFromMV mv = .ok d) ∧
    (∀ i, valueFromMV mv = .ok (.inst i) ↔ instFromMV mv = .ok i) ∧
    valueFromMV mv ≠ .panic := by
  cases mv with
  | other tok => simp [valueFromMV, defFromMV, instFromMV]
  | templ t =>
    rw [valueFromMV_templ, defFromMV_templ, instFromMV_templ]
    obtain ⟨v, ms, ps, ref, isDef⟩ := t
    cases ref <;> rcases isDef with _ | _ | _ <;> simp

/-- a template value whose `is_definition` marker is missing is rejected by all three decoders
and by datatype-directed decoding, whatever else it contains -/
theorem C18_marker_missing_rejected (t : Tmpl) (h : t.isDef = none) :
    defFromMV (.templ t) = .err .value ∧ instFromMV (.templ t) = .err .value ∧
    valueFromMV (.templ t) = .err .value ∧ kindTemplate (.templ t) = .err .value := by
  obtain ⟨v, ms, ps, ref, isDef⟩ := t
  simp only at h; subst h
  cases ref <;> simp [defFromMV, instFromMV, valueFromMV, kindTemplate]

/-- anything that is not a template value is rejected as the wrong variant -/
theorem C18_not_a_template_rejected (tok : String) :
    defFromMV (.other tok) = .err .variant ∧ instFromMV (.other tok) = .err .variant ∧
    valueFromMV (.other tok) = .err .variant ∧ kindTemplate (.other tok) = .err .variant := by
  simp [defFromMV, instFromMV, valueFromMV, kindTemplate]

/-! ### round trips -/

/-- a definition comes back equal: directly, through `TemplateValue`, and through
datatype-directed decoding; the instance decoder rejects it -/
theorem C18_definition_roundtrip (d : TDef) :
    defFromMV (defToMV d) = .ok d ∧
    valueFromMV (defToMV d) = .ok (.definition d) ∧
    kindTemplate (defToMV d) = .ok (.definition d) ∧
    instFromMV (defToMV d) = .err .value := by
  simp [defToMV, defToTmpl, defFromMV, valueFromMV, kindTemplate, instFromMV]

/-- an instance comes back equal: directly, through `TemplateValue`, and through
datatype-directed decoding; the definition decoder rejects it -/
theorem C18_instance_roundtrip (i : TInst) :
    instFromMV (instToMV i) = .ok i ∧
    valueFromMV (instToMV i) = .ok (.inst i) ∧
    kindTemplate (instToMV i) = .ok (.inst i) ∧
    defFromMV (instToMV i) = .err .value := by
  simp [instToMV, instToTmpl, defFromMV, valueFromMV, kindTemplate, instFromMV]

/-- datatype-directed decoding as modelled for C10/C19 (`Codec.kindOf` on `DataType::Template`,
which sees only the two markers) is this model's `kindTemplate` with the content forgotten -/
theorem C18_kind_agrees_with_codec (valid : Bytes → Bool) (mv : MV) :
    Srad.Codec.kindOf valid .template mv.toPV =
      match kindTemplate mv with
      | .ok v => .ok (.template, v.toKV)
      | .err e => .err e
      | .panic => .panic := by
  cases mv with
  | other tok => rfl
  | templ t =>
    obtain ⟨v, ms, ps, ref, isDef⟩ := t
    cases ref <;> rcases isDef with _ | _ | _ <;> rfl

/-! ### T-table: the decision table of the decoders over the two markers, and the markers the
encoders write, regenerated on every run by executing the compiled crate
(`SradModel/Generated/TemplTable.lean`). A change to any marker test makes one of these
obligations fail at `lake build`. -/

/-- the markers of a metric value (`none`: not a template value) -/
def MV.markers : MV → Option (Option Bool × Bool)
  | .templ t => some (t.isDef, t.ref.isSome)
  | .other _ => none

/-- what every decoder answers (accept as what / which error) depends on the two markers only, so
the table below speaks for all metric values -/
theorem C18_shape_by_markers (mv : MV) :
    defShape mv = defShape (markerMV mv.markers) ∧
    instShape mv = instShape (markerMV mv.markers) ∧
    valueShape mv = valueShape (markerMV mv.markers) ∧
    kindShapeT mv = kindShapeT (markerMV mv.markers) := by
  cases mv with
  | other tok => simp [MV.markers, markerMV, defShape, instShape, valueShape, kindShapeT, kindTemplate,
      defFromMV, instFromMV, valueFromMV]
  | templ t =>
    obtain ⟨v, ms, ps, ref, isDef⟩ := t
    cases ref <;> rcases isDef with _ | _ | _ <;>
      simp [MV.markers, markerMV, defShape, instShape, valueShape, kindShapeT, kindTemplate,
        defFromMV, instFromMV, valueFromMV]

/-- the compiled code and the model agree on every cell of the table -/
theorem C18_table_matches_model :
    ∀ row ∈ Srad.Generated.templTable,
      (defShape (markerMV row.1), instShape (markerMV row.1), valueShape (markerMV row.1),
        kindShapeT (markerMV row.1)) = row.2 := by
  decide +kernel

/-- in the compiled code itself: the definition decoder accepts iff (`true`, no ref), the instance
decoder iff (`false`, ref), the value decoder and datatype-directed decoding accept exactly those
two as a definition resp. an instance, nothing panics, and the table covers all six marker
combinations and non-template values -/
theorem C18_table_truth :
    (∀ row ∈ Srad.Generated.templTable,
      (decide (row.2.1 = .okDef) = decide (row.1 = some (some true, false))) ∧
      (decide (row.2.2.1 = .okInst) = decide (row.1 = some (some false, true))) ∧
      (row.2.2.2.1 = if row.1 = some (some true, false) then .okDef
                     else if row.1 = some (some false, true) then .okInst
                     else if row.1 = none then .errVariant else .errValue) ∧
      row.2.2.2.2 = row.2.2.2.1 ∧
      row.2.1 ≠ .panic ∧ row.2.2.1 ≠ .panic ∧ row.2.2.2.1 ≠ .panic) ∧
    ((Srad.Generated.templTable.map (·.1)).eraseDups.length = 7) := by
  decide +kernel

/-- in the compiled code itself: every definition is written with (`true`, no ref), every
instance with (`false`, ref) — as the model's encoders do -/
theorem C18_enc_table :
    (∀ row ∈ Srad.Generated.templEncTable,
      row.2 = if row.1 then (some false, true) else (some true, false)) ∧
    (Srad.Generated.templEncTable.map (·.1)).eraseDups.length = 2 ∧
    (∀ d, (defToMV d).markers = some (some true, false)) ∧
    (∀ i, (instToMV i).markers = some (some false, true)) := by
  refine ⟨by decide +kernel, by decide +kernel, fun _ => rfl, fun _ => rfl⟩

/-! ### registry -/

/-- the reserved names are exactly the two metric names every NBIRTH carries -/
theorem C18_reserved_names (name : Bytes) :
    reserved name = true ↔
      name = "bdSeq".toUTF8.toList ∨ name = "Node Control/Rebirth".toUTF8.toList := by
  have h1 : "bdSeq".toUTF8.toList = bdSeqName := by decide +kernel
  have h2 : "Node Control/Rebirth".toUTF8.toList = rebirthName := by decide +kernel
  rw [h1, h2]
  simp [reserved, Or.comm]

/-- **registration succeeds if and only if** the name is not reserved, not already taken, the
definition is well formed, and every template nested anywhere in it (recursively through nested
template metrics) is already registered; then exactly that entry is added -/
theorem C18_register_iff (r : Registry) (name : Bytes) (d : TDef) (r' : Registry) :
    register r name d = .ok r' ↔
      (reserved name = false ∧ r.has name = false ∧ d.WF ∧
        (∀ ref, d.Nests ref → r.has ref = true)) ∧
      r' = r ++ [(name, d)] :=
  register_ok_iff r name d r'

/-- for a well-formed definition this is the property's sentence verbatim -/
theorem C18_register_wellformed (r : Registry) (name : Bytes) (d : TDef) (hw : d.WF) :
    (∃ r', register r name d = .ok r') ↔
      reserved name = false ∧ r.has name = false ∧ ∀ ref, d.Nests ref → r.has ref = true := by
  constructor
  · rintro ⟨r', h⟩
    obtain ⟨⟨h1, h2, _, h4⟩, _⟩ := (register_ok_iff r name d r').1 h
    exact ⟨h1, h2, h4⟩
  · rintro ⟨h1, h2, h4⟩
    exact ⟨_, (register_ok_iff r name d _).2 ⟨⟨h1, h2, hw, h4⟩, rfl⟩⟩

/-- which refusal: a reserved name is `InvalidName`; otherwise a taken name is `Duplicate`;
otherwise `UnregisteredMetric` is returned only when some nested template is not registered and
`InvalidDefinition` only when some metric is malformed — and no other error exists -/
theorem C18_register_refusal (r : Registry) (name : Bytes) (d : TDef) (e : RegErr)
    (h : register r name d = .error e) :
    (e = .invalidName ∧ reserved name = true) ∨
    (e = .duplicate ∧ reserved name = false ∧ r.has name = true) ∨
    (reserved name = false ∧ r.has name = false ∧
      ((e = .unregistered ∧ ∃ ref, d.Nests ref ∧ r.has ref = false) ∨
       (e = .invalidDefinition ∧ ¬ d.WF))) := by
  rcases register_err r name d e h with h | h | ⟨h1, h2, h3⟩
  · exact .inl h
  · exact .inr (.inl h)
  · refine .inr (.inr ⟨h1, h2, ?_⟩)
    rcases h3 with ⟨he, m, hm, ref, hn, hh⟩ | ⟨he, m, hm, hw⟩
    · exact .inl ⟨he, ref, ⟨m, hm, hn⟩, hh⟩
    · exact .inr ⟨he, fun w => hw (w m hm)⟩

/-- what `contains` answers after each operation; a refused registration changes nothing
(`applyOp` keeps the registry) -/
theorem C18_contains (r : Registry) (n m : Bytes) (d : TDef) :
    (∀ r', register r n d = .ok r' → r'.has m = (r.has m || n == m)) ∧
    (∀ e, register r n d = .error e → applyOp r (.register n d) = r) ∧
    (deregister r n).has m = (r.has m && !(m == n)) ∧
    (clear r).has m = false := by
  refine ⟨?_, ?_, has_deregister r n m, rfl⟩
  · intro r' h
    obtain ⟨_, rfl⟩ := (register_ok_iff r n d r').1 h
    rw [has_append, has_single]
  · intro e h
    simp [applyOp, h]

/-- **a taken name keeps its definition** — the definition each name is registered WITH after
each call (`get?`; `announced r`, one definition metric per entry, is what every NBIRTH of the
node carries for the registry). An accepted registration binds its own name to its own definition
and no other name changes; a refused one — in particular one whose name is taken, whatever
definition it offers — changes neither the registry nor what is announced; `deregister` frees
exactly its name; `clear` everything -/
theorem C18_taken_name_keeps_definition (r : Registry) (n m : Bytes) (d : TDef) :
    (∀ r', register r n d = .ok r' → r'.get? m = if n == m then some d else r.get? m) ∧
    (∀ e, register r n d = .error e →
      applyOp r (.register n d) = r ∧ announced (applyOp r (.register n d)) = announced r) ∧
    (r.has n = true → (applyOp r (.register n d)).get? n = r.get? n ∧
      announced (applyOp r (.register n d)) = announced r) ∧
    (deregister r n).get? m = (if m == n then none else r.get? m) ∧
    announced (clear r) = [] := by
  refine ⟨?_, ?_, ?_, get?_deregister r n m, rfl⟩
  · intro r' h
    obtain ⟨⟨_, hn, _, _⟩, rfl⟩ := (register_ok_iff r n d r').1 h
    rw [get?_append, get?_single]
    by_cases hm : (n == m) = true
    · have : n = m := by simpa using hm
      subst this
      rw [(get?_none_iff r n).2 hn]
    · have hm' : (n == m) = false := by simpa using hm
      simp only [hm']
      cases r.get? m <;> simp
  · intro e h
    have : applyOp r (.register n d) = r := by simp [applyOp, h]
    rw [this]; exact ⟨rfl, rfl⟩
  · intro hn
    have : applyOp r (.register n d) = r := by
      cases h : register r n d with
      | error e => simp [applyOp, h]
      | ok r' =>
        obtain ⟨⟨_, hn', _, _⟩, _⟩ := (register_ok_iff r n d r').1 h
        rw [hn] at hn'; cases hn'
    rw [this]; exact ⟨rfl, rfl⟩

/-- what the node announces is the registry: a name is announced iff it is registered, with the
conversion (marked as a definition, no reference: `C18_definition_marked`) of the definition it
is registered with, and once per entry -/
theorem C18_announced (r : Registry) (n : Bytes) (mv : MV) :
    ((n, mv) ∈ announced r ↔ ∃ d, (n, d) ∈ r ∧ mv = defToMV d) ∧
    (announced r).map (·.1) = r.names :=
  ⟨mem_announced r n mv, by simp [announced, Registry.names, List.map_map, Function.comp_def]⟩

/-- `EoNBuilder::register_template` panics exactly when registration is refused -/
theorem C18_builder (r : Registry) (name : Bytes) (d : TDef) :
    (builderRegister r name d = .panic ↔ ∃ e, register r name d = .error e) ∧
    (∀ r', builderRegister r name d = .ok r' ↔ register r name d = .ok r') := by
  unfold builderRegister
  cases register r name d with
  | ok r' => simp
  | error e => simp

/-- **registration-only histories keep the registry closed under nesting**: after any sequence
of calls on the registry that contains no `deregister` (registrations, successful or refused, and
`clear`), starting from a closed registry (in particular the empty one), every template nested
anywhere in a registered definition is itself registered -/
theorem C18_registry_closed (r : Registry) (ops : List Op) (hc : Closed r)
    (hk : ∀ o ∈ ops, o.keeps = true) : Closed (applyOps r ops) :=
  closed_applyOps ops r hc hk

/-- … in particular from the empty registry of a new builder, for any list of attempts; moreover
everything a registered definition nests was registered *before* it, no name is registered twice
and none is reserved -/
theorem C18_registrations_ordered (attempts : List (Bytes × TDef)) :
    let r := applyOps [] (registrations attempts)
    Closed r ∧ NestedBefore r ∧ r.names.Nodup ∧ ∀ n ∈ r.names, reserved n = false := by
  refine ⟨closed_applyOps _ _ closed_nil (registrations_keep attempts),
    nestedBefore_applyRegs attempts [] nestedBefore_nil, ?_⟩
  exact namesOk_applyOps _ [] ⟨List.nodup_nil, fun _ h => nomatch h⟩

/-- names stay unique and unreserved under every history, `deregister` included -/
theorem C18_names_unique (ops : List Op) :
    (applyOps [] ops).names.Nodup ∧ ∀ n ∈ (applyOps [] ops).names, reserved n = false :=
  namesOk_applyOps ops [] ⟨List.nodup_nil, fun _ h => nomatch h⟩

/-! ### non-vacuity and the `deregister` caveat (tests, not the claim) -/

section Examples

/-- the error of a refused registration -/
private def errOf : Except RegErr Registry → Option RegErr
  | .error e => some e
  | .ok _ => none

private def pm : Metric := .plain "" (some 3) (some "v")
private def instOf (r : Bytes) (ms : List Metric) : Metric :=
  .templ "" (some templateCode) none (some r) (some false) ms []
private def A : Bytes := [0x41]
private def B : Bytes := [0x42]
private def C : Bytes := [0x43]
private def dA : TDef := { version := none, metrics := [pm], params := [] }
private def dB : TDef := { version := some [0x31], metrics := [pm, instOf A [pm]], params := ["p"] }
private def dC : TDef := { version := none, metrics := [instOf B [instOf A []]], params := [] }

-- B nests A; C nests B and, inside the B instance, A
example : dB.Nests A := ⟨_, List.mem_cons_of_mem _ (List.mem_cons_self ..), .here⟩
example : dC.Nests A := ⟨_, List.mem_cons_self .., .deeper (List.mem_cons_self ..) .here⟩

-- registration in dependency order succeeds, out of order it is refused with `unregistered`
example : (applyOps [] (registrations [(A, dA), (B, dB), (C, dC)])).names = [A, B, C] := by decide
example : errOf (register [] B dB) = some .unregistered := by decide
example : (applyOps [] (registrations [(C, dC), (B, dB), (A, dA), (B, dB)])).names = [A, B] := by decide
-- the deep reference alone is enough: C with B registered but not A
example : errOf (register [(B, dA)] C dC) = some .unregistered := by decide
-- a later sibling is still checked after a registered one
example : errOf (register [(A, dA)] C { dC with metrics := [instOf A [], instOf B []] })
    = some .unregistered := by decide
example : errOf (register [] bdSeqName dA) = some .invalidName := by decide
example : errOf (register [(A, dA)] A dA) = some .duplicate := by decide
-- a different definition under the taken name is refused and A keeps the one it was registered with
example : errOf (register [(A, dA)] A dB) = some .duplicate := by decide
example : announced (applyOps [] [.register A dA, .register A { dA with version := some [0x31] }])
    = [(A, defToMV dA)] := rfl
-- after `deregister` the name is free for the other definition
example : (applyOps [] [.register A dA, .register A dC, .deregister A,
    .register A { dA with version := some [0x31] }]).get? A = some { dA with version := some [0x31] } := rfl
example : errOf (register [] A { dA with metrics := [.plain "" none none] })
    = some .invalidDefinition := by decide
-- decoders
example : (defToMV dB).markers = some (some true, false) := rfl
example : defShape (markerMV (some (some false, false))) = .errValue := by decide

/-- why the closure theorem excludes `deregister`: removing an inner template leaves the outer
one registered and dangling (the property speaks about registration only) -/
example : ¬ Closed (applyOps [] [.register A dA, .register B dB, .deregister A]) := by
  have e : applyOps [] [.register A dA, .register B dB, .deregister A] = [(B, dB)] := by rfl
  rw [e]
  intro h
  have := h (B, dB) (List.mem_singleton.2 rfl) A
    ⟨_, List.mem_cons_of_mem _ (List.mem_cons_self ..), .here⟩
  revert this; decide

end Examples

end Srad.Templ
