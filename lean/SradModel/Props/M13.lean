/-
M13 — the protobuf wire codec (prost 0.13 on the Sparkplug B schema) as a theorem instead of an
assumption. Supports C12 / C13 / C08, whose theorems treat the codec as an abstract pair
`enc`/`dec` with the hypothesis `dec (enc p) = some p`.

Model: `SradModel/Model/Wire.lean` (schema-directed encoder / decoder over value trees, tied to
prost byte for byte by the harness component `wire`). Helper lemmas: `SradModel/Proofs/Wire.lean`.

Vocabulary. A message value is `Val.msg rs` where `rs` lists the records `(tag, value)` in the
order they are written. `WF s`: the schema is what prost-build emits (tags in 1..2^29-1 and
unique per message, oneofs non-empty, referenced messages exist, struct fields sorted by smallest
tag). `Typed valid s M v`: every record of `v` (recursively) carries a tag of its message and a
value of that tag's type — `uint32`/`float` below 2^32, `uint64`/`double` below 2^64, `string`s
satisfy `valid` (UTF-8), every string / bytes / nested message body shorter than 2^64 bytes —
and messages nest at most 100 levels below the top message (prost's recursion limit).
`Canonical s M v`: at every level the records follow the struct-field order, at most one record
per `optional` field and per `oneof` — the shape of every tree printed from a Rust struct.
`WellTyped = Typed ∧ Canonical`.
-/
import SradModel.Proofs.Wire
import SradModel.Props.C13

namespace Srad.Wire

def WF (s : Schema) : Prop := wfSchema s = true

def Typed (valid : Bytes → Bool) (s : Schema) (m : String) (v : Val) : Prop :=
  typedMsg valid s m v = true

def Canonical (s : Schema) (m : String) (v : Val) : Prop := canonMsg s m v = true

def WellTyped (valid : Bytes → Bool) (s : Schema) (m : String) (v : Val) : Prop :=
  Typed valid s m v ∧ Canonical s m v

instance (s : Schema) : Decidable (WF s) := by unfold WF; exact inferInstance
instance (valid : Bytes → Bool) (s : Schema) (m : String) (v : Val) :
    Decidable (Typed valid s m v) := by unfold Typed; exact inferInstance
instance (s : Schema) (m : String) (v : Val) : Decidable (Canonical s m v) := by
  unfold Canonical; exact inferInstance
instance (valid : Bytes → Bool) (s : Schema) (m : String) (v : Val) :
    Decidable (WellTyped valid s m v) := by unfold WellTyped; exact inferInstance

/-! ### wire primitives -/

/-- every `u64` survives `encode_varint` / `decode_varint`, whatever follows it in the buffer -/
theorem M13_varint_roundtrip (n : Nat) (rest : Bytes) (h : n < 2 ^ 64) :
    decodeVarint (encodeVarint n ++ rest) = some (n, rest) :=
  decodeVarint_encodeVarint n rest h

/-- a varint is between 1 and 10 bytes long -/
theorem M13_varint_length (n : Nat) :
    1 ≤ (encodeVarint n).length ∧ (encodeVarint n).length ≤ 10 :=
  ⟨encodeVarint_length_pos n, encVarAux_length_le 10 n⟩

/-- `decode_varint` consumes at least one byte and returns a suffix-length remainder -/
theorem M13_varint_consumes (bs : Bytes) (v : Nat) (rest : Bytes)
    (h : decodeVarint bs = some (v, rest)) : rest.length < bs.length :=
  decodeVarint_length bs v rest h

/-- `float` bit patterns (and `fixed32`) survive 4 little-endian bytes -/
theorem M13_fixed32_roundtrip (n : Nat) (rest : Bytes) (h : n < 2 ^ 32) :
    decodeFixed 4 (le 4 n ++ rest) = some (n, rest) :=
  decodeFixed_le 4 n rest (by omega)

/-- `double` bit patterns (and `fixed64`) survive 8 little-endian bytes -/
theorem M13_fixed64_roundtrip (n : Nat) (rest : Bytes) (h : n < 2 ^ 64) :
    decodeFixed 8 (le 8 n ++ rest) = some (n, rest) :=
  decodeFixed_le 8 n rest (by omega)

/-- field keys: every legal tag with every wire type prost knows -/
theorem M13_key_roundtrip (tag wt : Nat) (rest : Bytes) (h1 : 1 ≤ tag) (h2 : tag < 2 ^ 29)
    (hw : wt ≤ 5) : decodeKey (encodeKey tag wt ++ rest) = some (tag, wt, rest) :=
  decodeKey_encodeKey tag wt rest h1 (by omega) hw

/-- the key is `8 * tag + wire type` -/
theorem M13_key_form (tag wt : Nat) (hw : wt < 8) : keyOf tag wt = 8 * tag + wt :=
  keyOf_eq tag wt hw

/-- length-delimited payloads -/
theorem M13_len_roundtrip (b rest : Bytes) (h : b.length < 2 ^ 64) :
    decodeLen (encodeVarint b.length ++ (b ++ rest)) = some (b, rest) :=
  decodeLen_enc b rest h

/-! ### the schema-directed codec, any well-formed schema -/

/-- Encoded form: a message is the concatenation of its records, each a key followed by the
value's bytes (nothing is written for absent fields because they are no records). -/
theorem M13_encode_form (s : Schema) (es : List Entry) (rs : Recs) :
    encRecs s es rs = rs.flatMap fun r =>
      match findIn es 1 r.1 with
      | some (_, _, ty) => encodeKey r.1 ty.wire ++ encVal s ty r.2
      | none => [] := by
  induction rs with
  | nil => rfl
  | cons r rest ih =>
    obtain ⟨t, v⟩ := r
    cases hf : findIn es 1 t with
    | none => simp [encRecs, ih, hf]
    | some x => obtain ⟨a, b, c⟩ := x; simp [encRecs, ih, hf]

/-- GENERAL FORM. Decoding the encoding of any typed value — records in any order, optional
fields or oneof members written several times, an optional message written in several pieces —
succeeds and yields its normal form `normMsg` (the struct prost builds by merging the records in
the order written: last one wins for optional scalars and oneofs, piecewise merge for optional
messages and a repeated oneof message member, append for repeated fields). -/
theorem M13_decode_encode_normal_form (valid : Bytes → Bool) (s : Schema) (hs : WF s) (m : String)
    (v : Val) (hv : Typed valid s m v) :
    decodeMsg valid s m (encodeMsg s m v) = some (normMsg s m v) := by
  unfold Typed typedMsg typedMsgD at hv
  cases v with
  | msg rs =>
    cases hl : lookupMsg s m with
    | none => simp [hl] at hv
    | some es =>
      simp only [hl] at hv
      have hok := schemaOK_of_wf s hs
      simp only [decodeMsg, encodeMsg, normMsg, hl]
      rw [mergeLoop_encRecs valid s hok recursionLimit es (hok m es hl) rs [] _ hv (Nat.le_refl _)]
      rfl
  | _ => simp at hv

/-- the normal form of a canonical value is the value itself -/
theorem M13_normal_form_of_canonical (valid : Bytes → Bool) (s : Schema) (m : String) (v : Val)
    (hv : WellTyped valid s m v) : normMsg s m v = v := by
  obtain ⟨ht, hc⟩ := hv
  unfold Typed typedMsg typedMsgD at ht
  unfold Canonical canonMsg canonMsgD at hc
  cases v with
  | msg rs =>
    cases hl : lookupMsg s m with
    | none => simp [hl] at ht
    | some es =>
      simp only [hl] at ht hc
      simp only [normMsg, hl]
      rw [normRecs_canon valid s recursionLimit es rs ht hc]
  | _ => simp at ht

/-- MAIN THEOREM. For every well-formed schema and every well-typed value `v` of message `m`:
`decode (encode v) = v`, exactly. Preserved: presence / absence of every optional field (also
`Some 0`, `Some ""`, `Some false`, an empty nested message), the selected oneof member, the
length and order of every repeated field, every number bit for bit (float / double as IEEE bit
patterns, so NaN payloads too), every string and byte string. Not representable, hence not
preserved (neither in `Val` nor in the Rust structs): a "present but empty" repeated field, a
selected oneof without member, field order or repetition on the wire (see the general form). -/
theorem M13_roundtrip (valid : Bytes → Bool) (s : Schema) (hs : WF s) (m : String) (v : Val)
    (hv : WellTyped valid s m v) : decodeMsg valid s m (encodeMsg s m v) = some v := by
  rw [M13_decode_encode_normal_form valid s hs m v hv.1, M13_normal_form_of_canonical valid s m v hv]

/-- the encoder is injective on well-typed values: distinct values have distinct encodings -/
theorem M13_encode_injective (valid : Bytes → Bool) (s : Schema) (hs : WF s) (m : String)
    (v w : Val) (hv : WellTyped valid s m v) (hw : WellTyped valid s m w)
    (h : encodeMsg s m v = encodeMsg s m w) : v = w := by
  have h1 := M13_roundtrip valid s hs m v hv
  have h2 := M13_roundtrip valid s hs m w hw
  rw [h] at h1
  exact Option.some.inj (h1.symm.trans h2)

/-! ### the Sparkplug B schema -/

/-- the transcription of `sparkplug_payload.rs` is a well-formed schema -/
theorem M13_sparkplug_wellformed : WF sparkplug := by unfold WF; decide

/-- every well-typed Sparkplug `Payload` (and every other message of the schema) round-trips -/
theorem M13_sparkplug_roundtrip (valid : Bytes → Bool) (m : String) (v : Val)
    (hv : WellTyped valid sparkplug m v) :
    decodeMsg valid sparkplug m (encodeMsg sparkplug m v) = some v :=
  M13_roundtrip valid sparkplug M13_sparkplug_wellformed m v hv

theorem M13_sparkplug_payload_roundtrip (valid : Bytes → Bool) (v : Val)
    (hv : WellTyped valid sparkplug "Payload" v) :
    decodeMsg valid sparkplug "Payload" (encodeMsg sparkplug "Payload" v) = some v :=
  M13_sparkplug_roundtrip valid "Payload" v hv


/-! ### the normal form prost produces -/

/-- Whatever bytes the decoder accepts — any field order, repeated optional fields, packed or
unpacked, unknown fields, over-long varints — the value it builds is canonical: records in
struct-field order, at most one per optional field and per oneof, at every nesting level. -/
theorem M13_decode_canonical (valid : Bytes → Bool) (s : Schema) (m : String) (bs : Bytes) (v : Val)
    (h : decodeMsg valid s m bs = some v) : Canonical s m v := by
  unfold decodeMsg at h
  cases hl : lookupMsg s m with
  | none => simp [hl] at h
  | some es =>
    simp only [hl] at h
    cases hm : mergeLoop valid s bs.length recursionLimit es [] bs with
    | none => simp [hm] at h
    | some res =>
      simp only [hm, Option.map_some] at h
      cases h
      have h0 : canonRecs s recursionLimit es [] = true := by
        simp [recursionLimit, canonRecs, canonRecsF, orderedFrom]
      have := mergeLoop_canon valid s bs.length recursionLimit es [] bs res h0 hm
      simpa [Canonical, canonMsg, canonMsgD, hl] using this

/-- hence decoding is stable: a decoded value that is typed (always, unless a re-encoded nested
body reaches 2^64 bytes) encodes to bytes that decode to exactly the same value -/
theorem M13_decode_encode_decode (valid : Bytes → Bool) (s : Schema) (hs : WF s) (m : String)
    (bs : Bytes) (v : Val) (h : decodeMsg valid s m bs = some v) (ht : Typed valid s m v) :
    decodeMsg valid s m (encodeMsg s m v) = some v :=
  M13_roundtrip valid s hs m v ⟨ht, M13_decode_canonical valid s m bs v h⟩

/-! ### totality -/

/-- `decodeMsg` is a total function (structural recursion on fuel; Lean accepts no other), so it
"never panics" by construction: every input is answered `some tree` or `none`. The fuel is the
input length and is never the reason for `none`: any larger fuel gives the same answer, so `none`
only ever stands for a prost `DecodeError`. (The loop answers `some` only when the buffer is
empty, and a nested message is decoded on exactly the bytes its length prefix announces: the
input is consumed exactly, by construction.) -/
theorem M13_decode_fuel_irrelevant (valid : Bytes → Bool) (s : Schema) (f d : Nat)
    (es : List Entry) (acc : Recs) (bs : Bytes) (h : bs.length ≤ f) :
    mergeLoop valid s f d es acc bs = mergeLoop valid s bs.length d es acc bs :=
  mergeLoop_fuel valid s f bs.length d es acc bs h (Nat.le_refl _)

/-- the same for skipping unknown fields (`skip_field`, groups included) -/
theorem M13_skip_fuel_irrelevant (f depth wt tag : Nat) (bs : Bytes)
    (h : 2 * bs.length + 2 ≤ f) : skipAux f depth wt tag bs = skipField depth wt tag bs :=
  skipField_fuel f depth wt tag bs h

/-- skipping and scalar decoding only ever move forward in the buffer -/
theorem M13_skip_consumes (depth wt tag : Nat) (bs rest : Bytes)
    (h : skipField depth wt tag bs = some rest) : rest.length ≤ bs.length :=
  skipField_length depth wt tag bs rest h

/-! ### C13 without the codec assumption

`C13_node_faithful` / `C13_device_faithful` are stated for an abstract payload type `P` and a
codec `enc`/`dec` with `dec (enc p) = some p`. Here `P` is the type of well-typed Sparkplug
`Payload` trees and the codec is the wire model; the assumption is discharged by
`M13_sparkplug_payload_roundtrip`. -/

/-- well-typed `Payload` trees -/
def PayloadTree (valid : Bytes → Bool) : Type :=
  { v : Val // WellTyped valid sparkplug "Payload" v }

def wireEnc (valid : Bytes → Bool) (p : PayloadTree valid) : Bytes :=
  encodeMsg sparkplug "Payload" p.1

/-- `Payload::decode`; the result of a successful decode of a *published* payload is well-typed
again (for arbitrary bytes the check can only fail on a nested body of 2^64 bytes or more) -/
def wireDec (valid : Bytes → Bool) (bs : Bytes) : Option (PayloadTree valid) :=
  match decodeMsg valid sparkplug "Payload" bs with
  | some v => if h : WellTyped valid sparkplug "Payload" v then some ⟨v, h⟩ else none
  | none => none

theorem M13_wire_codec_sound (valid : Bytes → Bool) (p : PayloadTree valid) :
    wireDec valid (wireEnc valid p) = some p := by
  obtain ⟨v, hv⟩ := p
  simp [wireDec, wireEnc, M13_sparkplug_payload_roundtrip valid v hv, hv]

open Srad.Topic in
/-- `C13_node_faithful` with the wire model as codec: no assumption about prost left -/
theorem M13_C13_node_faithful (valid : Bytes → Bool) (g n : Bytes) (v : Verb)
    (p : PayloadTree valid) (hg : validateName g = true) (hn : validateName n = true)
    (hvg : valid g = true) (hvn : valid n = true) (hne : g ≠ STATE) :
    parse valid (wireDec valid) (nodeTopic g v n) (wireEnc valid p) = .node g n (kindOfVerb v) p :=
  C13_node_faithful valid (wireEnc valid) (wireDec valid) (M13_wire_codec_sound valid)
    g n v p hg hn hvg hvn hne

open Srad.Topic in
/-- `C13_device_faithful` with the wire model as codec -/
theorem M13_C13_device_faithful (valid : Bytes → Bool) (g n d : Bytes) (v : Verb)
    (p : PayloadTree valid) (hg : validateName g = true) (hn : validateName n = true)
    (hd : validateName d = true) (hvg : valid g = true) (hvn : valid n = true)
    (hvd : valid d = true) (hne : g ≠ STATE) :
    parse valid (wireDec valid) (deviceTopic g v n d) (wireEnc valid p) =
      .device g n d (kindOfVerb v) p :=
  C13_device_faithful valid (wireEnc valid) (wireDec valid) (M13_wire_codec_sound valid)
    g n d v p hg hn hd hvg hvn hvd hne

/-! ### non-vacuity: the hypotheses are satisfiable by non-trivial inputs -/

/-- an ASCII stand-in for `String::from_utf8(..).is_ok()` (the theorems hold for every `valid`) -/
def asciiValid (b : Bytes) : Bool := b.all (· < 128)

/-- NDATA-like payload: timestamp, a metric with name, alias, datatype, a property set nested
three levels (PropertySet > PropertyValue > PropertySet > PropertyValue), a template value
holding a metric with a double and a parameter, an empty metric, seq 0 -/
def examplePayload : Val :=
  .msg [(1, .num 1727600000000),
    (2, .msg [(1, .bytes [97, 98]), (2, .num 7), (4, .num 19),
      (9, .msg [(1, .bytes [107]),
        (2, .msg [(1, .num 20), (9, .msg [(1, .bytes [120]), (2, .msg [(3, .num 5)])])])]),
      (18, .msg [(1, .bytes []),
        (2, .msg [(1, .bytes [109]), (13, .num 4611686018427387904)]),
        (3, .msg [(1, .bytes [112]), (7, .bool true)]), (5, .bool false)])]),
    (2, .msg []), (3, .num 0)]

example : WellTyped asciiValid sparkplug "Payload" examplePayload := by decide

example : decodeMsg asciiValid sparkplug "Payload" (encodeMsg sparkplug "Payload" examplePayload) =
    some examplePayload :=
  M13_sparkplug_payload_roundtrip asciiValid examplePayload (by decide)

/-- the same records written in another order, the optional `seq` twice and the property set in
two pieces: typed but not canonical -/
def exampleShuffled : Val :=
  .msg [(3, .num 9), (2, .msg [(9, .msg [(1, .bytes [107])]), (2, .num 7),
      (9, .msg [(2, .msg [(3, .num 5)])]), (1, .bytes [97])]),
    (1, .num 5), (3, .num 0)]

example : Typed asciiValid sparkplug "Payload" exampleShuffled := by decide
example : ¬ Canonical sparkplug "Payload" exampleShuffled := by decide

/-- its normal form: `seq` = the last value, the two pieces of the property set merged, records
back in struct order -/
example : normMsg sparkplug "Payload" exampleShuffled =
    .msg [(1, .num 5),
      (2, .msg [(1, .bytes [97]), (2, .num 7), (9, .msg [(1, .bytes [107]), (2, .msg [(3, .num 5)])])]),
      (3, .num 0)] := by rfl

example : decodeMsg asciiValid sparkplug "Payload" (encodeMsg sparkplug "Payload" exampleShuffled) =
    some (.msg [(1, .num 5),
      (2, .msg [(1, .bytes [97]), (2, .num 7), (9, .msg [(1, .bytes [107]), (2, .msg [(3, .num 5)])])]),
      (3, .num 0)]) :=
  M13_decode_encode_normal_form asciiValid sparkplug M13_sparkplug_wellformed "Payload"
    exampleShuffled (by decide)

/-- tags outside 1..2^29-1 are not a well-formed schema -/
example : ¬ WF [⟨"M", [optF 0 .uint64]⟩] := by decide
example : ¬ WF [⟨"M", [optF 1 .uint64, repF 1 .bool]⟩] := by decide
example : ¬ WF [⟨"M", [optF 1 (.message "N")]⟩] := by decide

end Srad.Wire
