/-
C15HW — the host side of the command path (C15H / M15) for the CONCRETE protobuf codec: the codec
parameters `enc` / `dec` of the `C15H_*` theorems and their hypothesis
`dec (enc p) = some p` ("the codec is the identity on the payload at hand") are replaced by

  encWC p       = encW (toMP p)               -- `Payload::encode_to_vec` on the host
  decWC valid b = (decW valid b).map ofMP     -- `Payload::decode` in the node's client, command-path view

(`Model/HostCmdWire.lean`; `encW` / `decW` are the M13 wire codec for the Sparkplug schema,
`Model/MetricWire.lean`), and the hypothesis is discharged by `C12W_wire_sound`, i.e. by
`M13_sparkplug_payload_roundtrip`. Property theorems only; helpers in `Proofs/HostCmdWire.lean`.
`C15H_rebirth_request` does not mention the codec and needs no counterpart.

Hypotheses that remain (besides those of C15H: the node is addressable, its task ready): the
values are values of the Rust types —
* `PublishMetric.InRange valid pm` (decidable, `pubOK`): the name is a `String` (`valid`) / the
  alias a `u64`, the timestamp a `u64`, the value a `metric::Value` (`pvOKC`): `u32` / `u64` bit
  patterns, a valid string, not one of the two property-only variants of `Codec.PV`;
* the clock reading is a `u64`;
* `EncFitsC p`: the encoding has fewer than 2^64 bytes (it is a `Vec<u8>`); proved, not assumed,
  for the rebirth request.

Kept abstract, because `HostCmd.WirePayload` does not carry it (stated in `Model/HostCmdWire.lean`):
the CONTENT of a data set value (`PV.dataset`), of a template value beyond its two markers
(`PV.template isDef hasRef`), of metadata and of a property set (presence flags only; the host API
never sets them). `encWC` writes fixed stand-ins for them — the very ones the harness builds
(`DataSet { num_of_columns: Some(0) }`, `template_ref = "ref"`, default metadata / property set) —
and `decWC` reads back the markers of whatever content arrives. For a template with a reference
the stand-in `"ref"` must be a valid string (`valid refStandIn`, part of `pvOKC`). Everything the
command path reads — identifiers, timestamps, scalar / string / bytes values, the payload
timestamp — goes through the real wire format byte for byte.
-/
import SradModel.Proofs.HostCmdWire
import SradModel.Props.C15Host

namespace Srad.HostCmd
open Srad.Codec Srad.Cmd
open Srad.Topic (Verb STATE nodeTopic deviceTopic NameOk)

/-! ### the codec -/

/-- Decoding the bytes written for an in-range command payload gives the payload back: every
identifier, timestamp, value, flag and presence marker, the metrics in order. -/
theorem C15HW_codec_roundtrip (valid : Bytes → Bool) (p : WirePayload) (h : InRangeC valid p) :
    decWC valid (encWC p) = some p :=
  decWC_encWC valid p h

/-- The command path's view of the full payload record a command payload is mapped to is that
command payload (the stand-ins are read back as the markers they stand for). -/
theorem C15HW_view_of_full_record (valid : Bytes → Bool) (p : WirePayload) (h : InRangeC valid p) :
    ofMP (toMP p) = p ∧ Srad.Metric.InRange valid (toMP p) := by
  refine ⟨?_, inRange_toMP valid p h⟩
  have h' : inRangeC valid p = true := h
  simp only [inRangeC, Bool.and_eq_true, List.all_eq_true] at h'
  exact ofMP_toMP valid p h'.1.1.1.2

/-- What `AppClient::metrics_to_payload` builds is in range when the clock reading is a `u64`,
every publish metric is a value of `PublishMetric`, and the encoding fits a `Vec<u8>`. -/
theorem C15HW_host_payload_inRange (valid : Bytes → Bool) (clock : Nat) (ms : List PublishMetric)
    (hc : clock < 2 ^ 64) (hms : ∀ pm ∈ ms, pm.InRange valid)
    (hl : EncFitsC (metricsToPayload clock ms)) : InRangeC valid (metricsToPayload clock ms) :=
  inRangeC_metricsToPayload valid clock ms hc hms hl

/-! ### end to end, through the real bytes -/

/-- **Fidelity, node** (`C15H_node_fidelity` for the concrete codec). For EVERY batch of publish
metrics (any identifiers, values, optional timestamps, also the empty batch), sent blocking or
try_ to the command topic of an addressable node whose node task is alive and idle, encoded by
`Payload::encode_to_vec` and decoded by the node's client: the node's manager is called exactly
once, with the host's clock reading as payload timestamp and exactly the host's metrics — same
identifiers, timestamps and values, same order, none missing, none added; no device manager is
called. -/
theorem C15HW_node_fidelity (valid : Bytes → Bool) (cfg : NodeCfg) (ha : Addressable valid cfg)
    (try_ : Bool) (clock : Nat) (ms : List PublishMetric)
    (hc : clock < 2 ^ 64) (hms : ∀ pm ∈ ms, pm.InRange valid)
    (hl : EncFitsC (metricsToPayload clock ms))
    (decs : List Dec) (st : St) (hr : st.Ready) (hi : st.Inv) :
    let r := endToEnd valid encWC (decWC valid) cfg decs st
      (send try_ clock (.node cfg.group cfg.node) ms)
    r.2.filter Eff.isCmd = [.cmd none clock (ms.map PublishMetric.asDelivered)] ∧
    ∀ e ∈ r.2, ∀ d, e.target? ≠ some (some d) :=
  C15H_node_fidelity valid encWC (decWC valid) cfg ha try_ clock ms
    (decWC_encWC valid _ (inRangeC_metricsToPayload valid clock ms hc hms hl)) decs st hr hi

/-- **Fidelity, device** (`C15H_device_fidelity` for the concrete codec). The same for the
command topic of a registered device `d` (token `k`) of an addressable node, in EVERY node state:
`d`'s manager — and only `d`'s — is called exactly once with the host's clock reading and exactly
the host's metrics; the node state is untouched (in particular no birth). -/
theorem C15HW_device_fidelity (valid : Bytes → Bool) (cfg : NodeCfg) (ha : Addressable valid cfg)
    (d : Bytes) (k : Nat) (hd : NameOk d) (hvd : valid d = true)
    (hk : devToken cfg.devices d = some k)
    (try_ : Bool) (clock : Nat) (ms : List PublishMetric)
    (hc : clock < 2 ^ 64) (hms : ∀ pm ∈ ms, pm.InRange valid)
    (hl : EncFitsC (metricsToPayload clock ms))
    (decs : List Dec) (st : St) (hreg : (st.devs.any fun x => x.name == k) = true) :
    let r := endToEnd valid encWC (decWC valid) cfg decs st
      (send try_ clock (.device cfg.group cfg.node d) ms)
    r.1 = st ∧
    r.2.filter Eff.isCmd = [.cmd (some k) clock (ms.map PublishMetric.asDelivered)] ∧
    ∀ e ∈ r.2, (e.isCmd = true ∨ e.isCb = true) ∧ e.target? = some (some k) :=
  C15H_device_fidelity valid encWC (decWC valid) cfg ha d k hd hvd hk try_ clock ms
    (decWC_encWC valid _ (inRangeC_metricsToPayload valid clock ms hc hms hl)) decs st hreg

/-- **The one thing that is dropped (by design)** (`C15H_unregistered_device_dropped` for the
concrete codec): a DCMD for a device id that is not registered at the addressed node reaches the
node, decodes, and is dropped there: no manager is called, the state is unchanged. -/
theorem C15HW_unregistered_device_dropped (valid : Bytes → Bool) (cfg : NodeCfg)
    (ha : Addressable valid cfg) (d : Bytes) (hd : NameOk d) (hvd : valid d = true)
    (hk : devToken cfg.devices d = none) (try_ : Bool) (clock : Nat) (ms : List PublishMetric)
    (hc : clock < 2 ^ 64) (hms : ∀ pm ∈ ms, pm.InRange valid)
    (hl : EncFitsC (metricsToPayload clock ms)) (decs : List Dec) (st : St) :
    transport valid encWC (decWC valid) cfg (send try_ clock (.device cfg.group cfg.node d) ms)
      = .ignored ∧
    (endToEnd valid encWC (decWC valid) cfg decs st
      (send try_ clock (.device cfg.group cfg.node d) ms)).2 = [] :=
  C15H_unregistered_device_dropped valid encWC (decWC valid) cfg ha d hd hvd hk try_ clock ms
    (decWC_encWC valid _ (inRangeC_metricsToPayload valid clock ms hc hms hl)) decs st

/-- The request of `publish_node_rebirth` is in range for every `u64` clock reading, provided
the constant `Node Control/Rebirth` is a valid string (it is ASCII); its encoding is 27 to 36
bytes long, so nothing about its size is assumed. -/
theorem C15HW_rebirth_payload_inRange (valid : Bytes → Bool) (clock : Nat) (hc : clock < 2 ^ 64)
    (hv : valid rebirthName = true) : InRangeC valid (metricsToPayload clock [rebirthMetric]) := by
  refine inRangeC_metricsToPayload valid clock [rebirthMetric] hc ?_ (encFits_rebirth clock)
  intro pm hpm
  rw [List.mem_singleton.mp hpm]
  simpa [pubOK, rebirthMetric, PublishMetric.newTyped, PublishMetric.new, toProto, pvOKC] using hv

/-- **The request is honoured** (`C15H_rebirth_honoured` for the concrete codec). Sent to an
addressable node whose node task is alive and idle, the bytes of the request of
`publish_node_rebirth` make the node hand over an NBIRTH if and only if the node is birthed and
the request is outside the rebirth cooldown — for every group / node id, `u64` clock reading and
node state; the node's manager is handed the request as well. -/
theorem C15HW_rebirth_honoured (valid : Bytes → Bool) (cfg : NodeCfg) (ha : Addressable valid cfg)
    (clock : Nat) (hc : clock < 2 ^ 64) (hv : valid rebirthName = true)
    (decs : List Dec) (st : St) (hr : st.Ready) (hi : st.Inv) :
    let r := endToEnd valid encWC (decWC valid) cfg decs st
      (publishNodeRebirth clock cfg.group cfg.node)
    ((∃ e ∈ r.2, e.isNBirth = true) ↔ (st.birthed = true ∧ st.cooldown ≤ st.wall - st.last)) ∧
    r.2.filter Eff.isCmd = [.cmd none clock [rebirthMetric.asDelivered]] :=
  C15H_rebirth_honoured valid encWC (decWC valid) cfg ha clock
    (decWC_encWC valid _ (C15HW_rebirth_payload_inRange valid clock hc hv)) decs st hr hi

/-! ### non-vacuity: concrete, non-trivial inputs through the real bytes -/

section Examples

/-- a batch: a named string, an aliased u8 with timestamp, a data set by name, a template
definition with reference by alias, a NaN double -/
def exBatchW : List PublishMetric :=
  [PublishMetric.new (.name [0x78]) (.str [0x68, 0x69]),
   (PublishMetric.newTyped (.alias 7) .u8 (.n 200)).timestamp 33,
   PublishMetric.new (getMetricId [0x6d] none) .dataset,
   PublishMetric.new (.alias 2) (.template (some true) true),
   PublishMetric.new (.alias 3) (.double 0x7ff8000000000001)]

example : ∀ pm ∈ exBatchW, pm.InRange Topic.asciiValid := by decide
example : EncFitsC (metricsToPayload 5000 exBatchW) := by decide
example : InRangeC Topic.asciiValid (metricsToPayload 5000 exBatchW) := by decide
example : Topic.asciiValid rebirthName = true := by decide

/-- the bytes on the wire -/
example : encWC (metricsToPayload 5000 [PublishMetric.new (.name [0x78]) (.str [0x68, 0x69]),
      PublishMetric.new (.alias 2) (.template (some false) true)]) =
    [8, 136, 39, 18, 7, 10, 1, 120, 122, 2, 104, 105,
     18, 12, 16, 2, 146, 1, 7, 34, 3, 114, 101, 102, 40, 0] := by decide

/-- the node-fidelity theorem applies to this batch and the C15H example node: every hypothesis
is discharged -/
example :
    let r := endToEnd Topic.asciiValid encWC (decWC Topic.asciiValid) exCfg [] exSt
      (send true 5000 (.node exCfg.group exCfg.node) exBatchW)
    r.2.filter Eff.isCmd = [.cmd none 5000 (exBatchW.map PublishMetric.asDelivered)] ∧
    ∀ e ∈ r.2, ∀ d, e.target? ≠ some (some d) :=
  C15HW_node_fidelity Topic.asciiValid exCfg
    ⟨by unfold NameOk; decide, by unfold NameOk; decide, by decide, by decide, by decide⟩
    true 5000 exBatchW (by decide) (by decide) (by decide) [] exSt
    (by unfold St.Ready; decide) (by unfold St.Inv; decide)

/-- … and by plain evaluation through the bytes: device `d1` is handed the batch -/
example : (endToEnd Topic.asciiValid encWC (decWC Topic.asciiValid) exCfg [] exSt
    (send false 5000 (.device exCfg.group exCfg.node [0x64, 0x31]) exBatchW)).2 =
    [.cmd (some 1) 5000 (exBatchW.map PublishMetric.asDelivered)] := by decide

/-- the rebirth request through the bytes: the manager sees it, the node and its devices rebirth -/
example : (endToEnd Topic.asciiValid encWC (decWC Topic.asciiValid) exCfg [] exSt
    (publishNodeRebirth 7000 exCfg.group exCfg.node)).2 =
    [.cmd none 7000 [⟨.name rebirthName, none, some (.bool true)⟩], .nbirth 0 0, .dbirth 0 1, .dbirth 1 2] := by
  decide

/-- out of range: a property-only value, an alias that is no `u64`, a name that is no string -/
example : ¬ (PublishMetric.new (.alias 1) .pset).InRange Topic.asciiValid := by decide
example : ¬ (PublishMetric.new (.alias (2 ^ 64)) (.bool true)).InRange Topic.asciiValid := by decide
example : ¬ (PublishMetric.new (.name [200]) (.bool true)).InRange Topic.asciiValid := by decide

end Examples

end Srad.HostCmd
