/-
M17 — the concrete hash behind metric aliases and device ids (`std::hash::DefaultHasher` =
SipHash-1-3, keys 0/0, `str` hashing = bytes ++ [0xff]): `Model/SipHash.lean`.

What this file proves:
* kernel-checked VALUES of the model on the witness names the harness uses for the alias-collision
  scenarios (defect D10): names whose low 32 hash bits are 0xFFFFFFFF / 0xFFFFFFFE / 0 / 1 and pairs of
  names that collide in the low 32 bits. The harness finds these by brute force against the real
  `DefaultHasher`; that the MODEL gives the same values is part of the tie (every `birth hash` line
  of every run is checked by the driver), here they are theorems about the model (`decide +kernel`:
  the whole computation is replayed by the kernel, no `native_decide`).
* the C11 alias theorems, which quantify over an arbitrary hash, instantiated with the concrete one,
  and the D10 scenario evaluated through the birth model with the concrete hash: with the repaired
  bump the two colliding node metrics get 0xFFFFFFFF and 0 (high half untouched), with the old
  `alias += 1` the second one is 0x1_0000_0000 = the first possible alias of device id 1.
* structure of the block processing for ALL inputs: whole 8-byte words are absorbed in order
  (`M17_absorb_block`), the tail handed to `finish` is shorter than 8 bytes and is the input's last
  `length % 8` bytes (`M17_tail`), the model is a function of the byte string only.
Axioms: `propext`, `Classical.choice`, `Quot.sound` at most.
-/
import SradModel.Model.SipHash
import SradModel.Model.Birth
import SradModel.Model.BirthSpec
import SradModel.Props.C11

namespace Srad.Sip
open Srad.Birth

/-! ### the witness names -/

/-- "aaa1lidyg" -/
def w_ffffffff_0 : List UInt8 := [0x61, 0x61, 0x61, 0x31, 0x6c, 0x69, 0x64, 0x79, 0x67]

/-- "daau821aq" -/
def w_ffffffff_1 : List UInt8 := [0x64, 0x61, 0x61, 0x75, 0x38, 0x32, 0x31, 0x61, 0x71]

/-- "daaxh4hmb" -/
def w_ffffffff_2 : List UInt8 := [0x64, 0x61, 0x61, 0x78, 0x68, 0x34, 0x68, 0x6d, 0x62]

/-- "aaa026ui7" -/
def w_zero_0 : List UInt8 := [0x61, 0x61, 0x61, 0x30, 0x32, 0x36, 0x75, 0x69, 0x37]

/-- "aaamf0u7z" -/
def w_zero_1 : List UInt8 := [0x61, 0x61, 0x61, 0x6d, 0x66, 0x30, 0x75, 0x37, 0x7a]

/-- "caai9nisy" -/
def w_zero_2 : List UInt8 := [0x63, 0x61, 0x61, 0x69, 0x39, 0x6e, 0x69, 0x73, 0x79]

/-- "eaagfroq1" -/
def w_one_0 : List UInt8 := [0x65, 0x61, 0x61, 0x67, 0x66, 0x72, 0x6f, 0x71, 0x31]

/-- "eaank6t2q" -/
def w_one_1 : List UInt8 := [0x65, 0x61, 0x61, 0x6e, 0x6b, 0x36, 0x74, 0x32, 0x71]

/-- "aaasmioiu" -/
def w_fffffffe_0 : List UInt8 := [0x61, 0x61, 0x61, 0x73, 0x6d, 0x69, 0x6f, 0x69, 0x75]

/-- "baazogsjt" -/
def w_fffffffe_1 : List UInt8 := [0x62, 0x61, 0x61, 0x7a, 0x6f, 0x67, 0x73, 0x6a, 0x74]

/-- "m45047" / "m100810" -/
def p0a : List UInt8 := [0x6d, 0x34, 0x35, 0x30, 0x34, 0x37]
def p0b : List UInt8 := [0x6d, 0x31, 0x30, 0x30, 0x38, 0x31, 0x30]

/-- "m108710" / "m125295" -/
def p1a : List UInt8 := [0x6d, 0x31, 0x30, 0x38, 0x37, 0x31, 0x30]
def p1b : List UInt8 := [0x6d, 0x31, 0x32, 0x35, 0x32, 0x39, 0x35]

/-- "m34988" / "m147416" -/
def p2a : List UInt8 := [0x6d, 0x33, 0x34, 0x39, 0x38, 0x38]
def p2b : List UInt8 := [0x6d, 0x31, 0x34, 0x37, 0x34, 0x31, 0x36]

/-- "m47567" / "m180839" -/
def p3a : List UInt8 := [0x6d, 0x34, 0x37, 0x35, 0x36, 0x37]
def p3b : List UInt8 := [0x6d, 0x31, 0x38, 0x30, 0x38, 0x33, 0x39]


def low32 (n : List UInt8) : Nat := hashNat n % 4294967296

/-- the names the D10 scenarios use hash, in the low 32 bits, to exactly the boundary values -/
theorem M17_boundary_witnesses :
    low32 w_ffffffff_0 = 0xFFFFFFFF ∧ low32 w_ffffffff_1 = 0xFFFFFFFF ∧ low32 w_ffffffff_2 = 0xFFFFFFFF ∧
    low32 w_fffffffe_0 = 0xFFFFFFFE ∧ low32 w_fffffffe_1 = 0xFFFFFFFE ∧
    low32 w_zero_0 = 0 ∧ low32 w_zero_1 = 0 ∧ low32 w_zero_2 = 0 ∧
    low32 w_one_0 = 1 ∧ low32 w_one_1 = 1 := by
  decide +kernel

/-- pairs of distinct names with the same low 32 hash bits (what makes the collision bump run) -/
theorem M17_colliding_pairs :
    (p0a ≠ p0b ∧ low32 p0a = low32 p0b) ∧ (p1a ≠ p1b ∧ low32 p1a = low32 p1b) ∧
    (p2a ≠ p2b ∧ low32 p2a = low32 p2b) ∧ (p3a ≠ p3b ∧ low32 p3a = low32 p3b) := by
  decide +kernel

/-- two full 64-bit values, as the real `DefaultHasher` reports them for "m45047" and "m100810" -/
theorem M17_full_values :
    hashNat p0a = 14132127212450542604 ∧ hashNat p0b = 8313847475983021068 := by
  decide +kernel

/-! ### block structure, for all inputs -/

/-- a whole 8-byte word at the front is absorbed, then the rest is processed -/
theorem M17_absorb_block (fuel : Nat) (s : St) (w rest : List UInt8) (hw : w.length = 8) :
    absorbAll (fuel + 1) s (w ++ rest) = absorbAll fuel (absorb s (leWord w)) rest := by
  have h1 : ¬ (w ++ rest).length < 8 := by simp [hw]
  have h2 : (w ++ rest).take 8 = w := by
    rw [List.take_append_of_le_length (by omega)]; exact List.take_of_length_le (by omega)
  have h3 : (w ++ rest).drop 8 = rest := by
    rw [List.drop_append_of_le_length (by omega)]
    simp [List.drop_of_length_le (Nat.le_of_eq hw)]
  simp only [absorbAll, h1, if_false, h2, h3]

/-- with the fuel `sip13` supplies, what reaches `finish` is the last `length % 8` bytes of the input:
nothing is dropped and nothing longer than 7 bytes is left over -/
theorem M17_tail (s : St) (bs : List UInt8) (fuel : Nat) (hf : bs.length / 8 < fuel) :
    (absorbAll fuel s bs).2 = bs.drop (bs.length - bs.length % 8) ∧
    (absorbAll fuel s bs).2.length = bs.length % 8 := by
  induction fuel generalizing s bs with
  | zero => omega
  | succ n ih =>
    by_cases hl : bs.length < 8
    · have hm : bs.length % 8 = bs.length := Nat.mod_eq_of_lt hl
      simp [absorbAll, hl, hm]
    · have hl' : 8 ≤ bs.length := by omega
      have hd : (bs.drop 8).length = bs.length - 8 := by simp
      have hf' : (bs.drop 8).length / 8 < n := by rw [hd]; omega
      obtain ⟨i1, i2⟩ := ih (absorb s (leWord (bs.take 8))) (bs.drop 8) hf'
      have hm : (bs.length - 8) % 8 = bs.length % 8 := by omega
      simp only [absorbAll, hl, if_false]
      refine ⟨?_, ?_⟩
      · rw [i1, hd, hm, List.drop_drop]
        congr 1; omega
      · rw [i2, hd, hm]

/-- `sip13` in terms of the tail lemma: the value is `finish` applied to the state after the whole words and
the last `length % 8` bytes -/
theorem M17_sip13_shape (k0 k1 : UInt64) (bs : List UInt8) :
    sip13 k0 k1 bs =
      finish (absorbAll (bs.length / 8 + 1) (init k0 k1) bs).1
        (bs.drop (bs.length - bs.length % 8)) bs.length := by
  have := (M17_tail (init k0 k1) bs (bs.length / 8 + 1) (by omega)).1
  unfold sip13
  rw [← this]

/-- string hashing is byte hashing of the name followed by 0xff (so a name and the same name with a trailing
0xff byte written as data are told apart only by the length byte - as in Rust) -/
theorem M17_str_is_bytes_ff (n : List UInt8) : defaultHashStr n = defaultHashBytes (n ++ [0xff]) := rfl

/-! ### the C11 alias theorems at the concrete hash -/

variable {U : Type}

/-- `C11_alias_unique_across` with the real hash plugged in (repaired bump, so no `NoCarry` hypothesis): no
alias of an NBIRTH is an alias of a DBIRTH, and DBIRTHs of different devices share none -/
theorem M17_alias_unique_across_concrete (cfg : Cfg) (hc : cfg.inHalf = true) (now bdseq : Nat)
    (reg : List (Name × U)) (hreg : RegOk reg) (dm : DevMap) (hdm : DevOk dm)
    (mgrN : Mgr U) (msN : List (Metric U)) (resN : List (Res MetricId))
    (hbN : nodeBirth cfg hashNat now bdseq reg mgrN = .ok (msN, resN))
    (d1 d2 : Name × Nat) (hd1 : d1 ∈ dm.devs) (hd2 : d2 ∈ dm.devs)
    (now1 now2 : Nat) (reg1 reg2 : List Name) (mgr1 mgr2 : Mgr U)
    (ms1 ms2 : List (Metric U)) (res1 res2 : List (Res MetricId))
    (hb1 : deviceBirth cfg hashNat now1 d1.2 reg1 mgr1 = .ok (ms1, res1))
    (hb2 : deviceBirth cfg hashNat now2 d2.2 reg2 mgr2 = .ok (ms2, res2)) :
    (∀ a ∈ aliasesOf msN, a ∉ aliasesOf ms1) ∧
    (d1.1 ≠ d2.1 → ∀ a ∈ aliasesOf ms1, a ∉ aliasesOf ms2) :=
  C11_alias_unique_across cfg hashNat now bdseq reg hreg dm hdm mgrN msN resN (Or.inl hc) hbN
    d1 d2 hd1 hd2 now1 now2 reg1 reg2 mgr1 mgr2 (Or.inl hc) (Or.inl hc) ms1 ms2 res1 res2 hb1 hb2

/-- device ids under the real hash: any register/unregister history leaves one non-zero id below 2^32 per
name, pairwise distinct -/
theorem M17_device_ids_concrete (cfg : Cfg) (ops : List DevOp) :
    DevOk (ops.foldl (applyDevOp cfg hashNat) DevMap.empty) :=
  C11_device_ids cfg hashNat ops

/-! ### the D10 scenario evaluated with the concrete hash -/

def cfgRepaired : Cfg := { dbg := true, ovf := true, inHalf := true }
def cfgOld : Cfg := { dbg := true, ovf := true, inHalf := false }

/-- a node initializer that already holds the alias of the first colliding metric -/
def afterFirst (cfg : Cfg) : Res (MetricId × Init Unit) :=
  createToken cfg hashNat { obj := 0, registry := [] } w_ffffffff_0 true

/-- the alias a `createToken` call hands out (`none`: no alias / error / panic) -/
def aliasOf {U} : Res (MetricId × Init U) → Option Nat
  | .ok (.alias a, _) => some a
  | _ => none

/-- the alias of a second aliased metric created right after a first one -/
def secondAlias (cfg : Cfg) (first second : Name) : Option Nat :=
  match createToken cfg hashNat ({ obj := 0, registry := [] } : Init Unit) first true with
  | .ok (_, st) => aliasOf (createToken cfg hashNat st second true)
  | _ => none

/-- Repaired code: the first metric gets 0xFFFFFFFF, the second (same low hash) wraps to 0 INSIDE the low half;
old code (`alias += 1` on the u64): the second gets 0x1_0000_0000, which is the alias device id 1 gives a
metric hashing to 0 - the collision of finding D10. -/
theorem M17_d10_scenario :
    aliasOf (afterFirst cfgRepaired) = some 0xFFFFFFFF ∧
    secondAlias cfgRepaired w_ffffffff_0 w_ffffffff_1 = some 0 ∧
    secondAlias cfgOld w_ffffffff_0 w_ffffffff_1 = some 0x100000000 ∧
    aliasOf (createToken cfgOld hashNat ({ obj := 1, registry := [] } : Init Unit) w_zero_0 true)
      = some 0x100000000 := by
  decide +kernel

end Srad.Sip
