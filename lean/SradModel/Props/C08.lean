/-
C08 — Closed loop: a srad edge node and a srad host application converge after faults.  PARTIAL.

Property theorems only (helper lemmas: `SradModel/Proofs/Loop.lean`; model: `Model/Loop.lean`,
vocabulary: `Model/LoopSpec.lean`).

What is covered, exactly:
* The composed model is ONE node and the host's per-node actor (`Host.step`, the model validated
  for C05–C07) joined by a broker that may reorder, delay, duplicate every message, drop QoS-0
  messages, deliver the registered will when the node's connection breaks, break and restore
  either connection, with the clock advancing arbitrarily in between (`Sys.step`, 15 actions).
  The node is the SEQUENTIAL abstraction `Loop.Node` (client accepts every call, every action runs
  to quiescence); it is tied to the real edge node by differential execution (driver `nodeabs`)
  and to the task-level model `Model/Eon` by the refinement theorems of `Props/C08Refine.lean`
  (every `Loop.Node` operation is realised by an LTS execution between quiescent states with the
  same hand-overs). Both rebirth cooldowns are 0;
  every store accepts every message (`Ans.ok`).
* `C08_safety` (full, every action sequence): the second sentence of the property.
* `C08_convergence_partial` / `C08_convergence_reachable_partial`: the first sentence for the
  deterministic fault-free continuation `settle 2` from every state of the kind reached after
  "deliver everything" — any host record whatsoever that satisfies the stated conditions, which
  `C08_reachable_facts` shows to hold in every reachable state. It is NOT a theorem about
  every fair fault-free schedule, and "exactly the metric set and latest values" is rendered as
  "the host's effects since the node's last publishes are exactly those publishes, applied once
  each, in order" (ids stand for values; metric sets are C11/C12's subject).
-/
import SradModel.Proofs.Loop
import SradModel.Props.C06

namespace Srad.Loop
open Srad Srad.Host

/-- **Safety, for every action sequence** (any reordering, duplication, loss, disconnects, clock
jumps) from the initial system, whatever the configuration and the registered devices:
(i) every id that occurs in a store effect of the host (`nodeBirth`, `nodeData`, `devBirth d`,
`devData d`) is the id of a message the node handed over before, of the matching kind and for the
same device — the host never exposes a value the node did not publish (the statement holds at
every prefix of the sequence, so "before" is meant literally);
(ii) the host's effect trace is data-guarded: every data effect on the node's store (a device's
store) is preceded, most recently among that store's lifecycle effects, by an accepted birth of
the node (and of that device) — no data from a session the host has declared stale;
(iii) the host's record satisfies the reachable-state invariant of C06. -/
theorem C08_safety (c : Cfg) (devs : List Dev) (acts : List Action) :
    let s := (Sys.init c devs).run acts
    (∀ e ∈ s.effs, EffOk s.sent e) ∧
    DataGuarded .stale (fun _ => .stale) s.effs ∧
    HostInv s.host := by
  intro s
  have h := SafeInv_run c acts _ (SafeInv_init c devs)
  obtain ⟨evs, hwf, hrun⟩ := h.isRun
  refine ⟨h.effs, ?_, ?_⟩
  · have := C06_data_guarded c evs hwf
    rw [hrun] at this
    exact this
  · have := C06_reachable_inv c evs hwf
    rw [hrun] at this
    exact this

/-
Full statement aimed at (not proved): "for every reachable state of the composed system and every
fair fault-free schedule in which the node goes on publishing, eventually `InSync` holds and keeps
holding." Proved instead: the statements below, for the schedule `settle`. What is missing for the
full statement: (1) a theorem that every fair fault-free schedule, not just `settle`'s FIFO one,
converges; (2) a proof that the first phase of `settle` (reconnect, deliver everything in flight
in order) leads from EVERY reachable state to a state with nothing in flight that satisfies the
one remaining host-side hypothesis (`InStep → DevsBelow`, see below) — `C08_convergence_partial`
starts after that phase; (3) the abstract sequential node is tied to the edge node's task-level
model only by differential execution.
-/

/-- **Convergence of the fault-free continuation — 2 rounds suffice.**
Configuration: every rebirth switch on, reorder timeout `some d` (any `d`), cooldown 0,
resequencing on. Take ANY state in which
* both sides are connected and nothing is in flight in either direction;
* the node is online and birthed, at rest: every device's flag equals its enabled switch, names
  distinct, `seq`, `bdseq` are `u8`, fewer than 255 devices enabled (`NodeOk`: so that one round's
  messages carry distinct sequence numbers — with 255 the host can stay rotated for ever);
  the iteration order of the device map (`devs`) is arbitrary;
* the host's record `h` is ARBITRARY subject to: the reachable-state invariant `HostInv`;
  ClockCoherent (`birthTs ≤ clock`, `staleTs ≤ clock`); the timer discipline `TimerOk` (while
  birthed: messages buffered ⇒ reorder timer running, and no unhandled fired timer — an invariant
  of the composed system, `C08_reachable_facts`); and, ONLY IF `h` is already in step with the node
  (`InStep`: birthed, nothing buffered, no timer, expecting the node's next number, every enabled
  device held birthed — the one case in which no rebirth will be requested), every device it
  holds birthed is enabled at the node (`DevsBelow`; a device held birthed that the node never
  mentions again would stay birthed for ever).
  So `h` may be in sync already; stale; birthed expecting any other sequence number; birthed with
  any buffer contents and the timer armed at any deadline; holding any bdSeq, any `lastRebirth`,
  any device table (unknown devices, missing enabled ones, disabled ones still held birthed).
Then two rounds of `settle` (each: reconnect if needed; deliver everything in flight in order,
NCMDs and the births they cause included; let the clock pass an armed reorder timeout; the node
publishes on the node metric and on every enabled device; deliver everything) end `InSync`:
node and host connected, the host holds the node birthed, expects exactly the node's next
sequence number with nothing buffered and no timer, holds exactly the enabled devices birthed and
every other device it knows stale, nothing is in flight, and the host's effects since the last
publishes are exactly those `1 + #enabled` publishes applied once each in publish order. -/
theorem C08_convergence_partial (d : Nat) (s : Sys)
    (hcfg : s.cfg = Sys.fullCfg d)
    (hconn : s.nodeConn = true ∧ s.hostConn = true)
    (hflight : s.toHost = [] ∧ s.toNode = 0)
    (hnode : NodeOk s.node)
    (hinv : HostInv s.host) (hclock : Coherent s.host s.clock) (htimer : TimerOk s.host)
    (hdevs : InStep s.host s.node → DevsBelow s.host s.node) :
    Sys.InSync (Sys.settle 2 s).1 (Sys.settle 2 s).2 = true := by
  exact settle_two d s ⟨hcfg, hconn.1, hconn.2, hflight.1, hnode⟩ hflight.2 hinv hclock htimer hdevs

/-- … and it stays: under the same hypotheses every number of rounds `k ≥ 2` ends `InSync`
(each further round applies exactly its own publishes). -/
theorem C08_stays_in_sync (d : Nat) (s : Sys) (k : Nat)
    (hcfg : s.cfg = Sys.fullCfg d)
    (hconn : s.nodeConn = true ∧ s.hostConn = true)
    (hflight : s.toHost = [] ∧ s.toNode = 0)
    (hnode : NodeOk s.node)
    (hinv : HostInv s.host) (hclock : Coherent s.host s.clock) (htimer : TimerOk s.host)
    (hdevs : InStep s.host s.node → DevsBelow s.host s.node) :
    Sys.InSync (Sys.settle (k + 2) s).1 (Sys.settle (k + 2) s).2 = true := by
  have h1 := round_start d s ⟨hcfg, hconn.1, hconn.2, hflight.1, hnode⟩ hflight.2 hinv hclock htimer hdevs
  rw [settle_shift]
  exact (settle_more d _ h1 (k + 1)).2 (by omega)

/-- **The hypotheses are facts of every reachable state.** Under the full configuration, after
ANY action sequence from the initial system (devices registered under distinct names, none
birthed): the host's record satisfies `HostInv`, `TimerOk` and `Coherent`; and whenever the node
is birthed it is at rest in the sense of `NodeOk`, apart from the bound on enabled devices. -/
theorem C08_reachable_facts (d : Nat) (devs : List Dev) (acts : List Action)
    (hnames : (devs.map (·.name)).Nodup) (hflags : ∀ x ∈ devs, x.flag = false) :
    let s := (Sys.init (Sys.fullCfg d) devs).run acts
    s.cfg = Sys.fullCfg d ∧ HostInv s.host ∧ TimerOk s.host ∧ Coherent s.host s.clock ∧
    (s.node.birthed = true → s.node.enabledNames.length < 255 → NodeOk s.node) := by
  intro s
  have hl := LiveInv_run d acts _ (LiveInv_init d devs)
  have hn := NodeInv_run acts _ (NodeInv_init (Sys.fullCfg d) devs hnames hflags)
  exact ⟨hl.safe.cfg, hl.safe.hostInv, hl.timer, ⟨hl.birthTs, hl.staleTs⟩,
    fun hb hfew => hn.nodeOk hl.safe.bd hb hfew⟩

/-- **Convergence from reachable states.** After ANY action sequence (any faults) from the
initial system under the full configuration: if both sides are connected, nothing is in flight,
the node is birthed with fewer than 255 devices enabled, and — only in case the host's record is
already `InStep` — the host holds no device birthed that is not enabled, then two rounds of
`settle` end `InSync`. Every other hypothesis of `C08_convergence_partial` is discharged by
reachability. -/
theorem C08_convergence_reachable_partial (d : Nat) (devs : List Dev) (acts : List Action)
    (hnames : (devs.map (·.name)).Nodup) (hflags : ∀ x ∈ devs, x.flag = false) :
    let s := (Sys.init (Sys.fullCfg d) devs).run acts
    s.nodeConn = true ∧ s.hostConn = true → s.toHost = [] ∧ s.toNode = 0 →
    s.node.birthed = true → s.node.enabledNames.length < 255 →
    (InStep s.host s.node → DevsBelow s.host s.node) →
    Sys.InSync (Sys.settle 2 s).1 (Sys.settle 2 s).2 = true := by
  intro s hconn hflight hb hfew hdevs
  obtain ⟨h1, h2, h3, h4, h5⟩ := C08_reachable_facts d devs acts hnames hflags
  exact C08_convergence_partial d s h1 hconn hflight (h5 hb hfew) h2 h4 h3 hdevs

/-! ### non-vacuity -/

/-- three registered devices, the second one disabled -/
def exDevs : List Dev :=
  [{ name := 1, enabled := true }, { name := 2, enabled := false }, { name := 3, enabled := true }]

/-- connect both, deliver the births, publish a round, and LOSE the DDATA of device 1: the host
buffers the DDATA of device 3 behind the gap and arms the reorder timer -/
def exLossy : List Action :=
  [.hostConnect, .nodeConnect, .deliver 0, .deliver 0, .deliver 0, .advance 1,
   .publishNode, .publishDev 1, .publishDev 3, .deliver 0, .drop 0, .deliver 0]

/-- the lossy scenario ends out of sync (gap, timer armed); `settle` — timeout, NCMD, rebirth,
births applied, publishes applied — ends `InSync` -/
example :
    let s := (Sys.init (Sys.fullCfg 100) exDevs).run exLossy
    s.host.timer = .armed 102 ∧ s.host.reseq.buf.length = 1 ∧ Sys.InSync s [] = false ∧
    Sys.InSync (Sys.settle 2 s).1 (Sys.settle 2 s).2 = true := by decide

/-- the node's connection breaks (its will is delivered out of order, before an NDATA still in
flight), device 3 is disabled and device 2 enabled while offline, the node reconnects -/
def exReconnect : List Action :=
  [.hostConnect, .nodeConnect, .deliver 0, .deliver 0, .deliver 0, .advance 1,
   .publishNode, .nodeDisconnect, .deliver 1, .advance 5, .disable 3, .enable 2, .nodeConnect]

example :
    let s := (Sys.init (Sys.fullCfg 100) exDevs).run exReconnect
    s.host.life = .stale ∧ s.toHost.length = 4 ∧ s.node.bdseq = 1 ∧
    Sys.InSync (Sys.settle 2 s).1 (Sys.settle 2 s).2 = true ∧
    (Sys.settle 2 s).1.host.devices = [(1, .birthed), (3, .stale), (2, .birthed)] := by decide

/-- the hypotheses of `C08_convergence_partial` are satisfiable by a state that is not in sync:
the state the lossy scenario ends in -/
example :
    let s := (Sys.init (Sys.fullCfg 100) exDevs).run exLossy
    s.cfg = Sys.fullCfg 100 ∧ (s.nodeConn = true ∧ s.hostConn = true) ∧ (s.toHost = [] ∧ s.toNode = 0) ∧
    NodeOk s.node ∧ HostInv s.host ∧ Coherent s.host s.clock ∧ TimerOk s.host ∧
    (InStep s.host s.node → DevsBelow s.host s.node) ∧ Sys.InSync s [] = false := by
  refine ⟨rfl, by decide, by decide, ⟨by decide, by decide, by decide, by decide, by decide, by decide, by decide⟩,
    (C08_safety _ _ _).2.2, ⟨by decide, by decide⟩, ?_, ?_, by decide⟩
  · intro _; exact ⟨by decide, fun _ => ⟨102, by decide⟩⟩
  · intro _ dv hdv
    have : dv = 1 ∨ dv = 3 := by
      have hm := findDev_some_mem_fst dv _ _ hdv
      have : ((Sys.init (Sys.fullCfg 100) exDevs).run exLossy).host.devices.map Prod.fst = [1, 3] := by decide
      rw [this] at hm
      simpa using hm
    rcases this with rfl | rfl <;> decide

end Srad.Loop
