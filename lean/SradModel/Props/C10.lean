/-
C10 — Metric value codecs round-trip every value of every supported type.
Property theorems only; helper lemmas are in `SradModel/Proofs/Codec.lean`.
Numbers are bit patterns (`Nat < 2^(8w)`), floats are their IEEE bits, strings are byte lists
with an arbitrary validity predicate `valid` standing for `String::from_utf8`.
-/
import SradModel.Proofs.Codec
import SradModel.Generated.KindTable

namespace Srad.Codec

/-! ### scalars: all 13 types, all values, all four wrapper kinds (same variant constructors) -/

/-- converting a value of any scalar type to its protobuf value and back yields it -/
theorem C10_scalar_roundtrip (t : STy) (v : SV) (h : t.holds v = true) :
    fromProto t (toProto t v) = .ok v := by
  exact scalar_roundtrip t v h

/-! ### fixed-width arrays: i8…u64, f32, f64, DateTime (w = 1, 2, 4, 8) -/

/-- encoded form = concatenation of the little-endian bytes of each element … -/
theorem C10_array_form (w : Nat) (l : List Nat) : encodeW w l = l.flatMap (le w) := by
  exact encodeW_eq_flatMap w l

/-- … where byte `i` of an element is `(n / 256^i) % 256` (least significant first) -/
theorem C10_le_form (w n : Nat) :
    le w n = (List.range w).map (fun i => UInt8.ofNat (n / 256 ^ i % 256)) := by
  exact le_form_aux w n

theorem C10_array_roundtrip (w : Nat) (hw : 0 < w) (l : List Nat)
    (h : ∀ x ∈ l, x < 2 ^ (8 * w)) : (decodeW w (encodeW w l)).res = .ok l := by
  rw [decodeW_encodeW w hw l h]

/-! ### boolean arrays -/

/-- every length below 2^32 (the count is `len as u32`), every bit pattern -/
theorem C10_bool_roundtrip (l : List Bool) (h : l.length < 4294967296) :
    (decodeBool (encodeBool l)).res = .ok l := by
  exact decodeBool_encodeBool l h

/-- encoded form: 4-byte little-endian count, then ⌈n/8⌉ bytes; element `i` is bit `7 - i % 8`
(most significant first) of byte `4 + i / 8` -/
theorem C10_bool_form (l : List Bool) :
    (encodeBool l).take 4 = le 4 (l.length % 4294967296) ∧
    (encodeBool l).length = 4 + (l.length + 7) / 8 ∧
    ∀ i (hi : i < l.length), ∃ b, (encodeBool l)[4 + i / 8]? = some b ∧ bit b (7 - i % 8) = l[i] := by
  exact ⟨encodeBool_take4 l, encodeBool_length l, encodeBool_bit l⟩

/-! ### string arrays -/

theorem C10_string_form (l : List Bytes) :
    encodeStr l = l.flatMap (fun s => s ++ [(0 : UInt8)]) := by
  exact encodeStr_eq_flatMap l

/-- strings over arbitrary valid bytes without NUL -/
theorem C10_string_roundtrip (valid : Bytes → Bool) (l : List Bytes)
    (h : ∀ s ∈ l, valid s = true ∧ (0 : UInt8) ∉ s) :
    (decodeStr valid (encodeStr l)).res = .ok l := by
  rw [decodeStr_encodeStr valid l h]

/-! ### datatype-directed decoding -/

/-- the variant produced is the one named by the datatype -/
theorem C10_kind_named_by_datatype (valid : Bytes → Bool) (dt k : DT) (pv : PV) (v : KV)
    (h : kindOf valid dt pv = .ok (k, v)) : k = dt := by
  exact kindOf_name valid dt k pv v h

/-- … holding the same value: scalars -/
theorem C10_kind_scalar_same_value (valid : Bytes → Bool) (dt : DT) (t : STy) (v : SV)
    (harm : (kindArm dt).2 = .scalar t) (h : t.holds v = true) :
    kindOf valid dt (toProto t v) = .ok (dt, .scalar v) := by
  refine kindOf_of_runDecoder valid dt _ _ _ harm ?_
  simp [runDecoder, scalar_roundtrip t v h]

/-- … fixed-width arrays -/
theorem C10_kind_array_same_value (valid : Bytes → Bool) (dt : DT) (w : Nat) (l : List Nat)
    (harm : (kindArm dt).2 = .arrW w) (h : ∀ x ∈ l, x < 2 ^ (8 * w)) :
    kindOf valid dt (.bytes (encodeW w l)) = .ok (dt, .arrN l) := by
  refine kindOf_of_runDecoder valid dt _ _ _ harm ?_
  simp [runDecoder, liftDec, decodeW_encodeW w (arrW_width_pos dt w harm) l h]

/-- … boolean arrays, string arrays, raw bytes -/
theorem C10_kind_bool_same_value (valid : Bytes → Bool) (l : List Bool) (h : l.length < 4294967296) :
    kindOf valid .boolarr (.bytes (encodeBool l)) = .ok (.boolarr, .arrB l) := by
  refine kindOf_of_runDecoder valid _ .arrBool _ _ rfl ?_
  simp [runDecoder, liftDec, decodeBool_encodeBool l h]

theorem C10_kind_string_same_value (valid : Bytes → Bool) (l : List Bytes)
    (h : ∀ s ∈ l, valid s = true ∧ (0 : UInt8) ∉ s) :
    kindOf valid .stringarr (.bytes (encodeStr l)) = .ok (.stringarr, .arrS l) := by
  refine kindOf_of_runDecoder valid _ .arrStr _ _ rfl ?_
  simp [runDecoder, liftDec, decodeStr_encodeStr valid l h]

theorem C10_kind_raw_same_value (valid : Bytes → Bool) (dt : DT) (b : Bytes)
    (harm : (kindArm dt).2 = .rawBytes) :
    kindOf valid dt (.bytes b) = .ok (dt, .raw b) := by
  refine kindOf_of_runDecoder valid dt _ _ _ harm ?_
  simp [runDecoder]

/-! ### T-table: the decision table of `MetricValueKind::try_from_metric_value`, regenerated on
every run by executing the freshly compiled crate on all 35 datatypes × a sample of every
metric-value variant (`SradModel/Generated/KindTable.lean`). A change to any match arm makes
one of these two obligations fail at `lake build`. -/

/-- the compiled code and the model's `kindOf` agree on every cell of the table -/
theorem C10_kind_table_matches_model :
    ∀ row ∈ Srad.Generated.kindTable,
      (DT.ofCode row.1).map (fun dt => kindShape (fun _ => true) dt row.2.1) = some row.2.2 := by
  decide +kernel

/-- in the compiled code itself, whenever decoding succeeds the variant is the one named by
the datatype (all 35 datatypes are in the table) -/
theorem C10_kind_table_named_by_datatype :
    (∀ row ∈ Srad.Generated.kindTable,
      (match row.2.2 with | KShape.ok k => decide (k = row.1) | _ => true) = true) ∧
    ((Srad.Generated.kindTable.map (·.1)).eraseDups.length = 35) := by
  decide +kernel

/-! ### non-vacuity (tests, not the claim) -/

example : STy.i8.holds (.n 0x80) = true ∧ toProto .i8 (.n 0x80) = .int 0x80 := by decide
example : encodeBool [true, false, true, true, false, false, false, false, true]
    = [9, 0, 0, 0, 0xB0, 0x80] := by decide
example : (decodeBool [8, 0, 0, 0, 0xA5]).res
    = .ok [true, false, true, false, false, true, false, true] := by decide
example : encodeW 2 [0x1234, 0xFFFE] = [0x34, 0x12, 0xFE, 0xFF] := by decide
example : (kindArm .text).2 = .scalar .string ∧ (kindArm .int16arr).2 = .arrW 2 := by decide

end Srad.Codec
