/-
C14 (host-actor half) — an NBIRTH that is not strictly newer never replaces the applied one or
rewinds the expected sequence; an invalid payload leaves all state untouched apart from the
rebirth request it triggers when so configured; every NBIRTH that IS strictly newer is shown to
the node's store, exactly once, whatever the host holds for the node (D16: also a rebirth that
keeps the bdSeq while the node is held birthed). (The per-verb validation rules are in
`Props/C14.lean`.) Helper lemmas: `SradModel/Proofs/Host.lean`.
-/
import SradModel.Proofs.Host

namespace Srad.Host

/-- a replayed or older NBIRTH changes nothing and reaches no store -/
theorem C14_stale_nbirth_ignored (c : Cfg) (s : St) (ts bd id : Nat) (ans : Ans) (now wall : Nat)
    (h : ts ≤ s.birthTs) :
    step c s (.nbirth ts bd id ans) now wall = (s, []) := by
  simp [step, handleBirth, h]

/-- **every strictly newer NBIRTH is shown to the node's store, exactly once** — in every state
(stale or birthed, same bdSeq or another, anything buffered, any timer), for every configuration
and clock: the step's first effect is the store call `nodeBirth id b` for this very message, its
flag says whether the store accepted (`b = (ans = ok)`), and no other `nodeBirth` effect, for
this or any other id, follows in the step. With `C14_stale_nbirth_ignored`: an NBIRTH reaches
the store iff `s.birthTs < ts`. -/
theorem C14_accepted_nbirth_always_notifies_store (c : Cfg) (s : St) (ts bd id : Nat) (ans : Ans)
    (now wall : Nat) (hnew : s.birthTs < ts) :
    ∃ rest, (step c s (.nbirth ts bd id ans) now wall).2
        = Eff.nodeBirth id (decide (ans = .ok)) :: rest ∧
      ∀ id' b, Eff.nodeBirth id' b ∉ rest := by
  simp only [step]
  rcases handleBirth_cases c s ts bd id ans now wall with ⟨h, _⟩ | ⟨_, hrej, he⟩ | ⟨_, hok, he⟩
  · omega
  · rw [he]
    refine ⟨(issueRebirth c s .invalidPayload now wall).2, by simp [hrej], fun id' b hm => ?_⟩
    have := issueRebirth_staleish c s .invalidPayload now wall _ hm
    simp [Eff.staleish] at this
  · rw [he]
    refine ⟨(cancelTimer s).2 ++
        (s.devices.filter fun d => d.2 == Life.birthed).map fun d => Eff.devStale d.1, by simp [hok],
      fun id' b hm => ?_⟩
    rcases List.mem_append.mp hm with hm | hm
    · have := cancelTimer_snd s _ hm; cases this
    · obtain ⟨x, _, hx⟩ := List.mem_map.mp hm; cases hx

/-- the host's record adopts a strictly newer NBIRTH exactly when the store accepted it: then the
node is held birthed under the new timestamp and bdSeq; otherwise timestamp and bdSeq of the
applied birth stay (and the rejection raises `invalidPayload`, `C07_trigger_store_rejects_node_birth`) -/
theorem C14_nbirth_adopted_iff_store_accepts (c : Cfg) (s : St) (ts bd id : Nat) (ans : Ans)
    (now wall : Nat) (hnew : s.birthTs < ts) :
    (ans = .ok → (step c s (.nbirth ts bd id ans) now wall).1.life = .birthed ∧
        (step c s (.nbirth ts bd id ans) now wall).1.birthTs = ts ∧
        (step c s (.nbirth ts bd id ans) now wall).1.bdseq = bd) ∧
    (ans ≠ .ok → (step c s (.nbirth ts bd id ans) now wall).1.birthTs = s.birthTs ∧
        (step c s (.nbirth ts bd id ans) now wall).1.bdseq = s.bdseq) := by
  simp only [step]
  rcases handleBirth_cases c s ts bd id ans now wall with ⟨h, _⟩ | ⟨_, hrej, he⟩ | ⟨_, hok, he⟩
  · omega
  · rw [he]
    exact ⟨fun h => absurd h hrej, fun _ => issueRebirth_fields c s .invalidPayload now wall⟩
  · rw [he]
    exact ⟨fun _ => ⟨rfl, rfl, rfl⟩, fun h => absurd hok h⟩

/-- an invalid payload with the switch off changes nothing at all -/
theorem C14_invalid_payload_frame_off (c : Cfg) (a : App) (n now wall : Nat)
    (h : c.invalidPayload = false) :
    appStep c a (.invalidPayload n) now wall = (a, []) := by
  exact appStep_invalid_off c a n now wall h

/-- with the switch on, the only thing that happens is the rebirth request to that node's actor
(creating the actor if the node was unknown); no other node is touched and no store receives
data or a birth -/
theorem C14_invalid_payload_frame_on (c : Cfg) (a : App) (n now wall : Nat)
    (h : c.invalidPayload = true) :
    (∀ m, m ≠ n → findNode m (appStep c a (.invalidPayload n) now wall).1.nodes = findNode m a.nodes) ∧
    (∀ e ∈ (appStep c a (.invalidPayload n) now wall).2,
        e = AppEff.nodeCreated n ∨ e = AppEff.node n Eff.ncmd ∨ e = AppEff.node n Eff.nodeStale ∨
        e = AppEff.node n Eff.timerCancel ∨ ∃ d, e = AppEff.node n (Eff.devStale d)) ∧
    (appStep c a (.invalidPayload n) now wall).1.nodes.map Prod.fst
        = (if (findNode n a.nodes).isSome then a.nodes.map Prod.fst else a.nodes.map Prod.fst ++ [n]) := by
  exact appStep_invalid_on c a n now wall h

/-- messages for one node never touch another node's actor -/
theorem C14_nodes_do_not_interfere (c : Cfg) (a : App) (n m : Nat) (i : In) (now wall : Nat)
    (h : m ≠ n) :
    findNode m (appStep c a (.node n i) now wall).1.nodes = findNode m a.nodes := by
  exact appStep_node_find_ne c a n m i now wall h

/-! ### non-vacuity (D16): a rebirth NBIRTH — same bdSeq, newer timestamp — for a node the host
holds birthed reaches the store (it may define a different metric set); a rejected one is shown
to the store too and answered with a rebirth request; a replay of the applied NBIRTH is not -/
example :
    let c : Cfg := { exampleCfg (some 100) 0 with invalidPayload := true }
    let s0 := (step c init (.nbirth 10 3 1 .ok) 10 10).1
    (step c s0 (.nbirth 20 3 2 .ok) 20 20).2 = [.nodeBirth 2 true] ∧
    (step c s0 (.nbirth 20 3 2 .unknownMetric) 20 20).2 = [.nodeBirth 2 false, .nodeStale, .ncmd] ∧
    (step c s0 (.nbirth 10 3 1 .ok) 20 20).2 = [] := by decide

/-- … and the devices held birthed are told they are stale, the armed reorder timer is cancelled -/
example :
    let c := exampleCfg (some 100) 0
    (run c init [⟨.nbirth 10 3 1 .ok, 10, 10⟩, ⟨.rmsg 1 11 (.dbirth 7 2 .ok), 11, 11⟩,
                 ⟨.rmsg 3 13 (.ndata 4 .ok), 12, 12⟩, ⟨.nbirth 20 3 5 .ok, 20, 20⟩]).2
      = [.nodeBirth 1 true, .devCreated 7, .devBirth 7 2 true, .timerStart,
         .nodeBirth 5 true, .timerCancel, .devStale 7] := by decide

end Srad.Host
