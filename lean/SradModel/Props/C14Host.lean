/-
C14 (host-actor half) — an NBIRTH that is not strictly newer never replaces the applied one or
rewinds the expected sequence; an invalid payload leaves all state untouched apart from the
rebirth request it triggers when so configured. (The per-verb validation rules are in
`Props/C14.lean`.) Helper lemmas: `SradModel/Proofs/Host.lean`.
-/
import SradModel.Proofs.Host

namespace Srad.Host

/-- a replayed or older NBIRTH changes nothing and reaches no store -/
theorem C14_stale_nbirth_ignored (c : Cfg) (s : St) (ts bd id : Nat) (ans : Ans) (now wall : Nat)
    (h : ts ≤ s.birthTs) :
    step c s (.nbirth ts bd id ans) now wall = (s, []) := by
  simp [step, handleBirth, h]

/-- an invalid payload with the switch off changes nothing at all -/
theorem C14_invalid_payload_frame_off (c : Cfg) (a : App) (n now wall : Nat)
    (h : c.invalidPayload = false) :
    appStep c a (.invalidPayload n) now wall = (a, []) := by
  exact appStep_invalid_off c a n now wall h

/-- with the switch on, the only thing that happens is the rebirth request to that node's actor
(creating the actor if the node was unknown); no other node is touched and no store receives
data or a birth -/
theorem C14_invalid_payload_frame_on (c : Cfg) (a : App) (n now wall : Nat)
    (h : c.invalidPayload = true) :
    (∀ m, m ≠ n → findNode m (appStep c a (.invalidPayload n) now wall).1.nodes = findNode m a.nodes) ∧
    (∀ e ∈ (appStep c a (.invalidPayload n) now wall).2,
        e = AppEff.nodeCreated n ∨ e = AppEff.node n Eff.ncmd ∨ e = AppEff.node n Eff.nodeStale ∨
        e = AppEff.node n Eff.timerCancel ∨ ∃ d, e = AppEff.node n (Eff.devStale d)) ∧
    (appStep c a (.invalidPayload n) now wall).1.nodes.map Prod.fst
        = (if (findNode n a.nodes).isSome then a.nodes.map Prod.fst else a.nodes.map Prod.fst ++ [n]) := by
  exact appStep_invalid_on c a n now wall h

/-- messages for one node never touch another node's actor -/
theorem C14_nodes_do_not_interfere (c : Cfg) (a : App) (n m : Nat) (i : In) (now wall : Nat)
    (h : m ≠ n) :
    findNode m (appStep c a (.node n i) now wall).1.nodes = findNode m a.nodes := by
  exact appStep_node_find_ne c a n m i now wall h

end Srad.Host
