/-
C16 (concurrent half) — the host's STATE certificate and will under every schedule.
Property theorems only (helper lemmas: `SradModel/Proofs/HostLoopLts.lean`; the scanners are
defined in `SradModel/Model/HostLoopLtsSpec.lean`).

Setting. `Model/HostLoopLts` is the event loop of `srad-app/src/eventloop.rs` as a labelled
transition system: the event-loop task takes one ready `select!` branch per step, every spawned
session / answer task makes one client call per step, every `AppClient::cancel()` is a task of
three steps; the client accepts, rejects or parks each call (a step parameter) and resolves parked
calls whenever it likes; events, cancels, clock settings and time arrive at any moment.
`Reaches s tr` = state `s` is reached with observation trace `tr` by construction at some clock
reading followed by ANY list of such actions. All theorems are for every `Reaches s tr`, i.e. for
all interleavings, all client decisions, all stimuli, any clock (not even monotone). The subscription
configuration and the host id do not influence the LTS (they only render filters and topics).

The trace contains what the doubles of the harness see (`will`, `sub`, `stateOn`, `stateOff`,
`disc`, `resolved`, `polled`, `event`), echoes of stimuli (`clock`, `cancelReq`) and three ghost
observations for moments no trait object sees (`spawn`, `flagSet`, `dropped`).
-/
import SradModel.Proofs.HostLoopLts

namespace Srad.HostLoopLts
open Srad.HostLoop (Str SubCfg)

/-- **Going offline registers a fresh will before anything else is returned.** In every
execution every will registration carries the clock reading of that very moment (so it differs
from the previous will whenever the clock moved), and every `Offline` that `poll` returns is
directly preceded by such a registration — hence before `poll` returns the next `Online`. This
holds also when the Offline is processed before the session task of the Online before it has
subscribed, published or stored the flag. -/
theorem C16L_fresh_will_on_offline (s : St) (tr : List Obs) (h : Reaches s tr) :
    freshWillOk 0 false tr = true := by
  obtain ⟨now0, acts, o, hr, rfl⟩ := h
  have := fresh_runActs acts (init now0) s true o hr
  simpa [initObs, freshWillOk, init] using this

/-- **Every STATE birth carries the will timestamp captured at its Online.** For every task `k`:
when it is spawned (by the Online that `poll` returns, or by an answered own `{online:false}`) it
captures the timestamp of the will registered at that moment, and every `{online:true}` STATE it
ever hands over — however late, e.g. after its subscribe was parked across a reconnect — carries
exactly that timestamp. -/
theorem C16L_birth_matches_session_will (s : St) (tr : List Obs) (h : Reaches s tr) (k : Nat) :
    birthTsOk k none none tr = true := by
  obtain ⟨now0, acts, o, hr, rfl⟩ := h
  have := ts_runActs k acts (init now0) s o hr
  simpa [initObs, birthTsOk, init, capOf] using this

/-- **The stronger reading fails under back-pressure (negative result).** "Every STATE birth
carries the timestamp of the will registered when it is handed over" is false for some execution:
the client parks the first session's `subscribe_many`, the host goes offline (fresh will 120) and
online again, then the parked call is resolved — the first session publishes `{online:true,
timestamp:100}` on a connection whose registered will carries 120. (The harness reproduces this
schedule on the real code: corpus/hll/stale-session-after-reconnect.json.) -/
theorem C16L_stale_birth_possible :
    ∃ s tr, Reaches s tr ∧ birthIsRegisteredWillOk none tr = false := by
  have h : (runActs (init 100)
      [.stim (.ev .online), .task .loopEvent .acc, .task (.task 0) .park, .stim (.clock 120),
       .stim (.ev .offline), .stim (.ev .online), .task .loopEvent .acc, .task .loopEvent .acc,
       .stim (.resolve 0 true), .task (.task 0) .acc, .task (.task 0) .acc]).any
      (fun r => birthIsRegisteredWillOk none (initObs 100 ++ r.2) == false) = true := by decide
  revert h
  cases hr : runActs (init 100) _ with
  | none => intro h; simp at h
  | some r =>
    intro h
    exact ⟨r.1, initObs 100 ++ r.2, ⟨100, _, r.2, hr, rfl⟩, by simpa using h⟩

/-- **Subscribe before birth.** For every task `k`: a session task hands over `subscribe_many`
first and exactly once, and its STATE birth only after that call has returned (accepted, rejected,
or parked and later resolved) — never before, never while it is parked. Answer tasks do not
subscribe. -/
theorem C16L_subscribe_before_birth (s : St) (tr : List Obs) (h : Reaches s tr) (k : Nat) :
    subBeforeBirthOk k .unborn tr = true := by
  obtain ⟨now0, acts, o, hr, rfl⟩ := h
  have := sbb_runActs k acts (init now0) s o (by simp [init]) hr
  simpa [initObs, subBeforeBirthOk, init, phaseOf] using this

/-- **An own `{online:false}` STATE is answered iff the birth has gone out.** Reading the trace
with `flag` = "a session task has stored `published_online_state` and no will has been registered
since": every poll of an own `{online:false}` STATE is followed at once by the spawn of an answer
task carrying the registered will's timestamp if `flag` holds (by `dropped` if the loop is inside
the shutdown drain), and by no spawn if it does not; an answer task is never spawned otherwise.
(By `C16L_birth_matches_session_will` the answer then publishes exactly that timestamp.) -/
theorem C16L_own_offline_answered_iff_published (s : St) (tr : List Obs) (h : Reaches s tr) :
    ownOffOk false 0 false tr = true := by
  obtain ⟨now0, acts, o, hr, rfl⟩ := h
  have := own_runActs acts (init now0) s o hr
  simpa [initObs, ownOffOk, init] using this

/-- **"Its birth has gone out".** For every task `k`: `published_online_state` is stored by the
task (`flagSet k`) only after its STATE birth has been handed over and has returned — accepted,
rejected (the code ignores the result) or parked and later resolved; never while it is parked.
Together with `C16L_own_offline_answered_iff_published`: an own `{online:false}` is answered only
once some session's birth has gone out and no Offline has been processed since. -/
theorem C16L_flag_only_after_birth_returned (s : St) (tr : List Obs) (h : Reaches s tr) (k : Nat) :
    flagAfterBirthOk k .notYet tr = true := by
  obtain ⟨now0, acts, o, hr, rfl⟩ := h
  have := fab_runActs k acts (init now0) s o hr
  simpa [initObs, flagAfterBirthOk, init, bphaseOf] using this

/-- **Cancel publishes `{online:false}` and disconnects.** In every execution every offline
STATE belongs to a requested cancel, is a `try_` publish (never parks) and carries the clock
reading of that moment; every disconnect follows the offline STATE of its cancel and never parks;
and the numbers add up: cancels requested = offline STATEs handed over + cancel tasks that have
not started, offline STATEs = disconnects + cancel tasks between the two (waiting for the
capacity-1 shutdown channel or about to disconnect). When no cancel task is left, every cancel has
published its offline STATE and disconnected. -/
theorem C16L_cancel_offline_then_disconnect (s : St) (tr : List Obs) (h : Reaches s tr) :
    cancelOk 0 0 0 tr = true ∧
    nStateOff tr + s.cStart = nCancelReq tr ∧
    nDisc tr + s.cSend + s.cDisc = nStateOff tr := by
  obtain ⟨now0, acts, o, hr, rfl⟩ := h
  have h1 := cancel_runActs acts (init now0) s o hr
  have h2 := counts_runActs acts (init now0) s o hr
  have e1 : nStateOff (initObs now0 ++ o) = nStateOff o := by
    simp [nStateOff, initObs, Obs.isStateOff]
  have e2 : nCancelReq (initObs now0 ++ o) = nCancelReq o := by
    simp [nCancelReq, initObs, Obs.isCancelReq]
  have e3 : nDisc (initObs now0 ++ o) = nDisc o := by
    simp [nDisc, initObs, Obs.isDisc]
  have h3 : (init now0).cStart = 0 ∧ (init now0).cSend = 0 ∧ (init now0).cDisc = 0 := ⟨rfl, rfl, rfl⟩
  obtain ⟨h4, h5, h6⟩ := h3
  rw [h4, h5, h6] at h2
  refine ⟨by simpa [initObs, cancelOk, init] using h1, ?_, ?_⟩
  · rw [e1, e2]; omega
  · rw [e1, e3]; omega

/-- **Quiescent delivery under the accept-all client is the sequential model.** From every
quiescent LTS state (`QS`: nothing queued, every task finished, no cancel in flight) and for every
input of `Model/HostLoop` (an event, `cancel`, the 1 s timeout) with its clock reading — except a
third `cancel` while two are outstanding, which the sequential model does not follow — the
schedule `sched` (clock, the input, the loop, then the spawned task / the cancel task, every call
accepted) runs, ends in a state that is again quiescent (`QS`, and no task of the LTS is enabled),
and its observations are exactly what `HostLoop.step` computes: same abstract state, same effects
(`effs`), same returned `AppEvent`s (`rets`). -/
theorem C16L_quiescent_refines_sequential (cfg : SubCfg) (host : Str) (s : St) (hq : QS s)
    (i : HostLoop.In) (now : Nat)
    (hi : ¬ (i = .cancel ∧ s.drain.isSome = true ∧ s.shut = true)) :
    acceptAll (sched host s i now) = true ∧
    ∃ s' o, runActs s (sched host s i now) = some (s', o) ∧ QS s' ∧ quiescent s' = true ∧
      HostLoop.step cfg host (absSt s) i now = (absSt s', effs cfg host o, rets o) := by
  refine ⟨sched_acceptAll host s i now, ?_⟩
  have h := refine_step cfg host s hq i now hi
  unfold RefOk at h
  split at h
  · exact h.elim
  rename_i s' o hr
  exact ⟨s', o, hr, h.1, qs_quiescent h.1, h.2⟩

/-- **Every history of the sequential model is an execution of the LTS** (so the C16 theorems
about `HostLoop.history` speak about real schedules): for a valid host id and any list of steps
without a third outstanding cancel there is a reachable, quiescent LTS state whose trace projects
to exactly the history's effects and returned events, with every client decision "accept". -/
theorem C16L_sequential_histories_are_executions (cfg : SubCfg) (host : Str) (now0 : Nat)
    (steps : List HostLoop.Step) (hv : HostLoop.validName host = true)
    (hn : noThirdCancel cfg host { willTs := now0 } steps) :
    ∃ s tr, Reaches s tr ∧ quiescent s = true ∧
      HostLoop.history cfg host now0 steps = some (absSt s, effs cfg host tr, rets tr) := by
  obtain ⟨acts, s', o, hr, -, hq, he⟩ := refine_exec cfg host steps (init now0) (qs_init now0) (by
    simpa [absSt, init] using hn)
  refine ⟨s', initObs now0 ++ o, ⟨now0, acts, o, hr, rfl⟩, qs_quiescent hq, ?_⟩
  have ha : absSt (init now0) = { willTs := now0 } := by simp [absSt, init]
  rw [ha] at he
  simp [HostLoop.history, HostLoop.new, HostLoop.updateLastWill, hv, he, effs, rets, initObs, effOf, retOf,
    List.filterMap_cons]

/-! ### non-vacuity (tests, not the claim) -/

/-- Online and Offline queued back to back: the loop handles both before the session task runs.
The will is refreshed (110) although no birth had gone out; the birth then goes out with the
timestamp captured at its Online (100) and the flag is stored while the host is offline. -/
example :
    runActs (init 100)
      [.stim (.clock 110), .stim (.ev .online), .stim (.ev .offline), .task .loopEvent .acc,
       .task .loopEvent .acc, .task (.task 0) .acc, .task (.task 0) .acc, .task (.task 0) .acc]
    = some ({ online := false, willTs := 110, flag := true, now := 110, nCalls := 2, tasks := [{ session := true, ts := 100, pc := .done }] },
        [.clock 110, .polled .online, .spawn 0 true 100, .event .online, .polled .offline, .will 110,
         .event .offline, .sub 0 0 .acc, .stateOn 0 1 100 .acc, .flagSet 0]) := by decide

/-- a parked subscribe across a reconnect, the stale birth, an answered own offline STATE with a
rejected publish, a cancel while online, an own offline STATE dropped by the drain, the timeout -/
example :
    (runActs (init 100)
      [.stim (.ev .online), .task .loopEvent .acc, .task (.task 0) .park, .stim (.clock 120),
       .stim (.ev .offline), .stim (.ev .online), .task .loopEvent .acc, .task .loopEvent .acc,
       .stim (.resolve 0 true), .task (.task 0) .acc, .task (.task 0) .acc, .task (.task 0) .acc,
       .stim (.ev (.state true false)), .task .loopEvent .acc, .task (.task 2) .rej,
       .stim .cancel, .task .cancelStart .acc, .task .cancelSend .acc, .task .loopShutdown .acc,
       .task .cancelDisc .acc, .stim (.ev (.state true false)), .task .loopEvent .acc,
       .stim (.adv 1000), .task .loopTimeout .acc]).map (·.2)
    = some [.polled .online, .spawn 0 true 100, .event .online, .sub 0 0 .park, .clock 120,
        .polled .offline, .will 120, .event .offline, .polled .online, .spawn 1 true 120, .event .online,
        .resolved 0 true, .stateOn 0 1 100 .acc, .flagSet 0, .polled (.state true false),
        .spawn 2 false 120, .stateOn 2 2 120 .rej, .cancelReq, .stateOff 3 120 .acc, .disc 4 .acc,
        .polled (.state true false), .dropped, .event .cancelled] := by decide

/-- the scanners are not trivially true: a trace in which Offline is returned without a will
registration (the seeded change to `handle_offline`) is refused, and so are a birth with another
timestamp than the captured one, a birth while the subscribe is parked, an unanswered own offline
STATE with the flag set, and a disconnect without an offline STATE -/
example :
    freshWillOk 0 false [.clock 100, .will 100, .polled .online, .spawn 0 true 100, .event .online,
      .polled .offline, .event .offline] = false ∧
    birthTsOk 0 none none [.will 100, .spawn 0 true 100, .will 110, .stateOn 0 1 110 .acc] = false ∧
    subBeforeBirthOk 0 .unborn [.spawn 0 true 100, .sub 0 0 .park, .stateOn 0 1 100 .acc] = false ∧
    ownOffOk false 0 false [.will 100, .flagSet 0, .polled (.state true false), .polled .junk] = false ∧
    cancelOk 0 0 0 [.cancelReq, .disc 0 .acc] = false ∧
    flagAfterBirthOk 0 .notYet [.spawn 0 true 100, .sub 0 0 .acc, .stateOn 0 1 100 .park, .flagSet 0] = false := by decide

/-- a quiescent state with the loop draining and a second `Shutdown` pending satisfies `QS`
(the hypotheses of the refinement theorem are satisfiable in the drain, too) -/
example : QS { online := true, drain := some 1500, shut := true, vt := 500, horizon := 500 } :=
  qs_mk rfl (by simp) ⟨rfl, rfl, rfl⟩ (by simp) (by simp) (by simp) (by simp)

end Srad.HostLoopLts
