/-
C08, continued — FAULT-FREE SCHEDULES: beyond the one deterministic continuation `settle`.  PARTIAL.

Property theorems only (helper lemmas: `SradModel/Proofs/LoopSched.lean`; executable vocabulary:
`Model/LoopSched.lean`; the earlier theorems: `Props/C08.lean`, `Props/C08Reach.lean`).

The gap left by `C08_convergence_reachable_iff`: "it is NOT a theorem about every fair fault-free
schedule". A FAULT-FREE SCHEDULE is any list of the actions `deliver 0` (FIFO delivery to the host),
`deliverNcmd`, `advance k` (any `k`), `publishNode`, `publishDev d`, `hostConnect`, `nodeConnect`
(`FaultFree`), in any interleaving and multiplicity; reordering (`deliver (k+1)`), `duplicate`, `drop`,
`dropNcmd`, the disconnects and the operator actions `enable` / `disable` / `manualRebirth` are excluded.

What is proved here:
* (G3, full) `C08S_stability`, `C08S_stability_reachable`, `C08S_insync_stays`: from a state that is in
  sync — or only "in sync up to what is still in flight" (`Sys.syncUpTo`) — EVERY fault-free schedule
  keeps the system in sync up to what is in flight; no rebirth is ever requested; delivering what is in
  flight gives the in-sync view again, and the host's effects are exactly the data effects of what was
  in flight and of what the node handed over during the schedule, once each, in hand-over order.
* (G2, full) `C08S_interleave` (any state): any interleaving of publishes with FIFO deliveries flushes
  to the same state as the publishes alone; `C08S_round_order_independent` (every reachable state): a
  settling round whose publishes are interleaved with FIFO deliveries in ANY way is the round of
  `settle` — same state, same effects; `C08S_rounds_are_settle` for sequences of such rounds.
* (G1, partial) `C08S_convergence_schedules_partial`, `C08S_convergence_schedules_iff`,
  `C08S_convergence_all_enabled`: from EVERY reachable state (any fault history), under the same side
  condition (H2) as `C08_convergence_reachable_iff` (and it is still necessary), every schedule of the
  shape  k ≥ 2 generalised rounds ++ ANY fault-free schedule ++ deliver what is in flight  ends with
  the in-sync view, and the whole of it is a fault-free schedule of `Sys.step`. PARTIAL: inside a
  round only the publishing phase is free (publishes × FIFO deliveries); the delivery phases of a
  round keep `settle`'s order (everything in flight first, the clock advances before each NCMD reaches
  the node, a running reorder timeout expires before the publishes). The two theorems below remove
  the round structure after the FIRST round; what stays fixed is that first round's delivery phases
  (they dispose of whatever the faults left in flight, in `settle`'s order) and the expiry of a running
  reorder timeout before anything else. Still missing for "every fair fault-free schedule": arbitrary
  interleavings while messages of the fault history are in flight or while the host is waiting behind
  a gap (timer running).
* (G1, second family, full for its class) `C08S_convergence_stale_host`: from every reachable state
  with both sides connected, nothing in flight towards the host and the host's record STALE (any
  number of NCMDs in flight), EVERY fault-free schedule — deliveries, NCMD deliveries, clock
  advances, publishes in ANY interleaving — in which the clock advances before each NCMD delivery
  (`ticked`), followed by `drain`, one more publish and `drain`, ends with the in-sync view. No round
  structure, no (H2).
* (G1, combined) `C08S_convergence_round_then_any_partial`: from EVERY reachable state with (H2): ONE
  generalised round, the expiry of a running reorder timeout, then ANY fault-free schedule that lets
  the clock tick before each NCMD delivery, `drain`, one publish, `drain` — in sync.
* That some discipline of this kind is NEEDED is shown by `C08S_same_tick_rebirths_out_of_sync`: a
  schedule of fault-free actions only, from the initial state, in which two rebirth NCMDs reach the
  node within one clock reading; after everything is delivered the host is NOT in sync (the second
  NBIRTH carries the timestamp of the first and is ignored, its DBIRTHs are buffered, the reorder
  timer runs) — fault-free schedules are not confluent. (`settle` repairs it, like any reachable state.)
-/
import SradModel.Proofs.LoopSched
import SradModel.Props.C08Reach

namespace Srad.Loop
open Srad Srad.Host

/-! ### (G3) stability under every fault-free schedule -/

/-- **Stability: every fault-free schedule keeps an in-sync system in sync up to what is in flight.**
Take ANY state `s` under the full configuration whose node bookkeeping is consistent (`flagsOk`: a
device flagged as birthed is enabled — a fact of every reachable state) and that is IN SYNC UP TO
WHAT IS IN FLIGHT (`Sys.syncUpTo`: both sides connected, node online and birthed, the host holds the
node birthed with nothing buffered and no timer, holds exactly the enabled devices birthed, no NCMD
in flight, the messages in flight are NDATA / DDATA of enabled devices numbered consecutively from
the number the host expects up to the node's current number and not older than the host's record,
the host's stamps are not in the future). With nothing in flight this is the in-sync view.
Then for EVERY fault-free schedule `σ` — any interleaving of FIFO deliveries, NCMD deliveries, clock
advances of any size, node and device publishes, connects; any length — with `t` the state after `σ`
and `ms` what the node handed over during `σ`:
(1) `t` is again in sync up to what is in flight, and its node bookkeeping is consistent;
(2) `ms` consists of NDATA / DDATA only: no birth, no death — no rebirth happened;
(3) delivering what is in flight (`drain`, which here is a plain FIFO `flush`: no NCMD is ever in
    flight) gives the IN-SYNC VIEW;
(4) the host's effects from `s` to there are EXACTLY the data effects of the messages that were in
    flight in `s` followed by those of `ms`: every publish applied once, in hand-over order, and
    nothing else (no staleness, no NCMD, no timer). -/
theorem C08S_stability (d : Nat) (s : Sys) (σ : List Action)
    (hcfg : s.cfg = Sys.fullCfg d) (hflags : Sys.flagsOk s = true) (hsync : Sys.syncUpTo s = true)
    (hff : FaultFree σ = true) :
    let t := s.run σ
    let ms := t.sent.drop s.sent.length
    Sys.syncUpTo t = true ∧ Sys.flagsOk t = true ∧ t.sent = s.sent ++ ms ∧
    (∀ m ∈ ms, (Msg.dataShape m).isSome = true) ∧
    Sys.drain t = Sys.flush t ∧ Sys.InSyncView (Sys.drain t) = true ∧
    (Sys.drain t).effs = s.effs ++ (s.toHost ++ ms).filterMap Msg.dataEff ∧
    (Sys.drain t).sent = t.sent :=
  (upTo_of_b d s hcfg hflags hsync).sched σ hff

/-- **Stability from every reachable in-sync state.** After ANY action sequence (any faults) from the
initial system under the full configuration: if the state reached has the in-sync view, then every
fault-free schedule `σ` keeps it in sync up to what is in flight, hands over data messages only, and
delivering what is in flight gives the in-sync view again with exactly the schedule's publishes
applied, once each, in order. Every other hypothesis of `C08S_stability` is discharged by reachability. -/
theorem C08S_stability_reachable (d : Nat) (devs : List Dev) (acts σ : List Action)
    (hnames : (devs.map (·.name)).Nodup) (hflags : ∀ x ∈ devs, x.flag = false) :
    let s := (Sys.init (Sys.fullCfg d) devs).run acts
    Sys.InSyncView s = true → FaultFree σ = true →
    let t := s.run σ
    let ms := t.sent.drop s.sent.length
    Sys.syncUpTo t = true ∧ t.sent = s.sent ++ ms ∧ (∀ m ∈ ms, (Msg.dataShape m).isSome = true) ∧
    Sys.InSyncView (Sys.drain t) = true ∧
    (Sys.drain t).effs = s.effs ++ ms.filterMap Msg.dataEff := by
  intro s hv hff t ms
  have hu := (reach_run d devs acts hnames hflags).upTo hv
  obtain ⟨a1, _, a3, a4, _, a6, a7, _⟩ := hu.sched σ hff
  have he : s.toHost = [] := by
    simp only [Sys.InSyncView, Bool.and_eq_true, List.isEmpty_iff] at hv
    exact hv.1.2
  rw [he, List.nil_append] at a7
  exact ⟨a1, a3, a4, a6, a7⟩

/-- `InSync` is the in-sync view plus the clause about the last round's effects. -/
theorem C08S_inSync_is_view_and_last (s : Sys) (last : List Eff) :
    Sys.InSync s last = (Sys.InSyncView s && Sys.lastRoundIs s last) := rfl

/-- **`InSync` keeps holding under every fault-free schedule** (the "keeps holding" half of the
property, for arbitrary schedules): from a state that is `InSync` (for any `last`) with the host's
stamps not in the future, under the full configuration with consistent node bookkeeping, after every
fault-free schedule `σ` and the delivery of what is in flight the in-sync view holds again. -/
theorem C08S_insync_stays (d : Nat) (s : Sys) (last : List Eff) (σ : List Action)
    (hcfg : s.cfg = Sys.fullCfg d) (hflags : Sys.flagsOk s = true) (hclock : Coherent s.host s.clock)
    (hsync : Sys.InSync s last = true) (hff : FaultFree σ = true) :
    Sys.syncUpTo (s.run σ) = true ∧ Sys.InSyncView (Sys.drain (s.run σ)) = true := by
  have hb := syncUpTo_of_view s hclock (inSync_view s last hsync)
  obtain ⟨a1, _, _, _, _, a6, _⟩ := C08S_stability d s σ hcfg hflags hb hff
  exact ⟨a1, a6⟩

/-! ### (G2) order-independence inside a round -/

/-- **Publishes and FIFO deliveries commute.** In ANY state, for any schedule `σ` made of publishes
(`publishNode`, `publishDev d`) and FIFO deliveries (`deliver 0`) in any interleaving: delivering
what is still in flight after `σ` gives the same state as performing only the publishes of `σ` (in
their order) and then delivering everything — node, host record, effects, NCMDs requested, ghost
history, all fields equal. (A delivery may happen between two publishes, or before all of them when
something is in flight already, or not at all.) -/
theorem C08S_interleave (s : Sys) (σ : List Action) (h : σ.all Action.isPubDel = true) :
    Sys.flush (s.run σ) = Sys.flush (s.run (σ.filter Action.isPub)) :=
  flush_interleave σ s h

/-- **Order-independence inside a round, from every reachable state.** After ANY action sequence from
the initial system under the full configuration, with fewer than 255 devices enabled: let `σ` be ANY
interleaving of the round's publishes (node metric, then each enabled device) with any number of FIFO
deliveries at any positions (`Sys.roundOk`). Then the generalised round `gRound σ` — delivery phases,
clock tick, `σ`, deliver what is in flight — ends in the SAME state as `settle`'s round (all publishes
first, then all deliveries) and returns the same effects. No hypothesis about the host's record or
about what is in flight. -/
theorem C08S_round_order_independent (d : Nat) (devs : List Dev) (acts σ : List Action)
    (hnames : (devs.map (·.name)).Nodup) (hflags : ∀ x ∈ devs, x.flag = false) :
    let s := (Sys.init (Sys.fullCfg d) devs).run acts
    s.node.enabledNames.length < 255 → Sys.roundOk s σ = true →
    Sys.gRound σ s = Sys.round s := by
  intro s hfew hok
  exact gRound_eq_round d s (reach_run d devs acts hnames hflags) hfew σ hok

/-- … and for any number of rounds, each with its own interleaving: `gSettle σs = settle #σs`. -/
theorem C08S_rounds_are_settle (d : Nat) (devs : List Dev) (acts : List Action) (σs : List (List Action))
    (hnames : (devs.map (·.name)).Nodup) (hflags : ∀ x ∈ devs, x.flag = false) :
    let s := (Sys.init (Sys.fullCfg d) devs).run acts
    s.node.enabledNames.length < 255 → Sys.roundsOk σs s = true →
    Sys.gSettle σs s = Sys.settle σs.length s := by
  intro s hfew hok
  exact gSettle_eq_settle d σs s (reach_run d devs acts hnames hflags) hfew hok

/-! ### (G1) convergence for a family of fault-free schedules -/

/-
Full statement aimed at (not proved): "from every reachable state satisfying (H2), EVERY fair
fault-free schedule in which the node goes on publishing ends in sync." Proved instead: the statement
for the schedules  k ≥ 2 generalised rounds ++ any fault-free schedule ++ drain. Missing: freedom
INSIDE the delivery phases of a round (deliveries interleaved with clock advances and NCMD
deliveries); `C08S_same_tick_rebirths_out_of_sync` shows that not every interleaving there works.
-/

/-- **Convergence for generalised schedules (sufficient condition, checkable).**
After ANY action sequence (any faults) from the initial system under the full configuration, with
fewer than 255 devices enabled, assume (H2) for the record left by the delivery phases of the first
round (`Sys.quiesce s` = `Sys.firstPhase s`): it is not "in step while holding a device birthed that
the node has not enabled". Let `σs` be `k ≥ 2` round schedules, each an arbitrary interleaving of its
round's publishes with FIFO deliveries (`Sys.roundsOk`, a `Bool`), and `τ` ANY fault-free schedule.
Then
(1) after the rounds the system is `InSync`;
(2) after `τ` it is in sync up to what is in flight; what the node handed over during `τ` is data only;
(3) after delivering what is in flight the in-sync view holds, and the host's effects since the end
    of the rounds are exactly the data effects of what the node handed over during `τ`;
(4) the whole — rounds, `τ`, final delivery — is a run of `Sys.step` over a fault-free schedule. -/
theorem C08S_convergence_schedules_partial (d : Nat) (devs : List Dev) (acts : List Action)
    (σs : List (List Action)) (τ : List Action)
    (hnames : (devs.map (·.name)).Nodup) (hflags : ∀ x ∈ devs, x.flag = false) :
    let s := (Sys.init (Sys.fullCfg d) devs).run acts
    s.node.enabledNames.length < 255 →
    (InStep (Sys.quiesce s).host (Sys.quiesce s).node → DevsBelow (Sys.quiesce s).host (Sys.quiesce s).node) →
    Sys.roundsOk σs s = true → 2 ≤ σs.length → FaultFree τ = true →
    let g := (Sys.gSettle σs s).1
    let t := g.run τ
    let ms := t.sent.drop g.sent.length
    Sys.InSync g (Sys.gSettle σs s).2 = true ∧
    Sys.syncUpTo t = true ∧ (∀ m ∈ ms, (Msg.dataShape m).isSome = true) ∧
    Sys.InSyncView (Sys.drain t) = true ∧
    (Sys.drain t).effs = g.effs ++ ms.filterMap Msg.dataEff ∧
    (∃ sched, FaultFree sched = true ∧ s.run sched = Sys.drain t) := by
  intro s hfew hb hok hlen hff g t ms
  have hr := reach_run d devs acts hnames hflags
  have heq : Sys.gSettle σs s = Sys.settle σs.length s := gSettle_eq_settle d σs s hr hfew hok
  obtain ⟨k, hk⟩ : ∃ k, σs.length = k + 2 := ⟨σs.length - 2, by omega⟩
  have hsync : Sys.InSync g (Sys.gSettle σs s).2 = true := by
    show Sys.InSync (Sys.gSettle σs s).1 (Sys.gSettle σs s).2 = true
    rw [heq, hk]
    exact (C08_convergence_reachable_iff d devs acts hnames hflags hfew).2 hb k
  have hrg : Reach d g := by
    show Reach d (Sys.gSettle σs s).1
    rw [heq]; exact hr.steps (settle_steps _ s)
  have hv := inSync_view g _ hsync
  have hu := hrg.upTo hv
  obtain ⟨a1, _, _, a4, _, a6, a7, _⟩ := hu.sched τ hff
  have he : g.toHost = [] := by
    simp only [Sys.InSyncView, Bool.and_eq_true, List.isEmpty_iff] at hv
    exact hv.1.2
  rw [he, List.nil_append] at a7
  exact ⟨hsync, a1, a4, a6, a7,
    ((gSettle_frun σs s hok).trans ((FRun.of_run g τ hff).trans (drain_frun _)))⟩

/-- **One generalised round: in sync, or the reorder timer is running.** From every reachable state
with fewer than 255 devices enabled and (H2), after ONE generalised round (any interleaving of its
publishes with FIFO deliveries) exactly one of two things holds: (a) the system has the in-sync view
and is in sync up to (nothing) in flight — so `C08S_stability` applies from here: EVERY fault-free
schedule keeps it so; or (b) everything is quiet (both sides connected, nothing in flight in either
direction) but the host, birthed, is waiting behind a gap with its reorder timer running — the
timeout has to expire (the timer phase of the next round) before the rebirth that repairs it. -/
theorem C08S_one_round (d : Nat) (devs : List Dev) (acts σ : List Action)
    (hnames : (devs.map (·.name)).Nodup) (hflags : ∀ x ∈ devs, x.flag = false) :
    let s := (Sys.init (Sys.fullCfg d) devs).run acts
    s.node.enabledNames.length < 255 →
    (InStep (Sys.quiesce s).host (Sys.quiesce s).node → DevsBelow (Sys.quiesce s).host (Sys.quiesce s).node) →
    Sys.roundOk s σ = true →
    let g := (Sys.gRound σ s).1
    (Sys.InSyncView g = true ∧ Sys.syncUpTo g = true ∧ Sys.flagsOk g = true) ∨
    ((g.nodeConn = true ∧ g.hostConn = true) ∧ (g.toHost = [] ∧ g.toNode = 0) ∧
      g.host.life = .birthed ∧ ∃ dl, g.host.timer = .armed dl) := by
  intro s hfew hb hok g
  have hr := reach_run d devs acts hnames hflags
  have hg : g = (Sys.round s).1 := by
    show (Sys.gRound σ s).1 = _
    rw [gRound_eq_round d s hr hfew σ hok]
  have hset := round_reach d s hr hfew hb
  rw [← hg] at hset
  rcases hset.host with hs | ha
  · left
    have hu := hs.upTo hset.quiet hset.toNode
    exact ⟨hu.view hset.quiet.flight, hu.b, hu.flagsB⟩
  · right
    obtain ⟨dl, hdl⟩ := ha.armed
    exact ⟨⟨hset.quiet.nodeConn, hset.quiet.hostConn⟩, ⟨hset.quiet.flight, hset.toNode⟩, ha.life, dl, hdl⟩

/-- the canonical round schedule (`settle`'s own order) is a valid round schedule -/
theorem C08S_settle_order_ok (s : Sys) : Sys.roundOk s s.roundPubs = true := by
  have h1 : s.roundPubs.all Action.isPub = true := by
    simp [Sys.roundPubs, Action.isPub, List.all_map]
  have h2 : s.roundPubs.all Action.isPubDel = true := by
    simp [Sys.roundPubs, Action.isPubDel, List.all_map]
  simp only [Sys.roundOk, h2, Bool.true_and, decide_eq_true_eq]
  exact List.filter_eq_self.mpr (by simpa [List.all_eq_true] using h1)

/-- **(H2) is exactly the condition, also for generalised rounds.** From every reachable state with
fewer than 255 devices enabled: SOME non-empty sequence of generalised rounds ends `InSync` if and
only if (H2) holds for the record left by the first delivery phases — and then EVERY sequence of at
least two generalised rounds does. -/
theorem C08S_convergence_schedules_iff (d : Nat) (devs : List Dev) (acts : List Action)
    (hnames : (devs.map (·.name)).Nodup) (hflags : ∀ x ∈ devs, x.flag = false) :
    let s := (Sys.init (Sys.fullCfg d) devs).run acts
    s.node.enabledNames.length < 255 →
    ((∃ σs, σs ≠ [] ∧ Sys.roundsOk σs s = true ∧
        Sys.InSync (Sys.gSettle σs s).1 (Sys.gSettle σs s).2 = true) ↔
      (InStep (Sys.quiesce s).host (Sys.quiesce s).node → DevsBelow (Sys.quiesce s).host (Sys.quiesce s).node)) := by
  intro s hfew
  have hr := reach_run d devs acts hnames hflags
  have hiff := C08_convergence_reachable_iff d devs acts hnames hflags hfew
  constructor
  · intro ⟨σs, hne, hok, hsync⟩
    rw [gSettle_eq_settle d σs s hr hfew hok] at hsync
    exact hiff.1.mp ⟨σs.length, by cases σs with | nil => exact absurd rfl hne | cons _ _ => simp, hsync⟩
  · intro hb
    refine ⟨[s.roundPubs, (Sys.gRound s.roundPubs s).1.roundPubs], by simp, ?_, ?_⟩
    · simp only [Sys.roundsOk, C08S_settle_order_ok, Bool.and_self]
    · have hok : Sys.roundsOk [s.roundPubs, (Sys.gRound s.roundPubs s).1.roundPubs] s = true := by
        simp only [Sys.roundsOk, C08S_settle_order_ok, Bool.and_self]
      rw [gSettle_eq_settle d _ s hr hfew hok]
      exact hiff.2 hb 0

/-- **No hypothesis at all when no registered device is disabled**: from every reachable state in
which every registered device is enabled (fewer than 255), every sequence of at least two
generalised rounds followed by ANY fault-free schedule and the delivery of what is in flight ends
with the in-sync view. -/
theorem C08S_convergence_all_enabled (d : Nat) (devs : List Dev) (acts : List Action)
    (σs : List (List Action)) (τ : List Action)
    (hnames : (devs.map (·.name)).Nodup) (hflags : ∀ x ∈ devs, x.flag = false) :
    let s := (Sys.init (Sys.fullCfg d) devs).run acts
    (∀ x ∈ s.node.devs, x.enabled = true) → s.node.enabledNames.length < 255 →
    Sys.roundsOk σs s = true → 2 ≤ σs.length → FaultFree τ = true →
    Sys.InSync (Sys.gSettle σs s).1 (Sys.gSettle σs s).2 = true ∧
    Sys.syncUpTo ((Sys.gSettle σs s).1.run τ) = true ∧
    Sys.InSyncView (Sys.drain ((Sys.gSettle σs s).1.run τ)) = true := by
  intro s hall hfew hok hlen hff
  have hb : InStep (Sys.quiesce s).host (Sys.quiesce s).node →
      DevsBelow (Sys.quiesce s).host (Sys.quiesce s).node := by
    intro _
    show DevsBelow (Sys.firstPhase s).host (Sys.firstPhase s).node
    have hst := firstPhase_steps s
    have hdn : DevNames (Sys.firstPhase s) := DevNames_steps hst (DevNames_run acts _ (DevNames_init _ devs))
    refine allEnabled_below _ hdn ?_
    rw [allEnabled_sig, steps_sig hst, ← allEnabled_sig]
    exact hall
  obtain ⟨a1, a2, _, a4, _⟩ :=
    C08S_convergence_schedules_partial d devs acts σs τ hnames hflags hfew hb hok hlen hff
  exact ⟨a1, a2, a4⟩

/-! ### (G1, second family) a stale host record: ANY fault-free interleaving that lets the clock tick -/

/-- **Convergence from a stale host record under arbitrary fault-free interleavings.**
After ANY action sequence (any faults) from the initial system under the full configuration, with
fewer than 255 devices enabled, suppose both sides are connected, nothing is in flight towards the
host, and the host's record of the node is STALE (the host application (re)started, lost its
connection, or gave the node up after a timeout or a death certificate; any number of rebirth NCMDs
may be in flight). Let `σ` be ANY fault-free schedule — FIFO deliveries, NCMD deliveries, clock
advances, node and device publishes, in any interleaving and multiplicity — subject to ONE condition,
`ticked false σ` (a `Bool`): the clock advances (by at least 1) before each delivery of an NCMD to the
node, since the previous one. (Rebirth storms are covered: a stale record answers EVERY data message
with an NCMD, cooldown 0, and every one of them may cause a rebirth, while more publishes and
deliveries go on in between.) Then, with `t` the state after `σ` and `u := drain t` (deliver what is
in flight; for each NCMD still in flight: tick, deliver it, deliver its births):
(1) `u` has the in-sync view — unless the host's record is still stale with nothing in flight in
    either direction, which means that no message reached it (it has nothing to ask a rebirth for);
(2) in either case, after ONE more publish on the node metric and `drain`, the in-sync view holds.
No `settle` round is involved; (H2) is not needed (a stale record holds no device birthed).
`C08S_same_tick_rebirths_out_of_sync` shows that the condition `ticked` cannot simply be dropped. -/
theorem C08S_convergence_stale_host (d : Nat) (devs : List Dev) (acts σ : List Action)
    (hnames : (devs.map (·.name)).Nodup) (hflags : ∀ x ∈ devs, x.flag = false) :
    let s := (Sys.init (Sys.fullCfg d) devs).run acts
    s.node.enabledNames.length < 255 → s.nodeConn = true ∧ s.hostConn = true → s.toHost = [] →
    s.host.life = .stale → FaultFree σ = true → ticked false σ = true →
    let u := Sys.drain (s.run σ)
    (Sys.InSyncView u = true ∨ (u.host.life = .stale ∧ u.toHost = [] ∧ u.toNode = 0)) ∧
    Sys.InSyncView (Sys.drain (u.step .publishNode)) = true := by
  intro s hfew hconn he hst hff htk u
  have hr := reach_run d devs acts hnames hflags
  exact (hr.heal hfew hconn.1 hconn.2 he hst).converges hr σ hff htk

/-- **One generalised round, the reorder timeout, then ANY fault-free interleaving that lets the clock
tick.** From EVERY reachable state (any fault history) with fewer than 255 devices enabled and (H2):
run ONE generalised round (its publishes interleaved with FIFO deliveries in any way, `Sys.roundOk`);
if the host is then waiting behind a gap, let its reorder timeout expire (`timerPhase`: one clock
advance; nothing happens otherwise). From there let `τ` be ANY fault-free schedule in which the clock
advances before each NCMD delivery (`ticked false τ`) — no round structure, any interleaving of
deliveries, NCMD deliveries, clock advances and publishes. Then after `drain` the in-sync view holds,
unless the host's record is stale with nothing in flight (only if `τ` brought it no message); and in
either case one more publish on the node metric and `drain` give the in-sync view.
(Compared with `C08S_convergence_schedules_partial` the second round is replaced by an arbitrary
schedule; what remains fixed is the first round's delivery phases — which dispose of whatever the
faults left in flight — and the expiry of the timeout before anything else happens.) -/
theorem C08S_convergence_round_then_any_partial (d : Nat) (devs : List Dev) (acts σ τ : List Action)
    (hnames : (devs.map (·.name)).Nodup) (hflags : ∀ x ∈ devs, x.flag = false) :
    let s := (Sys.init (Sys.fullCfg d) devs).run acts
    s.node.enabledNames.length < 255 →
    (InStep (Sys.quiesce s).host (Sys.quiesce s).node → DevsBelow (Sys.quiesce s).host (Sys.quiesce s).node) →
    Sys.roundOk s σ = true → FaultFree τ = true → ticked false τ = true →
    let g := Sys.timerPhase (Sys.gRound σ s).1
    let u := Sys.drain (g.run τ)
    (Sys.InSyncView u = true ∨ (u.host.life = .stale ∧ u.toHost = [] ∧ u.toNode = 0)) ∧
    Sys.InSyncView (Sys.drain (u.step .publishNode)) = true ∧
    (∃ sched, FaultFree sched = true ∧ s.run sched = Sys.drain (u.step .publishNode)) := by
  intro s hfew hb hok hff htk g u
  have hr := reach_run d devs acts hnames hflags
  have hg : (Sys.gRound σ s).1 = (Sys.round s).1 := by rw [gRound_eq_round d s hr hfew σ hok]
  have hset := round_reach d s hr hfew hb
  have hfr : FRun s (Sys.drain (u.step .publishNode)) :=
    (gRound_frun σ s (by simp only [Sys.roundOk, Bool.and_eq_true] at hok; exact hok.1)).trans
      ((timerPhase_frun _).trans ((FRun.of_run _ τ hff).trans ((drain_frun _).trans
        ((FRun.step _ _).trans (drain_frun _)))))
  have hrg : Reach d g := by
    show Reach d (Sys.timerPhase (Sys.gRound σ s).1)
    rw [hg]; exact hr.round.steps (timerPhase_steps _)
  have hheal : Heal d g false := by
    show Heal d (Sys.timerPhase (Sys.gRound σ s).1) false
    rw [hg]
    rcases hset.host with hs | ha
    · rw [timerPhase_idle _ hs.track.timer]
      exact hs.heal hset.quiet
    · obtain ⟨t1, _, _⟩ := timerPhase_spec d _ hset.quiet ha
      have hrt : Reach d (Sys.timerPhase (Sys.round s).1) := hr.round.steps (timerPhase_steps _)
      exact hrt.heal t1.node.few t1.nodeConn t1.hostConn t1.flight (timerPhase_stale d _ hset.quiet ha)
  obtain ⟨c1, c2⟩ := hheal.converges hrg τ hff htk
  exact ⟨c1, c2, hfr⟩

/-! ### fault-free schedules are not confluent -/

/-- only fault-free actions, from the initial system: the node connects and its births are delivered
before the host application is connected (lost to it); the host connects; the node publishes NDATA
and DDATA(1), both delivered: the host's record of the node is stale, it answers each with a rebirth
NCMD (cooldown 0): two NCMDs in flight. BOTH reach the node within one clock reading. -/
def exSameTick : List Action :=
  [.nodeConnect, .deliver 0, .deliver 0, .deliver 0, .hostConnect, .advance 1, .publishNode, .publishDev 1,
   .deliver 0, .deliver 0, .deliverNcmd, .deliverNcmd]

/-- the same with one clock tick between the two NCMD deliveries (what `drainNet` does) -/
def exTickBetween : List Action :=
  [.nodeConnect, .deliver 0, .deliver 0, .deliver 0, .hostConnect, .advance 1, .publishNode, .publishDev 1,
   .deliver 0, .deliver 0, .deliverNcmd, .advance 1, .deliverNcmd]

/-- **Not every fault-free schedule ends in sync once everything is delivered — the clock must move
between two rebirths.** `exSameTick` is a fault-free schedule from the initial system (three devices,
two enabled) after which six messages are in flight: NBIRTH(t=2) DBIRTH DBIRTH NBIRTH(t=2) DBIRTH
DBIRTH. Delivered in order (`drain`): the first birth is applied (the host expects 3); the second
NBIRTH has the timestamp of the first and is ignored (`ts ≤ birthTs`); its DBIRTHs (seq 1, 2) are
buffered behind a gap that does not exist and the reorder timer is armed. Nothing is in flight any
more in either direction, yet the host is NOT in sync. With one clock tick between the two NCMD
deliveries (`exTickBetween`) the same deliveries end in sync. And like every reachable state without
session confusion, the out-of-sync state is repaired by `settle` (the timeout fires, a third rebirth).
So the statement "every fault-free schedule followed by delivering what is in flight ends in sync"
is FALSE in the model even from the initial state, and a fairness condition has to let the clock
advance before each rebirth — which the rounds of `settle` / `gSettle` do. -/
theorem C08S_same_tick_rebirths_out_of_sync :
    let s := (Sys.init (Sys.fullCfg 100) exDevs).run exSameTick
    let s' := (Sys.init (Sys.fullCfg 100) exDevs).run exTickBetween
    FaultFree exSameTick = true ∧ s.toHost.length = 6 ∧
    (Sys.drain s).toHost = [] ∧ (Sys.drain s).toNode = 0 ∧
    Sys.InSyncView (Sys.drain s) = false ∧ Sys.syncUpTo (Sys.drain s) = false ∧
    (Sys.drain s).host.timer = .armed 102 ∧ (Sys.drain s).host.reseq.buf.length = 2 ∧
    FaultFree exTickBetween = true ∧ Sys.InSyncView (Sys.drain s') = true ∧
    Sys.InSync (Sys.settle 2 s).1 (Sys.settle 2 s).2 = true := by decide

/-! ### non-vacuity -/

/-- connect both sides and deliver the births: in sync -/
def exSynced : List Action := [.hostConnect, .nodeConnect, .deliver 0, .deliver 0, .deliver 0]

/-- a fault-free schedule that is nothing like `settle`: device 3 publishes before the node metric, the
clock jumps, one delivery, device 1 publishes, a publish on the DISABLED device 2 (nothing happens),
a spurious NCMD delivery and reconnects (nothing happens), … — three messages are left in flight -/
def exBusy : List Action :=
  [.publishDev 3, .publishNode, .advance 5, .deliver 0, .publishDev 1, .publishDev 2, .deliverNcmd,
   .nodeConnect, .publishNode, .deliver 0, .hostConnect, .advance 0, .publishDev 3]

/-- `C08S_stability` / `C08S_stability_reachable`: hypotheses and conclusions on a concrete run; after
`exBusy` the view is NOT in sync (3 messages in flight), it is in sync up to them; after the delivery
it is, and the five publishes were applied in hand-over order -/
example :
    let s := (Sys.init (Sys.fullCfg 100) exDevs).run exSynced
    let t := s.run exBusy
    s.cfg = Sys.fullCfg 100 ∧ Sys.flagsOk s = true ∧ Sys.InSyncView s = true ∧ Sys.syncUpTo s = true ∧
    FaultFree exBusy = true ∧
    t.toHost.length = 3 ∧ Sys.InSyncView t = false ∧ Sys.syncUpTo t = true ∧
    Sys.InSyncView (Sys.drain t) = true ∧
    (Sys.drain t).effs.drop s.effs.length =
      [.devData 3 3, .nodeData 4, .devData 1 5, .nodeData 6, .devData 3 7] := by
  intro s t
  exact ⟨rfl, by decide⟩

/-- `C08S_stability` from a state that is only in sync UP TO what is in flight (two publishes not yet
delivered), and `C08S_insync_stays` from the `InSync` state two rounds of `settle` reach after the
lossy run of `Props/C08.lean` -/
example :
    let s := ((Sys.init (Sys.fullCfg 100) exDevs).run exSynced).run [.publishNode, .publishDev 1]
    let z := (Sys.settle 2 ((Sys.init (Sys.fullCfg 100) exDevs).run exLossy))
    Sys.InSyncView s = false ∧ Sys.syncUpTo s = true ∧ Sys.flagsOk s = true ∧
    Sys.syncUpTo (s.run exBusy) = true ∧ Sys.InSyncView (Sys.drain (s.run exBusy)) = true ∧
    Sys.InSync z.1 z.2 = true ∧ Sys.flagsOk z.1 = true ∧ z.1.host.birthTs ≤ z.1.clock ∧
    z.1.host.staleTs ≤ z.1.clock ∧ Sys.InSyncView (Sys.drain (z.1.run exBusy)) = true := by decide

/-- round schedules that are not `settle`'s: a delivery after the first publish, two after the second
(the second finds nothing to deliver); a delivery before the first publish -/
def exR1 : List Action := [.publishNode, .deliver 0, .publishDev 1, .deliver 0, .deliver 0, .publishDev 3]
def exR2 : List Action := [.deliver 0, .publishNode, .publishDev 1, .deliver 0, .publishDev 3, .deliver 0]

/-- `C08S_interleave` on a state that is NOT in sync (the lossy run: gap, timer armed): the
interleaved run and the publishes-only run differ before the flush (the host has already handled two
messages in one, none in the other) and agree after it -/
example :
    let s := ((Sys.init (Sys.fullCfg 100) exDevs).run exLossy).step (.advance 1)
    let a := s.run exR1
    let b := s.run (exR1.filter Action.isPub)
    exR1.all Action.isPubDel = true ∧ exR1.filter Action.isPub ≠ exR1 ∧
    a.toHost.length = 1 ∧ b.toHost.length = 3 ∧ a.host.reseq ≠ b.host.reseq ∧
    (Sys.flush a).host.reseq = (Sys.flush b).host.reseq ∧ (Sys.flush a).effs = (Sys.flush b).effs ∧
    (Sys.flush a).toNode = (Sys.flush b).toNode ∧ (Sys.flush a).sent = (Sys.flush b).sent := by decide

/-- `C08S_round_order_independent`, `C08S_rounds_are_settle`, `C08S_convergence_schedules_partial`: the
hypotheses hold of the lossy run (not in sync: gap, timer armed) with the round schedules `exR1`,
`exR2` (neither is `settle`'s order) and the tail `exBusy`; the conclusions, evaluated -/
example :
    let s := (Sys.init (Sys.fullCfg 100) exDevs).run exLossy
    let g := (Sys.gSettle [exR1, exR2] s).1
    s.node.enabledNames.length < 255 ∧ Sys.InSync s [] = false ∧
    Sys.roundOk s exR1 = true ∧ exR1 ≠ s.roundPubs ∧
    Sys.roundsOk [exR1, exR2] s = true ∧ exR2 ≠ (Sys.gRound exR1 s).1.roundPubs ∧
    (InStep (Sys.quiesce s).host (Sys.quiesce s).node → DevsBelow (Sys.quiesce s).host (Sys.quiesce s).node) ∧
    FaultFree exBusy = true ∧
    (Sys.gRound exR1 s).2 = (Sys.round s).2 ∧
    Sys.InSync g (Sys.gSettle [exR1, exR2] s).2 = true ∧
    Sys.InSyncView (g.run exBusy) = false ∧ Sys.syncUpTo (g.run exBusy) = true ∧
    Sys.InSyncView (Sys.drain (g.run exBusy)) = true :=
  ⟨by decide, by decide, by decide, by decide, by decide, by decide,
    fun _ => devsBelow_of_all _ _ (by decide), by decide, by decide, by decide, by decide, by decide, by decide⟩

/-- `C08S_convergence_all_enabled`: two devices, both enabled, the lossy run -/
example :
    let s := (Sys.init (Sys.fullCfg 100) [{ name := 1, enabled := true }, { name := 3, enabled := true }]).run exLossy
    (∀ x ∈ s.node.devs, x.enabled = true) ∧ s.node.enabledNames.length < 255 ∧
    Sys.roundsOk [exR1, exR2] s = true ∧ s.host.timer = .armed 102 ∧
    Sys.InSyncView (Sys.drain ((Sys.gSettle [exR1, exR2] s).1.run exBusy)) = true := by decide

/-- one NDATA lost without the host noticing yet (nothing buffered, no timer): the host expects 3,
the node will send 4 -/
def exSilentLoss : List Action :=
  [.hostConnect, .nodeConnect, .deliver 0, .deliver 0, .deliver 0, .publishNode, .drop 0]

/-- `C08S_one_round`, both branches: from the lossy run one generalised round ends in sync (the timer
that was running expired in the round's delivery phases); from the silent loss it ends quiet with the
three publishes buffered behind the gap and the reorder timer running -/
example :
    let a := (Sys.gRound exR1 ((Sys.init (Sys.fullCfg 100) exDevs).run exLossy)).1
    let s := (Sys.init (Sys.fullCfg 100) exDevs).run exSilentLoss
    let b := (Sys.gRound exR1 s).1
    Sys.InSyncView a = true ∧ Sys.syncUpTo a = true ∧
    Sys.roundOk s exR1 = true ∧ s.host.timer = .none ∧ s.host.reseq.buf = [] ∧
    Sys.InSyncView b = false ∧ b.toHost = [] ∧ b.toNode = 0 ∧ b.host.timer = .armed 102 ∧
    b.host.reseq.buf.length = 3 := by decide

/-- the host application connects late: the node's births are lost to it; its record is stale -/
def exLate : List Action := [.nodeConnect, .deliver 0, .deliver 0, .deliver 0, .hostConnect]

/-- a rebirth storm with everything interleaved: two publishes, the first is delivered (NCMD 1), tick,
the NCMD reaches the node (rebirth 1) while DDATA(1) is still in flight; it is delivered to the stale
record (NCMD 2); device 3 publishes; the NBIRTH is delivered; tick; NCMD 2 reaches the node (rebirth
2) while the DBIRTHs of rebirth 1 and a DDATA are still in flight; more publishes and deliveries -/
def exStorm : List Action :=
  [.publishNode, .publishDev 1, .deliver 0, .advance 1, .deliverNcmd, .deliver 0, .publishDev 3, .deliver 0,
   .advance 2, .deliverNcmd, .publishNode, .deliver 0, .deliver 0, .publishDev 1, .advance 0, .deliver 0]

/-- `C08S_convergence_stale_host`: hypotheses and conclusion on the storm (five messages are still in
flight after it; after `drain` the view is in sync); and the other branch: an NCMD-free schedule
leaves the record stale, one publish repairs it -/
example :
    let s := (Sys.init (Sys.fullCfg 100) exDevs).run exLate
    let t := s.run exStorm
    let u' := Sys.drain (s.run [.advance 3, .deliverNcmd])
    s.node.enabledNames.length < 255 ∧ (s.nodeConn = true ∧ s.hostConn = true) ∧ s.toHost = [] ∧
    s.host.life = .stale ∧ FaultFree exStorm = true ∧ ticked false exStorm = true ∧
    t.toHost.length = 5 ∧ Sys.InSyncView t = false ∧ Sys.InSyncView (Sys.drain t) = true ∧
    (Sys.drain t).sent.length = 14 ∧
    Sys.InSyncView u' = false ∧ u'.host.life = .stale ∧
    Sys.InSyncView (Sys.drain (u'.step .publishNode)) = true := by decide

/-- after the round and the timeout: a publish answered by a second NCMD, two rebirths with publishes
and deliveries in between, each NCMD delivery preceded by a clock tick -/
def exAfter : List Action :=
  [.publishDev 3, .deliver 0, .advance 1, .deliverNcmd, .publishNode, .deliver 0, .advance 4, .deliverNcmd,
   .deliver 0, .publishDev 1]

/-- `C08S_convergence_round_then_any_partial`: the silent loss (one round ends with the timer
running); after the timeout the record is stale with one NCMD in flight; `exAfter` leaves six
messages in flight and the view out of sync; `drain` ends in sync -/
example :
    let s := (Sys.init (Sys.fullCfg 100) exDevs).run exSilentLoss
    let g := Sys.timerPhase (Sys.gRound exR1 s).1
    let t := g.run exAfter
    s.node.enabledNames.length < 255 ∧
    (InStep (Sys.quiesce s).host (Sys.quiesce s).node → DevsBelow (Sys.quiesce s).host (Sys.quiesce s).node) ∧
    Sys.roundOk s exR1 = true ∧ FaultFree exAfter = true ∧ ticked false exAfter = true ∧
    g.host.life = .stale ∧ g.toNode = 1 ∧ t.toHost.length = 6 ∧ Sys.InSyncView t = false ∧
    Sys.InSyncView (Sys.drain t) = true ∧
    Sys.InSyncView (Sys.drain ((Sys.drain t).step .publishNode)) = true :=
  ⟨by decide, fun _ => devsBelow_of_all _ _ (by decide), by decide, by decide, by decide, by decide,
    by decide, by decide, by decide, by decide, by decide⟩

end Srad.Loop
