/-
C16 — Host STATE certificate always matches its registered will.
Property theorems only (helper lemmas live in `SradModel/Proofs/HostLoop.lean`).

Setting. `history cfg host now0 steps` is the M10 model of `AppEventLoop::new` at clock reading
`now0` followed by any list of steps; a step is an `Event` handed to `poll` (Online, Offline, a
STATE message of any host, anything else), `AppClient::cancel()`, or one second passing, together
with the `timestamp()` reading of that step (the clock is arbitrary: not even monotone). The
result is the state reached, the flat trace of observable effects (`setWill`, `subscribe`,
`publishState`, `disconnect`) and the `AppEvent`s `poll` returned. `history = none` iff the host
id is invalid (the constructor panics). All theorems are for every subscription configuration
(`AllGroups`, `SingleGroup`, every `Custom` list), every host id and every sequence of steps.
The statements read the *trace* (`lastWill`, `birthOut`, the monitor `Accepted`): none of them
mentions the model's `online` / `published` / `willTs` fields.

Schedule. The model runs the task spawned by `handle_online` to completion inside the step
(a client that accepts calls in order). The race with a client that parks calls is outside C16.
-/
import SradModel.Proofs.HostLoop
import SradModel.Generated.HostLoopTable

namespace Srad.HostLoop

/-! ### construction -/

/-- **Construction registers the first will** (timestamp = the clock reading at construction)
and does nothing else; it panics exactly on an invalid host id. -/
theorem C16_new_registers_will (cfg : SubCfg) (host : Str) (now0 : Nat) :
    (validName host = false → history cfg host now0 [] = none) ∧
    (validName host = true → history cfg host now0 [] =
      some ({ willTs := now0 }, [.setWill (stateHostTopic host) now0], [])) := by
  unfold history new updateLastWill
  cases validName host <;> simp [exec]

/-- Extending a history by one step is one `step` from the reached state: the per-step theorems
below therefore describe what any history appends to its trace. -/
theorem C16_history_snoc (cfg : SubCfg) (host : Str) (now0 : Nat) (steps : List Step)
    (s : St) (tr : List Eff) (r : List Ret) (x : Step)
    (h : history cfg host now0 steps = some (s, tr, r)) :
    history cfg host now0 (steps ++ [x]) =
      some ((step cfg host s x.inp x.now).1, tr ++ (step cfg host s x.inp x.now).2.1,
            r ++ (step cfg host s x.inp x.now).2.2) :=
  history_snoc cfg host now0 steps s tr r x h

/-! ### whole-trace statements -/

/-- **Every history's trace is legal** for the monitor of `HostLoopSpec`: wills are for the
host's own STATE topic; a subscription opens a session only on a registered, unused will and is
followed at once by the birth; every `{online:true}` publish is a blocking publish on the own
STATE topic carrying the registered will's timestamp; `{online:false}` publishes are `try_`
publishes on the own topic. -/
theorem C16_trace_accepted (cfg : SubCfg) (host : Str) (now0 : Nat) (steps : List Step)
    (s : St) (tr : List Eff) (r : List Ret)
    (h : history cfg host now0 steps = some (s, tr, r)) :
    Accepted (stateHostTopic host) tr :=
  inv_accepted _ s tr (history_inv cfg host now0 steps s tr r h)

/-- **The STATE certificate matches the registered will (headline).** Wherever an
`{online:true}` STATE publish occurs in the trace of any history — the birth of a session or a
republished birth — it goes to the host's own STATE topic with a blocking publish, and its
timestamp is that of a will registration `setWill` which precedes it with no other will
registration in between, i.e. of the will registered for that connection. -/
theorem C16_birth_matches_will (cfg : SubCfg) (host : Str) (now0 : Nat) (steps : List Step)
    (s : St) (tr : List Eff) (r : List Ret)
    (h : history cfg host now0 steps = some (s, tr, r))
    (pre post : List Eff) (t : Str) (ts : Nat) (x : Bool)
    (hs : tr = pre ++ Eff.publishState t true ts x :: post) :
    t = stateHostTopic host ∧ x = false ∧
    ∃ p1 p2, pre = p1 ++ Eff.setWill (stateHostTopic host) ts :: p2 ∧
      ∀ e ∈ p2, e.isWill = false := by
  have hacc := C16_trace_accepted cfg host now0 steps s tr r h
  obtain ⟨h1, h2, h3⟩ := accepted_birth _ tr pre post t ts x hacc hs
  refine ⟨h1, h2, ?_⟩
  obtain ⟨p1, t', p2, hp, hn⟩ := (lastWill_iff pre ts).1 h3
  -- the will is for the own topic: the monitor accepts no other
  have : t' = stateHostTopic host := by
    obtain ⟨m, hm, -⟩ := hacc
    subst hs; subst hp
    rw [List.append_assoc, monRun_append] at hm
    cases h1' : monRun (stateHostTopic host) Mon.init p1 with
    | none => simp [h1'] at hm
    | some m1 =>
      simp only [h1', Option.bind_some, List.cons_append, monRun] at hm
      cases h2' : monStep (stateHostTopic host) m1 (Eff.setWill t' ts) with
      | none => simp [h2'] at hm
      | some m2 =>
        simp only [monStep] at h2'
        split at h2'
        · rename_i hc; exact hc.1
        · simp at h2'
  subst this
  exact ⟨p1, p2, hp, hn⟩

/-- **A fresh will is registered before reconnecting.** Between the subscriptions that open any
two sessions of a history there is a will registration. -/
theorem C16_will_refreshed_between_sessions (cfg : SubCfg) (host : Str) (now0 : Nat)
    (steps : List Step) (s : St) (tr : List Eff) (r : List Ret)
    (h : history cfg host now0 steps = some (s, tr, r))
    (a mid post : List Eff) (f1 f2 : List Str)
    (hs : tr = a ++ Eff.subscribe f1 :: (mid ++ Eff.subscribe f2 :: post)) :
    ∃ t ts, Eff.setWill t ts ∈ mid := by
  obtain ⟨e, he, hw⟩ :=
    accepted_between _ tr a mid post f1 f2 (C16_trace_accepted cfg host now0 steps s tr r h) hs
  cases e with
  | setWill t ts => exact ⟨t, ts, he⟩
  | _ => simp [Eff.isWill] at hw

/-- **Coming online = subscribe, then the birth.** Every subscription in the trace of a history
is the configured filter list (`filters cfg`, plus the own STATE topic unless `AllGroups`) and is
immediately followed by the `{online:true}` publish on the own STATE topic (whose timestamp is
the registered will's by `C16_birth_matches_will`). -/
theorem C16_subscribe_then_birth (cfg : SubCfg) (host : Str) (now0 : Nat) (steps : List Step)
    (s : St) (tr : List Eff) (r : List Ret)
    (h : history cfg host now0 steps = some (s, tr, r))
    (a rest : List Eff) (fs : List Str) (hs : tr = a ++ Eff.subscribe fs :: rest) :
    fs = subscribed cfg host ∧
    ∃ ts rest', rest = Eff.publishState (stateHostTopic host) true ts false :: rest' :=
  ⟨history_subscribe cfg host now0 steps s tr r h fs (by simp [hs]),
   accepted_after_subscribe _ tr a rest fs (C16_trace_accepted cfg host now0 steps s tr r h) hs⟩

/-! ### what each step emits (responses), in terms of what the trace so far says -/

/-- **Online while no birth is out opens a session**: exactly `subscribe (configured filters)`
then `publishState own {online:true, timestamp = the last registered will's}`, and `poll`
returns `Online`. (Outside the shutdown drain; without `cancel` the loop never drains, see
`C16_no_cancel_not_draining`.) -/
theorem C16_online_opens_session (cfg : SubCfg) (host : Str) (now0 : Nat) (steps : List Step)
    (s : St) (tr : List Eff) (r : List Ret) (now : Nat)
    (h : history cfg host now0 steps = some (s, tr, r))
    (hd : s.draining = false) (hb : birthOut tr = false) :
    ∃ w, lastWill tr = some w ∧
      (step cfg host s (.ev .online) now).2 =
        ([.subscribe (subscribed cfg host), .publishState (stateHostTopic host) true w false],
         [.online]) := by
  have hi := history_inv cfg host now0 steps s tr r h
  obtain ⟨on, pub, w, dr, pe⟩ := s
  have h1 := hi.will; have h2 := hi.born; have h3 := hi.on
  simp only at h1 h2 h3 hd
  subst hd h3
  rw [hb] at h2; subst h2
  exact ⟨w, h1, by simp [step, handleEvent, handleOnline, subscribed]⟩

/-- **A duplicate Online is silent**: while the birth is out, Online changes nothing, emits
nothing and returns nothing. -/
theorem C16_duplicate_online_silent (cfg : SubCfg) (host : Str) (now0 : Nat) (steps : List Step)
    (s : St) (tr : List Eff) (r : List Ret) (now : Nat)
    (h : history cfg host now0 steps = some (s, tr, r)) (hb : birthOut tr = true) :
    step cfg host s (.ev .online) now = (s, [], []) := by
  have hi := history_inv cfg host now0 steps s tr r h
  obtain ⟨on, pub, w, dr, pe⟩ := s
  have h2 := hi.born; have h3 := hi.on
  simp only at h2 h3
  subst h3
  rw [hb] at h2; subst h2
  cases dr <;> simp [step, handleEvent, handleOnline]

/-- **Going offline registers a fresh will, first and only**: while the birth is out, Offline
emits exactly `setWill own (this step's clock reading)`; afterwards no birth is out (so the next
Online opens a new session on this will); `poll` returns `Offline` (or `Cancelled` when the
Offline ends a shutdown drain). -/
theorem C16_offline_registers_fresh_will (cfg : SubCfg) (host : Str) (now0 : Nat)
    (steps : List Step) (s : St) (tr : List Eff) (r : List Ret) (now : Nat)
    (h : history cfg host now0 steps = some (s, tr, r)) (hb : birthOut tr = true) :
    (step cfg host s (.ev .offline) now).2.1 = [.setWill (stateHostTopic host) now] ∧
    birthOut (tr ++ (step cfg host s (.ev .offline) now).2.1) = false ∧
    lastWill (tr ++ (step cfg host s (.ev .offline) now).2.1) = some now ∧
    (s.draining = false → (step cfg host s (.ev .offline) now).2.2 = [.offline]) ∧
    (s.draining = true → Ret.cancelled ∈ (step cfg host s (.ev .offline) now).2.2) := by
  have hi := history_inv cfg host now0 steps s tr r h
  obtain ⟨on, pub, w, dr, pe⟩ := s
  have h2 := hi.born; have h3 := hi.on
  simp only at h2 h3
  subst h3
  rw [hb] at h2; subst h2
  cases dr <;> cases pe <;>
    simp [step, handleEvent, handleOffline, updateLastWill, endDrain, takeShutdown,
      lastWill_snoc_will, birthOut_snoc_will]

/-- **A duplicate Offline is silent** (no birth out ⇒ nothing changes, nothing is emitted). -/
theorem C16_duplicate_offline_silent (cfg : SubCfg) (host : Str) (now0 : Nat) (steps : List Step)
    (s : St) (tr : List Eff) (r : List Ret) (now : Nat)
    (h : history cfg host now0 steps = some (s, tr, r)) (hb : birthOut tr = false) :
    step cfg host s (.ev .offline) now = (s, [], []) := by
  have hi := history_inv cfg host now0 steps s tr r h
  obtain ⟨on, pub, w, dr, pe⟩ := s
  have h2 := hi.born; have h3 := hi.on; have h4 := hi.drain
  simp only at h2 h3 h4
  subst h3
  rw [hb] at h2; subst h2
  cases dr
  · simp [step, handleEvent, handleOffline]
  · simp at h4

/-- **An `{online:false}` STATE for the own host id is answered once the birth is out**: exactly
one republished birth `publishState own {online:true, timestamp = the session's will}`; the
state is unchanged and `poll` returns nothing. -/
theorem C16_own_offline_state_answered (cfg : SubCfg) (host : Str) (now0 : Nat)
    (steps : List Step) (s : St) (tr : List Eff) (r : List Ret) (now ts : Nat)
    (h : history cfg host now0 steps = some (s, tr, r))
    (hd : s.draining = false) (hb : birthOut tr = true) :
    ∃ w, lastWill tr = some w ∧
      step cfg host s (.ev (.state host false ts)) now =
        (s, [.publishState (stateHostTopic host) true w false], []) := by
  have hi := history_inv cfg host now0 steps s tr r h
  obtain ⟨on, pub, w, dr, pe⟩ := s
  have h1 := hi.will; have h2 := hi.born; have h3 := hi.on
  simp only at h1 h2 h3 hd
  subst hd h3
  rw [hb] at h2; subst h2
  exact ⟨w, h1, by simp [step, handleEvent]⟩

/-- **Any other STATE message is silent**: a foreign host id, an `{online:true}` payload, or an
own `{online:false}` before the birth is out — nothing is emitted, nothing changes. -/
theorem C16_other_state_silent (cfg : SubCfg) (host : Str) (now0 : Nat) (steps : List Step)
    (s : St) (tr : List Eff) (r : List Ret) (now ts : Nat) (h' : Str) (on : Bool)
    (h : history cfg host now0 steps = some (s, tr, r))
    (hc : h' ≠ host ∨ on = true ∨ birthOut tr = false) :
    step cfg host s (.ev (.state h' on ts)) now = (s, [], []) := by
  have hi := history_inv cfg host now0 steps s tr r h
  obtain ⟨o, pub, w, dr, pe⟩ := s
  have h2 := hi.born
  simp only at h2
  cases dr
  · rcases hc with hc | hc | hc
    · cases on <;> simp [step, handleEvent, hc]
    · subst hc; simp only [step, handleEvent]; split <;> simp
    · rw [hc] at h2; subst h2; simp [step, handleEvent]
  · simp [step]

/-- Events that are neither Online, Offline nor STATE never touch will or STATE. -/
theorem C16_other_events_silent (cfg : SubCfg) (host : Str) (s : St) (now : Nat) :
    step cfg host s (.ev .other) now = (s, [], []) := by
  cases hd : s.draining <;> simp [step, handleEvent, hd]

/-- **Cancel publishes `{online:false}` and disconnects**: `try_` publish on the own STATE topic
with this step's clock reading, then `disconnect`, nothing else — in every reachable state in
which no earlier `cancel` is still waiting in the shutdown channel. -/
theorem C16_cancel_publishes_offline_then_disconnects (cfg : SubCfg) (host : Str) (s : St)
    (now : Nat) (hp : s.pending = false) :
    (step cfg host s .cancel now).2.1 =
      [.publishState (stateHostTopic host) false now true, .disconnect] := by
  obtain ⟨on, pub, w, dr, pe⟩ := s
  simp only at hp; subst hp
  cases dr <;> cases on <;> simp [step, takeShutdown]

/-- **After cancel, `poll` returns `Cancelled`**: at once when no birth is out (the host is
offline); otherwise the loop drains, and both the next Offline (which still registers its fresh
will, `C16_offline_registers_fresh_will`) and the 1 s timeout end the drain with `Cancelled`;
while draining every other event is dropped without effect. -/
theorem C16_cancel_returns (cfg : SubCfg) (host : Str) (now0 : Nat) (steps : List Step)
    (s : St) (tr : List Eff) (r : List Ret) (now : Nat)
    (h : history cfg host now0 steps = some (s, tr, r)) :
    (s.draining = false → birthOut tr = false → (step cfg host s .cancel now).2.2 = [.cancelled]) ∧
    (s.draining = false → birthOut tr = true →
      (step cfg host s .cancel now).1.draining = true ∧ (step cfg host s .cancel now).2.2 = []) ∧
    (s.draining = true →
      Ret.cancelled ∈ (step cfg host s .timeout now).2.2 ∧
      Ret.cancelled ∈ (step cfg host s (.ev .offline) now).2.2 ∧
      (step cfg host s .timeout now).2.1 = [] ∧
      ∀ e, e ≠ Ev.offline → step cfg host s (.ev e) now = (s, [], [])) := by
  have hi := history_inv cfg host now0 steps s tr r h
  obtain ⟨on, pub, w, dr, pe⟩ := s
  have h2 := hi.born; have h3 := hi.on; have h4 := hi.drain
  simp only at h2 h3 h4
  subst h3
  refine ⟨?_, ?_, ?_⟩
  · intro hd hb; simp only at hd; subst hd; rw [hb] at h2; subst h2
    simp [step, takeShutdown]
  · intro hd hb; simp only at hd; subst hd; rw [hb] at h2; subst h2
    simp [step, takeShutdown]
  · intro hd; simp only at hd; subst hd
    have := h4 rfl; subst this
    refine ⟨?_, ?_, ?_, ?_⟩
    · cases pe <;> simp [step, endDrain, takeShutdown]
    · cases pe <;> simp [step, handleOffline, updateLastWill, endDrain, takeShutdown]
    · cases pe <;> simp [step, endDrain, takeShutdown]
    · intro e he
      cases e with
      | offline => exact absurd rfl he
      | _ => simp [step]

/-- Without `cancel` among the steps the loop is never draining (so the hypotheses
`draining = false` above hold on every cancel-free history). -/
theorem C16_no_cancel_not_draining (cfg : SubCfg) (host : Str) (now0 : Nat) (steps : List Step)
    (s : St) (tr : List Eff) (r : List Ret)
    (h : history cfg host now0 steps = some (s, tr, r))
    (hx : ∀ x ∈ steps, x.inp ≠ In.cancel) : s.draining = false ∧ s.pending = false := by
  unfold history at h
  cases hn : new host now0 with
  | none => simp [hn] at h
  | some p =>
    obtain ⟨s0, e0⟩ := p
    simp only [hn, Option.some.injEq, Prod.mk.injEq] at h
    obtain ⟨rfl, -, -⟩ := h
    obtain ⟨-, rfl, -⟩ := new_inv host now0 s0 e0 hn
    exact exec_no_cancel cfg host _ steps ⟨rfl, rfl⟩ hx

/-! ### the subscribed filters cover the configured namespace (MQTT matching: `+` one level,
final `#` the rest) — for arbitrary group / node / device / host strings -/

/-- **Namespace coverage.** For each configuration, every node-level and device-level topic
(`spBv1.0/g/<verb>/n[/d]`, any one-level verb) of a node the configuration asks for — every
group and node for `AllGroups`, every node of the group for `SingleGroup`, every node of each
listed group and each listed group+node for `Custom` — is matched by one of the filters handed
to `subscribe_many`. -/
theorem C16_filters_cover_namespace (cfg : SubCfg) (host t : Str) (h : InNamespace cfg t) :
    Covered (subscribed cfg host) t := by
  obtain ⟨g, v, n, ha, hv, ht⟩ := h
  have hlv := levels_noSlash v hv
  -- the topic's levels, in both shapes
  have hnode : levels (nodeTopic g v n) = [spbv] ++ levels g ++ [v] ++ levels n ++ [] := by
    rw [levels_nodeTopic, hlv]; simp
  have hdev : ∀ d, levels (deviceTopic g v n d) = [spbv] ++ levels g ++ [v] ++ levels n ++ levels d := by
    intro d; rw [levels_deviceTopic, hlv]
  have hnode' : levels (nodeTopic g v n) = [spbv] ++ levels g ++ (v :: levels n) := by
    rw [levels_nodeTopic, hlv]; simp
  have hdev' : ∀ d, levels (deviceTopic g v n d) = [spbv] ++ levels g ++ (v :: (levels n ++ levels d)) := by
    intro d; rw [levels_deviceTopic, hlv]; simp
  cases ha with
  | all =>
    refine ⟨Topic.full.render, by simp [subscribed, subscribeTopics, filters], ?_⟩
    rcases ht with rfl | ⟨d, rfl⟩
    · unfold mqttMatch; rw [hnode']; simpa using full_matches (levels g ++ v :: levels n)
    · unfold mqttMatch; rw [hdev']; simpa using full_matches (levels g ++ v :: (levels n ++ levels d))
  | single =>
    refine ⟨(Topic.group g).render, by simp [subscribed, subscribeTopics, filters], ?_⟩
    rcases ht with rfl | ⟨d, rfl⟩
    · unfold mqttMatch; rw [hnode']; exact group_matches g v _
    · unfold mqttMatch; rw [hdev']; exact group_matches g v _
  | customGroup l _ _ hm =>
    refine ⟨(Topic.group g).render, ?_, ?_⟩
    · simp only [subscribed, subscribeTopics, filters, List.map_append, List.map_map,
        List.mem_append, List.mem_map]
      exact Or.inl ⟨_, hm, rfl⟩
    rcases ht with rfl | ⟨d, rfl⟩
    · unfold mqttMatch; rw [hnode']; exact group_matches g v _
    · unfold mqttMatch; rw [hdev']; exact group_matches g v _
  | customNode l _ _ hm =>
    refine ⟨(Topic.node g n).render, ?_, ?_⟩
    · simp only [subscribed, subscribeTopics, filters, List.map_append, List.map_map,
        List.mem_append, List.mem_map]
      exact Or.inl ⟨_, hm, rfl⟩
    rcases ht with rfl | ⟨d, rfl⟩
    · unfold mqttMatch; rw [hnode]; exact node_matches g n v []
    · unfold mqttMatch; rw [hdev]; exact node_matches g n v _

/-- **The own STATE topic is covered** for every configuration (by `spBv1.0/#` for `AllGroups`,
by the explicit own-topic filter otherwise). -/
theorem C16_filters_cover_own_state (cfg : SubCfg) (host : Str) :
    Covered (subscribed cfg host) (stateHostTopic host) := by
  cases cfg with
  | allGroups =>
    refine ⟨Topic.full.render, by simp [subscribed, subscribeTopics, filters], ?_⟩
    unfold mqttMatch
    rw [levels_stateHostTopic]
    simpa using full_matches (stateLit :: levels host)
  | singleGroup g =>
    exact ⟨stateHostTopic host, by simp [subscribed, subscribeTopics, filters, Topic.render],
      matchLv_refl _⟩
  | custom l =>
    exact ⟨stateHostTopic host, by simp [subscribed, subscribeTopics, filters, Topic.render],
      matchLv_refl _⟩


/-! ### the decision table, regenerated from the compiled crate on every run

`SradModel/Generated/HostLoopTable.lean` is produced by executing the real `AppEventLoop` on
every cell (3 configurations × 12 input prefixes × 9 last inputs; the third outstanding cancel
is left out). A change to any arm of `handle_event` / `handle_online` / `handle_offline` /
`cancel` / `poll` changes a cell and breaks one of these two obligations at `lake build`. -/

/-- the compiled code and the model agree on every cell -/
theorem C16_table_matches_model :
    ∀ r ∈ Srad.Generated.hostLoopTable, modelRow r.cfg r.pre r.inp = some (r.eff, r.ret) := by
  decide +kernel

/-- **C16 holds on every cell of the compiled code's table** (`rowOk` reads the expected
behaviour off the inputs alone): session opening = configured filters then a birth with the
will's timestamp; fresh own will first on going offline; duplicates silent; own offline STATE
answered with the will's timestamp once the birth is out; foreign / online STATE silent; cancel =
`try_` offline publish then disconnect, and `Cancelled` returned at once / on Offline / on
timeout. The table has
exactly one row for each of the 3 × (12 × 9 − 1) cells (`tableComplete` + the length). -/
theorem C16_table_property :
    (∀ r ∈ Srad.Generated.hostLoopTable, rowOk r = true) ∧
    Srad.Generated.hostLoopTable.length = 321 ∧
    tableComplete Srad.Generated.hostLoopTable = true := by
  decide +kernel

/-! ### non-vacuity (tests, not the claim) -/

/-- a history with two sessions, a republished birth and a cancel, on a custom configuration -/
example :
    history (.custom [.group ['G'], .node ['G', '2'] ['N']]) ['H'] 100
      [⟨.ev .online, 110⟩, ⟨.ev (.state ['H'] false 1), 120⟩, ⟨.ev .offline, 130⟩,
       ⟨.ev .offline, 135⟩, ⟨.ev .online, 140⟩, ⟨.cancel, 150⟩, ⟨.timeout, 160⟩]
    = some (
      { online := true, published := true, willTs := 130 },
      [.setWill (stateHostTopic ['H']) 100,
       .subscribe (subscribed (.custom [.group ['G'], .node ['G', '2'] ['N']]) ['H']),
       .publishState (stateHostTopic ['H']) true 100 false,
       .publishState (stateHostTopic ['H']) true 100 false,
       .setWill (stateHostTopic ['H']) 130,
       .subscribe (subscribed (.custom [.group ['G'], .node ['G', '2'] ['N']]) ['H']),
       .publishState (stateHostTopic ['H']) true 130 false,
       .publishState (stateHostTopic ['H']) false 150 true,
       .disconnect],
      [.online, .offline, .online, .cancelled]) := by decide +kernel

/-- `birthOut` / `lastWill` hypotheses are satisfiable both ways on reachable traces -/
example : birthOut [.setWill ['t'] 1, .subscribe [], .publishState ['t'] true 1 false] = true ∧
    birthOut [.setWill ['t'] 1, .subscribe [], .publishState ['t'] true 1 false, .setWill ['t'] 2]
      = false ∧
    lastWill [.setWill ['t'] 1, .subscribe [], .publishState ['t'] true 1 false, .setWill ['t'] 2]
      = some 2 := by decide

/-- the namespace predicate is inhabited for each configuration, and the filters are the
expected strings -/
example : InNamespace (.custom [.node ['g'] ['n']]) (deviceTopic ['g'] ['D', 'D', 'A', 'T', 'A'] ['n'] ['d']) :=
  ⟨['g'], ['D', 'D', 'A', 'T', 'A'], ['n'], .customNode _ _ _ (by simp), by decide, Or.inr ⟨['d'], rfl⟩⟩

example : (subscribed (.singleGroup ['g']) ['h']).map String.ofList
    = ["spBv1.0/g/+/#", "spBv1.0/STATE/h"] := by decide

/-- matching is not trivially true: `+` is one level, a group filter does not match another
group, a node filter does not match another node -/
example : mqttMatch "spBv1.0/g/+/#".toList "spBv1.0/h/NDATA/n".toList = false ∧
    mqttMatch "spBv1.0/g/+/n/#".toList "spBv1.0/g/NDATA/m".toList = false ∧
    mqttMatch "spBv1.0/g/+/n/#".toList "spBv1.0/g/DDATA/n/d".toList = true ∧
    mqttMatch "a/+".toList "a/b/c".toList = false := by decide

end Srad.HostLoop
