/-
C15 over the task-level LTS — **the edge node honours rebirth commands, under every scheduler**.

`Props/C15.lean` proves C15 about the sequential model `Model/Cmd` ("interleavings are C01–C04's").
Here the rebirth clauses are stated and proved directly over the labelled transition system
`Model/Eon` (tasks: run loop, loop timeout, node task, device tasks, user calls; any interleaving).
Property theorems only; helper lemmas and the invariant: `SradModel/Proofs/EonC15.lean`.

How the model (and `Node::on_sparkplug_message`) treats an NCMD, step by step of the node task:
1. *dequeue*: the node task is idle, no `client_state` message and no `NodeHandle::rebirth` request
   is waiting (biased `select!`), it takes `(rb, ts)` off the NCMD queue. `rb` is the rebirth flag
   computed by the recognition rule of `Props/C15.lean`. If the payload has no timestamp
   (`ts = false`, `MessageMetrics::try_from` fails) the command is dropped: no callback, no birth
   (`C15L_ncmd_without_timestamp_ignored`). Otherwise `on_ncmd` is called (`node = inCb rb`).
2. *decide* (`node = inCb rb`, callback returned): `C15L_ncmd_decision`.
3. *birth* (`node = birthStart rebirth (some now)`): `C15L_rebirth_nbirth_shape`, then the NBIRTH is
   answered and `birth_devices` runs; the cooldown reference is stamped **after** the birth with the
   clock reading taken before it (`C15L_rebirth_stamped_after_birth`).
4. every device task takes the birth message and hands its DBIRTH over: `C15L_rebirth_completes`
   (every maximal schedule under an accepting client).

Vocabulary (defined in `Proofs/EonC15.lean`): `cooldownElapsed s` = `¬ s.wall - s.lastRebirthReq <
s.cooldown`; `rebirthGranted s rb` = `rb ∧ cooldownElapsed s ∧ s.birthed`; `handovers tr` = the
`.call` observations of a trace reduced to kind / device / seq / bdSeq, in order; `nbirthHO bd` = an
NBIRTH with seq 0 and bdSeq `bd`; `dbirthsFrom i names` = DBIRTHs for the device names `names`, in
this order, with sequence numbers `i+1, i+2, …` (mod 256); `Dev.birthable` = enabled ∧ registered
∧ task not finished; `Act.isAcc` = a task step whose hand-over the client accepts, a time advance,
or a late answer to a parked call; `Exhausted s` = no task has an enabled step (accepting client).
-/
import SradModel.Proofs.EonC15
import SradModel.Props.C04
import SradModel.Props.C20Term

namespace Srad.Eon
open Srad.Eon.P15 Srad.Eon.P20 Srad.Eon.Term

/-! ### 1. the decision -/

/-- **The rebirth decision.** `s` is ANY state (reachable or not) whose node task is inside
`on_sparkplug_message` after `on_ncmd` has returned (`node = inCb rb`, callback not parked); `rb`
is the command's rebirth flag. Whatever the client would decide, the node task has exactly one
step, it emits nothing and hands nothing over, and
* it starts a node rebirth — `node = birthStart rebirth (some s.wall)`, the clock reading of the
  command is carried along — **iff** `rb = true`, the cooldown has elapsed
  (`¬ s.wall - s.lastRebirthReq < s.cooldown`) and the node is birthed;
* in every other case the node task is idle again;
* the cooldown reference `lastRebirthReq` is stamped with the clock reading of the command exactly
  when `rb ∧ cooldown elapsed`: **immediately** (in this very step) if the node is not birthed
  (`Node::rebirth` returns early, nothing is published), and **after the birth** if it is birthed
  (not in this step: see `C15L_rebirth_stamped_after_birth`). Otherwise it is left alone. -/
theorem C15L_ncmd_decision (s : St) (rb : Bool) (dec : Dec) (hn : s.node = .inCb rb) (hp : s.nodeCbPark = false) :
    ∃ s', step s .node dec = [(s', [])] ∧ s'.calls = s.calls ∧
      (s'.node = .birthStart .rebirth (some s.wall) ↔ (rb = true ∧ cooldownElapsed s ∧ s.birthed = true)) ∧
      (¬ rebirthGranted s rb → s'.node = .idle) ∧
      (s'.lastRebirthReq =
        if rb = true ∧ cooldownElapsed s ∧ s.birthed = false then s.wall else s.lastRebirthReq) := by
  refine ⟨_, inCb_step s dec rb hn hp, ?_⟩
  cases rb
  · simp [rebirthGranted]
  · by_cases hc : cooldownElapsed s
    · cases hb : s.birthed <;> simp [rebirthGranted, hc, hb]
    · simp [rebirthGranted, hc]

/-- **The stamp after the birth.** Once a rebirth has been granted for a command read at clock
value `w`, the node task carries `some w` through `node_birth` — start (`birthStart`), waiting for
the client's answer to the NBIRTH (`waitNb`, only if the client parks the call), answer received
(`nbDone ok`) — and the step that ends the birth sets `lastRebirthReq := w`, **whether the NBIRTH
was accepted or not** (`self.rebirth().await; self.last_node_rebirth_request = now`). Only an
accepted NBIRTH sets `birthed` and sends the birth message to the devices. -/
theorem C15L_rebirth_stamped_after_birth (s : St) (dec : Dec) (w : Nat) :
    (s.node = .birthStart .rebirth (some w) → ∃ s', step s .node dec = [(s',
        [.bNode, .call s.calls.length .nbirth none (some 0) (some s.bdseq) false dec])] ∧
      s'.lastRebirthReq = s.lastRebirthReq ∧
      s'.node = (match dec with
                 | .acc => .nbDone true .rebirth (some w) | .rej => .nbDone false .rebirth (some w)
                 | .park => .waitNb s.calls.length .rebirth (some w))) ∧
    (∀ id ok, s.node = .waitNb id .rebirth (some w) → callRes s id = some ok →
      step s .node dec = [({ s with node := .nbDone ok .rebirth (some w) }, [])]) ∧
    (∀ ok, s.node = .nbDone ok .rebirth (some w) → ∃ s', step s .node dec = [(s', [])] ∧
      s'.node = .idle ∧ s'.lastRebirthReq = w ∧ s'.calls = s.calls ∧ s'.epoch = s.epoch ∧
      s'.birthed = (if ok then true else s.birthed) ∧
      s'.devs = (if ok then pushAll (.birth .rebirth s.epoch) s.devs else s.devs)) := by
  refine ⟨fun hn => ?_, fun id ok hn hr => ?_, fun ok hn => ?_⟩
  · obtain ⟨c, -, -, -, hst⟩ := birthStart_step s dec .rebirth (some w) hn
    exact ⟨_, hst, rfl, rfl⟩
  · simp [step, stepNode, hn, hr]
  · obtain ⟨s', h1, h2, h3, h4, -, -, -, h5, h6, h7⟩ := nbDone_step s dec ok .rebirth (some w) hn
    exact ⟨s', h1, h2, h7, h3, h4, h5, h6⟩

/-! ### 2. a command without timestamp -/

/-- **An NCMD whose payload has no timestamp is ignored.** The node task is idle and it is the
command's turn (no `client_state` message, no `NodeHandle::rebirth` request: the `select!` is
biased towards those); the head of the NCMD queue is `(rb, false)` — any rebirth flag, no payload
timestamp. Then the node task's step just drops the command: the manager's `on_ncmd` is not called
(no `cbNcmd` observation), nothing is handed over, the task stays idle, nothing else changes —
even if the payload asked for a rebirth (`MessageMetrics::try_from` fails before the rebirth flag
is looked at). -/
theorem C15L_ncmd_without_timestamp_ignored (s : St) (dec : Dec) (rb : Bool) (rest : List (Bool × Bool))
    (hn : s.node = .idle) (hcs : s.cs = none) (hrq : s.rebirthQ = false) (hq : s.msgQ = (rb, false) :: rest) :
    step s .node dec = [({ s with msgQ := rest }, [])] :=
  dequeue_no_ts s dec rb rest hn hcs hrq hq

/-- conversely, **`on_ncmd` is only ever called for a command with a payload timestamp**: a step
of ANY task in ANY state whose observations contain `cbNcmd` is a step of the node task that takes
some `(rb, true)` off the NCMD queue, and the node task continues inside the callback for that `rb` -/
theorem C15L_callback_only_with_timestamp (s : St) (t : Task) (dec : Dec) (s' : St) (o : List Obs)
    (h : (s', o) ∈ step s t dec) (hc : Obs.cbNcmd ∈ o) :
    t = .node ∧ ∃ rb rest, s.msgQ = (rb, true) :: rest ∧ s'.node = .inCb rb ∧ s'.msgQ = rest := by
  have ht := cb_is_node (r := (s', o)) h hc
  subst ht
  exact ⟨rfl, cb_only_with_timestamp (r := (s', o)) h hc⟩

/-- the step that calls `on_ncmd`, for the record: same situation as in
`C15L_ncmd_without_timestamp_ignored` but with a timestamp -/
theorem C15L_ncmd_with_timestamp_delivered (s : St) (dec : Dec) (rb : Bool) (rest : List (Bool × Bool))
    (hn : s.node = .idle) (hcs : s.cs = none) (hrq : s.rebirthQ = false) (hq : s.msgQ = (rb, true) :: rest) :
    step s .node dec = [({ s with msgQ := rest, node := .inCb rb }, [.cbNcmd])] :=
  dequeue_ts s dec rb rest hn hcs hrq hq

/-! ### 3. the NBIRTH of a rebirth -/

/-- **Shape of the rebirth's NBIRTH.** In ANY state whose node task is about to run `node_birth`
for a rebirth (`fc = some now` for an NCMD, `none` for `NodeHandle::rebirth`), the node task's one
step hands over an NBIRTH with **sequence number 0** and the **current bdSeq**, which the rebirth
does not change (by `C03_nbirth_carries_will` it is the bdSeq of the registered will); the node's
sequence counter is reset to 0, the node is unbirthed until the client has accepted the NBIRTH,
the device list is untouched, and the **birth epoch is bumped** — so whatever was requested for the
previous node birth can no longer be published: see `C15L_stale_birth_dropped` and
`C15L_stale_births_cannot_complete`. -/
theorem C15L_rebirth_nbirth_shape (s : St) (dec : Dec) (fc : Option Nat) (hn : s.node = .birthStart .rebirth fc) :
    ∃ s', step s .node dec = [(s', [.bNode, .call s.calls.length .nbirth none (some 0) (some s.bdseq) false dec])] ∧
      s'.epoch = s.epoch + 1 ∧ s'.bdseq = s.bdseq ∧ s'.seq = 0 ∧ s'.birthed = false ∧ s'.online = s.online ∧
      s'.devs = s.devs ∧
      (∃ c : Call, s'.calls = s.calls ++ [c] ∧ c.kind = .nbirth ∧ c.seq = some 0 ∧ c.bd = some s.bdseq) := by
  obtain ⟨c, h1, h2, h3, hst⟩ := birthStart_step s dec .rebirth fc hn
  exact ⟨_, hst, rfl, rfl, rfl, rfl, rfl, rfl, c, rfl, h1, h2, h3⟩

/-- **A birth message of another node birth is dropped.** A device task that takes a queued birth
message whose epoch is not the current birth epoch (it was sent by `birth_devices` of a node birth
that a rebirth has superseded) hands nothing over and emits nothing; the message is consumed. -/
theorem C15L_stale_birth_dropped (s : St) (u : Nat) (dec : Dec) (x : Dev) (bt : BT) (ep : Nat) (rest : List NS)
    (hx : findUid u s.devs = some x) (hpc : x.pc = .idle) (hq : x.nsq = .birth bt ep :: rest) (hne : ep ≠ s.epoch) :
    step s (.dev u) dec = [({ s with devs := setDev { x with nsq := rest } s.devs }, [])] :=
  stale_birth_dropped s u dec x bt ep rest hx hpc hq hne

/-- **Stale device births cannot complete** — `C04_ddata_ordered` instantiated at a rebirth.
Take any execution that reaches a state `s` whose node task starts a rebirth, let the node task
take that step (NBIRTH handed over, whatever the client decides), and continue with ANY actions
`more` (stimuli, task steps, any client decisions). Then in the continuation's trace `tr2` device
`d` is treated as not birthed (`ddataOk d .none tr2`, the C04 scanner started afresh): a DDATA of `d`
is only handed over once a DBIRTH of `d` that was itself handed over *after* the rebirth's NBIRTH
has been accepted by the client. A DBIRTH of the previous node birth — still parked at the client,
or accepted before the rebirth — does not count.
Hypothesis (C04's own): at most one live incarnation of the name `d` at any time. -/
theorem C15L_stale_births_cannot_complete (cd : Nat) (acts : List Act) (s : St) (tr : List Obs) (fc : Option Nat)
    (dec : Dec) (s1 : St) (o1 : List Obs) (more : List Act) (s2 : St) (tr2 : List Obs) (d : Nat)
    (h : runActs (init cd) acts = some (s, tr)) (hn : s.node = .birthStart .rebirth fc)
    (h1 : (step s .node dec)[0]? = some (s1, o1)) (h2 : runActs s1 more = some (s2, tr2))
    (hone : ∀ pre, pre <+: acts ++ (.task .node dec 0 :: more) → ∀ sx tx, runActs (init cd) pre = some (sx, tx) →
        ((sx.devs.filter fun x => x.name == d && x.pc != .done).length ≤ 1)) :
    ddataOk d .none tr2 = true := by
  obtain ⟨s', hst, -⟩ := C15L_rebirth_nbirth_shape s dec fc hn
  rw [hst] at h1
  simp only [List.getElem?_cons_zero, Option.some.injEq, Prod.mk.injEq] at h1
  obtain ⟨rfl, rfl⟩ := h1
  have hstep : runActs s (.task .node dec 0 :: more) =
      some (s2, [.bNode, .call s.calls.length .nbirth none (some 0) (some s.bdseq) false dec] ++ tr2) := by
    simp [runActs, runAct, hst, h2]
  have hall := runActs_append _ _ _ _ _ _ _ h hstep
  have := C04_ddata_ordered cd _ s2 _ d hall hone
  rw [P04.ddataOk_append, Bool.and_eq_true] at this
  have h3 := this.2
  simpa [ddataOk] using h3

/-! ### 4. liveness: the rebirth completes under every scheduler -/

/-- what `C15L_rebirth_completes` promises about the end of a schedule: `s` is the state in which
the rebirth started, `s'` the end, `tr'` the trace in between -/
structure RebirthDone (s : St) (fc : Option Nat) (s' : St) (tr' : List Obs) : Prop where
  /-- the node is online and birthed, the node task is idle again -/
  online : s'.online = true
  birthed : s'.birthed = true
  idle : s'.node = .idle
  /-- it is the next node birth, with the same bdSeq -/
  epoch : s'.epoch = s.epoch + 1
  bdseq : s'.bdseq = s.bdseq
  /-- an NCMD-triggered rebirth has stamped the cooldown reference with the command's clock reading -/
  stamped : ∀ w, fc = some w → s'.lastRebirthReq = w
  /-- the devices are the same ones (name, enabled, registered, finished — position by position) -/
  same_devices : s'.devs.map Dev.static = s.devs.map Dev.static
  /-- every enabled registered device is birthed **for the current node birth**, its task idle with empty queues -/
  devices_birthed : ∀ x ∈ s'.devs, x.birthable = true →
    x.flag = true ∧ x.epoch = s'.epoch ∧ x.pc = .idle ∧ x.nsq = [] ∧ x.hq = [] ∧ x.mq = []
  /-- the hand-overs of the whole schedule: the NBIRTH (seq 0, unchanged bdSeq), then one DBIRTH per
  enabled registered device — `names` lists their names in hand-over order, a permutation of the
  birthable devices of `s` — with sequence numbers 1, 2, … (mod 256). Nothing else: no DDEATH, no
  data, no second birth. -/
  trace : ∃ names : List Nat, names.Perm ((s.devs.filter Dev.birthable).map (·.name)) ∧
    handovers tr' = nbirthHO s.bdseq :: dbirthsFrom 0 names ∧ s'.seq = names.length % 256

/-- **The rebirth completes, whatever the scheduler does.**
`s` is a reachable state in which a node rebirth has just started and is the only pending work
(`RebirthStart s fc`: `node = birthStart rebirth fc`; no `client_state` message, rebirth request,
NCMD, undelivered event or stop signal; every user call returned; no `on_dcmd` gate; every device
task finished, or registered, idle or in `on_dcmd`, **without pending node-state message and
without pending enable / disable / rebirth request** — queued DCMDs are allowed).
`sched` is ANY schedule from `s` under an accepting client: task steps of any task in any order
with every hand-over accepted (`dec = acc`: no reject, no park), time advances, late answers to
calls parked earlier; no further stimulus. Then
1. `sched` has at most `termMeasure s` task steps (`C20_step_decreases`: schedules are finite);
2. if it is maximal (`Exhausted s'`: no task has an enabled step) the rebirth is complete —
   `RebirthDone`: online, birthed, next epoch, same bdSeq, cooldown reference stamped, every enabled
   registered device birthed for the CURRENT node birth, and the trace of `sched` consists of
   exactly one NBIRTH (seq 0) followed by exactly one DBIRTH per enabled registered device in
   hand-over order with sequence numbers 1..k, and nothing else (no DDEATH);
3. if it is not maximal it can be extended to a maximal one (so 2. is not vacuous for any prefix). -/
theorem C15L_rebirth_completes (cd : Nat) (acts : List Act) (s : St) (tr : List Obs)
    (h : runActs (init cd) acts = some (s, tr)) (fc : Option Nat) (hs : RebirthStart s fc)
    (sched : List Act) (hall : ∀ a ∈ sched, a.isAcc = true) (s' : St) (tr' : List Obs)
    (hr : runActs s sched = some (s', tr')) :
    taskCount sched + termMeasure s' ≤ termMeasure s ∧
    (Exhausted s' → RebirthDone s fc s' tr') ∧
    (∃ more s'' tr'', (∀ a ∈ more, a.isAcc = true) ∧ runActs s' more = some (s'', tr'') ∧ Exhausted s'') := by
  obtain ⟨hf, hrb⟩ := RB_init h hs
  obtain ⟨hf', hS', hrb'⟩ := RB_runActs (S := s.devs.map Dev.static) sched s s' [] tr' hf rfl hrb hall hr
  have hu := uidOk_reach h
  refine ⟨runActs_bound sched s s' tr' hu (fun a ha => isInternal_of_isAcc (hall a ha)) hr, fun hx => ?_,
    extend_to_exhausted _ s' (Nat.le_refl _) (uidOk_runActs hu hr)⟩
  obtain ⟨names, h1, h2, h3, h4, h5, h6, h7, h8, h9⟩ := RB_exhausted hf' hrb' hx
  simp only [List.nil_append] at h1
  refine ⟨hf'.online, h6, h3, h4, h5, h8, hS', fun x hxm hb => ?_, names, ?_, h1, h7⟩
  · obtain ⟨a, b, c⟩ := h9 x hxm hb
    exact ⟨a, by rw [h4]; exact b, c⟩
  · apply perm_of_counts
    intro d
    rw [h2 d]
    exact countP_birthable_stat hS' d

/-- **Reading the trace of a completed rebirth.** If the hand-overs of a trace are the NBIRTH
followed by `dbirthsFrom 0 names` with `names` a permutation of the names of the enabled registered
devices (the `trace` field of `RebirthDone`), then
* the first hand-over is the NBIRTH and it is the only NBIRTH;
* every other hand-over is a DBIRTH — in particular there is **no DDEATH** and no data;
* the `i`-th DBIRTH (from 0) is the one of device `names[i]` and carries sequence number `i + 1` (mod 256);
* for every name `d` the number of DBIRTHs of `d` is the number of enabled registered devices
  called `d` — **exactly one** when, as C04 assumes, there is one live incarnation of that name. -/
theorem C15L_rebirth_trace_shape (bd : Nat) (names : List Nat) (l : List Dev) (tr : List Obs)
    (hp : names.Perm ((l.filter Dev.birthable).map (·.name)))
    (ht : handovers tr = nbirthHO bd :: dbirthsFrom 0 names) :
    (handovers tr).head? = some (nbirthHO bd) ∧
    (handovers tr).filter (·.kind == .nbirth) = [nbirthHO bd] ∧
    (∀ h ∈ handovers tr, h.kind = .nbirth ∨ h.kind = .dbirth) ∧
    (∀ h ∈ handovers tr, h.kind ≠ .ddeath) ∧
    (∀ i (hi : i < names.length),
      (handovers tr)[i + 1]? = some { kind := .dbirth, dev := some names[i], seq := some ((i + 1) % 256) }) ∧
    (∀ d, ((handovers tr).filter fun h => h.kind == .dbirth && h.dev == some d).length =
      (l.filter fun x => x.birthable && x.name == d).length) := by
  have hk := dbirthsFrom_kind 0 names
  have hfil : ∀ (i : Nat) (ns : List Nat), (dbirthsFrom i ns).filter (·.kind == .nbirth) = [] := by
    intro i ns
    rw [List.filter_eq_nil_iff]
    intro h hh
    simp [dbirthsFrom_kind i ns h hh]
  have hcnt : ∀ (d : Nat) (ns : List Nat) (i : Nat),
      ((dbirthsFrom i ns).filter fun h => h.kind == .dbirth && h.dev == some d).length = ns.count d := by
    intro d ns
    induction ns with
    | nil => intro i; rfl
    | cons a t ih =>
      intro i
      simp only [dbirthsFrom, List.filter_cons, List.count_cons]
      by_cases had : a = d
      · simp [had, ih]
      · have : ¬ (some a = some d) := by simpa using had
        simp [had, ih]
  rw [ht]
  refine ⟨rfl, ?_, ?_, ?_, ?_, ?_⟩
  · simp [nbirthHO, hfil]
  · intro h hh
    simp only [List.mem_cons] at hh
    rcases hh with rfl | hh
    · exact .inl rfl
    · exact .inr (hk h hh)
  · intro h hh
    simp only [List.mem_cons] at hh
    rcases hh with rfl | hh
    · simp [nbirthHO]
    · simp [hk h hh]
  · intro i hi
    rw [List.getElem?_cons_succ, dbirthsFrom_getElem 0 names i hi]
    simp
  · intro d
    simp only [List.filter_cons, nbirthHO]
    simp only [show ((CK.nbirth == CK.dbirth) = false) from rfl, Bool.false_and, Bool.false_eq_true, if_false]
    rw [hcnt d names 0, hp.count_eq, List.count_eq_countP, List.countP_map, List.countP_filter,
      List.countP_eq_length_filter]
    congr 1
    apply List.filter_congr
    intro x _
    simp [Function.comp, Bool.and_comm]

/-! ### 5. no birth otherwise -/

/-- **A command that is not granted causes no birth.** `s` is ANY state whose node task is inside
`on_sparkplug_message` after `on_ncmd` (`node = inCb rb`, callback not parked) and the decision of
`C15L_ncmd_decision` is negative (no rebirth asked, or inside the cooldown, or node not birthed).
Then the step that brings the node task back to idle — its only step — hands nothing over and
emits no observation at all; the call log, the sequence counter, `birthed`, `online`, bdSeq, the
birth epoch, the rebirth-request slot and **every device's queues** are unchanged: no NBIRTH, and
no birth message that could make a device task hand a DBIRTH over. (The step before it, which
called `on_ncmd`, only emitted `cbNcmd`: `C15L_ncmd_with_timestamp_delivered`.) -/
theorem C15L_no_birth_otherwise (s : St) (rb : Bool) (dec : Dec) (hn : s.node = .inCb rb) (hp : s.nodeCbPark = false)
    (hneg : ¬ (rb = true ∧ cooldownElapsed s ∧ s.birthed = true)) :
    ∃ s', step s .node dec = [(s', [])] ∧ s'.node = .idle ∧ s'.calls = s.calls ∧ s'.devs = s.devs ∧
      s'.seq = s.seq ∧ s'.epoch = s.epoch ∧ s'.birthed = s.birthed ∧ s'.online = s.online ∧ s'.bdseq = s.bdseq ∧
      s'.rebirthQ = s.rebirthQ ∧ s'.msgQ = s.msgQ := by
  refine ⟨_, inCb_step s dec rb hn hp, ?_⟩
  have hg : ¬ rebirthGranted s rb := hneg
  simp only [hg, if_false]
  split <;> exact ⟨rfl, rfl, rfl, rfl, rfl, rfl, rfl, rfl, rfl, rfl⟩

/-- and nobody else decides for the node task: every action other than a step of the node task —
any stimulus, any step of the loop, a device task or a user call, whatever the client answers —
leaves the node task where it is and does not touch the inputs of the decision other than the
clock (`lastRebirthReq`, `cooldown`, `birthed`), nor the birth epoch, bdSeq and `online`. So "the
steps until the node task is idle again" are exactly the node-task steps described above, in
every interleaving. -/
theorem C15L_decision_is_the_node_tasks (s s' : St) (a : Act) (o : List Obs) (h : runAct s a = some (s', o))
    (ha : ∀ dec k, a ≠ .task .node dec k) :
    s'.node = s.node ∧ s'.lastRebirthReq = s.lastRebirthReq ∧ s'.cooldown = s.cooldown ∧ s'.birthed = s.birthed ∧
    s'.epoch = s.epoch ∧ s'.bdseq = s.bdseq ∧ s'.online = s.online := by
  obtain ⟨h1, h2, h3, h4, h5, h6, h7, -⟩ := other_keeps h ha
  exact ⟨h1, h2, h3, h4, h5, h6, h7⟩

/-- hence from every such start state some accepting schedule completes the rebirth (and by
`C15L_rebirth_completes` every maximal one does) -/
theorem C15L_rebirth_can_complete (cd : Nat) (acts : List Act) (s : St) (tr : List Obs)
    (h : runActs (init cd) acts = some (s, tr)) (fc : Option Nat) (hs : RebirthStart s fc) :
    ∃ sched s' tr', (∀ a ∈ sched, a.isAcc = true) ∧ runActs s sched = some (s', tr') ∧ Exhausted s' ∧
      RebirthDone s fc s' tr' := by
  obtain ⟨-, -, sched, s', tr', hall, hr, hx⟩ := C15L_rebirth_completes cd acts s tr h fc hs [] (by simp) s [] rfl
  exact ⟨sched, s', tr', hall, hr, hx, (C15L_rebirth_completes cd acts s tr h fc hs sched hall s' tr' hr).2.1 hx⟩

/-- a quiescent state in the sense of C20 (`Quiescent`) is exhausted -/
theorem C15L_exhausted_of_quiescent (s : St) (hq : Quiescent s) : Exhausted s :=
  fun t k => hq.1 t .acc k (by decide)

/-! ### non-vacuity: concrete executions -/

/-- `run` starts; device 7 is registered and enabled (request processed while offline); the broker
connection comes up: SUB, NBIRTH (seq 0, bdSeq 0), `birth_devices`, DBIRTH of device 7 (seq 1) -/
def exUp : List Act :=
  [.task .loop .acc 0, .stim (.reg 7), .stim (.enable 7), .task (.dev 0) .acc 0,
   .stim (.ev .online), .task .loop .acc 0, .task .loop .acc 0,
   .task .node .acc 0, .task .node .acc 0, .task .node .acc 0, .task .node .acc 0,
   .task (.dev 0) .acc 0, .task (.dev 0) .acc 0]

/-- an NCMD with `Node Control/Rebirth = true` and a payload timestamp arrives: `poll` returns it,
the node task takes it (`on_ncmd` called) and decides -/
def exCmd : List Act :=
  [.stim (.ev (.ncmd true true)), .task .loop .acc 0, .task .loop .acc 0, .task .node .acc 0, .task .node .acc 0]

/-- one maximal accepting schedule of the rebirth: NBIRTH, `birth_devices`, the device births, the
loop goes back into `poll` -/
def exRun : List Act :=
  [.task .node .acc 0, .task .node .acc 0, .task (.dev 0) .acc 0, .task (.dev 0) .acc 0, .task .loop .acc 0]

/-- the state in which the rebirth starts (cooldown 0) -/
def exStart : St := ((runActs (init 0) (exUp ++ exCmd)).getD (init 0, [])).1

theorem exStart_reached : ∃ tr, runActs (init 0) (exUp ++ exCmd) = some (exStart, tr) :=
  ⟨((runActs (init 0) (exUp ++ exCmd)).getD (init 0, [])).2, by decide⟩

/-- before the command: online, birthed, device 7 enabled and birthed in epoch 1; hand-overs so
far: SUB, NBIRTH seq 0, DBIRTH seq 1 -/
example :
    (runActs (init 0) exUp).map (fun r => (r.1.online, r.1.birthed, r.1.epoch, r.1.node)) = some (true, true, 1, .idle) ∧
    (runActs (init 0) exUp).map (fun r => r.1.devs.map (fun x => (x.name, x.enabled, x.flag, x.epoch))) =
      some [(7, true, true, 1)] ∧
    (runActs (init 0) exUp).map (fun r => handovers r.2) =
      some [{ kind := .sub }, nbirthHO 0, { kind := .dbirth, dev := some 7, seq := some 1 }] := by decide

/-- **the hypotheses of `C15L_rebirth_completes` are satisfiable**: the command is granted
(`C15L_ncmd_decision`: rebirth flag, cooldown 0 elapsed, birthed), the node task is at
`birthStart rebirth (some 0)` and `RebirthStart` holds — in particular device 7 has no pending
node-state message and no pending enable / disable / rebirth request -/
example : exStart.node = .birthStart .rebirth (some 0) ∧ RebirthStart exStart (some 0) :=
  ⟨by decide, ⟨by decide, by decide, by decide, by decide, by decide, by decide, by decide, by decide, by decide,
    by decide⟩⟩

/-- **NCMD rebirth → NBIRTH seq 0 (bdSeq unchanged) + DBIRTH seq 1**: `exRun` is an accepting
schedule from `exStart`; its hand-overs are exactly the NBIRTH and the DBIRTH of device 7; at its
end every task is out of steps, the node is online and birthed in epoch 2 with bdSeq 0, the
cooldown reference is stamped, device 7 is birthed for epoch 2 -/
example : exRun.all Act.isAcc = true ∧
    (runActs exStart exRun).map (fun r => handovers r.2) =
      some [nbirthHO 0, { kind := .dbirth, dev := some 7, seq := some 1 }] ∧
    (runActs exStart exRun).map (fun r => (r.1.online, r.1.birthed, r.1.epoch, r.1.bdseq)) = some (true, true, 2, 0) ∧
    (runActs exStart exRun).map (fun r => (r.1.node, r.1.lastRebirthReq)) = some (.idle, 0) ∧
    (runActs exStart exRun).map (fun r => r.1.devs.map (fun x => (x.name, x.flag, x.epoch, x.pc))) =
      some [(7, true, 2, .idle)] ∧
    (runActs exStart exRun).map (fun r => (tasks r.1).all fun t => step r.1 t .acc == []) = some true := by decide

/-- the general theorem applied to the concrete start state -/
example : ∃ sched s' tr', (∀ a ∈ sched, a.isAcc = true) ∧ runActs exStart sched = some (s', tr') ∧ Exhausted s' ∧
    RebirthDone exStart (some 0) s' tr' := by
  obtain ⟨tr, h⟩ := exStart_reached
  exact C15L_rebirth_can_complete 0 _ exStart tr h (some 0)
    ⟨by decide, by decide, by decide, by decide, by decide, by decide, by decide, by decide, by decide, by decide⟩

/-- **inside the cooldown → nothing.** Cooldown 5000 ms. The clock is at 10000 when a first rebirth
command is granted (stamp 10000) and runs to completion; 100 ms later a second one arrives: the
node task calls `on_ncmd`, decides, and is idle again — no hand-over at all, epoch, sequence
counter and cooldown reference untouched -/
example :
    (runActs (init 5000) (exUp ++ [.stim (.advance 10000)] ++ exCmd ++ exRun ++ [.stim (.advance 100)])).bind
      (fun r => (runActs r.1 exCmd).map fun q => ((r.1.lastRebirthReq, r.1.epoch, r.1.seq), handovers q.2)) =
      some ((10000, 2, 1), []) ∧
    (runActs (init 5000) (exUp ++ [.stim (.advance 10000)] ++ exCmd ++ exRun ++ [.stim (.advance 100)] ++ exCmd)).map
      (fun r => (r.1.node, (r.1.lastRebirthReq, r.1.epoch, r.1.seq))) = some (.idle, (10000, 2, 1)) ∧
    (runActs (init 5000) (exUp ++ [.stim (.advance 10000)] ++ exCmd ++ exRun ++ [.stim (.advance 100)] ++ exCmd)).map
      (fun r => r.1.devs.map (·.nsq)) = some [[]] := by decide

/-- and the decision inputs in that second round: flag set, birthed, but `10100 - 10000 < 5000` -/
example :
    (runActs (init 5000) (exUp ++ [.stim (.advance 10000)] ++ exCmd ++ exRun ++ [.stim (.advance 100)] ++ exCmd.take 4)).map
      (fun r => (r.1.node, r.1.birthed, (r.1.wall, r.1.lastRebirthReq, r.1.cooldown),
        decide (rebirthGranted r.1 true))) =
      some (.inCb true, true, (10100, 10000, 5000), false) := by decide

/-- a command **without payload timestamp** that asks for a rebirth: dropped, `on_ncmd` not called,
nothing handed over -/
example :
    (runActs (init 0) exUp).bind (fun r =>
      (runActs r.1 [.stim (.ev (.ncmd true false)), .task .loop .acc 0, .task .loop .acc 0, .task .node .acc 0]).map
        fun q => (q.2, q.1.node, q.1.msgQ, q.1.epoch)) =
      some ([.poll, .polled .node], .idle, [], 1) := by decide

/-- **the "no pending request" hypothesis cannot be dropped.** Same start, but a
`DeviceHandle::rebirth` request for device 7 is pending when the node rebirth starts. If the device
task runs first, the trace of the rebirth is DBIRTH (seq 2, still in the old node birth), NBIRTH,
DBIRTH (seq 1): two DBIRTHs of device 7, and the NBIRTH is not the first hand-over. (Every single
hand-over is still legal: C01–C04 hold.) -/
example :
    (runActs exStart [.stim (.drebirth 7)]).map (fun r => (r.1.node, r.1.devs.map (·.hq))) =
      some (.birthStart .rebirth (some 0), [[.rebirth]]) ∧
    (runActs exStart [.stim (.drebirth 7), .task (.dev 0) .acc 0, .task (.dev 0) .acc 0, .task .node .acc 0,
        .task .node .acc 0, .task (.dev 0) .acc 0, .task (.dev 0) .acc 0, .task .loop .acc 0]).map
      (fun q => (handovers q.2, (tasks q.1).all fun t => step q.1 t .acc == [])) =
      some ([{ kind := .dbirth, dev := some 7, seq := some 2 }, nbirthHO 0,
             { kind := .dbirth, dev := some 7, seq := some 1 }], true) := by decide

/-- **the "no undelivered event" hypothesis cannot be dropped either**: with an `Offline` event
already waiting in the MQTT event loop when the rebirth starts, an accepting schedule runs the
rebirth (NBIRTH, DBIRTH) and then processes the connection loss: it ends exhausted but offline and
unbirthed, with a new will (bdSeq 1) -/
example :
    (runActs exStart ([.stim (.ev .offline)] ++ exRun ++ [.task .loop .acc 0, .task .node .acc 0, .task .loop .acc 0,
        .task .loop .acc 0, .task (.dev 0) .acc 0])).map
      (fun q => (handovers q.2, (q.1.online, q.1.birthed, q.1.bdseq), (tasks q.1).all fun t => step q.1 t .acc == [])) =
      some ([nbirthHO 0, { kind := .dbirth, dev := some 7, seq := some 1 }], (false, false, 1), true) := by decide

/-- the C04 scanner on the rebirth trace of `exRun` (what `C15L_stale_births_cannot_complete` is
about): after the rebirth's NBIRTH device 7 counts as unbirthed until its new DBIRTH is accepted -/
example : (runActs exStart exRun).map (fun r => ddataOk 7 .none (r.2.drop 2)) = some true ∧
    (runActs exStart exRun).map (fun r => r.2.take 2) =
      some [.bNode, .call 3 .nbirth none (some 0) (some 0) false .acc] := by decide

end Srad.Eon
