/-
C08, continued — convergence from EVERY reachable state of the closed loop: what the first phase of
`settle` achieves, and the exact condition under which the fault-free continuation converges.

Property theorems only (helper lemmas: `SradModel/Proofs/LoopReach.lean`; model `Model/Loop.lean`,
vocabulary `Model/LoopSpec.lean`; the earlier theorems: `Props/C08.lean`).

`C08_convergence_reachable_partial` (Props/C08.lean) ASSUMED two things about the reachable state
it starts from: (H1) both sides connected, nothing in flight, node birthed — the state after
settle's first delivery phase; (H2) `InStep → DevsBelow`. This file settles both:

* (H1) is PROVED (`C08_first_drain`, `C08_first_phase_quiet`), with one correction found by bounded
  search (`c08explore`, 15 actions, all sequences): `drain`'s fuel `toNode + #toHost` is short by
  one when a reorder timer that is running fires inside `drain` — exactly one rebirth NCMD can be
  left in flight after `drain (reconnect s)` (`C08_first_drain_leaves_ncmd`, a concrete schedule);
  with fuel `+ 1` none is left, and the second delivery phase of the same round (`timerPhase`,
  `drain`) always removes it. So the state after the TWO delivery phases of a round
  (`Sys.firstPhase`) is quiet in both directions from every reachable state.
* (H2) CANNOT be removed: it is not an invariant of the model, and where it fails the loop never
  converges (`C08_instep_devsbelow_fails`, `C08_convergence_reachable_false`): there are fault
  schedules — found by the same search: 7 actions if the host application connects late, 9 (plus
  two clock ticks) with the host connected throughout and the clock advancing before every birth,
  13 with QoS-0 loss as the only fault — after which the host is in step with
  the node (same expected sequence number, nothing buffered, no timer) yet holds a device birthed
  that the node has disabled, for good. All of them are "session confusion": the host follows the
  numbering of an OLDER node birth than the node's current one because the newer NBIRTH (QoS 0)
  was lost or ignored, and as many messages were lost as were needed for the numbers to line up.
  The u8 sequence number and the `ts < birthTs` filter cannot tell the sessions apart. With
  reordering as the only fault the search finds nothing up to 12 actions; the u8 wrap-around (one
  DBIRTH overtaken by 256 messages) does it (`C08_instep_devsbelow_fails_reorder_only`).
  In every state the search visited (10 M), "no `k ≤ 6` ends `InSync`" coincided with "(H2) fails
  after the first round's delivery phases", and every other state was `InSync` after 2 rounds —
  which is what `C08_convergence_reachable_iff` proves for all states.
* What IS true from every reachable state is proved, and it is exact:
  `C08_convergence_reachable_iff`: `settle` ends `InSync` (for some / for every `k ≥ 2`) IF AND
  ONLY IF the record left by the delivery phases of the first round satisfies `InStep → DevsBelow`.

* `C08_convergence_reachable_all_enabled`: with no registered device disabled in the state reached,
  (H2) holds by an invariant (`DevNames`: the host only knows registered devices), so convergence
  from EVERY such reachable state is proved without any assumption about the host or the broker.

Remaining model-level limits (documented, unchanged): accepting stores, one node, fewer than 255
enabled devices, cooldown 0, the FIFO settling schedule `settle`.
-/
import SradModel.Proofs.LoopReach
import SradModel.Props.C08

namespace Srad.Loop
open Srad Srad.Host

/-- **Connection bookkeeping of every reachable state** (any configuration): the broker's view of
the node's connection is the node's own (`nodeConn = online`), and an online node is birthed. -/
theorem C08_reachable_conn (c : Cfg) (devs : List Dev) (acts : List Action) :
    let s := (Sys.init c devs).run acts
    s.nodeConn = s.node.online ∧ (s.node.online = true → s.node.birthed = true) := by
  intro s
  have h := ConnInv_run acts _ (ConnInv_init c devs)
  exact ⟨h.conn, h.birthed⟩

/-- **The first delivery phase, from EVERY reachable state — with its fuel stated.**
After ANY action sequence from the initial system under the full configuration (devices registered
under distinct names, none birthed), if fewer than 255 devices are enabled: reconnect both sides
and run the delivery loop `drainNet f` with ANY fuel `f ≥ B := toNode + #toHost` (counted after the
reconnect; `Sys.drain` supplies exactly `f = B`). Then both sides are connected, nothing is in
flight towards the host, the node is online, birthed and at rest (`NodeOk`), and AT MOST ONE rebirth
NCMD is still in flight towards the node; with `f ≥ B + 1` none is.
(Why `B` is not enough: each of the `#toHost` deliveries can request one rebirth, and on top of
these a reorder timer that was already running can fire when `drainNet` advances the clock: `B + 1`
requests, `B` iterations. `C08_first_drain_leaves_ncmd` is a concrete run.) -/
theorem C08_first_drain (d : Nat) (devs : List Dev) (acts : List Action)
    (hnames : (devs.map (·.name)).Nodup) (hflags : ∀ x ∈ devs, x.flag = false) :
    let s := (Sys.init (Sys.fullCfg d) devs).run acts
    let B := (Sys.reconnect s).toNode + (Sys.reconnect s).toHost.length
    s.node.enabledNames.length < 255 → ∀ f, B ≤ f →
    let E := Sys.drainNet f (Sys.reconnect s)
    (E.nodeConn = true ∧ E.hostConn = true) ∧ E.toHost = [] ∧ NodeOk E.node ∧ E.toNode ≤ 1 ∧
    (B + 1 ≤ f → E.toNode = 0) := by
  intro s B hfew f hf E
  obtain ⟨q, t1, _, _, t0⟩ := first_drain d s (reach_run d devs acts hnames hflags) hfew f hf
  exact ⟨⟨q.nodeConn, q.hostConn⟩, q.flight, q.node, t1, t0⟩

/-- **The delivery phases of one settling round empty the broker, from EVERY reachable state.**
After ANY action sequence from the initial system under the full configuration, if fewer than 255
devices are enabled, the state `Sys.firstPhase s` = reconnect; deliver everything in flight in order
(NCMDs and the births they cause included, `drain`); let a running reorder timeout expire; `drain`
again — has both sides connected, NOTHING in flight in either direction, the node online, birthed
and at rest, and the host's record without a timer and with an empty buffer (and, being reachable,
`HostInv`, `TimerOk`, `Coherent`). This discharges hypothesis (H1) of
`C08_convergence_reachable_partial`. -/
theorem C08_first_phase_quiet (d : Nat) (devs : List Dev) (acts : List Action)
    (hnames : (devs.map (·.name)).Nodup) (hflags : ∀ x ∈ devs, x.flag = false) :
    let s := (Sys.init (Sys.fullCfg d) devs).run acts
    let p := Sys.firstPhase s
    s.node.enabledNames.length < 255 →
    (p.nodeConn = true ∧ p.hostConn = true) ∧ (p.toHost = [] ∧ p.toNode = 0) ∧ NodeOk p.node ∧
    p.host.timer = .none ∧ p.host.reseq.buf = [] ∧
    HostInv p.host ∧ TimerOk p.host ∧ Coherent p.host p.clock := by
  intro s p hfew
  have hp := firstPhase_spec d s (reach_run d devs acts hnames hflags) hfew
  refine ⟨⟨hp.quiet.nodeConn, hp.quiet.hostConn⟩, ⟨hp.quiet.flight, hp.toNode⟩, hp.quiet.node, hp.pre.timer, ?_,
    hp.pre.inv, hp.timerOk, ⟨hp.pre.birthTs, hp.pre.staleTs⟩⟩
  cases hl : p.host.life with
  | stale => rw [(hp.pre.inv.2.1 hl).1]; rfl
  | birthed =>
    have := hp.pre.inv.1.2
    rw [hp.good hl] at this
    exact this

/-
Full statement aimed at: "from EVERY reachable state (fewer than 255 enabled devices) some number of
`settle` rounds ends `InSync`, and it stays." This is FALSE in the model
(`C08_convergence_reachable_false`). Proved instead: the exact condition.
-/

/-- **Convergence from every reachable state — the exact condition.**
After ANY action sequence (any faults) from the initial system under the full configuration, with
fewer than 255 devices enabled, let `p` be the state after the delivery phases of the first round
(`Sys.firstPhase`, quiet by `C08_first_phase_quiet`). Then the following are equivalent:
(1) some positive number of `settle` rounds ends `InSync`;
(2) every number `k ≥ 2` of rounds ends `InSync`;
(3) the host's record in `p` is not "in step with the node while holding a device birthed that the
    node has not enabled" (`InStep → DevsBelow`).
Nothing else is assumed: connection state, messages in flight, NCMDs in flight, the host's record
are whatever the faults left. (3) holds in particular whenever the host's record in `p` is stale,
expects another sequence number, or was (re)built by a rebirth during the delivery phases. -/
theorem C08_convergence_reachable_iff (d : Nat) (devs : List Dev) (acts : List Action)
    (hnames : (devs.map (·.name)).Nodup) (hflags : ∀ x ∈ devs, x.flag = false) :
    let s := (Sys.init (Sys.fullCfg d) devs).run acts
    let p := Sys.firstPhase s
    s.node.enabledNames.length < 255 →
    ((∃ k, 0 < k ∧ Sys.InSync (Sys.settle k s).1 (Sys.settle k s).2 = true) ↔
      (InStep p.host p.node → DevsBelow p.host p.node)) ∧
    ((InStep p.host p.node → DevsBelow p.host p.node) →
      ∀ k, Sys.InSync (Sys.settle (k + 2) s).1 (Sys.settle (k + 2) s).2 = true) := by
  intro s p hfew
  have hr := reach_run d devs acts hnames hflags
  have hpos : (InStep p.host p.node → DevsBelow p.host p.node) →
      ∀ k, Sys.InSync (Sys.settle (k + 2) s).1 (Sys.settle (k + 2) s).2 = true := by
    intro hb k
    have h1 := round_reach d s hr hfew hb
    rw [settle_shift]
    exact (settle_more d _ h1 (k + 1)).2 (by omega)
  refine ⟨⟨?_, fun hb => ⟨2, by omega, hpos hb 0⟩⟩, hpos⟩
  intro ⟨k, hk, hsync⟩ hi
  apply Classical.byContradiction
  intro hnb
  obtain ⟨e, hst⟩ := (firstPhase_spec d s hr hfew).stuck hi hnb
  have hst1 : Stuck d (Sys.round s).1 e := by rw [round_eq]; exact hst.pub
  have hfst : ∀ j, (Sys.settle (j + 1) s).1 = (Sys.settle j (Sys.round s).1).1 := by
    intro j
    cases j with
    | zero => rfl
    | succ j => rw [settle_shift]
  obtain ⟨j, rfl⟩ : ∃ j, k = j + 1 := ⟨k - 1, by omega⟩
  have := (hst1.settle j).notInSync (Sys.settle (j + 1) s).2
  rw [← hfst j] at this
  rw [this] at hsync
  cases hsync

/-- **Convergence from every reachable state, as an implication** (the form of
`C08_convergence_reachable_partial`, with hypothesis (H1) gone and (H2) moved to the state after the
first round's delivery phases): two rounds of `settle` end `InSync`. PARTIAL only in that (H2)
remains — and by `C08_convergence_reachable_iff` it has to. -/
theorem C08_convergence_from_reachable_partial (d : Nat) (devs : List Dev) (acts : List Action)
    (hnames : (devs.map (·.name)).Nodup) (hflags : ∀ x ∈ devs, x.flag = false) :
    let s := (Sys.init (Sys.fullCfg d) devs).run acts
    s.node.enabledNames.length < 255 →
    (InStep (Sys.firstPhase s).host (Sys.firstPhase s).node →
      DevsBelow (Sys.firstPhase s).host (Sys.firstPhase s).node) →
    Sys.InSync (Sys.settle 2 s).1 (Sys.settle 2 s).2 = true := by
  intro s hfew hb
  exact (C08_convergence_reachable_iff d devs acts hnames hflags hfew).2 hb 0

/-- … and it stays, for every number of rounds `k ≥ 2`. -/
theorem C08_stays_in_sync_reachable (d : Nat) (devs : List Dev) (acts : List Action) (k : Nat)
    (hnames : (devs.map (·.name)).Nodup) (hflags : ∀ x ∈ devs, x.flag = false) :
    let s := (Sys.init (Sys.fullCfg d) devs).run acts
    s.node.enabledNames.length < 255 →
    (InStep (Sys.firstPhase s).host (Sys.firstPhase s).node →
      DevsBelow (Sys.firstPhase s).host (Sys.firstPhase s).node) →
    Sys.InSync (Sys.settle (k + 2) s).1 (Sys.settle (k + 2) s).2 = true := by
  intro s hfew hb
  exact (C08_convergence_reachable_iff d devs acts hnames hflags hfew).2 hb k

/-- **Convergence from EVERY reachable state in which no registered device is disabled** — no
hypothesis about the host's record, the messages in flight or the fault history at all.
After ANY action sequence (any faults; devices may have been disabled and enabled again on the way)
from the initial system under the full configuration: if in the state reached every registered
device is enabled (fewer than 255 of them), then every number `k ≥ 2` of `settle` rounds ends
`InSync`. (The host only ever learns device names from DBIRTHs the node handed over, so it knows
registered devices only — `DevNames`, an invariant of the composed system — and with all of them
enabled "`InStep → DevsBelow`" holds trivially. The schedules below need a disabled device.) -/
theorem C08_convergence_reachable_all_enabled (d : Nat) (devs : List Dev) (acts : List Action) (k : Nat)
    (hnames : (devs.map (·.name)).Nodup) (hflags : ∀ x ∈ devs, x.flag = false) :
    let s := (Sys.init (Sys.fullCfg d) devs).run acts
    (∀ x ∈ s.node.devs, x.enabled = true) → s.node.enabledNames.length < 255 →
    Sys.InSync (Sys.settle (k + 2) s).1 (Sys.settle (k + 2) s).2 = true := by
  intro s hall hfew
  refine (C08_convergence_reachable_iff d devs acts hnames hflags hfew).2 (fun _ => ?_) k
  have hst := firstPhase_steps s
  have hdn : DevNames (Sys.firstPhase s) := DevNames_steps hst (DevNames_run acts _ (DevNames_init _ devs))
  refine allEnabled_below _ hdn ?_
  rw [allEnabled_sig, steps_sig hst, ← allEnabled_sig]
  exact hall

/-! ### (H2) cannot be removed: the schedules found by bounded search -/

/-- one registered device, disabled -/
def exOneDev : List Dev := [{ name := 1 }]

/-- **Session confusion (host connected throughout, the clock advances before every birth).**
  1. the host application is connected; the node connects at t=2: NBIRTH(bd 0, t=2) in flight;
  2. device 1 is enabled (DBIRTH seq 1) and disabled again (DDEATH seq 2);
  3. REORDER: the DDEATH overtakes NBIRTH and DBIRTH and reaches the host, which knows no birth of
     this node: it publishes a rebirth NCMD;
  4. t=3: the NCMD reaches the node, which births again: NBIRTH(t=3), no DBIRTH (device disabled),
     and then publishes one NDATA (seq 1);
  5. LOSS (QoS 0): that second NBIRTH and the NDATA are dropped by the broker;
  6. the delayed first NBIRTH(t=2) and DBIRTH(seq 1) are delivered at last (settle's delivery phase).
The host has applied NBIRTH(t=2), DBIRTH seq 1 and expects seq 2; the node (second birth, one
NDATA) will send seq 2 next: in step, nothing buffered, no timer, nothing in flight — and the host
holds device 1 birthed although it is disabled. Nothing the node will ever send reveals it. -/
def exConfused : List Action :=
  [.hostConnect, .advance 1, .nodeConnect, .enable 1, .disable 1, .deliver 2,
   .advance 1, .deliverNcmd, .publishNode, .drop 2, .drop 2]

/-- **(H2) is not an invariant**: after `exConfused`, the state left by the delivery phases is quiet,
the host is `InStep`, and it holds device 1 birthed, which the node has not enabled. -/
theorem C08_instep_devsbelow_fails :
    let s := (Sys.init (Sys.fullCfg 100) exOneDev).run exConfused
    let p := Sys.firstPhase s
    InStep p.host p.node ∧ ¬ DevsBelow p.host p.node ∧
    Host.findDev 1 p.host.devices = some .birthed ∧ p.node.enabledNames = [] := by
  intro s p
  refine ⟨⟨by decide, by decide, by decide, by decide, by decide⟩, ?_, by decide, by decide⟩
  intro h
  have := h 1 (by decide)
  revert this
  decide

/-- **The full statement is false in the model**: there is a reachable state (one registered
device, none enabled) from which NO number of `settle` rounds ends `InSync`. -/
theorem C08_convergence_reachable_false :
    let s := (Sys.init (Sys.fullCfg 100) exOneDev).run exConfused
    ∀ k, 0 < k → Sys.InSync (Sys.settle k s).1 (Sys.settle k s).2 = false := by
  intro s k hk
  have hiff := (C08_convergence_reachable_iff 100 exOneDev exConfused (by decide) (by decide)
    (by decide : ((Sys.init (Sys.fullCfg 100) exOneDev).run exConfused).node.enabledNames.length < 255)).1
  cases hs : Sys.InSync (Sys.settle k s).1 (Sys.settle k s).2 with
  | false => rfl
  | true =>
    exfalso
    have hb := hiff.mp ⟨k, hk, hs⟩
    obtain ⟨h1, h2, _, _⟩ := C08_instep_devsbelow_fails
    exact h2 (hb h1)

/-- **Session confusion by LOSS ALONE** (no reordering, no duplicate, host connected throughout,
the clock advances before every birth; only QoS-0 messages are dropped):
  1. host connected; t=2 the node connects: NBIRTH(t=2); it publishes NDATA seq 1, NDATA seq 2 and
     enables device 1: DBIRTH seq 3;
  2. the host receives NBIRTH(t=2); LOSS: NDATA seq 1 is dropped;
  3. t=3 manual rebirth: NBIRTH(t=3), DBIRTH seq 1 (device 1 is enabled); LOSS: NDATA seq 2 dropped;
  4. device 1 is disabled: DDEATH seq 2; LOSS: the NBIRTH(t=3) is dropped;
  5. the node publishes NDATA seq 3; LOSS: dropped.
In flight, in publish order: DBIRTH seq 3 (first birth), DBIRTH seq 1, DDEATH seq 2 (second birth).
Delivered in that order: seq 3 is buffered behind the gap, seq 1 is applied (device birthed), seq 2
is applied (device stale), the buffered DBIRTH seq 3 OF THE FIRST BIRTH is released and applied:
device birthed. The host expects seq 4, the node (seq 3) will send 4: in step for good, device 1
held birthed although disabled. -/
def exConfusedLossOnly : List Action :=
  [.hostConnect, .advance 1, .nodeConnect, .publishNode, .publishNode, .enable 1, .deliver 0, .drop 0,
   .advance 1, .manualRebirth, .drop 0, .disable 1, .drop 1, .publishNode, .drop 3]

theorem C08_instep_devsbelow_fails_loss_only :
    let s := (Sys.init (Sys.fullCfg 100) exOneDev).run exConfusedLossOnly
    let p := Sys.firstPhase s
    s.toHost.map Msg.dataShape = [none, none, none] ∧
    InStep p.host p.node ∧ ¬ DevsBelow p.host p.node ∧
    Host.findDev 1 p.host.devices = some .birthed ∧ p.node.enabledNames = [] ∧
    (∀ k, 0 < k → k ≤ 6 → Sys.InSync (Sys.settle k s).1 (Sys.settle k s).2 = false) := by
  intro s p
  refine ⟨by decide, ⟨by decide, by decide, by decide, by decide, by decide⟩, ?_, by decide, by decide, ?_⟩
  · intro h
    have := h 1 (by decide)
    revert this
    decide
  · intro k h1 h2
    have : k = 1 ∨ k = 2 ∨ k = 3 ∨ k = 4 ∨ k = 5 ∨ k = 6 := by omega
    rcases this with rfl | rfl | rfl | rfl | rfl | rfl <;> decide

/-- **Session confusion by REORDERING ALONE** (no loss, no duplicate, host connected throughout,
the clock advances before the rebirth) — the u8 wrap-around:
  1. a first birth makes device 1 known to the host (enabled, disabled again; all delivered);
  2. t=2 manual rebirth, delivered; device 1 is enabled: DBIRTH seq 1 — DELAYED by the broker;
     device 1 is disabled: DDEATH seq 2, delivered (buffered behind the gap, timer armed);
  3. the node publishes 254 NDATA (seq 3 … 255, 0), all delivered and buffered, then NDATA seq 1 of
     the SECOND lap, delivered: it is the expected number, so it and the whole buffer are applied
     (device 1 stale), the timer is cancelled, the host expects seq 1 again;
  4. the delayed DBIRTH seq 1 arrives (settle's delivery phase): applied, device 1 birthed; the host
     expects seq 2, and so does the node.
256 messages overtook one. (One kernel evaluation of the 521 actions: a few seconds.) -/
def exWrap : List Action :=
  [.hostConnect, .nodeConnect, .deliver 0, .enable 1, .deliver 0, .disable 1, .deliver 0,
   .advance 1, .manualRebirth, .deliver 0, .enable 1, .disable 1, .deliver 1] ++
  (List.replicate 254 [Action.publishNode, .deliver 1]).flatten ++ [.publishNode, .deliver 1]

theorem C08_instep_devsbelow_fails_reorder_only :
    let s := (Sys.init (Sys.fullCfg 100) exOneDev).run exWrap
    let p := Sys.firstPhase s
    s.toHost.length = 1 ∧ InStep p.host p.node ∧ ¬ DevsBelow p.host p.node := by
  intro s p
  have h : (decide (s.toHost.length = 1) && inStepB p.host p.node &&
      decide (Host.findDev 1 p.host.devices = some .birthed) && decide (p.node.enabledNames = [])) = true := by
    decide +kernel
  simp only [Bool.and_eq_true, decide_eq_true_eq] at h
  obtain ⟨⟨⟨h1, h2⟩, h3⟩, h4⟩ := h
  refine ⟨h1, inStep_of_b _ _ h2, fun hb => ?_⟩
  have := hb 1 h3
  rw [h4] at this
  cases this

/-- **`drain`'s fuel is short by one**: connect; two NDATA are published; the host receives the
first NDATA before the NBIRTH (it requests a rebirth: one NCMD in flight), then NBIRTH, then the
second NDATA (a gap: the reorder timer is armed, timeout 2); one clock tick. Now `drain (reconnect s)`
has fuel 1: its only iteration lets the timer fire (a second NCMD) and serves one NCMD; the other
one is still in flight when it returns. The next delivery phase of the round serves it. -/
def exShortFuel : List Action :=
  [.hostConnect, .nodeConnect, .publishNode, .publishNode, .deliver 1, .deliver 0, .deliver 0, .advance 1]

theorem C08_first_drain_leaves_ncmd :
    let s := (Sys.init (Sys.fullCfg 2) []).run exShortFuel
    (Sys.drain (Sys.reconnect s)).toNode = 1 ∧ (Sys.firstPhase s).toNode = 0 ∧
    Sys.InSync (Sys.settle 2 s).1 (Sys.settle 2 s).2 = true := by decide

/-! ### non-vacuity -/

/-- `C08_first_drain` / `C08_first_phase_quiet` on the two faulty runs of `Props/C08.lean`: the
lossy one ends with a gap and the timer armed, the reconnect one with the host stale, four messages
in flight and the node reconnected under a new bdSeq; in both the delivery phases end quiet. -/
example :
    let s := (Sys.init (Sys.fullCfg 100) exDevs).run exLossy
    let p := Sys.firstPhase s
    s.host.timer = .armed 102 ∧ p.toHost = [] ∧ p.toNode = 0 ∧ p.host.timer = .none ∧
    p.host.life = .birthed ∧ p.clock = 103 := by decide

example :
    let s := (Sys.init (Sys.fullCfg 100) exDevs).run exReconnect
    let p := Sys.firstPhase s
    s.toHost.length = 4 ∧ s.host.life = .stale ∧ p.toHost = [] ∧ p.toNode = 0 ∧ p.host.life = .birthed ∧
    p.host.devices = [(1, .birthed), (3, .stale), (2, .birthed)] := by decide

/-- the hypotheses of `C08_convergence_from_reachable_partial` hold of a faulty reachable state that
is neither quiet nor in sync: `exReconnect` (in flight: NDEATH … NBIRTH DBIRTH DBIRTH; after the
delivery phases the host is in step and holds exactly the enabled devices birthed) -/
example :
    let s := (Sys.init (Sys.fullCfg 100) exDevs).run exReconnect
    s.node.enabledNames.length < 255 ∧ s.toHost ≠ [] ∧ Sys.InSync s [] = false ∧
    (InStep (Sys.firstPhase s).host (Sys.firstPhase s).node →
      DevsBelow (Sys.firstPhase s).host (Sys.firstPhase s).node) :=
  ⟨by decide, by decide, by decide, fun _ => devsBelow_of_all _ _ (by decide)⟩

/-- … and of a state in which the theorem's conclusion needs a rebirth: the host connected late,
lost the births, and the publishes hit a stale record -/
example :
    let s := (Sys.init (Sys.fullCfg 100) exDevs).run
      [.nodeConnect, .deliver 0, .deliver 0, .deliver 0, .hostConnect, .publishNode, .publishDev 3, .drop 0]
    s.toHost.length = 1 ∧ s.host.life = .stale ∧
    (InStep (Sys.firstPhase s).host (Sys.firstPhase s).node →
      DevsBelow (Sys.firstPhase s).host (Sys.firstPhase s).node) ∧
    Sys.InSync (Sys.settle 2 s).1 (Sys.settle 2 s).2 = true :=
  ⟨by decide, by decide, fun _ => devsBelow_of_all _ _ (by decide), by decide⟩

/-- `C08_convergence_reachable_all_enabled` applies to a faulty state: two devices, both enabled;
the lossy run of `Props/C08.lean` (a DDATA lost, the next one buffered behind the gap, timer armed) -/
example :
    let s := (Sys.init (Sys.fullCfg 100) [{ name := 1, enabled := true }, { name := 3, enabled := true }]).run exLossy
    (∀ x ∈ s.node.devs, x.enabled = true) ∧ s.node.enabledNames.length < 255 ∧
    s.host.timer = .armed 102 ∧ Sys.InSync s [] = false ∧
    Sys.InSync (Sys.settle 2 s).1 (Sys.settle 2 s).2 = true := by decide

end Srad.Loop
