/-
C08, continued — fault-free schedules while the fault history is still in flight.  PARTIAL.

Property theorems only (helper lemmas: `Proofs/LoopSched2.lean`; executable vocabulary:
`Model/LoopSched2.lean`; earlier: `Props/C08Sched.lean`, C08S_*).

Left open by C08S_*: arbitrary fault-free interleavings WHILE messages of the fault history are in
flight or the host waits behind a gap, and the exact role of the condition `ticked`.

* RECOVERABILITY AS AN INVARIANT (`C08T_safe_invariant`, `C08T_recoverable_invariant`,
  `C08T_convergence_any_continuation`): `Sys.safe` — no DBIRTH of a device that is not enabled is
  pending anywhere (applied at the host, buffered by it, or in flight) — is a decidable predicate of
  the state at the moment the faults stop; it is preserved by EVERY action except the operator's
  `enable` / `disable` (every fault and every fault-free action, ticked or not), and it implies (H2)
  after quiescing. So from a safe reachable state no continuation whatsoever without switch flips
  leaves the set of states from which two generalised rounds end `InSync`.
* (H2)-RECOVERABILITY IS NOT AN INVARIANT OF UNTICKED FAULT-FREE SCHEDULES
  (`C08T_untick_destroys_recoverability`, a finding): there is a reachable state that is NOT safe but
  recoverable ((H2) holds after quiescing; `settle 2` ends `InSync`) from which ONE fault-free action —
  the delivery of the NCMD in flight at the clock reading of the node's birth — leads to a state that
  is stuck for ever (session confusion); with one clock tick before it, it stays recoverable. The
  rebirth it competes with came from `nodeConnect`, not from an NCMD: the precise condition is
  "an NCMD reaches the node while the clock still reads the timestamp of the newest NBIRTH in the
  pipeline" (`Sys.sameTickNcmd`), not "two NCMD deliveries at one reading".
* THE SAME-TICK CONDITION, EXACTLY (`C08T_healing_step`-family): from a calm point — nothing in flight
  towards the host, no timer, the host's record stale or in step (`Sys.calmPoint`, decidable) — EVERY
  fault-free step that is not `sameTickNcmd` keeps the system on the healing track; `ticked` implies
  "no same-tick step" (`C08T_ticked_is_sufficient`) and is strictly stronger (example); a same-tick
  NCMD delivery is harmless when it causes no DBIRTH (`C08T_same_tick_harmless_without_births`) and
  fatal for "in sync after draining" otherwise (`C08S_same_tick_rebirths_out_of_sync`).
* G1 WITH A DECIDABLE PROGRESS PREDICATE ON THE SCHEDULE (`C08T_convergence_fair`): from EVERY reachable
  state — whatever is in flight, whatever the host's record, timer running or not; no (H2), no `safe`
  — every fault-free schedule `σ` with `Sys.fairEnough s σ` (at some position the run is at a calm
  point, and no later step is a same-tick NCMD delivery), followed by `drain`, one publish, `drain`,
  ends with the in-sync view.

* RECOVERABLE STATES THAT ARE NOT SAFE (`C08T_recoverable_invariant_ff`, `C08T_recoverable_invariant_ticked`,
  `C08T_recoverable_converges`, `C08T_stale_tick_leaves_recoverable`): `Sys.Recoverable` = connected and
  (safe, or a newer NBIRTH in flight with only enabled DBIRTHs behind it, or an NCMD in flight) is
  preserved by every fault-free step EXCEPT an NCMD delivery at a clock reading that an NBIRTH in the
  pipeline already carries (`Sys.staleTickNcmd`); `ticked` excludes such steps; recoverable states
  converge under two generalised rounds; and the excluded step does lead out (the witness above).

NOT proved: that EVERY state satisfying (H2)-after-quiescing stays so under ticked fault-free
schedules (`Recoverable` covers `safe`, pending rebirths and newer births in flight, not e.g. a host
that holds a disabled device birthed but is out of step with nothing pending); a purely syntactic
progress condition (one that does not evaluate the run) for states
whose host waits behind a gap.
-/
import SradModel.Proofs.LoopSched2
import SradModel.Props.C08Sched

namespace Srad.Loop
open Srad Srad.Host

/-! ### recoverability as an invariant -/

/-- **`safe` is preserved by every action except `enable` / `disable`.** ANY state (any
configuration), any action sequence `σ` — fault-free or not: reordering, duplication, loss, NCMD
loss, disconnects, manual rebirths, NCMD deliveries at any clock reading — in which the operator does
not flip a device switch: if no DBIRTH of a not-enabled device is pending anywhere before, none is
afterwards, and the set of enabled devices is the same. -/
theorem C08T_safe_invariant (s : Sys) (σ : List Action) (hs : Sys.safe s = true)
    (hσ : σ.all Action.keepsSwitches = true) :
    Sys.safe (s.run σ) = true ∧ (s.run σ).node.enabledNames = s.node.enabledNames :=
  ⟨(safe_iff _).mpr (Safe_run σ s ((safe_iff s).mp hs) hσ), run_keeps_enabledNames σ s hσ⟩

/-- **`safe` implies (H2) after quiescing** (any state): the record left by the delivery phases of a
round holds no device birthed that the node has not enabled. -/
theorem C08T_safe_gives_H2 (s : Sys) (hs : Sys.safe s = true) :
    DevsBelow (Sys.quiesce s).host (Sys.quiesce s).node :=
  (Safe_frun ((safe_iff s).mp hs) (firstPhase_frun s)).below

/-- `DevsBelow` alone does not make a state safe for ever — `disable` is the one action that can
break it; concretely: in sync, then the operator disables device 1: the DDEATH is in flight, but so
would be any delayed DBIRTH. (Shown here only as the boundary of the invariant: after `disable` of a
device whose DBIRTH is still in flight the state is not `safe`.) -/
theorem C08T_disable_breaks_safe :
    let s := (Sys.init (Sys.fullCfg 100) exDevs).run [.hostConnect, .nodeConnect]
    Sys.safe s = true ∧ Sys.safe (s.step (.disable 1)) = false := by decide

/-- **Recoverability is an invariant.** After ANY action sequence `acts` from the initial system
under the full configuration, if the state reached is `safe` and fewer than 255 devices are enabled,
then after ANY further action sequence `σ0` without `enable` / `disable` — more faults, fault-free
actions in any interleaving, NCMD deliveries at any clock reading; no `ticked` condition — the state
is again reachable, `safe`, has the same enabled devices, and satisfies (H2) after quiescing: it is a
state from which `C08S_convergence_schedules_partial` applies. -/
theorem C08T_recoverable_invariant (d : Nat) (devs : List Dev) (acts σ0 : List Action) :
    let s := (Sys.init (Sys.fullCfg d) devs).run acts
    let s' := (Sys.init (Sys.fullCfg d) devs).run (acts ++ σ0)
    s.node.enabledNames.length < 255 → Sys.safe s = true → σ0.all Action.keepsSwitches = true →
    s' = s.run σ0 ∧ s'.node.enabledNames.length < 255 ∧ Sys.safe s' = true ∧
    (InStep (Sys.quiesce s').host (Sys.quiesce s').node → DevsBelow (Sys.quiesce s').host (Sys.quiesce s').node) := by
  intro s s' hfew hs hσ
  have he : s' = s.run σ0 := run_append acts σ0 _
  obtain ⟨a1, a2⟩ := C08T_safe_invariant s σ0 hs hσ
  rw [← he] at a1 a2
  exact ⟨he, by rw [a2]; exact hfew, a1, fun _ => C08T_safe_gives_H2 s' a1⟩

/-- **Convergence after any continuation.** After ANY fault history `acts`, if the state reached is
`safe` (fewer than 255 devices enabled): let `σ0` be ANY continuation without `enable` / `disable`
(in particular any fault-free schedule, of any length, in any interleaving, while the messages of the
fault history are still in flight and whatever the host is waiting for), then `k ≥ 2` generalised
rounds `σs` (publishes interleaved with FIFO deliveries), then ANY fault-free schedule `τ`. Then the
system is `InSync` after the rounds, in sync up to what is in flight after `τ`, has the in-sync view
after `drain`, and — if `σ0` is fault-free — the whole is a fault-free schedule. (H2) is not assumed:
it follows from `safe`, which is checked on the state at the moment the faults stop. -/
theorem C08T_convergence_any_continuation (d : Nat) (devs : List Dev) (acts σ0 : List Action)
    (σs : List (List Action)) (τ : List Action)
    (hnames : (devs.map (·.name)).Nodup) (hflags : ∀ x ∈ devs, x.flag = false) :
    let s := (Sys.init (Sys.fullCfg d) devs).run acts
    let s' := (Sys.init (Sys.fullCfg d) devs).run (acts ++ σ0)
    s.node.enabledNames.length < 255 → Sys.safe s = true → σ0.all Action.keepsSwitches = true →
    Sys.roundsOk σs s' = true → 2 ≤ σs.length → FaultFree τ = true →
    let g := (Sys.gSettle σs s').1
    Sys.InSync g (Sys.gSettle σs s').2 = true ∧
    Sys.syncUpTo (g.run τ) = true ∧
    Sys.InSyncView (Sys.drain (g.run τ)) = true ∧
    (FaultFree σ0 = true → ∃ sched, FaultFree sched = true ∧ s.run sched = Sys.drain (g.run τ)) := by
  intro s s' hfew hs hσ hok hlen hff g
  obtain ⟨he, r1, _, r3⟩ := C08T_recoverable_invariant d devs acts σ0 hfew hs hσ
  obtain ⟨c1, c2, _, c4, _, sched, c6, c7⟩ :=
    C08S_convergence_schedules_partial d devs (acts ++ σ0) σs τ hnames hflags r1 r3 hok hlen hff
  refine ⟨c1, c2, c4, fun h0 => ⟨σ0 ++ sched, ?_, ?_⟩⟩
  · simp only [FaultFree, List.all_append, Bool.and_eq_true] at h0 c6 ⊢
    exact ⟨h0, c6⟩
  · rw [run_append]
    have : s.run σ0 = s' := he.symm
    rw [this]; exact c7

/-! ### (H2)-recoverability is not an invariant without the tick -/

/-- host connected, the node connects at t=2 (NBIRTH), publishes 255 NDATA (seq 1…255), device 1 is
enabled (DBIRTH seq 0, the wrap) and disabled again (DDEATH seq 1); the broker delivers the DDEATH
FIRST (reordering, the only fault): the host knows no birth of this node and requests a rebirth.
In flight: NBIRTH(2), 255 NDATA, DBIRTH(1); one NCMD; the clock still reads 2. -/
def exWrapTick : List Action :=
  [.hostConnect, .advance 1, .nodeConnect] ++ List.replicate 255 Action.publishNode ++
  [.enable 1, .disable 1, .deliver 257]

/-- **One unticked NCMD delivery destroys recoverability** (finding). The state `s` after `exWrapTick`
is reachable, NOT `safe` (a DBIRTH of the disabled device 1 is in flight), yet recoverable: `settle 2`
ends `InSync` (the delivery phases tick before the NCMD reaches the node; the rebirth's NBIRTH(3)
wipes the old session). `Sys.sameTickNcmd s .deliverNcmd` holds: the clock reads 2 = the timestamp
of the NBIRTH in flight. After this ONE fault-free action the node has birthed again with timestamp 2
(no DBIRTH, device 1 is disabled; its number restarts at 0); quiescing delivers the first session
(256 numbers: the host expects 1 again and holds device 1 birthed) and then the second NBIRTH, which
the host ignores (`ts ≤ birthTs`); host and node are in step, nothing is in flight, no timer — and
device 1 stays birthed at the host for ever: no number of `settle` rounds ends `InSync`
(`C08_convergence_reachable_iff`). With a clock tick before the delivery everything is fine. -/
theorem C08T_untick_destroys_recoverability :
    let s := (Sys.init (Sys.fullCfg 100) exOneDev).run exWrapTick
    let a := s.step .deliverNcmd
    let b := (s.step (.advance 1)).step .deliverNcmd
    Sys.safe s = false ∧ Sys.sameTickNcmd s .deliverNcmd = true ∧
    Sys.InSync (Sys.settle 2 s).1 (Sys.settle 2 s).2 = true ∧
    (InStep (Sys.quiesce a).host (Sys.quiesce a).node ∧ ¬ DevsBelow (Sys.quiesce a).host (Sys.quiesce a).node) ∧
    (∀ k, 0 < k → Sys.InSync (Sys.settle k a).1 (Sys.settle k a).2 = false) ∧
    Sys.InSync (Sys.settle 2 b).1 (Sys.settle 2 b).2 = true := by
  intro s a b
  have hb : (decide (Sys.safe s = false) && Sys.sameTickNcmd s .deliverNcmd &&
      Sys.InSync (Sys.settle 2 s).1 (Sys.settle 2 s).2 &&
      inStepB (Sys.quiesce a).host (Sys.quiesce a).node &&
      decide (Host.findDev 1 (Sys.quiesce a).host.devices = some .birthed) &&
      decide ((Sys.quiesce a).node.enabledNames = []) &&
      Sys.InSync (Sys.settle 2 b).1 (Sys.settle 2 b).2) = true := by decide +kernel
  simp only [Bool.and_eq_true, decide_eq_true_eq] at hb
  obtain ⟨⟨⟨⟨⟨⟨h1, h2⟩, h3⟩, h4⟩, h5⟩, h6⟩, h7⟩ := hb
  have hin : InStep (Sys.quiesce a).host (Sys.quiesce a).node := inStep_of_b _ _ h4
  have hnb : ¬ DevsBelow (Sys.quiesce a).host (Sys.quiesce a).node := by
    intro hbelow
    have := hbelow 1 h5
    rw [h6] at this
    cases this
  refine ⟨h1, h2, h3, ⟨hin, hnb⟩, ?_, h7⟩
  intro k hk
  have ha : a = (Sys.init (Sys.fullCfg 100) exOneDev).run (exWrapTick ++ [.deliverNcmd]) := by
    show s.step .deliverNcmd = _
    rw [run_append]; rfl
  have hfew : a.node.enabledNames.length < 255 := by
    have : a.node.enabledNames = (Sys.quiesce a).node.enabledNames :=
      (steps_enabledNames (firstPhase_steps a)).symm
    rw [this, h6]; decide
  have hiff := (C08_convergence_reachable_iff 100 exOneDev (exWrapTick ++ [.deliverNcmd]) (by decide) (by decide)
    (by rw [← ha]; exact hfew)).1
  cases hs : Sys.InSync (Sys.settle k a).1 (Sys.settle k a).2 with
  | false => rfl
  | true =>
    exfalso
    have := hiff.mp ⟨k, hk, by rw [← ha]; exact hs⟩
    rw [← ha] at this
    exact hnb (this hin)

/-! ### recoverable states that are not safe: the stale-tick NCMD delivery is the only way out -/

/-- **`Recoverable` is preserved by every fault-free step that is not a stale-tick NCMD delivery.**
`Sys.Recoverable s`: both sides connected, and `s` is `safe`, or a NEWER NBIRTH is in flight
(`Sys.FreshBirth`: newer than the birth the host follows and than every NBIRTH in front of it, every
DBIRTH behind it of an enabled device), or a rebirth NCMD is in flight (the rebirth is still to come).
After ANY action sequence from the initial system under the full configuration: if the state reached
is recoverable, then so is the state after EVERY fault-free schedule `σ` none of whose steps delivers
an NCMD at a clock reading that an NBIRTH in the pipeline already carries (`Sys.noStaleTick s σ`,
decidable). Deliveries, publishes, clock advances of any size, NCMD deliveries at fresh readings may
interleave in any way, while messages of the fault history — DBIRTHs of disabled devices included —
are still in flight and whatever the host's record holds. -/
theorem C08T_recoverable_invariant_ff (d : Nat) (devs : List Dev) (acts σ : List Action)
    (hnames : (devs.map (·.name)).Nodup) (hflags : ∀ x ∈ devs, x.flag = false) :
    let s := (Sys.init (Sys.fullCfg d) devs).run acts
    Sys.Recoverable s → FaultFree σ = true → Sys.noStaleTick s σ = true → Sys.Recoverable (s.run σ) := by
  intro s hrec hff hns
  exact ((⟨reach_run d devs acts hnames hflags, hrec⟩ : Rec d s).run σ hff hns).ok

/-- **`Recoverable s → FaultFree σ → ticked σ → Recoverable (s.run σ)`.** The syntactic condition
`ticked false σ` (the clock advances by at least 1 before each NCMD delivery) implies that no step is
a stale-tick NCMD delivery, from every reachable state with both sides connected; so every ticked
fault-free schedule keeps a recoverable reachable state recoverable. -/
theorem C08T_recoverable_invariant_ticked (d : Nat) (devs : List Dev) (acts σ : List Action)
    (hnames : (devs.map (·.name)).Nodup) (hflags : ∀ x ∈ devs, x.flag = false) :
    let s := (Sys.init (Sys.fullCfg d) devs).run acts
    Sys.Recoverable s → FaultFree σ = true → ticked false σ = true →
    Sys.noStaleTick s σ = true ∧ Sys.Recoverable (s.run σ) := by
  intro s hrec hff htk
  have hr := reach_run d devs acts hnames hflags
  have hns := ticked_noStaleTick d σ hr hrec.1 hrec.2.1 (fun hb => by cases hb) hff htk
  exact ⟨hns, ((⟨hr, hrec⟩ : Rec d s).run σ hff hns).ok⟩

/-- **`Recoverable` gives convergence.** After ANY action sequence from the initial system under the
full configuration, fewer than 255 devices enabled: if the state reached is recoverable, then after any
fault-free schedule `σ0` without a stale-tick NCMD delivery the record left by the delivery phases of a
round satisfies (H2), and `k ≥ 2` generalised rounds followed by ANY fault-free schedule `τ` and
`drain` end with the in-sync view (`InSync` right after the rounds). -/
theorem C08T_recoverable_converges (d : Nat) (devs : List Dev) (acts σ0 : List Action)
    (σs : List (List Action)) (τ : List Action)
    (hnames : (devs.map (·.name)).Nodup) (hflags : ∀ x ∈ devs, x.flag = false) :
    let s := (Sys.init (Sys.fullCfg d) devs).run acts
    let s' := (Sys.init (Sys.fullCfg d) devs).run (acts ++ σ0)
    s.node.enabledNames.length < 255 → Sys.Recoverable s → FaultFree σ0 = true →
    Sys.noStaleTick s σ0 = true → Sys.roundsOk σs s' = true → 2 ≤ σs.length → FaultFree τ = true →
    DevsBelow (Sys.quiesce s').host (Sys.quiesce s').node ∧
    Sys.InSync (Sys.gSettle σs s').1 (Sys.gSettle σs s').2 = true ∧
    Sys.InSyncView (Sys.drain ((Sys.gSettle σs s').1.run τ)) = true := by
  intro s s' hfew hrec hff0 hns hok hlen hff
  have he : s' = s.run σ0 := run_append acts σ0 _
  have hr : Rec d s := ⟨reach_run d devs acts hnames hflags, hrec⟩
  have hr' : Rec d s' := by rw [he]; exact hr.run σ0 hff0 hns
  have hfew' : s'.node.enabledNames.length < 255 := by
    rw [he, run_keeps_enabledNames σ0 s (faultFree_keeps σ0 hff0)]; exact hfew
  have hb := hr'.below hfew'
  obtain ⟨c1, _, _, c4, _⟩ :=
    C08S_convergence_schedules_partial d devs (acts ++ σ0) σs τ hnames hflags hfew' (fun _ => hb) hok hlen hff
  exact ⟨hb, c1, c4⟩

/-- **… and the stale-tick NCMD delivery does lead out** (the witness of
`C08T_untick_destroys_recoverability` in these terms): the state after `exWrapTick` is `Recoverable`
(an NCMD is in flight; it is not `safe`), the step `deliverNcmd` is a stale-tick delivery, and the
state after it is not `Recoverable`. Together with `C08T_recoverable_invariant_ff`: a fault-free
schedule leaves the recoverable states ONLY through a stale-tick NCMD delivery. -/
theorem C08T_stale_tick_leaves_recoverable :
    let s := (Sys.init (Sys.fullCfg 100) exOneDev).run exWrapTick
    Sys.Recoverable s ∧ Sys.staleTickNcmd s .deliverNcmd = true ∧ ¬ Sys.Recoverable (s.step .deliverNcmd) := by
  intro s
  have h1 : s.nodeConn = true ∧ s.hostConn = true ∧ s.toNode ≠ 0 ∧ Sys.staleTickNcmd s .deliverNcmd = true := by
    decide +kernel
  refine ⟨⟨h1.1, h1.2.1, Or.inr (Or.inr h1.2.2.1)⟩, h1.2.2.2, ?_⟩
  intro hrec
  obtain ⟨_, _, _, ⟨_, hnb⟩, _, _⟩ := C08T_untick_destroys_recoverability
  have ha : s.step .deliverNcmd = (Sys.init (Sys.fullCfg 100) exOneDev).run (exWrapTick ++ [.deliverNcmd]) := by
    rw [run_append]; rfl
  have hr : Rec 100 (s.step .deliverNcmd) :=
    ⟨by rw [ha]; exact reach_run 100 exOneDev _ (by decide) (by decide), hrec⟩
  have hfew : (s.step .deliverNcmd).node.enabledNames.length < 255 := by
    have : (s.step .deliverNcmd).node.enabledNames = s.node.enabledNames := keeps_enabledNames s _ rfl
    rw [this]
    have : s.node.enabledNames.length = 0 := by decide +kernel
    omega
  exact hnb (hr.below hfew)

/-! ### the same-tick condition, exactly; G1 with a decidable progress predicate -/

/-- **From a calm point, `ticked` implies that no step is a same-tick NCMD delivery.** -/
theorem C08T_ticked_is_sufficient (d : Nat) (devs : List Dev) (acts σ : List Action)
    (hnames : (devs.map (·.name)).Nodup) (hflags : ∀ x ∈ devs, x.flag = false) :
    let s := (Sys.init (Sys.fullCfg d) devs).run acts
    s.node.enabledNames.length < 255 → Sys.calmPoint s = true → FaultFree σ = true →
    ticked false σ = true → Sys.noSameTick s σ = true := by
  intro s hfew hc hff htk
  exact ((reach_run d devs acts hnames hflags).heal_of_calm hfew hc).ticked_noSameTick σ hff htk

/-- **From a calm point, the same-tick NCMD delivery is the only obstacle.** After ANY action sequence
from the initial system under the full configuration, fewer than 255 devices enabled: if the state is
a calm point (both sides connected, nothing in flight towards the host, no reorder timer, the host's
record stale or in step with the node; any number of NCMDs in flight), then for EVERY fault-free
schedule `σ` none of whose steps delivers an NCMD at the clock reading of the newest NBIRTH in the
pipeline (`Sys.noSameTick s σ`, decidable; implied by `ticked false σ`): after `drain` the in-sync
view holds unless the host's record is still stale with nothing in flight, and after one more publish
on the node metric and `drain` it holds in any case. Every other fault-free step — any delivery, any
publish, any clock advance (also by 0), NCMD deliveries at later readings, in any interleaving — is
harmless. -/
theorem C08T_convergence_from_calm_point (d : Nat) (devs : List Dev) (acts σ : List Action)
    (hnames : (devs.map (·.name)).Nodup) (hflags : ∀ x ∈ devs, x.flag = false) :
    let s := (Sys.init (Sys.fullCfg d) devs).run acts
    s.node.enabledNames.length < 255 → Sys.calmPoint s = true → FaultFree σ = true →
    Sys.noSameTick s σ = true →
    let u := Sys.drain (s.run σ)
    (Sys.InSyncView u = true ∨ (u.host.life = .stale ∧ u.toHost = [] ∧ u.toNode = 0)) ∧
    Sys.InSyncView (Sys.drain (u.step .publishNode)) = true := by
  intro s hfew hc hff hns u
  have hr := reach_run d devs acts hnames hflags
  have hh := (hr.heal_of_calm hfew hc).run_ok σ hff hns
  have hr' : Reach d (s.run σ) := hr.steps (FRun.of_run s σ hff).steps
  exact hh.converges hr' [] rfl rfl

/-- **G1 with a decidable progress predicate.** After ANY action sequence (any faults) from the initial
system under the full configuration, fewer than 255 devices enabled — NOTHING else is assumed about
the state: messages of the fault history may be in flight, the host may be waiting behind a gap with
its reorder timer running, hold devices the node has disabled, be disconnected — let `σ` be a
fault-free schedule that is FAIR ENOUGH (`Sys.fairEnough s σ`, a `Bool` computed from `s` and `σ`): at
some position of `σ` the run is at a calm point (everything that was in flight has been delivered,
the clock has passed any armed deadline, the host is stale or in step), and no later step delivers an
NCMD at the clock reading of the newest NBIRTH in the pipeline. Then after `drain`, one publish on
the node metric and `drain` the in-sync view holds (and already after the first `drain` unless the
host's record is still stale with nothing in flight). -/
theorem C08T_convergence_fair (d : Nat) (devs : List Dev) (acts σ : List Action)
    (hnames : (devs.map (·.name)).Nodup) (hflags : ∀ x ∈ devs, x.flag = false) :
    let s := (Sys.init (Sys.fullCfg d) devs).run acts
    s.node.enabledNames.length < 255 → FaultFree σ = true → Sys.fairEnough s σ = true →
    let u := Sys.drain (s.run σ)
    (Sys.InSyncView u = true ∨ (u.host.life = .stale ∧ u.toHost = [] ∧ u.toNode = 0)) ∧
    Sys.InSyncView (Sys.drain (u.step .publishNode)) = true := by
  intro s hfew hff hfair u
  simp only [Sys.fairEnough, List.any_eq_true, Bool.and_eq_true] at hfair
  obtain ⟨i, _, hc, hns⟩ := hfair
  have hff1 : FaultFree (σ.take i) = true := by
    simp only [FaultFree, List.all_eq_true] at hff ⊢
    exact fun a ha => hff a (List.mem_of_mem_take ha)
  have hff2 : FaultFree (σ.drop i) = true := by
    simp only [FaultFree, List.all_eq_true] at hff ⊢
    exact fun a ha => hff a (List.mem_of_mem_drop ha)
  have hr := reach_run d devs acts hnames hflags
  have hr1 : Reach d (s.run (σ.take i)) := hr.steps (FRun.of_run s _ hff1).steps
  have hfew1 : (s.run (σ.take i)).node.enabledNames.length < 255 := by
    rw [run_keeps_enabledNames _ s (faultFree_keeps _ hff1)]; exact hfew
  have hh := (hr1.heal_of_calm hfew1 hc).run_ok (σ.drop i) hff2 hns
  have hr2 : Reach d ((s.run (σ.take i)).run (σ.drop i)) := hr1.steps (FRun.of_run _ _ hff2).steps
  have := hh.converges hr2 [] rfl rfl
  rw [take_drop_run] at this
  exact this

/-! ### witnesses around the same-tick condition -/

/-- one registered device, disabled: the host connects late, two NDATA meet its stale record (two
NCMDs), both NCMDs reach the node within one clock reading -/
def exHarmless : List Action :=
  [.nodeConnect, .deliver 0, .hostConnect, .advance 1, .publishNode, .publishNode, .deliver 0, .deliver 0,
   .deliverNcmd, .deliverNcmd]

/-- **A same-tick NCMD delivery is harmless when the rebirth hands over no DBIRTH**: the last step of
`exHarmless` is a same-tick NCMD delivery (the first nine steps are not), the second NBIRTH is ignored
by the host — and since no device is enabled, the ignored birth and the applied one are
indistinguishable: after `drain` the in-sync view holds. So "no same-tick step" is sufficient, not
necessary; with at least one DBIRTH in the rebirth the host is left waiting behind a gap
(`C08S_same_tick_rebirths_out_of_sync`: there `noSameTick` fails at the last step, and holds for the
variant with the tick). -/
theorem C08T_same_tick_harmless_without_births :
    let i := Sys.init (Sys.fullCfg 100) exOneDev
    let j := Sys.init (Sys.fullCfg 100) exDevs
    FaultFree exHarmless = true ∧ Sys.noSameTick i (exHarmless.take 9) = true ∧
    Sys.noSameTick i exHarmless = false ∧ (i.run exHarmless).toHost.length = 2 ∧
    Sys.InSyncView (Sys.drain (i.run exHarmless)) = true ∧
    Sys.noSameTick j exSameTick = false ∧ Sys.noSameTick j (exSameTick.take 11) = true ∧
    Sys.noSameTick j exTickBetween = true := by decide

/-! ### non-vacuity -/

/-- `C08T_safe_invariant` / `C08T_recoverable_invariant` / `C08T_convergence_any_continuation`: the
lossy run of `Props/C08.lean` (gap, timer armed) is safe; a continuation with more faults and
unticked fault-free steps (a duplicate, a reordered delivery, a node disconnect and reconnect within
one clock reading, publishes, a manual rebirth) keeps it safe; two generalised rounds and a tail end in
sync -/
def exMore : List Action :=
  [.publishNode, .duplicate 0, .deliver 1, .nodeDisconnect, .publishDev 1, .nodeConnect, .manualRebirth,
   .deliver 0, .drop 1, .publishDev 3, .hostDisconnect, .deliver 0, .hostConnect]

example :
    let s := (Sys.init (Sys.fullCfg 100) exDevs).run exLossy
    let s' := (Sys.init (Sys.fullCfg 100) exDevs).run (exLossy ++ exMore)
    s.node.enabledNames.length < 255 ∧ Sys.safe s = true ∧ exMore.all Action.keepsSwitches = true ∧
    FaultFree exMore = false ∧ Sys.safe s' = true ∧ Sys.InSyncView s' = false ∧ s'.toHost.length = 6 ∧
    Sys.roundsOk [exR1, exR2] s' = true ∧ FaultFree exBusy = true ∧
    Sys.InSync (Sys.gSettle [exR1, exR2] s').1 (Sys.gSettle [exR1, exR2] s').2 = true ∧
    Sys.InSyncView (Sys.drain ((Sys.gSettle [exR1, exR2] s').1.run exBusy)) = true := by decide

/-- a fault-free schedule from the lossy run (the host waits behind a gap, timer armed at 102): a
publish is delivered into the buffer, the clock jumps past the deadline (the timeout fires: stale, one
NCMD), another publish meets the stale record (second NCMD): position 5 is a calm point; then NCMD
deliveries, publishes, deliveries and clock advances interleaved — the last NCMD delivery follows an
`advance 0`, so `ticked` fails, but it is not a same-tick delivery -/
def exMess : List Action :=
  [.publishNode, .deliver 0, .advance 200, .publishDev 1, .deliver 0,
   .deliverNcmd, .publishNode, .deliver 0, .advance 1, .deliverNcmd, .deliver 0, .publishDev 3, .advance 0,
   .deliverNcmd]

/-- `C08T_convergence_fair` (and `C08T_convergence_from_calm_point`, `C08T_ticked_is_sufficient` at the
calm point after five steps): hypotheses and conclusion, evaluated -/
example :
    let s := (Sys.init (Sys.fullCfg 100) exDevs).run exLossy
    let c := s.run (exMess.take 5)
    let t := s.run exMess
    s.node.enabledNames.length < 255 ∧ Sys.calmPoint s = false ∧ s.host.timer = .armed 102 ∧
    FaultFree exMess = true ∧ Sys.fairEnough s exMess = true ∧ ticked false exMess = false ∧
    Sys.calmPoint c = true ∧ c.host.life = .stale ∧ c.toNode = 2 ∧
    Sys.noSameTick c (exMess.drop 5) = true ∧
    t.toHost.length = 6 ∧ Sys.InSyncView t = false ∧ Sys.InSyncView (Sys.drain t) = true ∧
    Sys.InSyncView (Sys.drain ((Sys.drain t).step .publishNode)) = true := by decide

/-- a ticked fault-free schedule from the NOT-safe recoverable state after `exWrapTick`: two of the
256 old messages are delivered, the node publishes, the clock ticks, the NCMD reaches the node -/
def exTicked : List Action := [.deliver 0, .publishNode, .deliver 0, .advance 1, .deliverNcmd, .deliver 0]

/-- `C08T_recoverable_invariant_ff` / `_ticked` / `C08T_recoverable_converges`: hypotheses on the state
after `exWrapTick` (recoverable because an NCMD is in flight; not safe) and the conclusion evaluated:
after `exTicked` 256 messages of the old session are still in flight in front of the new NBIRTH, and
two rounds of `settle` end `InSync` -/
example :
    let s := (Sys.init (Sys.fullCfg 100) exOneDev).run exWrapTick
    let s' := s.run exTicked
    (s.nodeConn = true ∧ s.hostConn = true ∧ s.toNode ≠ 0) ∧ Sys.safe s = false ∧
    FaultFree exTicked = true ∧ ticked false exTicked = true ∧ Sys.noStaleTick s exTicked = true ∧
    s'.toHost.length = 256 ∧ s'.toNode = 0 ∧ Sys.safe s' = false ∧
    Sys.InSync (Sys.settle 2 s').1 (Sys.settle 2 s').2 = true := by decide +kernel

end Srad.Loop
