/-
C03 — bdSeq ties every NBIRTH to the will of its connection.
Property theorems only (helper lemmas: `SradModel/Proofs/EonC03.lean`).
-/
import SradModel.Proofs.EonC03

namespace Srad.Eon
open Srad.Eon.P03

/-- every NBIRTH carries the bdSeq of the will that is registered with the event loop when it is
handed over (the will registered most recently before it) -/
theorem C03_nbirth_carries_will (cd : Nat) (acts : List Act) (s : St) (tr : List Obs)
    (h : runActs (init cd) acts = some (s, tr)) : nbirthBdOk none tr = true := by
  exact (runActs_init h).2.1

/-- the first will carries bdSeq 0; every later will carries exactly one more (255 wrapping to
0) than the previous one, and is registered after `poll` returned an Offline and before `poll` is
called again (or during the shutdown after a cancel, which forces the node offline) -/
theorem C03_will_chain (cd : Nat) (acts : List Act) (s : St) (tr : List Obs)
    (h : runActs (init cd) acts = some (s, tr)) : willChainOk none false false tr = true := by
  exact (runActs_init h).2.2.1

/-- whenever the event-loop task is about to poll, or polling, in the main loop, the registered
will carries the current bdSeq: a lost connection has been answered with the new will before
`poll` is called again -/
theorem C03_will_current_when_polling (cd : Nat) (acts : List Act) (s : St) (tr : List Obs)
    (h : runActs (init cd) acts = some (s, tr)) (hp : s.loop = .sel ∨ s.loop = .polling) :
    s.will = some s.bdseq := by
  exact will_current (runActs_init h).1 hp

/-- bdSeq changes only when the node task processes the loss of an established connection, and
then by exactly one (mod 256): rebirths, duplicate Online, Offline while offline, failed
subscribes and failed NBIRTHs, publishes, device activity and stimuli leave it unchanged -/
theorem C03_bdseq_changes_only_on_loss (s s' : St) (a : Act) (o : List Obs)
    (h : runAct s a = some (s', o)) (hne : s'.bdseq ≠ s.bdseq) :
    (∃ dec k, a = .task .node dec k) ∧ s.node = .idle ∧ (∃ w, s.cs = some (.offline w)) ∧
    s.online = true ∧ s'.online = false ∧ s'.bdseq = (s.bdseq + 1) % 256 := by
  exact bdseq_step h hne

/-- the NDEATH of a graceful cancel carries the bdSeq of the registered will.
`_partial`: in the window in which a connection loss is being processed (Offline returned by
`poll`, node already offline, new will not yet registered) it carries the bdSeq the new will is
about to carry (candidate S1 of DESIGN.md Appendix C; the node is offline at that point). -/
theorem C03_cancel_ndeath_partial (cd : Nat) (acts : List Act) (s : St) (tr : List Obs)
    (h : runActs (init cd) acts = some (s, tr)) : ndeathBdOk none false false tr = true := by
  exact (runActs_init h).2.2.2

/-! ### non-vacuity: a session, its loss, the new will, the next session -/
example :
    (runActs (init 0) [.task .loop .acc 0, .stim (.ev .online), .task .loop .acc 0, .task .loop .acc 0,
      .task .node .acc 0, .task .node .acc 0, .task .node .acc 0, .task .node .acc 0,
      .stim (.ev .offline), .task .loop .acc 0, .task .loop .acc 0, .task .node .acc 0, .task .loop .acc 0]).map (·.2)
      = some [.will 0, .poll, .polled .online, .call 0 .sub none none none false .acc, .bNode,
              .call 1 .nbirth none (some 0) (some 0) false .acc, .poll, .polled .offline, .will 1] := by decide

end Srad.Eon
