/-
C15 (host side) / M15 — what a host application publishes through `AppClient::publish_metrics`,
`try_publish_metrics` and `publish_node_rebirth` is what the addressed edge node's (device's)
manager is handed: end-to-end composition of the host-side construction (`Model/HostCmd.lean`),
the topic string and receive path (`Model/Topic.lean`, C13) and the node-side command handling
(`Model/Cmd.lean`, C15). Property theorems only; helper lemmas are in `Proofs/HostCmd.lean`.

The protobuf codec is the pair `enc` / `dec`; the theorems need `dec (enc p) = some p` only for
the payload `p` at hand (discharged for prost by M13). `valid` is `String::from_utf8(..).is_ok()`.
A node is *addressable* when its ids pass name validation (that is what `EoNBuilder` enforces)
and its group id is not the reserved word `STATE` (which `EoNBuilder` does NOT enforce: see
`C15H_group_STATE_never_commanded`).
-/
import SradModel.Proofs.HostCmd

namespace Srad.HostCmd
open Srad.Codec Srad.Cmd
open Srad.Topic (Verb STATE nodeTopic deviceTopic NameOk)

/-- the node's ids are Rust strings that pass `validate_name`, the group is not `STATE` -/
structure Addressable (valid : Bytes → Bool) (cfg : NodeCfg) : Prop where
  group : NameOk cfg.group
  node : NameOk cfg.node
  groupUtf8 : valid cfg.group = true
  nodeUtf8 : valid cfg.node = true
  notState : cfg.group ≠ STATE

/-! ### what the host hands to its client -/

/-- **Payload frame.** Whatever the metrics, the payload of `publish_metrics` /
`try_publish_metrics` carries the clock reading as its timestamp, no sequence number, no uuid,
no body, and one payload metric per publish metric, in order. -/
theorem C15H_payload_frame (try_ : Bool) (clock : Nat) (t : PublishTopic) (ms : List PublishMetric) :
    let p := (send try_ clock t ms).payload
    p.ts = some clock ∧ p.seq = none ∧ p.uuid = none ∧ p.body = none ∧ p.metrics = ms.map toMetric := by
  rw [send_eq]
  cases t <;> exact ⟨rfl, rfl, rfl, rfl, rfl⟩

/-- **Payload metric.** A publish metric becomes a payload metric with exactly its identifier
(the name and no alias, or the alias and no name), its value (always present, `is_null` unset),
its optional timestamp, and nothing else (no datatype, flags, metadata, properties). -/
theorem C15H_payload_metric (p : PublishMetric) :
    let m := toMetric p
    (match p.id with
      | .name n => m.core.name = some n ∧ m.core.alias = none
      | .alias a => m.core.alias = some a ∧ m.core.name = none) ∧
    m.core.value = some p.value ∧ m.core.isNull = none ∧ m.core.ts = p.ts ∧
    m.datatype = none ∧ m.historical = none ∧ m.transient = none ∧
    m.hasMetadata = false ∧ m.hasProps = false := by
  rcases p with ⟨id, v, ts⟩
  cases id <;> simp [toMetric]

/-- `PublishMetric::new` leaves the timestamp unset, `.timestamp(t)` sets it and nothing else;
`MetricBirthDetails::get_metric_id` prefers the alias. -/
theorem C15H_builder (id : MetricId) (v : PV) (t : Nat) (name : Bytes) (a : Nat) :
    (PublishMetric.new id v).ts = none ∧ (PublishMetric.new id v).id = id ∧
    (PublishMetric.new id v).value = v ∧
    ((PublishMetric.new id v).timestamp t) = { id := id, value := v, ts := some t } ∧
    getMetricId name (some a) = .alias a ∧ getMetricId name none = .name name :=
  ⟨rfl, rfl, rfl, rfl, rfl, rfl⟩

/-- **try_ = non-blocking, otherwise blocking.** `try_publish_metrics` calls a `try_publish_*`
method of the client and nothing else; `publish_metrics` and `publish_node_rebirth` call a
blocking `publish_*` method and nothing else (each entry point is exactly one client call). -/
theorem C15H_try_nonblocking_blocking_blocking (clock : Nat) (t : PublishTopic)
    (ms : List PublishMetric) (g n : Bytes) :
    (tryPublishMetrics clock t ms).method.blocking = false ∧
    (publishMetrics clock t ms).method.blocking = true ∧
    (publishNodeRebirth clock g n).method.blocking = true := by
  cases t <;> exact ⟨rfl, rfl, rfl⟩

/-- **Node topic = NCMD.** For a topic made by `new_node_cmd(g, n)` the client's *node* method
is called with message type NCMD and the topic string `spBv1.0/<g>/NCMD/<n>`, for all ids. -/
theorem C15H_node_topic_is_ncmd (try_ : Bool) (clock : Nat) (g n : Bytes) (ms : List PublishMetric) :
    let c := send try_ clock (.node g n) ms
    c.method.forDevice = false ∧ c.verb = .cmd ∧ c.topic = nodeTopic g .cmd n ∧
    c.method.blocking = !try_ := by
  cases try_ <;> exact ⟨rfl, rfl, rfl, rfl⟩

/-- **Device topic = DCMD.** For `new_device_cmd(g, n, d)`: the client's *device* method,
message type DCMD, topic string `spBv1.0/<g>/DCMD/<n>/<d>`. -/
theorem C15H_device_topic_is_dcmd (try_ : Bool) (clock : Nat) (g n d : Bytes)
    (ms : List PublishMetric) :
    let c := send try_ clock (.device g n d) ms
    c.method.forDevice = true ∧ c.verb = .cmd ∧ c.topic = deviceTopic g .cmd n d ∧
    c.method.blocking = !try_ := by
  cases try_ <;> exact ⟨rfl, rfl, rfl, rfl⟩

/-! ### nothing the host can build is filtered by the node -/

/-- Every payload metric the host API can build is a well-formed command metric in the sense
of C15 (it has an identifier and a value) — whether or not it has a timestamp of its own: the
node does not require one. -/
theorem C15H_every_metric_wellformed (p : PublishMetric) : (toMetric p).core.WellFormed := by
  rcases p with ⟨id, v, ts⟩
  cases id <;> simp [toMetric, Metric.WellFormed, Metric.specId]

/-- **Nothing is filtered.** The node-side conversion (`MessageMetrics` iteration, which skips
metrics without identifier and metrics with neither value nor `is_null = true`) keeps EVERY
metric of EVERY host-built batch, in order, with the host's identifier, optional timestamp and
value. -/
theorem C15H_nothing_filtered (try_ : Bool) (clock : Nat) (t : PublishTopic) (ms : List PublishMetric) :
    drainIter (send try_ clock t ms).payload.toCmd.metrics = ms.map PublishMetric.asDelivered := by
  rw [send_eq]
  cases t <;> exact drainIter_host ms

/-- **Typed values arrive typed.** A value of one of the thirteen scalar Rust types sent with
`PublishMetric::new::<T>` is delivered as a value that a `SimpleMetricManager` handler registered
for the same Rust type converts back (`T::try_from(MetricValue)`, C15_simple_callbacks) to
exactly the value the host sent. -/
theorem C15H_typed_value_roundtrip (id : MetricId) (ty : STy) (v : SV) (h : ty.holds v = true) :
    convert ty (PublishMetric.newTyped id ty v).asDelivered.value = some (some v) := by
  simp [PublishMetric.newTyped, PublishMetric.new, PublishMetric.asDelivered, convert,
    scalar_roundtrip ty v h]

/-! ### end to end -/

/-- **Fidelity, node.** For EVERY batch of publish metrics (any identifiers, values, optional
timestamps, also the empty batch), sent blocking or try_ to the command topic of an addressable
node whose node task is alive and idle: the node's manager is called exactly once, with the
host's clock reading as payload timestamp and exactly the host's metrics — same identifiers,
timestamps and values, same order, none missing, none added; no device manager is called. -/
theorem C15H_node_fidelity (valid : Bytes → Bool) (enc : WirePayload → Bytes)
    (dec : Bytes → Option WirePayload) (cfg : NodeCfg) (ha : Addressable valid cfg)
    (try_ : Bool) (clock : Nat) (ms : List PublishMetric)
    (hcodec : dec (enc (metricsToPayload clock ms)) = some (metricsToPayload clock ms))
    (decs : List Dec) (st : St) (hr : st.Ready) (hi : st.Inv) :
    let r := endToEnd valid enc dec cfg decs st (send try_ clock (.node cfg.group cfg.node) ms)
    r.2.filter Eff.isCmd = [.cmd none clock (ms.map PublishMetric.asDelivered)] ∧
    ∀ e ∈ r.2, ∀ d, e.target? ≠ some (some d) := by
  simp only [send_eq, endToEnd,
    transport_node_own valid enc dec cfg ha.group ha.node ha.groupUtf8 ha.nodeUtf8 ha.notState try_ _ hcodec]
  have h := C15_ncmd_routing decs .cmd (metricsToPayload clock ms).toCmd st hr hi
  simp only at h
  rw [expectedCmd_host] at h
  exact h

/-- **Fidelity, device.** The same for the command topic of a registered device `d` (token `k`)
of an addressable node, in EVERY node state: `d`'s manager — and only `d`'s — is called exactly
once with the host's clock reading and exactly the host's metrics; the node state is untouched
(in particular no birth). -/
theorem C15H_device_fidelity (valid : Bytes → Bool) (enc : WirePayload → Bytes)
    (dec : Bytes → Option WirePayload) (cfg : NodeCfg) (ha : Addressable valid cfg)
    (d : Bytes) (k : Nat) (hd : NameOk d) (hvd : valid d = true)
    (hk : devToken cfg.devices d = some k)
    (try_ : Bool) (clock : Nat) (ms : List PublishMetric)
    (hcodec : dec (enc (metricsToPayload clock ms)) = some (metricsToPayload clock ms))
    (decs : List Dec) (st : St) (hreg : (st.devs.any fun x => x.name == k) = true) :
    let r := endToEnd valid enc dec cfg decs st (send try_ clock (.device cfg.group cfg.node d) ms)
    r.1 = st ∧
    r.2.filter Eff.isCmd = [.cmd (some k) clock (ms.map PublishMetric.asDelivered)] ∧
    ∀ e ∈ r.2, (e.isCmd = true ∨ e.isCb = true) ∧ e.target? = some (some k) := by
  simp only [send_eq, endToEnd,
    transport_device_own valid enc dec cfg d k hk ha.group ha.node hd ha.groupUtf8 ha.nodeUtf8 hvd
      ha.notState try_ _ hcodec]
  have h := C15_dcmd_routing decs st k .cmd (metricsToPayload clock ms).toCmd
  simp only [hreg, if_true] at h
  rw [expectedCmd_host] at h
  exact ⟨h.1, h.2.2, h.2.1⟩

/-- The device token is the position of the device id among the registered ids. -/
theorem C15H_device_token (devs : List Bytes) (d : Bytes) (k : Nat) (h : devToken devs d = some k) :
    devs[k]? = some d :=
  devToken_get devs d k h

/-- **The one thing that is dropped (by design).** A DCMD for a device id that is not registered
at the addressed node reaches the node and is dropped there (`handle_device_message` logs a
warning): no manager is called, the state is unchanged, the host's call still returned `Ok`. -/
theorem C15H_unregistered_device_dropped (valid : Bytes → Bool) (enc : WirePayload → Bytes)
    (dec : Bytes → Option WirePayload) (cfg : NodeCfg) (ha : Addressable valid cfg)
    (d : Bytes) (hd : NameOk d) (hvd : valid d = true) (hk : devToken cfg.devices d = none)
    (try_ : Bool) (clock : Nat) (ms : List PublishMetric)
    (hcodec : dec (enc (metricsToPayload clock ms)) = some (metricsToPayload clock ms))
    (decs : List Dec) (st : St) :
    transport valid enc dec cfg (send try_ clock (.device cfg.group cfg.node d) ms) = .ignored ∧
    (endToEnd valid enc dec cfg decs st (send try_ clock (.device cfg.group cfg.node d) ms)).2 = [] := by
  have h := transport_device_unknown valid enc dec cfg d hk ha.group ha.node hd ha.groupUtf8
    ha.nodeUtf8 hvd ha.notState try_ _ hcodec
  simp only [send_eq, endToEnd, h, and_self]

/-- **Exactly that node.** A command published to the node (device) topic of valid ids
`(g, n)` passes the subscriptions of an addressable node iff `(g, n)` are that node's own ids;
for any other node nothing happens: no manager call, no state change. -/
theorem C15H_only_the_addressed_node (valid : Bytes → Bool) (enc : WirePayload → Bytes)
    (dec : Bytes → Option WirePayload) (cfg : NodeCfg) (ha : Addressable valid cfg)
    (g n d : Bytes) (hg : NameOk g) (hn : NameOk n) (hd : NameOk d) (hs : g ≠ STATE)
    (try_ : Bool) (clock : Nat) (ms : List PublishMetric) (decs : List Dec) (st : St) :
    (brokerDelivers cfg (send try_ clock (.node g n) ms).topic = true ↔ g = cfg.group ∧ n = cfg.node) ∧
    (brokerDelivers cfg (send try_ clock (.device g n d) ms).topic = true ↔ g = cfg.group ∧ n = cfg.node) ∧
    (¬ (g = cfg.group ∧ n = cfg.node) →
      endToEnd valid enc dec cfg decs st (send try_ clock (.node g n) ms) = (st, []) ∧
      endToEnd valid enc dec cfg decs st (send try_ clock (.device g n d) ms) = (st, [])) := by
  have h1 := brokerDelivers_node_iff cfg g n ha.group ha.node hg hn hs
  have h2 := brokerDelivers_device_iff cfg g n d ha.group ha.node hg hn hd hs
  refine ⟨by rw [send_eq]; exact h1, by rw [send_eq]; exact h2, ?_⟩
  intro hne
  have b1 : brokerDelivers cfg (nodeTopic g .cmd n) = false := by
    cases hb : brokerDelivers cfg (nodeTopic g .cmd n) with
    | false => rfl
    | true => exact absurd (h1.mp hb) hne
  have b2 : brokerDelivers cfg (deviceTopic g .cmd n d) = false := by
    cases hb : brokerDelivers cfg (deviceTopic g .cmd n d) with
    | false => rfl
    | true => exact absurd (h2.mp hb) hne
  constructor
  · rw [send_eq, endToEnd, transport_other valid enc dec cfg _ (by simpa [clientCall] using b1)]
  · rw [send_eq, endToEnd, transport_other valid enc dec cfg _ (by simpa [clientCall] using b2)]

/-! ### publish_node_rebirth -/

/-- **The rebirth request.** For every group and node id, `publish_node_rebirth(g, n)` hands
its client — by the blocking node method — an NCMD on `spBv1.0/<g>/NCMD/<n>` whose payload has
a timestamp (the clock reading) and the single metric `Node Control/Rebirth`, by name, without
alias, with the value boolean true; the node-side recognition loop accepts it as a valid
rebirth request. -/
theorem C15H_rebirth_request (clock : Nat) (g n : Bytes) :
    let c := publishNodeRebirth clock g n
    c.method = .publishNode ∧ c.verb = .cmd ∧ c.topic = nodeTopic g .cmd n ∧
    c.payload.ts = some clock ∧
    c.payload.toCmd.metrics = [{ name := some rebirthName, alias := none, ts := none, isNull := none,
                                 value := some (.bool true) }] ∧
    rebirthRequested c.payload.toCmd.metrics = true ∧ RebirthRequested c.payload.toCmd.metrics := by
  have hr : rebirthRequested (publishNodeRebirth clock g n).payload.toCmd.metrics = true := rfl
  exact ⟨rfl, rfl, rfl, rfl, rfl, hr, (C15_rebirth_recognition _).mp hr⟩

/-- **The request is honoured.** Sent to an addressable node whose node task is alive and idle,
the request of `publish_node_rebirth` makes the node hand over an NBIRTH if and only if the node
is birthed and the request is outside the rebirth cooldown — for every group / node id, clock
reading and node state; the node's manager is handed the request as well. -/
theorem C15H_rebirth_honoured (valid : Bytes → Bool) (enc : WirePayload → Bytes)
    (dec : Bytes → Option WirePayload) (cfg : NodeCfg) (ha : Addressable valid cfg) (clock : Nat)
    (hcodec : dec (enc (metricsToPayload clock [rebirthMetric])) = some (metricsToPayload clock [rebirthMetric]))
    (decs : List Dec) (st : St) (hr : st.Ready) (hi : st.Inv) :
    let r := endToEnd valid enc dec cfg decs st (publishNodeRebirth clock cfg.group cfg.node)
    ((∃ e ∈ r.2, e.isNBirth = true) ↔ (st.birthed = true ∧ st.cooldown ≤ st.wall - st.last)) ∧
    r.2.filter Eff.isCmd = [.cmd none clock [rebirthMetric.asDelivered]] := by
  have hs : publishNodeRebirth clock cfg.group cfg.node =
      clientCall false (.node cfg.group cfg.node) (metricsToPayload clock [rebirthMetric]) := rfl
  simp only [hs, endToEnd,
    transport_node_own valid enc dec cfg ha.group ha.node ha.groupUtf8 ha.nodeUtf8 ha.notState false _ hcodec]
  have hd := C15_ncmd_decision decs .cmd (metricsToPayload clock [rebirthMetric]).toCmd st hr hi
  have hq : RebirthRequested (metricsToPayload clock [rebirthMetric]).toCmd.metrics :=
    (C15H_rebirth_request clock cfg.group cfg.node).2.2.2.2.2.2
  have hrt := C15_ncmd_routing decs .cmd (metricsToPayload clock [rebirthMetric]).toCmd st hr hi
  simp only at hrt
  rw [expectedCmd_host] at hrt
  refine ⟨?_, hrt.1⟩
  rw [hd]
  constructor
  · rintro ⟨_, _, _, hb, hc⟩; exact ⟨hb, hc⟩
  · rintro ⟨hb, hc⟩; exact ⟨rfl, rfl, hq, hb, hc⟩

/-! ### finding: a node whose group id is `STATE` cannot be commanded -/

/-- `EoNBuilder` accepts the group id `STATE` (it passes name validation); the node subscribes to
`spBv1.0/STATE/NCMD/<n>`, the host publishes there, the broker delivers — and the node's client
reads the topic as a malformed STATE topic (`InvalidPublish`): no command, and no rebirth
request, ever reaches such a node. (Same root as the hypothesis `g ≠ STATE` of C13.) -/
theorem C15H_group_STATE_never_commanded (valid : Bytes → Bool) (enc : WirePayload → Bytes)
    (dec : Bytes → Option WirePayload) (n : Bytes) (devs : List Bytes) (hn : NameOk n)
    (c : Call) (hc : c.topic = nodeTopic STATE .cmd n) (decs : List Dec) (st : St) :
    Topic.eonBuild (some STATE) (some n) = .ok ∧
    brokerDelivers { group := STATE, node := n, devices := devs } c.topic = true ∧
    endToEnd valid enc dec { group := STATE, node := n, devices := devs } decs st c = (st, []) := by
  have hS : NameOk STATE := by unfold NameOk; decide
  have hb : brokerDelivers { group := STATE, node := n, devices := devs } c.topic = true := by
    rw [hc]
    unfold brokerDelivers nodeFilters mqttMatch
    simp only [List.any_cons, split_nodeTopic _ _ hS.noSlash hn.noSlash, matchLv_cons_cons]
    simp [matchLv]
  have hp : ∀ p, nodeOp { group := STATE, node := n, devices := devs }
      (Topic.parse valid dec c.topic p) = none := by
    intro p
    rw [hc]
    unfold Topic.parse
    rw [split_nodeTopic _ _ hS.noSlash hn.noSlash]
    unfold Topic.parseSegs
    simp only [if_true]
    split <;> rfl
  refine ⟨?_, hb, ?_⟩
  · have := (Topic.validateName_iff n).mpr hn
    have h2 : Topic.validateName STATE = true := by decide
    simp [Topic.eonBuild, this, h2]
  · simp [endToEnd, transport, hb, hp]

/-! ### non-vacuity: the hypotheses are satisfiable by concrete, non-trivial inputs -/

section Examples

/-- node `g`/`n` with devices `d0`, `d1` -/
def exCfg : NodeCfg := { group := [0x67], node := [0x6e], devices := [[0x64, 0x30], [0x64, 0x31]] }

/-- a batch: a named string, an aliased u8 with timestamp, a named metric from birth details -/
def exBatch : List PublishMetric :=
  [PublishMetric.new (.name [0x78]) (.str [0x68, 0x69]),
   (PublishMetric.newTyped (.alias 7) .u8 (.n 200)).timestamp 33,
   PublishMetric.new (getMetricId [0x6d] none) .dataset]

/-- the node after `online` with both devices enabled: birthed, idle -/
def exSt : St :=
  (step [] (St.init 0 1000 [{ name := 0, enabled := true }, { name := 1, enabled := true }]
    (fun _ _ => 0)) (.node (.online true))).1

def exEnc : WirePayload → Bytes := fun _ => []
def exDec (p : WirePayload) : Bytes → Option WirePayload := fun _ => some p

example : Addressable Topic.asciiValid exCfg :=
  ⟨by unfold NameOk; decide, by unfold NameOk; decide, by decide, by decide, by decide⟩

example : exSt.Ready ∧ exSt.Inv ∧ exSt.birthed = true := by
  unfold St.Ready St.Inv; decide

example : (endToEnd Topic.asciiValid exEnc (exDec (metricsToPayload 5000 exBatch)) exCfg [] exSt
    (send true 5000 (.node exCfg.group exCfg.node) exBatch)).2 =
    [.cmd none 5000 [⟨.name [0x78], none, some (.str [0x68, 0x69])⟩, ⟨.alias 7, some 33, some (.int 200)⟩,
      ⟨.name [0x6d], none, some .dataset⟩]] := by decide

example : (endToEnd Topic.asciiValid exEnc (exDec (metricsToPayload 5000 exBatch)) exCfg [] exSt
    (send false 5000 (.device exCfg.group exCfg.node [0x64, 0x31]) exBatch)).2 =
    [.cmd (some 1) 5000 (exBatch.map PublishMetric.asDelivered)] := by decide

example : STy.i8.holds (.n 0x80) = true ∧
    (PublishMetric.newTyped (.alias 1) .i8 (.n 0x80)).value = .int 0x80 := by decide

example : devToken exCfg.devices [0x64, 0x31] = some 1 ∧ devToken exCfg.devices [0x64, 0x39] = none := by
  decide

example : (endToEnd Topic.asciiValid exEnc (exDec (metricsToPayload 7000 [rebirthMetric])) exCfg [] exSt
    (publishNodeRebirth 7000 exCfg.group exCfg.node)).2 =
    [.cmd none 7000 [⟨.name rebirthName, none, some (.bool true)⟩], .nbirth 0 0, .dbirth 0 1, .dbirth 1 2] := by
  decide

/-- another node's topic: nothing arrives -/
example : (endToEnd Topic.asciiValid exEnc (exDec (metricsToPayload 5000 exBatch)) exCfg [] exSt
    (send false 5000 (.node exCfg.group [0x6d]) exBatch)).2 = [] := by decide

/-- group `STATE`: the broker delivers, the node ignores -/
example : brokerDelivers { group := STATE, node := [0x6e] } (nodeTopic STATE .cmd [0x6e]) = true ∧
    (endToEnd Topic.asciiValid exEnc (exDec (metricsToPayload 7000 [rebirthMetric]))
      { group := STATE, node := [0x6e] } [] exSt (publishNodeRebirth 7000 STATE [0x6e])).2 = [] := by
  decide

end Examples

end Srad.HostCmd
