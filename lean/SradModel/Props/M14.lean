/-
M14 — the rumqttc glue `srad-client-rumqtt` (supporting model; see Model/Rumqtt.lean).

All statements about the poll machine hold for EVERY sequence `tr` of rumqttc outcomes
(`RuEv`), every start state `s` where it matters, and every `toEvent`
(= `topic_and_payload_to_event`). Vocabulary: `stepLog f s tr` is the list of `poll_rumqtt`
executions (state before, outcome, state after, returned event, slept); `reports f s tr` the
events the caller of `poll` receives, in order; `finalState`, `sleepCount`.
-/
import SradModel.Model.Rumqtt

namespace Srad.Rumqtt
open Srad.StateJson (Bytes)
open Srad.Topic (QoS Verb)

variable {E : Type}

/-! ### helper lemmas -/

@[simp] theorem onlineCount_nil : onlineCount ([] : List (SradEv E)) = 0 := rfl
@[simp] theorem onlineCount_online (l : List (SradEv E)) :
    onlineCount (.online :: l) = onlineCount l + 1 := by simp [onlineCount, List.filter_cons, isOnline]
@[simp] theorem onlineCount_offline (l : List (SradEv E)) :
    onlineCount (.offline :: l) = onlineCount l := by simp [onlineCount, isOnline]
@[simp] theorem onlineCount_message (e : E) (l : List (SradEv E)) :
    onlineCount (.message e :: l) = onlineCount l := by simp [onlineCount, isOnline]
@[simp] theorem offlineCount_nil : offlineCount ([] : List (SradEv E)) = 0 := rfl
@[simp] theorem offlineCount_online (l : List (SradEv E)) :
    offlineCount (.online :: l) = offlineCount l := by simp [offlineCount, isOffline]
@[simp] theorem offlineCount_offline (l : List (SradEv E)) :
    offlineCount (.offline :: l) = offlineCount l + 1 := by simp [offlineCount, List.filter_cons, isOffline]
@[simp] theorem offlineCount_message (e : E) (l : List (SradEv E)) :
    offlineCount (.message e :: l) = offlineCount l := by simp [offlineCount, isOffline]
@[simp] theorem connAckCount_nil : connAckCount [] = 0 := rfl
@[simp] theorem connAckCount_cons (e : RuEv) (t : List RuEv) :
    connAckCount (e :: t) = (if e = .connAck then 1 else 0) + connAckCount t := by
  cases e <;> simp [connAckCount, List.filter_cons, isConnAck] <;> omega
@[simp] theorem discCount_nil : discCount [] = 0 := rfl
@[simp] theorem discCount_cons (e : RuEv) (t : List RuEv) :
    discCount (e :: t) =
      (if e = .incomingDisconnect ∨ e = .outgoingDisconnect then 1 else 0) + discCount t := by
  cases e <;> simp [discCount, List.filter_cons, isDisc] <;> omega

theorem reports_eq_filterMap (f : Bytes → Bytes → E) (s : ConnState) (tr : List RuEv) :
    reports f s tr = (stepLog f s tr).filterMap (·.report) := by
  induction tr generalizing s with
  | nil => rfl
  | cons e t ih =>
    simp only [reports, stepLog]
    cases h : (pollStep f s e).2.1 <;> simp [ih]

theorem stepLog_append (f : Bytes → Bytes → E) (s : ConnState) (a b : List RuEv) :
    stepLog f s (a ++ b) = stepLog f s a ++ stepLog f (finalState f s a) b := by
  induction a generalizing s with
  | nil => rfl
  | cons e t ih => simp [stepLog, finalState, ih]

theorem reports_append (f : Bytes → Bytes → E) (s : ConnState) (a b : List RuEv) :
    reports f s (a ++ b) = reports f s a ++ reports f (finalState f s a) b := by
  simp [reports_eq_filterMap, stepLog_append]

theorem finalState_append (f : Bytes → Bytes → E) (s : ConnState) (a b : List RuEv) :
    finalState f s (a ++ b) = finalState f (finalState f s a) b := by
  induction a generalizing s with
  | nil => rfl
  | cons e t ih => simp [finalState, ih]

theorem sleepCount_append (f : Bytes → Bytes → E) (s : ConnState) (a b : List RuEv) :
    sleepCount f s (a ++ b) = sleepCount f s a + sleepCount f (finalState f s a) b := by
  induction a generalizing s with
  | nil => simp [sleepCount, finalState]
  | cons e t ih => simp [sleepCount, finalState, ih]; omega

/-- the log is a chain: every row is `pollStep` of its own pre-state and outcome -/
theorem stepLog_row (f : Bytes → Bytes → E) (s : ConnState) (tr : List RuEv) :
    ∀ st ∈ stepLog f s tr,
      st.post = (pollStep f st.pre st.ev).1 ∧ st.report = (pollStep f st.pre st.ev).2.1 ∧
      st.slept = (pollStep f st.pre st.ev).2.2 := by
  induction tr generalizing s with
  | nil => simp [stepLog]
  | cons e t ih =>
    intro st h
    simp only [stepLog, List.mem_cons] at h
    rcases h with h | h
    · subst h; simp
    · exact ih _ st h

theorem stepLog_events (f : Bytes → Bytes → E) (s : ConnState) (tr : List RuEv) :
    (stepLog f s tr).map (·.ev) = tr := by
  induction tr generalizing s with
  | nil => rfl
  | cons e t ih => simp [stepLog, ih]

/-! ### Online -/

/-- one step reports Online exactly on a ConnAck, whatever the state -/
theorem pollStep_online_iff (f : Bytes → Bytes → E) (s : ConnState) (e : RuEv) :
    (pollStep f s e).2.1 = some .online ↔ e = .connAck := by
  cases s <;> cases e <;> simp [pollStep]

/-- **Online is reported exactly for each ConnAck.** In every execution log, a row returns
`Event::Online` iff its rumqttc outcome is a ConnAck; hence the number of Online reports equals
the number of ConnAcks, for every outcome sequence and start state. -/
theorem M14_online_iff_connack (f : Bytes → Bytes → E) (s : ConnState) (tr : List RuEv) :
    (∀ st ∈ stepLog f s tr, st.report = some .online ↔ st.ev = .connAck) ∧
    onlineCount (reports f s tr) = connAckCount tr := by
  constructor
  · intro st h
    rw [(stepLog_row f s tr st h).2.1]
    exact pollStep_online_iff f st.pre st.ev
  · induction tr generalizing s with
    | nil => rfl
    | cons e t ih =>
      cases s <;> cases e <;> simp [reports, pollStep, ih] <;> omega

/-! ### Offline -/

theorem pollStep_offline_iff (f : Bytes → Bytes → E) (s : ConnState) (e : RuEv) :
    (pollStep f s e).2.1 = some .offline ↔
      (e = .incomingDisconnect ∨ e = .outgoingDisconnect ∨ (e = .error ∧ s = .connected)) := by
  cases s <;> cases e <;> simp [pollStep]

/-- state is `connected` after a step iff the step was a ConnAck, or it was already connected and
the step was a publish / other event -/
theorem pollStep_connected_iff (f : Bytes → Bytes → E) (s : ConnState) (e : RuEv) :
    (pollStep f s e).1 = .connected ↔
      (e = .connAck ∨ (s = .connected ∧ (e = .otherEvent ∨ ∃ t p, e = .incomingPublish t p))) := by
  cases s <;> cases e <;> simp [pollStep]

/-- **When Offline is reported.** In every execution log a row returns `Event::Offline` iff its
outcome is an incoming DISCONNECT, an outgoing DISCONNECT, or an error met in state `Connected`;
an error met in `Disconnected` or `ManualDisconnected` returns nothing (and the state does not
change). -/
theorem M14_offline_reports (f : Bytes → Bytes → E) (s : ConnState) (tr : List RuEv) :
    ∀ st ∈ stepLog f s tr,
      (st.report = some .offline ↔
        (st.ev = .incomingDisconnect ∨ st.ev = .outgoingDisconnect ∨
          (st.ev = .error ∧ st.pre = .connected))) ∧
      (st.ev = .error → st.pre ≠ .connected → st.report = none ∧ st.post = st.pre) := by
  intro st h
  obtain ⟨hp, hr, _⟩ := stepLog_row f s tr st h
  refine ⟨by rw [hr]; exact pollStep_offline_iff f st.pre st.ev, ?_⟩
  intro he hne
  rw [hr, hp, he]
  cases hs : st.pre <;> simp_all [pollStep]

/-- the glue's state is `Connected` exactly when the last Online/Offline handed to the caller
was Online (or nothing was handed out yet and it started connected) -/
theorem finalState_connected_iff (f : Bytes → Bytes → E) (s : ConnState) (tr : List RuEv) :
    finalState f s tr = .connected ↔
      (lastConn (reports f s tr) = some true ∨
        (lastConn (reports f s tr) = none ∧ s = .connected)) := by
  induction tr generalizing s with
  | nil => simp [finalState, reports, lastConn]
  | cons e t ih =>
    have := ih (pollStep f s e).1
    rw [finalState, this]
    cases s <;> cases e <;> simp [reports, pollStep, lastConn] <;>
      cases lastConn (reports f _ t) <;> simp

/-- **Connected implies the last connection report was Online** (and conversely): starting as
`EventLoop::new` does (`Disconnected`), after any outcome sequence the state is `Connected` iff
the last Online/Offline event returned by `poll` is Online. -/
theorem M14_connected_implies_last_report_online (f : Bytes → Bytes → E) (tr : List RuEv) :
    finalState f .disconnected tr = .connected ↔
      lastConn (reports f .disconnected tr) = some true := by
  rw [finalState_connected_iff]; simp

/-- the same characterisation without model states: an error makes `poll` return Offline iff the
last Online/Offline returned before it was Online -/
theorem M14_offline_reports_history (f : Bytes → Bytes → E) (pre post : List RuEv) :
    reports f .disconnected (pre ++ .error :: post) =
      reports f .disconnected pre ++
        (if lastConn (reports f .disconnected pre) = some true then [.offline] else []) ++
        reports f (finalState f .disconnected (pre ++ [.error])) post := by
  have hc := M14_connected_implies_last_report_online f pre
  have : pre ++ RuEv.error :: post = (pre ++ [RuEv.error]) ++ post := by simp
  rw [this, reports_append, reports_append]
  congr 1
  congr 1
  cases hs : finalState f .disconnected pre
  · have : ¬ lastConn (reports f .disconnected pre) = some true := by
      rw [← hc, hs]; decide
    simp [reports, pollStep, this]
  · have : ¬ lastConn (reports f .disconnected pre) = some true := by
      rw [← hc, hs]; decide
    simp [reports, pollStep, this]
  · have : lastConn (reports f .disconnected pre) = some true := hc.mp hs
    simp [reports, pollStep, this]

/-! ### no Offline storm -/

/-- Offline reports of a ConnAck-free stretch met in a state other than `Connected`: one per
DISCONNECT event, none for errors -/
theorem offlineCount_not_connected (f : Bytes → Bytes → E) (s : ConnState) (seg : List RuEv)
    (hs : s ≠ .connected) (hseg : ∀ e ∈ seg, e ≠ .connAck) :
    offlineCount (reports f s seg) = discCount seg := by
  induction seg generalizing s with
  | nil => rfl
  | cons e t ih =>
    have ht : ∀ e ∈ t, e ≠ .connAck := fun x hx => hseg x (List.mem_cons_of_mem _ hx)
    have he : e ≠ .connAck := hseg e (List.mem_cons_self ..)
    have h1 := ih .disconnected (by decide) ht
    have h2 := ih .manualDisconnected (by decide) ht
    cases s <;> cases e <;> simp_all [reports, pollStep] <;> omega

/-- **No Offline storm: the exact count.** Take the outcomes `seg` between two ConnAcks (so the
stretch starts in `Connected`, right after an Online). The number of Offline reports in it is the
number of DISCONNECT events (incoming + outgoing) plus one if the first loss indication of the
stretch is an error — errors never produce more than ONE Offline per connection, however many
follow; only DISCONNECT packets events can add further ones. -/
theorem M14_no_offline_storm (f : Bytes → Bytes → E) (seg : List RuEv)
    (hseg : ∀ e ∈ seg, e ≠ .connAck) :
    offlineCount (reports f .connected seg) =
      discCount seg + (if firstLoss seg = some .error then 1 else 0) := by
  induction seg with
  | nil => rfl
  | cons e t ih =>
    have ht : ∀ e ∈ t, e ≠ .connAck := fun x hx => hseg x (List.mem_cons_of_mem _ hx)
    have he : e ≠ .connAck := hseg e (List.mem_cons_self ..)
    have hd := offlineCount_not_connected f .disconnected t (by decide) ht
    have hm := offlineCount_not_connected f .manualDisconnected t (by decide) ht
    have := ih ht
    cases e <;> simp_all [reports, pollStep, firstLoss] <;>
      first | omega | (split <;> simp_all)

/-- corollaries: at most `discCount + 1`; without DISCONNECT events at most one Offline between
two Onlines; and no Online inside the stretch -/
theorem M14_no_offline_storm_bound (f : Bytes → Bytes → E) (seg : List RuEv)
    (hseg : ∀ e ∈ seg, e ≠ .connAck) :
    offlineCount (reports f .connected seg) ≤ discCount seg + 1 ∧
    (discCount seg = 0 → offlineCount (reports f .connected seg) ≤ 1) ∧
    onlineCount (reports f .connected seg) = 0 := by
  have h := M14_no_offline_storm f seg hseg
  have ho := (M14_online_iff_connack f .connected seg).2
  have hc : connAckCount seg = 0 := by
    unfold connAckCount
    rw [List.length_eq_zero_iff, List.filter_eq_nil_iff]
    intro e he
    have := hseg e he
    cases e <;> simp_all [isConnAck]
  refine ⟨?_, ?_, by omega⟩
  · rw [h]; split <;> omega
  · intro h0; rw [h, h0]; split <;> omega

/-- the stretch between two Online reports, in the output: for outcomes
`a ++ connAck :: seg ++ connAck :: b` with `seg` ConnAck-free the reports are
`… Online, reports(Connected, seg), Online …` -/
theorem M14_between_onlines (f : Bytes → Bytes → E) (s : ConnState) (a seg b : List RuEv) :
    reports f s (a ++ .connAck :: (seg ++ .connAck :: b)) =
      reports f s a ++ .online :: (reports f .connected seg ++ .online :: reports f .connected b) := by
  rw [reports_append]
  congr 1
  simp only [reports, pollStep]
  congr 1
  rw [reports_append]
  congr 1

/-- global form, for every outcome sequence from `EventLoop::new`'s state: Offline reports never
exceed Online reports plus DISCONNECT events -/
theorem M14_offline_le (f : Bytes → Bytes → E) (s : ConnState) (tr : List RuEv) :
    offlineCount (reports f s tr) ≤
      onlineCount (reports f s tr) + discCount tr + (if s = .connected then 1 else 0) := by
  induction tr generalizing s with
  | nil => simp [reports, offlineCount]
  | cons e t ih =>
    have h1 := ih .connected
    have h2 := ih .disconnected
    have h3 := ih .manualDisconnected
    cases s <;> cases e <;> simp_all [reports, pollStep] <;> omega

/-- duplicates ARE possible: a broker DISCONNECT surfaced as an event followed by the client's
own disconnect gives two Offline in a row -/
example : reports (fun _ _ => ()) .disconnected [.connAck, .incomingDisconnect, .outgoingDisconnect] =
    [.online, .offline, .offline] := by decide

/-- and so do two `disconnect()` calls on one connection (observed on the real crate, harness
op `cdisc twice`) -/
example : reports (fun _ _ => ()) .disconnected [.connAck, .outgoingDisconnect, .outgoingDisconnect] =
    [.online, .offline, .offline] := by decide

/-- while repeated errors do not: one Offline, then silence (and a sleep per further error) -/
example : reports (fun _ _ => ()) .disconnected [.connAck, .error, .error, .error, .connAck] =
    [.online, .offline, .online] ∧
    sleepCount (fun _ _ => ()) .disconnected [.connAck, .error, .error, .error, .connAck] = 2 := by
  decide

/-! ### publishes -/

/-- **Publish pass-through.** Whatever the state and whatever else happens, the message events
returned by `poll` are exactly `topic_and_payload_to_event (topic, payload)` of the incoming
PUBLISH outcomes, unchanged and in order. -/
theorem M14_publish_passthrough (f : Bytes → Bytes → E) (s : ConnState) (tr : List RuEv) :
    (reports f s tr).filterMap msgOf = tr.filterMap (pubOf f) := by
  induction tr generalizing s with
  | nil => rfl
  | cons e t ih =>
    have := ih (pollStep f s e).1
    cases s <;> cases e <;> simp_all [reports, pollStep, List.filterMap_cons, msgOf, pubOf]

/-- a publish never changes the connection state and never sleeps -/
theorem M14_publish_keeps_state (f : Bytes → Bytes → E) (s : ConnState) (t p : Bytes) :
    pollStep f s (.incomingPublish t p) = (s, some (.message (f t p)), false) := by
  cases s <;> rfl

/-! ### manual disconnect, sleeping -/

/-- **After a manual disconnect errors are silent.** Once `Outgoing::Disconnect` was seen, any
run of errors / other events returns nothing to the caller, never sleeps, and leaves the state
`ManualDisconnected` (rumqttc keeps reconnecting at once; only a ConnAck or a DISCONNECT event
ends the silence). -/
theorem M14_manual_disconnect_then_error_is_silent (f : Bytes → Bytes → E) (s : ConnState)
    (tr : List RuEv) (h : ∀ e ∈ tr, e = .error ∨ e = .otherEvent) :
    reports f s (.outgoingDisconnect :: tr) = [.offline] ∧
    sleepCount f s (.outgoingDisconnect :: tr) = 0 ∧
    finalState f s (.outgoingDisconnect :: tr) = .manualDisconnected := by
  have key : ∀ tr : List RuEv, (∀ e ∈ tr, e = .error ∨ e = .otherEvent) →
      reports f .manualDisconnected tr = [] ∧ sleepCount f .manualDisconnected tr = 0 ∧
      finalState f .manualDisconnected tr = .manualDisconnected := by
    intro tr
    induction tr with
    | nil => intro _; exact ⟨rfl, rfl, rfl⟩
    | cons e t ih =>
      intro h
      have ht := ih (fun x hx => h x (List.mem_cons_of_mem _ hx))
      rcases h e (List.mem_cons_self ..) with he | he <;> subst he <;>
        simp [reports, sleepCount, finalState, pollStep, ht]
  obtain ⟨h1, h2, h3⟩ := key tr h
  cases s <;> simp [reports, sleepCount, finalState, pollStep, h1, h2, h3]

/-- **The 1 s sleep.** A row sleeps iff it is an error met in `Disconnected`; in particular never
on the error that ends a connection and never after a manual disconnect. -/
theorem M14_sleep_iff (f : Bytes → Bytes → E) (s : ConnState) (tr : List RuEv) :
    ∀ st ∈ stepLog f s tr, st.slept = true ↔ (st.ev = .error ∧ st.pre = .disconnected) := by
  intro st h
  rw [(stepLog_row f s tr st h).2.2]
  cases st.pre <;> cases st.ev <;> simp [pollStep]

/-- `n` failed reconnects in a row while `Disconnected`: `n` sleeps, nothing reported -/
theorem M14_reconnect_errors_sleep (f : Bytes → Bytes → E) (n : Nat) :
    reports f .disconnected (List.replicate n .error) = [] ∧
    sleepCount f .disconnected (List.replicate n .error) = n ∧
    finalState f .disconnected (List.replicate n .error) = .disconnected := by
  induction n with
  | zero => exact ⟨rfl, rfl, rfl⟩
  | succ n ih =>
    obtain ⟨h1, h2, h3⟩ := ih
    simp [List.replicate_succ, reports, sleepCount, finalState, pollStep, h1, h2, h3]; omega

/-- `EventLoop::poll` returns the first report of the remaining outcomes: iterating `pollLoop`
yields `reports` -/
theorem M14_poll_loop (f : Bytes → Bytes → E) (s : ConnState) (tr : List RuEv) :
    match pollLoop f s tr with
    | some (s', ev, rest, _) =>
        reports f s tr = ev :: reports f s' rest ∧ finalState f s tr = finalState f s' rest
    | none => reports f s tr = [] := by
  induction tr generalizing s with
  | nil => simp [pollLoop, reports]
  | cons e t ih =>
    have := ih (pollStep f s e).1
    simp only [pollLoop, reports, finalState]
    cases hr : (pollStep f s e).2.1 with
    | some ev => simp
    | none =>
      simp only
      cases hp : pollLoop f (pollStep f s e).1 t with
      | none => simp [hp] at this; simpa using this
      | some q =>
        obtain ⟨s', ev, rest, n⟩ := q
        simp [hp] at this
        simpa using this

/-! ### the pure conversions -/

/-- `qos_to_mqtt_qos` keeps the level: wire value 0 for AtMostOnce, 1 for AtLeastOnce; it never
produces QoS 2 -/
theorem M14_qos_mapping :
    (qosToMqtt .atMostOnce).wire = 0 ∧ (qosToMqtt .atLeastOnce).wire = 1 ∧
    ∀ q, qosToMqtt q ≠ .exactlyOnce := by
  refine ⟨rfl, rfl, ?_⟩
  intro q; cases q <;> decide

/-- **The wire QoS / retain table**: NBIRTH, NDATA, NCMD = (0, false); NDEATH, DBIRTH, DDEATH =
(1, false); DDATA, DCMD = (0, false); STATE = (1, true) — for every topic string and payload. -/
theorem M14_qos_retain_table (t p : Bytes) :
    ((wirePublish (.node .birth) t p).qos.wire, (wirePublish (.node .birth) t p).retain) = (0, false) ∧
    ((wirePublish (.node .data) t p).qos.wire, (wirePublish (.node .data) t p).retain) = (0, false) ∧
    ((wirePublish (.node .cmd) t p).qos.wire, (wirePublish (.node .cmd) t p).retain) = (0, false) ∧
    ((wirePublish (.node .death) t p).qos.wire, (wirePublish (.node .death) t p).retain) = (1, false) ∧
    ((wirePublish (.device .birth) t p).qos.wire, (wirePublish (.device .birth) t p).retain) = (1, false) ∧
    ((wirePublish (.device .death) t p).qos.wire, (wirePublish (.device .death) t p).retain) = (1, false) ∧
    ((wirePublish (.device .data) t p).qos.wire, (wirePublish (.device .data) t p).retain) = (0, false) ∧
    ((wirePublish (.device .cmd) t p).qos.wire, (wirePublish (.device .cmd) t p).retain) = (0, false) ∧
    ((wirePublish .state t p).qos.wire, (wirePublish .state t p).retain) = (1, true) :=
  ⟨rfl, rfl, rfl, rfl, rfl, rfl, rfl, rfl, rfl⟩

/-- the same table as a decided finite table over all nine kinds -/
theorem M14_qos_retain_table_all :
    ([PubKind.node .birth, .node .data, .node .cmd, .node .death, .device .birth, .device .death,
      .device .data, .device .cmd, .state].map
        fun k => ((qosToMqtt (pubQosRetain k).1).wire, (pubQosRetain k).2)) =
    [(0, false), (0, false), (0, false), (1, false), (1, false), (1, false), (0, false), (0, false),
      (1, true)] := by decide

/-- topic string and payload bytes go to rumqttc unchanged, for every kind -/
theorem M14_publish_faithful (k : PubKind) (t p : Bytes) :
    (wirePublish k t p).topic = t ∧ (wirePublish k t p).payload = p ∧
    (publishRequest k t p = none ↔ validTopic t = false) := by
  refine ⟨rfl, rfl, ?_⟩
  unfold publishRequest
  cases validTopic t <;> simp

/-- **The will is converted faithfully**: topic, payload bytes, QoS level and retain flag of the
registered `LastWill` are those of the rumqttc will; no will properties; and the CONNECT of every
connection carries the will of the last `set_last_will` before it (the one given in the user's
`MqttOptions` if there was none), for every sequence of `set_last_will` / poll activity. -/
theorem M14_will_faithful {X : Type} (o : ConnOpts X) (w : LastWill) (pre post : List Call) :
    (convertWill w).topic = w.topic ∧ (convertWill w).message = w.payload ∧
    (convertWill w).qos.wire = (match w.qos with | .atMostOnce => 0 | .atLeastOnce => 1) ∧
    (convertWill w).retain = w.retain ∧ (convertWill w).hasProperties = false ∧
    (setLastWill o w).will = some (convertWill w) ∧
    (connectLog o (pre ++ .connect :: post))[(connectLog o pre).length]? =
      some { o with will := lastWillOf o.will pre } := by
  refine ⟨rfl, rfl, by cases w with | mk t r q p => cases q <;> rfl, rfl, rfl, rfl, ?_⟩
  have happ : ∀ (o : ConnOpts X) (a b : List Call),
      connectLog o (a ++ b) = connectLog o a ++ connectLog (optsAfter o a) b := by
    intro o a b
    induction a generalizing o with
    | nil => rfl
    | cons c t ih => cases c <;> simp [connectLog, optsAfter, ih]
  have hopts : ∀ (o : ConnOpts X) (a : List Call),
      optsAfter o a = { o with will := lastWillOf o.will a } := by
    intro o a
    induction a generalizing o with
    | nil => rfl
    | cons c t ih => cases c <;> simp [optsAfter, lastWillOf, ih, setLastWill]
  rw [happ, hopts]
  simp [connectLog]

/-- **Connect options**: from `EventLoop::new` on, every CONNECT says clean start = true and
session expiry interval = 0, whatever the user's options said and whatever wills are registered;
the remaining options are the user's. -/
theorem M14_connect_options {X : Type} (o : ConnOpts X) (calls : List Call) :
    ∀ c ∈ connectLog (newOptions o) calls,
      c.cleanStart = true ∧ c.sessionExpiry = some 0 ∧ c.other = o.other := by
  have gen : ∀ (o' : ConnOpts X), o'.cleanStart = true → o'.sessionExpiry = some 0 →
      o'.other = o.other →
      ∀ c ∈ connectLog o' calls, c.cleanStart = true ∧ c.sessionExpiry = some 0 ∧ c.other = o.other := by
    induction calls with
    | nil => intro o' _ _ _ c hc; simp [connectLog] at hc
    | cons x t ih =>
      intro o' h1 h2 h3 c hc
      cases x with
      | setLastWill w => exact ih (setLastWill o' w) h1 h2 h3 c (by simpa [connectLog] using hc)
      | connect =>
        simp only [connectLog, List.mem_cons] at hc
        rcases hc with hc | hc
        · subst hc; exact ⟨h1, h2, h3⟩
        · exact ih o' h1 h2 h3 c hc
      | other => exact ih o' h1 h2 h3 c (by simpa [connectLog] using hc)
  exact gen (newOptions o) rfl rfl rfl

/-- **Subscribe filters**: `subscribe_many` sends one request with one filter per `TopicFilter`,
in order, path = the topic's string, QoS level kept, default subscription options; the three
wildcard topics are `spBv1.0/<g>/+/<n>/#`, `spBv1.0/<id>/+/#`, `spBv1.0/#`. -/
theorem M14_subscribe_filters (tfs : List TopicFilter) :
    (subscribeRequest tfs).length = tfs.length ∧
    ∀ i (h : i < tfs.length),
      ((subscribeRequest tfs)[i]?).map (·.path) = some (topicString tfs[i].topic) ∧
      ((subscribeRequest tfs)[i]?).map (·.qos) = some (qosToMqtt tfs[i].qos) ∧
      ((subscribeRequest tfs)[i]?).map (·.nolocal) = some false := by
  refine ⟨by simp [subscribeRequest], ?_⟩
  intro i h
  simp [subscribeRequest, List.getElem?_map, List.getElem?_eq_getElem h, convertFilter]

/-- the full-queue rule of the `try_` variants: of `n` calls made while nobody drains the queue,
exactly the first `cap - queued` succeed -/
theorem M14_try_publish_capacity (cap queued n : Nat) :
    tryMany cap queued n =
      List.replicate (min n (cap - queued)) true ++ List.replicate (n - min n (cap - queued)) false := by
  induction n generalizing queued with
  | zero => simp [tryMany]
  | succ n ih =>
    unfold tryMany
    by_cases h : queued < cap
    · simp only [tryAccepts, h, decide_true, if_true]
      rw [ih (queued + 1)]
      have h1 : min (n + 1) (cap - queued) = min n (cap - (queued + 1)) + 1 := by omega
      have h2 : n + 1 - min (n + 1) (cap - queued) = n - min n (cap - (queued + 1)) := by omega
      rw [h2, h1, List.replicate_succ]; rfl
    · simp only [tryAccepts, h, decide_false]
      rw [ih queued]
      have h0 : cap - queued = 0 := by omega
      simp [h0, List.replicate_succ]

/-! ### non-vacuity: concrete runs -/

/-- a session: connect, a publish, socket loss, two failed reconnects, connect, manual
disconnect, an error, a reconnect -/
example :
    let tr : List RuEv := [.connAck, .incomingPublish [1] [2], .otherEvent, .error, .error, .error,
      .connAck, .outgoingDisconnect, .error, .connAck]
    reports (fun t p => (t, p)) .disconnected tr =
      [.online, .message ([1], [2]), .offline, .online, .offline, .online] ∧
    sleepCount (fun t p => (t, p)) .disconnected tr = 2 ∧
    finalState (fun t p => (t, p)) .disconnected tr = .connected ∧
    firstLoss [RuEv.otherEvent, .error, .error] = some .error := by decide

/-- the hypotheses of the storm theorem are satisfiable by a stretch with both kinds of loss -/
example : (∀ e ∈ [RuEv.otherEvent, .error, .incomingDisconnect, .error], e ≠ RuEv.connAck) ∧
    offlineCount (reports (fun _ _ => ()) .connected [.otherEvent, .error, .incomingDisconnect, .error]) = 2 := by
  decide

/-- the silent-error theorem's hypothesis is satisfiable -/
example : reports (fun _ _ => ()) .connected [.outgoingDisconnect, .error, .otherEvent, .error] = [.offline] := by
  decide

/-- the will of the second CONNECT is the second registration -/
example :
    let w1 : LastWill := { topic := [1], retain := false, qos := .atLeastOnce, payload := [7] }
    let w2 : LastWill := { topic := [1], retain := false, qos := .atLeastOnce, payload := [8] }
    let o : ConnOpts Unit := newOptions { cleanStart := false, sessionExpiry := some 30, will := none, other := () }
    (connectLog o [.setLastWill w1, .connect, .other, .setLastWill w2, .connect]).map (·.will) =
      [some (convertWill w1), some (convertWill w2)] ∧
    (connectLog o [.connect]).map (fun c => (c.cleanStart, c.sessionExpiry)) = [(true, some 0)] := by
  decide

example : topicString (.node [0x67] [0x6e]) =
    [0x73, 0x70, 0x42, 0x76, 0x31, 0x2e, 0x30, 0x2f, 0x67, 0x2f, 0x2b, 0x2f, 0x6e, 0x2f, 0x23] := by decide

example : tryMany 2 0 4 = [true, true, false, false] ∧ tryMany 0 0 2 = [false, false] := by decide

example : publishRequest (.node .data) [0x61, 0x2b] [] = none ∧
    (publishRequest (.node .death) [0x61] [1]).map (fun w => (w.qos.wire, w.retain)) = some (1, false) := by
  decide

end Srad.Rumqtt
