/-
C02 — Edge node sequence numbers are gap-free per node birth.
Property theorems only (helper lemmas: `SradModel/Proofs/EonC02.lean`).
An execution is ANY interleaving of environment stimuli and task steps of the LTS `Model/Eon`
(`runActs`), with any client decision (accept / reject / park) on every hand-over.
-/
import SradModel.Proofs.EonC02

namespace Srad.Eon
open Srad.Eon.P02

/-- **C02.** In the observation trace of every execution: every NBIRTH carries seq 0; the NDATA,
DBIRTH, DDATA and DDEATH hand-overs after it carry 1, 2, 3, … (255 wrapping to 0) in exactly
hand-over order until the next NBIRTH, whichever task publishes and whatever the client answers;
no seq-bearing message is handed over before the first NBIRTH; SUB, NDEATH and DISCONNECT carry
no sequence number. -/
theorem C02_seq_gap_free (cd : Nat) (acts : List Act) (s : St) (tr : List Obs)
    (h : runActs (init cd) acts = some (s, tr)) : seqOk none tr = true := by
  exact (runActs_good acts _ none s tr (inv_init cd) h).1

/-- the counter in the state is the number the last seq-bearing hand-over carried (0 right after
an NBIRTH), always a `u8` -/
theorem C02_seq_is_u8 (cd : Nat) (acts : List Act) (s : St) (tr : List Obs)
    (h : runActs (init cd) acts = some (s, tr)) : s.seq < 256 ∧ s.bdseq < 256 := by
  obtain ⟨_, hI⟩ := (runActs_good acts _ none s tr (inv_init cd) h).2
  exact ⟨hI.1, hI.2.1⟩

/-! ### non-vacuity: a concrete execution with two publishers and a wrap-free prefix -/
example :
    (runActs (init 0) [.task .loop .acc 0, .stim (.ev .online), .task .loop .acc 0, .task .loop .acc 0,
      .task .node .acc 0, .task .node .acc 0, .task .node .acc 0, .task .node .acc 0,
      .stim (.pub 0 .node true 1), .task (.user 0) .acc 0]).map (·.2)
      = some [.will 0, .poll, .polled .online, .call 0 .sub none none none false .acc, .bNode,
              .call 1 .nbirth none (some 0) (some 0) false .acc,
              .call 2 .ndata none (some 1) none true .acc, .ures 0 .ok] := by decide

end Srad.Eon
