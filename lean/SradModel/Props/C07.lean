/-
C07 — Host requests a rebirth exactly when a node's stream is untrustworthy.
Property theorems only (helper lemmas: `SradModel/Proofs/Host.lean`).
`raised c s i now` is the reason (if any) an input raises in a state; `C07_rebirth_iff` ties the
NCMD to it, the `C07_trigger_*` theorems characterise it trigger by trigger in declarative terms.
-/
import SradModel.Proofs.HostC07

namespace Srad.Host
open Srad.Host.C07P

/-- **Exactly when.** A step publishes a rebirth NCMD iff its input raises a reason whose switch
is enabled and the cooldown has expired. Then it publishes exactly one, as the last effect of the
step. -/
theorem C07_rebirth_iff (c : Cfg) (s : St) (i : In) (now wall : Nat) (hinv : HostInv s) (hwf : i.WF) :
    (Eff.ncmd ∈ (step c s i now wall).2 ↔
      ∃ r, raised c s i now = some r ∧ c.enabled r = true ∧ CooldownOk c s wall) ∧
    (step c s i now wall).2.count Eff.ncmd ≤ 1 ∧
    (Eff.ncmd ∈ (step c s i now wall).2 → (step c s i now wall).2.getLast? = some Eff.ncmd) := by
  have _ := hinv; have _ := hwf  -- not needed: holds in every state
  exact step_spec c s i now wall

/-- **Only for a node it holds stale** (ClockCoherent): after a step that published the NCMD the
node is held stale, and its stores were marked stale if they were not. -/
theorem C07_ncmd_only_when_stale (c : Cfg) (s : St) (i : In) (now wall : Nat) (hinv : HostInv s)
    (hwf : i.WF) (hclock : s.birthTs ≤ now) (h : Eff.ncmd ∈ (step c s i now wall).2) :
    (step c s i now wall).1.life = .stale ∧
    (s.life = .birthed → Eff.nodeStale ∈ (step c s i now wall).2) := by
  have _ := hinv; have _ := hwf  -- not needed: holds in every state
  exact step_stale c s i now wall hclock h

/-! ### the listed triggers, each raising its reason -/

/-- data while the host holds the node stale -/
theorem C07_trigger_data_while_stale (c : Cfg) (s : St) (seq ts : Nat) (m : RMsg) (now : Nat)
    (hfresh : Fresh s ts) (hst : s.life = .stale) :
    raised c s (.rmsg seq ts m) now = some .recordedStateStale := by
  exact raised_stale c s seq ts m now hfresh hst

/-- a duplicated sequence number: a message with that number is already waiting in the buffer -/
theorem C07_trigger_duplicate (c : Cfg) (s : St) (seq ts : Nat) (m : RMsg) (now : Nat)
    (hinv : HostInv s) (hseq : seq < 256) (hfresh : Fresh s ts) (hb : s.life = .birthed)
    (hres : c.resequence = true) (hdup : ∃ x ∈ s.reseq.buf, x.2.1 = seq) :
    raised c s (.rmsg seq ts m) now = some .reorderFail := by
  exact raised_dup c s seq ts m now hinv hseq hfresh hb hres hdup

/-- a sequence gap not filled within the reorder timeout: (a) an out-of-order message arms the
timer for `now + timeout` when none is running; (b) the timer task firing raises the reason -/
theorem C07_trigger_gap_arms_timer (c : Cfg) (s : St) (seq ts : Nat) (m : RMsg) (now wall d : Nat)
    (hinv : HostInv s) (hseq : seq < 256) (hfresh : Fresh s ts) (hb : s.life = .birthed)
    (hres : c.resequence = true) (hto : c.reorderTimeout = some d) (hgap : seq ≠ s.reseq.next)
    (hnew : ∀ x ∈ s.reseq.buf, x.2.1 ≠ seq) (hidle : s.timer = .none) :
    (step c s (.rmsg seq ts m) now wall).1.timer = .armed (now + d) ∧
    (step c s (.rmsg seq ts m) now wall).2 = [Eff.timerStart] := by
  exact gap_arms_timer c s seq ts m now wall d hinv hseq hfresh hb hres hto hgap hnew hidle

theorem C07_trigger_gap_timeout (c : Cfg) (s : St) (now dl : Nat) (h : s.timer = .armed dl) :
    raised c s .timerFire now = some .reorderTimeout := by
  simp [raised, h]

/-- a store rejecting a metric of an in-sequence message: the reason follows the store's answer
(`invalid` ↦ `invalidPayload`, `unknownMetric` ↦ `unknownMetric`), for node data exactly as for
device data (D17) -/
theorem C07_trigger_store_rejects_node_data (c : Cfg) (s : St) (seq ts id : Nat) (ans : Ans) (now : Nat)
    (hinv : HostInv s) (hseq : seq < 256) (hfresh : Fresh s ts) (hb : s.life = .birthed)
    (hin : InSeq c s seq) (hrej : ans ≠ .ok) :
    raised c s (.rmsg seq ts (.ndata id ans)) now
      = some (if ans = .invalid then .invalidPayload else .unknownMetric) := by
  refine raised_inseq_some c s seq ts _ now hinv hseq hfresh hb hin _ (fun rs => ?_)
  cases ans <;> simp_all [apply]

theorem C07_trigger_store_rejects_device_birth (c : Cfg) (s : St) (seq ts d id : Nat) (ans : Ans) (now : Nat)
    (hinv : HostInv s) (hseq : seq < 256) (hfresh : Fresh s ts) (hb : s.life = .birthed)
    (hin : InSeq c s seq) (hrej : ans ≠ .ok) :
    raised c s (.rmsg seq ts (.dbirth d id ans)) now = some .invalidPayload := by
  exact raised_inseq_some c s seq ts _ now hinv hseq hfresh hb hin _ (fun rs => by simp [apply, hrej])

theorem C07_trigger_store_rejects_device_data (c : Cfg) (s : St) (seq ts d id : Nat) (ans : Ans) (now : Nat)
    (hinv : HostInv s) (hseq : seq < 256) (hfresh : Fresh s ts) (hb : s.life = .birthed)
    (hin : InSeq c s seq) (hdev : devState s d = .birthed ∧ findDev d s.devices ≠ none) (hrej : ans ≠ .ok) :
    raised c s (.rmsg seq ts (.ddata d id ans)) now
      = some (if ans = .invalid then .invalidPayload else .unknownMetric) := by
  obtain ⟨h1, h2⟩ := hdev
  have hf : findDev d s.devices = some .birthed := by
    unfold devState at h1
    cases hfd : findDev d s.devices with
    | none => exact absurd hfd h2
    | some l => rw [hfd] at h1; simpa using h1
  refine raised_inseq_some c s seq ts _ now hinv hseq hfresh hb hin _ (fun rs => ?_)
  cases ans <;> simp_all [apply]

/-- the node's store rejecting an NBIRTH: every NBIRTH that is strictly newer is shown to the
store, whatever the host holds for the node (also a rebirth that keeps the bdSeq while the node
is held birthed, D16), so every rejection raises the reason -/
theorem C07_trigger_store_rejects_node_birth (c : Cfg) (s : St) (ts bd id : Nat) (ans : Ans) (now : Nat)
    (hnew : s.birthTs < ts) (hrej : ans ≠ .ok) :
    raised c s (.nbirth ts bd id ans) now = some .invalidPayload := by
  simp only [raised]
  rw [if_neg (by omega), if_pos hrej]

/-- data (or a death) from a device it holds no birth for -/
theorem C07_trigger_unknown_device (c : Cfg) (s : St) (seq ts d id : Nat) (ans : Ans) (now : Nat)
    (hinv : HostInv s) (hseq : seq < 256) (hfresh : Fresh s ts) (hb : s.life = .birthed)
    (hin : InSeq c s seq) (hunk : findDev d s.devices = none) :
    raised c s (.rmsg seq ts (.ddata d id ans)) now = some .unknownDevice ∧
    raised c s (.rmsg seq ts (.ddeath d id)) now = some .unknownDevice := by
  exact ⟨raised_inseq_some c s seq ts _ now hinv hseq hfresh hb hin _ (fun rs => by simp [apply, hunk]),
    raised_inseq_some c s seq ts _ now hinv hseq hfresh hb hin _ (fun rs => by simp [apply, hunk])⟩

/-- data for a device it holds stale -/
theorem C07_trigger_device_stale (c : Cfg) (s : St) (seq ts d id : Nat) (ans : Ans) (now : Nat)
    (hinv : HostInv s) (hseq : seq < 256) (hfresh : Fresh s ts) (hb : s.life = .birthed)
    (hin : InSeq c s seq) (hst : findDev d s.devices = some .stale) :
    raised c s (.rmsg seq ts (.ddata d id ans)) now = some .recordedStateStale := by
  exact raised_inseq_some c s seq ts _ now hinv hseq hfresh hb hin _ (fun rs => by simp [apply, hst])

/-- an NDEATH whose bdSeq differs from the current birth's -/
theorem C07_trigger_bdseq_mismatch (c : Cfg) (s : St) (bd now : Nat) (h : bd ≠ s.bdseq) :
    raised c s (.ndeath bd) now = some .outOfSyncBdSeq := by
  simp [raised, h]

/-- data from a node it holds no birth for (dispatcher): the actor is created and asked for a
rebirth, the message itself is dropped -/
theorem C07_trigger_unknown_node (c : Cfg) (a : App) (n seq ts : Nat) (m : RMsg) (now wall : Nat)
    (hunk : findNode n a.nodes = none) (hen : c.unknownNode = true) (hcd : c.cooldown ≤ wall) :
    (appStep c a (.node n (.rmsg seq ts m)) now wall).2
      = [AppEff.nodeCreated n, AppEff.node n Eff.ncmd] ∧
    (findNode n (appStep c a (.node n (.rmsg seq ts m)) now wall).1.nodes).map (·.life) = some .stale := by
  exact unknown_node c a n seq ts m now wall hunk hen hcd

/-! ### nothing else raises a reason -/

/-- an in-sequence message that its store accepts, for a birthed node and (for device data) a
birthed device, raises nothing; neither does an NDEATH with the current bdSeq, the host going
offline, an accepted or ignored NBIRTH, or an out-of-order message that is new to the buffer
(what buffered messages raise when they are later released is theirs, see `C05_prompt_in_order`) -/
theorem C07_no_reason_when_trustworthy (c : Cfg) (s : St) (now : Nat) (hinv : HostInv s) :
    raised c s .offline now = none ∧
    raised c s (.ndeath s.bdseq) now = none ∧
    (∀ ts bd id, raised c s (.nbirth ts bd id .ok) now = none) ∧
    (∀ seq ts id, seq < 256 → Fresh s ts → s.life = .birthed → InSeq c s seq →
        s.reseq.buf = [] → raised c s (.rmsg seq ts (.ndata id .ok)) now = none) ∧
    (∀ seq ts m, seq < 256 → Fresh s ts → s.life = .birthed → c.resequence = true →
        seq ≠ s.reseq.next → (∀ x ∈ s.reseq.buf, x.2.1 ≠ seq) →
        raised c s (.rmsg seq ts m) now = none) := by
  refine ⟨rfl, by simp [raised], ?_, ?_, ?_⟩
  · intro ts bd id
    simp only [raised]
    split <;> simp
  · intro seq ts id hseq hfresh hb hin hbuf
    exact raised_ndata_ok c s seq ts id now hinv hseq hfresh hb hin hbuf
  · intro seq ts m hseq hfresh hb hres hgap hnew
    exact raised_inserted c s seq ts m now hinv hseq hfresh hb hres hgap hnew

/-! ### non-vacuity -/
example : raised (exampleCfg (some 100) 0) init (.rmsg 1 5 (.ndata 1 .ok)) 5 = some .recordedStateStale := by decide

/-- node data the store does not know a metric of raises `unknownMetric`, malformed node data
`invalidPayload` (D17) -/
example :
    let c := exampleCfg (some 100) 0
    let s0 := (step c init (.nbirth 10 3 1 .ok) 10 10).1
    raised c s0 (.rmsg 1 11 (.ndata 2 .unknownMetric)) 11 = some .unknownMetric ∧
    raised c s0 (.rmsg 1 11 (.ndata 2 .invalid)) 11 = some .invalidPayload := by decide

/-- a rebirth NBIRTH with the same bdSeq, rejected by the store of a node held birthed, raises
`invalidPayload` and is answered with a rebirth request (D16) -/
example :
    let c : Cfg := { exampleCfg (some 100) 0 with invalidPayload := true }
    let s0 := (step c init (.nbirth 10 3 1 .ok) 10 10).1
    raised c s0 (.nbirth 20 3 2 .invalid) 20 = some .invalidPayload ∧
    (step c s0 (.nbirth 20 3 2 .invalid) 20 20).2 = [.nodeBirth 2 false, .nodeStale, .ncmd] := by decide

end Srad.Host
