/-
C15 — Edge node honours rebirth commands and routes commands faithfully.
Property theorems only; helper lemmas are in `SradModel/Proofs/Cmd.lean`, the model in
`SradModel/Model/Cmd.lean`, the declarative vocabulary (`RebirthRequested`, `Metric.WellFormed`,
`deliveredSpec`, `Honoured`, `birthSequence`, `St.Ready`, `St.Inv`, `St.Good`) in
`SradModel/Model/CmdSpec.lean`.

One `step` = one stimulus handled to quiescence. `decs` are the client's answers to the NBIRTH
hand-overs of the step (none given = accept). States are arbitrary (any point of any history)
subject to the stated hypotheses; `C15_reachable_good` shows the hypotheses hold along every
history with a monotone wall clock.
-/
import SradModel.Proofs.Cmd
import SradModel.Generated.CmdTable

namespace Srad.Cmd
open Srad.Codec

/-! ### recognition of the rebirth request -/

/-- The loop of `on_sparkplug_message` recognises a rebirth request exactly when the *last*
metric of the payload that carries the name `Node Control/Rebirth` and no alias has the value
boolean true. (Aliased metrics, metrics with other names and unnamed metrics never count.) -/
theorem C15_rebirth_recognition (ms : List Metric) :
    rebirthRequested ms = true ↔ RebirthRequested ms :=
  rebirthRequested_iff ms

/-- A payload none of whose (unaliased) Node Control/Rebirth metrics is boolean true — they are
false, non-boolean, valueless, or only aliased / differently named metrics exist — is not a
rebirth request. -/
theorem C15_invalid_request_not_recognised (ms : List Metric)
    (h : ∀ m ∈ ms, m.isRebirth = true → m.value ≠ some (.bool true)) :
    rebirthRequested ms = false := by
  cases hr : rebirthRequested ms with
  | false => rfl
  | true =>
    obtain ⟨m, hm, hv⟩ := (rebirthRequested_iff ms).mp hr
    have hmem := List.mem_of_getLast? hm
    have := List.mem_filter.mp hmem
    exact absurd hv (h m this.1 this.2)

/-! ### what reaches a manager -/

/-- The metrics a manager receives for a command payload are exactly the well-formed metrics
of the payload, in payload order, each with its identifier (alias if present, else name), its
timestamp and its value — an explicit null (`is_null = true`, no value) as "no value".
Metrics without identifier, and metrics with neither value nor `is_null = true`, are skipped. -/
theorem C15_delivered (ms : List Metric) : drainIter ms = deliveredSpec ms :=
  drainIter_eq_spec ms

/-- a metric is delivered iff it is well-formed -/
theorem C15_delivered_iff_wellformed (m : Metric) : m.delivery.isSome ↔ m.WellFormed := by
  rcases m with ⟨name, alias, ts, isNull, value⟩
  cases alias <;> cases name <;> cases value <;>
    simp [Metric.delivery, Metric.WellFormed, Metric.specId]

/-- nothing else is delivered: every delivered item stems from a well-formed payload metric and
carries that metric's identifier, timestamp and value -/
theorem C15_delivered_mem (ms : List Metric) (mm : MessageMetric) :
    mm ∈ drainIter ms ↔
      ∃ m ∈ ms, m.WellFormed ∧ m.specId = some mm.id ∧ mm.ts = m.ts ∧ mm.value = m.value := by
  rw [drainIter_eq_spec]
  simp only [deliveredSpec, List.mem_filterMap]
  constructor
  · rintro ⟨m, hm, hd⟩
    refine ⟨m, hm, (C15_delivered_iff_wellformed m).mp (by simp [hd]), ?_⟩
    unfold Metric.delivery at hd
    split at hd
    · split at hd
      · cases hd; simp_all
      · cases hd
    · cases hd
  · rintro ⟨m, hm, hw, hid, hts, hv⟩
    refine ⟨m, hm, ?_⟩
    unfold Metric.delivery
    rw [hid]
    simp only [hw.2, if_true]
    rcases mm with ⟨id, ts, v⟩
    simp_all

/-- an explicit null reaches the manager as "no value" -/
theorem C15_explicit_null_delivered (ms : List Metric) (m : Metric) (id : MetricId) (hm : m ∈ ms)
    (hid : m.specId = some id) (hv : m.value = none) (hn : m.isNull = some true) :
    { id := id, ts := m.ts, value := none } ∈ drainIter ms := by
  rw [C15_delivered_mem]
  exact ⟨m, hm, ⟨by simp [hid], Or.inr hn⟩, by simp [hid], rfl, hv.symm⟩

/-! ### the rebirth decision of an NCMD step -/

/-- **Decision.** In any state in which the node task is alive and not blocked, an NCMD event
makes the node hand over an NBIRTH if and only if: it is a CMD message, the payload has a
timestamp, the payload's rebirth request is valid, the node is birthed, and the request is
outside the cooldown. -/
theorem C15_ncmd_decision (decs : List Dec) (kind : MsgKind) (p : Payload) (st : St)
    (hr : st.Ready) (hi : st.Inv) :
    (∃ e ∈ (step decs st (.node (.msg kind p))).2, e.isNBirth = true) ↔ Honoured st kind p := by
  rw [step_ncmd_effs decs kind p st hr hi, ← honouredB_iff]
  constructor
  · rintro ⟨e, he, hn⟩
    rcases List.mem_append.mp he with h | h
    · have := (cmdEffs_no_birth _ _ _ _ e h).1
      simp [Eff.isBirth, hn] at this
    · cases hh : honouredB st kind p with
      | true => rfl
      | false => simp [hh] at h
  · intro hh
    exact ⟨.nbirth 0 st.bdSeq, by simp [hh], rfl⟩

/-- **Complete birth sequence.** When the command is honoured and the client accepts the NBIRTH,
the step's effects are: the delivery of the command to the node's manager, followed by exactly
the birth sequence — NBIRTH with seq 0 and the bdSeq the node had, then one DBIRTH for every
enabled device (and for no other), numbered 1, 2, … — and nothing else; afterwards the node is
birthed with the same bdSeq and the request time is recorded. -/
theorem C15_ncmd_birth_sequence (decs : List Dec) (kind : MsgKind) (p : Payload) (st : St)
    (hr : st.Ready) (hi : st.Inv) (hh : Honoured st kind p)
    (hacc : decs.head?.getD .accept = .accept) :
    let r := step decs st (.node (.msg kind p))
    (∃ pre, r.2 = pre ++ birthSequence st.bdSeq st.devs ∧
      ∀ e ∈ pre, (e.isCmd = true ∨ e.isCb = true) ∧ e.target? = some none) ∧
    r.2.filter Eff.isBirth = birthSequence st.bdSeq st.devs ∧
    r.1.birthed = true ∧ r.1.bdSeq = st.bdSeq ∧ r.1.last = st.wall := by
  have hb := (honouredB_iff st kind p).mpr hh
  have he := step_ncmd_effs decs kind p st hr hi
  have hs := step_ncmd_state decs kind p st hr
  simp only [hb, hacc, if_true] at he
  have hbs : birthSequence st.bdSeq st.devs = .nbirth 0 st.bdSeq :: dbirthSeq st.devs := rfl
  refine ⟨⟨cmdEffs none st.nodeMgr kind p, by rw [he, hbs], cmdEffs_all _ _ _ _⟩, ?_,
    (hs.2.2.2.2.2.2.2 hb).1 hacc |>.1, hs.1, (hs.2.2.2.2.2.2.2 hb).1 hacc |>.2.1⟩
  rw [he, List.filter_append, hbs]
  have h1 : (cmdEffs none st.nodeMgr kind p).filter Eff.isBirth = [] :=
    List.filter_eq_nil_iff.mpr fun e h => by simp [(cmdEffs_no_birth _ _ _ _ e h).1]
  have h2 : (Eff.nbirth 0 st.bdSeq :: dbirthSeq st.devs).filter Eff.isBirth
      = Eff.nbirth 0 st.bdSeq :: dbirthSeq st.devs := by
    apply List.filter_eq_self.mpr
    intro e h
    rcases List.mem_cons.mp h with h | h
    · subst h; rfl
    · simp only [dbirthSeq, List.mem_map] at h
      obtain ⟨q, _, rfl⟩ := h
      rfl
  rw [h1, h2]; rfl

/-- the DBIRTHs of the birth sequence are for exactly the enabled devices, each once, in task
order, and the i-th carries sequence number i + 1 (mod 256) -/
theorem C15_birth_sequence_shape (bdSeq : Nat) (devs : List Dev) :
    (birthSequence bdSeq devs).head? = some (.nbirth 0 bdSeq) ∧
    (birthSequence bdSeq devs).tail.length = (devs.filter (·.enabled)).length ∧
    ∀ i (h : i < (devs.filter (·.enabled)).length),
      (birthSequence bdSeq devs).tail[i]? = some (.dbirth (devs.filter (·.enabled))[i].name ((i + 1) % 256)) := by
  refine ⟨rfl, by simp [birthSequence], ?_⟩
  intro i h
  simp [birthSequence, h]

/-- **No birth otherwise.** A command that is not a CMD message, lacks the payload timestamp,
carries no valid rebirth request (false, non-boolean, aliased, absent), arrives while the node
is unbirthed, or arrives within the cooldown produces no NBIRTH, no DBIRTH and no DDEATH, and
leaves the node's birth state, sequence number, bdSeq and devices as they were. -/
theorem C15_ncmd_no_birth (decs : List Dec) (kind : MsgKind) (p : Payload) (st : St)
    (hr : st.Ready) (hi : st.Inv)
    (h : kind ≠ .cmd ∨ p.ts = none ∨ ¬ RebirthRequested p.metrics ∨ st.birthed = false ∨
      st.wall - st.last < st.cooldown) :
    let r := step decs st (.node (.msg kind p))
    (∀ e ∈ r.2, e.isBirth = false) ∧ r.1.birthed = st.birthed ∧ r.1.seq = st.seq ∧
    r.1.bdSeq = st.bdSeq ∧ r.1.devs = st.devs := by
  have hb : honouredB st kind p = false := by
    cases hh : honouredB st kind p with
    | false => rfl
    | true =>
      obtain ⟨h1, h2, h3, h4, h5⟩ := (honouredB_iff st kind p).mp hh
      rcases h with h | h | h | h | h
      · exact absurd h1 h
      · simp [h] at h2
      · exact absurd h3 h
      · simp [h] at h4
      · omega
  have he := step_ncmd_effs decs kind p st hr hi
  have hs := step_ncmd_state decs kind p st hr
  simp only [hb, Bool.false_eq_true, if_false, List.append_nil] at he
  have h1 := hs.2.2.2.2.2.2.1 hb
  refine ⟨?_, h1.1, h1.2.1, hs.1, h1.2.2.2.1⟩
  intro e hm
  rw [he] at hm
  exact (cmdEffs_no_birth _ _ _ _ e hm).1

/-- an honoured command whose NBIRTH the client rejects or parks is followed by no DBIRTH -/
theorem C15_ncmd_nbirth_not_accepted (decs : List Dec) (kind : MsgKind) (p : Payload) (st : St)
    (hr : st.Ready) (hi : st.Inv) (hh : Honoured st kind p)
    (hna : decs.head?.getD .accept ≠ .accept) :
    (step decs st (.node (.msg kind p))).2.filter Eff.isBirth = [.nbirth 0 st.bdSeq] := by
  have hb := (honouredB_iff st kind p).mpr hh
  rw [step_ncmd_effs decs kind p st hr hi]
  simp only [hb, hna, if_true, if_false, List.filter_append]
  have h1 : (cmdEffs none st.nodeMgr kind p).filter Eff.isBirth = [] :=
    List.filter_eq_nil_iff.mpr fun e h => by simp [(cmdEffs_no_birth _ _ _ _ e h).1]
  rw [h1]; rfl

/-! ### routing -/

/-- **NCMD routing.** An NCMD (CMD kind, payload timestamp present) is handed to the node's
manager exactly once, with the payload timestamp and exactly the delivered list; any other
NCMD reaches no manager; no device manager is ever called by an NCMD. -/
theorem C15_ncmd_routing (decs : List Dec) (kind : MsgKind) (p : Payload) (st : St)
    (hr : st.Ready) (hi : st.Inv) :
    let effs := (step decs st (.node (.msg kind p))).2
    effs.filter Eff.isCmd = expectedCmd none kind p ∧
    ∀ e ∈ effs, ∀ d, e.target? ≠ some (some d) := by
  have he := step_ncmd_effs decs kind p st hr hi
  simp only
  rw [he]
  constructor
  · rw [List.filter_append, cmdEffs_filter_isCmd]
    have : (if honouredB st kind p = true then
          Eff.nbirth 0 st.bdSeq :: (if decs.head?.getD .accept = .accept then dbirthSeq st.devs else [])
        else []).filter Eff.isCmd = [] := by
      apply List.filter_eq_nil_iff.mpr
      intro e h
      split at h
      · rcases List.mem_cons.mp h with h | h
        · subst h; simp [Eff.isCmd]
        · split at h
          · simp only [dbirthSeq, List.mem_map] at h
            obtain ⟨q, _, rfl⟩ := h
            simp [Eff.isCmd]
          · simp at h
      · simp at h
    rw [this, List.append_nil]
  · intro e h d
    rcases List.mem_append.mp h with h | h
    · rw [(cmdEffs_all _ _ _ _ e h).2]; simp
    · split at h
      · rcases List.mem_cons.mp h with h | h
        · subst h; simp [Eff.target?]
        · split at h
          · simp only [dbirthSeq, List.mem_map] at h
            obtain ⟨q, _, rfl⟩ := h
            simp [Eff.target?]
          · simp at h
      · simp at h

/-- **DCMD routing.** A DCMD addressed to device `d` leaves the whole node state untouched
(in particular: no birth); if `d` is a registered device and the message is a CMD with a
payload timestamp, `d`'s manager — and only `d`'s — is handed the payload timestamp and exactly
the delivered list, once; otherwise (unknown device, other kind, no timestamp) nothing happens.
This holds in every state: blocked, dead, offline or birthed. -/
theorem C15_dcmd_routing (decs : List Dec) (st : St) (d : Nat) (kind : MsgKind) (p : Payload) :
    let r := step decs st (.dev d (.cmd kind p))
    r.1 = st ∧
    (∀ e ∈ r.2, (e.isCmd = true ∨ e.isCb = true) ∧ e.target? = some (some d)) ∧
    r.2.filter Eff.isCmd =
      (if (st.devs.any fun x => x.name == d) = true then expectedCmd (some d) kind p else []) := by
  rw [step_dcmd]
  refine ⟨rfl, ?_, ?_⟩
  · intro e he
    cases hf : st.devs.find? (fun x => x.name == d) with
    | none => simp [hf] at he
    | some x => simp only [hf] at he; exact cmdEffs_all _ _ _ _ e he
  · cases hf : st.devs.find? (fun x => x.name == d) with
    | none =>
      have : (st.devs.any fun x => x.name == d) = false := by
        rw [List.find?_eq_none] at hf
        simpa [List.any_eq_false] using hf
      simp [this]
    | some x =>
      have : (st.devs.any fun x => x.name == d) = true := by
        have h1 := List.mem_of_find?_eq_some hf
        have h2 := List.find?_some hf
        exact List.any_eq_true.mpr ⟨x, h1, h2⟩
      simp only [cmdEffs_filter_isCmd, this, if_true]

/-! ### commands that arrive while the node task is blocked -/

/-- Commands that arrive while an NBIRTH hand-over is parked wait; when the hand-over is
resolved the node task works through them one at a time (`nodeRun`), each handled by the very
same `nodeHandle` in the state the previous one left … -/
theorem C15_queue_processing (decs : List Dec) (st : St) (i : NodeIn) (rest : List NodeIn)
    (hd : st.dead = false) (hp : st.parked = none) :
    nodeRun decs st (i :: rest) =
      (let r1 := nodeHandle decs st i
       let r2 := nodeRun r1.decs r1.st rest
       { r2 with effs := r1.effs ++ r2.effs, bc := r1.bc ++ r2.bc }) := by
  simp [nodeRun, hd, hp]

/-- … and for each of them the decision is the same predicate, evaluated in the state at the
time it is processed. -/
theorem C15_queued_decision (decs : List Dec) (kind : MsgKind) (p : Payload) (st : St)
    (hl : st.last ≤ st.wall) :
    (∃ e ∈ (nodeHandle decs st (.msg kind p)).effs, e.isNBirth = true) ↔ Honoured st kind p := by
  simp only [nodeHandle]
  rw [onNodeMessage_effs decs kind p st hl, ← honouredB_iff]
  constructor
  · rintro ⟨e, he, hn⟩
    rcases List.mem_append.mp he with h | h
    · have := (cmdEffs_no_birth _ _ _ _ e h).1
      simp [Eff.isBirth, hn] at this
    · cases hh : honouredB st kind p with
      | true => rfl
      | false => simp [hh] at h
  · intro hh
    exact ⟨.nbirth 0 st.bdSeq, by simp [hh], rfl⟩

/-- **A rebirth command queued behind a parked node birth** (the node births are numbered: a
device acts on a birth notification only while the node birth it belongs to is the current
one). When the client accepts the parked NBIRTH and the one queued command is honoured in the
state in which the node task resumes, the step's effects are the delivery of the command
followed by exactly one birth sequence — NBIRTH seq 0, unchanged bdSeq, one DBIRTH per enabled
device numbered 1, 2, … — the notification of the superseded first birth causes no DBIRTH. -/
theorem C15_queued_rebirth_birth_sequence (decs : List Dec) (st : St) (pk : Parked) (kind : MsgKind)
    (p : Payload) (hg : st.Good) (hpk : st.parked = some pk) (hq : st.queue = [.msg kind p])
    (hacc : decs.head?.getD .accept = .accept) (hh : Honoured (st.resumed pk true) kind p) :
    let r := step decs st (.resolve true)
    (∃ pre, r.2 = pre ++ birthSequence st.bdSeq st.devs ∧
      ∀ e ∈ pre, (e.isCmd = true ∨ e.isCb = true) ∧ e.target? = some none) ∧
    r.2.filter Eff.isBirth = birthSequence st.bdSeq st.devs := by
  have he := resolve_then_rebirth decs st pk kind p hg hpk hq hacc hh
  have hbs : birthSequence st.bdSeq st.devs = .nbirth 0 st.bdSeq :: dbirthSeq st.devs := rfl
  refine ⟨⟨cmdEffs none st.nodeMgr kind p, by rw [he, hbs], cmdEffs_all _ _ _ _⟩, ?_⟩
  rw [he, List.filter_append, hbs]
  have h1 : (cmdEffs none st.nodeMgr kind p).filter Eff.isBirth = [] :=
    List.filter_eq_nil_iff.mpr fun e h => by simp [(cmdEffs_no_birth _ _ _ _ e h).1]
  have h2 : (Eff.nbirth 0 st.bdSeq :: dbirthSeq st.devs).filter Eff.isBirth
      = Eff.nbirth 0 st.bdSeq :: dbirthSeq st.devs := by
    apply List.filter_eq_self.mpr
    intro e h
    rcases List.mem_cons.mp h with h | h
    · subst h; rfl
    · simp only [dbirthSeq, List.mem_map] at h
      obtain ⟨q, _, rfl⟩ := h
      rfl
  rw [h1, h2]; rfl

/-! ### the hypotheses hold along every history -/

/-- From the initial state, along every history of steps (any stimuli, any client decisions)
in which the wall clock is never set back, every state satisfies `Good`: a birthed node is
online, a blocked node is unbirthed, the node task has not panicked (the `Duration`
subtraction of the cooldown test never underflows) and no request time lies in the future.
So `Ready` and `Inv` hold whenever no NBIRTH is parked. -/
theorem C15_reachable_good (cooldown wall : Nat) (devs : List Dev)
    (alias : Option Nat → Bytes → Nat) (h : List (List Dec × Op))
    (hm : MonotoneClock (St.init cooldown wall devs alias) h) :
    let st := runSteps (St.init cooldown wall devs alias) h
    st.Good ∧ (st.parked = none → st.Ready ∧ st.Inv) := by
  have hg := runSteps_good _ h (init_good cooldown wall devs alias) hm
  exact ⟨hg, fun hp => ⟨ready_of_good _ hg hp, hg.1⟩⟩

/-! ### SimpleMetricManager -/

/-- **Handler lookup.** With a `SimpleMetricManager`, a handler call `cb t n v` happens for a
delivered list iff some delivered metric's id is the id that the manager's *latest birth*
declared for a metric registered (at that birth) with a handler, `n` is that metric's name, and
`v` is the delivered value converted to the metric's type (an explicit null as `None`; a value
of another type: no call). Metrics registered after the birth are not addressable until the
next birth. (`alias` is the hash of srad; ids declared by one birth are distinct.) -/
theorem C15_simple_callbacks (g : Mgr) (alias : Bytes → Nat) (later : List SMetric) (t : Option Nat)
    (mms : List MessageMetric) (n : Bytes) (v : Option SV)
    (hnd : (((g.initialiseBirth alias).lookup).map (·.1)).Nodup) :
    let g' := later.foldl Mgr.register (g.initialiseBirth alias)
    .cb t n v ∈ g'.callbacks t mms ↔
      ∃ mm ∈ mms, ∃ m ∈ g.metrics, m.hasCb = true ∧ mm.id = m.id alias ∧ m.name = n ∧
        convert m.ty mm.value = some v := by
  have hl : ∀ (l : List SMetric) (g0 : Mgr), (l.foldl Mgr.register g0).lookup = g0.lookup := by
    intro l
    induction l with
    | nil => intro g0; rfl
    | cons x r ih => intro g0; simp only [List.foldl_cons]; rw [ih, register_lookup]
  simp only
  have hnd' : (((later.foldl Mgr.register (g.initialiseBirth alias)).lookup).map (·.1)).Nodup := by
    rw [hl]; exact hnd
  rw [callbacks_mem _ _ _ hnd', hl]
  constructor
  · rintro ⟨mm, hmm, m, v', hmem, hc, he⟩
    obtain ⟨h1, h2, h3⟩ := (mem_lookup_initialiseBirth alias g mm.id m).mp hmem
    cases he
    exact ⟨mm, hmm, m, h1, h2, h3, rfl, hc⟩
  · rintro ⟨mm, hmm, m, h1, h2, h3, h4, h5⟩
    refine ⟨mm, hmm, m, v, (mem_lookup_initialiseBirth alias g mm.id m).mpr ⟨h1, h2, h3⟩, h5, ?_⟩
    rw [h4]

/-! ### T-table: the per-metric cells, regenerated from the compiled crate on every run
(`SradModel/Generated/CmdTable.lean`): every combination of name {absent, Node Control/Rebirth,
other} × alias {absent, present} × metric timestamp {absent, present} × 15 value samples (every
protobuf value variant, and no value) × is_null {absent, true, false}. For each cell the harness
records what `MessageMetrics` yields (through the public API) and whether a birthed node with
cooldown 0 answers the one-metric NCMD with an NBIRTH. -/

/-- the compiled code and the model agree on every cell -/
theorem C15_table_matches_model :
    ∀ row ∈ Srad.Generated.cmdTable, cellOf row.1 = row.2 := by
  decide +kernel

/-- the property, over the compiled code's own table: a well-formed metric is delivered with its
own id (alias if present), timestamp and value, an explicit null as no value; a metric that is
not well-formed is skipped; a rebirth happens exactly for an unaliased metric named
Node Control/Rebirth with value boolean true -/
theorem C15_table_property :
    ∀ row ∈ Srad.Generated.cmdTable,
      (row.2.shape =
        (if row.1.WellFormed then
          (if row.1.value.isSome then Shape.value row.1.alias.isSome else Shape.null row.1.alias.isSome)
         else Shape.skipped)) ∧
      (row.2.rebirth = (row.1.isRebirth && decide (row.1.value = some (.bool true)))) := by
  decide +kernel

/-- the grid of cells: 2 metric timestamps × 3 names × 2 aliases × 15 values × 3 null flags -/
def cellGrid : List Metric :=
  [none, some 9].flatMap fun ts =>
  [none, some rebirthName, some [0x78]].flatMap fun n =>
  [none, some 7].flatMap fun a =>
  [none, some (PV.bool true), some (PV.bool false), some (PV.int 1), some (PV.int 0), some (PV.long 1),
   some (PV.float 1065353216), some (PV.double 4607182418800017408),
   some (PV.str [0x74, 0x72, 0x75, 0x65]), some (PV.str []), some (PV.bytes [0x01]), some PV.dataset,
   some (PV.template none false), some (PV.template (some true) true), some PV.ext].flatMap fun v =>
  [none, some true, some false].map fun nl =>
    ({ name := n, alias := a, ts := ts, isNull := nl, value := v } : Metric)

/-- the table covers the whole grid, each cell once -/
theorem C15_table_complete : Srad.Generated.cmdTable.map (·.1) = cellGrid := by
  decide +kernel

/-! ### non-vacuity (tests, not the claim) -/

private def rb (v : PV) : Metric := { name := some rebirthName, value := some v }
private def st0 : St :=
  { online := true, birthed := true, bdSeq := 3, wall := 5000, last := 0, cooldown := 5000,
    devs := [{ name := 0, enabled := true }, { name := 1 }, { name := 2, enabled := true }] }

example : st0.Ready ∧ st0.Inv ∧ st0.Good := by simp [st0, St.Ready, St.Inv, St.Good]
example : Honoured st0 .cmd { ts := some 1, metrics := [rb (.bool false), rb (.bool true)] } := by
  refine ⟨rfl, rfl, ?_, rfl, by decide⟩
  exact (rebirthRequested_iff _).mp (by decide)
example : ¬ RebirthRequested [rb (.bool true), rb (.bool false)] := by
  rw [← rebirthRequested_iff]; decide
example : (step [] st0 (.node (.msg .cmd { ts := some 1, metrics := [rb (.bool true)] }))).2 =
    [.cmd none 1 [{ id := .name rebirthName, ts := none, value := some (.bool true) }],
     .nbirth 0 3, .dbirth 0 1, .dbirth 2 2] := by decide
example : (step [] { st0 with wall := 4999 } (.node (.msg .cmd { ts := some 1, metrics := [rb (.bool true)] }))).2 =
    [.cmd none 1 [{ id := .name rebirthName, ts := none, value := some (.bool true) }]] := by decide
example : drainIter [{ name := some [120], isNull := some true }, { alias := some 7, value := some (.int 1) },
      { name := some [121], isNull := some false }, { value := some (.int 1) }] =
    [{ id := .name [120], ts := none, value := none }, { id := .alias 7, ts := none, value := some (.int 1) }] := by
  decide
example : (step [] st0 (.dev 2 (.cmd .cmd { ts := some 9, metrics := [{ name := some [120], isNull := some true }] }))).2 =
    [.cmd (some 2) 9 [{ id := .name [120], ts := none, value := none }]] := by decide
example : (step [] st0 (.dev 7 (.cmd .cmd { ts := some 9, metrics := [] }))).2 = [] := by decide
/-- new; enable d0; online (NBIRTH parked); NCMD rebirth (queued); resolve accepted:
one NBIRTH and one DBIRTH -/
example :
    let s0 : St := { devs := [{ name := 0 }], wall := 2000000 }
    let s1 := (step [] s0 (.dev 0 .enable)).1
    let s2 := (step [.park] s1 (.node (.online true))).1
    let s3 := (step [] s2 (.node (.msg .cmd { ts := some 1000, metrics := [rb (.bool true)] }))).1
    (step [] s3 (.resolve true)).2 =
      [.cmd none 1000 [{ id := .name rebirthName, ts := none, value := some (.bool true) }],
       .nbirth 0 0, .dbirth 0 1] := by decide

end Srad.Cmd
