/-
C19 — Value-level decoders are total and length-exact on hostile input (array decoders and
datatype-directed decoding; property sets, templates, command payloads and STATE JSON are in
their own sections below as the models M3/M4/M6/M7 are added).
Property theorems only; helper lemmas are in `SradModel/Proofs/Codec.lean`.
-/
import SradModel.Proofs.Codec

namespace Srad.Codec

/-! ### totality and allocation: every byte string, every decoder -/

theorem C19_decodeW_total (w : Nat) (bs : Bytes) :
    (decodeW w bs).res ≠ .panic ∧ (decodeW w bs).alloc ≤ bs.length := by
  exact ⟨decodeW_ne_panic w bs, decodeW_alloc_le w bs⟩

theorem C19_decodeBool_total (bs : Bytes) :
    (decodeBool bs).res ≠ .panic ∧ (decodeBool bs).alloc ≤ 8 * bs.length := by
  exact decodeBool_total bs

theorem C19_decodeStr_total (valid : Bytes → Bool) (bs : Bytes) :
    (decodeStr valid bs).res ≠ .panic ∧ (decodeStr valid bs).alloc ≤ bs.length := by
  exact ⟨decodeStr_ne_panic valid bs, decodeStr_alloc valid bs ▸ Nat.zero_le _⟩

theorem C19_kindOf_total (valid : Bytes → Bool) (dt : DT) (pv : PV) :
    kindOf valid dt pv ≠ .panic := by
  exact kindOf_ne_panic valid dt pv

/-! ### length-exactness: a successful decode has exactly the declared number of elements and
re-encoding it yields bytes that decode to the same array -/

theorem C19_decodeW_exact (w : Nat) (hw : 0 < w) (bs : Bytes) (l : List Nat)
    (h : (decodeW w bs).res = .ok l) :
    l.length * w = bs.length ∧ encodeW w l = bs ∧ (decodeW w (encodeW w l)).res = .ok l := by
  have _ := hw  -- not needed: for w = 0 a successful decode forces bs = []
  exact decodeW_exact w bs l h

theorem C19_decodeBool_exact (bs : Bytes) (l : List Bool) (h : (decodeBool bs).res = .ok l) :
    l.length = unle (bs.take 4) ∧ (decodeBool (encodeBool l)).res = .ok l := by
  have hl := decodeBool_ok_length bs l h
  exact ⟨hl, decodeBool_encodeBool l (hl ▸ unle_take4_lt bs)⟩

theorem C19_decodeStr_exact (valid : Bytes → Bool) (bs : Bytes) (l : List Bytes)
    (h : (decodeStr valid bs).res = .ok l) :
    l.length = bs.count 0 ∧ encodeStr l = bs ∧ (decodeStr valid (encodeStr l)).res = .ok l := by
  obtain ⟨h1, h2⟩ := decodeStr_ok valid bs l h
  exact ⟨h1, h2, h2.symm ▸ h⟩

/-! ### non-vacuity (tests) -/
example : (decodeBool [1, 0, 0, 0, 0x80, 0x00]).res = .ok [true] := by decide   -- trailing byte
example : (decodeBool [9, 0, 0, 0, 0xFF]).res = .err .fmt := by decide          -- count > data
example : (decodeW 4 [1, 2, 3]).res = .err .fmt := by decide
example : (decodeStr (fun _ => true) [0x61, 0, 0x62]).res = .err .fmt := by decide

end Srad.Codec
