/-
C08 (supplement) — the sequential abstraction `Loop.Node` of the edge node, on which the closed-loop
theorems of `Props/C08.lean` rest, REFINES the task-level labelled transition system `Model/Eon`
(the model validated against the real `srad_eon::EoN` by trace admission and used for C01–C04, C20)
under the accepting client.

Property theorems only; definitions and helper lemmas: `SradModel/Proofs/NodeRefine.lean`
(namespace `Srad.Loop.Refine`). Vocabulary used below:

* `Quiescent s` — no task of the LTS state `s` is enabled: the event loop is blocked in `poll` with
  nothing to return, `client_state` / rebirth / NCMD channels empty, no stop requested, node task
  idle, every device task idle with empty queues, every user call returned
  (`C08_quiescent_stuck`: then indeed `Eon.step s t dec = []` for every task and decision).
* `Wf s` — cooldown 0, `on_ncmd` does not park, oneshot ids below the counter, device uids and names
  pairwise distinct, and three facts about flags that the abstraction relies on (and that every
  operation re-establishes): a flagged device is enabled and carries the current birth epoch; no
  device is flagged while the node is offline; birthed = online.
* `absNode i s : Loop.Node` — online, birthed, seq, bdseq of `EoNState`, the device map in list order
  (name, enabled, flag); `i` is the ghost id counter of `Loop.Node`, which the LTS does not have
  (the theorems hold for every `i`).
* `Runs s s' obs` — some list of `Eon.Act`s runs `s` to `s'` emitting `obs`, and every action in it is
  one of the eight stimuli or a task step with client decision `.acc` (`okAct`).
* `projObs obs` — the `.call` observations other than the subscription, reduced to kind / device /
  seq / bdSeq, and the `.will` observations; `projMsg` — the same projection of an abstract message
  (its id and timestamp dropped).

Each per-operation theorem says: from every quiescent well-formed state there is such a schedule
(exhibited in the proof: the stimulus, then the task steps in program order, the devices in list
order) that ends in a quiescent well-formed state, commutes with `absNode`, and hands over exactly
the messages the abstract operation returns. The device list is ARBITRARY (no bound on the number
of devices): the birth operations are proved by induction over the device list (`birthPhase`).
The order in which the device tasks run is the order of the list = the permutation parameter of
`Loop.Node`; other interleavings of the LTS are other values of that parameter.
-/
import SradModel.Proofs.NodeRefine

namespace Srad.Loop.Refine
open Srad

/-- `Event::Online` ↦ `Node.goOnline`. -/
theorem C08_node_refines_online (i ts : Nat) (s : Eon.St) (hq : Quiescent s) (hw : Wf s) :
    ∃ s' obs, Runs s s' obs ∧ Quiescent s' ∧ Wf s' ∧
      absNode (Node.goOnline ts (absNode i s)).1.nextId s' = (Node.goOnline ts (absNode i s)).1 ∧
      projObs obs = (Node.goOnline ts (absNode i s)).2.map projMsg :=
  online_refines i ts s hq hw

/-- `Event::Offline` ↦ `Node.goOffline`; the only hand-over is the new will (if the node was online). -/
theorem C08_node_refines_offline (i : Nat) (s : Eon.St) (hq : Quiescent s) (hw : Wf s) :
    ∃ s' obs, Runs s s' obs ∧ Quiescent s' ∧ Wf s' ∧
      absNode i s' = (absNode i s).goOffline.1 ∧
      projObs obs = (match (absNode i s).goOffline.2 with | some bd => [H.will bd] | none => []) := by
  obtain ⟨s', obs, h1, h2, h3, h4, h5⟩ := offline_refines i s hq hw
  refine ⟨s', obs, h1, h2, h3, ?_, h5⟩
  have : (offlineOut (absNode i s)).1.nextId = i := by
    cases h : s.online <;> simp [offlineOut, Node.goOffline, absNode, h]
  rw [this] at h4
  exact h4

/-- a blocking `NodeHandle::publish_metrics` ↦ `Node.pubNode`. -/
theorem C08_node_refines_pubNode (i ts : Nat) (s : Eon.St) (hq : Quiescent s) (hw : Wf s) :
    ∃ s' obs, Runs s s' obs ∧ Quiescent s' ∧ Wf s' ∧
      absNode (Node.pubNode ts (absNode i s)).1.nextId s' = (Node.pubNode ts (absNode i s)).1 ∧
      projObs obs = (Node.pubNode ts (absNode i s)).2.map projMsg :=
  pubNode_refines i ts s hq hw

/-- a blocking `DeviceHandle::publish_metrics` on device `d` (known or not, birthed or not) ↦ `Node.pubDev`. -/
theorem C08_node_refines_pubDev (d i ts : Nat) (s : Eon.St) (hq : Quiescent s) (hw : Wf s) :
    ∃ s' obs, Runs s s' obs ∧ Quiescent s' ∧ Wf s' ∧
      absNode (Node.pubDev d ts (absNode i s)).1.nextId s' = (Node.pubDev d ts (absNode i s)).1 ∧
      projObs obs = (Node.pubDev d ts (absNode i s)).2.map projMsg :=
  pubDev_refines d i ts s hq hw

/-- `DeviceHandle::enable` ↦ `Node.enable`. -/
theorem C08_node_refines_enable (d i ts : Nat) (s : Eon.St) (hq : Quiescent s) (hw : Wf s) :
    ∃ s' obs, Runs s s' obs ∧ Quiescent s' ∧ Wf s' ∧
      absNode (Node.enable d ts (absNode i s)).1.nextId s' = (Node.enable d ts (absNode i s)).1 ∧
      projObs obs = (Node.enable d ts (absNode i s)).2.map projMsg :=
  enable_refines d i ts s hq hw

/-- `DeviceHandle::disable` ↦ `Node.disable`. -/
theorem C08_node_refines_disable (d i ts : Nat) (s : Eon.St) (hq : Quiescent s) (hw : Wf s) :
    ∃ s' obs, Runs s s' obs ∧ Quiescent s' ∧ Wf s' ∧
      absNode (Node.disable d ts (absNode i s)).1.nextId s' = (Node.disable d ts (absNode i s)).1 ∧
      projObs obs = (Node.disable d ts (absNode i s)).2.map projMsg :=
  disable_refines d i ts s hq hw

/-- `NodeHandle::rebirth` ↦ `Node.rebirth`. -/
theorem C08_node_refines_rebirth (i ts : Nat) (s : Eon.St) (hq : Quiescent s) (hw : Wf s) :
    ∃ s' obs, Runs s s' obs ∧ Quiescent s' ∧ Wf s' ∧
      absNode (Node.rebirth ts (absNode i s)).1.nextId s' = (Node.rebirth ts (absNode i s)).1 ∧
      projObs obs = (Node.rebirth ts (absNode i s)).2.map projMsg :=
  rebirth_refines i ts s hq hw

/-- an NCMD with `Node Control/Rebirth = true` and a payload timestamp (cooldown 0) ↦ `Node.rebirth`. -/
theorem C08_node_refines_ncmd (i ts : Nat) (s : Eon.St) (hq : Quiescent s) (hw : Wf s) :
    ∃ s' obs, Runs s s' obs ∧ Quiescent s' ∧ Wf s' ∧
      absNode (Node.rebirth ts (absNode i s)).1.nextId s' = (Node.rebirth ts (absNode i s)).1 ∧
      projObs obs = (Node.rebirth ts (absNode i s)).2.map projMsg :=
  ncmd_refines i ts s hq hw

/-- **Refinement for operation sequences.** For every sequence of operations (each with the clock
reading it runs at) and every quiescent well-formed LTS state `s`: the LTS has a schedule in which
the client accepts every call that ends in a quiescent well-formed state `s'` whose abstraction is
the state the sequential model `Loop.Node` reaches (`runOps`) and whose hand-overs, in order, are
the messages the sequential model returns. -/
theorem C08_node_refines (ops : List (Op × Nat)) (i : Nat) (s : Eon.St) (hq : Quiescent s) (hw : Wf s) :
    ∃ s' obs, Runs s s' obs ∧ Quiescent s' ∧ Wf s' ∧
      absNode (runOps (absNode i s) ops).1.nextId s' = (runOps (absNode i s) ops).1 ∧
      projObs obs = (runOps (absNode i s) ops).2 :=
  ops_refine ops i s hq hw

/-- **From the freshly built node** (what the harness component `nodeabs` and `Sys.init` start from):
for pairwise distinct device names and every operation sequence, the LTS started in `Eon.init 0`
has an execution — register the devices, start `EoN::run`, then the schedules of the operations —
that is an `Eon.Reaches` execution (so C01–C04 and C20 apply to it), ends quiescent, abstracts to
the `Loop.Node` state after the sequence and hands over, after the initial will, exactly the
abstract messages. -/
theorem C08_node_refines_from_boot (names : List Nat) (hn : names.Nodup) (ops : List (Op × Nat)) :
    let n0 : Node := { devs := names.map fun d => { name := d } }
    ∃ s' tr, Eon.Reaches 0 s' tr ∧ Quiescent s' ∧
      absNode (runOps n0 ops).1.nextId s' = (runOps n0 ops).1 ∧
      projObs tr = H.will 0 :: (runOps n0 ops).2 := by
  intro n0
  obtain ⟨hq, hw, habs⟩ := boot_ok names hn
  obtain ⟨s', obs, hr, hq', _, ha, ho⟩ := ops_refine ops 0 (boot names) hq hw
  rw [habs] at ha ho
  refine ⟨s', _, reaches_runs (boot_reaches names hn) hr, hq', ha, ?_⟩
  rw [projObs_append, ho]
  rfl

/-- a quiescent state is stuck: no task can take a step, whatever the client would decide -/
theorem C08_quiescent_stuck (s : Eon.St) (hq : Quiescent s) (t : Eon.Task) (dec : Eon.Dec) :
    Eon.step s t dec = [] :=
  quiescent_stuck s hq t dec

/-! ### non-vacuity -/

/-- the hypotheses are satisfiable: the freshly built node with devices 1 and 2 is quiescent and well-formed -/
example : Quiescent (boot [1, 2]) ∧ Wf (boot [1, 2]) :=
  let h := boot_ok [1, 2] (by decide)
  ⟨h.1, h.2.1⟩

/-- six operations on the node with devices 1 and 2 (uids 0 and 1) -/
def demoOps : List (Op × Nat) :=
  [(.enable 1, 10), (.online, 11), (.pubNode, 12), (.pubDev 1, 13), (.ncmd, 14), (.offline, 15)]

/-- the schedule the proofs construct for `demoOps` -/
def demoActs : List Eon.Act :=
  [ -- enable 1 (offline: nothing to birth)
    .stim (.enable 1), .task (.dev 0) .acc 0,
    -- online: poll returns Online, forwarded; SUB; NBIRTH; birth_devices; device 1 births, device 2 is disabled
    .stim (.ev .online), .task .loop .acc 0, .task .loop .acc 0, .task .node .acc 0, .task .node .acc 0,
    .task .node .acc 0, .task .node .acc 0, .task (.dev 0) .acc 0, .task (.dev 0) .acc 0, .task (.dev 1) .acc 0,
    -- publish on the node, on device 1
    .stim (.pub 1 .node false 1), .task (.user 1) .acc 0,
    .stim (.pub 2 (.dev 1) false 1), .task (.user 2) .acc 0,
    -- NCMD rebirth
    .stim (.ev (.ncmd true true)), .task .loop .acc 0, .task .loop .acc 0, .task .node .acc 0, .task .node .acc 0,
    .task .node .acc 0, .task .node .acc 0, .task (.dev 0) .acc 0, .task (.dev 0) .acc 0, .task (.dev 1) .acc 0,
    -- offline: new will, devices die silently
    .stim (.ev .offline), .task .loop .acc 0, .task .node .acc 0, .task .loop .acc 0, .task .loop .acc 0,
    .task (.dev 0) .acc 0, .task (.dev 1) .acc 0 ]

/-- what the sequential model does on `demoOps`: NBIRTH(bd 0), DBIRTH d1 seq 1, NDATA seq 2, DDATA d1
seq 3, NBIRTH(bd 0), DBIRTH d1 seq 1, then the will with bdSeq 1 -/
example :
    (runOps { devs := [{ name := 1 }, { name := 2 }] } demoOps).2 =
      [.call .nbirth none (some 0) (some 0), .call .dbirth (some 1) (some 1) none, .call .ndata none (some 2) none,
       .call .ddata (some 1) (some 3) none, .call .nbirth none (some 0) (some 0), .call .dbirth (some 1) (some 1) none,
       .will 1] := by decide

/-- both models run on the concrete sequence: the LTS schedule is enabled, every action is an
accepted one, and the abstraction of its final state and its projected hand-overs are those of `Loop.Node` -/
example :
    demoActs.all okAct = true ∧
    (Eon.runActs (boot [1, 2]) demoActs).map (fun r => (absNode 6 r.1, projObs r.2)) =
      some (runOps { devs := [{ name := 1 }, { name := 2 }] } demoOps) := by decide

end Srad.Loop.Refine
