/-
C12W — C12 (metric fields survive the trip from node handle to host store) for the CONCRETE
protobuf codec: the codec parameter `enc`/`dec` of the C12 theorems and its hypothesis
`WireSound enc dec` are replaced by the M13 wire model,

  encW p       = encodeMsg sparkplug "Payload" (toTree p)                 -- `Payload::encode_to_vec`
  decW valid b = decodeMsg valid sparkplug "Payload" b >>= ofTree         -- `Payload::decode`

(`Model/MetricWire.lean`), and the hypothesis is discharged by `M13_sparkplug_payload_roundtrip`.
Property theorems only; helper lemmas are in `SradModel/Proofs/MetricWire.lean`.

`WireSound` cannot hold literally for a real codec: the records of `Model/Metric.lean` have
unbounded `Nat` fields and arbitrary byte lists as strings. The hypotheses that remain say that
the values are values of the Rust types:

* `InRange valid p` (decidable, `inRange`): `timestamp`, `seq`, `alias`, `size` are `u64`;
  `datatype` and property `type` codes are `u32`; `Int`/`Float` bit patterns are below 2^32,
  `Long`/`Double` below 2^64; every `String` (names, keys, string values, metadata, `uuid`)
  satisfies `valid` (= `String::from_utf8(..).is_ok()`; the theorems hold for every `valid`);
  nested messages stay within prost's recursion limit of 100 levels below the payload (only
  property sets — two levels per nested set — and templates can nest); and the encoding has
  fewer than 2^64 bytes (`EncFits`; it is a `Vec<u8>`).
* `PubMetric.InRange valid pm` (decidable, `pubMetricOK`): the same for what a task hands to a
  publish call, stated on the edge-side types: name valid / alias a `u64`, timestamp a `u64`, the
  value in range, metadata strings valid and `size` a `u64`, and for the property set (`upsOK`)
  keys valid, scalars in range, sets nested in sets at most 49 deep (type codes come from
  `DataType` and are always in range).
* `PubMetric.WF` as in C12 (a property set is a hash map: distinct keys).

Nothing is kept abstract. Data sets and templates, which `Model/Metric.lean` carries as the prost
bytes `enc` of the sub-message (`MVal.dataset enc` / `.template enc`), are decoded with the M13
decoder for `DataSet` / `Template` into the sub-tree under tag 17 / 18 and re-encoded by `ofTree`;
`InRange` demands of `enc` what the representation means (`subOK`): `enc` decodes, the tree is
typed and canonical with 98 levels left, and encodes to `enc` again — i.e. `enc` IS the encoding
of a `DataSet` / `Template` struct (`C12W_dataset_bytes_of_struct` shows that every such encoding
qualifies).
-/
import SradModel.Proofs.MetricWire

namespace Srad.Metric
open Srad.Codec (Bytes DT)
open Srad.Wire (sparkplug)

/-! ### the tie between payload records and value trees (M13_README steps 1–3) -/

/-- Reading back the tree printed for an in-range payload gives exactly the payload record:
every optional field present or absent as it was, the metrics in order, the selected member of
every oneof, nested property sets and set lists, data sets and templates byte for byte. -/
theorem C12W_ofTree_toTree (valid : Bytes → Bool) (p : Payload) (h : InRange valid p) :
    ofTree (toTree p) = some p :=
  ofTree_toTree valid p h

/-- The tree printed for an in-range payload is a well-typed, canonical `Payload` tree of the
Sparkplug schema: every record carries a tag of its message and a value of the tag's type with
numbers in range and valid strings, records follow the struct-field order with at most one
record per optional field and per oneof, and nesting stays within prost's recursion limit. -/
theorem C12W_toTree_wellTyped (valid : Bytes → Bool) (p : Payload) (h : InRange valid p) :
    Wire.WellTyped valid sparkplug "Payload" (toTree p) :=
  ⟨toTree_typed valid p h, toTree_canonical valid p h⟩

/-- `WireSound` for the concrete codec, relativised to the values of the Rust type: decoding the
encoding of an in-range payload gives the payload back, exactly. -/
theorem C12W_wire_sound (valid : Bytes → Bool) (p : Payload) (h : InRange valid p) :
    decW valid (encW p) = some p :=
  decW_encW valid p h

/-- `WireSound` of `Model/MetricSpec.lean` relativised to the values of the Rust type (M13_README
step 4): all that `hostReceive_payloadOf` and the C12 end-to-end theorems need of a codec -/
def WireSoundOn (valid : Bytes → Bool) (enc : Payload → Bytes) (dec : Bytes → Option Payload) : Prop :=
  ∀ p, InRange valid p → dec (enc p) = some p

/-- … and the concrete codec has it, for every notion `valid` of a valid string. -/
theorem C12W_wireSoundOn (valid : Bytes → Bool) : WireSoundOn valid encW (decW valid) :=
  fun p h => decW_encW valid p h

/-- Hence the encoder is injective on in-range payloads: two payloads with the same bytes are
the same payload (no field of a metric can be lost or confused on the wire). -/
theorem C12W_encW_injective (valid : Bytes → Bool) (p q : Payload) (hp : InRange valid p)
    (hq : InRange valid q) (h : encW p = encW q) : p = q := by
  have h1 := decW_encW valid p hp
  rw [h, decW_encW valid q hq] at h1
  exact (Option.some.inj h1).symm

/-- The payload a publish call builds is in range when the sequence number and the clock reading
are `u64`s (they are: a `u8` widened, and `timestamp()`), every published metric is a value of
`PublishMetric`, and the encoding fits a `Vec<u8>`. -/
theorem C12W_payloadOf_inRange (valid : Bytes → Bool) (seq now : Nat) (ms : List PubMetric)
    (hs : seq < 2 ^ 64) (hn : now < 2 ^ 64) (hms : ∀ pm ∈ ms, pm.InRange valid)
    (hl : EncFits (payloadOf seq now ms)) : InRange valid (payloadOf seq now ms) :=
  inRange_payloadOf valid seq now ms hs hn hms hl

/-- The condition `InRange` puts on the bytes of a data set / template value is met by every
encoding of a struct: the bytes the encoder writes for a typed, canonical `DataSet` (`Template`)
tree with at most 98 levels of nested messages below it (2 suffice for a data set) are an
in-range metric value. -/
theorem C12W_dataset_bytes_of_struct (valid : Bytes → Bool) (v : Wire.Val) :
    (Wire.typedMsgD valid sparkplug 98 "DataSet" v = true →
      Wire.canonMsgD sparkplug 98 "DataSet" v = true →
      mvalOK valid 98 (.dataset (Wire.encodeMsg sparkplug "DataSet" v)) = true) ∧
    (Wire.typedMsgD valid sparkplug 98 "Template" v = true →
      Wire.canonMsgD sparkplug 98 "Template" v = true →
      mvalOK valid 98 (.template (Wire.encodeMsg sparkplug "Template" v)) = true) := by
  cases v with
  | msg sub =>
    constructor
    · intro ht hc
      simp only [Wire.typedMsgD, Wire.canonMsgD, lookup_dataset] at ht hc
      simp only [mvalOK, Wire.encodeMsg, lookup_dataset]
      exact subOK_of_struct valid 98 "DataSet" sub lookup_dataset (by decide) ht hc
    · intro ht hc
      simp only [Wire.typedMsgD, Wire.canonMsgD, lookup_template] at ht hc
      simp only [mvalOK, Wire.encodeMsg, lookup_template]
      exact subOK_of_struct valid 98 "Template" sub lookup_template (by decide) ht hc
  | _ => constructor <;> intro ht <;> simp [Wire.typedMsgD] at ht

/-! ### the C12 end-to-end theorems with the concrete codec (step 4) -/

/-- `C12_single_metric` for the concrete codec. Whatever metric a task publishes — any value or
null, timestamp, flags, metadata, property set — the bytes `Payload::encode_to_vec` writes for the
payload carrying it alone decode (`Payload::decode`) at the host to exactly one store entry with
the same identifier, value, timestamp, flags (absent = false), metadata and a property set equal
as a map; the message carries the sequence number (as a `u8`) and the clock reading it was given. -/
theorem C12W_single_metric (valid : Bytes → Bool) (seq now : Nat) (pm : PubMetric) (hwf : pm.WF)
    (hs : seq < 2 ^ 64) (hn : now < 2 ^ 64) (hr : pm.InRange valid)
    (hl : EncFits (payloadOf seq now [pm])) :
    ∃ d e, hostReceiveData (decW valid) (encW (payloadOf seq now [pm])) = .data d ∧
      d.seq = seq % 256 ∧ d.timestamp = now ∧ d.metrics = [e] ∧ Delivered pm e := by
  have hin := inRange_payloadOf valid seq now [pm] hs hn
    (fun p hp => by rw [List.mem_singleton.mp hp]; exact hr) hl
  exact ⟨_, hostEntry pm, hostReceive_payloadOf_wire valid seq now [pm] hin, rfl, rfl, rfl,
    delivered_hostEntry pm hwf⟩

/-- `C12_null_and_absent_flags` for the concrete codec: a null arrives as a null (never as a
missing or rejected metric), and an absent flag arrives as `false`. -/
theorem C12W_null_and_absent_flags (valid : Bytes → Bool) (seq now : Nat) (pm : PubMetric)
    (hwf : pm.WF) (hs : seq < 2 ^ 64) (hn : now < 2 ^ 64) (hr : pm.InRange valid)
    (hl : EncFits (payloadOf seq now [pm]))
    (hnull : pm.value = none) (hh : pm.isHistorical = none) (ht : pm.isTransient = none) :
    ∃ d e, hostReceiveData (decW valid) (encW (payloadOf seq now [pm])) = .data d ∧
      d.metrics = [e] ∧ e.1 = pm.id ∧ e.2.value = none ∧ e.2.isHistorical = false ∧
      e.2.isTransient = false := by
  obtain ⟨d, e, h1, _, _, h4, hd⟩ := C12W_single_metric valid seq now pm hwf hs hn hr hl
  refine ⟨d, e, h1, h4, hd.identifier, ?_, ?_, ?_⟩
  · rw [hd.value, hnull]
  · rw [hd.historical, hh]; rfl
  · rw [hd.transient, ht]; rfl

/-- `C12_batch_in_order` for the concrete codec: the bytes of a batch handed over in one payload
decode to one host message whose entries are the batch's metrics, entry by entry in the same
order. -/
theorem C12W_batch_in_order (valid : Bytes → Bool) (seq now : Nat) (ms : List PubMetric)
    (hwf : ∀ pm ∈ ms, pm.WF) (hs : seq < 2 ^ 64) (hn : now < 2 ^ 64)
    (hr : ∀ pm ∈ ms, pm.InRange valid) (hl : EncFits (payloadOf seq now ms)) :
    ∃ d, hostReceiveData (decW valid) (encW (payloadOf seq now ms)) = .data d ∧
      d.seq = seq % 256 ∧ d.timestamp = now ∧ InOrder Delivered ms d.metrics := by
  have hin := inRange_payloadOf valid seq now ms hs hn hr hl
  exact ⟨_, hostReceive_payloadOf_wire valid seq now ms hin, rfl, rfl, forall2_delivered ms hwf⟩

/-- `C12_publish_unsorted_end_to_end` for the concrete codec. The non-sorting variants
(`publish_metric`, `publish_metrics_unsorted` and their `try_` forms; node handle, or device handle
of a birthed device): a non-empty batch is handed to the client as ONE payload with the next
sequence number, and the host, decoding the bytes written for it, sees the metrics in the
published order. No hypothesis about the sequence number is left: it is a `u8`. -/
theorem C12W_publish_unsorted_end_to_end (valid : Bytes → Bool) (now : Nat) (s : EdgeState)
    (hs : s.Ready) (ms : List PubMetric) (hne : ms ≠ []) (hwf : ∀ pm ∈ ms, pm.WF)
    (hn : now < 2 ^ 64) (hr : ∀ pm ∈ ms, pm.InRange valid)
    (hl : EncFits (payloadOf ((s.seq + 1) % 256) now ms)) :
    ∃ p s' d, publishUnsorted true now s ms = .handedOver p s' ∧
      s'.seq = (s.seq + 1) % 256 ∧
      hostReceiveData (decW valid) (encW p) = .data d ∧
      d.seq = (s.seq + 1) % 256 ∧ d.timestamp = now ∧ InOrder Delivered ms d.metrics := by
  have hin := inRange_payloadOf valid ((s.seq + 1) % 256) now ms (by omega) hn hr hl
  refine ⟨_, _, _, publishUnsorted_ready now s hs ms hne, rfl,
    hostReceive_payloadOf_wire valid _ now ms hin, ?_, rfl, forall2_delivered ms hwf⟩
  simp

/-- `C12_publish_sorted_end_to_end` for the concrete codec. The sorting variants
(`publish_metrics`, `try_publish_metrics`): one payload, and the host, decoding the bytes written
for it, sees the batch stably sorted by timestamp — a permutation of the batch, ascending,
metrics with equal timestamps in their published order. -/
theorem C12W_publish_sorted_end_to_end (valid : Bytes → Bool) (now : Nat) (s : EdgeState)
    (hs : s.Ready) (ms : List PubMetric) (hne : ms ≠ []) (hwf : ∀ pm ∈ ms, pm.WF)
    (hn : now < 2 ^ 64) (hr : ∀ pm ∈ ms, pm.InRange valid)
    (hl : EncFits (payloadOf ((s.seq + 1) % 256) now (sortByTs ms))) :
    ∃ p s' d sorted, publishSorted true now s ms = .handedOver p s' ∧
      s'.seq = (s.seq + 1) % 256 ∧
      hostReceiveData (decW valid) (encW p) = .data d ∧
      d.seq = (s.seq + 1) % 256 ∧ d.timestamp = now ∧
      StableSortedByTs ms sorted ∧ InOrder Delivered sorted d.metrics := by
  have hperm := sortByTs_perm ms
  have hne' : sortByTs ms ≠ [] := by
    intro h; rw [h] at hperm; exact hne (List.Perm.nil_eq hperm).symm
  have hwf' : ∀ pm ∈ sortByTs ms, pm.WF := fun pm hp => hwf pm (hperm.mem_iff.mp hp)
  have hr' : ∀ pm ∈ sortByTs ms, pm.InRange valid := fun pm hp => hr pm (hperm.mem_iff.mp hp)
  have hin := inRange_payloadOf valid ((s.seq + 1) % 256) now (sortByTs ms) (by omega) hn hr' hl
  refine ⟨_, _, _, sortByTs ms, publishUnsorted_ready now s hs (sortByTs ms) hne', rfl,
    hostReceive_payloadOf_wire valid _ now _ hin, ?_, rfl, sortByTs_stable ms,
    forall2_delivered _ hwf'⟩
  simp

/-! ### non-vacuity (tests, not the claim) -/

/-- an ASCII stand-in for `String::from_utf8(..).is_ok()` -/
def asciiOK (b : Bytes) : Bool := b.all (· < 128)

/-- the prost bytes of a 2-column, 2-row data set -/
def exDataSetBytes : Bytes :=
  Wire.encodeMsg sparkplug "DataSet"
    (.msg [(1, .num 2), (2, .bytes [97]), (2, .bytes [98]), (3, .num 3), (3, .num 12),
      (4, .msg [(1, .msg [(1, .num 5)]), (1, .msg [(6, .bytes [120])])]),
      (4, .msg [(1, .msg [(1, .num 6)]), (1, .msg [(6, .bytes [121])])])])

example : Wire.typedMsgD asciiOK sparkplug 98 "DataSet"
      (.msg [(1, .num 2), (2, .bytes [97]), (3, .num 3), (4, .msg [(1, .msg [(1, .num 5)])])]) = true ∧
    Wire.canonMsgD sparkplug 98 "DataSet"
      (.msg [(1, .num 2), (2, .bytes [97]), (3, .num 3), (4, .msg [(1, .msg [(1, .num 5)])])]) = true := by
  decide

/-- a metric by alias holding that data set, historical, with a property set that nests a set -/
def exWireA : PubMetric :=
  ((PubMetric.new 1000 none (.alias 7) (some (.dataset exDataSetBytes))).historical true).withProperties
    [([98], some .propertyset, .set [(qualityKey, some .int32, .sc (.int 0))]),
     (qualityKey, some .int32, .sc (.int 192))]

/-- a null metric by name with metadata, published with an earlier timestamp -/
def exWireB : PubMetric :=
  ((PubMetric.new 1001 none (.name [109]) none).withMetadata
    { description := some [100], size := some 5 }).withTimestamp 900

/-- a double with a NaN bit pattern -/
def exWireC : PubMetric := PubMetric.new 1001 none (.alias 8) (some (.double 0x7ff8000000000001))

example : exWireA.InRange asciiOK ∧ exWireB.InRange asciiOK ∧ exWireC.InRange asciiOK := by decide
example : exWireA.WF ∧ exWireB.WF ∧ exWireC.WF := by
  refine ⟨?_, ?_, ?_⟩ <;> intro m h <;> cases h
  unfold UPS.KeysDistinct; decide
set_option maxRecDepth 8192 in
example : EncFits (payloadOf 3 1234 [exWireA, exWireB, exWireC]) := by decide
set_option maxRecDepth 8192 in
example : EncFits (payloadOf 3 1234 (sortByTs [exWireA, exWireB, exWireC])) := by decide
set_option maxRecDepth 8192 in
example : InRange asciiOK (payloadOf 3 1234 [exWireA, exWireB, exWireC]) := by decide
/-- the sorted end-to-end theorem applies to this batch: every hypothesis is discharged -/
example : ∃ p s' d sorted,
    publishSorted true 1234 { seq := 255, online := true, birthed := true }
      [exWireA, exWireB, exWireC] = .handedOver p s' ∧ s'.seq = 0 ∧
    hostReceiveData (decW asciiOK) (encW p) = .data d ∧ d.seq = 0 ∧ d.timestamp = 1234 ∧
    StableSortedByTs [exWireA, exWireB, exWireC] sorted ∧ InOrder Delivered sorted d.metrics :=
  C12W_publish_sorted_end_to_end asciiOK 1234 { seq := 255, online := true, birthed := true }
    ⟨rfl, rfl⟩ [exWireA, exWireB, exWireC] (by simp)
    (by
      intro pm h
      simp only [List.mem_cons, List.not_mem_nil, or_false] at h
      rcases h with rfl | rfl | rfl <;> intro m h <;> cases h
      unfold UPS.KeysDistinct; decide)
    (by decide)
    (by
      intro pm h
      simp only [List.mem_cons, List.not_mem_nil, or_false] at h
      rcases h with rfl | rfl | rfl <;> decide)
    (by set_option maxRecDepth 8192 in decide)
example : (sortByTs [exWireA, exWireB, exWireC]).map (·.id) = [.name [109], .alias 7, .alias 8] := by
  decide
example : (encW (payloadOf 3 1234 [exWireB])) =
    [8, 210, 9, 18, 15, 10, 1, 109, 24, 132, 7, 56, 1, 66, 5, 24, 5, 66, 1, 100, 24, 3] := by decide
/-- out of range: a sequence number that is no `u64`, a string that is not valid, a data set
value whose bytes are no data set -/
example : ¬ InRange asciiOK (payloadOf (2 ^ 64) 1234 [exWireB]) := by decide
example : ¬ (PubMetric.new 1 none (.name [200]) none).InRange asciiOK := by decide
example : ¬ (PubMetric.new 1 none (.alias 1) (some (.dataset [8]))).InRange asciiOK := by decide

end Srad.Metric
