/-
C13 — Topic and payload decoding is faithful for valid ids and total otherwise.
Property theorems only; helper lemmas are in `SradModel/Proofs/Topic.lean` and
`SradModel/Proofs/StateJson.lean`; the vocabulary of the statements (node / device / STATE
shape as plain concatenations of byte strings) is in `SradModel/Model/TopicSpec.lean`.

Throughout: bytes are `List UInt8`; `valid` is an arbitrary predicate standing for
`String::from_utf8(..).is_ok()` (an id is a Rust `String`, i.e. a byte list with `valid id`);
the protobuf codec is an arbitrary pair `enc`/`dec` with `dec (enc p) = some p` (prost is an
external library); `parse` is the model of `topic_and_payload_to_event`, `parseCert` the model
of `serde_json::from_slice::<StateBirthDeathCertificate>`.
-/
import SradModel.Proofs.Topic
import SradModel.Generated.TopicTable

namespace Srad.Topic
open Srad.StateJson (Bytes parseCert printCert printCertSerde FieldNamesValid U64MAX)

/-! ### name validation and the constructors -/

/-- `validate_name` accepts a name exactly when it is not empty and contains none of `/`, `+`,
`#` -/
theorem C13_validateName_iff (s : Bytes) :
    validateName s = true ↔ s ≠ [] ∧ (0x2f : UInt8) ∉ s ∧ (0x2b : UInt8) ∉ s ∧ (0x23 : UInt8) ∉ s :=
  validateName_iff s

/-- an edge node is constructed only if both ids were supplied and both pass name validation;
in particular an empty id or one containing `/`, `+` or `#` is refused -/
theorem C13_node_constructor (g n : Option Bytes) :
    eonBuild g n = .ok ↔ ∃ g' n', g = some g' ∧ n = some n' ∧ NameOk g' ∧ NameOk n' :=
  eonBuild_ok_iff g n

/-- a device is registered only under a valid (and unused) name -/
theorem C13_device_constructor (existing : List Bytes) (name : Bytes) :
    registerDevice existing name = .ok ↔ NameOk name ∧ name ∉ existing :=
  registerDevice_ok_iff existing name

/-- a host application is constructed only with a valid host id (otherwise the constructor
panics, which is how srad refuses it) -/
theorem C13_host_constructor (h : Bytes) : appNew h = .ok ↔ NameOk h := appNew_ok_iff h

/-! ### faithfulness: what is published is what is received -/

/-- for all valid group and node ids (group ≠ STATE), each of the four node message types and
every payload: the topic built for publishing together with the encoded payload decodes to a
node event with the same group id, node id, message kind and payload -/
theorem C13_node_faithful {P : Type} (valid : Bytes → Bool) (enc : P → Bytes)
    (dec : Bytes → Option P) (hcodec : ∀ p, dec (enc p) = some p)
    (g n : Bytes) (v : Verb) (p : P)
    (hg : validateName g = true) (hn : validateName n = true)
    (hvg : valid g = true) (hvn : valid n = true) (hne : g ≠ STATE) :
    parse valid dec (nodeTopic g v n) (enc p) = .node g n (kindOfVerb v) p :=
  parse_nodeTopic valid dec g n (enc p) v p ((validateName_iff g).mp hg) ((validateName_iff n).mp hn)
    hvg hvn hne (hcodec p)

/-- the same for the four device message types and all valid group, node and device ids -/
theorem C13_device_faithful {P : Type} (valid : Bytes → Bool) (enc : P → Bytes)
    (dec : Bytes → Option P) (hcodec : ∀ p, dec (enc p) = some p)
    (g n d : Bytes) (v : Verb) (p : P)
    (hg : validateName g = true) (hn : validateName n = true) (hd : validateName d = true)
    (hvg : valid g = true) (hvn : valid n = true) (hvd : valid d = true) (hne : g ≠ STATE) :
    parse valid dec (deviceTopic g v n d) (enc p) = .device g n d (kindOfVerb v) p :=
  parse_deviceTopic valid dec g n d (enc p) v p ((validateName_iff g).mp hg)
    ((validateName_iff n).mp hn) ((validateName_iff d).mp hd) hvg hvn hvd hne (hcodec p)

/-- the STATE certificate as srad writes it by hand (`{"online" : true, "timestamp" : 17}`) is
read back with the same online flag and timestamp, for every flag and every `u64` timestamp -/
theorem C13_certificate_roundtrip (valid : Bytes → Bool) (hv : FieldNamesValid valid)
    (online : Bool) (ts : Nat) (hts : ts < 2 ^ 64) :
    parseCert valid (printCert online ts) = some (online, ts) :=
  Srad.StateJson.parseCert_printCert valid hv online ts (by simp [U64MAX]; omega)

/-- … and so is the form serde writes for `StateBirthDeathCertificate`
(`{"timestamp":17,"online":true}`) -/
theorem C13_certificate_roundtrip_serde (valid : Bytes → Bool) (hv : FieldNamesValid valid)
    (online : Bool) (ts : Nat) (hts : ts < 2 ^ 64) :
    parseCert valid (printCertSerde online ts) = some (online, ts) :=
  Srad.StateJson.parseCert_printCertSerde valid hv online ts (by simp [U64MAX]; omega)

/-- for every valid host id, flag and `u64` timestamp: the STATE topic built for publishing
together with the written certificate decodes to a state event with the same host id, flag and
timestamp (for either written form of the certificate) -/
theorem C13_state_faithful {P : Type} (valid : Bytes → Bool) (dec : Bytes → Option P)
    (hv : FieldNamesValid valid) (h : Bytes) (online : Bool) (ts : Nat)
    (hh : validateName h = true) (hvh : valid h = true) (hts : ts < 2 ^ 64) :
    parse valid dec (stateHostTopic h) (printCert online ts) = .state h online ts ∧
    parse valid dec (stateHostTopic h) (printCertSerde online ts) = .state h online ts :=
  ⟨parse_stateHostTopic valid dec h _ online ts ((validateName_iff h).mp hh) hvh
      (C13_certificate_roundtrip valid hv online ts hts),
   parse_stateHostTopic valid dec h _ online ts ((validateName_iff h).mp hh) hvh
      (C13_certificate_roundtrip_serde valid hv online ts hts)⟩

/-! ### totality and attribution, for every topic and every payload -/

/-- no input makes the receive path panic -/
theorem C13_no_panic {P : Type} (valid : Bytes → Bool) (dec : Bytes → Option P)
    (topic payload : Bytes) : parse valid dec topic payload ≠ .panic :=
  parse_ne_panic valid dec topic payload

/-- an invalid-publish event carries exactly the topic and payload bytes that were received -/
theorem C13_invalid_carries_original_bytes {P : Type} (valid : Bytes → Bool)
    (dec : Bytes → Option P) (topic payload : Bytes) (r : Reason) (t p : Bytes)
    (h : parse valid dec topic payload = .invalid r t p) : t = topic ∧ p = payload :=
  parse_invalid_bytes valid dec topic payload r t p h

/-- a topic that does not have node, device or STATE shape, or a payload that does not decode,
yields an invalid-publish event carrying the original bytes — and nothing else does: every
shaped topic with a decodable payload is decoded -/
theorem C13_invalid_iff_malformed {P : Type} (valid : Bytes → Bool) (dec : Bytes → Option P)
    (topic payload : Bytes) :
    (∃ r, parse valid dec topic payload = .invalid r topic payload) ↔
      (¬ HasShape valid topic ∨ ¬ PayloadDecodes valid dec topic payload) := by
  rw [parse_invalid_iff]
  constructor
  · intro h
    by_cases hs : HasShape valid topic
    · exact Or.inr (fun hp => h ⟨hs, hp⟩)
    · exact Or.inl hs
  · rintro (h | h) ⟨hs, hp⟩
    · exact h hs
    · exact h hp

/-- a node event is attributed to exactly the ids that appear in the topic: the topic is
`<namespace>/<group>/N<verb>/<node>` with these very byte strings as its second and fourth
segment, the kind is the one the verb names and the payload is the decoded payload -/
theorem C13_node_event_iff {P : Type} (valid : Bytes → Bool) (dec : Bytes → Option P)
    (topic payload g n : Bytes) (k : Kind) (p : P) :
    parse valid dec topic payload = .node g n k p ↔
      ∃ rest, IsNodeTopic valid topic g rest n ∧ k = kindOfRest rest ∧ dec payload = some p :=
  parse_node_iff valid dec topic payload g n k p

/-- the same for device events: `<namespace>/<group>/D<verb>/<node>/<device>` -/
theorem C13_device_event_iff {P : Type} (valid : Bytes → Bool) (dec : Bytes → Option P)
    (topic payload g n d : Bytes) (k : Kind) (p : P) :
    parse valid dec topic payload = .device g n d k p ↔
      ∃ rest, IsDeviceTopic valid topic g rest n d ∧ k = kindOfRest rest ∧ dec payload = some p :=
  parse_device_iff valid dec topic payload g n d k p

/-- a state event carries the host id that is the third segment of a `<namespace>/STATE/<host>`
topic and the flag and timestamp the certificate reader finds in the payload -/
theorem C13_state_event_iff {P : Type} (valid : Bytes → Bool) (dec : Bytes → Option P)
    (topic payload h : Bytes) (o : Bool) (ts : Nat) :
    parse valid dec topic payload = .state h o ts ↔
      IsStateTopic valid topic h ∧ parseCert valid payload = some (o, ts) :=
  parse_state_iff valid dec topic payload h o ts

/-! ### T-table: the verb tables of the builders and of the parser, regenerated on every run
from the compiled crates (`SradModel/Generated/TopicTable.lean`) -/

/-- payload decoder of the table rows (the payload is empty and decodes) -/
def decUnit : Bytes → Option Unit := fun _ => some ()

/-- builders: for each of the eight verbs the compiled `NodeTopic::new` / `DeviceTopic::new`
produce the topic bytes and QoS/retain of the model, and the compiled parser classifies that
topic as the model does -/
theorem C13_verb_table_matches_model :
    ∀ row ∈ Srad.Generated.verbTable,
      (if row.1 then deviceTopic [0x47] row.2.1 [0x6e] [0x64] else nodeTopic [0x47] row.2.1 [0x6e])
          = row.2.2.1 ∧
      (if row.1 then deviceQosRetain row.2.1 else nodeQosRetain row.2.1)
          = (if row.2.2.2.1 then QoS.atLeastOnce else QoS.atMostOnce, row.2.2.2.2.1) ∧
      parseClass asciiValid decUnit row.2.2.1 [] = row.2.2.2.2.2 := by
  decide +kernel

/-- in the compiled code itself: all eight verbs are in the table and each built topic is
received as a node resp. device message of the kind the verb names -/
theorem C13_verb_table_faithful :
    (Srad.Generated.verbTable.map (fun r => (r.1, r.2.1))).eraseDups.length = 8 ∧
    ∀ row ∈ Srad.Generated.verbTable,
      row.2.2.2.2.2 = (if row.1 then EvClass.device (kindOfVerb row.2.1) else EvClass.node (kindOfVerb row.2.1)) := by
  decide +kernel

/-- parser: on every verb segment of the table (every segment of length ≤ 1, every two-byte
segment starting with `N` or `D`, variants of the eight verbs) the compiled
`topic_and_payload_to_event` and the model agree, in a four- and in a five-segment topic -/
theorem C13_segment_table_matches_model :
    ∀ row ∈ Srad.Generated.segTable,
      parseClass asciiValid decUnit (nodeTopicRaw [0x47] row.1 [0x6e]) [] = row.2.1 ∧
      parseClass asciiValid decUnit (nodeTopicRaw [0x47] row.1 [0x6e, 0x2f, 0x64]) [] = row.2.2 := by
  decide +kernel

/-! ### non-vacuity (tests, not the claim) -/

example : nodeTopic [0x47] .death [0x6e]
    = [0x73, 0x70, 0x42, 0x76, 0x31, 0x2e, 0x30, 0x2f, 0x47, 0x2f, 0x4e, 0x44, 0x45, 0x41, 0x54, 0x48, 0x2f, 0x6e] := by
  decide
example : validateName [0x47] = true ∧ validateName [0x61, 0x2f, 0x62] = false ∧ validateName [] = false := by
  decide
example : ([0x47] : Bytes) ≠ STATE := by decide
example : FieldNamesValid asciiValid := ⟨by decide, by decide⟩
-- `{"online" : true, "timestamp" : 17}`
example : printCert true 17 =
    [0x7b, 0x22, 0x6f, 0x6e, 0x6c, 0x69, 0x6e, 0x65, 0x22, 0x20, 0x3a, 0x20, 0x74, 0x72, 0x75, 0x65, 0x2c, 0x20,
     0x22, 0x74, 0x69, 0x6d, 0x65, 0x73, 0x74, 0x61, 0x6d, 0x70, 0x22, 0x20, 0x3a, 0x20, 0x31, 0x37, 0x7d] := by
  simp [printCert, Srad.StateJson.decDigits, Srad.StateJson.boolBytes, Srad.StateJson.TRUE_]
example : parseCert asciiValid (printCert false 18446744073709551615) = some (false, 18446744073709551615) :=
  C13_certificate_roundtrip asciiValid ⟨by decide, by decide⟩ false _ (by decide)
-- a STATE topic, a node topic with an unknown verb, a topic with too many segments
example : parse asciiValid decUnit (stateHostTopic [0x68]) (printCert true 17) = .state [0x68] true 17 :=
  (C13_state_faithful asciiValid decUnit ⟨by decide, by decide⟩ [0x68] true 17 (by decide) (by decide) (by decide)).1
example : parseClass asciiValid decUnit (nodeTopicRaw [0x47] [0x4e, 0x58] [0x6e]) [] = .node (.other [0x58]) := by
  decide
example : parseClass asciiValid decUnit (nodeTopicRaw [0x47] NBIRTH [0x6e, 0x2f, 0x64]) [] = .invalid .topic := by
  decide
example : HasShape asciiValid (nodeTopic [0x47] .birth [0x6e]) :=
  Or.inl ⟨[0x47], BIRTH, [0x6e], SPBV10, rfl, by unfold NoSlash; decide, by unfold NoSlash; decide,
    by unfold NoSlash; decide, by unfold NoSlash; decide, by decide, by decide, by decide,
    by decide, Or.inl rfl⟩

end Srad.Topic
