import SradModel.Model.StateJson

/-!
Helper lemmas for the STATE certificate: the decimal printer and serde_json's integer reader
are inverse on every `u64`; the reader accepts both written forms of the certificate.
-/
namespace Srad.StateJson

/-! ### digits -/

theorem isDigit_ofNat (d : Nat) (h : d < 10) : isDigit (UInt8.ofNat (48 + d)) = true := by
  simp [isDigit, UInt8.toNat_ofNat']
  omega

theorem digitVal_ofNat (d : Nat) (h : d < 10) : (UInt8.ofNat (48 + d)).toNat - 48 = d := by
  simp [UInt8.toNat_ofNat']
  omega

theorem isWs_of_isDigit (c : UInt8) (h : isDigit c = true) : isWs c = false := by
  simp only [isDigit, isWs, Bool.and_eq_true, decide_eq_true_eq] at *
  have h1 : c ≠ 0x20 := by intro e; subst e; revert h; decide
  have h2 : c ≠ 0x0a := by intro e; subst e; revert h; decide
  have h3 : c ≠ 0x09 := by intro e; subst e; revert h; decide
  have h4 : c ≠ 0x0d := by intro e; subst e; revert h; decide
  simp [h1, h2, h3, h4]

theorem ofNat48_eq_zero_iff (d : Nat) (h : d < 10) : UInt8.ofNat (48 + d) = 0x30 ↔ d = 0 := by
  rw [← UInt8.toNat_inj]
  simp [UInt8.toNat_ofNat']
  omega

theorem decDigits_lt10 (n : Nat) (h : n < 10) : decDigits n = [UInt8.ofNat (48 + n)] := by
  rw [decDigits]; simp [h]

theorem decDigits_ge10 (n : Nat) (h : ¬ n < 10) :
    decDigits n = decDigits (n / 10) ++ [UInt8.ofNat (48 + n % 10)] := by
  rw [decDigits]; simp [h]

/-- the printed number starts with a digit, and with `0` only when it is zero -/
theorem decDigits_head (n : Nat) :
    ∃ c t, decDigits n = c :: t ∧ isDigit c = true ∧ (c = 0x30 ↔ n = 0) := by
  induction n using Nat.strongRecOn with
  | _ n ih =>
    by_cases h : n < 10
    · exact ⟨_, [], decDigits_lt10 n h, isDigit_ofNat n h, ofNat48_eq_zero_iff n h⟩
    · obtain ⟨c, t, hc, hd, hz⟩ := ih (n / 10) (by omega)
      refine ⟨c, t ++ [UInt8.ofNat (48 + n % 10)], ?_, hd, ?_⟩
      · rw [decDigits_ge10 n h, hc]; rfl
      · rw [hz]; omega

theorem overflows_false (q d : Nat) (hd : d < 10) (h : q * 10 + d ≤ U64MAX) : overflows q d = false := by
  rw [Bool.eq_false_iff]
  intro hb
  simp only [overflows, U64MAX, Bool.and_eq_true, Bool.or_eq_true] at hb h
  simp at hb
  omega

/-- serde_json's digit loop reads back what Rust's `Display` printed, for every `u64` -/
theorem accDigits_decDigits (n : Nat) (hn : n ≤ U64MAX) (rest : Bytes) :
    accDigits 0 (decDigits n ++ rest) = accDigits n rest := by
  induction n using Nat.strongRecOn generalizing rest with
  | _ n ih =>
    by_cases h : n < 10
    · rw [decDigits_lt10 n h]
      show accDigits 0 (UInt8.ofNat (48 + n) :: rest) = _
      rw [accDigits, isDigit_ofNat n h, digitVal_ofNat n h]
      have : overflows 0 n = false := overflows_false 0 n h (by omega)
      simp [this]
    · rw [decDigits_ge10 n h, List.append_assoc]
      show accDigits 0 (decDigits (n / 10) ++ (UInt8.ofNat (48 + n % 10) :: rest)) = _
      rw [ih (n / 10) (by omega) (by omega)]
      have hd : n % 10 < 10 := Nat.mod_lt _ (by decide)
      rw [accDigits, isDigit_ofNat _ hd, digitVal_ofNat _ hd]
      have : overflows (n / 10) (n % 10) = false := overflows_false _ _ hd (by omega)
      simp only [this, if_true, Bool.false_eq_true, if_false]
      congr 1
      omega

theorem accDigits_stop (n : Nat) (c : UInt8) (r : Bytes) (hc : isDigit c = false) :
    accDigits n (c :: r) = some (n, c :: r) := by
  rw [accDigits]; simp [hc]

/-- `deserialize_number` into a `u64` reads back the printed number when something that
cannot continue a number follows -/
theorem parseU64_decDigits (n : Nat) (hn : n ≤ U64MAX) (c : UInt8) (r : Bytes)
    (hc : isDigit c = false) (h1 : c ≠ 0x2e) (h2 : c ≠ 0x65) (h3 : c ≠ 0x45) :
    parseU64 (decDigits n ++ c :: r) = some (n, c :: r) := by
  obtain ⟨c0, t0, hdec, hdig, hz⟩ := decDigits_head n
  have htail : parseNumberTail n (c :: r) = some (n, c :: r) := by
    simp [parseNumberTail, h1, h2, h3]
  by_cases hn0 : n = 0
  · subst hn0
    rw [decDigits_lt10 0 (by decide)]
    show parseU64 (0x30 :: c :: r) = _
    have : parseU64 (0x30 :: c :: r) = if isDigit c then none else parseNumberTail 0 (c :: r) := rfl
    rw [this, hc]; simpa using htail
  · have hne : c0 ≠ 0x30 := fun e => hn0 (hz.mp e)
    have hacc : accDigits (c0.toNat - 48) (t0 ++ c :: r) = some (n, c :: r) := by
      have h0 : accDigits 0 (c0 :: (t0 ++ c :: r)) = accDigits (c0.toNat - 48) (t0 ++ c :: r) := by
        rw [accDigits, hdig]
        have : overflows 0 (c0.toNat - 48) = false := by
          simp only [isDigit, Bool.and_eq_true, decide_eq_true_eq] at hdig
          exact overflows_false 0 _ (by omega) (by simp [U64MAX]; omega)
        simp [this]
      rw [← h0, ← List.cons_append, ← hdec, accDigits_decDigits n hn, accDigits_stop n c r hc]
    rw [hdec]
    show parseU64 (c0 :: (t0 ++ c :: r)) = _
    unfold parseU64
    have hws : skipWs (c0 :: (t0 ++ c :: r)) = c0 :: (t0 ++ c :: r) := by
      rw [skipWs, isWs_of_isDigit c0 hdig]; simp
    rw [hws]
    simp only [hne, if_false, hdig, if_true, hacc, htail]

theorem parseU64_space (bs : Bytes) : parseU64 (0x20 :: bs) = parseU64 bs := rfl

/-! ### the two written forms are read back -/

theorem key_online (valid : Bytes → Bool) (hv : valid ONLINE = true) (r : Bytes) :
    parseStrLoop valid ((0x6f :: 0x6e :: 0x6c :: 0x69 :: 0x6e :: 0x65 :: 0x22 :: r).length + 1) []
      (0x6f :: 0x6e :: 0x6c :: 0x69 :: 0x6e :: 0x65 :: 0x22 :: r) = some (ONLINE, r) := by
  have : parseStrLoop valid ((0x6f :: 0x6e :: 0x6c :: 0x69 :: 0x6e :: 0x65 :: 0x22 :: r).length + 1) []
      (0x6f :: 0x6e :: 0x6c :: 0x69 :: 0x6e :: 0x65 :: 0x22 :: r)
        = if valid ONLINE then some (ONLINE, r) else none := rfl
  rw [this, hv]; rfl

theorem key_timestamp (valid : Bytes → Bool) (hv : valid TIMESTAMP = true) (r : Bytes) :
    parseStrLoop valid
      ((0x74 :: 0x69 :: 0x6d :: 0x65 :: 0x73 :: 0x74 :: 0x61 :: 0x6d :: 0x70 :: 0x22 :: r).length + 1) []
      (0x74 :: 0x69 :: 0x6d :: 0x65 :: 0x73 :: 0x74 :: 0x61 :: 0x6d :: 0x70 :: 0x22 :: r)
        = some (TIMESTAMP, r) := by
  have : parseStrLoop valid
      ((0x74 :: 0x69 :: 0x6d :: 0x65 :: 0x73 :: 0x74 :: 0x61 :: 0x6d :: 0x70 :: 0x22 :: r).length + 1) []
      (0x74 :: 0x69 :: 0x6d :: 0x65 :: 0x73 :: 0x74 :: 0x61 :: 0x6d :: 0x70 :: 0x22 :: r)
        = if valid TIMESTAMP then some (TIMESTAMP, r) else none := rfl
  rw [this, hv]; rfl

/-- the bytes of `true` / `false` are read back by `deserialize_bool` -/
theorem parseBool_boolBytes (o : Bool) (r : Bytes) : parseBool (boolBytes o ++ r) = some (o, r) := by
  cases o <;> rfl

theorem parseBool_space (bs : Bytes) : parseBool (0x20 :: bs) = parseBool bs := rfl

/-- validity of the two field names (they are ASCII) is all the reader needs of `valid` -/
structure FieldNamesValid (valid : Bytes → Bool) : Prop where
  online : valid ONLINE = true
  timestamp : valid TIMESTAMP = true

/-- hand-written form, object body: `"online" : <o>, "timestamp" : <n>}` -/
theorem mapLoop_printCert (valid : Bytes → Bool) (hv : FieldNamesValid valid) (o : Bool) (n : Nat)
    (hn : n ≤ U64MAX) (fuel : Nat) :
    mapLoop valid (fuel + 3) true none none
      ([0x22, 0x6f, 0x6e, 0x6c, 0x69, 0x6e, 0x65, 0x22, 0x20, 0x3a, 0x20] ++ boolBytes o ++
        [0x2c, 0x20, 0x22, 0x74, 0x69, 0x6d, 0x65, 0x73, 0x74, 0x61, 0x6d, 0x70, 0x22, 0x20, 0x3a, 0x20] ++
        decDigits n ++ [0x7d]) = some ((n, o), [0x7d]) := by
  have hnum : parseU64 (0x20 :: (decDigits n ++ [0x7d])) = some (n, [0x7d]) := by
    rw [parseU64_space]
    exact parseU64_decDigits n hn 0x7d [] (by decide) (by decide) (by decide) (by decide)
  -- first key
  simp only [List.cons_append, List.nil_append, List.append_assoc]
  rw [mapLoop]
  show (match parseStrLoop valid _ [] _ with | none => none | some (key, r) => _) = _
  rw [key_online valid hv.online]
  show (match parseBool (0x20 :: (boolBytes o ++ _)) with | none => none | some (v, r3) => _) = _
  rw [parseBool_space, parseBool_boolBytes]
  -- second key
  show mapLoop valid (fuel + 1 + 1) false none (some o) _ = _
  rw [mapLoop]
  show (match parseStrLoop valid _ [] _ with | none => none | some (key, r) => _) = _
  rw [key_timestamp valid hv.timestamp]
  show (match parseU64 _ with | none => none | some (v, r3) => _) = _
  rw [hnum]
  -- closing brace
  show mapLoop valid (fuel + 1) false (some n) (some o) [0x7d] = _
  rfl

/-- serde form, object body: `"timestamp":<n>,"online":<o>}` -/
theorem mapLoop_printCertSerde (valid : Bytes → Bool) (hv : FieldNamesValid valid) (o : Bool)
    (n : Nat) (hn : n ≤ U64MAX) (fuel : Nat) :
    mapLoop valid (fuel + 3) true none none
      ([0x22, 0x74, 0x69, 0x6d, 0x65, 0x73, 0x74, 0x61, 0x6d, 0x70, 0x22, 0x3a] ++ decDigits n ++
        [0x2c, 0x22, 0x6f, 0x6e, 0x6c, 0x69, 0x6e, 0x65, 0x22, 0x3a] ++ boolBytes o ++ [0x7d])
      = some ((n, o), [0x7d]) := by
  have hnum : ∀ r : Bytes, parseU64 (decDigits n ++ 0x2c :: r) = some (n, 0x2c :: r) := fun r =>
    parseU64_decDigits n hn 0x2c r (by decide) (by decide) (by decide) (by decide)
  simp only [List.cons_append, List.nil_append, List.append_assoc]
  rw [mapLoop]
  show (match parseStrLoop valid _ [] _ with | none => none | some (key, r) => _) = _
  rw [key_timestamp valid hv.timestamp]
  show (match parseU64 _ with | none => none | some (v, r3) => _) = _
  rw [hnum]
  show mapLoop valid (fuel + 1 + 1) false (some n) none _ = _
  rw [mapLoop]
  show (match parseStrLoop valid _ [] _ with | none => none | some (key, r) => _) = _
  rw [key_online valid hv.online]
  show (match parseBool (boolBytes o ++ _) with | none => none | some (v, r3) => _) = _
  rw [parseBool_boolBytes]
  show mapLoop valid (fuel + 1) false (some n) (some o) [0x7d] = _
  rfl

/-- top level of the reader for an object whose body `mapLoop` accepts up to the closing brace -/
theorem parseCert_obj (valid : Bytes → Bool) (t : Bytes) (ts : Nat) (on : Bool)
    (h : mapLoop valid (t.length + 1) true none none t = some ((ts, on), [0x7d])) :
    parseCert valid (0x7b :: t) = some (on, ts) := by
  have : parseCert valid (0x7b :: t) =
      match (mapLoop valid (t.length + 1) true none none t).map (fun x => (x.1, x.2, (0x7d : UInt8))) with
      | none => none
      | some ((ts, on), r, close) =>
        match skipWs r with
        | [] => none
        | e :: r2 => if e = close then (if (skipWs r2).isEmpty then some (on, ts) else none) else none := rfl
  rw [this, h]
  rfl

theorem parseCert_printCert (valid : Bytes → Bool) (hv : FieldNamesValid valid) (o : Bool) (n : Nat)
    (hn : n ≤ U64MAX) : parseCert valid (printCert o n) = some (o, n) := by
  have hlen : ∀ l : Bytes, ∃ f, (0x22 :: 0x6f :: 0x6e :: l).length + 1 = f + 3 := fun l => ⟨l.length + 1, by simp⟩
  have := mapLoop_printCert valid hv o n hn
  unfold printCert
  simp only [List.cons_append, List.nil_append, List.append_assoc] at this ⊢
  apply parseCert_obj
  obtain ⟨f, hf⟩ := hlen _
  rw [hf]
  exact this f

theorem parseCert_printCertSerde (valid : Bytes → Bool) (hv : FieldNamesValid valid) (o : Bool)
    (n : Nat) (hn : n ≤ U64MAX) : parseCert valid (printCertSerde o n) = some (o, n) := by
  have hlen : ∀ l : Bytes, ∃ f, (0x22 :: 0x74 :: 0x69 :: l).length + 1 = f + 3 := fun l => ⟨l.length + 1, by simp⟩
  have := mapLoop_printCertSerde valid hv o n hn
  unfold printCertSerde
  simp only [List.cons_append, List.nil_append, List.append_assoc] at this ⊢
  apply parseCert_obj
  obtain ⟨f, hf⟩ := hlen _
  rw [hf]
  exact this f

end Srad.StateJson
