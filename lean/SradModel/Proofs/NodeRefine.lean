/-
Helper definitions and lemmas for `Props/C08Refine.lean`: the sequential abstraction `Loop.Node`
of the edge node is a sound description of the task-level LTS `Model/Eon` under the accepting
client. For every operation of `Loop.Node` a concrete schedule of the LTS (the stimulus followed by
task steps, every client decision `.acc`) is exhibited that leads from a quiescent state to a
quiescent state, commutes with the abstraction function `absNode` and hands over exactly the
messages the abstract operation returns.
-/
import SradModel.Model.EonSpec
import SradModel.Model.Loop

set_option linter.unusedSimpArgs false
set_option linter.unusedVariables false

namespace Srad.Loop.Refine
open Srad

/-! ### vocabulary -/

/-- a hand-over without its payload: kind, device, sequence number, bdSeq — or a new will -/
inductive H where
  | call (kind : Eon.CK) (dev seq bd : Option Nat)
  | will (bd : Nat)
  deriving DecidableEq, Repr

/-- an abstract message, projected (its id and timestamp dropped) -/
def projMsg : Msg → H
  | .nbirth _ bd _ => .call .nbirth none (some 0) (some bd)
  | .ndeath bd => .call .ndeath none none (some bd)
  | .ndata seq _ _ => .call .ndata none (some seq) none
  | .dbirth d seq _ _ => .call .dbirth (some d) (some seq) none
  | .ddeath d seq _ _ => .call .ddeath (some d) (some seq) none
  | .ddata d seq _ _ => .call .ddata (some d) (some seq) none

/-- an observation of the LTS, projected: client calls other than the subscription, and wills -/
def projOb : Eon.Obs → Option H
  | .call _ k dev seq bd _ _ => if k == .sub then none else some (.call k dev seq bd)
  | .will bd => some (.will bd)
  | _ => none

def projObs (l : List Eon.Obs) : List H := l.filterMap projOb

@[simp] theorem projOb_call (id : Nat) (k : Eon.CK) (dev seq bd : Option Nat) (t : Bool) (dec : Eon.Dec) :
    projOb (.call id k dev seq bd t dec) = if k == .sub then none else some (.call k dev seq bd) := rfl
@[simp] theorem projOb_will (bd : Nat) : projOb (.will bd) = some (.will bd) := rfl
@[simp] theorem projOb_resolved (id : Nat) (ok : Bool) : projOb (.resolved id ok) = none := rfl
@[simp] theorem projOb_poll : projOb .poll = none := rfl
@[simp] theorem projOb_polled (e : Eon.EvName) : projOb (.polled e) = none := rfl
@[simp] theorem projOb_ures (j : Nat) (r : Eon.URes) : projOb (.ures j r) = none := rfl
@[simp] theorem projOb_cbNcmd : projOb .cbNcmd = none := rfl
@[simp] theorem projOb_cbDcmd (d : Nat) : projOb (.cbDcmd d) = none := rfl
@[simp] theorem projOb_bNode : projOb .bNode = none := rfl
@[simp] theorem projOb_bDev (d : Nat) : projOb (.bDev d) = none := rfl
@[simp] theorem projOb_runReturned : projOb .runReturned = none := rfl

@[simp] theorem projObs_nil : projObs [] = [] := rfl
@[simp] theorem projObs_append (a b : List Eon.Obs) : projObs (a ++ b) = projObs a ++ projObs b := by
  simp [projObs]

def absDev (x : Eon.Dev) : Dev := { name := x.name, enabled := x.enabled, flag := x.flag }

/-- the abstraction function; `i` is the (ghost) id counter of `Loop.Node`, which the LTS does not have -/
def absNode (i : Nat) (s : Eon.St) : Node :=
  { online := s.online, birthed := s.birthed, seq := s.seq, bdseq := s.bdseq, devs := s.devs.map absDev, nextId := i }

/-- a device task with nothing to do -/
def DevQuiet (x : Eon.Dev) : Prop :=
  x.pc = .idle ∧ x.nsq = [] ∧ x.hq = [] ∧ x.mq = [] ∧ x.registered = true

/-- the control part of a quiescent state: the event loop is blocked in `poll` with nothing to return,
every channel is empty, no stop is requested, the node task is idle, every user call has returned -/
structure Ctl (s : Eon.St) : Prop where
  inbox : s.inbox = []
  loop : s.loop = .polling
  cs : s.cs = none
  rebirthQ : s.rebirthQ = false
  msgQ : s.msgQ = []
  stop : s.stop = false
  stopping : s.stopping = false
  node : s.node = .idle
  ucalls : ∀ u ∈ s.ucalls, u.pc = .done

/-- quiescent: no task is enabled (`quiescent_stuck`) -/
structure Quiescent (s : Eon.St) : Prop where
  ctl : Ctl s
  devs : ∀ x ∈ s.devs, DevQuiet x

/-- configuration facts of the states the harness reaches: cooldown 0, `on_ncmd` does not park, the
oneshot ids handed out so far are below the counter -/
structure Cfg (s : Eon.St) : Prop where
  cooldown : s.cooldown = 0
  cbPark : s.nodeCbPark = false
  oneshots : ∀ p ∈ s.oneshots, p.1 < s.nextOneshot

/-- well-formedness: `Cfg`, distinct devices, and the facts about flags the abstraction relies on:
a flagged device is enabled and was birthed in the current node birth; no device is flagged while
the node is offline; under the accepting client the node is birthed exactly while it is online -/
structure Wf (s : Eon.St) : Prop where
  cfg : Cfg s
  uids : (s.devs.map (·.uid)).Nodup
  names : (s.devs.map (·.name)).Nodup
  flags : ∀ x ∈ s.devs, x.flag = true → x.enabled = true ∧ x.epoch = s.epoch
  offline : s.online = false → ∀ x ∈ s.devs, x.flag = false
  bo : s.birthed = s.online

/-! ### running schedules -/

theorem runActs_append (s : Eon.St) (a b : List Eon.Act) (s1 s2 : Eon.St) (o1 o2 : List Eon.Obs)
    (h1 : Eon.runActs s a = some (s1, o1)) (h2 : Eon.runActs s1 b = some (s2, o2)) :
    Eon.runActs s (a ++ b) = some (s2, o1 ++ o2) := by
  induction a generalizing s o1 with
  | nil => simp [Eon.runActs] at h1; obtain ⟨rfl, rfl⟩ := h1; simpa using h2
  | cons x t ih =>
    simp only [Eon.runActs, List.cons_append] at h1 ⊢
    cases hx : Eon.runAct s x with
    | none => simp [hx] at h1
    | some r =>
      obtain ⟨sx, ox⟩ := r
      simp only [hx] at h1 ⊢
      cases ht : Eon.runActs sx t with
      | none => simp [ht] at h1
      | some r2 =>
        obtain ⟨st, ot⟩ := r2
        simp only [ht, Option.some.injEq, Prod.mk.injEq] at h1
        obtain ⟨rfl, rfl⟩ := h1
        rw [ih sx ot ht]
        simp

/-- the actions a schedule of the sequential regime consists of: the stimuli of the eight operations
(an event from the event loop, enable / disable, a manual rebirth, a blocking publish) and task
steps in which the client ACCEPTS the call handed over, if any -/
def okAct : Eon.Act → Bool
  | .task _ .acc _ => true
  | .stim (.ev _) => true
  | .stim (.enable _) => true
  | .stim (.disable _) => true
  | .stim .nrebirth => true
  | .stim (.pub _ _ false _) => true
  | _ => false

/-- `s` can run to `s'` emitting `obs` by a schedule in which the client accepts every call -/
def Runs (s s' : Eon.St) (obs : List Eon.Obs) : Prop :=
  ∃ acts, acts.all okAct = true ∧ Eon.runActs s acts = some (s', obs)

theorem Runs.refl (s : Eon.St) : Runs s s [] := ⟨[], rfl, rfl⟩

theorem Runs.trans {s s1 s2 : Eon.St} {o1 o2 : List Eon.Obs} (h1 : Runs s s1 o1) (h2 : Runs s1 s2 o2) :
    Runs s s2 (o1 ++ o2) := by
  obtain ⟨a, hka, ha⟩ := h1
  obtain ⟨b, hkb, hb⟩ := h2
  exact ⟨a ++ b, by simp [List.all_append, hka, hkb], runActs_append s a b s1 s2 o1 o2 ha hb⟩

theorem Runs.of_acts {s s' : Eon.St} {obs : List Eon.Obs} (acts : List Eon.Act)
    (h : Eon.runActs s acts = some (s', obs)) (hok : acts.all okAct = true := by rfl) : Runs s s' obs := ⟨acts, hok, h⟩

/-! ### device lists -/

theorem findUid_mid (pre post : List Eon.Dev) (z : Eon.Dev) (u : Nat) (h : ∀ a ∈ pre, a.uid ≠ u) (hz : z.uid = u) :
    Eon.findUid u (pre ++ z :: post) = some z := by
  induction pre with
  | nil => simp [Eon.findUid, hz]
  | cons y t ih =>
    have hy : (y.uid == u) = false := by simpa using h y (by simp)
    simp only [Eon.findUid, List.cons_append, List.find?_cons, hy]
    exact ih (fun a ha => h a (by simp [ha]))

theorem setDev_mid (pre post : List Eon.Dev) (y z : Eon.Dev) (u : Nat) (h : ∀ a ∈ pre, a.uid ≠ u) (hz : z.uid = u)
    (hy : y.uid = u) : Eon.setDev y (pre ++ z :: post) = pre ++ y :: post := by
  induction pre with
  | nil => simp [Eon.setDev, hz, hy]
  | cons w t ih =>
    have hw : (w.uid == y.uid) = false := by rw [hy]; simpa using h w (by simp)
    simp only [List.cons_append, Eon.setDev, hw]
    simp [ih (fun a ha => h a (by simp [ha]))]

/-- one device task handles the `Birth` message of a node birth: nothing to do -/
theorem dev_birth_skip (s0 : Eon.St) (pre post : List Eon.Dev) (x : Eon.Dev) (bt : Eon.BT) (ep : Nat)
    (hpre : ∀ a ∈ pre, a.uid ≠ x.uid) (hpc : x.pc = .idle) (hnsq : x.nsq = [.birth bt ep])
    (hskip : x.enabled = false ∨ (bt = .birth ∧ x.flag = true)) (hreg : x.registered = true) :
    Eon.runActs { s0 with devs := pre ++ x :: post } [.task (.dev x.uid) .acc 0] =
      some ({ s0 with devs := pre ++ { x with nsq := [] } :: post }, []) := by
  have e1 := fun z hz => findUid_mid pre post z x.uid hpre hz
  have e2 := fun y z hz hy => setDev_mid pre post y z x.uid hpre hz hy
  rcases hskip with h | ⟨h1, h2⟩
  · simp [Eon.runActs, Eon.runAct, Eon.step, Eon.stepDev, e1, e2, hpc, hnsq, Eon.devBirth, h]
  · simp [Eon.runActs, Eon.runAct, Eon.step, Eon.stepDev, e1, e2, hpc, hnsq, Eon.devBirth, h1, h2]

/-- the state after device `x` (at `pre ++ x :: post`) has handed over its DBIRTH and it was accepted -/
def afterDBirth (s0 : Eon.St) (pre post : List Eon.Dev) (x : Eon.Dev) : Eon.St :=
  { s0 with seq := (s0.seq + 1) % 256,
            calls := s0.calls ++ [{ kind := .dbirth, dev := some x.name, seq := some ((s0.seq + 1) % 256), res := some true, gOnline := true, gBirthed := true, gFlag := x.flag }],
            devs := pre ++ { x with nsq := [], hq := [], enabled := true, flag := true, epoch := s0.epoch } :: post }

/-- one device task handles the `Birth` message of a node birth: DBIRTH handed over and accepted -/
theorem dev_birth_do (s0 : Eon.St) (pre post : List Eon.Dev) (x : Eon.Dev) (bt : Eon.BT)
    (hpre : ∀ a ∈ pre, a.uid ≠ x.uid) (hpc : x.pc = .idle) (hnsq : x.nsq = [.birth bt s0.epoch])
    (hen : x.enabled = true) (hfl : bt = .rebirth ∨ x.flag = false) (hreg : x.registered = true) (hhq : x.hq = [])
    (ho : s0.online = true) (hb : s0.birthed = true) :
    Eon.runActs { s0 with devs := pre ++ x :: post } [.task (.dev x.uid) .acc 0, .task (.dev x.uid) .acc 0] =
      some (afterDBirth s0 pre post x,
            [.bDev x.name, .call s0.calls.length .dbirth (some x.name) (some ((s0.seq + 1) % 256)) none false .acc]) := by
  have e1 := fun z hz => findUid_mid pre post z x.uid hpre hz
  have e2 := fun y z hz hy => setDev_mid pre post y z x.uid hpre hz hy
  rcases hfl with h | h
  · simp [Eon.runActs, Eon.runAct, Eon.step, Eon.stepDev, e1, e2, hpc, hnsq, Eon.devBirth, h, hen, hreg, Eon.nextSeqIn, ho, hb,
      Eon.handOver, Eon.callRes, afterDBirth, hhq]
  · simp [Eon.runActs, Eon.runAct, Eon.step, Eon.stepDev, e1, e2, hpc, hnsq, Eon.devBirth, h, hen, hreg, Eon.nextSeqIn, ho, hb,
      Eon.handOver, Eon.callRes, afterDBirth, hhq]

/-! ### user calls -/

/-- a user-call id not in use -/
def freshJ (s : Eon.St) : Nat := (s.ucalls.map (·.j)).foldr max 0 + 1

theorem le_foldr_max (l : List Nat) : ∀ x ∈ l, x ≤ l.foldr max 0 := by
  induction l with
  | nil => simp
  | cons y t ih =>
    intro x hx
    simp only [List.mem_cons] at hx
    simp only [List.foldr_cons]
    rcases hx with rfl | hx
    · omega
    · have := ih x hx; omega

theorem freshJ_fresh (s : Eon.St) : ∀ u ∈ s.ucalls, u.j ≠ freshJ s := by
  intro u hu
  have := le_foldr_max (s.ucalls.map (·.j)) u.j (List.mem_map_of_mem hu)
  unfold freshJ; omega

theorem find_fresh (l : List Eon.UCall) (u : Eon.UCall) (h : ∀ v ∈ l, v.j ≠ u.j) :
    (l ++ [u]).find? (fun v => v.j == u.j) = some u := by
  induction l with
  | nil => simp
  | cons y t ih =>
    have hy : ¬ y.j = u.j := h y (by simp)
    have hy' : (y.j == u.j) = false := by simp [hy]
    simp only [List.cons_append, List.find?_cons, hy']
    exact ih (fun v hv => h v (by simp [hv]))

theorem setUCall_fresh (l : List Eon.UCall) (u u' : Eon.UCall) (h : ∀ v ∈ l, v.j ≠ u.j) (hj : u'.j = u.j) :
    Eon.setUCall u' (l ++ [u]) = l ++ [u'] := by
  induction l with
  | nil => simp [Eon.setUCall, hj]
  | cons y t ih =>
    have hy : ¬ y.j = u'.j := by rw [hj]; exact h y (by simp)
    simp only [List.cons_append, Eon.setUCall, beq_iff_eq, hy]
    simp [ih (fun v hv => h v (by simp [hv]))]

/-! ### frames: everything of a state except `seq`, `calls`, `devs` -/

def rest (s : Eon.St) :=
  (s.online, s.birthed, s.bdseq, s.running, s.stopping, s.epoch, s.cooldown, s.wall, s.lastRebirthReq, s.inbox, s.will,
   s.loop, s.stopDeadline, s.cs, s.rebirthQ, s.msgQ, s.stop, s.oneshots, s.nextOneshot, s.node, s.nodeCbPark,
   s.devCbPark, s.ucalls)

/-- `s'` differs from `s` at most in `seq`, `calls`, `devs` -/
def Frame (s s' : Eon.St) : Prop := rest s' = rest s

theorem Frame.refl (s : Eon.St) : Frame s s := rfl
theorem Frame.trans {a b c : Eon.St} (h1 : Frame a b) (h2 : Frame b c) : Frame a c := Eq.trans h2 h1

theorem Ctl.frame {a b : Eon.St} (hf : Frame a b) (h : Ctl a) : Ctl b := by
  simp only [Frame, rest, Prod.mk.injEq] at hf
  obtain ⟨_, _, _, _, h5, _, _, _, _, h10, _, h12, _, h14, h15, h16, h17, _, _, h20, _, _, h23⟩ := hf
  exact ⟨h10 ▸ h.inbox, h12 ▸ h.loop, h14 ▸ h.cs, h15 ▸ h.rebirthQ, h16 ▸ h.msgQ, h17 ▸ h.stop, h5 ▸ h.stopping,
    h20 ▸ h.node, h23 ▸ h.ucalls⟩

theorem Cfg.frame {a b : Eon.St} (hf : Frame a b) (h : Cfg a) : Cfg b := by
  simp only [Frame, rest, Prod.mk.injEq] at hf
  obtain ⟨_, _, _, _, _, _, h7, _, _, _, _, _, _, _, _, _, _, h18, h19, _, h21, _, _⟩ := hf
  exact ⟨h7 ▸ h.cooldown, h21 ▸ h.cbPark, by rw [h18, h19]; exact h.oneshots⟩

/-- the device tasks of `todo` handle the `Birth` message of the node birth that has just completed,
one after the other in list order; the abstract `birthDevs` computes the same -/
theorem birthPhase (rb : Bool) (ts : Nat) : ∀ (todo pre : List Eon.Dev) (s : Eon.St) (n : Node),
    s.devs = pre ++ todo → s.online = true → s.birthed = true →
    (∀ x ∈ todo, x.pc = .idle ∧ x.nsq = [.birth (if rb then .rebirth else .birth) s.epoch] ∧ x.hq = [] ∧ x.mq = [] ∧
      x.registered = true ∧ (x.flag = true → x.enabled = true ∧ rb = true)) →
    ((pre ++ todo).map (·.uid)).Nodup →
    n.online = true → n.birthed = true → n.seq = s.seq →
    ∃ s' obs todo', Runs s s' obs ∧ Frame s s' ∧ s'.devs = pre ++ todo' ∧
      (∀ x ∈ todo', DevQuiet x ∧ (x.flag = true → x.enabled = true ∧ x.epoch = s.epoch)) ∧
      todo'.map (·.uid) = todo.map (·.uid) ∧ todo'.map (·.name) = todo.map (·.name) ∧
      (Node.birthDevs rb ts n (todo.map absDev)).1 =
        { n with seq := s'.seq, nextId := (Node.birthDevs rb ts n (todo.map absDev)).1.nextId } ∧
      (Node.birthDevs rb ts n (todo.map absDev)).2.1 = todo'.map absDev ∧
      projObs obs = (Node.birthDevs rb ts n (todo.map absDev)).2.2.map projMsg := by
  intro todo
  induction todo with
  | nil =>
    intro pre s n hd _ _ _ _ _ _ hseq
    refine ⟨s, [], [], Runs.refl s, Frame.refl s, hd, by simp, rfl, rfl, ?_, rfl, rfl⟩
    simp only [List.map_nil, Node.birthDevs]
    rw [← hseq]
  | cons x t ih =>
    intro pre s n hd ho hb htodo hnd hno hnb hseq
    obtain ⟨hpc, hnsq, hhq, hmq, hreg, hfl⟩ := htodo x (by simp)
    have hnd' := hnd
    simp only [List.map_append, List.map_cons, List.nodup_append, List.nodup_cons, List.mem_map, List.mem_cons] at hnd'
    have hpre : ∀ a ∈ pre, a.uid ≠ x.uid := by
      intro a ha
      exact hnd'.2.2 a.uid ⟨a, ha, rfl⟩ x.uid (Or.inl rfl)
    by_cases hdo : x.enabled = true ∧ (rb = true ∨ x.flag = false)
    · obtain ⟨hen, hrf⟩ := hdo
      have hrf' : (if rb = true then Eon.BT.rebirth else Eon.BT.birth) = .rebirth ∨ x.flag = false := by
        rcases hrf with h | h
        · left; simp [h]
        · right; exact h
      have hrun := dev_birth_do s pre t x _ hpre hpc hnsq hen hrf' hreg hhq ho hb
      rw [← hd] at hrun
      let x' : Eon.Dev := { x with nsq := [], hq := [], enabled := true, flag := true, epoch := s.epoch }
      obtain ⟨s', obs, todo', hr, hf, hdevs, hq', huid, hname, h1, h2, h3⟩ :=
        ih (pre ++ [x']) (afterDBirth s pre t x) { n with seq := (n.seq + 1) % 256, nextId := n.nextId + 1 }
          (by simp [x', afterDBirth]) ho hb
          (by intro y hy; simpa [afterDBirth] using htodo y (by simp [hy]))
          (by simpa [x'] using hnd) hno hnb (by simp [hseq, afterDBirth])
      refine ⟨s', _, x' :: todo', (Runs.of_acts _ hrun).trans hr, ?_, by simpa using hdevs, ?_, by simp [huid, x'], by simp [hname, x'], ?_, ?_, ?_⟩
      · exact Frame.trans rfl hf
      · intro y hy
        simp only [List.mem_cons] at hy
        rcases hy with rfl | hy
        · simp [x', DevQuiet, hpc, hmq, hreg]
        · simpa [afterDBirth] using hq' y hy
      all_goals
        have hdb : Node.devBirth rb ts n (absDev x) =
            ({ n with seq := (n.seq + 1) % 256, nextId := n.nextId + 1 }, { absDev x with flag := true },
              [.dbirth x.name ((n.seq + 1) % 256) ts n.nextId]) := by
          rcases hrf with h | h <;> simp [Node.devBirth, absDev, hen, h, Node.nextSeq, hno, hnb]
        simp only [List.map_cons, Node.birthDevs, hdb]
      · simpa using h1
      · simp [h2, absDev, x', hen]
      · rw [projObs_append, h3]
        simp [projObs, List.filterMap_cons, projMsg, hseq]
    · have hskip : x.enabled = false ∨ ((if rb = true then Eon.BT.rebirth else Eon.BT.birth) = .birth ∧ x.flag = true) := by
        by_cases he : x.enabled = true
        · right
          have : ¬ (rb = true ∨ x.flag = false) := fun h => hdo ⟨he, h⟩
          simp only [not_or, Bool.not_eq_true, Bool.not_eq_false] at this
          simp [this.1, this.2]
        · left; simpa using he
      have hcontra : x.flag = true → False := by
        intro hf
        obtain ⟨he, hr⟩ := hfl hf
        exact hdo ⟨he, Or.inl hr⟩
      have hflag : x.flag = false := by cases h : x.flag <;> simp_all
      have hrun := dev_birth_skip s pre t x _ _ hpre hpc hnsq hskip hreg
      rw [← hd] at hrun
      let x' : Eon.Dev := { x with nsq := [] }
      obtain ⟨s', obs, todo', hr, hf, hdevs, hq', huid, hname, h1, h2, h3⟩ :=
        ih (pre ++ [x']) { s with devs := pre ++ x' :: t } n
          (by simp [x']) ho hb
          (by intro y hy; simpa using htodo y (by simp [hy]))
          (by simpa [x'] using hnd) hno hnb hseq
      refine ⟨s', _, x' :: todo', (Runs.of_acts _ hrun).trans hr, ?_, by simpa using hdevs, ?_, by simp [huid, x'], by simp [hname, x'], ?_, ?_, ?_⟩
      · exact Frame.trans rfl hf
      · intro y hy
        simp only [List.mem_cons] at hy
        rcases hy with rfl | hy
        · simp [x', DevQuiet, hpc, hmq, hreg, hhq, hflag]
        · simpa using hq' y hy
      all_goals
        have hdb : Node.devBirth rb ts n (absDev x) = (n, absDev x, []) := by
          rcases hskip with h | ⟨_, h⟩
          · simp [Node.devBirth, absDev, h]
          · exact absurd h (by simp [hflag])
        simp only [List.map_cons, Node.birthDevs, hdb]
      · simpa using h1
      · simp [h2, absDev, x']
      · simpa using h3

theorem pushAll_quiet (m : Eon.NS) (l : List Eon.Dev) (h : ∀ x ∈ l, DevQuiet x) :
    Eon.pushAll m l = l.map (fun d => { d with nsq := [m] }) := by
  unfold Eon.pushAll
  apply List.map_congr_left
  intro d hd
  obtain ⟨h1, h2, _, _, h5⟩ := h d hd
  simp [h1, h2, h5]

def btOf (rb : Bool) : Eon.BT := if rb then .rebirth else .birth

/-- the state after `node_birth` (NBIRTH accepted) and `birth_devices` -/
def afterNBirth (s : Eon.St) (rb : Bool) (fc : Option Nat) : Eon.St :=
  { s with birthed := true, seq := 0, epoch := s.epoch + 1, node := .idle, lastRebirthReq := fc.getD s.lastRebirthReq,
           calls := s.calls ++ [{ kind := .nbirth, seq := some 0, bd := some s.bdseq, res := some true, gOnline := s.online }],
           devs := s.devs.map (fun d => { d with nsq := [.birth (btOf rb) (s.epoch + 1)] }) }

theorem nodeBirth_steps (rb : Bool) (fc : Option Nat) (s : Eon.St)
    (hnode : s.node = .birthStart (btOf rb) fc) (hdq : ∀ x ∈ s.devs, DevQuiet x) :
    Eon.runActs s [.task .node .acc 0, .task .node .acc 0] =
      some (afterNBirth s rb fc, [.bNode, .call s.calls.length .nbirth none (some 0) (some s.bdseq) false .acc]) := by
  have hpush := pushAll_quiet (.birth (btOf rb) (s.epoch + 1)) s.devs hdq
  cases fc <;>
    simp [Eon.runActs, Eon.runAct, Eon.step, Eon.stepNode, hnode, Eon.nodeBirthStart, Eon.handOver, Eon.callRes, hpush,
      afterNBirth]

/-- the node task runs `node_birth` (NBIRTH accepted) and notifies the devices, which birth in list order -/
theorem birthCore (rb : Bool) (fc : Option Nat) (i ts : Nat) (s : Eon.St)
    (hnode : s.node = .birthStart (btOf rb) fc) (hon : s.online = true) (hdq : ∀ x ∈ s.devs, DevQuiet x)
    (hu : (s.devs.map (·.uid)).Nodup) (hfl : ∀ x ∈ s.devs, x.flag = true → x.enabled = true ∧ rb = true) :
    ∃ s' obs, Runs s s' obs ∧
      Frame { s with node := .idle, birthed := true, epoch := s.epoch + 1, lastRebirthReq := fc.getD s.lastRebirthReq } s' ∧
      (∀ x ∈ s'.devs, DevQuiet x ∧ (x.flag = true → x.enabled = true ∧ x.epoch = s.epoch + 1)) ∧
      s'.devs.map (·.uid) = s.devs.map (·.uid) ∧ s'.devs.map (·.name) = s.devs.map (·.name) ∧
      absNode (Node.nodeBirth rb ts (absNode i s)).1.nextId s' = (Node.nodeBirth rb ts (absNode i s)).1 ∧
      projObs obs = (Node.nodeBirth rb ts (absNode i s)).2.map projMsg := by
  have hrun := nodeBirth_steps rb fc s hnode hdq
  obtain ⟨s', obs, todo', hr, hf, hdevs, hq', huid, hname, h1, h2, h3⟩ :=
    birthPhase rb ts (s.devs.map (fun d => { d with nsq := [.birth (btOf rb) (s.epoch + 1)] })) [] (afterNBirth s rb fc)
      { absNode i s with birthed := true, seq := 0, nextId := i + 1 }
      (by simp [afterNBirth]) (by simp [afterNBirth, hon]) (by simp [afterNBirth])
      (by
        intro y hy
        simp only [List.mem_map] at hy
        obtain ⟨d, hd, rfl⟩ := hy
        obtain ⟨h1, h2, h3, h4, h5⟩ := hdq d hd
        simpa [afterNBirth, h1, h3, h4, h5, btOf] using hfl d hd)
      (by simpa [Function.comp_def] using hu) (by simp [absNode, hon]) rfl (by simp [afterNBirth])
  have hmap : (s.devs.map (fun d => { d with nsq := [Eon.NS.birth (btOf rb) (s.epoch + 1)] })).map absDev = s.devs.map absDev := by
    simp [Function.comp_def, absDev]
  rw [hmap] at h1 h2 h3
  simp only [List.nil_append] at hdevs
  refine ⟨s', _, (Runs.of_acts _ hrun).trans hr, ?_, ?_, ?_, ?_, ?_, ?_⟩
  · exact Frame.trans rfl hf
  · rw [hdevs]; simpa [afterNBirth] using hq'
  · rw [hdevs, huid]; simp [Function.comp_def]
  · rw [hdevs, hname]; simp [Function.comp_def]
  all_goals
    have hf' := hf
    simp only [Frame, rest, afterNBirth, Prod.mk.injEq] at hf'
    obtain ⟨hfo, hfb, hfbd, -⟩ := hf'
    simp only [Node.nodeBirth, absNode] at h1 h2 h3 ⊢
    generalize Node.birthDevs rb ts { online := s.online, birthed := true, seq := 0, bdseq := s.bdseq, devs := s.devs.map absDev, nextId := i + 1 } (s.devs.map absDev) = r at h1 h2 h3 ⊢
    obtain ⟨r1, r2, r3⟩ := r
    simp only at h1 h2 h3 ⊢
  · subst h2
    rw [h1]
    simp [hfo, hfb, hfbd, hdevs]
  · rw [projObs_append, h3]
    simp [projObs, List.filterMap_cons, projMsg]

/-! ### the operations -/

/-- the statement proved for every operation `op` of `Loop.Node`: from a quiescent well-formed LTS
state some schedule (stimulus + task steps, every client decision `.acc`) reaches a quiescent
well-formed state whose abstraction is the abstract successor and whose projected hand-overs are
the abstract messages -/
def Refines (s : Eon.St) (r : Node × List H) : Prop :=
  ∃ s' obs, Runs s s' obs ∧ Quiescent s' ∧ Wf s' ∧ absNode r.1.nextId s' = r.1 ∧ projObs obs = r.2

theorem pubNode_refines (i ts : Nat) (s : Eon.St) (hq : Quiescent s) (hw : Wf s) :
    Refines s ((Node.pubNode ts (absNode i s)).1, (Node.pubNode ts (absNode i s)).2.map projMsg) := by
  have hf := freshJ_fresh s
  generalize freshJ s = j at hf
  let u : Eon.UCall := { j := j, kind := .pub .node false 1 }
  have hfind := find_fresh s.ucalls u hf
  have hset := setUCall_fresh s.ucalls u { u with pc := .done } hf rfl
  have hc := hq.ctl
  have hdone : ∀ v ∈ s.ucalls ++ [{ u with pc := .done }], v.pc = .done := by
    intro v hv
    simp only [List.mem_append, List.mem_singleton] at hv
    rcases hv with hv | rfl
    · exact hc.ucalls v hv
    · rfl
  by_cases hg : s.online = true ∧ s.birthed = true
  · obtain ⟨ho, hb⟩ := hg
    cases hrun : Eon.runActs s [.stim (.pub j .node false 1), .task (.user j) .acc 0] with
    | none =>
      simp [Eon.runActs, Eon.runAct, Eon.applyStim, Eon.step, Eon.stepUser, hfind, u, Eon.nextSeq, Eon.nextSeqIn, ho, hb,
        Eon.handOver, Eon.callRes, Except.map] at hrun
    | some r =>
      obtain ⟨s', obs⟩ := r
      have h2 := hrun
      simp [Eon.runActs, Eon.runAct, Eon.applyStim, Eon.step, Eon.stepUser, hfind, u, Eon.nextSeq, Eon.nextSeqIn, ho, hb,
        Eon.handOver, Eon.callRes, Except.map, hset] at h2
      obtain ⟨rfl, rfl⟩ := h2
      refine ⟨_, _, Runs.of_acts _ hrun, ⟨⟨hc.inbox, hc.loop, hc.cs, hc.rebirthQ, hc.msgQ, hc.stop, hc.stopping, hc.node, hdone⟩, hq.devs⟩,
        ⟨⟨hw.cfg.cooldown, hw.cfg.cbPark, hw.cfg.oneshots⟩, hw.uids, hw.names, hw.flags, ?_, ?_⟩, ?_, ?_⟩
      · simp
      · rfl
      · simp [Node.pubNode, absNode, Node.nextSeq, ho, hb]
      · simp [Node.pubNode, absNode, Node.nextSeq, ho, hb, projObs, List.filterMap_cons, projMsg]
  · have hb : s.birthed = false := by
      cases h : s.birthed
      · rfl
      · exact absurd ⟨hw.bo ▸ h, h⟩ hg
    have ho : s.online = false := hw.bo ▸ hb
    cases hrun : Eon.runActs s [.stim (.pub j .node false 1), .task (.user j) .acc 0] with
    | none =>
      simp [Eon.runActs, Eon.runAct, Eon.applyStim, Eon.step, Eon.stepUser, hfind, u, Eon.nextSeq, Eon.nextSeqIn, ho, hb,
        Eon.handOver, Eon.callRes, Except.map] at hrun
    | some r =>
      obtain ⟨s', obs⟩ := r
      have h2 := hrun
      simp [Eon.runActs, Eon.runAct, Eon.applyStim, Eon.step, Eon.stepUser, hfind, u, Eon.nextSeq, Eon.nextSeqIn, ho, hb,
        Eon.handOver, Eon.callRes, Except.map, hset] at h2
      obtain ⟨rfl, rfl⟩ := h2
      refine ⟨_, _, Runs.of_acts _ hrun, ⟨⟨hc.inbox, hc.loop, hc.cs, hc.rebirthQ, hc.msgQ, hc.stop, hc.stopping, hc.node, hdone⟩, hq.devs⟩,
        ⟨⟨hw.cfg.cooldown, hw.cfg.cbPark, hw.cfg.oneshots⟩, hw.uids, hw.names, hw.flags, ?_, ?_⟩, ?_, ?_⟩
      · simpa [ho] using hw.offline ho
      · rfl
      · simp [Node.pubNode, absNode, Node.nextSeq, ho, hb]
      · simp [Node.pubNode, absNode, Node.nextSeq, ho, hb, projObs, List.filterMap_cons]

/-! ### locating a device -/

theorem findDev_quiet (d : Nat) (l : List Eon.Dev) (h : ∀ x ∈ l, DevQuiet x) :
    Eon.findDev d l = l.find? (fun x => x.name == d) := by
  have hc : l.find? (fun x => x.name == d && x.registered && x.pc != .done) = l.find? (fun x => x.name == d) := by
    induction l with
    | nil => rfl
    | cons y t ih =>
      obtain ⟨h1, _, _, _, h5⟩ := h y (by simp)
      simp only [List.find?_cons, h1, h5]
      rw [ih (fun x hx => h x (by simp [hx]))]
      have : (Eon.DevPc.idle != Eon.DevPc.done) = true := by decide
      simp [this]
  unfold Eon.findDev
  rw [hc]
  cases hf : l.find? (fun x => x.name == d) with
  | some x => rfl
  | none =>
    simp only
    rw [List.find?_eq_none] at hf ⊢
    intro x hx
    have := hf x (List.mem_reverse.mp hx)
    simp_all

theorem find_split (l : List Eon.Dev) (d : Nat) (x : Eon.Dev) (h : l.find? (fun x => x.name == d) = some x) :
    x.name = d ∧ ∃ pre post, l = pre ++ x :: post ∧ ∀ a ∈ pre, a.name ≠ d := by
  rw [List.find?_eq_some_iff_append] at h
  obtain ⟨hx, pre, post, hl, hpre⟩ := h
  refine ⟨by simpa using hx, pre, post, hl, ?_⟩
  intro a ha
  simpa using hpre a ha

theorem loop_findDev (i : Nat) (s : Eon.St) (d : Nat) :
    (absNode i s).findDev d = (s.devs.find? (fun x => x.name == d)).map absDev := by
  simp [Node.findDev, absNode, List.find?_map, Function.comp_def, absDev]

theorem loop_setDev_mid (pre post : List Dev) (y z : Dev) (h : ∀ a ∈ pre, a.name ≠ y.name) (hz : z.name = y.name) :
    Node.setDev y (pre ++ z :: post) = pre ++ y :: post := by
  induction pre with
  | nil => simp [Node.setDev, hz]
  | cons w t ih =>
    have hw : (w.name == y.name) = false := by simpa using h w (by simp)
    simp only [List.cons_append, Node.setDev, hw]
    simp [ih (fun a ha => h a (by simp [ha]))]

theorem uid_pre_of_nodup (pre post : List Eon.Dev) (x : Eon.Dev) (h : ((pre ++ x :: post).map (·.uid)).Nodup) :
    ∀ a ∈ pre, a.uid ≠ x.uid := by
  intro a ha
  simp only [List.map_append, List.map_cons, List.nodup_append, List.nodup_cons, List.mem_map, List.mem_cons] at h
  exact h.2.2 a.uid ⟨a, ha, rfl⟩ x.uid (Or.inl rfl)

/-- one device record replaced, everything else but `seq` / `calls` unchanged: quiescence and
well-formedness carry over -/
theorem update_ok (s s' : Eon.St) (pre post : List Eon.Dev) (x x' : Eon.Dev)
    (hd : s.devs = pre ++ x :: post) (hd' : s'.devs = pre ++ x' :: post) (hf : Frame s s')
    (hq : Quiescent s) (hw : Wf s) (hu : x'.uid = x.uid) (hn : x'.name = x.name) (hxq : DevQuiet x')
    (hfl : x'.flag = true → x'.enabled = true ∧ x'.epoch = s.epoch) (hoff : s.online = false → x'.flag = false) :
    Quiescent s' ∧ Wf s' := by
  have hf' := hf
  simp only [Frame, rest, Prod.mk.injEq] at hf'
  obtain ⟨hfo, hfb, _, _, _, hfe, -⟩ := hf'
  have hmem : ∀ y ∈ s'.devs, y = x' ∨ y ∈ s.devs := by
    intro y hy
    rw [hd'] at hy
    rw [hd]
    simp only [List.mem_append, List.mem_cons] at hy ⊢
    rcases hy with hy | rfl | hy
    · exact .inr (.inl hy)
    · exact .inl rfl
    · exact .inr (.inr (.inr hy))
  refine ⟨⟨Ctl.frame hf hq.ctl, ?_⟩, ⟨Cfg.frame hf hw.cfg, ?_, ?_, ?_, ?_, ?_⟩⟩
  · intro y hy
    rcases hmem y hy with rfl | hy
    · exact hxq
    · exact hq.devs y hy
  · have := hw.uids
    rw [hd] at this
    rw [hd']
    simpa [hu] using this
  · have := hw.names
    rw [hd] at this
    rw [hd']
    simpa [hn] using this
  · intro y hy hyf
    rw [hfe]
    rcases hmem y hy with rfl | hy
    · exact hfl hyf
    · exact hw.flags y hy hyf
  · intro ho y hy
    rw [hfo] at ho
    rcases hmem y hy with rfl | hy
    · exact hoff ho
    · exact hw.offline ho y hy
  · rw [hfo, hfb]; exact hw.bo

/-! ### enable / disable / publish on a device: the LTS runs -/

theorem run_enable_do (s0 : Eon.St) (pre post : List Eon.Dev) (x : Eon.Dev) (d : Nat)
    (hpre : ∀ a ∈ pre, a.uid ≠ x.uid) (hfd : Eon.findDev d (pre ++ x :: post) = some x)
    (hpc : x.pc = .idle) (hnsq : x.nsq = []) (hhq : x.hq = []) (hreg : x.registered = true)
    (hfl : x.flag = false) (ho : s0.online = true) (hb : s0.birthed = true) :
    Eon.runActs { s0 with devs := pre ++ x :: post }
        [.stim (.enable d), .task (.dev x.uid) .acc 0, .task (.dev x.uid) .acc 0] =
      some (afterDBirth s0 pre post x,
            [.bDev x.name, .call s0.calls.length .dbirth (some x.name) (some ((s0.seq + 1) % 256)) none false .acc]) := by
  have e1 := fun z hz => findUid_mid pre post z x.uid hpre hz
  have e2 := fun y z hz hy => setDev_mid pre post y z x.uid hpre hz hy
  simp [Eon.runActs, Eon.runAct, Eon.applyStim, hfd, Eon.step, Eon.stepDev, e1, e2, hpc, hnsq, hhq, Eon.devBirth, hfl, hreg,
    Eon.nextSeqIn, ho, hb, Eon.handOver, Eon.callRes, afterDBirth]

theorem run_enable_skip (s0 : Eon.St) (pre post : List Eon.Dev) (x : Eon.Dev) (d : Nat)
    (hpre : ∀ a ∈ pre, a.uid ≠ x.uid) (hfd : Eon.findDev d (pre ++ x :: post) = some x)
    (hpc : x.pc = .idle) (hnsq : x.nsq = []) (hhq : x.hq = []) (hreg : x.registered = true)
    (hskip : x.flag = true ∨ (s0.online = false ∧ s0.birthed = false)) :
    Eon.runActs { s0 with devs := pre ++ x :: post } [.stim (.enable d), .task (.dev x.uid) .acc 0] =
      some ({ s0 with devs := pre ++ { x with hq := [], enabled := true } :: post }, []) := by
  have e1 := fun z hz => findUid_mid pre post z x.uid hpre hz
  have e2 := fun y z hz hy => setDev_mid pre post y z x.uid hpre hz hy
  rcases hskip with h | ⟨h1, h2⟩
  · simp [Eon.runActs, Eon.runAct, Eon.applyStim, hfd, Eon.step, Eon.stepDev, e1, e2, hpc, hnsq, hhq, Eon.devBirth, h, hreg]
  · cases hf : x.flag <;>
      simp [Eon.runActs, Eon.runAct, Eon.applyStim, hfd, Eon.step, Eon.stepDev, e1, e2, hpc, hnsq, hhq, Eon.devBirth, hf, hreg,
        Eon.nextSeqIn, h1, h2]

/-- the state after device `x` has handed over its DDEATH -/
def afterDDeath (s0 : Eon.St) (pre post : List Eon.Dev) (x : Eon.Dev) : Eon.St :=
  { s0 with seq := (s0.seq + 1) % 256,
            calls := s0.calls ++ [{ kind := .ddeath, dev := some x.name, seq := some ((s0.seq + 1) % 256), res := some true, gOnline := true, gBirthed := true, gFlag := true }],
            devs := pre ++ { x with hq := [], enabled := false, flag := false } :: post }

theorem run_disable_do (s0 : Eon.St) (pre post : List Eon.Dev) (x : Eon.Dev) (d : Nat)
    (hpre : ∀ a ∈ pre, a.uid ≠ x.uid) (hfd : Eon.findDev d (pre ++ x :: post) = some x)
    (hpc : x.pc = .idle) (hnsq : x.nsq = []) (hhq : x.hq = [])
    (hfl : x.flag = true) (hep : x.epoch = s0.epoch) (ho : s0.online = true) (hb : s0.birthed = true) :
    Eon.runActs { s0 with devs := pre ++ x :: post } [.stim (.disable d), .task (.dev x.uid) .acc 0] =
      some (afterDDeath s0 pre post x,
            [.call s0.calls.length .ddeath (some x.name) (some ((s0.seq + 1) % 256)) none false .acc]) := by
  have e1 := fun z hz => findUid_mid pre post z x.uid hpre hz
  have e2 := fun y z hz hy => setDev_mid pre post y z x.uid hpre hz hy
  simp [Eon.runActs, Eon.runAct, Eon.applyStim, hfd, Eon.step, Eon.stepDev, e1, e2, hpc, hnsq, hhq, Eon.devDeath, hfl, hep,
    Eon.nextSeqIn, ho, hb, Eon.handOver, Eon.callRes, afterDDeath]

theorem run_disable_skip (s0 : Eon.St) (pre post : List Eon.Dev) (x : Eon.Dev) (d : Nat)
    (hpre : ∀ a ∈ pre, a.uid ≠ x.uid) (hfd : Eon.findDev d (pre ++ x :: post) = some x)
    (hpc : x.pc = .idle) (hnsq : x.nsq = []) (hhq : x.hq = [])
    (hskip : x.flag = false ∨ (s0.online = false ∧ s0.birthed = false)) :
    Eon.runActs { s0 with devs := pre ++ x :: post } [.stim (.disable d), .task (.dev x.uid) .acc 0] =
      some ({ s0 with devs := pre ++ { x with hq := [], enabled := false, flag := false } :: post }, []) := by
  have e1 := fun z hz => findUid_mid pre post z x.uid hpre hz
  have e2 := fun y z hz hy => setDev_mid pre post y z x.uid hpre hz hy
  rcases hskip with h | ⟨h1, h2⟩
  · simp [Eon.runActs, Eon.runAct, Eon.applyStim, hfd, Eon.step, Eon.stepDev, e1, e2, hpc, hnsq, hhq, Eon.devDeath, h]
  · cases hf : x.flag <;>
      simp [Eon.runActs, Eon.runAct, Eon.applyStim, hfd, Eon.step, Eon.stepDev, e1, e2, hpc, hnsq, hhq, Eon.devDeath, hf,
        Eon.nextSeqIn, h1, h2]

theorem refines_noop (s : Eon.St) (hq : Quiescent s) (hw : Wf s) (i : Nat) (acts : List Eon.Act)
    (h : Eon.runActs s acts = some (s, [])) (hok : acts.all okAct = true := by rfl) : Refines s (absNode i s, []) :=
  ⟨s, [], ⟨acts, hok, h⟩, hq, hw, rfl, rfl⟩

theorem absNode_devs_mid (i : Nat) (s : Eon.St) (pre post : List Eon.Dev) (x : Eon.Dev) (hd : s.devs = pre ++ x :: post) :
    (absNode i s).devs = pre.map absDev ++ absDev x :: post.map absDev := by
  simp [absNode, hd]

theorem loop_setDev_abs (pre post : List Eon.Dev) (x : Eon.Dev) (y : Dev) (hpn : ∀ a ∈ pre, a.name ≠ x.name)
    (hy : y.name = x.name) :
    Node.setDev y ((pre ++ x :: post).map absDev) = pre.map absDev ++ y :: post.map absDev := by
  rw [List.map_append, List.map_cons]
  apply loop_setDev_mid
  · intro a ha
    simp only [List.mem_map] at ha
    obtain ⟨b, hb, rfl⟩ := ha
    simpa [absDev, hy] using hpn b hb
  · simp [absDev, hy]

theorem enable_refines (d i ts : Nat) (s : Eon.St) (hq : Quiescent s) (hw : Wf s) :
    Refines s ((Node.enable d ts (absNode i s)).1, (Node.enable d ts (absNode i s)).2.map projMsg) := by
  have hfdq := findDev_quiet d s.devs hq.devs
  unfold Node.enable
  rw [loop_findDev]
  cases hfind : s.devs.find? (fun x => x.name == d) with
  | none =>
    rw [hfind] at hfdq
    exact refines_noop s hq hw i [.stim (.enable d)] (by simp [Eon.runActs, Eon.runAct, Eon.applyStim, hfdq])
  | some x =>
    rw [hfind] at hfdq
    obtain ⟨hname, pre, post, hd, hpn⟩ := find_split s.devs d x hfind
    have hpre := uid_pre_of_nodup pre post x (hd ▸ hw.uids)
    obtain ⟨hpc, hnsq, hhq, hmq, hreg⟩ := hq.devs x (by simp [hd])
    have hfd : Eon.findDev d (pre ++ x :: post) = some x := hd ▸ hfdq
    have hdevs := absNode_devs_mid i s pre post x hd
    have hpn' : ∀ a ∈ pre.map absDev, a.name ≠ x.name := by
      intro a ha
      simp only [List.mem_map] at ha
      obtain ⟨b, hb, rfl⟩ := ha
      simpa [absDev, hname] using hpn b hb
    simp only [Option.map_some]
    by_cases hdo : x.flag = false ∧ s.online = true
    · obtain ⟨hfl, ho⟩ := hdo
      have hb : s.birthed = true := hw.bo ▸ ho
      have hrun := run_enable_do s pre post x d hpre hfd hpc hnsq hhq hreg hfl ho hb
      rw [← hd] at hrun
      obtain ⟨hq', hw'⟩ := update_ok s (afterDBirth s pre post x) pre post x _ hd rfl rfl hq hw rfl rfl
        (by simp [DevQuiet, hpc, hmq, hreg]) (by simp) (by simp [ho])
      have hpnx : ∀ a ∈ pre, a.name ≠ x.name := hname ▸ hpn
      refine ⟨_, _, Runs.of_acts _ hrun, hq', hw', ?_, ?_⟩
      · simp [Node.devBirth, absDev, hfl, Node.nextSeq, absNode, ho, hb]
        rw [hd, loop_setDev_abs pre post x _ hpnx rfl]
        simp [afterDBirth, ho, hb, absDev]
      · simp [Node.devBirth, absDev, hfl, Node.nextSeq, absNode, ho, hb, projObs, List.filterMap_cons, projMsg]
    · have hskip : x.flag = true ∨ (s.online = false ∧ s.birthed = false) := by
        cases hf : x.flag
        · right
          have : s.online = false := by
            cases h : s.online
            · rfl
            · exact absurd ⟨hf, h⟩ hdo
          exact ⟨this, hw.bo ▸ this⟩
        · left; rfl
      have hpnx : ∀ a ∈ pre, a.name ≠ x.name := hname ▸ hpn
      have hrun := run_enable_skip s pre post x d hpre hfd hpc hnsq hhq hreg hskip
      rw [← hd] at hrun
      obtain ⟨hq', hw'⟩ := update_ok s { s with devs := pre ++ { x with hq := [], enabled := true } :: post } pre post x _ hd rfl rfl hq hw rfl rfl
        (by simp [DevQuiet, hpc, hmq, hreg, hnsq])
        (by intro hf; exact ⟨rfl, (hw.flags x (by simp [hd]) hf).2⟩)
        (by intro ho; exact hw.offline ho x (by simp [hd]))
      refine ⟨_, _, Runs.of_acts _ hrun, hq', hw', ?_, ?_⟩
      · rcases hskip with hf | ⟨ho, hb⟩
        · simp [Node.devBirth, absDev, hf, absNode]
          rw [hd, loop_setDev_abs pre post x _ hpnx rfl]
        · cases hf : x.flag
          · simp [Node.devBirth, absDev, hf, absNode, Node.nextSeq, ho, hb]
            rw [hd, loop_setDev_abs pre post x _ hpnx rfl]
          · simp [Node.devBirth, absDev, hf, absNode]
            rw [hd, loop_setDev_abs pre post x _ hpnx rfl]
      · rcases hskip with hf | ⟨ho, hb⟩
        · simp [Node.devBirth, absDev, hf, absNode]
        · cases hf : x.flag <;> simp [Node.devBirth, absDev, hf, absNode, Node.nextSeq, ho, hb]

theorem disable_refines (d i ts : Nat) (s : Eon.St) (hq : Quiescent s) (hw : Wf s) :
    Refines s ((Node.disable d ts (absNode i s)).1, (Node.disable d ts (absNode i s)).2.map projMsg) := by
  have hfdq := findDev_quiet d s.devs hq.devs
  unfold Node.disable
  rw [loop_findDev]
  cases hfind : s.devs.find? (fun x => x.name == d) with
  | none =>
    rw [hfind] at hfdq
    exact refines_noop s hq hw i [.stim (.disable d)] (by simp [Eon.runActs, Eon.runAct, Eon.applyStim, hfdq])
  | some x =>
    rw [hfind] at hfdq
    obtain ⟨hname, pre, post, hd, hpn⟩ := find_split s.devs d x hfind
    have hpre := uid_pre_of_nodup pre post x (hd ▸ hw.uids)
    obtain ⟨hpc, hnsq, hhq, hmq, hreg⟩ := hq.devs x (by simp [hd])
    have hfd : Eon.findDev d (pre ++ x :: post) = some x := hd ▸ hfdq
    have hpnx : ∀ a ∈ pre, a.name ≠ x.name := hname ▸ hpn
    simp only [Option.map_some]
    by_cases hdo : x.flag = true ∧ s.online = true
    · obtain ⟨hfl, ho⟩ := hdo
      have hb : s.birthed = true := hw.bo ▸ ho
      have hep := (hw.flags x (by simp [hd]) hfl).2
      have hrun := run_disable_do s pre post x d hpre hfd hpc hnsq hhq hfl hep ho hb
      rw [← hd] at hrun
      obtain ⟨hq', hw'⟩ := update_ok s (afterDDeath s pre post x) pre post x _ hd rfl rfl hq hw rfl rfl
        (by simp [DevQuiet, hpc, hmq, hreg, hnsq]) (by simp) (by simp)
      refine ⟨_, _, Runs.of_acts _ hrun, hq', hw', ?_, ?_⟩
      · simp [absDev, hfl, Node.nextSeq, absNode, ho, hb]
        rw [hd, loop_setDev_abs pre post x _ hpnx rfl]
        simp [afterDDeath, ho, hb, absDev]
      · simp [absDev, hfl, Node.nextSeq, absNode, ho, hb, projObs, List.filterMap_cons, projMsg, hname]
    · have hskip : x.flag = false ∨ (s.online = false ∧ s.birthed = false) := by
        cases hf : x.flag
        · left; rfl
        · right
          have : s.online = false := by
            cases h : s.online
            · rfl
            · exact absurd ⟨hf, h⟩ hdo
          exact ⟨this, hw.bo ▸ this⟩
      have hrun := run_disable_skip s pre post x d hpre hfd hpc hnsq hhq hskip
      rw [← hd] at hrun
      obtain ⟨hq', hw'⟩ := update_ok s { s with devs := pre ++ { x with hq := [], enabled := false, flag := false } :: post } pre post x _ hd rfl rfl hq hw rfl rfl
        (by simp [DevQuiet, hpc, hmq, hreg, hnsq]) (by simp) (by simp)
      refine ⟨_, _, Runs.of_acts _ hrun, hq', hw', ?_, ?_⟩
      · rcases hskip with hf | ⟨ho, hb⟩
        · simp [absDev, hf, absNode]
          rw [hd, loop_setDev_abs pre post x _ hpnx rfl]
        · cases hf : x.flag
          · simp [absDev, hf, absNode]
            rw [hd, loop_setDev_abs pre post x _ hpnx rfl]
          · simp [absDev, hf, absNode, Node.nextSeq, ho, hb]
            rw [hd, loop_setDev_abs pre post x _ hpnx rfl]
      · rcases hskip with hf | ⟨ho, hb⟩
        · simp [absDev, hf, absNode]
        · cases hf : x.flag <;> simp [absDev, hf, absNode, Node.nextSeq, ho, hb]

theorem pubDev_refines (d i ts : Nat) (s : Eon.St) (hq : Quiescent s) (hw : Wf s) :
    Refines s ((Node.pubDev d ts (absNode i s)).1, (Node.pubDev d ts (absNode i s)).2.map projMsg) := by
  have hf := freshJ_fresh s
  generalize freshJ s = j at hf
  let u : Eon.UCall := { j := j, kind := .pub (.dev d) false 1 }
  have hfind := find_fresh s.ucalls u hf
  have hset := setUCall_fresh s.ucalls u { u with pc := .done } hf rfl
  have hc := hq.ctl
  have hdone : ∀ v ∈ s.ucalls ++ [{ u with pc := .done }], v.pc = .done := by
    intro v hv
    simp only [List.mem_append, List.mem_singleton] at hv
    rcases hv with hv | rfl
    · exact hc.ucalls v hv
    · rfl
  have hfdq := findDev_quiet d s.devs hq.devs
  unfold Node.pubDev
  rw [loop_findDev]
  -- does the publish go through?
  by_cases hgo : ∃ x, s.devs.find? (fun x => x.name == d) = some x ∧ x.flag = true ∧ s.online = true
  · obtain ⟨x, hfx, hfl, ho⟩ := hgo
    have hb : s.birthed = true := hw.bo ▸ ho
    rw [hfx] at hfdq
    have hxm : x ∈ s.devs := List.mem_of_find?_eq_some hfx
    have hep := (hw.flags x hxm hfl).2
    cases hrun : Eon.runActs s [.stim (.pub j (.dev d) false 1), .task (.user j) .acc 0] with
    | none =>
      simp [Eon.runActs, Eon.runAct, Eon.applyStim, Eon.step, Eon.stepUser, hfind, u, hfdq, hfl, hep, Eon.nextSeqIn, ho, hb,
        Eon.handOver, Eon.callRes, Except.map] at hrun
    | some r =>
      obtain ⟨s', obs⟩ := r
      have h2 := hrun
      simp [Eon.runActs, Eon.runAct, Eon.applyStim, Eon.step, Eon.stepUser, hfind, u, hfdq, hfl, hep, Eon.nextSeqIn, ho, hb,
        Eon.handOver, Eon.callRes, Except.map, hset] at h2
      obtain ⟨rfl, rfl⟩ := h2
      refine ⟨_, _, Runs.of_acts _ hrun, ⟨⟨hc.inbox, hc.loop, hc.cs, hc.rebirthQ, hc.msgQ, hc.stop, hc.stopping, hc.node, hdone⟩, hq.devs⟩,
        ⟨⟨hw.cfg.cooldown, hw.cfg.cbPark, hw.cfg.oneshots⟩, hw.uids, hw.names, hw.flags, ?_, ?_⟩, ?_, ?_⟩
      · simp
      · rfl
      · simp [hfx, absDev, hfl, absNode, Node.nextSeq, ho, hb]
      · simp [hfx, absDev, hfl, absNode, Node.nextSeq, ho, hb, projObs, List.filterMap_cons, projMsg]
  · -- no: unknown device, device not birthed, or node offline
    have hrunE : ∃ e, Eon.runActs s [.stim (.pub j (.dev d) false 1), .task (.user j) .acc 0] =
        some ({ s with ucalls := s.ucalls ++ [{ u with pc := .done }] }, [.ures j e]) := by
      cases hfx : s.devs.find? (fun x => x.name == d) with
      | none =>
        rw [hfx] at hfdq
        exact ⟨.unbirthed, by
          simp [Eon.runActs, Eon.runAct, Eon.applyStim, Eon.step, Eon.stepUser, hfind, u, hfdq, hset]⟩
      | some x =>
        rw [hfx] at hfdq
        cases hfl : x.flag with
        | false =>
          exact ⟨.unbirthed, by
            simp [Eon.runActs, Eon.runAct, Eon.applyStim, Eon.step, Eon.stepUser, hfind, u, hfdq, hfl, hset]⟩
        | true =>
          have ho : s.online = false := by
            cases h : s.online
            · rfl
            · exact absurd ⟨x, hfx, hfl, h⟩ hgo
          exact ⟨.offline, by
            simp [Eon.runActs, Eon.runAct, Eon.applyStim, Eon.step, Eon.stepUser, hfind, u, hfdq, hfl, hset, Eon.nextSeqIn, ho,
              Except.map]⟩
    obtain ⟨e, hrun⟩ := hrunE
    refine ⟨_, _, Runs.of_acts _ hrun, ⟨⟨hc.inbox, hc.loop, hc.cs, hc.rebirthQ, hc.msgQ, hc.stop, hc.stopping, hc.node, hdone⟩, hq.devs⟩,
      ⟨⟨hw.cfg.cooldown, hw.cfg.cbPark, hw.cfg.oneshots⟩, hw.uids, hw.names, hw.flags, hw.offline, hw.bo⟩, ?_, ?_⟩
    all_goals
      cases hfx : s.devs.find? (fun x => x.name == d) with
      | none => simp [absNode, projObs, List.filterMap_cons]
      | some x =>
        cases hfl : x.flag with
        | false => simp [absNode, absDev, hfl, projObs, List.filterMap_cons]
        | true =>
          have ho : s.online = false := by
            cases h : s.online
            · rfl
            · exact absurd ⟨x, hfx, hfl, h⟩ hgo
          simp [absNode, absDev, hfl, Node.nextSeq, ho, projObs, List.filterMap_cons]

/-! ### offline -/

theorem dev_death_step (s0 : Eon.St) (pre post : List Eon.Dev) (x : Eon.Dev)
    (hpre : ∀ a ∈ pre, a.uid ≠ x.uid) (hpc : x.pc = .idle) (hnsq : x.nsq = [.death]) :
    Eon.runActs { s0 with devs := pre ++ x :: post } [.task (.dev x.uid) .acc 0] =
      some ({ s0 with devs := pre ++ { x with nsq := [], flag := false } :: post }, []) := by
  have e1 := fun z hz => findUid_mid pre post z x.uid hpre hz
  have e2 := fun y z hz hy => setDev_mid pre post y z x.uid hpre hz hy
  cases hf : x.flag <;>
    simp [Eon.runActs, Eon.runAct, Eon.step, Eon.stepDev, e1, e2, hpc, hnsq, Eon.devDeath, hf]

theorem deathPhase : ∀ (todo pre : List Eon.Dev) (s : Eon.St),
    s.devs = pre ++ todo → (∀ x ∈ todo, x.pc = .idle ∧ x.nsq = [.death]) → ((pre ++ todo).map (·.uid)).Nodup →
    ∃ s', Runs s s' [] ∧ Frame s s' ∧ s'.seq = s.seq ∧
      s'.devs = pre ++ todo.map (fun x => { x with nsq := [], flag := false }) := by
  intro todo
  induction todo with
  | nil => intro pre s hd _ _; exact ⟨s, Runs.refl s, Frame.refl s, rfl, by simpa using hd⟩
  | cons x t ih =>
    intro pre s hd htodo hnd
    obtain ⟨hpc, hnsq⟩ := htodo x (by simp)
    have hpre := uid_pre_of_nodup pre t x hnd
    have hrun := dev_death_step s pre t x hpre hpc hnsq
    rw [← hd] at hrun
    obtain ⟨s', hr, hf, hseq, hdevs⟩ :=
      ih (pre ++ [{ x with nsq := [], flag := false }]) { s with devs := pre ++ { x with nsq := [], flag := false } :: t }
        (by simp) (fun y hy => htodo y (by simp [hy])) (by simpa using hnd)
    refine ⟨s', ?_, Frame.trans rfl hf, by simpa using hseq, by simpa using hdevs⟩
    simpa using (Runs.of_acts _ hrun).trans hr

theorem reply_fresh (l : List (Nat × Option Nat)) (o : Nat) (r : Option Nat) (h : ∀ p ∈ l, p.1 < o) :
    (l ++ [(o, r)]).find? (fun p => p.1 == o) = some (o, r) := by
  induction l with
  | nil => simp
  | cons y t ih =>
    have hy : (y.1 == o) = false := by
      have := h y (by simp)
      simp; omega
    simp only [List.cons_append, List.find?_cons, hy]
    exact ih (fun p hp => h p (by simp [hp]))

/-- the state after the connection loss has been processed by the event loop and the node task
(new will registered, devices notified) -/
def afterOffline (s : Eon.St) : Eon.St :=
  { s with online := false, birthed := false, bdseq := (s.bdseq + 1) % 256, will := some ((s.bdseq + 1) % 256),
           nextOneshot := s.nextOneshot + 1, oneshots := s.oneshots ++ [(s.nextOneshot, some ((s.bdseq + 1) % 256))],
           devs := s.devs.map (fun d => { d with nsq := [.death] }) }

theorem offline_steps (s : Eon.St) (hq : Quiescent s) (hw : Wf s) (ho : s.online = true) :
    Eon.runActs s [.stim (.ev .offline), .task .loop .acc 0, .task .node .acc 0, .task .loop .acc 0, .task .loop .acc 0] =
      some (afterOffline s, [.polled .offline, .will ((s.bdseq + 1) % 256), .poll]) := by
  have hc := hq.ctl
  have hrep := fun r => reply_fresh s.oneshots s.nextOneshot r hw.cfg.oneshots
  have hpush := pushAll_quiet .death s.devs hq.devs
  simp [Eon.runActs, Eon.runAct, Eon.applyStim, Eon.step, Eon.stepLoop, Eon.stepNode, Eon.loopHandle, Eon.newOneshot, Eon.reply?,
    hc.inbox, hc.loop, hc.cs, hc.stop, hc.node, ho, hrep, Eon.Ev.name, hpush, afterOffline]

/-- `goOffline`, with the new will (if any) as the only hand-over -/
def offlineOut (n : Node) : Node × List H :=
  (n.goOffline.1, match n.goOffline.2 with | some bd => [.will bd] | none => [])

theorem offline_refines (i : Nat) (s : Eon.St) (hq : Quiescent s) (hw : Wf s) :
    Refines s (offlineOut (absNode i s)) := by
  have hc := hq.ctl
  have hrep := fun r => reply_fresh s.oneshots s.nextOneshot r hw.cfg.oneshots
  have hone : ∀ r, ∀ p ∈ s.oneshots ++ [(s.nextOneshot, r)], p.1 < s.nextOneshot + 1 := by
    intro r p hp
    simp only [List.mem_append, List.mem_singleton] at hp
    rcases hp with hp | rfl
    · have := hw.cfg.oneshots p hp; omega
    · simp
  cases ho : s.online with
  | false =>
    have hb : s.birthed = false := hw.bo ▸ ho
    cases hrun : Eon.runActs s [.stim (.ev .offline), .task .loop .acc 0, .task .node .acc 0, .task .loop .acc 0, .task .loop .acc 0] with
    | none =>
      simp [Eon.runActs, Eon.runAct, Eon.applyStim, Eon.step, Eon.stepLoop, Eon.stepNode, Eon.loopHandle, Eon.newOneshot, Eon.reply?,
        hc.inbox, hc.loop, hc.cs, hc.stop, hc.node, ho, hrep, Eon.Ev.name] at hrun
    | some r =>
      obtain ⟨s', obs⟩ := r
      have h2 := hrun
      simp [Eon.runActs, Eon.runAct, Eon.applyStim, Eon.step, Eon.stepLoop, Eon.stepNode, Eon.loopHandle, Eon.newOneshot, Eon.reply?,
        hc.inbox, hc.loop, hc.cs, hc.stop, hc.node, ho, hrep, Eon.Ev.name] at h2
      obtain ⟨rfl, rfl⟩ := h2
      refine ⟨_, _, Runs.of_acts _ hrun, ⟨⟨rfl, rfl, rfl, hc.rebirthQ, hc.msgQ, rfl, hc.stopping, rfl, hc.ucalls⟩, hq.devs⟩,
        ⟨⟨hw.cfg.cooldown, hw.cfg.cbPark, hone none⟩, hw.uids, hw.names, hw.flags, ?_, ?_⟩, ?_, ?_⟩
      · intro _; exact hw.offline ho
      · exact hb
      · simp [offlineOut, Node.goOffline, absNode, ho, hb]
      · simp [offlineOut, Node.goOffline, absNode, ho, projObs, List.filterMap_cons]
  | true =>
    have hb : s.birthed = true := hw.bo ▸ ho
    have hrun := offline_steps s hq hw ho
    obtain ⟨s', hr, hf, hseq, hdevs⟩ := deathPhase (s.devs.map (fun d => { d with nsq := [.death] })) [] (afterOffline s) rfl
      (by
        intro y hy
        simp only [List.mem_map] at hy
        obtain ⟨z, hz, rfl⟩ := hy
        exact ⟨(hq.devs z hz).1, rfl⟩)
      (by simpa [Function.comp_def] using hw.uids)
    have hf' := hf
    simp only [Frame, rest, Prod.mk.injEq, afterOffline] at hf'
    obtain ⟨hfo, hfb, hfbd, -⟩ := hf'
    simp only [List.nil_append, List.map_map, Function.comp_def] at hdevs
    have hmem : ∀ y ∈ s'.devs, ∃ z ∈ s.devs, y = { z with nsq := [], flag := false } := by
      intro y hy
      rw [hdevs] at hy
      simp only [List.mem_map] at hy
      obtain ⟨z, hz, rfl⟩ := hy
      exact ⟨z, hz, rfl⟩
    refine ⟨s', _, (Runs.of_acts _ hrun).trans hr,
      ⟨Ctl.frame hf ⟨hc.inbox, hc.loop, hc.cs, hc.rebirthQ, hc.msgQ, hc.stop, hc.stopping, hc.node, hc.ucalls⟩, ?_⟩,
      ⟨Cfg.frame hf ⟨hw.cfg.cooldown, hw.cfg.cbPark, hone _⟩, ?_, ?_, ?_, ?_, ?_⟩, ?_, ?_⟩
    · intro y hy
      obtain ⟨z, hz, rfl⟩ := hmem y hy
      obtain ⟨h1, h2, h3, h4, h5⟩ := hq.devs z hz
      exact ⟨h1, rfl, h3, h4, h5⟩
    · rw [hdevs]; simpa [Function.comp_def] using hw.uids
    · rw [hdevs]; simpa [Function.comp_def] using hw.names
    · intro y hy hyf
      obtain ⟨z, hz, rfl⟩ := hmem y hy
      simp at hyf
    · intro _ y hy
      obtain ⟨z, hz, rfl⟩ := hmem y hy
      rfl
    · rw [hfo, hfb]
    · simp [offlineOut, Node.goOffline, absNode, ho, hfo, hfb, hfbd, hseq, hdevs, Function.comp_def, absDev, afterOffline]
    · simp [offlineOut, Node.goOffline, absNode, ho, projObs, List.filterMap_cons]

/-! ### online / rebirth / ncmd -/

theorem birth_finish (s1 s' : Eon.St) (fc : Option Nat)
    (hf : Frame { s1 with node := .idle, birthed := true, epoch := s1.epoch + 1, lastRebirthReq := fc.getD s1.lastRebirthReq } s')
    (hctl : Ctl { s1 with node := .idle }) (hcfg : Cfg s1) (hon : s1.online = true)
    (hdev : ∀ x ∈ s'.devs, DevQuiet x ∧ (x.flag = true → x.enabled = true ∧ x.epoch = s1.epoch + 1))
    (huid : s'.devs.map (·.uid) = s1.devs.map (·.uid)) (hname : s'.devs.map (·.name) = s1.devs.map (·.name))
    (hu : (s1.devs.map (·.uid)).Nodup) (hn : (s1.devs.map (·.name)).Nodup) : Quiescent s' ∧ Wf s' := by
  have hf' := hf
  simp only [Frame, rest, Prod.mk.injEq] at hf'
  obtain ⟨hfo, hfb, _, _, _, hfe, -⟩ := hf'
  refine ⟨⟨Ctl.frame hf ⟨hctl.inbox, hctl.loop, hctl.cs, hctl.rebirthQ, hctl.msgQ, hctl.stop, hctl.stopping, rfl, hctl.ucalls⟩,
      fun x hx => (hdev x hx).1⟩,
    ⟨Cfg.frame hf ⟨hcfg.cooldown, hcfg.cbPark, hcfg.oneshots⟩, huid ▸ hu, hname ▸ hn, ?_, ?_, ?_⟩⟩
  · intro x hx hxf
    rw [hfe]
    exact (hdev x hx).2 hxf
  · intro ho
    rw [hfo, hon] at ho
    cases ho
  · rw [hfo, hfb, hon]

/-- the state after `Online` has been polled and forwarded, the subscriptions were accepted -/
def afterSub (s : Eon.St) : Eon.St :=
  { s with online := true, node := .birthStart .birth none,
           calls := s.calls ++ [{ kind := .sub, res := some true, gOnline := true, gBirthed := s.birthed }] }

theorem online_steps (s : Eon.St) (hq : Quiescent s) (ho : s.online = false) :
    Eon.runActs s [.stim (.ev .online), .task .loop .acc 0, .task .loop .acc 0, .task .node .acc 0, .task .node .acc 0] =
      some (afterSub s, [.polled .online, .poll, .call s.calls.length .sub none none none false .acc]) := by
  have hc := hq.ctl
  simp [Eon.runActs, Eon.runAct, Eon.applyStim, Eon.step, Eon.stepLoop, Eon.stepNode, Eon.loopHandle,
    hc.inbox, hc.loop, hc.cs, hc.stop, hc.node, hc.stopping, ho, Eon.Ev.name, Eon.handOver, Eon.callRes, afterSub]

theorem online_refines (i ts : Nat) (s : Eon.St) (hq : Quiescent s) (hw : Wf s) :
    Refines s ((Node.goOnline ts (absNode i s)).1, (Node.goOnline ts (absNode i s)).2.map projMsg) := by
  have hc := hq.ctl
  cases ho : s.online with
  | true =>
    have hrun : Eon.runActs s [.stim (.ev .online), .task .loop .acc 0, .task .loop .acc 0, .task .node .acc 0] =
        some (s, [.polled .online, .poll]) := by
      simp [Eon.runActs, Eon.runAct, Eon.applyStim, Eon.step, Eon.stepLoop, Eon.stepNode, Eon.loopHandle,
        hc.inbox, hc.loop, hc.cs, hc.stop, hc.node, hc.stopping, ho, Eon.Ev.name]
      obtain ⟨h1, h2, h3, h4, h5, h6, h7, h8, h9⟩ := hc
      clear hq hw
      cases s
      simp_all
    refine ⟨s, _, Runs.of_acts _ hrun, hq, hw, ?_, ?_⟩
    · simp [Node.goOnline, absNode, ho]
    · simp [Node.goOnline, absNode, ho, projObs, List.filterMap_cons]
  | false =>
    have hrun := online_steps s hq ho
    obtain ⟨s', obs, hr, hf, hdev, huid, hname, habs, hobs⟩ := birthCore false none i ts (afterSub s) rfl rfl hq.devs hw.uids
      (by
        intro x hx hxf
        have := hw.offline ho x hx
        rw [this] at hxf
        cases hxf)
    obtain ⟨hq', hw'⟩ := birth_finish (afterSub s) s' none hf
      ⟨hc.inbox, hc.loop, hc.cs, hc.rebirthQ, hc.msgQ, hc.stop, hc.stopping, rfl, hc.ucalls⟩
      ⟨hw.cfg.cooldown, hw.cfg.cbPark, hw.cfg.oneshots⟩ rfl hdev huid hname hw.uids hw.names
    have hn : absNode i (afterSub s) = { absNode i s with online := true } := rfl
    rw [hn] at habs hobs
    refine ⟨s', _, (Runs.of_acts _ hrun).trans hr, hq', hw', ?_, ?_⟩
    · simpa [Node.goOnline, absNode, ho] using habs
    · rw [projObs_append, hobs]
      simp [Node.goOnline, absNode, ho, projObs, List.filterMap_cons]

theorem rebirth_refines (i ts : Nat) (s : Eon.St) (hq : Quiescent s) (hw : Wf s) :
    Refines s ((Node.rebirth ts (absNode i s)).1, (Node.rebirth ts (absNode i s)).2.map projMsg) := by
  have hc := hq.ctl
  cases hb : s.birthed with
  | false =>
    have hrun : Eon.runActs s [.stim .nrebirth, .task .node .acc 0] = some (s, []) := by
      simp [Eon.runActs, Eon.runAct, Eon.applyStim, Eon.step, Eon.stepNode, hc.cs, hc.node, hb]
      obtain ⟨h1, h2, h3, h4, h5, h6, h7, h8, h9⟩ := hc
      clear hq hw
      cases s
      simp_all
    refine ⟨s, _, Runs.of_acts _ hrun, hq, hw, ?_, ?_⟩
    · simp [Node.rebirth, absNode, hb]
    · simp [Node.rebirth, absNode, hb]
  | true =>
    have ho : s.online = true := by rw [← hw.bo]; exact hb
    have hrun : Eon.runActs s [.stim .nrebirth, .task .node .acc 0] =
        some ({ s with node := .birthStart .rebirth none }, []) := by
      simp [Eon.runActs, Eon.runAct, Eon.applyStim, Eon.step, Eon.stepNode, hc.cs, hc.node, hb]
      obtain ⟨h1, h2, h3, h4, h5, h6, h7, h8, h9⟩ := hc
      clear hq hw
      cases s
      simp_all
    obtain ⟨s', obs, hr, hf, hdev, huid, hname, habs, hobs⟩ :=
      birthCore true none i ts { s with node := .birthStart .rebirth none } rfl ho hq.devs hw.uids
        (fun x hx hxf => ⟨(hw.flags x hx hxf).1, rfl⟩)
    obtain ⟨hq', hw'⟩ := birth_finish { s with node := .birthStart .rebirth none } s' none hf
      ⟨hc.inbox, hc.loop, hc.cs, hc.rebirthQ, hc.msgQ, hc.stop, hc.stopping, rfl, hc.ucalls⟩
      ⟨hw.cfg.cooldown, hw.cfg.cbPark, hw.cfg.oneshots⟩ ho hdev huid hname hw.uids hw.names
    have hn : absNode i { s with node := .birthStart .rebirth none } = absNode i s := rfl
    rw [hn] at habs hobs
    refine ⟨s', _, (Runs.of_acts _ hrun).trans hr, hq', hw', ?_, ?_⟩
    · have hbn : (absNode i s).birthed = true := hb
      simpa [Node.rebirth, hbn] using habs
    · have hbn : (absNode i s).birthed = true := hb
      simpa [Node.rebirth, hbn] using hobs

theorem ncmd_refines (i ts : Nat) (s : Eon.St) (hq : Quiescent s) (hw : Wf s) :
    Refines s ((Node.rebirth ts (absNode i s)).1, (Node.rebirth ts (absNode i s)).2.map projMsg) := by
  have hc := hq.ctl
  have hcd := hw.cfg.cooldown
  have hcb := hw.cfg.cbPark
  cases hb : s.birthed with
  | false =>
    have hrun : Eon.runActs s [.stim (.ev (.ncmd true true)), .task .loop .acc 0, .task .loop .acc 0, .task .node .acc 0, .task .node .acc 0] =
        some ({ s with lastRebirthReq := s.wall }, [.polled .node, .poll, .cbNcmd]) := by
      simp [Eon.runActs, Eon.runAct, Eon.applyStim, Eon.step, Eon.stepLoop, Eon.stepNode, Eon.loopHandle,
        hc.inbox, hc.loop, hc.cs, hc.stop, hc.node, hc.rebirthQ, hc.msgQ, hcd, hcb, hb, Eon.Ev.name]
    refine ⟨_, _, Runs.of_acts _ hrun, ⟨⟨hc.inbox, hc.loop, hc.cs, hc.rebirthQ, hc.msgQ, hc.stop, hc.stopping, hc.node, hc.ucalls⟩, hq.devs⟩,
      ⟨⟨hw.cfg.cooldown, hw.cfg.cbPark, hw.cfg.oneshots⟩, hw.uids, hw.names, hw.flags, hw.offline, hw.bo⟩, ?_, ?_⟩
    · simp [Node.rebirth, absNode, hb]
    · simp [Node.rebirth, absNode, hb, projObs, List.filterMap_cons]
  | true =>
    have ho : s.online = true := by rw [← hw.bo]; exact hb
    have hrun : Eon.runActs s [.stim (.ev (.ncmd true true)), .task .loop .acc 0, .task .loop .acc 0, .task .node .acc 0, .task .node .acc 0] =
        some ({ s with node := .birthStart .rebirth (some s.wall) }, [.polled .node, .poll, .cbNcmd]) := by
      simp [Eon.runActs, Eon.runAct, Eon.applyStim, Eon.step, Eon.stepLoop, Eon.stepNode, Eon.loopHandle,
        hc.inbox, hc.loop, hc.cs, hc.stop, hc.node, hc.rebirthQ, hc.msgQ, hcd, hcb, hb, Eon.Ev.name]
    obtain ⟨s', obs, hr, hf, hdev, huid, hname, habs, hobs⟩ :=
      birthCore true (some s.wall) i ts { s with node := .birthStart .rebirth (some s.wall) } rfl ho hq.devs hw.uids
        (fun x hx hxf => ⟨(hw.flags x hx hxf).1, rfl⟩)
    obtain ⟨hq', hw'⟩ := birth_finish { s with node := .birthStart .rebirth (some s.wall) } s' (some s.wall) hf
      ⟨hc.inbox, hc.loop, hc.cs, hc.rebirthQ, hc.msgQ, hc.stop, hc.stopping, rfl, hc.ucalls⟩
      ⟨hw.cfg.cooldown, hw.cfg.cbPark, hw.cfg.oneshots⟩ ho hdev huid hname hw.uids hw.names
    have hn : absNode i { s with node := .birthStart .rebirth (some s.wall) } = absNode i s := rfl
    rw [hn] at habs hobs
    refine ⟨s', _, (Runs.of_acts _ hrun).trans hr, hq', hw', ?_, ?_⟩
    · have hbn : (absNode i s).birthed = true := hb
      simpa [Node.rebirth, hbn] using habs
    · have hbn : (absNode i s).birthed = true := hb
      rw [projObs_append, hobs]
      simp [Node.rebirth, hbn, projObs, List.filterMap_cons]

/-! ### quiescent states are stuck; the freshly built node -/

theorem quiescent_stuck (s : Eon.St) (hq : Quiescent s) (t : Eon.Task) (dec : Eon.Dec) : Eon.step s t dec = [] := by
  have hc := hq.ctl
  cases t with
  | loop => simp [Eon.step, Eon.stepLoop, hc.loop, hc.stop, hc.inbox]
  | loopTimeout =>
    simp only [Eon.step, Eon.stepLoopTimeout, hc.loop]
    cases s.stopDeadline with
    | none => rfl
    | some dl => simp only; split <;> rfl
  | node => simp [Eon.step, Eon.stepNode, hc.node, hc.cs, hc.rebirthQ, hc.msgQ]
  | dev u =>
    simp only [Eon.step, Eon.stepDev]
    cases hf : Eon.findUid u s.devs with
    | none => rfl
    | some x =>
      have hx : x ∈ s.devs := List.mem_of_find?_eq_some hf
      obtain ⟨h1, h2, h3, h4, _⟩ := hq.devs x hx
      simp [h1, h2, h3, h4]
  | user j =>
    simp only [Eon.step, Eon.stepUser]
    cases hf : s.ucalls.find? (fun u => u.j == j) with
    | none => rfl
    | some u =>
      have hu : u ∈ s.ucalls := List.mem_of_find?_eq_some hf
      have hd := hc.ucalls u hu
      simp only
      cases hk : u.kind <;> simp [hd]

/-- the device map after registering `names` one after the other -/
def regAll : List Eon.Dev → List Nat → List Eon.Dev
  | l, [] => l
  | l, d :: t => regAll (l ++ [{ uid := l.length, name := d }]) t

theorem regAll_spec : ∀ (names : List Nat) (l : List Eon.Dev),
    (regAll l names).map (·.name) = l.map (·.name) ++ names ∧
    (regAll l names).map (·.uid) = l.map (·.uid) ++ List.range' l.length names.length ∧
    ∀ x ∈ regAll l names, x ∈ l ∨ (DevQuiet x ∧ x.flag = false ∧ x.enabled = false) := by
  intro names
  induction names with
  | nil => intro l; simp [regAll]; exact fun x hx => .inl hx
  | cons d t ih =>
    intro l
    obtain ⟨h1, h2, h3⟩ := ih (l ++ [{ uid := l.length, name := d }])
    refine ⟨by simp [regAll, h1], ?_, ?_⟩
    · simp [regAll, h2, List.range'_succ]
    · intro x hx
      rcases h3 x hx with h | h
      · simp only [List.mem_append, List.mem_singleton] at h
        rcases h with h | rfl
        · exact .inl h
        · exact .inr ⟨⟨rfl, rfl, rfl, rfl, rfl⟩, rfl, rfl⟩
      · exact .inr h

theorem reg_run : ∀ (names : List Nat) (s : Eon.St), (s.devs.map (·.name) ++ names).Nodup →
    Eon.runActs s (names.map (fun d => Eon.Act.stim (.reg d))) = some ({ s with devs := regAll s.devs names }, []) := by
  intro names
  induction names with
  | nil => intro s _; simp [Eon.runActs, regAll]
  | cons d t ih =>
    intro s hnd
    have hnone : s.devs.find? (fun x => x.name == d && x.registered && x.pc != .done) = none := by
      rw [List.find?_eq_none]
      intro x hx
      have : x.name ≠ d := by
        intro h
        rw [List.nodup_append] at hnd
        exact hnd.2.2 x.name (List.mem_map_of_mem hx) d (by simp) h
      simp [this]
    have := ih { s with devs := s.devs ++ [{ uid := s.devs.length, name := d }] } (by simpa using hnd)
    simp only [List.map_cons, Eon.runActs, Eon.runAct, Eon.applyStim, hnone, this]
    simp [regAll]

/-- the freshly built node: cooldown 0, devices `names` registered (disabled), `EoN::run` started and
blocked in its first `poll` -/
def boot (names : List Nat) : Eon.St :=
  { cooldown := 0, devs := regAll [] names, running := true, will := some 0, loop := .polling }

theorem boot_reaches (names : List Nat) (h : names.Nodup) : Eon.Reaches 0 (boot names) [.will 0, .poll] := by
  refine ⟨names.map (fun d => Eon.Act.stim (.reg d)) ++ [.task .loop .acc 0, .task .loop .acc 0], ?_⟩
  have h1 := reg_run names (Eon.init 0) (by simpa [Eon.init] using h)
  have h2 : Eon.runActs { Eon.init 0 with devs := regAll (Eon.init 0).devs names } [.task .loop .acc 0, .task .loop .acc 0] =
      some (boot names, [.will 0, .poll]) := by
    simp [Eon.runActs, Eon.runAct, Eon.step, Eon.stepLoop, Eon.init, boot]
  simpa using runActs_append _ _ _ _ _ _ _ h1 h2

theorem boot_ok (names : List Nat) (h : names.Nodup) :
    Quiescent (boot names) ∧ Wf (boot names) ∧ absNode 0 (boot names) = { devs := names.map fun d => { name := d } } := by
  obtain ⟨h1, h2, h3⟩ := regAll_spec names []
  have hx : ∀ x ∈ regAll [] names, DevQuiet x ∧ x.flag = false ∧ x.enabled = false := by
    intro x hx
    rcases h3 x hx with h | h
    · simp at h
    · exact h
  refine ⟨⟨⟨rfl, rfl, rfl, rfl, rfl, rfl, rfl, rfl, by simp [boot]⟩, fun x hx' => (hx x hx').1⟩,
    ⟨⟨rfl, rfl, by simp [boot]⟩, ?_, ?_, ?_, ?_, rfl⟩, ?_⟩
  · simp only [boot, h2]; simpa using List.nodup_range'
  · simp only [boot, h1]; simpa using h
  · intro x hx' hf
    rw [(hx x hx').2.1] at hf
    cases hf
  · intro _ x hx'
    exact (hx x hx').2.1
  · simp only [absNode, boot]
    congr 1
    -- the device list
    have : ∀ (names : List Nat) (l : List Eon.Dev),
        (regAll l names).map absDev = l.map absDev ++ names.map (fun d => ({ name := d } : Dev)) := by
      intro names
      induction names with
      | nil => intro l; simp [regAll]
      | cons d t ih => intro l; simp [regAll, ih, absDev]
    simpa using this names []

/-! ### operation sequences -/

/-- the operations of the sequential abstraction (`ncmd` = an NCMD with `Node Control/Rebirth = true`) -/
inductive Op where
  | online | offline | pubNode | pubDev (d : Nat) | enable (d : Nat) | disable (d : Nat) | rebirth | ncmd
  deriving DecidableEq, Repr

/-- apply one operation of `Loop.Node` at clock reading `ts`; the messages handed over, projected -/
def Op.apply (n : Node) (ts : Nat) : Op → Node × List H
  | .online => ((n.goOnline ts).1, (n.goOnline ts).2.map projMsg)
  | .offline => offlineOut n
  | .pubNode => ((n.pubNode ts).1, (n.pubNode ts).2.map projMsg)
  | .pubDev d => ((n.pubDev d ts).1, (n.pubDev d ts).2.map projMsg)
  | .enable d => ((n.enable d ts).1, (n.enable d ts).2.map projMsg)
  | .disable d => ((n.disable d ts).1, (n.disable d ts).2.map projMsg)
  | .rebirth => ((n.rebirth ts).1, (n.rebirth ts).2.map projMsg)
  | .ncmd => ((n.rebirth ts).1, (n.rebirth ts).2.map projMsg)

/-- a sequence of operations, each with the clock reading it runs at -/
def runOps (n : Node) : List (Op × Nat) → Node × List H
  | [] => (n, [])
  | (op, ts) :: t => ((runOps (op.apply n ts).1 t).1, (op.apply n ts).2 ++ (runOps (op.apply n ts).1 t).2)

theorem op_refines (op : Op) (i ts : Nat) (s : Eon.St) (hq : Quiescent s) (hw : Wf s) :
    Refines s (op.apply (absNode i s) ts) := by
  cases op with
  | online => exact online_refines i ts s hq hw
  | offline => exact offline_refines i s hq hw
  | pubNode => exact pubNode_refines i ts s hq hw
  | pubDev d => exact pubDev_refines d i ts s hq hw
  | enable d => exact enable_refines d i ts s hq hw
  | disable d => exact disable_refines d i ts s hq hw
  | rebirth => exact rebirth_refines i ts s hq hw
  | ncmd => exact ncmd_refines i ts s hq hw

theorem ops_refine : ∀ (ops : List (Op × Nat)) (i : Nat) (s : Eon.St), Quiescent s → Wf s →
    Refines s (runOps (absNode i s) ops) := by
  intro ops
  induction ops with
  | nil => intro i s hq hw; exact ⟨s, [], Runs.refl s, hq, hw, rfl, rfl⟩
  | cons a t ih =>
    intro i s hq hw
    obtain ⟨op, ts⟩ := a
    obtain ⟨s1, o1, hr1, hq1, hw1, ha1, ho1⟩ := op_refines op i ts s hq hw
    obtain ⟨s2, o2, hr2, hq2, hw2, ha2, ho2⟩ := ih (op.apply (absNode i s) ts).1.nextId s1 hq1 hw1
    rw [ha1] at ha2 ho2
    exact ⟨s2, o1 ++ o2, hr1.trans hr2, hq2, hw2, ha2, by rw [projObs_append, ho1, ho2]; rfl⟩

theorem reaches_runs {cd : Nat} {s s' : Eon.St} {tr obs : List Eon.Obs} (h : Eon.Reaches cd s tr) (hr : Runs s s' obs) :
    Eon.Reaches cd s' (tr ++ obs) := by
  obtain ⟨a, ha⟩ := h
  obtain ⟨b, _, hb⟩ := hr
  exact ⟨a ++ b, runActs_append _ a b _ _ _ _ ha hb⟩
end Srad.Loop.Refine
