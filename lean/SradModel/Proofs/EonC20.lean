import SradModel.Model.EonSpec

namespace Srad.Eon.P20
open Srad.Eon

/-! ### generalities -/

theorem mem_of_getElem? {α} {l : List α} {k : Nat} {r : α} (h : l[k]? = some r) : r ∈ l :=
  List.mem_of_getElem? h

@[simp] theorem handOver_calls (s : St) (c : Call) (dec : Dec) :
    (handOver s c dec).1.calls = s.calls ++ [{ c with res := (match (if c.isTry && dec == .park then Dec.rej else dec) with | .acc => some true | .rej => some false | .park => none), gOnline := s.online, gBirthed := s.birthed }] := rfl

@[simp] theorem handOver_id (s : St) (c : Call) (dec : Dec) : (handOver s c dec).2.1 = s.calls.length := rfl

@[simp] theorem handOver_obs (s : St) (c : Call) (dec : Dec) :
    (handOver s c dec).2.2 = .call s.calls.length c.kind c.dev c.seq c.bd c.isTry (if c.isTry && dec == .park then Dec.rej else dec) := rfl

theorem handOver_st (s : St) (c : Call) (dec : Dec) :
    (handOver s c dec).1 = { s with calls := (handOver s c dec).1.calls } := rfl

theorem callRes_handOver (s : St) (c : Call) (dec : Dec) :
    callRes (handOver s c dec).1 (handOver s c dec).2.1 =
      (match (if c.isTry && dec == .park then Dec.rej else dec) with | .acc => some true | .rej => some false | .park => none) := by
  simp [callRes]

set_option linter.unusedSimpArgs false

/-! ### step-level facts about user calls -/

theorem find_setUCall (l : List UCall) (j : Nat) (u u' : UCall) (h : l.find? (·.j == j) = some u) (hj : u'.j = j) :
    (setUCall u' l).find? (·.j == j) = some u' := by
  induction l with
  | nil => simp at h
  | cons v t ih =>
    simp only [List.find?_cons] at h
    simp only [setUCall]
    split at h
    · rename_i hv
      simp at hv h
      simp [hv, hj]
    · rename_i hv
      simp at hv
      have : ¬ (v.j = u'.j) := by omega
      simp [this, hv, ih h]

theorem nextSeqIn_ok {s : St} {req : Option Nat} {s1 : St} {n : Nat} (h : nextSeqIn s req = .ok (s1, n)) :
    s1 = { s with seq := n } ∧ s.online = true ∧ s.birthed = true := by
  unfold nextSeqIn at h
  cases ho : s.online <;> cases hb : s.birthed <;> simp [ho, hb] at h
  cases req with
  | none => simp at h; obtain ⟨rfl, rfl⟩ := h; simp [← ho, ← hb]
  | some e =>
    simp at h
    split at h
    · simp at h; obtain ⟨rfl, rfl⟩ := h; simp [← ho, ← hb]
    · simp at h

theorem nextSeqIn_offline {s : St} {req : Option Nat} (h : s.online = false) : nextSeqIn s req = .error .offline := by
  simp [nextSeqIn, h]

theorem try_publish_returns_at_once (s : St) (j : Nat) (t : PubTarget) (n : Nat) (dec : Dec)
    (k : Nat) (s' : St) (o : List Obs)
    (hu : s.ucalls.find? (·.j == j) = some { j := j, kind := .pub t true n, pc := .start })
    (h : (step s (.user j) dec)[k]? = some (s', o)) :
    ∃ r, o.getLast? = some (.ures j r) ∧ (s'.ucalls.find? (·.j == j)).map (·.pc) = some .done := by
  replace h := mem_of_getElem? h
  simp only [step, stepUser, hu] at h
  split at h
  · simp at h
    obtain ⟨rfl, rfl⟩ := h
    simp [find_setUCall _ _ _ _ hu]
  · split at h
    · simp at h
      obtain ⟨rfl, rfl⟩ := h
      simp [find_setUCall _ _ _ _ hu]
    · rename_i s1 k1 fl hg
      have hs1 : s1.ucalls = s.ucalls := by
        cases t
        · simp only [nextSeq] at hg
          cases hn : nextSeqIn s none with
          | error e => simp [hn, Except.map] at hg
          | ok v =>
            simp [hn, Except.map] at hg
            have := nextSeqIn_ok hn
            grind
        · simp only at hg
          split at hg
          · split at hg
            · simp at hg
            · rename_i x _ _
              cases hn : nextSeqIn s (some x.epoch) with
              | error e => simp [hn, Except.map] at hg
              | ok v =>
                simp [hn, Except.map] at hg
                have := nextSeqIn_ok hn
                grind
          · simp at hg
      cases t <;> cases dec <;> simp [handOver, callRes] at h <;> obtain ⟨rfl, rfl⟩ := h <;>
        simp [hs1, find_setUCall _ _ _ _ hu]

theorem cancel_ndeath (s : St) (j : Nat) (dec : Dec) (k : Nat) (s' : St) (o : List Obs)
    (hu : s.ucalls.find? (·.j == j) = some { j := j, kind := .cancel, pc := .start })
    (h : (step s (.user j) dec)[k]? = some (s', o)) :
    (s.running = true → ∃ dc, o = [.call s.calls.length .ndeath none none (some s.bdseq) true dc] ∧
        s'.stopping = true) ∧
    (s.running = false → o = [.ures j .cancelled] ∧ s'.calls = s.calls) := by
  replace h := mem_of_getElem? h
  simp [step, stepUser, hu, handOver] at h
  split at h
  · simp at h
    obtain ⟨rfl, rfl⟩ := h
    simp_all
  · simp at h
    obtain ⟨rfl, rfl⟩ := h
    simp_all
theorem cancel_disconnect (s : St) (j : Nat) (dec : Dec) (k : Nat) (s' : St) (o : List Obs)
    (hu : s.ucalls.find? (·.j == j) = some { j := j, kind := .cancel, pc := .cancelDisc })
    (h : (step s (.user j) dec)[k]? = some (s', o)) :
    ∃ dc, o = [.call s.calls.length .disconnect none none none true dc, .ures j .cancelled] := by
  replace h := mem_of_getElem? h
  simp [step, stepUser, hu, handOver] at h
  simp [h]

/-! ### `tryOk` -/

theorem tryOk_append (a b : List Obs) : tryOk (a ++ b) = (tryOk a && tryOk b) := by
  induction a with
  | nil => simp [tryOk]
  | cons x t ih => cases x <;> simp [tryOk, ih, Bool.and_assoc]

theorem noCalls_append (a b : List Obs) : noCalls (a ++ b) = (noCalls a && noCalls b) := by
  induction a with
  | nil => simp [noCalls]
  | cons x t ih => cases x <;> simp [noCalls, ih]

theorem tryOk_of_noCalls {a : List Obs} (h : noCalls a = true) : tryOk a = true := by
  induction a with
  | nil => simp [tryOk]
  | cons x t ih => cases x <;> simp_all [tryOk, noCalls]

theorem stepLoop_noCalls {s : St} {r : St × List Obs} (h : r ∈ stepLoop s) : noCalls r.2 = true := by
  unfold stepLoop at h
  repeat' split at h
  all_goals (try simp at h)
  all_goals (try (rcases h with h | h))
  all_goals (try subst h)
  all_goals (try rfl)

theorem stepLoopTimeout_noCalls {s : St} {r : St × List Obs} (h : r ∈ stepLoopTimeout s) : noCalls r.2 = true := by
  unfold stepLoopTimeout at h
  repeat' split at h
  all_goals (try simp at h)
  all_goals (try subst h)
  all_goals (try rfl)

theorem tryOk_stepNode {s : St} {dec : Dec} {r : St × List Obs} (h : r ∈ stepNode s dec) : tryOk r.2 = true := by
  simp only [stepNode, nodeBirthStart, handOver, callRes] at h
  repeat' split at h
  all_goals (try simp at h)
  all_goals (try subst h)
  all_goals (try rfl)

theorem tryOk_stepDev {s : St} {u : Nat} {dec : Dec} {r : St × List Obs} (h : r ∈ stepDev s u dec) : tryOk r.2 = true := by
  simp only [stepDev, devBirth, devDeath, handOver, callRes] at h
  repeat' split at h
  all_goals (try simp at h)
  all_goals (try subst h)
  all_goals (try rfl)

theorem tryOk_stepUser {s : St} {u : Nat} {dec : Dec} {r : St × List Obs} (h : r ∈ stepUser s u dec) : tryOk r.2 = true := by
  simp only [stepUser, handOver, callRes] at h
  repeat' split at h
  all_goals (try simp at h)
  all_goals (try subst h)
  all_goals (try rfl)
  all_goals (simp_all [tryOk])

/-! ### lifting over executions -/

theorem applyStim_noCalls (s : St) (x : Stim) : noCalls (applyStim s x).2 = true := by
  cases x <;> simp only [applyStim] <;> repeat' split
  all_goals rfl

theorem runAct_tryOk {s : St} {a : Act} {s' : St} {o : List Obs} (h : runAct s a = some (s', o)) :
    tryOk o = true := by
  cases a with
  | stim x =>
    simp [runAct] at h
    have := applyStim_noCalls s x
    rw [h] at this; exact tryOk_of_noCalls this
  | task t dec k =>
    simp only [runAct] at h
    have hm := mem_of_getElem? h
    cases t with
    | loop => exact tryOk_of_noCalls (stepLoop_noCalls hm)
    | loopTimeout => exact tryOk_of_noCalls (stepLoopTimeout_noCalls hm)
    | node => exact tryOk_stepNode hm
    | dev d => exact tryOk_stepDev hm
    | user j => exact tryOk_stepUser hm

/-- lifting a trace property over `runActs` -/
theorem runActs_trace (Q : List Obs → Prop) (hnil : Q []) (happ : ∀ a b, Q a → Q b → Q (a ++ b))
    (P : St → Prop)
    (hstep : ∀ s a s' o, P s → runAct s a = some (s', o) → Q o ∧ P s') :
    ∀ (acts : List Act) (s s' : St) (tr : List Obs), P s → runActs s acts = some (s', tr) → Q tr ∧ P s' := by
  intro acts
  induction acts with
  | nil => intro s s' tr hp h; simp [runActs] at h; obtain ⟨rfl, rfl⟩ := h; exact ⟨hnil, hp⟩
  | cons a as ih =>
    intro s s' tr hp h
    simp only [runActs] at h
    split at h
    · simp at h
    · rename_i s1 o1 h1
      split at h
      · simp at h
      · rename_i s2 o2 h2
        simp at h
        obtain ⟨rfl, rfl⟩ := h
        have ⟨q1, p1⟩ := hstep _ _ _ _ hp h1
        have ⟨q2, p2⟩ := ih _ _ _ p1 h2
        exact ⟨happ _ _ q1 q2, p2⟩

theorem runActs_append (s : St) (a b : List Act) (s1 s2 : St) (t1 t2 : List Obs)
    (h1 : runActs s a = some (s1, t1)) (h2 : runActs s1 b = some (s2, t2)) :
    runActs s (a ++ b) = some (s2, t1 ++ t2) := by
  induction a generalizing s t1 with
  | nil => simp [runActs] at h1; obtain ⟨rfl, rfl⟩ := h1; simpa using h2
  | cons x xs ih =>
    simp only [runActs, List.cons_append] at h1 ⊢
    split at h1
    · simp at h1
    · rename_i s3 o3 h3
      split at h1
      · simp at h1
      · rename_i s4 o4 h4
        simp at h1
        obtain ⟨rfl, rfl⟩ := h1
        simp [ih _ _ h4]

theorem try_calls_never_wait (cd : Nat) (acts : List Act) (s : St) (tr : List Obs)
    (h : runActs (init cd) acts = some (s, tr)) : tryOk tr = true :=
  (runActs_trace (fun t => tryOk t = true) rfl (fun a b ha hb => by simp [tryOk_append, ha, hb])
    (fun _ => True) (fun _ _ _ _ _ h => ⟨runAct_tryOk h, trivial⟩) acts _ _ _ trivial h).1

/-! ### the shutdown invariant -/

@[simp] def stopPhase : LoopPc → Bool
  | .stopCheck | .stopPolling | .stopSendCs _ | .stopAwaitWill _ | .forceSendCs _ | .forceAwaitWill _
  | .sendStopped | .done => true
  | _ => false

@[simp] def stopAw : LoopPc → Option Nat
  | .stopSendCs o | .stopAwaitWill o | .forceSendCs o | .forceAwaitWill o => some o
  | _ => none

@[simp] def willAw : LoopPc → Option Nat
  | .awaitWill o | .stopAwaitWill o | .forceAwaitWill o => some o
  | _ => none

@[simp] def timed : LoopPc → Bool
  | .stopCheck | .stopPolling | .stopSendCs _ | .stopAwaitWill _ => true
  | _ => false

@[simp] def nodeBusy : NodePc → Bool
  | .waitSub _ | .subDone _ | .birthStart _ _ | .waitNb _ _ _ | .nbDone _ _ _ => true
  | _ => false

@[simp] def nodeWait : NodePc → Option Nat
  | .waitSub id | .waitNb id _ _ => some id
  | _ => none

@[simp] def pendOff : LoopPc → Option Nat
  | .sendCs (.offline o) | .stopSendCs o | .forceSendCs o => some o
  | _ => none

structure Inv (s : St) : Prop where
  stop_stopping : s.stop = true → s.stopping = true
  uc_stopping : ∀ u ∈ s.ucalls, u.pc = .cancelStop → s.stopping = true
  phase_stopping : stopPhase s.loop = true → s.stopping = true
  fin_offline : (s.loop = .sendStopped ∨ s.loop = .done) → s.online = false
  aw_offline : ∀ o, stopAw s.loop = some o → ∀ p ∈ s.oneshots, p.1 = o → s.online = false
  os_fresh : ∀ p ∈ s.oneshots, p.1 < s.nextOneshot
  busy_online : nodeBusy s.node = true → s.online = true
  birthed_online : s.birthed = true → s.online = true
  done_running : s.loop = .done → s.running = false
  wait_lt : ∀ id, nodeWait s.node = some id → id < s.calls.length
  dl_some : timed s.loop = true → s.stopDeadline.isSome = true
  aw_reply : ∀ o, willAw s.loop = some o → s.cs = some (.offline o) ∨ ∃ p ∈ s.oneshots, p.1 = o
  ndone : s.node = .done → s.loop = .done
  cs_stopped : s.cs = some .stopped → s.loop = .done
  sendcs_ns : s.loop ≠ .sendCs .stopped
  cs_fresh : ∀ o, s.cs = some (.offline o) → o < s.nextOneshot
  pend_fresh : ∀ o, pendOff s.loop = some o → o < s.nextOneshot

theorem Inv_init (cd : Nat) : Inv (init cd) := by
  constructor <;> simp [init]



theorem reply?_mem {s : St} {o : Nat} {r : Option Nat} (h : reply? s o = some r) : (o, r) ∈ s.oneshots := by
  simp only [reply?, Option.map_eq_some_iff] at h
  obtain ⟨p, hp, rfl⟩ := h
  have h1 := List.mem_of_find?_eq_some hp
  have h2 := List.find?_some hp
  simp at h2
  cases p; simp_all

theorem reply?_none {s : St} {o : Nat} (h : reply? s o = none) : ∀ r, (o, r) ∉ s.oneshots := by
  simp only [reply?, Option.map_eq_none_iff] at h
  intro r hr
  have := List.find?_eq_none.1 h _ hr
  simp at this

set_option maxHeartbeats 800000 in
theorem Inv_stepLoop {s : St} {r : St × List Obs} (hi : Inv s) (h : r ∈ stepLoop s) : Inv r.1 := by
  cases s
  rename_i online birthed seq bdseq running stopping epoch cooldown wall lastRebirthReq inbox will loop stopDeadline cs rebirthQ msgQ stop oneshots nextOneshot node nodeCbPark devCbPark devs ucalls calls
  obtain ⟨h1, h2, h3, h4, h5, h6, h7, h8, h9, h10, h11, h12, h13, h14, h15, h16, h17⟩ := hi
  cases loop
  all_goals simp only [stepLoop, loopHandle, newOneshot] at h
  all_goals simp at h1 h2 h3 h4 h5 h6 h7 h8 h9 h10 h11 h12 h13 h14 h15 h16 h17
  all_goals repeat' split at h
  all_goals (try simp at h)
  all_goals (try (rcases h with h | h))
  all_goals (try subst h)
  all_goals (constructor <;> (try simp) <;> (try assumption))
  all_goals (first | grind | (have := reply?_mem ‹_›; simp at this; grind))

set_option maxHeartbeats 800000 in
theorem Inv_stepLoopTimeout {s : St} {r : St × List Obs} (hi : Inv s) (h : r ∈ stepLoopTimeout s) : Inv r.1 := by
  cases s
  rename_i online birthed seq bdseq running stopping epoch cooldown wall lastRebirthReq inbox will loop stopDeadline cs rebirthQ msgQ stop oneshots nextOneshot node nodeCbPark devCbPark devs ucalls calls
  obtain ⟨h1, h2, h3, h4, h5, h6, h7, h8, h9, h10, h11, h12, h13, h14, h15, h16, h17⟩ := hi
  cases loop
  all_goals simp only [stepLoopTimeout, newOneshot] at h
  all_goals simp at h1 h2 h3 h4 h5 h6 h7 h8 h9 h10 h11 h12 h13 h14 h15 h16 h17
  all_goals repeat' split at h
  all_goals (try simp at h)
  all_goals (try subst h)
  all_goals (constructor <;> (try simp) <;> (try assumption))
  all_goals (first | grind)

set_option maxHeartbeats 800000 in
theorem Inv_stepNode {s : St} {dec : Dec} {r : St × List Obs} (hi : Inv s) (h : r ∈ stepNode s dec) : Inv r.1 := by
  cases s
  rename_i online birthed seq bdseq running stopping epoch cooldown wall lastRebirthReq inbox will loop stopDeadline cs rebirthQ msgQ stop oneshots nextOneshot node nodeCbPark devCbPark devs ucalls calls
  obtain ⟨h1, h2, h3, h4, h5, h6, h7, h8, h9, h10, h11, h12, h13, h14, h15, h16, h17⟩ := hi
  cases node
  all_goals simp only [stepNode, nodeBirthStart, handOver, callRes] at h
  all_goals simp at h1 h2 h3 h4 h5 h6 h7 h8 h9 h10 h11 h12 h13 h14 h15 h16 h17
  all_goals repeat' split at h
  all_goals (try simp at h)
  all_goals (try subst h)
  all_goals (constructor <;> (try simp) <;> (try assumption))
  all_goals (first | grind)


/-- the part of the state the shutdown invariant talks about (everything device and user steps leave alone) -/
structure Core where
  online : Bool
  birthed : Bool
  running : Bool
  loop : LoopPc
  stopDeadline : Option Nat
  cs : Option CS
  oneshots : List (Nat × Option Nat)
  nextOneshot : Nat
  node : NodePc

def core (s : St) : Core :=
  ⟨s.online, s.birthed, s.running, s.loop, s.stopDeadline, s.cs, s.oneshots, s.nextOneshot, s.node⟩

theorem devBirth_core (s : St) (x : Dev) (bt : BT) (req : Option Nat) (dec : Dec) :
    core (devBirth s x bt req dec).1 = core s ∧ (devBirth s x bt req dec).1.stop = s.stop ∧
    (devBirth s x bt req dec).1.stopping = s.stopping ∧ (devBirth s x bt req dec).1.ucalls = s.ucalls ∧
    s.calls.length ≤ (devBirth s x bt req dec).1.calls.length := by
  simp only [devBirth, handOver, callRes]
  repeat' split
  all_goals (try (obtain ⟨rfl, _, _⟩ := nextSeqIn_ok ‹_›))
  all_goals simp [core]

theorem devDeath_core (s : St) (x : Dev) (a b : Bool) (dec : Dec) :
    core (devDeath s x a b dec).1 = core s ∧ (devDeath s x a b dec).1.stop = s.stop ∧
    (devDeath s x a b dec).1.stopping = s.stopping ∧ (devDeath s x a b dec).1.ucalls = s.ucalls ∧
    s.calls.length ≤ (devDeath s x a b dec).1.calls.length := by
  simp only [devDeath, handOver, callRes]
  repeat' split
  all_goals (try (obtain ⟨rfl, _, _⟩ := nextSeqIn_ok ‹_›))
  all_goals simp [core]

theorem stepDev_core {s : St} {u : Nat} {dec : Dec} {r : St × List Obs} (h : r ∈ stepDev s u dec) :
    core r.1 = core s ∧ r.1.stop = s.stop ∧ r.1.stopping = s.stopping ∧ r.1.ucalls = s.ucalls ∧
    s.calls.length ≤ r.1.calls.length := by
  simp only [stepDev] at h
  repeat' split at h
  all_goals (try simp at h)
  all_goals (try subst h)
  all_goals (first | exact devBirth_core .. | exact devDeath_core .. | simp [core])

theorem mem_setUCall {u v : UCall} {l : List UCall} (h : v ∈ setUCall u l) : v ∈ l ∨ v = u := by
  induction l with
  | nil => simp [setUCall] at h
  | cons w t ih =>
    simp only [setUCall] at h
    split at h
    · simp at h; rcases h with h | h <;> simp [h]
    · simp at h; rcases h with h | h
      · simp [h]
      · rcases ih h with h | h <;> simp [h]

theorem gate_ok {s : St} {t : PubTarget} {s1 : St} {k : Nat} {fl : Bool}
    (h : (match t with
      | .node => (nextSeq s).map fun (s, k) => (s, k, false)
      | .dev d =>
        match findDev d s.devs with
        | some x => if !x.flag then .error .unbirthed else (nextSeqIn s (some x.epoch)).map fun (s, k) => (s, k, true)
        | none => .error .unbirthed : Except URes (St × Nat × Bool)) = .ok (s1, k, fl)) :
    s1 = { s with seq := k } ∧ s.online = true ∧ s.birthed = true := by
  cases t with
  | node =>
    simp only [nextSeq] at h
    cases hn : nextSeqIn s none with
    | error e => simp [hn, Except.map] at h
    | ok v =>
      simp [hn, Except.map] at h
      obtain ⟨rfl, rfl, _⟩ := h
      exact nextSeqIn_ok hn
  | dev d =>
    simp only at h
    split at h
    · split at h
      · simp at h
      · rename_i x _ _
        cases hn : nextSeqIn s (some x.epoch) with
        | error e => simp [hn, Except.map] at h
        | ok v =>
          simp [hn, Except.map] at h
          obtain ⟨rfl, rfl, _⟩ := h
          exact nextSeqIn_ok hn
    · simp at h

theorem stepUser_core {s : St} {j : Nat} {dec : Dec} {r : St × List Obs} (h : r ∈ stepUser s j dec) :
    core r.1 = core s ∧ (s.stopping = true → r.1.stopping = true) ∧
    (r.1.stop = true → s.stop = true ∨ ∃ u ∈ s.ucalls, u.pc = .cancelStop) ∧
    (∀ v ∈ r.1.ucalls, v.pc = .cancelStop → v ∈ s.ucalls ∨ r.1.stopping = true) ∧
    s.calls.length ≤ r.1.calls.length := by
  simp only [stepUser, handOver, callRes] at h
  repeat' split at h
  all_goals (try (first | (obtain ⟨rfl, _, _⟩ := gate_ok (t := .node) ‹_›) | (obtain ⟨rfl, _, _⟩ := gate_ok (t := .dev _) ‹_›)))
  all_goals (try simp at h)
  all_goals (try subst h)
  all_goals (simp [core])
  all_goals (have hmem := List.mem_of_find?_eq_some ‹List.find? _ s.ucalls = some _›)
  all_goals (first | grind [mem_setUCall])

theorem applyStim_core (s : St) (x : Stim) :
    core (applyStim s x).1 = core s ∧ (s.stopping = true → (applyStim s x).1.stopping = true) ∧
    ((applyStim s x).1.stop = true → s.stop = true ∨ ∃ u ∈ s.ucalls, u.pc = .cancelStop) ∧
    (∀ v ∈ (applyStim s x).1.ucalls, v.pc = .cancelStop → v ∈ s.ucalls ∨ (applyStim s x).1.stopping = true) ∧
    s.calls.length ≤ (applyStim s x).1.calls.length := by
  cases x <;> simp only [applyStim] <;> repeat' split
  all_goals (simp [core])
  all_goals grind

theorem Inv_transfer {s s' : St} (hc : core s' = core s) (hst : s.stopping = true → s'.stopping = true)
    (hstop : s'.stop = true → s.stop = true ∨ ∃ u ∈ s.ucalls, u.pc = .cancelStop)
    (huc : ∀ v ∈ s'.ucalls, v.pc = .cancelStop → v ∈ s.ucalls ∨ s'.stopping = true)
    (hcalls : s.calls.length ≤ s'.calls.length) (hi : Inv s) : Inv s' := by
  cases s; cases s'
  simp only [core, Core.mk.injEq] at hc
  obtain ⟨rfl, rfl, rfl, rfl, rfl, rfl, rfl, rfl, rfl⟩ := hc
  obtain ⟨h1, h2, h3, h4, h5, h6, h7, h8, h9, h10, h11, h12, h13, h14, h15, h16, h17⟩ := hi
  simp only [] at *
  constructor <;> (try simp only []) <;> (try assumption)
  all_goals grind


theorem Inv_runAct {s : St} {a : Act} {s' : St} {o : List Obs} (hi : Inv s) (h : runAct s a = some (s', o)) :
    Inv s' := by
  cases a with
  | stim x =>
    simp [runAct] at h
    have := applyStim_core s x
    rw [h] at this
    obtain ⟨a, b, c, d, e⟩ := this
    exact Inv_transfer a b c d e hi
  | task t dec k =>
    simp only [runAct] at h
    have hm := mem_of_getElem? h
    cases t with
    | loop => exact Inv_stepLoop hi hm
    | loopTimeout => exact Inv_stepLoopTimeout hi hm
    | node => exact Inv_stepNode hi hm
    | dev d =>
      obtain ⟨a, b, c, d, e⟩ := stepDev_core hm
      exact Inv_transfer a (by rw [c]; exact id) (by rw [b]; exact Or.inl) (by rw [d]; exact fun _ h _ => Or.inl h) e hi
    | user j =>
      obtain ⟨a, b, c, d, e⟩ := stepUser_core hm
      exact Inv_transfer a b c d e hi

theorem Inv_runActs {acts : List Act} {s s' : St} {tr : List Obs} (hi : Inv s) (h : runActs s acts = some (s', tr)) :
    Inv s' :=
  (runActs_trace (fun _ => True) trivial (fun _ _ _ _ => trivial) Inv
    (fun _ _ _ _ hi h => ⟨trivial, Inv_runAct hi h⟩) acts _ _ _ hi h).2

theorem Inv_reach {cd : Nat} {acts : List Act} {s : St} {tr : List Obs}
    (h : runActs (init cd) acts = some (s, tr)) : Inv s := Inv_runActs (Inv_init cd) h

theorem stopped_is_offline (cd : Nat) (acts : List Act) (s : St) (tr : List Obs)
    (h : runActs (init cd) acts = some (s, tr)) (hd : s.loop = .done) :
    s.online = false ∧ s.birthed = false ∧ s.running = false := by
  have hi := Inv_reach h
  have h1 := hi.fin_offline (Or.inr hd)
  have h2 := hi.birthed_online
  have h3 := hi.done_running hd
  refine ⟨h1, ?_, h3⟩
  cases hb : s.birthed
  · rfl
  · simp [h2 hb] at h1

/-! ### after the run loop has returned -/

def onlyDisc : List Obs → Bool
  | [] => true
  | .call _ k _ _ _ _ _ :: t => k == .disconnect && onlyDisc t
  | _ :: t => onlyDisc t

theorem onlyDisc_append (a b : List Obs) : onlyDisc (a ++ b) = (onlyDisc a && onlyDisc b) := by
  induction a with
  | nil => simp [onlyDisc]
  | cons x t ih => cases x <;> simp [onlyDisc, ih, Bool.and_assoc]

theorem onlyDisc_of_noCalls {a : List Obs} (h : noCalls a = true) : onlyDisc a = true := by
  induction a with
  | nil => simp [onlyDisc]
  | cons x t ih => cases x <;> simp_all [onlyDisc, noCalls]

theorem onlyDisc_spec {tr : List Obs} (h : onlyDisc tr = true) :
    ∀ o ∈ tr, ∀ id k dv sq bd t dc, o = Obs.call id k dv sq bd t dc → k = .disconnect := by
  induction tr with
  | nil => simp
  | cons x t ih =>
    intro o ho id k dv sq bd t' dc he
    simp at ho
    rcases ho with rfl | ho
    · subst he; simp [onlyDisc] at h; exact h.1
    · refine ih ?_ o ho id k dv sq bd t' dc he
      cases x <;> simp_all [onlyDisc]

/-- the state after `run` has returned -/
structure Stopped (s : St) : Prop where
  loop : s.loop = .done
  online : s.online = false
  birthed : s.birthed = false
  running : s.running = false
  stopping : s.stopping = true
  node : nodeBusy s.node = false

theorem Stopped_of_Inv {s : St} (hi : Inv s) (hd : s.loop = .done) : Stopped s := by
  have h1 := hi.fin_offline (Or.inr hd)
  refine ⟨hd, h1, ?_, hi.done_running hd, hi.phase_stopping (by simp [hd]), ?_⟩
  · cases hb : s.birthed
    · rfl
    · simp [hi.birthed_online hb] at h1
  · cases hb : nodeBusy s.node
    · rfl
    · simp [hi.busy_online hb] at h1

theorem stepNode_stopped {s : St} {dec : Dec} {r : St × List Obs} (hs : Stopped s) (h : r ∈ stepNode s dec) :
    noCalls r.2 = true ∧ r.1.loop = .done := by
  cases s
  obtain ⟨h1, h2, h3, h4, h5, h6⟩ := hs
  simp only [] at h1 h2 h3 h4 h5 h6
  subst h1 h2 h3 h4 h5
  rename_i node _ _ _ _ _
  cases node
  all_goals simp at h6
  all_goals simp only [stepNode, handOver, callRes] at h
  all_goals repeat' split at h
  all_goals (try simp at h)
  all_goals (try subst h)
  all_goals (first | exact ⟨rfl, rfl⟩)

theorem devBirth_offline {s : St} (x : Dev) (bt : BT) (req : Option Nat) (dec : Dec) (ho : s.online = false) :
    devBirth s x bt req dec = (s, []) := by
  simp only [devBirth, nextSeqIn_offline ho]
  repeat' split
  all_goals rfl

theorem devDeath_offline {s : St} (x : Dev) (a b : Bool) (dec : Dec) (ho : s.online = false) :
    noCalls (devDeath s x a b dec).2 = true := by
  simp only [devDeath, nextSeqIn_offline ho]
  repeat' split
  all_goals rfl

theorem stepDev_offline {s : St} {u : Nat} {dec : Dec} {r : St × List Obs} (ho : s.online = false) (h : r ∈ stepDev s u dec) :
    noCalls r.2 = true := by
  simp only [stepDev] at h
  repeat' split at h
  all_goals (try simp at h)
  all_goals (try subst h)
  all_goals (first | rfl | (rw [devBirth_offline _ _ _ _ (by exact ho)]; rfl) | exact devDeath_offline _ _ _ _ (by exact ho))

theorem stepUser_stopped {s : St} {j : Nat} {dec : Dec} {r : St × List Obs} (hs : Stopped s) (h : r ∈ stepUser s j dec) :
    onlyDisc r.2 = true ∧ r.1.loop = .done := by
  obtain ⟨h1, h2, h3, h4, h5, h6⟩ := hs
  simp only [stepUser, handOver, callRes, h4, h1] at h
  repeat' split at h
  all_goals (try (first | (obtain ⟨_, ho, _⟩ := gate_ok (t := .node) ‹_›; simp [h2] at ho) | (obtain ⟨_, ho, _⟩ := gate_ok (t := .dev _) ‹_›; simp [h2] at ho)))
  all_goals (try simp at h)
  all_goals (try subst h)
  all_goals (first | contradiction | exact ⟨rfl, rfl⟩ | exact ⟨rfl, h1⟩)

theorem core_loop {s s' : St} (h : core s' = core s) : s'.loop = s.loop := congrArg Core.loop h

theorem runAct_stopped {s : St} {a : Act} {s' : St} {o : List Obs} (hp : Inv s ∧ s.loop = .done)
    (h : runAct s a = some (s', o)) : onlyDisc o = true ∧ (Inv s' ∧ s'.loop = .done) := by
  obtain ⟨hi, hd⟩ := hp
  have hi' := Inv_runAct hi h
  have hs := Stopped_of_Inv hi hd
  refine ⟨?_, hi', ?_⟩
  · cases a with
    | stim x =>
      simp [runAct] at h
      have := applyStim_noCalls s x
      rw [h] at this
      exact onlyDisc_of_noCalls this
    | task t dec k =>
      simp only [runAct] at h
      have hm := mem_of_getElem? h
      cases t with
      | loop => exact onlyDisc_of_noCalls (stepLoop_noCalls hm)
      | loopTimeout => exact onlyDisc_of_noCalls (stepLoopTimeout_noCalls hm)
      | node => exact onlyDisc_of_noCalls (stepNode_stopped hs hm).1
      | dev d => exact onlyDisc_of_noCalls (stepDev_offline hs.online hm)
      | user j => exact (stepUser_stopped hs hm).1
  · cases a with
    | stim x =>
      simp [runAct] at h
      have := (applyStim_core s x).1
      rw [h] at this
      rw [core_loop this]; exact hd
    | task t dec k =>
      simp only [runAct] at h
      have hm := mem_of_getElem? h
      cases t with
      | loop => simp [step, stepLoop, hd] at hm
      | loopTimeout =>
        simp only [step, stepLoopTimeout, hd] at hm
        repeat' split at hm
        all_goals simp at hm
      | node => exact (stepNode_stopped hs hm).2
      | dev d => rw [core_loop (stepDev_core hm).1]; exact hd
      | user j => exact (stepUser_stopped hs hm).2

theorem nothing_after_stop (cd : Nat) (acts more : List Act) (s s' : St) (tr tr' : List Obs)
    (h : runActs (init cd) acts = some (s, tr)) (hd : s.loop = .done)
    (h' : runActs s more = some (s', tr')) :
    (∀ o ∈ tr', ∀ id k dv sq bd t dc, o = Obs.call id k dv sq bd t dc → k = .disconnect) ∧
    s'.online = false ∧ s'.birthed = false := by
  have hi := Inv_reach h
  have := runActs_trace (fun t => onlyDisc t = true) rfl (fun a b ha hb => by simp [onlyDisc_append, ha, hb])
    (fun s => Inv s ∧ s.loop = .done) (fun _ _ _ _ hp h => runAct_stopped hp h) more _ _ _ ⟨hi, hd⟩ h'
  obtain ⟨h1, h2, h3⟩ := this
  have hs := Stopped_of_Inv h2 h3
  exact ⟨onlyDisc_spec h1, hs.online, hs.birthed⟩

/-! ### termination -/

@[simp] def mainPc : LoopPc → Bool
  | .sel | .polling | .sendCs _ | .awaitWill _ => true
  | _ => false

@[simp] def phase : LoopPc → Nat
  | .done => 0 | .sendStopped => 1 | .forceAwaitWill _ => 2 | .forceSendCs _ => 3
  | .stopCheck | .stopPolling | .stopSendCs _ | .stopAwaitWill _ => 4
  | .sel | .polling => 5 | .awaitWill _ => 6 | .sendCs _ => 7 | .start => 8

@[simp] def nodeRank : NodePc → Nat
  | .idle => 0 | .nbDone _ _ _ => 1 | .waitNb _ _ _ => 2 | .birthStart _ _ => 2 | .subDone _ => 3
  | .waitSub _ => 4 | .inCb _ => 3 | .done => 0

def nodeM (s : St) : Nat := (if s.cs.isSome then 10 else 0) + nodeRank s.node

def adv (s : St) : Nat :=
  match s.stopDeadline with
  | some dl => if dl ≤ s.wall then 0 else 1
  | none => 0

def measure (s : St) : Nat := phase s.loop * 100 + adv s * 50 + nodeM s

structure Extra (s : St) : Prop where
  resolved : ∀ c ∈ s.calls, c.res.isSome = true
  nocb : s.nodeCbPark = false
  stop : mainPc s.loop = true → s.stop = true
  started : s.loop ≠ .start

structure NodeStep (s s' : St) : Prop where
  extra : Extra s'
  loop : s'.loop = s.loop
  dl : s'.stopDeadline = s.stopDeadline
  wall : s'.wall = s.wall
  dec : nodeM s' < nodeM s

theorem callRes_some {s : St} {id : Nat} (h1 : ∀ c ∈ s.calls, c.res.isSome = true) (hlt : id < s.calls.length) :
    ∃ ok, callRes s id = some ok := by
  have hm : s.calls[id] ∈ s.calls := List.getElem_mem hlt
  have := h1 _ hm
  simp only [callRes, List.getElem?_eq_getElem hlt, Option.bind_some]
  exact Option.isSome_iff_exists.1 this

theorem NodeStep.mk' {s s' : St} (h1 : ∀ c ∈ s'.calls, c.res.isSome = true) (h2 : s'.nodeCbPark = false)
    (h3 : s'.loop = s.loop) (h4 : s'.stop = s.stop) (h5 : s'.stopDeadline = s.stopDeadline) (h6 : s'.wall = s.wall)
    (h7 : nodeM s' < nodeM s) (he : Extra s) : NodeStep s s' :=
  ⟨⟨h1, h2, by rw [h3, h4]; exact he.stop, by rw [h3]; exact he.started⟩, h3, h5, h6, h7⟩

set_option maxHeartbeats 800000 in
theorem node_progress {s : St} (hi : Inv s) (he : Extra s) (hcs : s.cs.isSome = true) (hnd : s.loop ≠ .done) :
    ∃ r ∈ stepNode s .rej, NodeStep s r.1 := by
  have hwait := hi.wait_lt
  have hndone := hi.ndone
  have hcsst := hi.cs_stopped
  clear hi
  have e1 := he.resolved
  have e2 := he.nocb
  cases hn : s.node with
  | idle =>
    cases hc : s.cs with
    | none => simp [hc] at hcs
    | some m =>
      cases m with
      | online =>
        simp only [stepNode, hn, hc, handOver, callRes]
        repeat' split
        all_goals simp
        all_goals (apply NodeStep.mk' (he := he) <;> simp_all [nodeM] <;> (try grind))
      | offline o =>
        simp only [stepNode, hn, hc]
        repeat' split
        all_goals simp
        all_goals (apply NodeStep.mk' (he := he) <;> simp_all [nodeM] <;> (try grind))
      | stopped => exact absurd (hcsst hc) hnd
  | waitSub id =>
    obtain ⟨ok, hok⟩ := callRes_some e1 (hwait id (by simp [hn]))
    simp only [stepNode, hn, hok]
    simp
    apply NodeStep.mk' (he := he) <;> simp_all [nodeM] <;> (try grind)
  | subDone ok =>
    simp only [stepNode, hn]
    split
    all_goals simp
    all_goals (apply NodeStep.mk' (he := he) <;> simp_all [nodeM] <;> (try grind))
  | birthStart bt f =>
    simp [stepNode, hn, nodeBirthStart, handOver, callRes]
    apply NodeStep.mk' (he := he) <;> simp_all [nodeM] <;> (try grind)
  | waitNb id bt f =>
    obtain ⟨ok, hok⟩ := callRes_some e1 (hwait id (by simp [hn]))
    simp only [stepNode, hn, hok]
    simp
    apply NodeStep.mk' (he := he) <;> simp_all [nodeM] <;> (try grind)
  | nbDone ok bt f =>
    cases ok <;> cases f <;> simp [stepNode, hn]
    all_goals (apply NodeStep.mk' (he := he) <;> simp_all [nodeM] <;> (try grind))
  | inCb rb =>
    simp only [stepNode, hn, e2]
    repeat' split
    all_goals (try contradiction)
    all_goals simp
    all_goals (apply NodeStep.mk' (he := he) <;> simp_all [nodeM] <;> (try grind))
  | done => exact absurd (hndone hn) hnd

def Allowed (a : Act) : Prop := (∃ t dec k, a = Act.task t dec k) ∨ (∃ ms, a = Act.stim (.advance ms))

theorem nodeM_le (s : St) : nodeM s ≤ 14 := by
  unfold nodeM
  cases s.node <;> split <;> simp

theorem adv_le (s : St) : adv s ≤ 1 := by
  unfold adv
  repeat' split
  all_goals simp

theorem measure_lt_of_phase {s s' : St} (h : phase s'.loop < phase s.loop) : measure s' < measure s := by
  have := nodeM_le s'
  have := adv_le s'
  unfold measure
  omega

/-- a step of the result type of `progress` -/
def Progress (s : St) : Prop :=
  ∃ a s' o, Allowed a ∧ runAct s a = some (s', o) ∧ Extra s' ∧ measure s' < measure s

theorem progress_node {s : St} (hi : Inv s) (he : Extra s) (hcs : s.cs.isSome = true) (hnd : s.loop ≠ .done) :
    Progress s := by
  obtain ⟨r, hr, hs⟩ := node_progress hi he hcs hnd
  obtain ⟨k, hk⟩ := List.getElem?_of_mem hr
  refine ⟨.task .node .rej k, r.1, r.2, Or.inl ⟨_, _, _, rfl⟩, by simpa [runAct, step] using hk, hs.extra, ?_⟩
  have := hs.dec
  simp only [measure, adv, hs.loop, hs.dl, hs.wall]
  omega

/-- a loop step that lowers the phase -/
theorem progress_loop {s : St} (he : Extra s) {r : St × List Obs} {k : Nat} (hk : (stepLoop s)[k]? = some r)
    (hcalls : r.1.calls = s.calls) (hcb : r.1.nodeCbPark = s.nodeCbPark)
    (hstop : mainPc r.1.loop = true → r.1.stop = true) (hstart : r.1.loop ≠ .start)
    (hph : phase r.1.loop < phase s.loop) : Progress s :=
  ⟨.task .loop .acc k, r.1, r.2, Or.inl ⟨_, _, _, rfl⟩, by simpa [runAct, step] using hk,
    ⟨by rw [hcalls]; exact he.resolved, by rw [hcb]; exact he.nocb, hstop, hstart⟩, measure_lt_of_phase hph⟩

theorem progress_timed {s : St} (hi : Inv s) (he : Extra s) (ht : timed s.loop = true) : Progress s := by
  have hdl := hi.dl_some ht
  obtain ⟨dl, hdl⟩ := Option.isSome_iff_exists.1 hdl
  by_cases hle : dl ≤ s.wall
  · -- the timer fires
    have key : ∃ r, (stepLoopTimeout s)[0]? = some r ∧ r.1.calls = s.calls ∧ r.1.nodeCbPark = s.nodeCbPark ∧
        mainPc r.1.loop = false ∧ r.1.loop ≠ .start ∧ phase r.1.loop < phase s.loop := by
      cases hl : s.loop <;> simp [hl] at ht
      all_goals cases hc : s.cs
      all_goals simp [stepLoopTimeout, hdl, hle, hl, newOneshot, hc]
    obtain ⟨r, hr, h1, h2, h3, h4, h5⟩ := key
    exact ⟨.task .loopTimeout .acc 0, r.1, r.2, Or.inl ⟨_, _, _, rfl⟩, by simpa [runAct, step] using hr,
      ⟨by rw [h1]; exact he.resolved, by rw [h2]; exact he.nocb, fun h => absurd h (by rw [h3]; simp), h4⟩, measure_lt_of_phase h5⟩
  · -- let time pass
    refine ⟨.stim (.advance (dl - s.wall)), _, _, Or.inr ⟨_, rfl⟩, rfl, ?_, ?_⟩
    · exact ⟨he.resolved, he.nocb, he.stop, he.started⟩
    · simp only [measure, adv, hdl, nodeM]
      have : dl ≤ s.wall + (dl - s.wall) := by omega
      simp [this, hle]

theorem reply?_isSome_of_mem {s : St} {o : Nat} (h : ∃ p ∈ s.oneshots, p.1 = o) : ∃ r, reply? s o = some r := by
  cases hr : reply? s o with
  | some r => exact ⟨r, rfl⟩
  | none =>
    obtain ⟨p, hp, rfl⟩ := h
    exact absurd hp (reply?_none hr p.2)

/-- awaiting a will reply: either it is there (loop step) or the node still has to consume the message -/
theorem will_cases {s : St} (hi : Inv s) {o : Nat} (hw : willAw s.loop = some o) :
    (∃ r, reply? s o = some r) ∨ s.cs.isSome = true := by
  rcases hi.aw_reply o hw with h | h
  · right; simp [h]
  · left; exact reply?_isSome_of_mem h

theorem progress {s : St} (hi : Inv s) (he : Extra s) (hnd : s.loop ≠ .done) : Progress s := by
  cases hl : s.loop with
  | start => exact absurd hl he.started
  | sel =>
    have hs := he.stop (by simp [hl])
    exact progress_loop he (k := 0) (r := ({ s with stop := false, loop := .stopCheck, stopDeadline := some (s.wall + 1000) }, []))
      (by simp [stepLoop, hl, hs]) rfl rfl (by simp) (by simp) (by simp [hl])
  | polling =>
    have hs := he.stop (by simp [hl])
    exact progress_loop he (k := 0) (r := ({ s with stop := false, loop := .stopCheck, stopDeadline := some (s.wall + 1000) }, []))
      (by simp [stepLoop, hl, hs]) rfl rfl (by simp) (by simp) (by simp [hl])
  | sendCs m =>
    have hs := he.stop (by simp [hl])
    cases hc : s.cs with
    | some _ => exact progress_node hi he (by simp [hc]) hnd
    | none =>
      cases m with
      | online =>
        exact progress_loop he (k := 0) (r := ({ s with cs := some .online, loop := .sel }, []))
          (by simp [stepLoop, hl, hc]) rfl rfl (by intro _; exact hs) (by simp) (by simp [hl])
      | offline o =>
        exact progress_loop he (k := 0) (r := ({ s with cs := some (.offline o), loop := .awaitWill o }, []))
          (by simp [stepLoop, hl, hc]) rfl rfl (by intro _; exact hs) (by simp) (by simp [hl])
      | stopped => exact absurd hl hi.sendcs_ns
  | awaitWill o =>
    have hs := he.stop (by simp [hl])
    rcases will_cases hi (o := o) (by simp [hl]) with ⟨r, hr⟩ | hc
    · cases r with
      | some bd =>
        exact progress_loop he (k := 0) (r := ({ s with will := some bd, loop := .sel }, [.will bd]))
          (by simp [stepLoop, hl, hr]) rfl rfl (by intro _; exact hs) (by simp) (by simp [hl])
      | none =>
        exact progress_loop he (k := 0) (r := ({ s with loop := .sel }, []))
          (by simp [stepLoop, hl, hr]) rfl rfl (by intro _; exact hs) (by simp) (by simp [hl])
    · exact progress_node hi he hc hnd
  | stopCheck => exact progress_timed hi he (by simp [hl])
  | stopPolling => exact progress_timed hi he (by simp [hl])
  | stopSendCs o => exact progress_timed hi he (by simp [hl])
  | stopAwaitWill o => exact progress_timed hi he (by simp [hl])
  | forceSendCs o =>
    cases hc : s.cs with
    | some _ => exact progress_node hi he (by simp [hc]) hnd
    | none =>
      exact progress_loop he (k := 0) (r := ({ s with cs := some (.offline o), loop := .forceAwaitWill o }, []))
        (by simp [stepLoop, hl, hc]) rfl rfl (by simp) (by simp) (by simp [hl])
  | forceAwaitWill o =>
    rcases will_cases hi (o := o) (by simp [hl]) with ⟨r, hr⟩ | hc
    · cases r with
      | some bd =>
        exact progress_loop he (k := 0) (r := ({ s with will := some bd, loop := .sendStopped }, [.will bd]))
          (by simp [stepLoop, hl, hr]) rfl rfl (by simp) (by simp) (by simp [hl])
      | none =>
        exact progress_loop he (k := 0) (r := ({ s with loop := .sendStopped }, []))
          (by simp [stepLoop, hl, hr]) rfl rfl (by simp) (by simp) (by simp [hl])
    · exact progress_node hi he hc hnd
  | sendStopped =>
    cases hc : s.cs with
    | some _ => exact progress_node hi he (by simp [hc]) hnd
    | none =>
      exact progress_loop he (k := 0) (r := ({ s with cs := some .stopped, running := false, loop := .done }, [.runReturned]))
        (by simp [stepLoop, hl, hc]) rfl rfl (by simp) (by simp) (by simp [hl])
  | done => exact absurd hl hnd

theorem terminate (n : Nat) : ∀ s : St, measure s ≤ n → Inv s → Extra s →
    ∃ sched s' tr', (∀ a ∈ sched, Allowed a) ∧ runActs s sched = some (s', tr') ∧ s'.loop = .done := by
  induction n with
  | zero =>
    intro s hm hi he
    by_cases hd : s.loop = .done
    · exact ⟨[], s, [], by simp, rfl, hd⟩
    · obtain ⟨a, s1, o, _, _, _, hlt⟩ := progress hi he hd
      omega
  | succ n ih =>
    intro s hm hi he
    by_cases hd : s.loop = .done
    · exact ⟨[], s, [], by simp, rfl, hd⟩
    · obtain ⟨a, s1, o, ha, hr, he1, hlt⟩ := progress hi he hd
      obtain ⟨sched, s2, tr2, hall, hrun, hd2⟩ := ih s1 (by omega) (Inv_runAct hi hr) he1
      refine ⟨a :: sched, s2, o ++ tr2, ?_, ?_, hd2⟩
      · intro b hb
        simp at hb
        rcases hb with rfl | hb
        · exact ha
        · exact hall b hb
      · simp [runActs, hr, hrun]

theorem termination_partial (cd : Nat) (acts : List Act) (s : St) (tr : List Obs)
    (h : runActs (init cd) acts = some (s, tr))
    (hstop : s.stop = true ∨ s.loop = .stopCheck ∨ s.loop = .stopPolling ∨ (∃ o, s.loop = .stopSendCs o) ∨
             (∃ o, s.loop = .stopAwaitWill o) ∨ (∃ o, s.loop = .forceSendCs o) ∨ (∃ o, s.loop = .forceAwaitWill o) ∨
             s.loop = .sendStopped)
    (hstarted : s.loop ≠ .start)
    (hnopark : ∀ c ∈ s.calls, c.res.isSome = true) (hcb : s.nodeCbPark = false ∧ s.devCbPark = [])
    (_htimer : ∀ dl, s.stopDeadline = some dl → dl ≤ s.wall) :
    ∃ sched s' tr', (∀ a ∈ sched, (∃ t dec k, a = Act.task t dec k) ∨ (∃ ms, a = Act.stim (.advance ms))) ∧
      runActs s sched = some (s', tr') ∧ s'.loop = .done := by
  have he : Extra s := by
    refine ⟨hnopark, hcb.1, ?_, hstarted⟩
    intro hm
    rcases hstop with h | h | h | ⟨o, h⟩ | ⟨o, h⟩ | ⟨o, h⟩ | ⟨o, h⟩ | h
    · exact h
    all_goals (rw [h] at hm; simp at hm)
  exact terminate _ s (Nat.le_refl _) (Inv_reach h) he

end Srad.Eon.P20
