import SradModel.Model.EonSpec

namespace Srad.Eon.P20

end Srad.Eon.P20
