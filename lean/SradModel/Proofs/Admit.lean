/-
Helper lemmas for C14 (admission model, `SradModel/Model/Admit.lean`): each loop / macro of
metrics.rs is characterised by the declarative conditions of `Model/AdmitSpec.lean`.
-/
import SradModel.Model.AdmitSpec

namespace Srad.Admit
open Srad.Codec

/-! ### datatypes -/

theorem ofCode_none_iff (c : Nat) : DT.ofCode c = none ↔ 34 < c := by
  simp [DT.ofCode, DT.all]
  omega

theorem ofCode_eq_some_iff (c : Nat) (d : DT) : DT.ofCode c = some d ↔ c = d.code := by
  constructor
  · intro h
    have hc : c < 35 := by
      rcases Nat.lt_or_ge c 35 with h' | h'
      · exact h'
      · have := (ofCode_none_iff c).2 (by omega); simp [this] at h
    have key : ∀ c, c < 35 → ∀ d, DT.ofCode c = some d → c = d.code := by decide
    exact key c hc d h
  · intro h; subst h; cases d <;> decide

theorem code_inj (d d' : DT) (h : d.code = d'.code) : d = d' := by
  have h1 := (ofCode_eq_some_iff d.code d).2 rfl
  have h2 := (ofCode_eq_some_iff d.code d').2 h
  rw [h1] at h2
  exact Option.some.inj h2

theorem code_le (d : DT) : d.code ≤ 34 := by cases d <;> decide

/-! ### `Pointwise` -/

theorem pointwise_nil_left {α β} {R : α → β → Prop} {r : List β} : Pointwise R [] r ↔ r = [] := by
  constructor
  · intro h; cases h; rfl
  · intro h; subst h; exact .nil

theorem pointwise_cons_left {α β} {R : α → β → Prop} {a : α} {l : List α} {r : List β} :
    Pointwise R (a :: l) r ↔ ∃ b t, r = b :: t ∧ R a b ∧ Pointwise R l t := by
  constructor
  · intro h; cases h with | cons h1 h2 => exact ⟨_, _, rfl, h1, h2⟩
  · rintro ⟨b, t, rfl, h1, h2⟩; exact .cons h1 h2

theorem pointwise_exists {α β} {R : α → β → Prop} (l : List α) (h : ∀ a ∈ l, ∃ b, R a b) :
    ∃ r, Pointwise R l r := by
  induction l with
  | nil => exact ⟨[], .nil⟩
  | cons a t ih =>
    obtain ⟨b, hb⟩ := h a (by simp)
    obtain ⟨r, hr⟩ := ih (fun x hx => h x (by simp [hx]))
    exact ⟨b :: r, .cons hb hr⟩

theorem pointwise_length {α β} {R : α → β → Prop} {l : List α} {r : List β}
    (h : Pointwise R l r) : l.length = r.length := by
  induction h with
  | nil => rfl
  | cons _ _ ih => simp [ih]

/-! ### property sets -/

theorem decodePropVal_ne_none_iff (v : PropVal) : decodePropVal v ≠ none ↔ PropValOk v := by
  rcases v with ⟨ty, isNull, value⟩
  unfold decodePropVal PropValOk ValidDatatype
  rcases value with _ | x <;> rcases isNull with _ | (_ | _) <;> rcases ty with _ | t <;> simp <;>
    (rcases h : DT.ofCode t with _ | d
     · have := (ofCode_none_iff t).1 h; simp; omega
     · have := (ofCode_eq_some_iff t d).1 h; have := code_le d; simp; omega)

theorem decodePairs_ne_none_iff (ks : List Bytes) (vs : List PropVal) (acc : List (Bytes × DPropVal))
    (hlen : ks.length = vs.length) :
    decodePairs ks vs acc ≠ none ↔ ∀ v ∈ vs, PropValOk v := by
  induction ks generalizing vs acc with
  | nil =>
    cases vs with
    | nil => simp [decodePairs]
    | cons v vs => simp at hlen
  | cons k ks ih =>
    cases vs with
    | nil => simp at hlen
    | cons v vs =>
      simp only [List.length_cons, Nat.add_right_cancel_iff] at hlen
      simp only [decodePairs, List.mem_cons, forall_eq_or_imp]
      rcases h : decodePropVal v with _ | d
      · have : ¬ PropValOk v := fun hv => (decodePropVal_ne_none_iff v).2 hv h
        simp [this]
      · have : PropValOk v := (decodePropVal_ne_none_iff v).1 (by simp [h])
        simp only [this, true_and]
        exact ih vs _ hlen

theorem decodePSet_ne_none_iff (ps : PSet) : decodePSet ps ≠ none ↔ PSetOk ps := by
  unfold decodePSet PSetOk
  by_cases h : ps.keys.length = ps.values.length
  · simp only [h, ne_eq, not_true_eq_false, ↓reduceIte, true_and]
    exact decodePairs_ne_none_iff _ _ _ h
  · simp [h]

/-! ### `bdseq_from_payload_metrics` -/

theorem fromProto_i64_iff (v : PV) (n : Nat) : fromProto .i64 v = .ok (.n n) ↔ v = .long n := by
  cases v <;> simp [fromProto]

theorem fromProto_i64_cases (v : PV) :
    (∃ n, v = .long n ∧ fromProto .i64 v = .ok (.n n)) ∨ (fromProto .i64 v = .err .variant ∧ ∀ n, v ≠ .long n) := by
  cases v <;> simp [fromProto]

theorem toI64_range (n : Nat) (h : n < 2 ^ 64) : ¬ (toI64 n > 255 ∨ toI64 n < 0) ↔ n ≤ 255 := by
  unfold toI64
  split <;> omega

theorem hasBdSeq_cons (x : Metric) (t : List Metric) (b : Nat) :
    HasBdSeq (x :: t) b ↔
      (x.name = some BDSEQ ∧ x.value = some (.long b) ∧ b ≤ 255) ∨
      (x.name ≠ some BDSEQ ∧ HasBdSeq t b) := by
  constructor
  · rintro ⟨pre, m, post, heq, hpre, hn, hv, hb⟩
    rcases pre with _ | ⟨p, pre⟩
    · simp only [List.nil_append, List.cons.injEq] at heq
      obtain ⟨rfl, rfl⟩ := heq
      exact .inl ⟨hn, hv, hb⟩
    · simp only [List.cons_append, List.cons.injEq] at heq
      obtain ⟨rfl, rfl⟩ := heq
      exact .inr ⟨hpre _ (by simp), pre, m, post, rfl, fun y hy => hpre y (by simp [hy]), hn, hv, hb⟩
  · rintro (⟨hn, hv, hb⟩ | ⟨hx, pre, m, post, rfl, hpre, hn, hv, hb⟩)
    · exact ⟨[], x, t, rfl, by simp, hn, hv, hb⟩
    · refine ⟨x :: pre, m, post, rfl, ?_, hn, hv, hb⟩
      intro y hy
      rcases List.mem_cons.1 hy with rfl | hy
      · exact hx
      · exact hpre y hy

theorem bdseq_iff (ms : List Metric) (hty : LongsAreU64 ms) (b : Nat) :
    bdseqFromMetrics ms = some b ↔ HasBdSeq ms b := by
  induction ms with
  | nil =>
    simp only [bdseqFromMetrics, HasBdSeq]
    constructor
    · intro h; cases h
    · rintro ⟨pre, m, post, h, _⟩; simp at h
  | cons x t ih =>
    have ih := ih (fun m hm => hty m (by simp [hm]))
    rw [hasBdSeq_cons]
    simp only [bdseqFromMetrics]
    rcases hn : x.name with _ | name
    · simp [ih]
    · simp only []
      by_cases hne : name = BDSEQ
      · subst hne
        simp only [ne_eq, not_true_eq_false, ↓reduceIte, true_and, false_and, or_false]
        rcases hv : x.value with _ | v
        · simp
        · simp only []
          rcases fromProto_i64_cases v with ⟨n, rfl, hf⟩ | ⟨hf, hnot⟩
          · have hn64 := hty x (by simp) n hv
            have hr := toI64_range n hn64
            simp only [hf]
            by_cases hle : n ≤ 255
            · have := hr.2 hle
              simp only [this, ↓reduceIte, Option.some.injEq, PV.long.injEq]
              have : n % 256 = n := Nat.mod_eq_of_lt (by omega)
              rw [this]
              constructor
              · rintro rfl; exact ⟨rfl, hle⟩
              · rintro ⟨h, _⟩; exact h
            · have : toI64 n > 255 ∨ toI64 n < 0 := by
                by_cases h : toI64 n > 255 ∨ toI64 n < 0
                · exact h
                · exact absurd (hr.1 h) hle
              simp only [this, ↓reduceIte, Option.some.injEq, PV.long.injEq]
              constructor
              · intro h; cases h
              · rintro ⟨rfl, h⟩; exact absurd h hle
          · simp only [hf]
            constructor
            · intro h; cases h
            · rintro ⟨h, _⟩; exact absurd (Option.some.inj h) (hnot b)
      · simp [hne, ih]

section
variable {π : Type} (decodePS : PSet → Option π)

/-! ### `metric_details_try_from_payload_metric!` -/

theorem getD_false (b : Option Bool) : b.getD false = (b == some true) := by
  cases b with | none => rfl | some v => cases v <;> rfl

theorem metricDetails_ok_iff (m : Metric) (d : Details π) :
    metricDetails decodePS m = .ok d ↔ MetricOk decodePS m ∧ DetailsOf decodePS m d := by
  rcases m with ⟨name, alias, ts, dt, hist, trans, isNull, mta, props, value⟩
  rcases d with ⟨dv, dp, dm, dts, dh, dtr⟩
  simp only [metricDetails, MetricOk, DetailsOf, getD_false]
  rcases ts with _ | ts <;> rcases value with _ | value <;> rcases props with _ | ps <;>
    rcases isNull with _ | (_ | _) <;> (try cases hps : decodePS ps) <;> simp [*] <;> grind

theorem detailsOf_exists (m : Metric) (hok : MetricOk decodePS m) :
    ∃ d : Details π, DetailsOf decodePS m d :=
  match hts : m.timestamp with
  | none => absurd hts hok.1
  | some ts => ⟨⟨m.value, m.properties.bind decodePS, m.metadata, ts, _, _⟩, hts, rfl, rfl, rfl, rfl, rfl⟩

theorem metricDetails_err (m : Metric) (e : MErr) (h : metricDetails decodePS m = .error e) :
    ¬ MetricOk decodePS m := by
  intro hok
  obtain ⟨d, hd⟩ := detailsOf_exists decodePS m hok
  have := (metricDetails_ok_iff decodePS m d).2 ⟨hok, hd⟩
  simp [h] at this

theorem detailsOf_unique (m : Metric) (d d' : Details π)
    (h : DetailsOf decodePS m d) (h' : DetailsOf decodePS m d') : d = d' := by
  rcases d with ⟨dv, dp, dm, dts, dh, dtr⟩
  rcases d' with ⟨dv', dp', dm', dts', dh', dtr'⟩
  simp only [DetailsOf] at h h'
  obtain ⟨h1, h2, h3, h4, h5, h6⟩ := h
  obtain ⟨h1', h2', h3', h4', h5', h6'⟩ := h'
  have : dts = dts' := by rw [h1] at h1'; exact Option.some.inj h1'
  simp_all

/-! ### `get_metric_birth_details_from_birth_metrics` -/

theorem birthOf_exists (m : Metric) (hok : BirthMetricOk decodePS m) :
    ∃ x : BirthDetails × Details π, BirthOf decodePS m x := by
  obtain ⟨hn, ⟨c, hc, hv⟩, hm⟩ := hok
  obtain ⟨d, hd⟩ := detailsOf_exists decodePS m hm
  rcases hname : m.name with _ | name
  · exact absurd hname hn
  · rcases hdt : DT.ofCode c with _ | dt
    · have := (ofCode_none_iff c).1 hdt
      unfold ValidDatatype at hv; omega
    · have := (ofCode_eq_some_iff c dt).1 hdt
      exact ⟨(⟨name, m.alias, dt⟩, d), hname, rfl, by simp [hc, this], hd⟩

theorem birthMetrics_ok_iff (ms : List Metric) (r : List (BirthDetails × Details π)) :
    birthMetrics decodePS ms = .ok r ↔
      (∀ m ∈ ms, BirthMetricOk decodePS m) ∧ Pointwise (BirthOf decodePS) ms r := by
  induction ms generalizing r with
  | nil => simp [birthMetrics, pointwise_nil_left, eq_comm]
  | cons x t ih =>
    rw [pointwise_cons_left]
    simp only [birthMetrics, List.mem_cons, forall_eq_or_imp]
    rcases hdt : x.datatype with _ | c
    · simp [BirthMetricOk, BirthOf, hdt]
    · simp only []
      rcases hc : DT.ofCode c with _ | dt
      · have := (ofCode_none_iff c).1 hc
        simp [BirthMetricOk, BirthOf, hdt, ValidDatatype]
        omega
      · have hcode := (ofCode_eq_some_iff c dt).1 hc
        have hle := code_le dt
        simp only []
        rcases hn : x.name with _ | name
        · simp [BirthMetricOk, BirthOf, hn]
        · simp only []
          rcases hd : metricDetails decodePS x with e | d
          · have hno := metricDetails_err decodePS x e hd
            simp [BirthMetricOk, hno]
          · have hd' := (metricDetails_ok_iff decodePS x d).1 hd
            simp only []
            rcases hb : birthMetrics decodePS t with e | r'
            · have : ¬ ∀ m ∈ t, BirthMetricOk decodePS m := by
                intro hall
                obtain ⟨r2, hr2⟩ := pointwise_exists t (fun m hm => birthOf_exists decodePS m (hall m hm))
                have := (ih r2).2 ⟨hall, hr2⟩
                simp [hb] at this
              simp; grind
            · have hr' := (ih r').1 hb
              simp only [Except.ok.injEq]
              constructor
              · rintro rfl
                exact ⟨⟨⟨hn ▸ (by simp), ⟨c, hdt, by unfold ValidDatatype; omega⟩, hd'.1⟩, hr'.1⟩,
                  _, _, rfl, ⟨hn, rfl, by simp [hdt, hcode], hd'.2⟩, hr'.2⟩
              · rintro ⟨⟨_, hall⟩, ⟨a, b⟩, t1, rfl, ⟨h1, h2, h3, h4⟩, h5⟩
                have ht := (ih t1).2 ⟨hall, h5⟩
                rw [hb] at ht
                have hbd := detailsOf_unique decodePS x d b hd'.2 h4
                rcases a with ⟨an, aa, ad⟩
                simp only [hn, hdt, Option.some.injEq] at h1 h2 h3
                have := code_inj _ _ (hcode ▸ h3)
                simp_all

/-! ### `get_metric_id_and_details_from_payload_metrics` -/

theorem idOf_exists_iff (m : Metric) : (∃ id, IdOf m id) ↔ (m.name ≠ none ∨ m.alias ≠ none) := by
  unfold IdOf
  rcases m.alias with _ | a <;> rcases m.name with _ | n <;> simp

theorem idOf_unique (m : Metric) (a b : MId) (h : IdOf m a) (h' : IdOf m b) : a = b := by
  unfold IdOf at h h'
  revert h h'
  rcases m.alias with _ | x <;> rcases m.name with _ | n <;> simp <;> (intro h1 h2; rw [h1, h2])

theorem dataOf_exists (m : Metric) (hok : DataMetricOk decodePS m) :
    ∃ x : MId × Details π, DataOf decodePS m x := by
  obtain ⟨hn, hm⟩ := hok
  obtain ⟨d, hd⟩ := detailsOf_exists decodePS m hm
  obtain ⟨id, hid⟩ := (idOf_exists_iff m).2 hn
  exact ⟨(id, d), hid, hd⟩

theorem dataMetrics_ok_iff (ms : List Metric) (r : List (MId × Details π)) :
    dataMetrics decodePS ms = .ok r ↔
      (∀ m ∈ ms, DataMetricOk decodePS m) ∧ Pointwise (DataOf decodePS) ms r := by
  induction ms generalizing r with
  | nil => simp [dataMetrics, pointwise_nil_left, eq_comm]
  | cons x t ih =>
    rw [pointwise_cons_left]
    simp only [dataMetrics, List.mem_cons, forall_eq_or_imp]
    have hid : ∀ id, metricId x = .ok id ↔ IdOf x id := by
      intro id; unfold IdOf metricId
      rcases x.alias with _ | a <;> rcases x.name with _ | n <;> simp [eq_comm]
    rcases hg : metricId x with e | id
    · have : ¬ (x.name ≠ none ∨ x.alias ≠ none) := by
        intro h
        obtain ⟨id, hid'⟩ := (idOf_exists_iff x).2 h
        have := (hid id).2 hid'
        simp [hg] at this
      simp [DataMetricOk, this]
    · have hid' := (hid id).1 hg
      have hna := (idOf_exists_iff x).1 ⟨id, hid'⟩
      simp only []
      rcases hd : metricDetails decodePS x with e | d
      · have hno := metricDetails_err decodePS x e hd
        simp [DataMetricOk, hno]
      · have hd' := (metricDetails_ok_iff decodePS x d).1 hd
        simp only []
        rcases hb : dataMetrics decodePS t with e | r'
        · have : ¬ ∀ m ∈ t, DataMetricOk decodePS m := by
            intro hall
            obtain ⟨r2, hr2⟩ := pointwise_exists t (fun m hm => dataOf_exists decodePS m (hall m hm))
            have := (ih r2).2 ⟨hall, hr2⟩
            simp [hb] at this
          simp; grind
        · have hr' := (ih r').1 hb
          simp only [Except.ok.injEq]
          constructor
          · rintro rfl
            exact ⟨⟨⟨hna, hd'.1⟩, hr'.1⟩, _, _, rfl, ⟨hid', hd'.2⟩, hr'.2⟩
          · rintro ⟨⟨_, hall⟩, ⟨a, b⟩, t1, rfl, ⟨h1, h4⟩, h5⟩
            have ht := (ih t1).2 ⟨hall, h5⟩
            rw [hb] at ht
            have hbd := detailsOf_unique decodePS x d b hd'.2 h4
            have hida := idOf_unique x id a hid' h1
            simp_all

/-! ### the six `TryFrom<Payload>` -/

theorem except_error_iff {ε α} (r : Except ε α) : (∃ e, r = .error e) ↔ ¬ ∃ x, r = .ok x := by
  cases r <;> simp

theorem birth_all_exists (ms : List Metric) (h : ∀ m ∈ ms, BirthMetricOk decodePS m) :
    ∃ r, birthMetrics decodePS ms = .ok r := by
  obtain ⟨r, hr⟩ := pointwise_exists ms (fun m hm => birthOf_exists decodePS m (h m hm))
  exact ⟨r, (birthMetrics_ok_iff decodePS ms r).2 ⟨h, hr⟩⟩

theorem data_all_exists (ms : List Metric) (h : ∀ m ∈ ms, DataMetricOk decodePS m) :
    ∃ r, dataMetrics decodePS ms = .ok r := by
  obtain ⟨r, hr⟩ := pointwise_exists ms (fun m hm => dataOf_exists decodePS m (h m hm))
  exact ⟨r, (dataMetrics_ok_iff decodePS ms r).2 ⟨h, hr⟩⟩

theorem nbirth_ok_iff (p : Payload) (hty : LongsAreU64 p.metrics) (x : NBirth π) :
    nbirthTryFrom decodePS p = .ok x ↔
      WfNBirth decodePS p ∧ p.timestamp = some x.timestamp ∧ HasBdSeq p.metrics x.bdseq ∧
      Pointwise (BirthOf decodePS) p.metrics x.metrics := by
  rcases x with ⟨xb, xt, xm⟩
  unfold nbirthTryFrom WfNBirth
  rcases hs : p.seq with _ | s
  · simp
  · by_cases hs0 : s = 0
    · subst hs0
      simp only [ne_eq, not_true_eq_false, ↓reduceIte, true_and]
      rcases hts : p.timestamp with _ | ts
      · simp
      · simp only []
        rcases hb : bdseqFromMetrics p.metrics with _ | b
        · have : ¬ ∃ b, HasBdSeq p.metrics b := by
            rintro ⟨b, h⟩
            have := (bdseq_iff p.metrics hty b).2 h
            simp [hb] at this
          simp [this]
        · have hb' := (bdseq_iff p.metrics hty b).1 hb
          simp only []
          rcases hm : birthMetrics decodePS p.metrics with e | md
          · have : ¬ ∀ m ∈ p.metrics, BirthMetricOk decodePS m := by
              intro h
              obtain ⟨r, hr⟩ := birth_all_exists decodePS p.metrics h
              simp [hm] at hr
            simp [this]
          · have hm' := (birthMetrics_ok_iff decodePS p.metrics md).1 hm
            simp only [Except.ok.injEq, NBirth.mk.injEq, reduceCtorEq, not_false_eq_true,
              true_and, Option.some.injEq]
            constructor
            · rintro ⟨rfl, rfl, rfl⟩
              exact ⟨⟨⟨_, hb'⟩, hm'.1⟩, rfl, hb', hm'.2⟩
            · rintro ⟨_, rfl, hb2, hm2⟩
              have h1 := (bdseq_iff p.metrics hty xb).2 hb2
              have h2 := (birthMetrics_ok_iff decodePS p.metrics xm).2 ⟨hm'.1, hm2⟩
              rw [hb] at h1; rw [hm] at h2
              simp_all
    · simp [hs0]

theorem ndeath_ok_iff (p : Payload) (hty : LongsAreU64 p.metrics) (x : NDeath) :
    ndeathTryFrom p = .ok x ↔ WfNDeath p ∧ HasBdSeq p.metrics x.bdseq := by
  rcases x with ⟨xb⟩
  unfold ndeathTryFrom WfNDeath
  rcases hb : bdseqFromMetrics p.metrics with _ | b
  · have : ∀ b, ¬ HasBdSeq p.metrics b := by
      intro b h
      have := (bdseq_iff p.metrics hty b).2 h
      simp [hb] at this
    simp [this]
  · have hb' := (bdseq_iff p.metrics hty b).1 hb
    simp only [Except.ok.injEq, NDeath.mk.injEq]
    constructor
    · rintro rfl; exact ⟨⟨_, hb'⟩, hb'⟩
    · rintro ⟨_, h⟩
      have := (bdseq_iff p.metrics hty xb).2 h
      rw [hb] at this; exact Option.some.inj this

theorem ndata_ok_iff (p : Payload) (x : NData π) :
    ndataTryFrom decodePS p = .ok x ↔
      WfData decodePS p ∧ (∃ s, p.seq = some s ∧ x.seq = s % 256) ∧
      p.timestamp = some x.timestamp ∧ Pointwise (DataOf decodePS) p.metrics x.metrics := by
  rcases x with ⟨xs, xt, xm⟩
  unfold ndataTryFrom WfData
  rcases hs : p.seq with _ | s
  · simp
  · rcases hts : p.timestamp with _ | ts
    · simp
    · simp only []
      rcases hm : dataMetrics decodePS p.metrics with e | md
      · have : ¬ ∀ m ∈ p.metrics, DataMetricOk decodePS m := by
          intro h
          obtain ⟨r, hr⟩ := data_all_exists decodePS p.metrics h
          simp [hm] at hr
        simp [this]
      · have hm' := (dataMetrics_ok_iff decodePS p.metrics md).1 hm
        simp only [Except.ok.injEq, NData.mk.injEq, ne_eq, reduceCtorEq, not_false_eq_true,
          true_and, Option.some.injEq, exists_eq_left']
        constructor
        · rintro ⟨rfl, rfl, rfl⟩
          exact ⟨hm'.1, rfl, rfl, hm'.2⟩
        · rintro ⟨_, rfl, rfl, hm2⟩
          have h2 := (dataMetrics_ok_iff decodePS p.metrics xm).2 ⟨hm'.1, hm2⟩
          rw [hm] at h2
          simp_all

theorem ddata_ok_iff (p : Payload) (x : DData π) :
    ddataTryFrom decodePS p = .ok x ↔
      WfData decodePS p ∧ (∃ s, p.seq = some s ∧ x.seq = s % 256) ∧
      p.timestamp = some x.timestamp ∧ Pointwise (DataOf decodePS) p.metrics x.metrics := by
  rcases x with ⟨xs, xt, xm⟩
  unfold ddataTryFrom WfData
  rcases hs : p.seq with _ | s
  · simp
  · rcases hts : p.timestamp with _ | ts
    · simp
    · simp only []
      rcases hm : dataMetrics decodePS p.metrics with e | md
      · have : ¬ ∀ m ∈ p.metrics, DataMetricOk decodePS m := by
          intro h
          obtain ⟨r, hr⟩ := data_all_exists decodePS p.metrics h
          simp [hm] at hr
        simp [this]
      · have hm' := (dataMetrics_ok_iff decodePS p.metrics md).1 hm
        simp only [Except.ok.injEq, DData.mk.injEq, ne_eq, reduceCtorEq, not_false_eq_true,
          true_and, Option.some.injEq, exists_eq_left']
        constructor
        · rintro ⟨rfl, rfl, rfl⟩
          exact ⟨hm'.1, rfl, rfl, hm'.2⟩
        · rintro ⟨_, rfl, rfl, hm2⟩
          have h2 := (dataMetrics_ok_iff decodePS p.metrics xm).2 ⟨hm'.1, hm2⟩
          rw [hm] at h2
          simp_all

theorem dbirth_ok_iff (p : Payload) (x : DBirth π) :
    dbirthTryFrom decodePS p = .ok x ↔
      WfDBirth decodePS p ∧ (∃ s, p.seq = some s ∧ x.seq = s % 256) ∧
      p.timestamp = some x.timestamp ∧ Pointwise (BirthOf decodePS) p.metrics x.metrics := by
  rcases x with ⟨xs, xt, xm⟩
  unfold dbirthTryFrom WfDBirth
  rcases hs : p.seq with _ | s
  · simp
  · rcases hts : p.timestamp with _ | ts
    · simp
    · simp only []
      rcases hm : birthMetrics decodePS p.metrics with e | md
      · have : ¬ ∀ m ∈ p.metrics, BirthMetricOk decodePS m := by
          intro h
          obtain ⟨r, hr⟩ := birth_all_exists decodePS p.metrics h
          simp [hm] at hr
        simp [this]
      · have hm' := (birthMetrics_ok_iff decodePS p.metrics md).1 hm
        simp only [Except.ok.injEq, DBirth.mk.injEq, ne_eq, reduceCtorEq, not_false_eq_true,
          true_and, Option.some.injEq, exists_eq_left']
        constructor
        · rintro ⟨rfl, rfl, rfl⟩
          exact ⟨hm'.1, rfl, rfl, hm'.2⟩
        · rintro ⟨_, rfl, rfl, hm2⟩
          have h2 := (birthMetrics_ok_iff decodePS p.metrics xm).2 ⟨hm'.1, hm2⟩
          rw [hm] at h2
          simp_all

theorem ddeath_ok_iff (p : Payload) (x : DDeath) :
    ddeathTryFrom p = .ok x ↔
      WfDDeath p ∧ (∃ s, p.seq = some s ∧ x.seq = s % 256) ∧ p.timestamp = some x.timestamp := by
  rcases x with ⟨xs, xt⟩
  unfold ddeathTryFrom WfDDeath
  rcases hs : p.seq with _ | s
  · simp
  · rcases hts : p.timestamp with _ | ts
    · simp
    · simp [eq_comm]

/-! ### every well-formed message is admitted / anything else is an error -/

theorem nbirth_wf_iff (p : Payload) (hty : LongsAreU64 p.metrics) :
    (∃ x, nbirthTryFrom decodePS p = .ok x) ↔ WfNBirth decodePS p := by
  constructor
  · rintro ⟨x, h⟩; exact ((nbirth_ok_iff decodePS p hty x).1 h).1
  · intro h
    obtain ⟨_, hts, ⟨b, hb⟩, hm⟩ := id h
    obtain ⟨r, hr⟩ := pointwise_exists p.metrics (fun m hm' => birthOf_exists decodePS m (hm m hm'))
    rcases hts' : p.timestamp with _ | ts
    · exact absurd hts' hts
    · exact ⟨⟨b, ts, r⟩, (nbirth_ok_iff decodePS p hty _).2 ⟨h, hts', hb, hr⟩⟩

theorem ndeath_wf_iff (p : Payload) (hty : LongsAreU64 p.metrics) :
    (∃ x, ndeathTryFrom p = .ok x) ↔ WfNDeath p := by
  constructor
  · rintro ⟨x, h⟩; exact ((ndeath_ok_iff p hty x).1 h).1
  · intro h
    obtain ⟨b, hb⟩ := id h
    exact ⟨⟨b⟩, (ndeath_ok_iff p hty _).2 ⟨h, hb⟩⟩

theorem ndata_wf_iff (p : Payload) :
    (∃ x, ndataTryFrom decodePS p = .ok x) ↔ WfData decodePS p := by
  constructor
  · rintro ⟨x, h⟩; exact ((ndata_ok_iff decodePS p x).1 h).1
  · intro h
    obtain ⟨hs, hts, hm⟩ := id h
    obtain ⟨r, hr⟩ := pointwise_exists p.metrics (fun m hm' => dataOf_exists decodePS m (hm m hm'))
    rcases hts' : p.timestamp with _ | ts
    · exact absurd hts' hts
    · rcases hs' : p.seq with _ | sq
      · exact absurd hs' hs
      · exact ⟨⟨sq % 256, ts, r⟩, (ndata_ok_iff decodePS p _).2 ⟨h, ⟨sq, hs', rfl⟩, hts', hr⟩⟩

theorem ddata_wf_iff (p : Payload) :
    (∃ x, ddataTryFrom decodePS p = .ok x) ↔ WfData decodePS p := by
  constructor
  · rintro ⟨x, h⟩; exact ((ddata_ok_iff decodePS p x).1 h).1
  · intro h
    obtain ⟨hs, hts, hm⟩ := id h
    obtain ⟨r, hr⟩ := pointwise_exists p.metrics (fun m hm' => dataOf_exists decodePS m (hm m hm'))
    rcases hts' : p.timestamp with _ | ts
    · exact absurd hts' hts
    · rcases hs' : p.seq with _ | sq
      · exact absurd hs' hs
      · exact ⟨⟨sq % 256, ts, r⟩, (ddata_ok_iff decodePS p _).2 ⟨h, ⟨sq, hs', rfl⟩, hts', hr⟩⟩

theorem dbirth_wf_iff (p : Payload) :
    (∃ x, dbirthTryFrom decodePS p = .ok x) ↔ WfDBirth decodePS p := by
  constructor
  · rintro ⟨x, h⟩; exact ((dbirth_ok_iff decodePS p x).1 h).1
  · intro h
    obtain ⟨hs, hts, hm⟩ := id h
    obtain ⟨r, hr⟩ := pointwise_exists p.metrics (fun m hm' => birthOf_exists decodePS m (hm m hm'))
    rcases hts' : p.timestamp with _ | ts
    · exact absurd hts' hts
    · rcases hs' : p.seq with _ | sq
      · exact absurd hs' hs
      · exact ⟨⟨sq % 256, ts, r⟩, (dbirth_ok_iff decodePS p _).2 ⟨h, ⟨sq, hs', rfl⟩, hts', hr⟩⟩

theorem ddeath_wf_iff (p : Payload) :
    (∃ x, ddeathTryFrom p = .ok x) ↔ WfDDeath p := by
  constructor
  · rintro ⟨x, h⟩; exact ((ddeath_ok_iff p x).1 h).1
  · intro h
    obtain ⟨hs, hts⟩ := id h
    rcases hts' : p.timestamp with _ | ts
    · exact absurd hts' hts
    · rcases hs' : p.seq with _ | sq
      · exact absurd hs' hs
      · exact ⟨⟨sq % 256, ts⟩, (ddeath_ok_iff p _).2 ⟨h, ⟨sq, hs', rfl⟩, hts'⟩⟩

/-! ### `AppNodeEvent::try_from` / `handle_event` -/

theorem handleNode_admitted_iff (id id' : NodeId) (k : Kind) (p : Payload)
    (hty : LongsAreU64 p.metrics) (ev : NodeEvent π) :
    handleNode decodePS id k p = some (.node id' ev) ↔
      id' = id ∧ WfNode decodePS k p ∧ NodeEventOf decodePS k p ev := by
  unfold handleNode nodeEventTryFrom
  cases k
  · -- birth
    rcases h : nbirthTryFrom decodePS p with e | x
    · have hno : ¬ WfNBirth decodePS p := fun hw => by
        obtain ⟨x, hx⟩ := (nbirth_wf_iff decodePS p hty).2 hw
        simp [h] at hx
      simp [WfNode, hno]
    · have hx := (nbirth_ok_iff decodePS p hty x).1 h
      simp only [Option.some.injEq, AppEvent.node.injEq, WfNode]
      constructor
      · rintro ⟨rfl, rfl⟩; exact ⟨rfl, hx.1, rfl, hx.2⟩
      · rintro ⟨rfl, _, hev⟩
        cases ev with
        | birth y =>
          have := (nbirth_ok_iff decodePS p hty y).2 ⟨hx.1, hev.2⟩
          rw [h] at this; simp_all
        | death y => exact absurd hev.1 (by simp)
        | data y => exact absurd hev.1 (by simp)
  · -- death
    rcases h : ndeathTryFrom p with e | x
    · have hno : ¬ WfNDeath p := fun hw => by
        obtain ⟨x, hx⟩ := (ndeath_wf_iff p hty).2 hw
        simp [h] at hx
      simp [WfNode, hno]
    · have hx := (ndeath_ok_iff p hty x).1 h
      simp only [Option.some.injEq, AppEvent.node.injEq, WfNode]
      constructor
      · rintro ⟨rfl, rfl⟩; exact ⟨rfl, hx.1, rfl, hx.2⟩
      · rintro ⟨rfl, _, hev⟩
        cases ev with
        | death y =>
          have := (ndeath_ok_iff p hty y).2 ⟨hx.1, hev.2⟩
          rw [h] at this; simp_all
        | birth y => exact absurd hev.1 (by simp)
        | data y => exact absurd hev.1 (by simp)
  · simp [WfNode]
  · -- data
    rcases h : ndataTryFrom decodePS p with e | x
    · have hno : ¬ WfData decodePS p := fun hw => by
        obtain ⟨x, hx⟩ := (ndata_wf_iff decodePS p).2 hw
        simp [h] at hx
      simp [WfNode, hno]
    · have hx := (ndata_ok_iff decodePS p x).1 h
      simp only [Option.some.injEq, AppEvent.node.injEq, WfNode]
      constructor
      · rintro ⟨rfl, rfl⟩; exact ⟨rfl, hx.1, rfl, hx.2⟩
      · rintro ⟨rfl, _, hev⟩
        cases ev with
        | data y =>
          have := (ndata_ok_iff decodePS p y).2 ⟨hx.1, hev.2⟩
          rw [h] at this; simp_all
        | birth y => exact absurd hev.1 (by simp)
        | death y => exact absurd hev.1 (by simp)
  · simp [WfNode]

theorem handleNode_invalid_iff (id : NodeId) (k : Kind) (p : Payload)
    (hty : LongsAreU64 p.metrics) (d : ErrDetails) :
    handleNode decodePS id k p = some (.invalidPayload d) ↔
      Supported k ∧ ¬ WfNode decodePS k p ∧ d.nodeId = id ∧ d.device = none ∧
      ((k = .birth ∧ nbirthTryFrom decodePS p = .error d.error) ∨
       (k = .death ∧ ndeathTryFrom p = .error d.error) ∨
       (k = .data ∧ ndataTryFrom decodePS p = .error d.error)) := by
  rcases d with ⟨di, dd, de⟩
  unfold handleNode nodeEventTryFrom
  cases k
  · rcases h : nbirthTryFrom decodePS p with e | x
    · have hno : ¬ WfNBirth decodePS p := fun hw => by
        obtain ⟨x, hx⟩ := (nbirth_wf_iff decodePS p hty).2 hw
        simp [h] at hx
      simp [WfNode, hno, Supported, eq_comm]
    · simp
  · rcases h : ndeathTryFrom p with e | x
    · have hno : ¬ WfNDeath p := fun hw => by
        obtain ⟨x, hx⟩ := (ndeath_wf_iff p hty).2 hw
        simp [h] at hx
      simp [WfNode, hno, Supported, eq_comm]
    · simp
  · simp [Supported]
  · rcases h : ndataTryFrom decodePS p with e | x
    · have hno : ¬ WfData decodePS p := fun hw => by
        obtain ⟨x, hx⟩ := (ndata_wf_iff decodePS p).2 hw
        simp [h] at hx
      simp [WfNode, hno, Supported, eq_comm]
    · simp
  · simp [Supported]

theorem handleNode_total (id : NodeId) (k : Kind) (p : Payload) (hty : LongsAreU64 p.metrics) :
    (¬ Supported k → handleNode decodePS id k p = none) ∧
    (Supported k → WfNode decodePS k p → ∃ ev, handleNode decodePS id k p = some (.node id ev)) ∧
    (Supported k → ¬ WfNode decodePS k p →
      ∃ e, handleNode decodePS id k p = some (.invalidPayload ⟨id, none, e⟩)) := by
  unfold handleNode nodeEventTryFrom
  cases k
  · rcases h : nbirthTryFrom decodePS p with e | x
    · have hno : ¬ WfNBirth decodePS p := fun hw => by
        obtain ⟨x, hx⟩ := (nbirth_wf_iff decodePS p hty).2 hw
        simp [h] at hx
      simp [WfNode, hno, Supported]
    · have := ((nbirth_ok_iff decodePS p hty x).1 h).1
      simp [WfNode, this, Supported]
  · rcases h : ndeathTryFrom p with e | x
    · have hno : ¬ WfNDeath p := fun hw => by
        obtain ⟨x, hx⟩ := (ndeath_wf_iff p hty).2 hw
        simp [h] at hx
      simp [WfNode, hno, Supported]
    · have := ((ndeath_ok_iff p hty x).1 h).1
      simp [WfNode, this, Supported]
  · simp [Supported]
  · rcases h : ndataTryFrom decodePS p with e | x
    · have hno : ¬ WfData decodePS p := fun hw => by
        obtain ⟨x, hx⟩ := (ndata_wf_iff decodePS p).2 hw
        simp [h] at hx
      simp [WfNode, hno, Supported]
    · have := ((ndata_ok_iff decodePS p x).1 h).1
      simp [WfNode, this, Supported]
  · simp [Supported]

/-! ### `AppDeviceEvent::try_from` / `handle_event` -/

theorem handleDevice_admitted_iff (id id' : NodeId) (name name' : Bytes) (k : Kind) (p : Payload)
    (ev : DeviceEvent π) :
    handleDevice decodePS id name k p = some (.device id' name' ev) ↔
      id' = id ∧ name' = name ∧ WfDevice decodePS k p ∧ DeviceEventOf decodePS k p ev := by
  unfold handleDevice deviceEventTryFrom
  cases k
  · -- birth
    rcases h : dbirthTryFrom decodePS p with e | x
    · have hno : ¬ WfDBirth decodePS p := fun hw => by
        obtain ⟨x, hx⟩ := (dbirth_wf_iff decodePS p).2 hw
        simp [h] at hx
      simp [WfDevice, hno]
    · have hx := (dbirth_ok_iff decodePS p x).1 h
      simp only [Option.some.injEq, AppEvent.device.injEq, WfDevice]
      constructor
      · rintro ⟨rfl, rfl, rfl⟩; exact ⟨rfl, rfl, hx.1, rfl, hx.2⟩
      · rintro ⟨rfl, rfl, _, hev⟩
        cases ev with
        | birth y =>
          have := (dbirth_ok_iff decodePS p y).2 ⟨hx.1, hev.2⟩
          rw [h] at this; simp_all
        | death y => exact absurd hev.1 (by simp)
        | data y => exact absurd hev.1 (by simp)
  · -- death
    rcases h : ddeathTryFrom p with e | x
    · have hno : ¬ WfDDeath p := fun hw => by
        obtain ⟨x, hx⟩ := (ddeath_wf_iff p).2 hw
        simp [h] at hx
      simp [WfDevice, hno]
    · have hx := (ddeath_ok_iff p x).1 h
      simp only [Option.some.injEq, AppEvent.device.injEq, WfDevice]
      constructor
      · rintro ⟨rfl, rfl, rfl⟩; exact ⟨rfl, rfl, hx.1, rfl, hx.2⟩
      · rintro ⟨rfl, rfl, _, hev⟩
        cases ev with
        | death y =>
          have := (ddeath_ok_iff p y).2 ⟨hx.1, hev.2⟩
          rw [h] at this; simp_all
        | birth y => exact absurd hev.1 (by simp)
        | data y => exact absurd hev.1 (by simp)
  · simp [WfDevice]
  · -- data
    rcases h : ddataTryFrom decodePS p with e | x
    · have hno : ¬ WfData decodePS p := fun hw => by
        obtain ⟨x, hx⟩ := (ddata_wf_iff decodePS p).2 hw
        simp [h] at hx
      simp [WfDevice, hno]
    · have hx := (ddata_ok_iff decodePS p x).1 h
      simp only [Option.some.injEq, AppEvent.device.injEq, WfDevice]
      constructor
      · rintro ⟨rfl, rfl, rfl⟩; exact ⟨rfl, rfl, hx.1, rfl, hx.2⟩
      · rintro ⟨rfl, rfl, _, hev⟩
        cases ev with
        | data y =>
          have := (ddata_ok_iff decodePS p y).2 ⟨hx.1, hev.2⟩
          rw [h] at this; simp_all
        | birth y => exact absurd hev.1 (by simp)
        | death y => exact absurd hev.1 (by simp)
  · simp [WfDevice]

theorem handleDevice_invalid_iff (id : NodeId) (name : Bytes) (k : Kind) (p : Payload)
    (d : ErrDetails) :
    handleDevice decodePS id name k p = some (.invalidPayload d) ↔
      Supported k ∧ ¬ WfDevice decodePS k p ∧ d.nodeId = id ∧ d.device = some name ∧
      ((k = .birth ∧ dbirthTryFrom decodePS p = .error d.error) ∨
       (k = .death ∧ ddeathTryFrom p = .error d.error) ∨
       (k = .data ∧ ddataTryFrom decodePS p = .error d.error)) := by
  rcases d with ⟨di, dd, de⟩
  unfold handleDevice deviceEventTryFrom
  cases k
  · rcases h : dbirthTryFrom decodePS p with e | x
    · have hno : ¬ WfDBirth decodePS p := fun hw => by
        obtain ⟨x, hx⟩ := (dbirth_wf_iff decodePS p).2 hw
        simp [h] at hx
      simp [WfDevice, hno, Supported, eq_comm]
    · simp
  · rcases h : ddeathTryFrom p with e | x
    · have hno : ¬ WfDDeath p := fun hw => by
        obtain ⟨x, hx⟩ := (ddeath_wf_iff p).2 hw
        simp [h] at hx
      simp [WfDevice, hno, Supported, eq_comm]
    · simp
  · simp [Supported]
  · rcases h : ddataTryFrom decodePS p with e | x
    · have hno : ¬ WfData decodePS p := fun hw => by
        obtain ⟨x, hx⟩ := (ddata_wf_iff decodePS p).2 hw
        simp [h] at hx
      simp [WfDevice, hno, Supported, eq_comm]
    · simp
  · simp [Supported]

theorem handleDevice_total (id : NodeId) (name : Bytes) (k : Kind) (p : Payload) :
    (¬ Supported k → handleDevice decodePS id name k p = none) ∧
    (Supported k → WfDevice decodePS k p → ∃ ev, handleDevice decodePS id name k p = some (.device id name ev)) ∧
    (Supported k → ¬ WfDevice decodePS k p →
      ∃ e, handleDevice decodePS id name k p = some (.invalidPayload ⟨id, some name, e⟩)) := by
  unfold handleDevice deviceEventTryFrom
  cases k
  · rcases h : dbirthTryFrom decodePS p with e | x
    · have hno : ¬ WfDBirth decodePS p := fun hw => by
        obtain ⟨x, hx⟩ := (dbirth_wf_iff decodePS p).2 hw
        simp [h] at hx
      simp [WfDevice, hno, Supported]
    · have := ((dbirth_ok_iff decodePS p x).1 h).1
      simp [WfDevice, this, Supported]
  · rcases h : ddeathTryFrom p with e | x
    · have hno : ¬ WfDDeath p := fun hw => by
        obtain ⟨x, hx⟩ := (ddeath_wf_iff p).2 hw
        simp [h] at hx
      simp [WfDevice, hno, Supported]
    · have := ((ddeath_ok_iff p x).1 h).1
      simp [WfDevice, this, Supported]
  · simp [Supported]
  · rcases h : ddataTryFrom decodePS p with e | x
    · have hno : ¬ WfData decodePS p := fun hw => by
        obtain ⟨x, hx⟩ := (ddata_wf_iff decodePS p).2 hw
        simp [h] at hx
      simp [WfDevice, hno, Supported]
    · have := ((ddata_ok_iff decodePS p x).1 h).1
      simp [WfDevice, this, Supported]
  · simp [Supported]

end
/-! ### decision procedures for the declarative conditions (used to evaluate them on the
regenerated table with `decide +kernel`) -/

/-- "the first metric named bdSeq holds a LongValue ≤ 255", computed with `List.find?` -/
def bdSeqB (ms : List Metric) : Option Nat :=
  match ms.find? (fun m => m.name == some BDSEQ) with
  | some m =>
    match m.value with
    | some (.long b) => if b ≤ 255 then some b else none
    | _ => none
  | none => none

theorem bdSeqB_iff (ms : List Metric) (b : Nat) : bdSeqB ms = some b ↔ HasBdSeq ms b := by
  unfold bdSeqB HasBdSeq
  constructor
  · intro h
    rcases hf : ms.find? (fun m => m.name == some BDSEQ) with _ | m
    · simp [hf] at h
    · rw [hf] at h
      obtain ⟨hp, pre, post, heq, hpre⟩ := List.find?_eq_some_iff_append.1 hf
      refine ⟨pre, m, post, heq, ?_, by simpa using hp, ?_⟩
      · intro x hx; simpa using hpre x hx
      · rcases hv : m.value with _ | v
        · simp [hv] at h
        · cases v <;> simp [hv] at h
          obtain ⟨h1, h2⟩ := h
          subst h2; exact ⟨rfl, h1⟩
  · rintro ⟨pre, m, post, heq, hpre, hn, hv, hb⟩
    have hf : ms.find? (fun m => m.name == some BDSEQ) = some m :=
      List.find?_eq_some_iff_append.2 ⟨by simp [hn], pre, post, heq, fun x hx => by simpa using hpre x hx⟩
    simp [hf, hv, hb]

instance decHasBdSeq (ms : List Metric) : Decidable (∃ b, HasBdSeq ms b) :=
  decidable_of_iff ((bdSeqB ms).isSome = true) (by
    rw [Option.isSome_iff_exists]
    exact exists_congr (fun b => bdSeqB_iff ms b))

instance decExistsSome {α} (o : Option α) (P : α → Prop) [DecidablePred P] :
    Decidable (∃ c, o = some c ∧ P c) :=
  match o with
  | none => isFalse (by simp)
  | some c => if h : P c then isTrue ⟨c, rfl, h⟩ else isFalse (by simpa using h)

instance decForallSome {α} (o : Option α) (P : α → Prop) [DecidablePred P] :
    Decidable (∀ x, o = some x → P x) :=
  match o with
  | none => isTrue (by simp)
  | some x => if h : P x then isTrue (by simpa using h) else isFalse (by simpa using h)

instance : DecidablePred ValidDatatype := fun c => inferInstanceAs (Decidable (c ≤ 34))

section
variable {π : Type} [DecidableEq π] (decodePS : PSet → Option π)

instance (m : Metric) : Decidable (MetricOk decodePS m) :=
  inferInstanceAs (Decidable (m.timestamp ≠ none ∧ (m.value ≠ none ∨ m.isNull = some true) ∧
    (∀ ps, m.properties = some ps → decodePS ps ≠ none)))
instance (m : Metric) : Decidable (BirthMetricOk decodePS m) :=
  inferInstanceAs (Decidable (m.name ≠ none ∧ (∃ c, m.datatype = some c ∧ ValidDatatype c) ∧ MetricOk decodePS m))
instance (m : Metric) : Decidable (DataMetricOk decodePS m) :=
  inferInstanceAs (Decidable ((m.name ≠ none ∨ m.alias ≠ none) ∧ MetricOk decodePS m))
instance (p : Payload) : Decidable (WfNBirth decodePS p) :=
  inferInstanceAs (Decidable (p.seq = some 0 ∧ p.timestamp ≠ none ∧ (∃ b, HasBdSeq p.metrics b) ∧
    ∀ m ∈ p.metrics, BirthMetricOk decodePS m))
instance (p : Payload) : Decidable (WfNDeath p) :=
  inferInstanceAs (Decidable (∃ b, HasBdSeq p.metrics b))
instance (p : Payload) : Decidable (WfDBirth decodePS p) :=
  inferInstanceAs (Decidable (p.seq ≠ none ∧ p.timestamp ≠ none ∧ ∀ m ∈ p.metrics, BirthMetricOk decodePS m))
instance (p : Payload) : Decidable (WfDDeath p) :=
  inferInstanceAs (Decidable (p.seq ≠ none ∧ p.timestamp ≠ none))
instance (p : Payload) : Decidable (WfData decodePS p) :=
  inferInstanceAs (Decidable (p.seq ≠ none ∧ p.timestamp ≠ none ∧ ∀ m ∈ p.metrics, DataMetricOk decodePS m))
instance (k : Kind) (p : Payload) : Decidable (WfNode decodePS k p) :=
  match k with
  | .birth => inferInstanceAs (Decidable (WfNBirth decodePS p))
  | .death => inferInstanceAs (Decidable (WfNDeath p))
  | .data => inferInstanceAs (Decidable (WfData decodePS p))
  | .cmd => isFalse (fun h => h)
  | .other => isFalse (fun h => h)
instance (k : Kind) (p : Payload) : Decidable (WfDevice decodePS k p) :=
  match k with
  | .birth => inferInstanceAs (Decidable (WfDBirth decodePS p))
  | .death => inferInstanceAs (Decidable (WfDDeath p))
  | .data => inferInstanceAs (Decidable (WfData decodePS p))
  | .cmd => isFalse (fun h => h)
  | .other => isFalse (fun h => h)
instance (k : Kind) : Decidable (Supported k) :=
  inferInstanceAs (Decidable (k = .birth ∨ k = .death ∨ k = .data))
end

/-- "well-formed for its type" for a table row -/
def WfRow (device : Bool) (k : Kind) (p : Payload) : Prop :=
  if device then WfDevice decodePSet k p else WfNode decodePSet k p

instance (device : Bool) (k : Kind) (p : Payload) : Decidable (WfRow device k p) :=
  if h : device then by unfold WfRow; rw [if_pos h]; infer_instance
  else by unfold WfRow; rw [if_neg h]; infer_instance

end Srad.Admit
