/-
Helper lemmas for `Props/C08Reach.lean`: the first phase of `settle`, from EVERY reachable state of
the closed loop (`Model/Loop.lean`), not only from a quiet one.

Part H  `settle` and its phases are runs of `Sys.step`, so every invariant of `Sys.run` holds along them.
Part I  connection bookkeeping: `nodeConn = node.online = node.birthed` in every reachable state.
Part J  one rebirth cycle from a host record whose reorder timer may be running; `drainNet` with
        any amount of fuel (what is left if the fuel is short).
Part K  the first phase: `drain (reconnect s)` and `drain (timerPhase (drain (reconnect s)))`.
Part L  a host record that is in step but holds a device birthed that the node has not enabled
        stays exactly like that, round after round.
-/
import SradModel.Proofs.Loop

namespace Srad.Loop
open Srad Srad.Host

/-! ## Part H — the phases of `settle` are runs of `Sys.step` -/

theorem run_append (a b : List Action) : ∀ s : Sys, s.run (a ++ b) = (s.run a).run b := by
  induction a with
  | nil => intro s; rfl
  | cons x t ih => intro s; exact ih (s.step x)

/-- the actions the fault-free continuation uses: deliveries, clock, (re)connects, publishes — no
fault, no enable / disable, no manual rebirth -/
def Action.auto : Action → Bool
  | .deliver _ | .deliverNcmd | .advance _ | .hostConnect | .nodeConnect | .publishNode | .publishDev _ => true
  | _ => false

/-- `t` is reached from `s` by finitely many actions of the fault-free continuation -/
def Steps (s t : Sys) : Prop := ∃ acts : List Action, (∀ a ∈ acts, a.auto = true) ∧ s.run acts = t

theorem Steps.refl (s : Sys) : Steps s s := ⟨[], by simp, rfl⟩

theorem Steps.trans {a b c : Sys} (h1 : Steps a b) (h2 : Steps b c) : Steps a c := by
  obtain ⟨x, hxa, hx⟩ := h1
  obtain ⟨y, hya, hy⟩ := h2
  refine ⟨x ++ y, ?_, by rw [run_append, hx, hy]⟩
  intro a ha
  rcases List.mem_append.mp ha with ha | ha
  · exact hxa a ha
  · exact hya a ha

theorem Steps.step (s : Sys) (a : Action) (ha : a.auto = true := by rfl) : Steps s (s.step a) :=
  ⟨[a], by simpa using ha, rfl⟩

theorem deliverAll_steps : ∀ (k : Nat) (s : Sys), Steps s (Sys.deliverAll k s) := by
  intro k
  induction k with
  | zero => intro s; exact Steps.refl s
  | succ k ih => intro s; exact (Steps.step s _).trans (ih _)

theorem drainNet_steps : ∀ (f : Nat) (s : Sys), Steps s (Sys.drainNet f s) := by
  intro f
  induction f with
  | zero => intro s; exact deliverAll_steps _ s
  | succ f ih =>
    intro s
    show Steps s (if (Sys.deliverAll s.toHost.length s).toNode = 0 then _ else _)
    split
    · exact deliverAll_steps _ s
    · exact (deliverAll_steps _ s).trans (((Steps.step _ _).trans (Steps.step _ _)).trans (ih _))

theorem drain_steps (s : Sys) : Steps s (Sys.drain s) := drainNet_steps _ s

/-- the two halves of `reconnect` -/
def hostUp (s : Sys) : Sys := if s.hostConn then s else s.step .hostConnect
def nodeUp (s : Sys) : Sys := if s.nodeConn then s else (s.step (.advance 1)).step .nodeConnect

theorem reconnect_eq (s : Sys) : Sys.reconnect s = nodeUp (hostUp s) := rfl

theorem reconnect_steps (s : Sys) : Steps s (Sys.reconnect s) := by
  rw [reconnect_eq]
  have h1 : Steps s (hostUp s) := by
    unfold hostUp
    split
    · exact Steps.refl s
    · exact Steps.step s _
  refine h1.trans ?_
  unfold nodeUp
  split
  · exact Steps.refl _
  · exact (Steps.step _ _).trans (Steps.step _ _)

theorem timerPhase_steps (s : Sys) : Steps s (Sys.timerPhase s) := by
  unfold Sys.timerPhase
  split
  · exact Steps.step s _
  · exact Steps.refl s

theorem foldl_steps (L : List Nat) : ∀ s : Sys, Steps s (L.foldl (fun s d => s.step (.publishDev d)) s) := by
  induction L with
  | nil => intro s; exact Steps.refl s
  | cons d t ih => intro s; exact (Steps.step s _).trans (ih _)

theorem pubAll_steps (s : Sys) : Steps s (Sys.pubAll s) := by
  unfold Sys.pubAll
  exact ((Steps.step _ _).trans (Steps.step _ _)).trans (foldl_steps _ _)

/-- the state after the two delivery phases of a settling round: reconnect, deliver everything
(NCMDs and the births they cause included), let a running reorder timeout expire, deliver -/
def Sys.firstPhase (s : Sys) : Sys := Sys.drain (Sys.timerPhase (Sys.drain (Sys.reconnect s)))

theorem firstPhase_steps (s : Sys) : Steps s (Sys.firstPhase s) :=
  (reconnect_steps s).trans ((drain_steps _).trans ((timerPhase_steps _).trans (drain_steps _)))

theorem round_eq (s : Sys) : (Sys.round s).1 = Sys.drain (Sys.pubAll (Sys.firstPhase s)) := rfl

theorem round_steps (s : Sys) : Steps s (Sys.round s).1 := by
  rw [round_eq]
  exact (firstPhase_steps s).trans ((pubAll_steps _).trans (drain_steps _))

theorem settle_steps : ∀ (k : Nat) (s : Sys), Steps s (Sys.settle k s).1 := by
  intro k
  induction k with
  | zero => intro s; exact Steps.refl s
  | succ k ih => intro s; exact (ih s).trans (round_steps _)

theorem LiveInv_steps (d : Nat) {s t : Sys} (h : Steps s t) (hl : LiveInv d s) : LiveInv d t := by
  obtain ⟨acts, _, rfl⟩ := h
  exact LiveInv_run d acts s hl

theorem NodeInv_steps {s t : Sys} (h : Steps s t) (hn : NodeInv s.node) : NodeInv t.node := by
  obtain ⟨acts, _, rfl⟩ := h
  exact NodeInv_run acts s hn

/-! ## Part I — connection bookkeeping -/

theorem devBirth_ob (rb : Bool) (ts : Nat) (n : Node) (x : Dev) :
    (Node.devBirth rb ts n x).1.online = n.online ∧ (Node.devBirth rb ts n x).1.birthed = n.birthed := by
  unfold Node.devBirth
  split
  · exact ⟨rfl, rfl⟩
  split
  · exact ⟨rfl, rfl⟩
  split
  · exact ⟨rfl, rfl⟩
  · rename_i n1 k hk
    obtain ⟨rfl, rfl, _, _⟩ := nextSeq_some n n1 k hk
    exact ⟨rfl, rfl⟩

theorem birthDevs_ob (rb : Bool) (ts : Nat) (l : List Dev) : ∀ n : Node,
    (Node.birthDevs rb ts n l).1.online = n.online ∧ (Node.birthDevs rb ts n l).1.birthed = n.birthed := by
  induction l with
  | nil => intro n; exact ⟨rfl, rfl⟩
  | cons x t ih =>
    intro n
    simp only [Node.birthDevs]
    obtain ⟨a1, a2⟩ := devBirth_ob rb ts n x
    obtain ⟨b1, b2⟩ := ih (Node.devBirth rb ts n x).1
    exact ⟨b1.trans a1, b2.trans a2⟩

theorem nodeBirth_ob (rb : Bool) (ts : Nat) (n : Node) :
    (Node.nodeBirth rb ts n).1.online = n.online ∧ (Node.nodeBirth rb ts n).1.birthed = true := by
  simp only [Node.nodeBirth]
  obtain ⟨b1, b2⟩ := birthDevs_ob rb ts n.devs { n with birthed := true, seq := 0, nextId := n.nextId + 1 }
  exact ⟨b1, b2⟩

/-- the operation keeps `online`, and keeps `birthed` or sets it -/
def ObOk (n : Node) (r : Node × List Msg) : Prop :=
  r.1.online = n.online ∧ (r.1.birthed = n.birthed ∨ r.1.birthed = true)

theorem pubNode_ob (ts : Nat) (n : Node) : ObOk n (n.pubNode ts) := by
  unfold Node.pubNode
  split
  · exact ⟨rfl, Or.inl rfl⟩
  · rename_i n1 k hk
    obtain ⟨rfl, rfl, _, _⟩ := nextSeq_some n n1 k hk
    exact ⟨rfl, Or.inl rfl⟩

theorem pubDev_ob (d ts : Nat) (n : Node) : ObOk n (n.pubDev d ts) := by
  unfold Node.pubDev
  split
  · exact ⟨rfl, Or.inl rfl⟩
  split
  · exact ⟨rfl, Or.inl rfl⟩
  split
  · exact ⟨rfl, Or.inl rfl⟩
  · rename_i n1 k hk
    obtain ⟨rfl, rfl, _, _⟩ := nextSeq_some n n1 k hk
    exact ⟨rfl, Or.inl rfl⟩

theorem enable_ob (d ts : Nat) (n : Node) : ObOk n (n.enable d ts) := by
  unfold Node.enable
  split
  · exact ⟨rfl, Or.inl rfl⟩
  · rename_i x hx
    obtain ⟨a1, a2⟩ := devBirth_ob false ts n { x with enabled := true }
    exact ⟨a1, Or.inl a2⟩

theorem disable_ob (d ts : Nat) (n : Node) : ObOk n (n.disable d ts) := by
  unfold Node.disable
  split
  · exact ⟨rfl, Or.inl rfl⟩
  split
  · exact ⟨rfl, Or.inl rfl⟩
  split
  · exact ⟨rfl, Or.inl rfl⟩
  · rename_i n1 k hk
    obtain ⟨rfl, rfl, _, _⟩ := nextSeq_some n n1 k hk
    exact ⟨rfl, Or.inl rfl⟩

theorem rebirth_ob (ts : Nat) (n : Node) : ObOk n (n.rebirth ts) := by
  unfold Node.rebirth
  split
  · exact ⟨rfl, Or.inl rfl⟩
  · obtain ⟨a1, a2⟩ := nodeBirth_ob true ts n
    exact ⟨a1, Or.inr a2⟩

/-- the broker's view of the node's connection agrees with the node, and an online node is birthed -/
structure ConnInv (s : Sys) : Prop where
  conn : s.nodeConn = s.node.online
  birthed : s.node.online = true → s.node.birthed = true

theorem ConnInv_send (s : Sys) (r : Node × List Msg) (h : ConnInv s) (hr : ObOk s.node r) :
    ConnInv (s.send r.1 r.2) := by
  refine ⟨?_, ?_⟩
  · show s.nodeConn = r.1.online
    rw [hr.1]; exact h.conn
  · show r.1.online = true → r.1.birthed = true
    intro ho
    rw [hr.1] at ho
    rcases hr.2 with hb | hb
    · rw [hb]; exact h.birthed ho
    · exact hb

theorem ConnInv_frame {s t : Sys} (h : ConnInv s) (h1 : t.nodeConn = s.nodeConn) (h2 : t.node = s.node) :
    ConnInv t := ⟨by rw [h1, h2]; exact h.conn, by rw [h2]; exact h.birthed⟩

theorem hostStep_node (s : Sys) (i : In) : (s.hostStep i).node = s.node ∧ (s.hostStep i).nodeConn = s.nodeConn :=
  ⟨rfl, rfl⟩

theorem ConnInv_step (s : Sys) (a : Action) (h : ConnInv s) : ConnInv (s.step a) := by
  cases a with
  | publishNode => exact ConnInv_send s _ h (pubNode_ob _ _)
  | publishDev d => exact ConnInv_send s _ h (pubDev_ob _ _ _)
  | enable d => exact ConnInv_send s _ h (enable_ob _ _ _)
  | disable d => exact ConnInv_send s _ h (disable_ob _ _ _)
  | manualRebirth => exact ConnInv_send s _ h (rebirth_ob _ _)
  | deliver k =>
    simp only [Sys.step]; split
    · exact h
    · simp only [Sys.recv]; split
      · exact ConnInv_frame h rfl rfl
      · exact ConnInv_frame h rfl rfl
  | duplicate k =>
    simp only [Sys.step]; split
    · exact h
    · exact ConnInv_frame h rfl rfl
  | drop k =>
    simp only [Sys.step]; split
    · exact h
    · split
      · exact ConnInv_frame h rfl rfl
      · exact h
  | deliverNcmd =>
    simp only [Sys.step]; split
    · exact h
    · have h1 : ConnInv { s with toNode := s.toNode - 1 } := ConnInv_frame h rfl rfl
      split
      · exact ConnInv_send _ _ h1 (rebirth_ob _ _)
      · exact h1
  | dropNcmd => exact ConnInv_frame h rfl rfl
  | nodeDisconnect =>
    simp only [Sys.step]; split
    · exact h
    · rename_i hc
      have hon : s.node.online = true := by rw [← h.conn]; simpa using hc
      refine ⟨?_, ?_⟩
      · simp [Node.goOffline, hon]
      · simp [Node.goOffline, hon]
  | nodeConnect =>
    simp only [Sys.step]; split
    · exact h
    · rename_i hc
      have hoff : s.node.online = false := by rw [← h.conn]; simpa using hc
      have hgo : s.node.goOnline s.clock = Node.nodeBirth false s.clock { s.node with online := true } := by
        simp [Node.goOnline, hoff]
      obtain ⟨a1, a2⟩ := nodeBirth_ob false s.clock { s.node with online := true }
      refine ⟨?_, ?_⟩
      · show true = (s.node.goOnline s.clock).1.online
        rw [hgo, a1]
      · show (s.node.goOnline s.clock).1.online = true → (s.node.goOnline s.clock).1.birthed = true
        intro _
        rw [hgo]; exact a2
  | hostDisconnect =>
    simp only [Sys.step]; split
    · exact h
    · exact ConnInv_frame h rfl rfl
  | hostConnect => exact ConnInv_frame h rfl rfl
  | advance ms =>
    simp only [Sys.step]; split
    · split
      · exact ConnInv_frame h rfl rfl
      · exact ConnInv_frame h rfl rfl
    · exact ConnInv_frame h rfl rfl

theorem ConnInv_run (as : List Action) : ∀ s : Sys, ConnInv s → ConnInv (s.run as) := by
  induction as with
  | nil => intro s h; exact h
  | cons a as ih => intro s h; exact ih _ (ConnInv_step s a h)

theorem ConnInv_init (c : Cfg) (devs : List Dev) : ConnInv (Sys.init c devs) :=
  ⟨rfl, fun h => by simp [Sys.init] at h⟩

theorem ConnInv_steps {s t : Sys} (h : Steps s t) (hc : ConnInv s) : ConnInv t := by
  obtain ⟨acts, _, rfl⟩ := h
  exact ConnInv_run acts s hc

/-! ## Part J — a rebirth cycle from any reachable host record; `drainNet` with any fuel -/

/-- what reachability gives about the host's record (`LiveInv`) -/
structure HostOk (h : St) (clk : Nat) : Prop where
  inv : HostInv h
  timer : TimerOk h
  birthTs : h.birthTs ≤ clk
  staleTs : h.staleTs ≤ clk

theorem LiveInv.hostOk {d : Nat} {s : Sys} (h : LiveInv d s) : HostOk s.host s.clock :=
  ⟨h.safe.hostInv, h.timer, h.birthTs, h.staleTs⟩

/-- a running reorder timer belongs to a birthed record -/
theorem armed_birthed (h : St) (hinv : HostInv h) (dl : Nat) (ht : h.timer = .armed dl) : h.life = .birthed := by
  cases hl : h.life with
  | birthed => rfl
  | stale =>
    have := (hinv.2.1 hl).2.1
    rw [ht] at this; cases this

/-- no NCMD among the effects of an accepted NBIRTH, whatever the timer was -/
theorem step_nbirth_ncmd (c : Cfg) (h : St) (ts bd id now : Nat) (hnew : h.birthTs < ts) :
    (step c h (.nbirth ts bd id .ok) now now).2.count Eff.ncmd = 0 := by
  simp only [step]
  rw [C07P.handleBirth_eq, if_neg (by omega), if_neg (by simp)]
  apply count_ncmd_zero
  intro hm
  rcases List.mem_append.mp hm with hm | hm
  · rcases List.mem_append.mp hm with hm | hm
    · simp at hm
    · have := SeqP.cancelTimer_eff h _ hm
      cases this
  · obtain ⟨x, _, hx⟩ := List.mem_map.mp hm
    cases hx

/-- the clock advances by one on a quiet state: a due reorder timer fires (the host goes stale and
one more NCMD is in flight), otherwise only the clock moves -/
theorem advance_one (d : Nat) (s : Sys) (hq : Quiet d s) (ho : HostOk s.host s.clock) :
    let X := s.step (.advance 1)
    Quiet d X ∧ X.node = s.node ∧ X.clock = s.clock + 1 ∧
    HostInv X.host ∧ X.host.birthTs ≤ s.clock ∧ X.host.staleTs ≤ s.clock + 1 ∧
    (X.toNode = s.toNode ∨ (X.toNode = s.toNode + 1 ∧ ∃ dl, s.host.timer = .armed dl)) := by
  intro X
  have hidle : s.step (.advance 1) = { s with clock := s.clock + 1 } →
      Quiet d X ∧ X.node = s.node ∧ X.clock = s.clock + 1 ∧
      HostInv X.host ∧ X.host.birthTs ≤ s.clock ∧ X.host.staleTs ≤ s.clock + 1 ∧
      (X.toNode = s.toNode ∨ (X.toNode = s.toNode + 1 ∧ ∃ dl, s.host.timer = .armed dl)) := by
    intro hX
    have hX' : X = { s with clock := s.clock + 1 } := hX
    rw [hX']
    exact ⟨⟨hq.cfg, hq.nodeConn, hq.hostConn, hq.flight, hq.node⟩, rfl, rfl, ho.inv, ho.birthTs,
      by have := ho.staleTs; simp only; omega, Or.inl rfl⟩
  have hcases : s.host.timer = .none ∨ s.host.timer = .fired ∨ ∃ dl, s.host.timer = .armed dl := by
    cases s.host.timer <;> simp
  rcases hcases with ht | ht | ⟨dl, ht⟩
  · exact hidle (advance_idle s 1 ht)
  · exact hidle (by simp [Sys.step, ht])
  · by_cases hle : dl ≤ s.clock + 1
    · have hb := armed_birthed s.host ho.inv dl ht
      have hfire : step (Sys.fullCfg d) s.host .timerFire (s.clock + 1) (s.clock + 1) =
          issueRebirth (Sys.fullCfg d) { s.host with timer := .fired } .reorderTimeout (s.clock + 1) (s.clock + 1) := by
        simp [step, ht]
      obtain ⟨q1, q2⟩ := issueRebirth_full d { s.host with timer := .fired } .reorderTimeout
        (s.clock + 1) hb (by have := ho.birthTs; simp only; omega)
      have hX : X =
          { s with clock := s.clock + 1,
                   host := goStale { s.host with timer := .fired } (s.clock + 1),
                   effs := s.effs ++ (issueRebirth (Sys.fullCfg d) { s.host with timer := .fired } .reorderTimeout
                      (s.clock + 1) (s.clock + 1)).2,
                   toNode := s.toNode + 1 } := by
        show s.step (.advance 1) = _
        simp only [Sys.step, ht, hle, if_true, Sys.hostStep, hq.cfg, hfire, q1, q2, hq.hostConn]
      rw [hX]
      refine ⟨⟨hq.cfg, hq.nodeConn, hq.hostConn, hq.flight, hq.node⟩, rfl, rfl,
        goStale_inv _ _ ho.inv.2.2, ho.birthTs, Nat.le_refl _, Or.inr ⟨rfl, dl, ht⟩⟩
    · exact hidle (by simp [Sys.step, ht, hle])

/-- an NCMD reaches the (connected, birthed) node and its births reach the host, whose record may
be anything that is not stamped later than the clock: the host ends in step -/
theorem cycle_core (d : Nat) (X : Sys) (hq : Quiet d X) (hn : X.toNode ≠ 0)
    (hinv : HostInv X.host) (hb : X.host.birthTs < X.clock) (hs : X.host.staleTs ≤ X.clock) :
    let s1 := X.step .deliverNcmd
    let D := Sys.deliverAll s1.toHost.length s1
    Quiet d D ∧ D.toNode = X.toNode - 1 ∧ SyncOk D.host D.node D.clock := by
  intro s1 D
  have hs1 : s1 =
      { X with toNode := X.toNode - 1, node := afterRebirth X.node,
               toHost := .nbirth X.clock X.node.bdseq X.node.nextId ::
                 devMsgs .dbirth X.clock 0 X.node.nextId 1 X.node.enabledNames,
               sent := X.sent ++ (.nbirth X.clock X.node.bdseq X.node.nextId ::
                 devMsgs .dbirth X.clock 0 X.node.nextId 1 X.node.enabledNames) } := by
    show X.step .deliverNcmd = _
    simp only [Sys.step, hn, if_false, hq.nodeConn, if_true, Sys.send, rebirth_eq _ _ hq.node, hq.flight,
      List.nil_append]
  have hD : D = Sys.deliverAll s1.toHost.length s1 := rfl
  rw [deliverAll_eq s1.toHost s1 (by rw [hs1]; exact hq.hostConn) rfl] at hD
  have hfeed : feed s1.cfg s1.clock s1.host s1.toHost =
      feed (Sys.fullCfg d) X.clock X.host (.nbirth X.clock X.node.bdseq X.node.nextId ::
        devMsgs .dbirth X.clock 0 X.node.nextId 1 X.node.enabledNames) := by
    rw [hs1]; simp only [hq.cfg]
  rw [hfeed, feed_cons] at hD
  simp only [Msg.toIn] at hD
  obtain ⟨n1, _⟩ := step_nbirth (Sys.fullCfg d) X.host X.clock X.node.bdseq X.node.nextId X.clock hb
  have n2 := step_nbirth_ncmd (Sys.fullCfg d) X.host X.clock X.node.bdseq X.node.nextId X.clock hb
  rw [n1] at hD
  have ht1 : Track
      { X.host with timer := .none, birthTs := X.clock, life := .birthed, bdseq := X.node.bdseq,
                    reseq := { buf := [], next := 1, mode := .good },
                    devices := X.host.devices.map fun p => (p.1, Life.stale) } ((0 + 1) % 256) := ⟨rfl, rfl, rfl⟩
  obtain ⟨f1, f2⟩ := feed_births d X.clock 0 X.node.nextId X.node.enabledNames 1 _ ht1
    (Nat.le_refl _) hs
  have hfew := hq.node.few
  refine ⟨?_, ?_, ?_⟩
  · rw [hD, hs1]
    exact ⟨hq.cfg, hq.nodeConn, hq.hostConn, rfl, afterRebirth_ok _ hq.node⟩
  · rw [hD]
    simp only [List.count_append, f2, n2]
    rw [hs1]
    simp
  · rw [hD]
    simp only [f1]
    rw [hs1]
    simp only
    refine ⟨⟨rfl, ?_, rfl⟩, ?_, ?_, Nat.le_refl _, hs⟩
    · simp only [afterRebirth]
      congr 1
      omega
    · intro dv
      simp only [findDev_birthAll, findDev_map_stale]
      show _ ↔ dv ∈ X.node.enabledNames
      by_cases hm : dv ∈ X.node.enabledNames
      · simp [hm]
      · simp only [hm, if_false, iff_false]
        cases findDev dv X.host.devices <;> simp
    · refine birthAll_nodup _ _ ?_
      simpa [List.map_map, Function.comp_def] using hinv.2.2

/-- one whole cycle (clock, NCMD, births) from a quiet state with any reachable host record -/
theorem cycle_any (d : Nat) (s : Sys) (hq : Quiet d s) (hn : s.toNode ≠ 0) (ho : HostOk s.host s.clock) :
    let s1 := (s.step (.advance 1)).step .deliverNcmd
    let D := Sys.deliverAll s1.toHost.length s1
    Quiet d D ∧ D.toNode ≤ s.toNode ∧ s.toNode - 1 ≤ D.toNode ∧ SyncOk D.host D.node D.clock ∧
    (D.toNode = s.toNode → ∃ dl, s.host.timer = .armed dl) := by
  intro s1 D
  obtain ⟨a1, _, a3, a4, a5, a6, a7⟩ := advance_one d s hq ho
  have hn' : (s.step (.advance 1)).toNode ≠ 0 := by rcases a7 with h | ⟨h, _⟩ <;> omega
  obtain ⟨c1, c2, c3⟩ := cycle_core d (s.step (.advance 1)) a1 hn' a4 (by omega) (by omega)
  have c2 : D.toNode = (s.step (.advance 1)).toNode - 1 := c2
  refine ⟨c1, ?_, ?_, c3, ?_⟩
  · show D.toNode ≤ s.toNode
    rcases a7 with h | ⟨h, _⟩ <;> omega
  · show s.toNode - 1 ≤ D.toNode
    rcases a7 with h | ⟨h, _⟩ <;> omega
  · intro he
    rcases a7 with h | ⟨_, h⟩
    · exfalso
      omega
    · exact h

/-- the NCMD loop of `drainNet` with ANY amount of fuel: `fuel` NCMDs are handled, the rest stays
in flight; as soon as one was handled the host is in step -/
theorem drainNet_short (d : Nat) : ∀ (fuel : Nat) (s : Sys),
    let D := Sys.deliverAll s.toHost.length s
    Quiet d D → (D.toNode ≠ 0 → CyclePre D.host D.node D.clock) →
    Quiet d (Sys.drainNet fuel s) ∧ (Sys.drainNet fuel s).toNode = D.toNode - fuel ∧
    (Sys.drainNet fuel s = D ∨
      SyncOk (Sys.drainNet fuel s).host (Sys.drainNet fuel s).node (Sys.drainNet fuel s).clock) := by
  intro fuel
  induction fuel with
  | zero => intro s D hq _; exact ⟨hq, rfl, Or.inl rfl⟩
  | succ f ih =>
    intro s D hq hpre
    by_cases h0 : D.toNode = 0
    · have : Sys.drainNet (f + 1) s = D := by
        show (if D.toNode = 0 then D else _) = D
        rw [if_pos h0]
      rw [this]
      exact ⟨hq, by omega, Or.inl rfl⟩
    · have hstep : Sys.drainNet (f + 1) s = Sys.drainNet f ((D.step (.advance 1)).step .deliverNcmd) := by
        show (if D.toNode = 0 then D else _) = _
        rw [if_neg h0]
      rw [hstep]
      obtain ⟨c1, c2, c3⟩ := cycle_spec d D hq h0 (hpre h0)
      obtain ⟨i1, i2, i3⟩ := ih ((D.step (.advance 1)).step .deliverNcmd) c1 (fun _ => c3.cyclePre)
      refine ⟨i1, by rw [i2, c2]; omega, Or.inr ?_⟩
      rcases i3 with h | h
      · rw [h]; exact c3
      · exact h

/-! ## Part K — the first phase, from every reachable state -/

theorem devBirth_en (rb : Bool) (ts : Nat) (n : Node) (x : Dev) :
    (Node.devBirth rb ts n x).2.1.enabled = x.enabled ∧ (Node.devBirth rb ts n x).2.1.name = x.name := by
  unfold Node.devBirth
  split
  · exact ⟨rfl, rfl⟩
  split
  · exact ⟨rfl, rfl⟩
  split
  · exact ⟨rfl, rfl⟩
  · exact ⟨rfl, rfl⟩

theorem birthDevs_en (rb : Bool) (ts : Nat) (l : List Dev) : ∀ n : Node,
    ((Node.birthDevs rb ts n l).2.1.filter (·.enabled)).map (·.name) = (l.filter (·.enabled)).map (·.name) := by
  induction l with
  | nil => intro n; rfl
  | cons x t ih =>
    intro n
    simp only [Node.birthDevs]
    obtain ⟨a1, a2⟩ := devBirth_en rb ts n x
    have := ih (Node.devBirth rb ts n x).1
    simp only [List.filter_cons, a1]
    split
    · simp only [List.map_cons, a2, this]
    · exact this

theorem nodeBirth_en (rb : Bool) (ts : Nat) (n : Node) :
    (Node.nodeBirth rb ts n).1.enabledNames = n.enabledNames := by
  simp only [Node.nodeBirth, Node.enabledNames]
  exact birthDevs_en rb ts n.devs _

theorem goOnline_en (ts : Nat) (n : Node) : (n.goOnline ts).1.enabledNames = n.enabledNames := by
  unfold Node.goOnline
  split
  · rfl
  · exact nodeBirth_en false ts _

theorem advance_frame (s : Sys) (ms : Nat) :
    (s.step (.advance ms)).node = s.node ∧ (s.step (.advance ms)).nodeConn = s.nodeConn ∧
    (s.step (.advance ms)).hostConn = s.hostConn := by
  simp only [Sys.step]
  split
  · split
    · exact ⟨rfl, rfl, rfl⟩
    · exact ⟨rfl, rfl, rfl⟩
  · exact ⟨rfl, rfl, rfl⟩

theorem reconnect_facts (s : Sys) :
    (Sys.reconnect s).hostConn = true ∧ (Sys.reconnect s).nodeConn = true ∧
    (Sys.reconnect s).node.enabledNames = s.node.enabledNames := by
  rw [reconnect_eq]
  have h1 : (hostUp s).hostConn = true ∧ (hostUp s).node = s.node := by
    unfold hostUp
    split
    · rename_i h; exact ⟨h, rfl⟩
    · exact ⟨rfl, rfl⟩
  generalize hostUp s = t at h1
  obtain ⟨h1, h2⟩ := h1
  rw [← h2]
  unfold nodeUp
  split
  · rename_i h; exact ⟨h1, h, rfl⟩
  · rename_i h
    obtain ⟨a1, a2, a3⟩ := advance_frame t 1
    generalize t.step (.advance 1) = u at a1 a2 a3
    have hc : u.nodeConn = false := by rw [a2]; simpa using h
    have hu : u.step .nodeConnect =
        { u.send (u.node.goOnline u.clock).1 (u.node.goOnline u.clock).2 with nodeConn := true } := by
      simp [Sys.step, hc]
    rw [hu]
    refine ⟨?_, rfl, ?_⟩
    · show u.hostConn = true
      rw [a3]; exact h1
    · show (u.node.goOnline u.clock).1.enabledNames = _
      rw [goOnline_en, a1]

/-- the facts available in every reachable state -/
structure Reach (d : Nat) (s : Sys) : Prop where
  live : LiveInv d s
  node : NodeInv s.node
  conn : ConnInv s

theorem Reach.steps {d : Nat} {s t : Sys} (h : Reach d s) (hs : Steps s t) : Reach d t :=
  ⟨LiveInv_steps d hs h.live, NodeInv_steps hs h.node, ConnInv_steps hs h.conn⟩

theorem Reach.init (d : Nat) (devs : List Dev) (hnames : (devs.map (·.name)).Nodup)
    (hflags : ∀ x ∈ devs, x.flag = false) : Reach d (Sys.init (Sys.fullCfg d) devs) :=
  ⟨LiveInv_init d devs, NodeInv_init _ devs hnames hflags, ConnInv_init _ devs⟩

/-- a reachable state with both sides connected: after delivering everything in flight it is quiet -/
theorem delivered_quiet (d : Nat) (a : Sys) (hr : Reach d a) (hh : a.hostConn = true) (hn : a.nodeConn = true)
    (hfew : a.node.enabledNames.length < 255) :
    let D := Sys.deliverAll a.toHost.length a
    Quiet d D ∧ D.toNode ≤ a.toNode + a.toHost.length ∧ HostOk D.host D.clock := by
  intro D
  have hD : D = Sys.deliverAll a.toHost.length a := rfl
  have hreach : Reach d D := hr.steps (deliverAll_steps _ a)
  rw [deliverAll_eq a.toHost a hh rfl] at hD
  have hon : a.node.online = true := by rw [← hr.conn.conn]; exact hn
  have hok : NodeOk a.node := hr.node.nodeOk hr.live.safe.bd (hr.conn.birthed hon) hfew
  refine ⟨?_, ?_, hreach.live.hostOk⟩
  · rw [hD]
    exact ⟨hr.live.safe.cfg, hn, hh, rfl, hok⟩
  · rw [hD]
    have := feed_count_le a.cfg a.clock a.toHost a.host
    simp only
    omega

theorem first_drain_aux (d : Nat) (a : Sys) (hra : Reach d a) (hh : a.hostConn = true) (hn : a.nodeConn = true)
    (hfew : a.node.enabledNames.length < 255) (f : Nat) (hf : a.toNode + a.toHost.length ≤ f) :
    Quiet d (Sys.drainNet f a) ∧ (Sys.drainNet f a).toNode ≤ 1 ∧
    HostOk (Sys.drainNet f a).host (Sys.drainNet f a).clock ∧
    ((Sys.drainNet f a).toNode ≠ 0 →
      SyncOk (Sys.drainNet f a).host (Sys.drainNet f a).node (Sys.drainNet f a).clock) ∧
    (a.toNode + a.toHost.length + 1 ≤ f → (Sys.drainNet f a).toNode = 0) := by
  have hrE : Reach d (Sys.drainNet f a) := hra.steps (drainNet_steps f _)
  obtain ⟨q0, t0, o0⟩ := delivered_quiet d a hra hh hn hfew
  by_cases h0 : (Sys.deliverAll a.toHost.length a).toNode = 0
  · -- no NCMD in flight after the first delivery
    have hE : Sys.drainNet f a = Sys.deliverAll a.toHost.length a := by
      cases f with
      | zero => rfl
      | succ f' =>
        show (if (Sys.deliverAll a.toHost.length a).toNode = 0 then _ else _) = _
        rw [if_pos h0]
    rw [hE]
    exact ⟨q0, by omega, o0, fun hne => absurd h0 hne, fun _ => h0⟩
  · cases f with
    | zero => omega
    | succ f' =>
      have hE : Sys.drainNet (f' + 1) a =
          Sys.drainNet f' (((Sys.deliverAll a.toHost.length a).step (.advance 1)).step .deliverNcmd) := by
        show (if (Sys.deliverAll a.toHost.length a).toNode = 0 then _ else _) = _
        rw [if_neg h0]
      obtain ⟨c1, c2, _, c4, _⟩ := cycle_any d _ q0 h0 o0
      obtain ⟨i1, i2, i3⟩ := drainNet_short d f' _ c1 (fun _ => c4.cyclePre)
      rw [← hE] at i1 i2 i3
      have hsync : SyncOk (Sys.drainNet (f' + 1) a).host (Sys.drainNet (f' + 1) a).node
          (Sys.drainNet (f' + 1) a).clock := by
        rcases i3 with h | h
        · rw [h]; exact c4
        · exact h
      exact ⟨i1, by omega, hrE.live.hostOk, fun _ => hsync, fun _ => by omega⟩

/-- **`drain (reconnect s)` with any fuel `f ≥ toNode + #toHost`** (what `drain` supplies), from any
reachable state with fewer than 255 enabled devices: both sides connected, nothing in flight
towards the host, the node at rest; at most ONE NCMD is left in flight, and none if the fuel is one
more; if one is left the host is in step. -/
theorem first_drain (d : Nat) (s : Sys) (hr : Reach d s) (hfew : s.node.enabledNames.length < 255)
    (f : Nat) (hf : (Sys.reconnect s).toNode + (Sys.reconnect s).toHost.length ≤ f) :
    let E := Sys.drainNet f (Sys.reconnect s)
    Quiet d E ∧ E.toNode ≤ 1 ∧ HostOk E.host E.clock ∧
    (E.toNode ≠ 0 → SyncOk E.host E.node E.clock) ∧
    ((Sys.reconnect s).toNode + (Sys.reconnect s).toHost.length + 1 ≤ f → E.toNode = 0) := by
  obtain ⟨hh, hn, hen⟩ := reconnect_facts s
  exact first_drain_aux d _ (hr.steps (reconnect_steps s)) hh hn (by rw [hen]; exact hfew) f hf

/-- the outcome of the two delivery phases: quiet in both directions, no timer, nothing buffered -/
structure Phase1 (d : Nat) (p : Sys) : Prop where
  quiet : Quiet d p
  toNode : p.toNode = 0
  pre : CyclePre p.host p.node p.clock
  good : p.host.life = .birthed → p.host.reseq.mode = .good
  timerOk : TimerOk p.host

theorem SyncOk.phase1 {d : Nat} {p : Sys} (hq : Quiet d p) (h0 : p.toNode = 0)
    (hs : SyncOk p.host p.node p.clock) : Phase1 d p :=
  ⟨hq, h0, hs.cyclePre, fun _ => by rw [hs.track.reseq], fun _ =>
    ⟨by rw [hs.track.timer]; simp, fun hm => absurd (by rw [hs.track.reseq]) hm⟩⟩

/-- **the two delivery phases of a round, from every reachable state** (fewer than 255 enabled
devices): both sides connected, nothing in flight in either direction, the node at rest, the host's
record without a timer and with nothing buffered -/
theorem firstPhase_spec (d : Nat) (s : Sys) (hr : Reach d s) (hfew : s.node.enabledNames.length < 255) :
    Phase1 d (Sys.firstPhase s) := by
  obtain ⟨q, t1, ho, hsy, _⟩ := first_drain d s hr hfew _ (Nat.le_refl _)
  have hE : Sys.drainNet ((Sys.reconnect s).toNode + (Sys.reconnect s).toHost.length) (Sys.reconnect s)
      = Sys.drain (Sys.reconnect s) := rfl
  rw [hE] at q t1 ho hsy
  unfold Sys.firstPhase
  generalize Sys.drain (Sys.reconnect s) = E at q t1 ho hsy
  by_cases h0 : E.toNode = 0
  · have hcases : E.host.timer = .none ∨ E.host.timer = .fired ∨ ∃ dl, E.host.timer = .armed dl := by
      cases E.host.timer <;> simp
    rcases hcases with ht | ht | ⟨dl, ht⟩
    · rw [timerPhase_idle E ht, drain_id d E q h0]
      refine ⟨q, h0, ⟨ho.inv, ht, ho.birthTs, ho.staleTs⟩, fun hb => ?_, ho.timer⟩
      apply Classical.byContradiction
      intro hng
      obtain ⟨dl, hdl⟩ := (ho.timer hb).2 hng
      rw [ht] at hdl; cases hdl
    · exfalso
      cases hl : E.host.life with
      | birthed => exact (ho.timer hl).1 ht
      | stale =>
        have := (ho.inv.2.1 hl).2.1
        rw [ht] at this; cases this
    · have ha : ArmedOk E.host E.clock :=
        ⟨armed_birthed E.host ho.inv dl ht, ho.inv, ⟨dl, ht⟩, ho.birthTs, ho.staleTs⟩
      obtain ⟨u1, u2, u3⟩ := timerPhase_spec d E q ha
      have hne : (Sys.timerPhase E).toNode ≠ 0 := by omega
      obtain ⟨b1, b2, b3⟩ := (drain_quiet d _ u1 (fun _ => u3)).2 hne
      exact b3.phase1 b1 b2
  · have hs := hsy h0
    rw [timerPhase_idle E hs.track.timer]
    obtain ⟨b1, b2, b3⟩ := (drain_quiet d E q (fun _ => hs.cyclePre)).2 h0
    exact b3.phase1 b1 b2

/-- the first round ends settled, from every reachable state, provided the record the delivery
phases leave behind is not "in step but holding a device birthed that is not enabled" -/
theorem round_reach (d : Nat) (s : Sys) (hr : Reach d s) (hfew : s.node.enabledNames.length < 255)
    (hbelow : InStep (Sys.firstPhase s).host (Sys.firstPhase s).node →
      DevsBelow (Sys.firstPhase s).host (Sys.firstPhase s).node) :
    Settled d (Sys.round s).1 := by
  have hp := firstPhase_spec d s hr hfew
  rw [round_eq]
  exact pubDrain_any d _ hp.quiet hp.toNode hp.pre hp.good hbelow

theorem settle_succ (k : Nat) (s : Sys) : Sys.settle (k + 1) s = Sys.settle k (Sys.round s).1 ∨ k = 0 := by
  cases k with
  | zero => exact Or.inr rfl
  | succ k => exact Or.inl (settle_shift s k)

/-! ## Part L — in step, but holding a device birthed that is not enabled: stuck for ever -/

/-- quiet, the host in step with the node and holding every enabled device birthed — and device
`e`, which the node has not enabled, birthed as well -/
structure Stuck (d : Nat) (p : Sys) (e : Nat) : Prop where
  quiet : Quiet d p
  toNode : p.toNode = 0
  track : Track p.host ((p.node.seq + 1) % 256)
  birthTs : p.host.birthTs ≤ p.clock
  staleTs : p.host.staleTs ≤ p.clock
  all : ∀ dv ∈ p.node.enabledNames, findDev dv p.host.devices = some .birthed
  extra : findDev e p.host.devices = some .birthed
  notEn : e ∉ p.node.enabledNames

/-- a host that holds a device birthed which the node has not enabled is not `InSync` -/
theorem inSync_false_of_extra (s : Sys) (last : List Eff) (e : Nat)
    (h1 : findDev e s.host.devices = some .birthed) (h2 : e ∉ s.node.enabledNames) :
    Sys.InSync s last = false := by
  cases h : Sys.InSync s last with
  | false => rfl
  | true =>
    exfalso
    simp only [Sys.InSync, Bool.and_eq_true] at h
    have hall := h.1.1.1.2
    rw [List.all_eq_true] at hall
    have := hall (e, .birthed) (findDev_some_mem e _ _ h1)
    simp at this
    exact h2 this

/-- the publishing phase from a host in step that holds every enabled device birthed: every publish
is applied, nothing else happens to the host's record -/
theorem pubDrain_step (d : Nat) (s : Sys) (hq : Quiet d s) (h0 : s.toNode = 0)
    (ht : Track s.host ((s.node.seq + 1) % 256)) (hb1 : s.host.birthTs ≤ s.clock) (hb2 : s.host.staleTs ≤ s.clock)
    (hall : ∀ dv ∈ s.node.enabledNames, findDev dv s.host.devices = some .birthed) :
    let s' := Sys.drain (Sys.pubAll s)
    Quiet d s' ∧ s'.toNode = 0 ∧ s'.node = afterPub s.node ∧ s'.clock = s.clock + 1 ∧
    s'.host = { s.host with reseq := { buf := [], next := (s.node.seq + 1 + 1 + s.node.enabledNames.length) % 256,
                                       mode := .good } } := by
  intro s'
  obtain ⟨hD, hPe, hPn, hPh⟩ := pub_delivered d s hq ht.timer
  have hR := feed_burst_sync d (s.clock + 1) (s.node.seq + 1) s.node.nextId s.node.enabledNames s.host
    ht (by omega) (by omega) hall
  rw [hR] at hD
  simp only [count_ncmd_zero _ (dataEff_ncmd _), Nat.add_zero] at hD
  have hfew := hq.node.few
  have hq' : Quiet d (Sys.deliverAll (Sys.pubAll s).toHost.length (Sys.pubAll s)) := by
    rw [hD]; exact ⟨hq.cfg, hq.nodeConn, hq.hostConn, rfl, afterPub_ok _ hq.node⟩
  have hz : (Sys.deliverAll (Sys.pubAll s).toHost.length (Sys.pubAll s)).toNode = 0 := by rw [hD]; exact h0
  have hdr : s' = Sys.deliverAll (Sys.pubAll s).toHost.length (Sys.pubAll s) :=
    (drainNet_spec d _ (Sys.pubAll s) hq' (by omega) (fun hne => absurd hz hne)).1 hz
  rw [hdr, hD]
  exact ⟨by rw [← hD]; exact hq', h0, rfl, rfl, rfl⟩

theorem Stuck.pub {d : Nat} {p : Sys} {e : Nat} (h : Stuck d p e) : Stuck d (Sys.drain (Sys.pubAll p)) e := by
  obtain ⟨q, z, hn, hc, hh⟩ := pubDrain_step d p h.quiet h.toNode h.track h.birthTs h.staleTs h.all
  have hfew := h.quiet.node.few
  refine ⟨q, z, ?_, ?_, ?_, ?_, ?_, ?_⟩
  · rw [hh, hn]
    refine ⟨h.track.life, ?_, h.track.timer⟩
    simp only [afterPub]
    congr 1
    omega
  · rw [hh, hc]; have := h.birthTs; simp only; omega
  · rw [hh, hc]; have := h.staleTs; simp only; omega
  · rw [hh, hn]; exact h.all
  · rw [hh]; exact h.extra
  · rw [hn]; exact h.notEn

theorem Stuck.firstPhase {d : Nat} {p : Sys} {e : Nat} (h : Stuck d p e) : Sys.firstPhase p = p := by
  unfold Sys.firstPhase
  rw [reconnect_quiet d p h.quiet, drain_id d p h.quiet h.toNode, timerPhase_idle p h.track.timer,
    drain_id d p h.quiet h.toNode]

theorem Stuck.round {d : Nat} {p : Sys} {e : Nat} (h : Stuck d p e) : Stuck d (Sys.round p).1 e := by
  rw [round_eq, h.firstPhase]
  exact h.pub

theorem Stuck.settle {d : Nat} {p : Sys} {e : Nat} (h : Stuck d p e) : ∀ k, Stuck d (Sys.settle k p).1 e := by
  intro k
  induction k with
  | zero => exact h
  | succ k ih => exact ih.round

theorem Stuck.notInSync {d : Nat} {p : Sys} {e : Nat} (h : Stuck d p e) (last : List Eff) :
    Sys.InSync p last = false :=
  inSync_false_of_extra p last e h.extra h.notEn

/-- the record the delivery phases leave behind is in step but holds a device birthed that is not
enabled: it is `Stuck` -/
theorem Phase1.stuck {d : Nat} {p : Sys} (hp : Phase1 d p) (hi : InStep p.host p.node)
    (hnb : ¬ DevsBelow p.host p.node) : ∃ e, Stuck d p e := by
  have hex : ∃ e, findDev e p.host.devices = some .birthed ∧ e ∉ p.node.enabledNames := by
    apply Classical.byContradiction
    intro hc
    apply hnb
    intro dv hd
    apply Classical.byContradiction
    intro hne
    exact hc ⟨dv, hd, hne⟩
  obtain ⟨e, he1, he2⟩ := hex
  obtain ⟨i1, i2, i3, i4, i5⟩ := hi
  have hbuf : p.host.reseq.buf = [] := by have := hp.pre.inv.1.2; rw [i3] at this; exact this
  refine ⟨e, hp.quiet, hp.toNode, ⟨i1, ?_, i2⟩, hp.pre.birthTs, hp.pre.staleTs, i5, he1, he2⟩
  cases hr : p.host.reseq with
  | mk buf next mode =>
    rw [hr] at i3 i4 hbuf
    simp only at i3 i4 hbuf
    subst i3 i4 hbuf
    rfl

/-! ## Part M — the host only knows devices the node has registered -/

/-- a DBIRTH names a device in `N` -/
def RIn (N : List Nat) : RMsg → Prop
  | .dbirth d _ _ => d ∈ N
  | _ => True

def InIn (N : List Nat) : In → Prop
  | .rmsg _ _ m => RIn N m
  | _ => True

def MsgIn (N : List Nat) (m : Msg) : Prop := InIn N m.toIn

/-- every device in the host's table, and every device a buffered DBIRTH names, is in `N` -/
structure DevsIn (N : List Nat) (s : St) : Prop where
  devs : ∀ d ∈ s.devices.map Prod.fst, d ∈ N
  buf : ∀ x ∈ s.reseq.buf, RIn N x.2.2

theorem DevsIn.of_eq {N : List Nat} {s t : St} (h : DevsIn N s) (h1 : t.devices.map Prod.fst = s.devices.map Prod.fst)
    (h2 : ∀ x ∈ t.reseq.buf, x ∈ s.reseq.buf) : DevsIn N t :=
  ⟨by rw [h1]; exact h.devs, fun x hx => h.buf x (h2 x hx)⟩

theorem apply_in (N : List Nat) (s : St) (m : RMsg) (h : DevsIn N s) (hm : RIn N m) :
    DevsIn N (apply s m).1 := by
  refine ⟨?_, by rw [SeqP.apply_reseq]; exact h.buf⟩
  cases m with
  | ndata id ans => exact h.devs
  | dbirth d id ans =>
    simp only [apply]
    cases hf : findDev d s.devices with
    | some l =>
      by_cases ha : ans = .ok
      · simp only [ha, if_true, map_fst_setDev]; exact h.devs
      · simp only [ha, if_false]; exact h.devs
    | none =>
      have hd : d ∈ N := hm
      by_cases ha : ans = .ok
      · simp only [ha, if_true, map_fst_setDev, List.map_append, List.map_cons, List.map_nil]
        intro x hx
        rcases List.mem_append.mp hx with hx | hx
        · exact h.devs x hx
        · simp only [List.mem_singleton] at hx; subst hx; exact hd
      · simp only [ha, if_false, List.map_append, List.map_cons, List.map_nil]
        intro x hx
        rcases List.mem_append.mp hx with hx | hx
        · exact h.devs x hx
        · simp only [List.mem_singleton] at hx; subst hx; exact hd
  | ddeath d id =>
    simp only [apply]
    cases hf : findDev d s.devices with
    | none => exact h.devs
    | some l => simp only [map_fst_setDev]; exact h.devs
  | ddata d id ans =>
    simp only [apply]
    cases hf : findDev d s.devices with
    | none => exact h.devs
    | some l => cases l <;> exact h.devs

theorem drainBuf_in (N : List Nat) (c : Cfg) (now : Nat) (fuel : Nat) : ∀ (released : Bool) (s : St) (acc : List Eff),
    DevsIn N s → DevsIn N (drainBuf c now fuel released s acc).1 := by
  induction fuel with
  | zero => intro released s acc h; exact h
  | succ fuel ih =>
    intro released s acc h
    rw [C07P.drainBuf_succ]
    have hdm := drain_mem s.reseq
    have hset : ∀ r', (Reseq.drain s.reseq).1 = r' → DevsIn N { s with reseq := r' } := by
      intro r' hr'
      subst hr'
      exact ⟨h.devs, fun x hx => h.buf x (hdm.1 x hx)⟩
    split
    · rename_i r' m hd
      have hb1 := hset r' (by rw [hd])
      obtain ⟨k, hk⟩ := hdm.2 m (by rw [hd])
      have hm : RIn N m.2 := h.buf (k, m) hk
      have hap := apply_in N { s with reseq := r' } m.2 hb1 hm
      split
      · rename_i s1 e1 happ
        rw [happ] at hap
        exact ih true s1 _ hap
      · rename_i s1 e1 r happ
        rw [happ] at hap
        exact hap
    · rename_i r' hd
      have hb1 := hset r' (by rw [hd])
      simp only [SeqP.cancelTimer_fst]
      exact ⟨hb1.devs, hb1.buf⟩
    · rename_i r' hd
      have hb1 := hset r' (by rw [hd])
      split
      · simp only
        rw [SeqP.startTimer_fst, SeqP.cancelTimer_fst]
        exact ⟨hb1.devs, hb1.buf⟩
      · exact hb1
    · rename_i r' hd
      exact hset r' (by rw [hd])

theorem handleRMsg_in (N : List Nat) (c : Cfg) (s : St) (seq ts : Nat) (m : RMsg) (now : Nat)
    (h : DevsIn N s) (hm : RIn N m) : DevsIn N (handleRMsg c s seq ts m now).1 := by
  rw [C07P.handleRMsg_eq]
  split
  · exact h
  split
  · exact h
  split
  · exact apply_in N s m h hm
  have hpc := Reseq.process_cases s.reseq seq (seq, m)
  split
  · rename_i r' hp
    have hb1 : DevsIn N { s with reseq := r' } := by
      refine ⟨h.devs, ?_⟩
      rcases hpc with ⟨_, h'⟩ | ⟨s', h', _, k, hk⟩ | ⟨s', h', _, _⟩
      · rw [hp] at h'; cases h'
      · rw [hp] at h'; cases h'
        intro x hx
        simp only [hk] at hx
        rcases (Reseq.mem_insertSorted _ _ _ _).mp hx with rfl | hx
        · exact hm
        · exact h.buf x hx
      · rw [hp] at h'; cases h'
    split
    · simp only
      rw [SeqP.startTimer_fst]
      exact ⟨hb1.devs, hb1.buf⟩
    · exact hb1
  · rename_i r' hp
    refine ⟨h.devs, ?_⟩
    rcases hpc with ⟨_, h'⟩ | ⟨s', h', _, k, hk⟩ | ⟨s', h', _, hbuf⟩
    · rw [hp] at h'; cases h'
    · rw [hp] at h'; cases h'
    · rw [hp] at h'; cases h'
      intro x hx; simp only [hbuf] at hx; exact h.buf x hx
  · rename_i r' m' hp
    have hmr : m' = (seq, m) ∧ r'.buf = s.reseq.buf := by
      rcases hpc with ⟨_, h'⟩ | ⟨s', h', _, k, hk⟩ | ⟨s', h', _, hbuf⟩
      · rw [hp] at h'; cases h'; exact ⟨rfl, rfl⟩
      · rw [hp] at h'; cases h'
      · rw [hp] at h'; cases h'
    obtain ⟨rfl, hbuf⟩ := hmr
    have hb1 : DevsIn N { s with reseq := r' } :=
      ⟨h.devs, fun x hx => by simp only [hbuf] at hx; exact h.buf x hx⟩
    have hap := apply_in N { s with reseq := r' } m hb1 hm
    split
    · rename_i s1 e1 r happ
      rw [happ] at hap
      exact hap
    · rename_i s1 e1 happ
      rw [happ] at hap
      exact drainBuf_in N c now _ false s1 e1 hap

theorem map_stale_fst (D : List (Nat × Life)) :
    (D.map fun d => (d.1, Life.stale)).map Prod.fst = D.map Prod.fst := by
  simp [List.map_map, Function.comp_def]

theorem setStale_in (N : List Nat) (s : St) (t : Nat) (h : DevsIn N s) : DevsIn N (setStale s t).1 := by
  rw [C07P.setStale_eq]
  split
  · exact h
  split
  · exact h
  · refine ⟨?_, ?_⟩
    · simp only [SeqP.cancelTimer_fst, map_stale_fst]
      exact h.devs
    · intro x hx
      simp only [SeqP.cancelTimer_fst, Reseq.init] at hx
      cases hx

theorem issueRebirth_in (N : List Nat) (c : Cfg) (s : St) (r : Reason) (now wall : Nat) (h : DevsIn N s) :
    DevsIn N (issueRebirth c s r now wall).1 := by
  rw [C07P.issueRebirth_eq]
  split
  · exact h
  split
  · exact h
  · exact setStale_in N { s with lastRebirth := wall } now ⟨h.devs, h.buf⟩

/-- **Part M, host side**: a host step keeps the device table and the buffered DBIRTHs inside `N`
if the input does -/
theorem step_in (N : List Nat) (c : Cfg) (s : St) (i : In) (now wall : Nat) (h : DevsIn N s) (hi : InIn N i) :
    DevsIn N (step c s i now wall).1 := by
  cases i with
  | nbirth ts bd id ans =>
    simp only [step]
    rw [C07P.handleBirth_eq]
    split
    · exact h
    split
    · exact issueRebirth_in N c s .invalidPayload now wall h
    · refine ⟨?_, ?_⟩
      · simp only [SeqP.cancelTimer_fst, map_stale_fst]
        exact h.devs
      · intro x hx
        simp [Reseq.setNext, Reseq.init] at hx
  | ndeath bd =>
    rw [C07P.step_ndeath_eq]
    have h0 : DevsIn N (cancelTimer s).1 := by rw [SeqP.cancelTimer_fst]; exact ⟨h.devs, h.buf⟩
    have h1 := setStale_in N (cancelTimer s).1 now h0
    split
    · exact issueRebirth_in N c _ .outOfSyncBdSeq now wall h1
    · exact h1
  | rmsg seq ts m =>
    rw [C07P.step_rmsg_eq]
    have h1 := handleRMsg_in N c s seq ts m now h hi
    split
    · exact h1
    · exact issueRebirth_in N c _ _ now wall h1
  | offline => exact setStale_in N s now h
  | rebirthReq r => exact issueRebirth_in N c s r now wall h
  | timerFire =>
    simp only [step]
    split
    · exact issueRebirth_in N c _ _ now wall ⟨h.devs, h.buf⟩
    · exact h

/-! ### node side: the registered names never change, DBIRTHs name registered devices -/

/-- name and switch of every registered device, in map order -/
def sig (n : Node) : List (Nat × Bool) := n.devs.map fun x => (x.name, x.enabled)

theorem sig_names (n : Node) : (sig n).map Prod.fst = n.devs.map (·.name) := by
  simp [sig, List.map_map, Function.comp_def]

theorem devBirth_devs (rb : Bool) (ts : Nat) (n : Node) (x : Dev) : (Node.devBirth rb ts n x).1.devs = n.devs := by
  unfold Node.devBirth
  split
  · rfl
  split
  · rfl
  split
  · rfl
  · rename_i n1 k hk
    obtain ⟨rfl, rfl, _, _⟩ := nextSeq_some n n1 k hk
    rfl

theorem devBirth_msgs (rb : Bool) (ts : Nat) (n : Node) (x : Dev) (N : List Nat) (hx : x.name ∈ N) :
    ∀ m ∈ (Node.devBirth rb ts n x).2.2, MsgIn N m := by
  unfold Node.devBirth
  split
  · simp
  split
  · simp
  split
  · simp
  · intro m hm
    simp only [List.mem_singleton] at hm
    subst hm
    exact hx

theorem birthDevs_sig (rb : Bool) (ts : Nat) (l : List Dev) (N : List Nat) : ∀ n : Node,
    (∀ x ∈ l, x.name ∈ N) →
    (Node.birthDevs rb ts n l).1.devs = n.devs ∧
    ((Node.birthDevs rb ts n l).2.1.map fun x => (x.name, x.enabled)) = (l.map fun x => (x.name, x.enabled)) ∧
    ∀ m ∈ (Node.birthDevs rb ts n l).2.2, MsgIn N m := by
  induction l with
  | nil => intro n _; exact ⟨rfl, rfl, by simp [Node.birthDevs]⟩
  | cons x t ih =>
    intro n hall
    simp only [Node.birthDevs]
    obtain ⟨a1, a2⟩ := devBirth_en rb ts n x
    obtain ⟨b1, b2, b3⟩ := ih (Node.devBirth rb ts n x).1 (fun y hy => hall y (List.mem_cons_of_mem _ hy))
    refine ⟨b1.trans (devBirth_devs rb ts n x), ?_, ?_⟩
    · simp only [List.map_cons, a1, a2, b2]
    · intro m hm
      rcases List.mem_append.mp hm with hm | hm
      · exact devBirth_msgs rb ts n x N (hall x (List.mem_cons_self ..)) m hm
      · exact b3 m hm

/-- the operation keeps every device's name and switch and hands over only DBIRTHs of registered
devices -/
def OpSig (n : Node) (r : Node × List Msg) : Prop :=
  sig r.1 = sig n ∧ ∀ m ∈ r.2, MsgIn (n.devs.map (·.name)) m

/-- the operation keeps the names (it may flip a switch) -/
def OpNames (n : Node) (r : Node × List Msg) : Prop :=
  r.1.devs.map (·.name) = n.devs.map (·.name) ∧ ∀ m ∈ r.2, MsgIn (n.devs.map (·.name)) m

theorem OpSig.names {n : Node} {r : Node × List Msg} (h : OpSig n r) : OpNames n r := by
  refine ⟨?_, h.2⟩
  rw [← sig_names, ← sig_names, h.1]

theorem nodeBirth_sig (rb : Bool) (ts : Nat) (n : Node) : OpSig n (Node.nodeBirth rb ts n) := by
  obtain ⟨_, b2, b3⟩ := birthDevs_sig rb ts n.devs (n.devs.map (·.name))
    { n with birthed := true, seq := 0, nextId := n.nextId + 1 }
    (fun x hx => List.mem_map.mpr ⟨x, hx, rfl⟩)
  simp only [Node.nodeBirth, OpSig, sig]
  refine ⟨b2, ?_⟩
  intro m hm
  rcases List.mem_cons.mp hm with rfl | hm
  · trivial
  · exact b3 m hm

theorem OpSig_refl (n : Node) : OpSig n (n, []) := ⟨rfl, by simp⟩

theorem rebirth_sig (ts : Nat) (n : Node) : OpSig n (n.rebirth ts) := by
  unfold Node.rebirth
  split
  · exact OpSig_refl n
  · exact nodeBirth_sig true ts n

theorem goOnline_sig (ts : Nat) (n : Node) : OpSig n (n.goOnline ts) := by
  unfold Node.goOnline
  split
  · exact OpSig_refl n
  · exact nodeBirth_sig false ts { n with online := true }

theorem pubNode_sig (ts : Nat) (n : Node) : OpSig n (n.pubNode ts) := by
  unfold Node.pubNode
  split
  · exact OpSig_refl n
  · rename_i n1 k hk
    obtain ⟨rfl, rfl, _, _⟩ := nextSeq_some n n1 k hk
    refine ⟨rfl, ?_⟩
    intro m hm
    simp only [List.mem_singleton] at hm
    subst hm
    trivial

theorem pubDev_sig (d ts : Nat) (n : Node) : OpSig n (n.pubDev d ts) := by
  unfold Node.pubDev
  split
  · exact OpSig_refl n
  split
  · exact OpSig_refl n
  split
  · exact OpSig_refl n
  · rename_i n1 k hk
    obtain ⟨rfl, rfl, _, _⟩ := nextSeq_some n n1 k hk
    refine ⟨rfl, ?_⟩
    intro m hm
    simp only [List.mem_singleton] at hm
    subst hm
    trivial

theorem enable_names (d ts : Nat) (n : Node) : OpNames n (n.enable d ts) := by
  unfold Node.enable
  split
  · exact ⟨rfl, by simp⟩
  · rename_i x hx
    have hxm := findDev_mem n d x hx
    refine ⟨?_, ?_⟩
    · simp only
      rw [setDev_names, devBirth_devs]
    · exact devBirth_msgs false ts n { x with enabled := true } _ (List.mem_map.mpr ⟨x, hxm, rfl⟩)

theorem disable_names (d ts : Nat) (n : Node) : OpNames n (n.disable d ts) := by
  unfold Node.disable
  split
  · exact ⟨rfl, by simp⟩
  split
  · exact ⟨by simp only; rw [setDev_names], by simp⟩
  split
  · exact ⟨by simp only; rw [setDev_names], by simp⟩
  · rename_i n1 k hk
    obtain ⟨rfl, rfl, _, _⟩ := nextSeq_some n n1 k hk
    refine ⟨by simp only; rw [setDev_names], ?_⟩
    intro m hm
    simp only [List.mem_singleton] at hm
    subst hm
    trivial

theorem goOffline_sig (n : Node) : sig n.goOffline.1 = sig n := by
  unfold Node.goOffline
  split
  · rfl
  · simp [sig, List.map_map, Function.comp_def]

/-- everything in flight and everything the host knows names registered devices -/
structure DevNames (s : Sys) : Prop where
  flight : ∀ m ∈ s.toHost, MsgIn (s.node.devs.map (·.name)) m
  host : DevsIn (s.node.devs.map (·.name)) s.host

theorem DevNames_send (s : Sys) (r : Node × List Msg) (h : DevNames s) (hr : OpNames s.node r) :
    DevNames (s.send r.1 r.2) := by
  refine ⟨?_, ?_⟩
  · intro m hm
    show MsgIn (r.1.devs.map (·.name)) m
    rw [hr.1]
    have hm' : m ∈ s.toHost ++ r.2 := hm
    rcases List.mem_append.mp hm' with hm' | hm'
    · exact h.flight m hm'
    · exact hr.2 m hm'
  · show DevsIn (r.1.devs.map (·.name)) s.host
    rw [hr.1]; exact h.host

theorem DevNames_hostStep (s : Sys) (i : In) (h : DevNames s) (hi : InIn (s.node.devs.map (·.name)) i) :
    DevNames (s.hostStep i) :=
  ⟨h.flight, step_in _ s.cfg s.host i s.clock s.clock h.host hi⟩

theorem DevNames_frame {s t : Sys} (h : DevNames s) (h1 : t.node = s.node) (h2 : t.host = s.host)
    (h3 : ∀ m ∈ t.toHost, m ∈ s.toHost) : DevNames t :=
  ⟨by rw [h1]; exact fun m hm => h.flight m (h3 m hm), by rw [h1, h2]; exact h.host⟩

theorem DevNames_step (s : Sys) (a : Action) (h : DevNames s) : DevNames (s.step a) := by
  cases a with
  | publishNode => exact DevNames_send s _ h (pubNode_sig _ _).names
  | publishDev d => exact DevNames_send s _ h (pubDev_sig _ _ _).names
  | enable d => exact DevNames_send s _ h (enable_names _ _ _)
  | disable d => exact DevNames_send s _ h (disable_names _ _ _)
  | manualRebirth => exact DevNames_send s _ h (rebirth_sig _ _).names
  | deliver k =>
    simp only [Sys.step]; split
    · exact h
    · rename_i m hm
      have hmem : m ∈ s.toHost := List.mem_of_getElem? hm
      have h1 : DevNames { s with toHost := s.toHost.eraseIdx k } :=
        DevNames_frame h rfl rfl (fun m' hm' => eraseIdx_mem _ _ _ hm')
      simp only [Sys.recv]; split
      · exact DevNames_hostStep _ _ h1 (h.flight m hmem)
      · exact h1
  | duplicate k =>
    simp only [Sys.step]; split
    · exact h
    · rename_i m hm
      have hmem : m ∈ s.toHost := List.mem_of_getElem? hm
      refine DevNames_frame h rfl rfl ?_
      intro m' hm'
      rcases List.mem_append.mp hm' with hm' | hm'
      · exact hm'
      · simp only [List.mem_singleton] at hm'; subst hm'; exact hmem
  | drop k =>
    simp only [Sys.step]; split
    · exact h
    · split
      · exact DevNames_frame h rfl rfl (fun m' hm' => eraseIdx_mem _ _ _ hm')
      · exact h
  | deliverNcmd =>
    simp only [Sys.step]; split
    · exact h
    · have h1 : DevNames { s with toNode := s.toNode - 1 } := DevNames_frame h rfl rfl (fun _ hm => hm)
      split
      · exact DevNames_send _ _ h1 (rebirth_sig _ _).names
      · exact h1
  | dropNcmd => exact DevNames_frame h rfl rfl (fun _ hm => hm)
  | nodeDisconnect =>
    simp only [Sys.step]; split
    · exact h
    · have hn : s.node.goOffline.1.devs.map (·.name) = s.node.devs.map (·.name) := by
        rw [← sig_names, ← sig_names, goOffline_sig]
      refine ⟨?_, ?_⟩
      · intro m hm
        show MsgIn (s.node.goOffline.1.devs.map (·.name)) m
        rw [hn]
        have hm' : m ∈ s.toHost ++ [Msg.ndeath s.will] := hm
        rcases List.mem_append.mp hm' with hm' | hm'
        · exact h.flight m hm'
        · simp only [List.mem_singleton] at hm'; subst hm'; trivial
      · show DevsIn (s.node.goOffline.1.devs.map (·.name)) s.host
        rw [hn]; exact h.host
  | nodeConnect =>
    simp only [Sys.step]; split
    · exact h
    · have h1 := DevNames_send s _ h (goOnline_sig s.clock s.node).names
      exact ⟨h1.flight, h1.host⟩
  | hostDisconnect =>
    simp only [Sys.step]; split
    · exact h
    · have h1 := DevNames_hostStep s .offline h trivial
      exact ⟨h1.flight, h1.host⟩
  | hostConnect => exact DevNames_frame h rfl rfl (fun _ hm => hm)
  | advance ms =>
    simp only [Sys.step]
    have h1 : DevNames { s with clock := s.clock + ms } := DevNames_frame h rfl rfl (fun _ hm => hm)
    split
    · split
      · exact DevNames_hostStep _ .timerFire h1 trivial
      · exact h1
    · exact h1

theorem DevNames_run (as : List Action) : ∀ s : Sys, DevNames s → DevNames (s.run as) := by
  induction as with
  | nil => intro s h; exact h
  | cons a as ih => intro s h; exact ih _ (DevNames_step s a h)

theorem DevNames_init (c : Cfg) (devs : List Dev) : DevNames (Sys.init c devs) :=
  ⟨by simp [Sys.init], ⟨by simp [Sys.init, Host.init], by simp [Sys.init, Host.init, Reseq.init]⟩⟩

/-- the fault-free continuation flips no switch -/
theorem auto_sig (s : Sys) (a : Action) (ha : a.auto = true) : sig (s.step a).node = sig s.node := by
  cases a with
  | publishNode => exact (pubNode_sig _ _).1
  | publishDev d => exact (pubDev_sig _ _ _).1
  | deliver k =>
    simp only [Sys.step]; split
    · rfl
    · simp only [Sys.recv]; split <;> rfl
  | deliverNcmd =>
    simp only [Sys.step]; split
    · rfl
    · split
      · exact (rebirth_sig _ _).1
      · rfl
  | nodeConnect =>
    simp only [Sys.step]; split
    · rfl
    · exact (goOnline_sig _ _).1
  | hostConnect => rfl
  | advance ms => rw [(advance_frame s ms).1]
  | enable d => cases ha
  | disable d => cases ha
  | manualRebirth => cases ha
  | duplicate k => cases ha
  | drop k => cases ha
  | dropNcmd => cases ha
  | nodeDisconnect => cases ha
  | hostDisconnect => cases ha

theorem steps_sig {s t : Sys} (h : Steps s t) : sig t.node = sig s.node := by
  obtain ⟨acts, ha, rfl⟩ := h
  induction acts generalizing s with
  | nil => rfl
  | cons a as ih =>
    have h1 := ih (s := s.step a) (fun b hb => ha b (List.mem_cons_of_mem _ hb))
    exact h1.trans (auto_sig s a (ha a (List.mem_cons_self ..)))

theorem DevNames_steps {s t : Sys} (h : Steps s t) (hd : DevNames s) : DevNames t := by
  obtain ⟨acts, _, rfl⟩ := h
  exact DevNames_run acts s hd

/-- every registered device is enabled -/
def AllEnabled (n : Node) : Prop := ∀ x ∈ n.devs, x.enabled = true

theorem allEnabled_sig (n : Node) : AllEnabled n ↔ ∀ p ∈ sig n, p.2 = true := by
  constructor
  · intro h p hp
    obtain ⟨x, hx, rfl⟩ := List.mem_map.mp hp
    exact h x hx
  · intro h x hx
    exact h (x.name, x.enabled) (List.mem_map.mpr ⟨x, hx, rfl⟩)

/-- with every registered device enabled, a host that only knows registered devices holds no
device birthed that is not enabled -/
theorem allEnabled_below (s : Sys) (hd : DevNames s) (hall : AllEnabled s.node) : DevsBelow s.host s.node := by
  intro dv hdv
  have hmem := hd.host.devs dv (findDev_some_mem_fst dv _ _ hdv)
  obtain ⟨x, hx, rfl⟩ := List.mem_map.mp hmem
  simp only [Node.enabledNames, List.mem_map, List.mem_filter]
  exact ⟨x, ⟨hx, hall x hx⟩, rfl⟩

/-! ### for the property file -/

/-- the reachable states of the closed loop under the full configuration satisfy `Reach` -/
theorem reach_run (d : Nat) (devs : List Dev) (acts : List Action)
    (hnames : (devs.map (·.name)).Nodup) (hflags : ∀ x ∈ devs, x.flag = false) :
    Reach d ((Sys.init (Sys.fullCfg d) devs).run acts) :=
  ⟨LiveInv_run d acts _ (LiveInv_init d devs), NodeInv_run acts _ (NodeInv_init _ devs hnames hflags),
    ConnInv_run acts _ (ConnInv_init _ devs)⟩

/-- `DevsBelow`, decidably -/
theorem devsBelow_of_all (h : Host.St) (n : Node)
    (hall : h.devices.all (fun p => decide (p.2 = Life.stale) || n.enabledNames.contains p.1) = true) :
    DevsBelow h n := by
  intro dv hd
  rw [List.all_eq_true] at hall
  have := hall (dv, .birthed) (findDev_some_mem dv _ _ hd)
  simpa using this

/-- `InStep`, as a Boolean -/
def inStepB (h : Host.St) (n : Node) : Bool :=
  decide (h.life = .birthed) && decide (h.timer = .none) && decide (h.reseq.mode = .good) &&
  decide (h.reseq.next = (n.seq + 1) % 256) &&
  n.enabledNames.all (fun d => decide (Host.findDev d h.devices = some .birthed))

theorem inStep_of_b (h : Host.St) (n : Node) (hb : inStepB h n = true) : InStep h n := by
  simp only [inStepB, Bool.and_eq_true, decide_eq_true_eq, List.all_eq_true] at hb
  exact ⟨hb.1.1.1.1, hb.1.1.1.2, hb.1.1.2, hb.1.2, hb.2⟩

end Srad.Loop
