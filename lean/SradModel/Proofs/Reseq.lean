import SradModel.Model.ReseqSpec

namespace Srad.Reseq

theorem init_inv {α} : Inv (init : St (Nat × α)) := by
  simp [Inv, init]

/-! ### Basic facts about `hasKey` / `insertSorted` -/

section Basic
variable {β : Type}

theorem hasKey_iff (k : Nat) (l : List (Nat × β)) :
    hasKey k l = true ↔ ∃ x ∈ l, x.1 = k := by
  induction l with
  | nil => simp [hasKey]
  | cons a t ih =>
    obtain ⟨k', v'⟩ := a
    simp [hasKey, ih]

theorem hasKey_false_iff (k : Nat) (l : List (Nat × β)) :
    hasKey k l = false ↔ ∀ x ∈ l, x.1 ≠ k := by
  rw [← Bool.not_eq_true, hasKey_iff]
  constructor
  · intro h x hx hk; exact h ⟨x, hx, hk⟩
  · rintro h ⟨x, hx, hk⟩; exact h x hx hk

theorem mem_insertSorted (k : Nat) (v : β) (l : List (Nat × β)) (x : Nat × β) :
    x ∈ insertSorted k v l ↔ x = (k, v) ∨ x ∈ l := by
  induction l with
  | nil => simp [insertSorted]
  | cons a t ih =>
    obtain ⟨k', v'⟩ := a
    simp only [insertSorted]
    split
    · simp
    · simp only [List.mem_cons, ih]
      grind

theorem insertSorted_perm (k : Nat) (v : β) (l : List (Nat × β)) :
    (insertSorted k v l).Perm ((k, v) :: l) := by
  induction l with
  | nil => simp [insertSorted]
  | cons a t ih =>
    obtain ⟨k', v'⟩ := a
    simp only [insertSorted]
    split
    · exact List.Perm.refl _
    · exact (List.Perm.cons _ ih).trans (List.Perm.swap _ _ _)

theorem insertSorted_ne_nil (k : Nat) (v : β) (l : List (Nat × β)) :
    insertSorted k v l ≠ [] := by
  cases l with
  | nil => simp [insertSorted]
  | cons a t =>
    obtain ⟨k', v'⟩ := a
    simp only [insertSorted]
    split <;> simp

theorem insertSorted_pairwise (k : Nat) (v : β) (l : List (Nat × β))
    (hp : l.Pairwise (fun a b => a.1 < b.1)) (hk : ∀ x ∈ l, x.1 ≠ k) :
    (insertSorted k v l).Pairwise (fun a b => a.1 < b.1) := by
  induction l with
  | nil => simp [insertSorted]
  | cons a t ih =>
    obtain ⟨k', v'⟩ := a
    rw [List.pairwise_cons] at hp
    obtain ⟨hhd, htl⟩ := hp
    simp only [insertSorted]
    split
    · rename_i hlt
      rw [List.pairwise_cons]
      refine ⟨?_, List.pairwise_cons.mpr ⟨hhd, htl⟩⟩
      intro x hx
      rcases List.mem_cons.mp hx with rfl | hx
      · exact hlt
      · have := hhd x hx
        simp only at this ⊢
        omega
    · rename_i hnlt
      have hne : k' ≠ k := hk (k', v') (List.mem_cons_self ..)
      rw [List.pairwise_cons]
      refine ⟨?_, ih htl (fun x hx => hk x (List.mem_cons_of_mem _ hx))⟩
      intro x hx
      rcases (mem_insertSorted k v t x).mp hx with rfl | hx
      · simp only; omega
      · exact hhd x hx


theorem removeKey_some (k : Nat) (l : List (Nat × β)) (m : β) (t : List (Nat × β))
    (h : removeKey k l = some (m, t)) :
    l.Perm ((k, m) :: t) ∧ t.Sublist l := by
  induction l generalizing t with
  | nil => simp [removeKey] at h
  | cons a l ih =>
    obtain ⟨k', v'⟩ := a
    simp only [removeKey] at h
    split at h
    · rename_i hk
      cases h
      subst hk
      exact ⟨.refl _, List.sublist_cons_self _ _⟩
    · split at h
      · rename_i m' t' heq
        cases h
        obtain ⟨hp, hs⟩ := ih _ heq
        exact ⟨(hp.cons _).trans (.swap _ _ _), hs.cons_cons _⟩
      · cases h

theorem removeKey_none_iff (k : Nat) (l : List (Nat × β)) :
    removeKey k l = none ↔ ∀ x ∈ l, x.1 ≠ k := by
  induction l with
  | nil => simp [removeKey]
  | cons a l ih =>
    obtain ⟨k', v'⟩ := a
    simp only [removeKey]
    by_cases hk : k' = k
    · simp [hk]
    · cases hr : removeKey k l with
      | none =>
        have := ih.mp hr
        simp only [if_neg hk]
        exact ⟨fun _ x hx => by
          rcases List.mem_cons.mp hx with rfl | hx
          · exact hk
          · exact this x hx, fun _ => trivial⟩
      | some mt =>
        obtain ⟨m, t⟩ := mt
        have : ¬ ∀ x ∈ l, x.1 ≠ k := fun h => by rw [ih.mpr h] at hr; cases hr
        simp only [if_neg hk]
        constructor
        · intro h; cases h
        · intro h
          exact absurd (fun x hx => h x (List.mem_cons_of_mem _ hx)) this

theorem mem_of_removeKey (k : Nat) (l : List (Nat × β)) (m : β) (t : List (Nat × β))
    (h : removeKey k l = some (m, t)) (x : Nat × β) :
    x ∈ l ↔ x = (k, m) ∨ x ∈ t := by
  rw [(removeKey_some k l m t h).1.mem_iff, List.mem_cons]

theorem removeKey_nokey (k : Nat) (l : List (Nat × β)) (m : β) (t : List (Nat × β))
    (h : removeKey k l = some (m, t)) (hp : l.Pairwise (fun a b => a.1 < b.1)) :
    ∀ x ∈ t, x.1 ≠ k := by
  have hp' : l.Pairwise (fun a b => a.1 ≠ b.1) := hp.imp (fun h => Nat.ne_of_lt h)
  have hp'' := ((removeKey_some k l m t h).1.pairwise_iff
    (R := fun a b : Nat × β => a.1 ≠ b.1) (fun h => Ne.symm h)).mp hp'
  intro x hx
  exact Ne.symm ((List.pairwise_cons.mp hp'').1 x hx)

theorem removeKey_length (k : Nat) (l : List (Nat × β)) (m : β) (t : List (Nat × β))
    (h : removeKey k l = some (m, t)) : t.length + 1 = l.length := by
  have := (removeKey_some k l m t h).1.length_eq
  simp at this
  omega

end Basic

/-! ### Part 2: invariant, no panic, release order, conservation -/

section Part2
variable {α : Type}

theorem wadd_wsub (a off : Nat) (ha : a < 256) : wadd (wsub a off) off = a := by
  unfold wadd wsub; omega

theorem process_inv (s : St (Nat × α)) (seq : Nat) (p : α) (h : Inv s) (hs : seq < 256) :
    Inv (process s seq (seq, p)).1 := by
  obtain ⟨buf, next, mode⟩ := s
  obtain ⟨hn, hm⟩ := h
  simp only at hn
  cases mode with
  | good =>
    simp only at hm
    subst hm
    simp only [process, hasKey]
    split
    · refine ⟨?_, ?_⟩
      · simp only [wadd]; omega
      · simp
    · refine ⟨hn, ?_⟩
      simp only [Bool.false_eq_true, if_false, insertSorted]
      refine ⟨hn, by simp, by simp, ?_⟩
      intro x hx
      simp only [List.mem_singleton] at hx
      subst hx
      exact ⟨hs, rfl⟩
  | reseq off =>
    simp only at hm
    obtain ⟨ho, hne, hpw, hall⟩ := hm
    simp only [process]
    split
    · split
      · exact ⟨hn, ho, hne, hpw, hall⟩
      · refine ⟨?_, ho, hne, hpw, hall⟩
        simp only [wadd]; omega
    · split
      · exact ⟨hn, ho, hne, hpw, hall⟩
      · rename_i hk
        have hk' := (hasKey_false_iff _ _).mp (Bool.not_eq_true _ ▸ hk)
        refine ⟨hn, ho, insertSorted_ne_nil _ _ _, insertSorted_pairwise _ _ _ hpw hk', ?_⟩
        intro x hx
        rcases (mem_insertSorted _ _ _ _).mp hx with rfl | hx
        · exact ⟨hs, rfl⟩
        · exact hall x hx

theorem drain_good (s : St (Nat × α)) (hm : s.mode = .good) :
    ∃ r, drain s = (s, r) ∧ ∀ m, r ≠ .msg m := by
  obtain ⟨buf, next, mode⟩ := s
  simp only at hm
  subst hm
  simp only [drain]
  split
  · exact ⟨_, rfl, by simp⟩
  · exact ⟨_, rfl, by simp⟩

theorem drain_reseq_none (s : St (Nat × α)) (off : Nat) (hm : s.mode = .reseq off)
    (hr : removeKey (wsub s.next off) s.buf = none) :
    ∃ r, drain s = (s, r) ∧ ∀ m, r ≠ .msg m := by
  obtain ⟨buf, next, mode⟩ := s
  simp only at hm hr
  subst hm
  simp only [drain, hr]
  split
  · exact ⟨_, rfl, by simp⟩
  · exact ⟨_, rfl, by simp⟩

theorem drain_reseq_some (s : St (Nat × α)) (off : Nat) (m : Nat × α) (t : List (Nat × (Nat × α)))
    (hm : s.mode = .reseq off)
    (hr : removeKey (wsub s.next off) s.buf = some (m, t)) :
    drain s = ({ buf := t, next := wadd s.next 1,
                 mode := if t.isEmpty then .good else .reseq off }, .msg m) := by
  obtain ⟨buf, next, mode⟩ := s
  simp only at hm hr
  subst hm
  cases buf with
  | nil => simp [removeKey] at hr
  | cons a b =>
    simp only [drain, hr, List.isEmpty_cons]
    cases t <;> rfl

theorem drain_cases (s : St (Nat × α)) :
    (∃ off m t, s.mode = .reseq off ∧ removeKey (wsub s.next off) s.buf = some (m, t) ∧
        drain s = ({ buf := t, next := wadd s.next 1,
                     mode := if t.isEmpty then .good else .reseq off }, .msg m)) ∨
    (∃ r, drain s = (s, r) ∧ ∀ m, r ≠ .msg m) := by
  cases hm : s.mode with
  | good => exact Or.inr (drain_good s hm)
  | reseq off =>
    cases hr : removeKey (wsub s.next off) s.buf with
    | none => exact Or.inr (drain_reseq_none s off hm hr)
    | some mt =>
      obtain ⟨m, t⟩ := mt
      exact Or.inl ⟨off, m, t, rfl, hr, drain_reseq_some s off m t hm hr⟩

theorem drain_inv (s : St (Nat × α)) (h : Inv s) : Inv (drain s).1 := by
  rcases drain_cases s with ⟨off, m, t, hmode, hr, hd⟩ | ⟨r, hd, _⟩
  · rw [hd]
    obtain ⟨hn, hm⟩ := h
    rw [hmode] at hm
    simp only at hm
    obtain ⟨ho, hne, hpw, hall⟩ := hm
    have hn' : wadd s.next 1 < 256 := by simp only [wadd]; omega
    obtain ⟨_, hsub⟩ := removeKey_some _ _ _ _ hr
    cases t with
    | nil => exact ⟨hn', rfl⟩
    | cons b t' =>
      exact ⟨hn', ho, by simp, hpw.sublist hsub, fun x hx => hall x (hsub.subset hx)⟩
  · rw [hd]; exact h

theorem drain_no_panic (s : St (Nat × α)) (h : Inv s) : (drain s).2 ≠ DrainRes.panic := by
  obtain ⟨buf, next, mode⟩ := s
  obtain ⟨hn, hm⟩ := h
  cases mode with
  | good =>
    simp only at hm
    subst hm
    simp [drain]
  | reseq off =>
    simp only [drain]
    split
    · simp
    · split <;> simp

theorem stepOp_proc_fst (s : St (Nat × α)) (seq : Nat) (p : α) :
    (stepOp s (.proc seq p)).1 = (process s seq (seq, p)).1 := by
  simp only [stepOp]
  split <;> simp_all

theorem stepOp_drain_fst (s : St (Nat × α)) :
    (stepOp s (.drain : Op α)).1 = (drain s).1 := by
  simp only [stepOp]
  split <;> simp_all

theorem stepOp_inv (s : St (Nat × α)) (o : Op α) (h : Inv s) (ho : o.WF) :
    Inv (stepOp s o).1 := by
  cases o with
  | proc seq p => rw [stepOp_proc_fst]; exact process_inv s seq p h ho
  | drain => rw [stepOp_drain_fst]; exact drain_inv s h
  | reset => exact init_inv
  | setNext n => exact ⟨ho, h.2⟩

theorem runOps_cons (s : St (Nat × α)) (o : Op α) (os : List (Op α)) :
    runOps s (o :: os) =
      ((runOps (stepOp s o).1 os).1, (stepOp s o).2 :: (runOps (stepOp s o).1 os).2) := rfl

theorem runOps_inv (s : St (Nat × α)) (ops : List (Op α)) (h : Inv s)
    (hwf : ∀ o ∈ ops, o.WF) : Inv (runOps s ops).1 := by
  induction ops generalizing s with
  | nil => exact h
  | cons o os ih =>
    rw [runOps_cons]
    exact ih _ (stepOp_inv s o h (hwf o (List.mem_cons_self ..)))
      (fun o' ho' => hwf o' (List.mem_cons_of_mem _ ho'))

theorem process_cases (s : St (Nat × α)) (seq : Nat) (m : Nat × α) :
    (s.next = seq ∧ process s seq m = ({ s with next := wadd s.next 1 }, .next m)) ∨
    (∃ s', process s seq m = (s', .inserted) ∧ s'.next = s.next ∧
        ∃ k, s'.buf = insertSorted k m s.buf) ∨
    (∃ s', process s seq m = (s', .dup) ∧ s'.next = s.next ∧ s'.buf = s.buf) := by
  obtain ⟨buf, next, mode⟩ := s
  cases mode with
  | good =>
    simp only [process]
    split
    · exact Or.inl ⟨by assumption, rfl⟩
    · split
      · exact Or.inr (Or.inr ⟨_, rfl, rfl, rfl⟩)
      · exact Or.inr (Or.inl ⟨_, rfl, rfl, _, rfl⟩)
  | reseq off =>
    simp only [process]
    split
    · split
      · exact Or.inr (Or.inr ⟨_, rfl, rfl, rfl⟩)
      · exact Or.inl ⟨by assumption, rfl⟩
    · split
      · exact Or.inr (Or.inr ⟨_, rfl, rfl, rfl⟩)
      · exact Or.inr (Or.inl ⟨_, rfl, rfl, _, rfl⟩)

theorem step_release_in_order (s : St (Nat × α)) (o : Op α) (h : Inv s) (ho : o.WF) :
    (∀ m, (stepOp s o).2 = Ev.released m →
        m.1 = s.next ∧ (stepOp s o).1.next = (s.next + 1) % 256) ∧
    ((∀ m, (stepOp s o).2 ≠ Ev.released m) → (∀ n, o ≠ Op.setNext n) → o ≠ Op.reset →
        (stepOp s o).1.next = s.next) := by
  cases o with
  | proc seq p =>
    rcases process_cases s seq (seq, p) with ⟨hn, hp⟩ | ⟨s', hp, hn, _⟩ | ⟨s', hp, hn, _⟩
    · simp only [stepOp, hp]
      refine ⟨?_, ?_⟩
      · intro m hm
        cases hm
        exact ⟨hn.symm, rfl⟩
      · intro hno
        exact absurd rfl (hno _)
    · simp only [stepOp, hp]
      exact ⟨(by intro m hm; cases hm), fun _ _ _ => hn⟩
    · simp only [stepOp, hp]
      exact ⟨(by intro m hm; cases hm), fun _ _ _ => hn⟩
  | drain =>
    rcases drain_cases s with ⟨off, m, t, hmode, hr, hd⟩ | ⟨r, hd, hr⟩
    · simp only [stepOp, hd]
      refine ⟨?_, ?_⟩
      · intro m' hm
        cases hm
        refine ⟨?_, rfl⟩
        have hi := h.2
        rw [hmode] at hi
        simp only at hi
        obtain ⟨hoff, _, _, hall⟩ := hi
        have hmem := ((mem_of_removeKey _ _ _ _ hr) (wsub s.next off, m)).mpr (Or.inl rfl)
        have := hall _ hmem
        have hn := h.1
        simp only at this
        obtain ⟨h1, h2⟩ := this
        unfold wsub at h2
        omega
      · intro hno
        exact absurd rfl (hno _)
    · simp only [stepOp, hd]
      cases r with
      | msg m => exact absurd rfl (hr m)
      | empty => exact ⟨(by intro m hm; cases hm), fun _ _ _ => rfl⟩
      | missing => exact ⟨(by intro m hm; cases hm), fun _ _ _ => rfl⟩
      | panic => exact ⟨(by intro m hm; cases hm), fun _ _ _ => rfl⟩
  | reset => exact ⟨(by intro m hm; cases hm), fun _ _ h => absurd rfl h⟩
  | setNext n => exact ⟨(by intro m hm; cases hm), fun _ h _ => absurd rfl (h n)⟩

/-! conservation, by counting -/

theorem inputsOf_cons (o : Op α) (os : List (Op α)) :
    inputsOf (o :: os) = inputsOf [o] ++ inputsOf os := by
  cases o <;> rfl

theorem releasedOf_cons (e : Ev α) (es : List (Ev α)) :
    releasedOf (e :: es) = releasedOf [e] ++ releasedOf es := by
  cases e <;> rfl

theorem dupsOf_cons (e : Ev α) (es : List (Ev α)) :
    dupsOf (e :: es) = dupsOf [e] ++ dupsOf es := by
  cases e <;> rfl

theorem clearedOf_cons (e : Ev α) (es : List (Ev α)) :
    clearedOf (e :: es) = clearedOf [e] ++ clearedOf es := by
  cases e <;> simp [clearedOf]

theorem stepOp_count [DecidableEq α] (s : St (Nat × α)) (o : Op α) (a : Nat × α) :
    (s.buf.map Prod.snd).count a + (inputsOf [o]).count a =
      (releasedOf [(stepOp s o).2]).count a + (dupsOf [(stepOp s o).2]).count a +
      (clearedOf [(stepOp s o).2]).count a + ((stepOp s o).1.buf.map Prod.snd).count a := by
  cases o with
  | proc seq p =>
    rcases process_cases s seq (seq, p) with ⟨_, hp⟩ | ⟨s', hp, _, k, hb⟩ | ⟨s', hp, _, hb⟩
    · simp only [stepOp, hp, inputsOf, releasedOf, dupsOf, clearedOf, List.count_nil]
      omega
    · simp only [stepOp, hp, inputsOf, releasedOf, dupsOf, clearedOf, List.count_nil, hb]
      have := ((insertSorted_perm k (seq, p) s.buf).map Prod.snd).count_eq a
      rw [this]
      simp only [List.map_cons, List.count_cons, List.count_nil]
      omega
    · simp only [stepOp, hp, inputsOf, releasedOf, dupsOf, clearedOf, List.count_nil, hb]
      omega
  | drain =>
    rcases drain_cases s with ⟨off, m, t, _, hr, hd⟩ | ⟨r, hd, hr⟩
    · have := (((removeKey_some _ _ _ _ hr).1).map Prod.snd).count_eq a
      simp only [List.map_cons, List.count_cons] at this
      simp only [stepOp, hd, inputsOf, releasedOf, dupsOf, clearedOf, List.count_nil,
        List.count_cons]
      omega
    · cases r with
      | msg m => exact absurd rfl (hr m)
      | empty => simp [stepOp, hd, inputsOf, releasedOf, dupsOf, clearedOf]
      | missing => simp [stepOp, hd, inputsOf, releasedOf, dupsOf, clearedOf]
      | panic => simp [stepOp, hd, inputsOf, releasedOf, dupsOf, clearedOf]
  | reset => simp [stepOp, reset, init, inputsOf, releasedOf, dupsOf, clearedOf]
  | setNext n => simp [stepOp, setNext, inputsOf, releasedOf, dupsOf, clearedOf]

theorem runOps_count [DecidableEq α] (s : St (Nat × α)) (ops : List (Op α)) (a : Nat × α) :
    (s.buf.map Prod.snd).count a + (inputsOf ops).count a =
      (releasedOf (runOps s ops).2).count a + (dupsOf (runOps s ops).2).count a +
      (clearedOf (runOps s ops).2).count a + ((runOps s ops).1.buf.map Prod.snd).count a := by
  induction ops generalizing s with
  | nil => simp [runOps, inputsOf, releasedOf, dupsOf, clearedOf]
  | cons o os ih =>
    rw [runOps_cons]
    simp only
    rw [inputsOf_cons, releasedOf_cons, dupsOf_cons, clearedOf_cons]
    simp only [List.count_append]
    have h1 := stepOp_count s o a
    have h2 := ih (stepOp s o).1
    omega

theorem runOps_conservation_gen (s : St (Nat × α)) (ops : List (Op α)) :
    (s.buf.map Prod.snd ++ inputsOf ops).Perm
      (releasedOf (runOps s ops).2 ++ dupsOf (runOps s ops).2 ++
       clearedOf (runOps s ops).2 ++ (runOps s ops).1.buf.map Prod.snd) := by
  classical
  rw [List.perm_iff_count]
  intro a
  simp only [List.count_append]
  exact runOps_count s ops a

theorem runOps_conservation (ops : List (Op α)) (_hwf : ∀ o ∈ ops, o.WF) :
    (inputsOf ops).Perm
      (releasedOf (runOps init ops).2 ++ dupsOf (runOps init ops).2 ++
       clearedOf (runOps init ops).2 ++ (runOps init ops).1.buf.map Prod.snd) := by
  have := runOps_conservation_gen (init : St (Nat × α)) ops
  simpa [init] using this

end Part2

/-! ### Part 1: promptness for windowed streams, contiguous runs as a corollary -/

section Mex

theorem length_ge_of_range_subset (r : Nat) :
    ∀ (A : List Nat), (∀ i, i < r → i ∈ A) → r ≤ A.length := by
  induction r with
  | zero => intro A _; omega
  | succ r ih =>
    intro A h
    have hr : r ∈ A := h r (by omega)
    have h1 := ih (A.erase r) (fun i hi => (List.mem_erase_of_ne (by omega)).mpr (h i (by omega)))
    rw [List.length_erase_of_mem hr] at h1
    have : 0 < A.length := List.length_pos_of_mem hr
    omega

theorem mexFrom_spec (A : List Nat) (fuel : Nat) :
    ∀ k, k ≤ mexFrom A fuel k ∧ mexFrom A fuel k ≤ k + fuel ∧
      (∀ i, k ≤ i → i < mexFrom A fuel k → i ∈ A) ∧
      (mexFrom A fuel k < k + fuel → mexFrom A fuel k ∉ A) := by
  induction fuel with
  | zero => intro k; simp [mexFrom]; intro i h1 h2; omega
  | succ fuel ih =>
    intro k
    simp only [mexFrom]
    by_cases hk : k ∈ A
    · have hc : A.contains k = true := by simpa using hk
      simp only [hc, if_true]
      obtain ⟨h1, h2, h3, h4⟩ := ih (k + 1)
      refine ⟨by omega, by omega, ?_, fun h => h4 (by omega)⟩
      intro i hki hi
      by_cases hik : i = k
      · exact hik ▸ hk
      · exact h3 i (by omega) hi
    · have hc : A.contains k = false := by simpa using hk
      simp only [hc, Bool.false_eq_true, if_false]
      exact ⟨Nat.le_refl _, by omega, fun i h1 h2 => by omega, fun _ => hk⟩

theorem mexOf_spec (A : List Nat) : (∀ i, i < mexOf A → i ∈ A) ∧ mexOf A ∉ A := by
  obtain ⟨_, h2, h3, h4⟩ := mexFrom_spec A (A.length + 1) 0
  have h3' : ∀ i, i < mexOf A → i ∈ A := fun i hi => h3 i (Nat.zero_le _) hi
  refine ⟨h3', h4 ?_⟩
  have := length_ge_of_range_subset _ A h3'
  show mexOf A < 0 + (A.length + 1)
  omega

theorem mexOf_eq (A : List Nat) (k : Nat) (h1 : ∀ i, i < k → i ∈ A) (h2 : k ∉ A) :
    mexOf A = k := by
  obtain ⟨h3, h4⟩ := mexOf_spec A
  apply Classical.byContradiction
  intro hne
  rcases Nat.lt_or_gt_of_ne hne with h | h
  · exact h4 (h1 _ h)
  · exact h2 (h3 _ h)

end Mex

section Part1
variable {α : Type}

/-- Mid-drain invariant: `A` = indices arrived so far, `k` = number released so far. -/
def PInv (e : Nat) (p : Nat → α) (A : List Nat) (k : Nat) (s : St (Nat × α)) : Prop :=
  (∀ i, i < k → i ∈ A) ∧ (∀ i ∈ A, i < k + 256) ∧ s.next = (e + k) % 256 ∧
  ((s.mode = .good ∧ s.buf = [] ∧ ∀ i ∈ A, i < k) ∨
   (∃ j, j ≤ k ∧ s.mode = .reseq ((e + j) % 256) ∧ s.buf ≠ [] ∧
      s.buf.Pairwise (fun a b => a.1 < b.1) ∧
      ∀ x, x ∈ s.buf ↔ ∃ i ∈ A, k ≤ i ∧ x = ((i - j) % 256, runMsg e p i)))

theorem PInv_congr (e : Nat) (p : Nat → α) (A B : List Nat) (k : Nat) (s : St (Nat × α))
    (hAB : ∀ i, i ∈ A ↔ i ∈ B) (h : PInv e p A k s) : PInv e p B k s := by
  obtain ⟨h1, h2, h3, h4⟩ := h
  refine ⟨fun i hi => (hAB i).mp (h1 i hi), fun i hi => h2 i ((hAB i).mpr hi), h3, ?_⟩
  rcases h4 with ⟨hm, hb, hall⟩ | ⟨j, hj, hm, hne, hpw, hmem⟩
  · exact Or.inl ⟨hm, hb, fun i hi => hall i ((hAB i).mpr hi)⟩
  · refine Or.inr ⟨j, hj, hm, hne, hpw, fun x => ?_⟩
    rw [hmem x]
    constructor
    · rintro ⟨i, hi, h⟩; exact ⟨i, (hAB i).mp hi, h⟩
    · rintro ⟨i, hi, h⟩; exact ⟨i, (hAB i).mpr hi, h⟩

theorem drain_step_mem (e : Nat) (p : Nat → α) (A : List Nat) (k : Nat) (s : St (Nat × α))
    (h : PInv e p A k s) (hk : k ∈ A) :
    ∃ s', drain s = (s', .msg (runMsg e p k)) ∧ PInv e p A (k + 1) s' ∧
      s'.buf.length + 1 = s.buf.length := by
  obtain ⟨hlt, hwin, hnext, hcase⟩ := h
  rcases hcase with ⟨_, _, hall⟩ | ⟨j, hj, hmode, hne, hpw, hmem⟩
  · exact absurd (hall k hk) (Nat.lt_irrefl _)
  · have hws : wsub s.next ((e + j) % 256) = (k - j) % 256 := by
      rw [hnext]; unfold wsub; omega
    have hkmem : ((k - j) % 256, runMsg e p k) ∈ s.buf :=
      (hmem _).mpr ⟨k, hk, Nat.le_refl _, rfl⟩
    cases hr : removeKey ((k - j) % 256) s.buf with
    | none => exact absurd rfl ((removeKey_none_iff _ _).mp hr _ hkmem)
    | some mt =>
      obtain ⟨m, t⟩ := mt
      have hmemt := mem_of_removeKey _ _ _ _ hr
      have hnokey := removeKey_nokey _ _ _ _ hr hpw
      have hlen := removeKey_length _ _ _ _ hr
      obtain ⟨i0, hi0A, hki0, hi0⟩ := (hmem _).mp ((hmemt _).mpr (Or.inl rfl))
      have hk0 : (k - j) % 256 = (i0 - j) % 256 := congrArg Prod.fst hi0
      have hi0w := hwin i0 hi0A
      have hi0k : i0 = k := by omega
      subst hi0k
      have hm0 : m = runMsg e p i0 := congrArg Prod.snd hi0
      subst hm0
      rw [← hws] at hr
      have hd := drain_reseq_some s _ _ _ hmode hr
      have hw1 : wadd s.next 1 = (e + (i0 + 1)) % 256 := by rw [hnext]; unfold wadd; omega
      have hlt' : ∀ i, i < i0 + 1 → i ∈ A := by
        intro i hi
        rcases Nat.lt_succ_iff_lt_or_eq.mp hi with h | h
        · exact hlt i h
        · exact h ▸ hk
      have hwin' : ∀ i ∈ A, i < i0 + 1 + 256 := fun i hi => by have := hwin i hi; omega
      have hmem' : ∀ x, x ∈ t ↔ ∃ i ∈ A, i0 + 1 ≤ i ∧ x = ((i - j) % 256, runMsg e p i) := by
        intro x
        constructor
        · intro hx
          obtain ⟨i, hiA, hki, hxi⟩ := (hmem x).mp ((hmemt x).mpr (Or.inr hx))
          refine ⟨i, hiA, ?_, hxi⟩
          have h1 := hnokey x hx
          rw [hxi] at h1
          simp only at h1
          have : i ≠ i0 := fun h => h1 (by rw [h])
          omega
        · rintro ⟨i, hiA, hki, hxi⟩
          have := (hmem x).mpr ⟨i, hiA, by omega, hxi⟩
          rcases (hmemt x).mp this with heq | ht
          · rw [hxi] at heq
            have h1 : (i - j) % 256 = (i0 - j) % 256 := congrArg Prod.fst heq
            have := hwin i hiA
            omega
          · exact ht
      refine ⟨_, hd, ?_, hlen⟩
      cases t with
      | nil =>
        refine ⟨hlt', hwin', hw1, Or.inl ⟨rfl, rfl, ?_⟩⟩
        intro i hi
        apply Classical.byContradiction
        intro hcon
        have := (hmem' ((i - j) % 256, runMsg e p i)).mpr ⟨i, hi, by omega, rfl⟩
        cases this
      | cons b t' =>
        exact ⟨hlt', hwin', hw1, Or.inr ⟨j, by omega, rfl, by simp,
          hpw.sublist (removeKey_some _ _ _ _ hr).2, hmem'⟩⟩

theorem drain_step_nmem (e : Nat) (p : Nat → α) (A : List Nat) (k : Nat) (s : St (Nat × α))
    (h : PInv e p A k s) (hk : k ∉ A) :
    ∃ r, drain s = (s, r) ∧ ∀ m, r ≠ .msg m := by
  obtain ⟨hlt, hwin, hnext, hcase⟩ := h
  rcases hcase with ⟨hmode, hbuf, hall⟩ | ⟨j, hj, hmode, hne, hpw, hmem⟩
  · exact drain_good s hmode
  · apply drain_reseq_none s _ hmode
    rw [removeKey_none_iff]
    intro x hx
    obtain ⟨i, hiA, hki, hxi⟩ := (hmem x).mp hx
    have hne0 : i ≠ k := fun h => hk (h ▸ hiA)
    have := hwin i hiA
    rw [hxi, hnext]
    unfold wsub
    simp only
    omega

theorem drainLoop_msg (fuel : Nat) (s s' : St (Nat × α)) (m : Nat × α) (acc : List (Nat × α))
    (h : drain s = (s', .msg m)) :
    drainLoop (fuel + 1) s acc = drainLoop fuel s' (m :: acc) := by
  simp only [drainLoop, h]

theorem drainLoop_stop (fuel : Nat) (s s' : St (Nat × α)) (r : DrainRes (Nat × α))
    (acc : List (Nat × α)) (h : drain s = (s', r)) (hr : ∀ m, r ≠ .msg m) :
    drainLoop (fuel + 1) s acc = (s', acc.reverse, r, false) := by
  cases r with
  | msg m => exact absurd rfl (hr m)
  | empty => simp only [drainLoop, h]
  | missing => simp only [drainLoop, h]
  | panic => simp only [drainLoop, h]

theorem drainLoop_spec (e : Nat) (p : Nat → α) (A : List Nat) (fuel : Nat) :
    ∀ (k : Nat) (s : St (Nat × α)) (acc : List (Nat × α)),
      PInv e p A k s → s.buf.length < fuel →
      ∃ k1 s1 r, drainLoop fuel s acc =
          (s1, acc.reverse ++ (List.range' k (k1 - k)).map (runMsg e p), r, false) ∧
        k ≤ k1 ∧ PInv e p A k1 s1 ∧ k1 ∉ A := by
  induction fuel with
  | zero => intro k s acc _ hf; omega
  | succ fuel ih =>
    intro k s acc h hf
    by_cases hk : k ∈ A
    · obtain ⟨s', hd, hc, hl⟩ := drain_step_mem e p A k s h hk
      obtain ⟨k1, s1, r, hdl, hk1, hc1, hk1A⟩ :=
        ih (k + 1) s' (runMsg e p k :: acc) hc (by omega)
      refine ⟨k1, s1, r, ?_, by omega, hc1, hk1A⟩
      rw [drainLoop_msg _ _ _ _ _ hd, hdl]
      have : k1 - k = (k1 - (k + 1)) + 1 := by omega
      rw [this, List.range'_succ, List.map_cons, List.reverse_cons, List.append_assoc]
      rfl
    · obtain ⟨r, hd, hr⟩ := drain_step_nmem e p A k s h hk
      refine ⟨k, s, r, ?_, Nat.le_refl _, h, hk⟩
      rw [drainLoop_stop _ _ _ _ _ hd hr]
      simp

theorem process_next (e : Nat) (p : Nat → α) (A : List Nat) (k : Nat) (s : St (Nat × α))
    (h : PInv e p A k s) (hk : k ∉ A) :
    ∃ s1, process s ((e + k) % 256) (runMsg e p k) = (s1, .next (runMsg e p k)) ∧
      PInv e p (k :: A) (k + 1) s1 := by
  obtain ⟨buf, next, mode⟩ := s
  obtain ⟨hlt, hwin, hnext, hcase⟩ := h
  simp only at hnext
  subst hnext
  have hw1 : wadd ((e + k) % 256) 1 = (e + (k + 1)) % 256 := by unfold wadd; omega
  have hlt' : ∀ i, i < k + 1 → i ∈ k :: A := by
    intro i hi
    rcases Nat.lt_succ_iff_lt_or_eq.mp hi with h | h
    · exact List.mem_cons_of_mem _ (hlt i h)
    · exact h ▸ List.mem_cons_self ..
  have hwin' : ∀ i ∈ k :: A, i < k + 1 + 256 := by
    intro i hi
    rcases List.mem_cons.mp hi with h | h
    · omega
    · have := hwin i h; omega
  rcases hcase with ⟨hmode, hbuf, hall⟩ | ⟨j, hj, hmode, hne, hpw, hmem⟩
  · simp only at hmode hbuf
    subst hmode hbuf
    refine ⟨{ buf := [], next := wadd ((e + k) % 256) 1, mode := .good }, by simp [process],
      hlt', hwin', hw1, Or.inl ⟨rfl, rfl, ?_⟩⟩
    intro i hi
    rcases List.mem_cons.mp hi with h | h
    · omega
    · have := hall i h; omega
  · simp only at hmode hne hpw hmem
    subst hmode
    have hws : wsub ((e + k) % 256) ((e + j) % 256) = (k - j) % 256 := by unfold wsub; omega
    have hkey : hasKey ((k - j) % 256) buf = false := by
      rw [hasKey_false_iff]
      intro x hx
      obtain ⟨i, hiA, hki, hxi⟩ := (hmem x).mp hx
      have : i ≠ k := fun h => hk (h ▸ hiA)
      have := hwin i hiA
      rw [hxi]
      simp only
      omega
    refine ⟨{ buf := buf, next := wadd ((e + k) % 256) 1, mode := .reseq ((e + j) % 256) },
      by simp [process, hws, hkey], hlt', hwin', hw1,
      Or.inr ⟨j, by omega, rfl, hne, hpw, ?_⟩⟩
    intro x
    simp only
    rw [hmem x]
    constructor
    · rintro ⟨i, hiA, hki, hxi⟩
      have : i ≠ k := fun h => hk (h ▸ hiA)
      exact ⟨i, List.mem_cons_of_mem _ hiA, by omega, hxi⟩
    · rintro ⟨i, hiA, hki, hxi⟩
      rcases List.mem_cons.mp hiA with h | h
      · omega
      · exact ⟨i, h, by omega, hxi⟩

theorem process_ins (e : Nat) (p : Nat → α) (A : List Nat) (k i : Nat) (s : St (Nat × α))
    (h : PInv e p A k s) (hi : i ∉ A) (hiw : i < k + 256) (hik : i ≠ k) :
    ∃ s1, process s ((e + i) % 256) (runMsg e p i) = (s1, .inserted) ∧
      PInv e p (i :: A) k s1 := by
  obtain ⟨buf, next, mode⟩ := s
  obtain ⟨hlt, hwin, hnext, hcase⟩ := h
  simp only at hnext
  subst hnext
  have hki : k < i := by
    apply Classical.byContradiction
    intro hcon
    exact hi (hlt i (by omega))
  have hne : ¬ ((e + k) % 256 = (e + i) % 256) := by omega
  have hlt' : ∀ a, a < k → a ∈ i :: A := fun a ha => List.mem_cons_of_mem _ (hlt a ha)
  have hwin' : ∀ a ∈ i :: A, a < k + 256 := by
    intro a ha
    rcases List.mem_cons.mp ha with h | h
    · omega
    · exact hwin a h
  rcases hcase with ⟨hmode, hbuf, hall⟩ | ⟨j, hj, hmode, hne', hpw, hmem⟩
  · simp only at hmode hbuf
    subst hmode hbuf
    have hws : wsub ((e + i) % 256) ((e + k) % 256) = (i - k) % 256 := by unfold wsub; omega
    refine ⟨{ buf := [((i - k) % 256, runMsg e p i)], next := (e + k) % 256,
              mode := .reseq ((e + k) % 256) },
      by simp [process, hne, hws, hasKey, insertSorted], hlt', hwin', rfl,
      Or.inr ⟨k, Nat.le_refl _, rfl, by simp, by simp, ?_⟩⟩
    intro x
    simp only [List.mem_singleton]
    constructor
    · intro hx
      exact ⟨i, List.mem_cons_self .., by omega, hx⟩
    · rintro ⟨a, haA, hka, hxa⟩
      rcases List.mem_cons.mp haA with h | h
      · rw [hxa, h]
      · have := hall a h; omega
  · simp only at hmode hne' hpw hmem
    subst hmode
    have hws : wsub ((e + i) % 256) ((e + j) % 256) = (i - j) % 256 := by unfold wsub; omega
    have hkey : ∀ x ∈ buf, x.1 ≠ (i - j) % 256 := by
      intro x hx
      obtain ⟨a, haA, hka, hxa⟩ := (hmem x).mp hx
      have : a ≠ i := fun h => hi (h ▸ haA)
      have := hwin a haA
      rw [hxa]
      simp only
      omega
    have hkey' : hasKey ((i - j) % 256) buf = false := (hasKey_false_iff _ _).mpr hkey
    refine ⟨{ buf := insertSorted ((i - j) % 256) (runMsg e p i) buf, next := (e + k) % 256,
              mode := .reseq ((e + j) % 256) },
      by simp [process, hne, hws, hkey'], hlt', hwin', rfl,
      Or.inr ⟨j, hj, rfl, insertSorted_ne_nil _ _ _, insertSorted_pairwise _ _ _ hpw hkey, ?_⟩⟩
    intro x
    simp only
    rw [mem_insertSorted, hmem x]
    constructor
    · rintro (hx | ⟨a, haA, hka, hxa⟩)
      · exact ⟨i, List.mem_cons_self .., by omega, hx⟩
      · exact ⟨a, List.mem_cons_of_mem _ haA, hka, hxa⟩
    · rintro ⟨a, haA, hka, hxa⟩
      rcases List.mem_cons.mp haA with h | h
      · exact Or.inl (by rw [hxa, h])
      · exact Or.inr ⟨a, h, hka, hxa⟩

theorem arrive_next (s s1 : St (Nat × α)) (m m' : Nat × α)
    (h : process s m.1 m = (s1, .next m')) :
    arrive s m = ((drainAll s1).1, m' :: (drainAll s1).2.1, (drainAll s1).2.2.2) := by
  simp only [arrive, h]

theorem arrive_ins (s s1 : St (Nat × α)) (m : Nat × α)
    (h : process s m.1 m = (s1, .inserted)) :
    arrive s m = ((drainAll s1).1, (drainAll s1).2.1, (drainAll s1).2.2.2) := by
  simp only [arrive, h]

theorem arrive_spec (e : Nat) (p : Nat → α) (A : List Nat) (k i : Nat) (s : St (Nat × α))
    (h : PInv e p A k s) (hk : k ∉ A) (hi : i ∉ A) (hiw : i < k + 256) :
    ∃ k1 s1, arrive s (runMsg e p i) =
        (s1, (List.range' k (k1 - k)).map (runMsg e p), false) ∧
      k ≤ k1 ∧ PInv e p (i :: A) k1 s1 ∧ k1 ∉ i :: A := by
  by_cases hik : i = k
  · subst hik
    obtain ⟨s1, hp, hc⟩ := process_next e p A i s h hk
    obtain ⟨k1, s2, r, hdl, hk1, hc1, hk1A⟩ :=
      drainLoop_spec e p (i :: A) (s1.buf.length + 1) (i + 1) s1 [] hc (by omega)
    refine ⟨k1, s2, ?_, by omega, hc1, hk1A⟩
    rw [arrive_next s s1 (runMsg e p i) _ hp]
    simp only [drainAll, hdl]
    have : k1 - i = (k1 - (i + 1)) + 1 := by omega
    rw [this, List.range'_succ]
    simp
  · obtain ⟨s1, hp, hc⟩ := process_ins e p A k i s h hi hiw hik
    obtain ⟨k1, s2, r, hdl, hk1, hc1, hk1A⟩ :=
      drainLoop_spec e p (i :: A) (s1.buf.length + 1) k s1 [] hc (by omega)
    refine ⟨k1, s2, ?_, hk1, hc1, hk1A⟩
    rw [arrive_ins s s1 (runMsg e p i) hp]
    simp only [drainAll, hdl]
    simp

theorem feed_cons (s : St (Nat × α)) (m : Nat × α) (ms : List (Nat × α)) :
    feed s (m :: ms) =
      ((feed (arrive s m).1 ms).1, (arrive s m).2.1 ++ (feed (arrive s m).1 ms).2.1,
        ((arrive s m).2.2 || (feed (arrive s m).1 ms).2.2)) := rfl

theorem feed_append (s : St (Nat × α)) (l1 l2 : List (Nat × α)) :
    feed s (l1 ++ l2) =
      ((feed (feed s l1).1 l2).1, (feed s l1).2.1 ++ (feed (feed s l1).1 l2).2.1,
        ((feed s l1).2.2 || (feed (feed s l1).1 l2).2.2)) := by
  induction l1 generalizing s with
  | nil => simp [feed]
  | cons m ms ih =>
    rw [List.cons_append, feed_cons, ih, feed_cons]
    simp [Bool.or_assoc]

theorem feed_take (e : Nat) (p : Nat → α) (arr : List Nat)
    (hnodup : arr.Nodup) (hwin : WindowOk arr) :
    ∀ n, n ≤ arr.length →
      ∃ s, feed ({ buf := [], next := e % 256, mode := .good } : St (Nat × α))
            ((arr.take n).map (runMsg e p)) =
          (s, (List.range (mexOf (arr.take n))).map (runMsg e p), false) ∧
        PInv e p (arr.take n) (mexOf (arr.take n)) s := by
  intro n
  induction n with
  | zero =>
    intro _
    have h0 : mexOf ([] : List Nat) = 0 := by decide
    refine ⟨{ buf := [], next := e % 256, mode := .good }, by simp [feed, h0], ?_⟩
    simp only [List.take_zero, h0]
    exact ⟨(by intro i hi; omega), (by intro i hi; cases hi), rfl,
      Or.inl ⟨rfl, rfl, (by intro i hi; cases hi)⟩⟩
  | succ n ih =>
    intro hn
    have hn' : n < arr.length := by omega
    obtain ⟨s, hfeed, hinv⟩ := ih (by omega)
    have htake : arr.take (n + 1) = arr.take n ++ [arr[n]] :=
      List.take_succ_eq_append_getElem hn'
    have hnd : (arr.take n ++ [arr[n]]).Nodup := by
      rw [← htake]; exact hnodup.sublist (List.take_sublist _ _)
    have hi : arr[n] ∉ arr.take n := by
      intro hmem
      have := (List.nodup_append.mp hnd).2.2 _ hmem _ (List.mem_singleton.mpr rfl)
      exact this rfl
    have hk := (mexOf_spec (arr.take n)).2
    obtain ⟨k1, s1, harr, hk1, hc1, hk1A⟩ :=
      arrive_spec e p (arr.take n) (mexOf (arr.take n)) arr[n] s hinv hk hi (hwin n hn')
    have hAB : ∀ i, i ∈ arr[n] :: arr.take n ↔ i ∈ arr.take (n + 1) := by
      intro i; rw [htake, List.mem_cons, List.mem_append, List.mem_singleton, or_comm]
    have hc2 := PInv_congr e p _ _ k1 s1 hAB hc1
    have hmex : mexOf (arr.take (n + 1)) = k1 :=
      mexOf_eq _ _ hc2.1 (fun h => hk1A ((hAB _).mpr h))
    refine ⟨s1, ?_, hmex ▸ hc2⟩
    rw [htake, List.map_append, feed_append, hfeed, List.map_singleton, feed_cons, harr,
      ← htake, hmex]
    simp only [feed, List.append_nil, Bool.or_false]
    have h1 : k1 = mexOf (arr.take n) + (k1 - mexOf (arr.take n)) := by omega
    rw [← List.map_append]
    conv => rhs; rw [h1, List.range_eq_range', ← List.range'_append_1]
    simp [List.range_eq_range']

theorem prompt_main (e : Nat) (p : Nat → α) (arr : List Nat) (he : e < 256)
    (hnodup : arr.Nodup) (hwin : WindowOk arr) :
    let r := feed ({ buf := [], next := e, mode := .good } : St (Nat × α)) (arr.map (runMsg e p))
    r.2.1 = (List.range (mexOf arr)).map (runMsg e p) ∧ r.2.2 = false ∧
    r.1.next = (e + mexOf arr) % 256 ∧
    (∀ m, m ∈ r.1.buf.map Prod.snd ↔ ∃ i ∈ arr, mexOf arr < i ∧ m = runMsg e p i) ∧
    (r.1.mode = .good ↔ ∀ i ∈ arr, i < mexOf arr) := by
  obtain ⟨s, hfeed, hinv⟩ := feed_take e p arr hnodup hwin arr.length (Nat.le_refl _)
  rw [List.take_length, Nat.mod_eq_of_lt he] at hfeed
  rw [List.take_length] at hinv
  intro r
  have hr : r = (s, (List.range (mexOf arr)).map (runMsg e p), false) := hfeed
  rw [hr]
  have hk := (mexOf_spec arr).2
  obtain ⟨hlt, hw, hnext, hcase⟩ := hinv
  refine ⟨rfl, rfl, hnext, ?_, ?_⟩
  · intro m
    rcases hcase with ⟨hmode, hbuf, hall⟩ | ⟨j, hj, hmode, hne, hpw, hmem⟩
    · simp only [hbuf, List.map_nil, List.not_mem_nil, false_iff]
      rintro ⟨i, hi, hki, _⟩
      have := hall i hi
      omega
    · simp only [List.mem_map]
      constructor
      · rintro ⟨x, hx, rfl⟩
        obtain ⟨i, hiA, hki, hxi⟩ := (hmem x).mp hx
        have : i ≠ mexOf arr := fun h => hk (h ▸ hiA)
        exact ⟨i, hiA, by omega, by rw [hxi]⟩
      · rintro ⟨i, hiA, hki, rfl⟩
        exact ⟨_, (hmem _).mpr ⟨i, hiA, by omega, rfl⟩, rfl⟩
  · rcases hcase with ⟨hmode, hbuf, hall⟩ | ⟨j, hj, hmode, hne, hpw, hmem⟩
    · exact ⟨fun _ => hall, fun _ => hmode⟩
    · constructor
      · intro h
        simp only at h
        rw [hmode] at h
        cases h
      · intro hall
        cases hb : s.buf with
        | nil => exact absurd hb hne
        | cons x t =>
          obtain ⟨i, hiA, hki, _⟩ := (hmem x).mp (hb ▸ List.mem_cons_self ..)
          have := hall i hiA
          omega

theorem contiguous_main (e n : Nat) (p : Nat → α) (arr : List Nat)
    (he : e < 256) (hn : n ≤ 256) (hperm : arr.Perm (List.range n)) :
    feed ({ buf := [], next := e, mode := .good } : St (Nat × α)) (arr.map (runMsg e p))
      = ({ buf := [], next := (e + n) % 256, mode := .good },
         (List.range n).map (runMsg e p), false) := by
  have hmemA : ∀ i, i ∈ arr ↔ i < n := fun i => by rw [hperm.mem_iff, List.mem_range]
  have hnodup : arr.Nodup := hperm.nodup_iff.mpr List.nodup_range
  have hwin : WindowOk arr := by
    intro m hm
    have : arr[m] < n := (hmemA _).mp (List.getElem_mem hm)
    omega
  have hmex : mexOf arr = n :=
    mexOf_eq arr n (fun i hi => (hmemA i).mpr hi) (fun h => Nat.lt_irrefl _ ((hmemA n).mp h))
  have h := prompt_main e p arr he hnodup hwin
  simp only [hmex] at h
  obtain ⟨h1, h2, h3, h4, h5⟩ := h
  have hmode := h5.mpr (fun i hi => (hmemA i).mp hi)
  have hbuf : (feed ({ buf := [], next := e, mode := .good } : St (Nat × α))
      (arr.map (runMsg e p))).1.buf = [] := by
    apply (List.map_eq_nil_iff (f := Prod.snd)).mp
    apply List.eq_nil_iff_forall_not_mem.mpr
    intro m hm
    obtain ⟨i, hi, hni, _⟩ := (h4 m).mp hm
    have := (hmemA i).mp hi
    omega
  generalize feed ({ buf := [], next := e, mode := .good } : St (Nat × α))
      (arr.map (runMsg e p)) = r at *
  obtain ⟨⟨buf, next, mode⟩, rel, ro⟩ := r
  simp only at h1 h2 h3 hmode hbuf
  subst h1 h2 h3 hmode hbuf
  rfl

end Part1

end Srad.Reseq
