import SradModel.Model.ReseqSpec

namespace Srad.Reseq

/- `St` only derives `Repr` in the model; the `by decide` non-vacuity tests in `Props/C09`
compare states, so decidable equality is provided here. -/
deriving instance DecidableEq for St

theorem init_inv {α} : Inv (init : St (Nat × α)) := by
  simp [Inv, init]

/-! ### Basic facts about `hasKey` / `insertSorted` -/

section Basic
variable {β : Type}

theorem hasKey_iff (k : Nat) (l : List (Nat × β)) :
    hasKey k l = true ↔ ∃ x ∈ l, x.1 = k := by
  induction l with
  | nil => simp [hasKey]
  | cons a t ih =>
    obtain ⟨k', v'⟩ := a
    simp [hasKey, ih]

theorem hasKey_false_iff (k : Nat) (l : List (Nat × β)) :
    hasKey k l = false ↔ ∀ x ∈ l, x.1 ≠ k := by
  rw [← Bool.not_eq_true, hasKey_iff]
  constructor
  · intro h x hx hk; exact h ⟨x, hx, hk⟩
  · rintro h ⟨x, hx, hk⟩; exact h x hx hk

theorem mem_insertSorted (k : Nat) (v : β) (l : List (Nat × β)) (x : Nat × β) :
    x ∈ insertSorted k v l ↔ x = (k, v) ∨ x ∈ l := by
  induction l with
  | nil => simp [insertSorted]
  | cons a t ih =>
    obtain ⟨k', v'⟩ := a
    simp only [insertSorted]
    split
    · simp
    · simp only [List.mem_cons, ih]
      grind

theorem insertSorted_perm (k : Nat) (v : β) (l : List (Nat × β)) :
    (insertSorted k v l).Perm ((k, v) :: l) := by
  induction l with
  | nil => simp [insertSorted]
  | cons a t ih =>
    obtain ⟨k', v'⟩ := a
    simp only [insertSorted]
    split
    · exact List.Perm.refl _
    · exact (List.Perm.cons _ ih).trans (List.Perm.swap _ _ _)

theorem insertSorted_ne_nil (k : Nat) (v : β) (l : List (Nat × β)) :
    insertSorted k v l ≠ [] := by
  cases l with
  | nil => simp [insertSorted]
  | cons a t =>
    obtain ⟨k', v'⟩ := a
    simp only [insertSorted]
    split <;> simp

theorem insertSorted_pairwise (k : Nat) (v : β) (l : List (Nat × β))
    (hp : l.Pairwise (fun a b => a.1 < b.1)) (hk : ∀ x ∈ l, x.1 ≠ k) :
    (insertSorted k v l).Pairwise (fun a b => a.1 < b.1) := by
  induction l with
  | nil => simp [insertSorted]
  | cons a t ih =>
    obtain ⟨k', v'⟩ := a
    rw [List.pairwise_cons] at hp
    obtain ⟨hhd, htl⟩ := hp
    simp only [insertSorted]
    split
    · rename_i hlt
      rw [List.pairwise_cons]
      refine ⟨?_, List.pairwise_cons.mpr ⟨hhd, htl⟩⟩
      intro x hx
      rcases List.mem_cons.mp hx with rfl | hx
      · exact hlt
      · have := hhd x hx
        simp only at this ⊢
        omega
    · rename_i hnlt
      have hne : k' ≠ k := hk (k', v') (List.mem_cons_self ..)
      rw [List.pairwise_cons]
      refine ⟨?_, ih htl (fun x hx => hk x (List.mem_cons_of_mem _ hx))⟩
      intro x hx
      rcases (mem_insertSorted k v t x).mp hx with rfl | hx
      · simp only; omega
      · exact hhd x hx

end Basic

/-! ### Part 2: invariant, no panic, release order, conservation -/

section Part2
variable {α : Type}

theorem wadd_wsub (a off : Nat) (ha : a < 256) : wadd (wsub a off) off = a := by
  unfold wadd wsub; omega

theorem process_inv (s : St (Nat × α)) (seq : Nat) (p : α) (h : Inv s) (hs : seq < 256) :
    Inv (process s seq (seq, p)).1 := by
  obtain ⟨buf, next, mode⟩ := s
  obtain ⟨hn, hm⟩ := h
  simp only at hn
  cases mode with
  | good =>
    simp only at hm
    subst hm
    simp only [process, hasKey]
    split
    · refine ⟨?_, ?_⟩
      · simp only [wadd]; omega
      · simp
    · refine ⟨hn, ?_⟩
      simp only [Bool.false_eq_true, if_false, insertSorted]
      refine ⟨hn, by simp, by simp, ?_⟩
      intro x hx
      simp only [List.mem_singleton] at hx
      subst hx
      exact ⟨hs, rfl⟩
  | reseq off =>
    simp only at hm
    obtain ⟨ho, hne, hpw, hall⟩ := hm
    simp only [process]
    split
    · split
      · exact ⟨hn, ho, hne, hpw, hall⟩
      · refine ⟨?_, ho, hne, hpw, hall⟩
        simp only [wadd]; omega
    · split
      · exact ⟨hn, ho, hne, hpw, hall⟩
      · rename_i hk
        have hk' := (hasKey_false_iff _ _).mp (Bool.not_eq_true _ ▸ hk)
        refine ⟨hn, ho, insertSorted_ne_nil _ _ _, insertSorted_pairwise _ _ _ hpw hk', ?_⟩
        intro x hx
        rcases (mem_insertSorted _ _ _ _).mp hx with rfl | hx
        · exact ⟨hs, rfl⟩
        · exact hall x hx

theorem drain_inv (s : St (Nat × α)) (h : Inv s) : Inv (drain s).1 := by
  obtain ⟨buf, next, mode⟩ := s
  obtain ⟨hn, hm⟩ := h
  simp only at hn
  cases mode with
  | good =>
    simp only at hm
    subst hm
    simp only [drain]
    exact ⟨hn, rfl⟩
  | reseq off =>
    simp only at hm
    obtain ⟨ho, hne, hpw, hall⟩ := hm
    cases buf with
    | nil => exact absurd rfl hne
    | cons a t =>
      obtain ⟨k, m⟩ := a
      simp only [drain]
      split
      · exact ⟨hn, ho, hne, hpw, hall⟩
      · have hn' : wadd next 1 < 256 := by simp only [wadd]; omega
        cases t with
        | nil => exact ⟨hn', rfl⟩
        | cons b t' =>
          refine ⟨hn', ho, by simp, (List.pairwise_cons.mp hpw).2, ?_⟩
          intro x hx
          exact hall x (List.mem_cons_of_mem _ hx)

theorem drain_no_panic (s : St (Nat × α)) (h : Inv s) : (drain s).2 ≠ DrainRes.panic := by
  obtain ⟨buf, next, mode⟩ := s
  obtain ⟨hn, hm⟩ := h
  cases mode with
  | good =>
    simp only at hm
    subst hm
    simp [drain]
  | reseq off =>
    cases buf with
    | nil => simp [drain]
    | cons a t =>
      obtain ⟨k, m⟩ := a
      simp only [drain]
      split <;> simp

theorem stepOp_proc_fst (s : St (Nat × α)) (seq : Nat) (p : α) :
    (stepOp s (.proc seq p)).1 = (process s seq (seq, p)).1 := by
  simp only [stepOp]
  split <;> simp_all

theorem stepOp_drain_fst (s : St (Nat × α)) :
    (stepOp s (.drain : Op α)).1 = (drain s).1 := by
  simp only [stepOp]
  split <;> simp_all

theorem stepOp_inv (s : St (Nat × α)) (o : Op α) (h : Inv s) (ho : o.WF) :
    Inv (stepOp s o).1 := by
  cases o with
  | proc seq p => rw [stepOp_proc_fst]; exact process_inv s seq p h ho
  | drain => rw [stepOp_drain_fst]; exact drain_inv s h
  | reset => exact init_inv
  | setNext n => exact ⟨ho, h.2⟩

theorem runOps_cons (s : St (Nat × α)) (o : Op α) (os : List (Op α)) :
    runOps s (o :: os) =
      ((runOps (stepOp s o).1 os).1, (stepOp s o).2 :: (runOps (stepOp s o).1 os).2) := rfl

theorem runOps_inv (s : St (Nat × α)) (ops : List (Op α)) (h : Inv s)
    (hwf : ∀ o ∈ ops, o.WF) : Inv (runOps s ops).1 := by
  induction ops generalizing s with
  | nil => exact h
  | cons o os ih =>
    rw [runOps_cons]
    exact ih _ (stepOp_inv s o h (hwf o (List.mem_cons_self ..)))
      (fun o' ho' => hwf o' (List.mem_cons_of_mem _ ho'))

theorem process_cases (s : St (Nat × α)) (seq : Nat) (m : Nat × α) :
    (s.next = seq ∧ process s seq m = ({ s with next := wadd s.next 1 }, .next m)) ∨
    (∃ s', process s seq m = (s', .inserted) ∧ s'.next = s.next ∧
        ∃ k, s'.buf = insertSorted k m s.buf) ∨
    (∃ s', process s seq m = (s', .dup) ∧ s'.next = s.next ∧ s'.buf = s.buf) := by
  obtain ⟨buf, next, mode⟩ := s
  cases mode with
  | good =>
    simp only [process]
    split
    · exact Or.inl ⟨by assumption, rfl⟩
    · split
      · exact Or.inr (Or.inr ⟨_, rfl, rfl, rfl⟩)
      · exact Or.inr (Or.inl ⟨_, rfl, rfl, _, rfl⟩)
  | reseq off =>
    simp only [process]
    split
    · split
      · exact Or.inr (Or.inr ⟨_, rfl, rfl, rfl⟩)
      · exact Or.inl ⟨by assumption, rfl⟩
    · split
      · exact Or.inr (Or.inr ⟨_, rfl, rfl, rfl⟩)
      · exact Or.inr (Or.inl ⟨_, rfl, rfl, _, rfl⟩)

theorem drain_cases (s : St (Nat × α)) :
    (∃ off k m t s', s.mode = .reseq off ∧ s.buf = (k, m) :: t ∧ wadd k off = s.next ∧
        drain s = (s', .msg m) ∧ s'.next = wadd s.next 1 ∧ s'.buf = t) ∨
    (∃ r, drain s = (s, r) ∧ ∀ m, r ≠ .msg m) := by
  obtain ⟨buf, next, mode⟩ := s
  cases mode with
  | good =>
    simp only [drain]
    split
    · exact Or.inr ⟨_, rfl, by simp⟩
    · exact Or.inr ⟨_, rfl, by simp⟩
  | reseq off =>
    cases buf with
    | nil => exact Or.inr ⟨_, rfl, by simp⟩
    | cons a t =>
      obtain ⟨k, m⟩ := a
      simp only [drain]
      split
      · exact Or.inr ⟨_, rfl, by simp⟩
      · rename_i hk
        refine Or.inl ⟨off, k, m, t, _, rfl, rfl, by simpa using hk, rfl, ?_, ?_⟩
        · split <;> rfl
        · split <;> rfl

theorem step_release_in_order (s : St (Nat × α)) (o : Op α) (h : Inv s) (ho : o.WF) :
    (∀ m, (stepOp s o).2 = Ev.released m →
        m.1 = s.next ∧ (stepOp s o).1.next = (s.next + 1) % 256) ∧
    ((∀ m, (stepOp s o).2 ≠ Ev.released m) → (∀ n, o ≠ Op.setNext n) → o ≠ Op.reset →
        (stepOp s o).1.next = s.next) := by
  cases o with
  | proc seq p =>
    rcases process_cases s seq (seq, p) with ⟨hn, hp⟩ | ⟨s', hp, hn, _⟩ | ⟨s', hp, hn, _⟩
    · simp only [stepOp, hp]
      refine ⟨?_, ?_⟩
      · intro m hm
        cases hm
        exact ⟨hn.symm, rfl⟩
      · intro hno
        exact absurd rfl (hno _)
    · simp only [stepOp, hp]
      exact ⟨(by intro m hm; cases hm), fun _ _ _ => hn⟩
    · simp only [stepOp, hp]
      exact ⟨(by intro m hm; cases hm), fun _ _ _ => hn⟩
  | drain =>
    rcases drain_cases s with ⟨off, k, m, t, s', hmode, hbuf, hk, hd, hn, _⟩ | ⟨r, hd, hr⟩
    · simp only [stepOp, hd]
      refine ⟨?_, ?_⟩
      · intro m' hm
        cases hm
        refine ⟨?_, hn⟩
        have hi := h.2
        rw [hmode] at hi
        simp only at hi
        obtain ⟨hoff, _, _, hall⟩ := hi
        have := hall (k, m) (by rw [hbuf]; exact List.mem_cons_self ..)
        simp only at this
        rw [← hk, this.2]
        exact (wadd_wsub _ _ this.1).symm
      · intro hno
        exact absurd rfl (hno _)
    · simp only [stepOp, hd]
      cases r with
      | msg m => exact absurd rfl (hr m)
      | empty => exact ⟨(by intro m hm; cases hm), fun _ _ _ => rfl⟩
      | missing => exact ⟨(by intro m hm; cases hm), fun _ _ _ => rfl⟩
      | panic => exact ⟨(by intro m hm; cases hm), fun _ _ _ => rfl⟩
  | reset => exact ⟨(by intro m hm; cases hm), fun _ _ h => absurd rfl h⟩
  | setNext n => exact ⟨(by intro m hm; cases hm), fun _ h _ => absurd rfl (h n)⟩

/-! conservation, by counting -/

theorem inputsOf_cons (o : Op α) (os : List (Op α)) :
    inputsOf (o :: os) = inputsOf [o] ++ inputsOf os := by
  cases o <;> rfl

theorem releasedOf_cons (e : Ev α) (es : List (Ev α)) :
    releasedOf (e :: es) = releasedOf [e] ++ releasedOf es := by
  cases e <;> rfl

theorem dupsOf_cons (e : Ev α) (es : List (Ev α)) :
    dupsOf (e :: es) = dupsOf [e] ++ dupsOf es := by
  cases e <;> rfl

theorem clearedOf_cons (e : Ev α) (es : List (Ev α)) :
    clearedOf (e :: es) = clearedOf [e] ++ clearedOf es := by
  cases e <;> simp [clearedOf]

theorem stepOp_count [DecidableEq α] (s : St (Nat × α)) (o : Op α) (a : Nat × α) :
    (s.buf.map Prod.snd).count a + (inputsOf [o]).count a =
      (releasedOf [(stepOp s o).2]).count a + (dupsOf [(stepOp s o).2]).count a +
      (clearedOf [(stepOp s o).2]).count a + ((stepOp s o).1.buf.map Prod.snd).count a := by
  cases o with
  | proc seq p =>
    rcases process_cases s seq (seq, p) with ⟨_, hp⟩ | ⟨s', hp, _, k, hb⟩ | ⟨s', hp, _, hb⟩
    · simp only [stepOp, hp, inputsOf, releasedOf, dupsOf, clearedOf, List.count_nil]
      omega
    · simp only [stepOp, hp, inputsOf, releasedOf, dupsOf, clearedOf, List.count_nil, hb]
      have := ((insertSorted_perm k (seq, p) s.buf).map Prod.snd).count_eq a
      rw [this]
      simp only [List.map_cons, List.count_cons, List.count_nil]
      omega
    · simp only [stepOp, hp, inputsOf, releasedOf, dupsOf, clearedOf, List.count_nil, hb]
      omega
  | drain =>
    rcases drain_cases s with ⟨off, k, m, t, s', _, hbuf, _, hd, _, hb⟩ | ⟨r, hd, hr⟩
    · simp only [stepOp, hd, inputsOf, releasedOf, dupsOf, clearedOf, List.count_nil, hb, hbuf,
        List.map_cons, List.count_cons]
      omega
    · cases r with
      | msg m => exact absurd rfl (hr m)
      | empty => simp [stepOp, hd, inputsOf, releasedOf, dupsOf, clearedOf]
      | missing => simp [stepOp, hd, inputsOf, releasedOf, dupsOf, clearedOf]
      | panic => simp [stepOp, hd, inputsOf, releasedOf, dupsOf, clearedOf]
  | reset => simp [stepOp, reset, init, inputsOf, releasedOf, dupsOf, clearedOf]
  | setNext n => simp [stepOp, setNext, inputsOf, releasedOf, dupsOf, clearedOf]

theorem runOps_count [DecidableEq α] (s : St (Nat × α)) (ops : List (Op α)) (a : Nat × α) :
    (s.buf.map Prod.snd).count a + (inputsOf ops).count a =
      (releasedOf (runOps s ops).2).count a + (dupsOf (runOps s ops).2).count a +
      (clearedOf (runOps s ops).2).count a + ((runOps s ops).1.buf.map Prod.snd).count a := by
  induction ops generalizing s with
  | nil => simp [runOps, inputsOf, releasedOf, dupsOf, clearedOf]
  | cons o os ih =>
    rw [runOps_cons]
    simp only
    rw [inputsOf_cons, releasedOf_cons, dupsOf_cons, clearedOf_cons]
    simp only [List.count_append]
    have h1 := stepOp_count s o a
    have h2 := ih (stepOp s o).1
    omega

theorem runOps_conservation_gen (s : St (Nat × α)) (ops : List (Op α)) :
    (s.buf.map Prod.snd ++ inputsOf ops).Perm
      (releasedOf (runOps s ops).2 ++ dupsOf (runOps s ops).2 ++
       clearedOf (runOps s ops).2 ++ (runOps s ops).1.buf.map Prod.snd) := by
  classical
  rw [List.perm_iff_count]
  intro a
  simp only [List.count_append]
  exact runOps_count s ops a

theorem runOps_conservation (ops : List (Op α)) (_hwf : ∀ o ∈ ops, o.WF) :
    (inputsOf ops).Perm
      (releasedOf (runOps init ops).2 ++ dupsOf (runOps init ops).2 ++
       clearedOf (runOps init ops).2 ++ (runOps init ops).1.buf.map Prod.snd) := by
  have := runOps_conservation_gen (init : St (Nat × α)) ops
  simpa [init] using this

end Part2

/-! ### Part 1: contiguous runs -/

section Part1
variable {α : Type}

/-- Mid-drain invariant: `A` = indices arrived so far, `k` = number released so far. -/
def CInv (e n : Nat) (p : Nat → α) (A : List Nat) (k : Nat) (s : St (Nat × α)) : Prop :=
  k ≤ n ∧ (∀ i, i < k → i ∈ A) ∧ s.next = (e + k) % 256 ∧
  ((s.mode = .good ∧ s.buf = [] ∧ ∀ i ∈ A, i < k) ∨
   (∃ j, j ≤ k ∧ s.mode = .reseq ((e + j) % 256) ∧ s.buf ≠ [] ∧
      s.buf.Pairwise (fun a b => a.1 < b.1) ∧
      ∀ x, x ∈ s.buf ↔ ∃ i ∈ A, k ≤ i ∧ x = (i - j, runMsg e p i)))

theorem drain_step_mem (e n : Nat) (p : Nat → α) (A : List Nat) (k : Nat) (s : St (Nat × α))
    (hA : ∀ i ∈ A, i < n)
    (h : CInv e n p A k s) (hk : k ∈ A) :
    ∃ s', drain s = (s', .msg (runMsg e p k)) ∧ CInv e n p A (k + 1) s' ∧
      s'.buf.length + 1 = s.buf.length := by
  obtain ⟨buf, next, mode⟩ := s
  obtain ⟨hkn, hlt, hnext, hcase⟩ := h
  simp only at hnext
  have hkn' : k < n := hA k hk
  rcases hcase with ⟨_, _, hall⟩ | ⟨j, hj, hmode, hne, hpw, hmem⟩
  · exact absurd (hall k hk) (Nat.lt_irrefl _)
  · simp only at hmode hne hpw hmem
    subst hmode hnext
    cases buf with
    | nil => exact absurd rfl hne
    | cons a t =>
      obtain ⟨k0, m0⟩ := a
      have hkmem : (k - j, runMsg e p k) ∈ (k0, m0) :: t :=
        (hmem _).mpr ⟨k, hk, Nat.le_refl _, rfl⟩
      obtain ⟨i0, hi0A, hki0, hi0⟩ := (hmem (k0, m0)).mp (List.mem_cons_self ..)
      have hk0 : k0 = i0 - j := congrArg Prod.fst hi0
      have hi0k : i0 = k := by
        rcases List.mem_cons.mp hkmem with heq | ht
        · have h1 : k - j = k0 := congrArg Prod.fst heq
          omega
        · have h1 : k0 < k - j := (List.pairwise_cons.mp hpw).1 _ ht
          omega
      subst hi0k
      have hm0 : m0 = runMsg e p i0 := congrArg Prod.snd hi0
      subst hk0 hm0
      have hw : wadd (i0 - j) ((e + j) % 256) = (e + i0) % 256 := by unfold wadd; omega
      have hw1 : wadd ((e + i0) % 256) 1 = (e + (i0 + 1)) % 256 := by unfold wadd; omega
      have hlt' : ∀ i, i < i0 + 1 → i ∈ A := by
        intro i hi
        rcases Nat.lt_succ_iff_lt_or_eq.mp hi with h | h
        · exact hlt i h
        · exact h ▸ hk
      cases t with
      | nil =>
        refine ⟨{ buf := [], next := wadd ((e + i0) % 256) 1, mode := .good },
          by simp [drain, hw], ⟨by omega, hlt', hw1, Or.inl ⟨rfl, rfl, ?_⟩⟩, rfl⟩
        intro i hi
        apply Classical.byContradiction
        intro hcon
        have := (hmem (i - j, runMsg e p i)).mpr ⟨i, hi, by omega, rfl⟩
        simp only [List.mem_singleton] at this
        have h1 : i - j = i0 - j := congrArg Prod.fst this
        omega
      | cons b t' =>
        refine ⟨{ buf := b :: t', next := wadd ((e + i0) % 256) 1, mode := .reseq ((e + j) % 256) },
          by simp [drain, hw], ⟨by omega, hlt', hw1, Or.inr ⟨j, by omega, rfl, by simp,
          (List.pairwise_cons.mp hpw).2, ?_⟩⟩, rfl⟩
        intro x
        simp only
        constructor
        · intro hx
          obtain ⟨i, hiA, hki, hxi⟩ := (hmem x).mp (List.mem_cons_of_mem _ hx)
          refine ⟨i, hiA, ?_, hxi⟩
          have h1 : i0 - j < x.1 := (List.pairwise_cons.mp hpw).1 _ hx
          rw [hxi] at h1
          simp only at h1
          omega
        · rintro ⟨i, hiA, hki, hxi⟩
          have := (hmem x).mpr ⟨i, hiA, by omega, hxi⟩
          rcases List.mem_cons.mp this with heq | ht
          · rw [hxi] at heq
            have h1 : i - j = i0 - j := congrArg Prod.fst heq
            omega
          · exact ht

theorem drain_step_nmem (e n : Nat) (p : Nat → α) (A : List Nat) (k : Nat) (s : St (Nat × α))
    (hn : n ≤ 256) (hA : ∀ i ∈ A, i < n)
    (h : CInv e n p A k s) (hk : k ∉ A) :
    ∃ r, drain s = (s, r) ∧ ∀ m, r ≠ .msg m := by
  obtain ⟨buf, next, mode⟩ := s
  obtain ⟨hkn, hlt, hnext, hcase⟩ := h
  simp only at hnext
  rcases hcase with ⟨hmode, hbuf, hall⟩ | ⟨j, hj, hmode, hne, hpw, hmem⟩
  · simp only at hmode hbuf
    subst hmode hbuf
    exact ⟨.empty, by simp [drain], by simp⟩
  · simp only at hmode hne hpw hmem
    subst hmode hnext
    cases buf with
    | nil => exact absurd rfl hne
    | cons a t =>
      obtain ⟨k0, m0⟩ := a
      obtain ⟨i0, hi0A, hki0, hi0⟩ := (hmem (k0, m0)).mp (List.mem_cons_self ..)
      have hk0 : k0 = i0 - j := congrArg Prod.fst hi0
      have hne0 : i0 ≠ k := fun h => hk (h ▸ hi0A)
      have hi0n := hA i0 hi0A
      have hw : wadd k0 ((e + j) % 256) ≠ (e + k) % 256 := by unfold wadd; omega
      exact ⟨.missing, by simp [drain, hw], by simp⟩

theorem drainLoop_msg (fuel : Nat) (s s' : St (Nat × α)) (m : Nat × α) (acc : List (Nat × α))
    (h : drain s = (s', .msg m)) :
    drainLoop (fuel + 1) s acc = drainLoop fuel s' (m :: acc) := by
  simp only [drainLoop, h]

theorem drainLoop_stop (fuel : Nat) (s s' : St (Nat × α)) (r : DrainRes (Nat × α))
    (acc : List (Nat × α)) (h : drain s = (s', r)) (hr : ∀ m, r ≠ .msg m) :
    drainLoop (fuel + 1) s acc = (s', acc.reverse, r, false) := by
  cases r with
  | msg m => exact absurd rfl (hr m)
  | empty => simp only [drainLoop, h]
  | missing => simp only [drainLoop, h]
  | panic => simp only [drainLoop, h]

theorem drainLoop_spec (e n : Nat) (p : Nat → α) (A : List Nat)
    (hn : n ≤ 256) (hA : ∀ i ∈ A, i < n) (fuel : Nat) :
    ∀ (k : Nat) (s : St (Nat × α)) (acc : List (Nat × α)),
      CInv e n p A k s → s.buf.length < fuel →
      ∃ k1 s1 r, drainLoop fuel s acc =
          (s1, acc.reverse ++ (List.range' k (k1 - k)).map (runMsg e p), r, false) ∧
        k ≤ k1 ∧ CInv e n p A k1 s1 ∧ k1 ∉ A := by
  induction fuel with
  | zero => intro k s acc _ hf; omega
  | succ fuel ih =>
    intro k s acc h hf
    by_cases hk : k ∈ A
    · obtain ⟨s', hd, hc, hl⟩ := drain_step_mem e n p A k s hA h hk
      obtain ⟨k1, s1, r, hdl, hk1, hc1, hk1A⟩ :=
        ih (k + 1) s' (runMsg e p k :: acc) hc (by omega)
      refine ⟨k1, s1, r, ?_, by omega, hc1, hk1A⟩
      rw [drainLoop_msg _ _ _ _ _ hd, hdl]
      have : k1 - k = (k1 - (k + 1)) + 1 := by omega
      rw [this, List.range'_succ, List.map_cons, List.reverse_cons, List.append_assoc]
      rfl
    · obtain ⟨r, hd, hr⟩ := drain_step_nmem e n p A k s hn hA h hk
      refine ⟨k, s, r, ?_, Nat.le_refl _, h, hk⟩
      rw [drainLoop_stop _ _ _ _ _ hd hr]
      simp

theorem process_next (e n : Nat) (p : Nat → α) (A : List Nat) (k : Nat) (s : St (Nat × α))
    (hn : n ≤ 256) (h : CInv e n p A k s) (hk : k ∉ A) (hkn : k < n) :
    ∃ s1, process s ((e + k) % 256) (runMsg e p k) = (s1, .next (runMsg e p k)) ∧
      CInv e n p (k :: A) (k + 1) s1 := by
  obtain ⟨buf, next, mode⟩ := s
  obtain ⟨_, hlt, hnext, hcase⟩ := h
  simp only at hnext
  subst hnext
  have hw1 : wadd ((e + k) % 256) 1 = (e + (k + 1)) % 256 := by unfold wadd; omega
  have hlt' : ∀ i, i < k + 1 → i ∈ k :: A := by
    intro i hi
    rcases Nat.lt_succ_iff_lt_or_eq.mp hi with h | h
    · exact List.mem_cons_of_mem _ (hlt i h)
    · exact h ▸ List.mem_cons_self ..
  rcases hcase with ⟨hmode, hbuf, hall⟩ | ⟨j, hj, hmode, hne, hpw, hmem⟩
  · simp only at hmode hbuf
    subst hmode hbuf
    refine ⟨{ buf := [], next := wadd ((e + k) % 256) 1, mode := .good }, by simp [process],
      by omega, hlt', hw1, Or.inl ⟨rfl, rfl, ?_⟩⟩
    intro i hi
    rcases List.mem_cons.mp hi with h | h
    · omega
    · have := hall i h; omega
  · simp only at hmode hne hpw hmem
    subst hmode
    have hws : wsub ((e + k) % 256) ((e + j) % 256) = k - j := by unfold wsub; omega
    have hkey : hasKey (k - j) buf = false := by
      rw [hasKey_false_iff]
      intro x hx
      obtain ⟨i, hiA, hki, hxi⟩ := (hmem x).mp hx
      have : i ≠ k := fun h => hk (h ▸ hiA)
      rw [hxi]
      simp only
      omega
    refine ⟨{ buf := buf, next := wadd ((e + k) % 256) 1, mode := .reseq ((e + j) % 256) },
      by simp [process, hws, hkey], by omega, hlt', hw1,
      Or.inr ⟨j, by omega, rfl, hne, hpw, ?_⟩⟩
    intro x
    simp only
    rw [hmem x]
    constructor
    · rintro ⟨i, hiA, hki, hxi⟩
      have : i ≠ k := fun h => hk (h ▸ hiA)
      exact ⟨i, List.mem_cons_of_mem _ hiA, by omega, hxi⟩
    · rintro ⟨i, hiA, hki, hxi⟩
      rcases List.mem_cons.mp hiA with h | h
      · omega
      · exact ⟨i, h, by omega, hxi⟩

theorem process_ins (e n : Nat) (p : Nat → α) (A : List Nat) (k i : Nat) (s : St (Nat × α))
    (hn : n ≤ 256) (h : CInv e n p A k s) (hi : i ∉ A) (hin : i < n) (hik : i ≠ k) :
    ∃ s1, process s ((e + i) % 256) (runMsg e p i) = (s1, .inserted) ∧
      CInv e n p (i :: A) k s1 := by
  obtain ⟨buf, next, mode⟩ := s
  obtain ⟨hkn, hlt, hnext, hcase⟩ := h
  simp only at hnext
  subst hnext
  have hki : k < i := by
    apply Classical.byContradiction
    intro hcon
    exact hi (hlt i (by omega))
  have hne : ¬ ((e + k) % 256 = (e + i) % 256) := by omega
  have hlt' : ∀ a, a < k → a ∈ i :: A := fun a ha => List.mem_cons_of_mem _ (hlt a ha)
  rcases hcase with ⟨hmode, hbuf, hall⟩ | ⟨j, hj, hmode, hne', hpw, hmem⟩
  · simp only at hmode hbuf
    subst hmode hbuf
    have hws : wsub ((e + i) % 256) ((e + k) % 256) = i - k := by unfold wsub; omega
    refine ⟨{ buf := [(i - k, runMsg e p i)], next := (e + k) % 256,
              mode := .reseq ((e + k) % 256) },
      by simp [process, hne, hws, hasKey, insertSorted], hkn, hlt', rfl,
      Or.inr ⟨k, Nat.le_refl _, rfl, by simp, by simp, ?_⟩⟩
    intro x
    simp only [List.mem_singleton]
    constructor
    · intro hx
      exact ⟨i, List.mem_cons_self .., by omega, hx⟩
    · rintro ⟨a, haA, hka, hxa⟩
      rcases List.mem_cons.mp haA with h | h
      · rw [hxa, h]
      · have := hall a h; omega
  · simp only at hmode hne' hpw hmem
    subst hmode
    have hws : wsub ((e + i) % 256) ((e + j) % 256) = i - j := by unfold wsub; omega
    have hkey : ∀ x ∈ buf, x.1 ≠ i - j := by
      intro x hx
      obtain ⟨a, haA, hka, hxa⟩ := (hmem x).mp hx
      have : a ≠ i := fun h => hi (h ▸ haA)
      rw [hxa]
      simp only
      omega
    have hkey' : hasKey (i - j) buf = false := (hasKey_false_iff _ _).mpr hkey
    refine ⟨{ buf := insertSorted (i - j) (runMsg e p i) buf, next := (e + k) % 256,
              mode := .reseq ((e + j) % 256) },
      by simp [process, hne, hws, hkey'], hkn, hlt', rfl,
      Or.inr ⟨j, hj, rfl, insertSorted_ne_nil _ _ _, insertSorted_pairwise _ _ _ hpw hkey, ?_⟩⟩
    intro x
    simp only
    rw [mem_insertSorted, hmem x]
    constructor
    · rintro (hx | ⟨a, haA, hka, hxa⟩)
      · exact ⟨i, List.mem_cons_self .., by omega, hx⟩
      · exact ⟨a, List.mem_cons_of_mem _ haA, hka, hxa⟩
    · rintro ⟨a, haA, hka, hxa⟩
      rcases List.mem_cons.mp haA with h | h
      · exact Or.inl (by rw [hxa, h])
      · exact Or.inr ⟨a, h, hka, hxa⟩

theorem arrive_next (s s1 : St (Nat × α)) (m m' : Nat × α)
    (h : process s m.1 m = (s1, .next m')) :
    arrive s m = ((drainAll s1).1, m' :: (drainAll s1).2.1, (drainAll s1).2.2.2) := by
  simp only [arrive, h]

theorem arrive_ins (s s1 : St (Nat × α)) (m : Nat × α)
    (h : process s m.1 m = (s1, .inserted)) :
    arrive s m = ((drainAll s1).1, (drainAll s1).2.1, (drainAll s1).2.2.2) := by
  simp only [arrive, h]

theorem arrive_spec (e n : Nat) (p : Nat → α) (A : List Nat) (k i : Nat) (s : St (Nat × α))
    (hn : n ≤ 256) (hA : ∀ i ∈ A, i < n)
    (h : CInv e n p A k s) (hk : k ∉ A) (hi : i ∉ A) (hin : i < n) :
    ∃ k1 s1, arrive s (runMsg e p i) =
        (s1, (List.range' k (k1 - k)).map (runMsg e p), false) ∧
      k ≤ k1 ∧ CInv e n p (i :: A) k1 s1 ∧ k1 ∉ i :: A := by
  have hA' : ∀ a ∈ i :: A, a < n := by
    intro a ha
    rcases List.mem_cons.mp ha with h | h
    · omega
    · exact hA a h
  by_cases hik : i = k
  · subst hik
    obtain ⟨s1, hp, hc⟩ := process_next e n p A i s hn h hk hin
    obtain ⟨k1, s2, r, hdl, hk1, hc1, hk1A⟩ :=
      drainLoop_spec e n p (i :: A) hn hA' (s1.buf.length + 1) (i + 1) s1 [] hc (by omega)
    refine ⟨k1, s2, ?_, by omega, hc1, hk1A⟩
    rw [arrive_next s s1 (runMsg e p i) _ hp]
    simp only [drainAll, hdl]
    have : k1 - i = (k1 - (i + 1)) + 1 := by omega
    rw [this, List.range'_succ]
    simp
  · obtain ⟨s1, hp, hc⟩ := process_ins e n p A k i s hn h hi hin hik
    have hk' : k ∉ i :: A := by
      intro hmem
      rcases List.mem_cons.mp hmem with h | h
      · exact hik h.symm
      · exact hk h
    obtain ⟨k1, s2, r, hdl, hk1, hc1, hk1A⟩ :=
      drainLoop_spec e n p (i :: A) hn hA' (s1.buf.length + 1) k s1 [] hc (by omega)
    refine ⟨k1, s2, ?_, hk1, hc1, hk1A⟩
    rw [arrive_ins s s1 (runMsg e p i) hp]
    simp only [drainAll, hdl]
    simp

theorem feed_cons (s : St (Nat × α)) (m : Nat × α) (ms : List (Nat × α)) :
    feed s (m :: ms) =
      ((feed (arrive s m).1 ms).1, (arrive s m).2.1 ++ (feed (arrive s m).1 ms).2.1,
        ((arrive s m).2.2 || (feed (arrive s m).1 ms).2.2)) := rfl

theorem feed_spec (e n : Nat) (p : Nat → α) (hn : n ≤ 256) (rest : List Nat) :
    ∀ (A : List Nat) (k : Nat) (s : St (Nat × α)),
      CInv e n p A k s → k ∉ A → (∀ i ∈ A, i < n) → rest.Nodup →
      (∀ i ∈ rest, i ∉ A ∧ i < n) → (∀ i, i < n → i ∈ A ∨ i ∈ rest) →
      feed s (rest.map (runMsg e p)) =
        ({ buf := [], next := (e + n) % 256, mode := .good },
          (List.range' k (n - k)).map (runMsg e p), false) := by
  induction rest with
  | nil =>
    intro A k s h hk hA _ _ hall
    obtain ⟨buf, next, mode⟩ := s
    obtain ⟨hkn, hlt, hnext, hcase⟩ := h
    have hkn' : k = n := by
      apply Classical.byContradiction
      intro hcon
      rcases hall k (by omega) with h | h
      · exact hk h
      · cases h
    subst hkn'
    simp only at hnext
    subst hnext
    rcases hcase with ⟨hmode, hbuf, _⟩ | ⟨j, hj, hmode, hne, hpw, hmem⟩
    · simp only at hmode hbuf
      subst hmode hbuf
      simp [feed]
    · simp only at hne hmem
      cases buf with
      | nil => exact absurd rfl hne
      | cons a t =>
        obtain ⟨i, hiA, hki, _⟩ := (hmem a).mp (List.mem_cons_self ..)
        have := hA i hiA
        omega
  | cons i rest ih =>
    intro A k s h hk hA hnd hrest hall
    rw [List.nodup_cons] at hnd
    obtain ⟨hi, hin⟩ := hrest i (List.mem_cons_self ..)
    obtain ⟨k1, s1, harr, hk1, hc1, hk1A⟩ := arrive_spec e n p A k i s hn hA h hk hi hin
    have hA' : ∀ a ∈ i :: A, a < n := by
      intro a ha
      rcases List.mem_cons.mp ha with h | h
      · omega
      · exact hA a h
    have hih := ih (i :: A) k1 s1 hc1 hk1A hA' hnd.2
      (by
        intro a ha
        refine ⟨?_, (hrest a (List.mem_cons_of_mem _ ha)).2⟩
        intro hmem
        rcases List.mem_cons.mp hmem with h | h
        · exact hnd.1 (h ▸ ha)
        · exact (hrest a (List.mem_cons_of_mem _ ha)).1 h)
      (by
        intro a ha
        rcases hall a ha with h | h
        · exact Or.inl (List.mem_cons_of_mem _ h)
        · rcases List.mem_cons.mp h with h | h
          · exact Or.inl (h ▸ List.mem_cons_self ..)
          · exact Or.inr h)
    rw [List.map_cons, feed_cons, harr]
    simp only
    rw [hih]
    have hk1n : k1 ≤ n := hc1.1
    have h1 : n - k = (k1 - k) + (n - k1) := by omega
    have h2 : List.range' k1 (n - k1) = List.range' (k + 1 * (k1 - k)) (n - k1) := by
      congr 1; omega
    rw [h1, ← List.range'_append, List.map_append, ← h2]
    simp

theorem contiguous_main (e n : Nat) (p : Nat → α) (arr : List Nat)
    (he : e < 256) (hn : n ≤ 256) (hperm : arr.Perm (List.range n)) :
    feed ({ buf := [], next := e, mode := .good } : St (Nat × α)) (arr.map (runMsg e p))
      = ({ buf := [], next := (e + n) % 256, mode := .good },
         (List.range n).map (runMsg e p), false) := by
  have h := feed_spec e n p hn arr [] 0
    ({ buf := [], next := e, mode := .good } : St (Nat × α))
    ⟨Nat.zero_le _, by intro i hi; omega, by simp only; omega,
      Or.inl ⟨rfl, rfl, by intro i hi; cases hi⟩⟩
    (by simp) (by intro i hi; cases hi)
    (hperm.nodup_iff.mpr List.nodup_range)
    (by
      intro i hi
      exact ⟨by simp, List.mem_range.mp (hperm.mem_iff.mp hi)⟩)
    (by
      intro i hi
      exact Or.inr (hperm.mem_iff.mpr (List.mem_range.mpr hi)))
  rw [h, List.range_eq_range']
  simp

end Part1

end Srad.Reseq
