import SradModel.Model.Codec

namespace Srad.Codec

end Srad.Codec
