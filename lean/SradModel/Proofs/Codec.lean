import SradModel.Model.Codec

namespace Srad.Codec

/-! ### little-endian -/

theorem le_length (w n : Nat) : (le w n).length = w := by
  induction w generalizing n with
  | zero => rfl
  | succ w ih => simp [le, ih]

theorem unle_le (w n : Nat) : unle (le w n) = n % 2 ^ (8 * w) := by
  induction w generalizing n with
  | zero => simp [le, unle, Nat.mod_one]
  | succ w ih =>
    have h256 : n % 256 < 256 := Nat.mod_lt _ (by decide)
    have hp : 2 ^ (8 * (w + 1)) = 256 * 2 ^ (8 * w) := by
      rw [Nat.mul_succ, Nat.pow_add, Nat.mul_comm]
    simp only [le, unle, ih, hp, UInt8.toNat_ofNat']
    rw [Nat.mod_mul, Nat.mod_eq_of_lt h256]

theorem unle_le_of_lt (w n : Nat) (h : n < 2 ^ (8 * w)) : unle (le w n) = n := by
  rw [unle_le, Nat.mod_eq_of_lt h]

theorem le_unle (w : Nat) (bs : Bytes) (h : bs.length = w) : le w (unle bs) = bs := by
  induction bs generalizing w with
  | nil => subst h; rfl
  | cons b t ih =>
    subst h
    have hb : b.toNat < 256 := UInt8.toNat_lt b
    have h1 : (b.toNat + 256 * unle t) % 256 = b.toNat := by omega
    have h2 : (b.toNat + 256 * unle t) / 256 = unle t := by omega
    simp only [List.length_cons, le, unle, h1, h2, UInt8.ofNat_toNat, ih _ rfl]

theorem le_form_aux (w n : Nat) :
    le w n = (List.range w).map (fun i => UInt8.ofNat (n / 256 ^ i % 256)) := by
  induction w generalizing n with
  | zero => rfl
  | succ w ih =>
    rw [List.range_succ_eq_map, le, ih]
    simp [List.map_map, Function.comp_def, Nat.pow_succ, Nat.div_div_eq_div_mul, Nat.mul_comm]

/-! ### fixed-width arrays -/

theorem encodeW_eq_flatMap (w : Nat) (l : List Nat) : encodeW w l = l.flatMap (le w) := by
  induction l with
  | nil => rfl
  | cons x t ih => simp [encodeW, ih]

theorem encodeW_length (w : Nat) (l : List Nat) : (encodeW w l).length = w * l.length := by
  induction l with
  | nil => rfl
  | cons x t ih => simp [encodeW, ih, le_length, Nat.mul_succ, Nat.add_comm]

theorem takeChunks_encodeW (w : Nat) (l : List Nat) (h : ∀ x ∈ l, x < 2 ^ (8 * w)) :
    takeChunks w l.length (encodeW w l) = l := by
  induction l with
  | nil => rfl
  | cons x t ih =>
    have hx := h x (by simp)
    have ht : ∀ y ∈ t, y < 2 ^ (8 * w) := fun y hy => h y (by simp [hy])
    simp only [List.length_cons, takeChunks, encodeW]
    rw [List.take_left' (le_length w x), List.drop_left' (le_length w x), unle_le_of_lt w x hx,
      ih ht]

theorem decodeW_encodeW (w : Nat) (hw : 0 < w) (l : List Nat) (h : ∀ x ∈ l, x < 2 ^ (8 * w)) :
    decodeW w (encodeW w l) = { res := .ok l, alloc := l.length } := by
  unfold decodeW
  rw [encodeW_length, Nat.mul_mod_right, Nat.mul_div_cancel_left _ hw]
  simp [takeChunks_encodeW w l h]

theorem takeChunks_length (w n : Nat) (bs : Bytes) : (takeChunks w n bs).length = n := by
  induction n generalizing bs with
  | zero => rfl
  | succ n ih => simp [takeChunks, ih]

theorem encodeW_takeChunks (w n : Nat) (bs : Bytes) (h : bs.length = w * n) :
    encodeW w (takeChunks w n bs) = bs := by
  induction n generalizing bs with
  | zero => simp at h; subst h; rfl
  | succ n ih =>
    have h1 : (bs.take w).length = w := by
      rw [List.length_take, h, Nat.mul_succ]; omega
    have h2 : (bs.drop w).length = w * n := by
      rw [List.length_drop, h, Nat.mul_succ]; omega
    simp only [takeChunks, encodeW, le_unle w _ h1, ih _ h2, List.take_append_drop]

theorem decodeW_ok (w : Nat) (bs : Bytes) (l : List Nat)
    (h : (decodeW w bs).res = .ok l) :
    bs.length % w = 0 ∧ l = takeChunks w (bs.length / w) bs := by
  unfold decodeW at h
  split at h
  · simp at h
  · simp at h
    constructor
    · omega
    · exact h.symm

/-! ### string arrays -/

theorem encodeStr_eq_flatMap (l : List Bytes) :
    encodeStr l = l.flatMap (fun s => s ++ [(0 : UInt8)]) := by
  induction l with
  | nil => rfl
  | cons s t ih => simp [encodeStr, ih]

theorem split0_snoc (cur bs : Bytes) : split0 cur (bs ++ [0]) = split0 cur bs ++ [[]] := by
  induction bs generalizing cur with
  | nil => simp [split0]
  | cons b t ih =>
    by_cases hb : b = 0
    · simp [split0, hb, ih]
    · simp [split0, hb, ih]

theorem encodeStr_split0 (cur bs : Bytes) :
    encodeStr (split0 cur bs) = cur.reverse ++ bs ++ [0] := by
  induction bs generalizing cur with
  | nil => simp [split0, encodeStr]
  | cons b t ih =>
    by_cases hb : b = 0
    · simp [split0, hb, ih, encodeStr]
    · simp [split0, hb, ih]

theorem split0_length (cur bs : Bytes) : (split0 cur bs).length = bs.count 0 + 1 := by
  induction bs generalizing cur with
  | nil => simp [split0]
  | cons b t ih =>
    by_cases hb : b = 0
    · simp [split0, hb, ih]
    · simp [split0, hb, ih]

theorem split0_append (cur s rest : Bytes) (hs : (0 : UInt8) ∉ s) :
    split0 cur (s ++ 0 :: rest) = (cur.reverse ++ s) :: split0 [] rest := by
  induction s generalizing cur with
  | nil => simp [split0]
  | cons b t ih =>
    have hb : b ≠ 0 := fun h => hs (by simp [h])
    have ht : (0 : UInt8) ∉ t := fun h => hs (by simp [h])
    simp [split0, hb, ih _ ht]

theorem split0_encodeStr (l : List Bytes) (h : ∀ s ∈ l, (0 : UInt8) ∉ s) :
    split0 [] (encodeStr l) = l ++ [[]] := by
  induction l with
  | nil => rfl
  | cons s t ih =>
    have ht : ∀ x ∈ t, (0 : UInt8) ∉ x := fun x hx => h x (by simp [hx])
    rw [encodeStr, split0_append [] s _ (h s (by simp)), ih ht]
    simp

theorem encodeStr_getLast? (l : List Bytes) :
    encodeStr l = [] ∨ (encodeStr l).getLast? = some 0 := by
  induction l with
  | nil => left; rfl
  | cons s t ih =>
    right
    rw [encodeStr, List.getLast?_append, List.getLast?_cons]
    rcases ih with h | h <;> simp [h]

theorem validateAll_ok (valid : Bytes → Bool) (l : List Bytes) (h : ∀ s ∈ l, valid s = true) :
    validateAll valid l = .ok l := by
  induction l with
  | nil => rfl
  | cons s t ih =>
    have ht : ∀ x ∈ t, valid x = true := fun x hx => h x (by simp [hx])
    simp [validateAll, h s (by simp), ih ht]

theorem validateAll_eq (valid : Bytes → Bool) (ps l : List Bytes)
    (h : validateAll valid ps = .ok l) : l = ps := by
  induction ps generalizing l with
  | nil => simp [validateAll] at h; exact h
  | cons p t ih =>
    unfold validateAll at h
    split at h
    · split at h
      · next r hr => simp at h; rw [← h, ih r hr]
      · next e hne => exact absurd h (hne l)
    · simp at h

theorem validateAll_ne_panic (valid : Bytes → Bool) (ps : List Bytes) :
    validateAll valid ps ≠ .panic := by
  induction ps with
  | nil => simp [validateAll]
  | cons p t ih =>
    unfold validateAll
    split
    · split
      · simp
      · exact ih
    · simp

theorem decodeStr_encodeStr (valid : Bytes → Bool) (l : List Bytes)
    (h : ∀ s ∈ l, valid s = true ∧ (0 : UInt8) ∉ s) :
    decodeStr valid (encodeStr l) = { res := .ok l, alloc := 0 } := by
  unfold decodeStr
  rcases encodeStr_getLast? l with h0 | h0
  · cases l with
    | nil => rfl
    | cons s t => simp [encodeStr] at h0
  · rw [h0]
    simp [split0_encodeStr l (fun s hs => (h s hs).2), validateAll_ok valid l (fun s hs => (h s hs).1)]

theorem decodeStr_ok (valid : Bytes → Bool) (bs : Bytes) (l : List Bytes)
    (h : (decodeStr valid bs).res = .ok l) :
    l.length = bs.count 0 ∧ encodeStr l = bs := by
  unfold decodeStr at h
  split at h
  · next hnone =>
    simp at h hnone
    subst h hnone
    simp [encodeStr]
  · next last hlast =>
    split at h
    · simp at h
    · next hz =>
      simp at hz h
      subst hz
      obtain ⟨ys, rfl⟩ := List.getLast?_eq_some_iff.mp hlast
      have := validateAll_eq _ _ _ h
      rw [split0_snoc, List.dropLast_concat] at this
      subst this
      constructor
      · simp [split0_length]
      · simp [encodeStr_split0]

/-! ### boolean arrays -/

theorem bitsMsb_packByte8 : ∀ b0 b1 b2 b3 b4 b5 b6 b7 : Bool,
    bitsMsb (packByte [b0, b1, b2, b3, b4, b5, b6, b7]) = [b0, b1, b2, b3, b4, b5, b6, b7] := by
  decide

theorem packByteAux_replicate_false (i k : Nat) : packByteAux i (List.replicate k false) = 0 := by
  induction k generalizing i with
  | zero => rfl
  | succ k ih => simp [List.replicate_succ, packByteAux, ih]

theorem packByteAux_append_false (i k : Nat) (c : List Bool) :
    packByteAux i (c ++ List.replicate k false) = packByteAux i c := by
  induction c generalizing i with
  | nil => simp [packByteAux, packByteAux_replicate_false]
  | cons b t ih => simp [packByteAux, ih]

theorem bitsMsb_packByte_of_length8 (c : List Bool) (h : c.length = 8) :
    bitsMsb (packByte c) = c := by
  rcases c with _ | ⟨b0, _ | ⟨b1, _ | ⟨b2, _ | ⟨b3, _ | ⟨b4, _ | ⟨b5, _ | ⟨b6, _ | ⟨b7, _ | ⟨b8, t⟩⟩⟩⟩⟩⟩⟩⟩⟩ <;>
    simp at h
  exact bitsMsb_packByte8 ..

theorem bitsMsb_packByte (c : List Bool) (h : c.length ≤ 8) :
    bitsMsb (packByte c) = c ++ List.replicate (8 - c.length) false := by
  have : packByte c = packByte (c ++ List.replicate (8 - c.length) false) := by
    simp [packByte, packByteAux_append_false]
  rw [this, bitsMsb_packByte_of_length8]
  simp; omega

theorem topBits_packByte (c : List Bool) (h : c.length ≤ 8) :
    topBits (packByte c) c.length = c := by
  simp [topBits, bitsMsb_packByte c h]

theorem bit_eq_bitsMsb (b : UInt8) (j : Nat) (hj : j < 8) :
    (bitsMsb b)[j]? = some (bit b (7 - j)) := by
  have : j = 0 ∨ j = 1 ∨ j = 2 ∨ j = 3 ∨ j = 4 ∨ j = 5 ∨ j = 6 ∨ j = 7 := by omega
  rcases this with h | h | h | h | h | h | h | h <;> subst h <;> rfl

theorem bit_packByte (c : List Bool) (h : c.length ≤ 8) (j : Nat) (hj : j < c.length) :
    bit (packByte c) (7 - j) = c[j] := by
  have h1 := bit_eq_bitsMsb (packByte c) j (by omega)
  rw [bitsMsb_packByte c h, List.getElem?_append_left hj, List.getElem?_eq_getElem hj] at h1
  exact (Option.some.inj h1).symm

theorem packBits_length (fuel : Nat) (l : List Bool) (h : l.length ≤ 8 * fuel) :
    (packBits fuel l).length = (l.length + 7) / 8 := by
  induction fuel generalizing l with
  | zero =>
    have : l = [] := List.eq_nil_of_length_eq_zero (by omega)
    subst this; rfl
  | succ fuel ih =>
    unfold packBits
    cases l with
    | nil => rfl
    | cons a t =>
      simp only [List.isEmpty_cons, Bool.false_eq_true, if_false, List.length_cons]
      rw [ih]
      · simp only [List.length_drop, List.length_cons]; omega
      · simp only [List.length_drop, List.length_cons] at *; omega

theorem packBits_getElem? (fuel : Nat) (l : List Bool) (k : Nat) (h : l.length ≤ 8 * fuel)
    (hk : 8 * k < l.length) :
    (packBits fuel l)[k]? = some (packByte ((l.drop (8 * k)).take 8)) := by
  induction fuel generalizing l k with
  | zero => omega
  | succ fuel ih =>
    unfold packBits
    have hne : l.isEmpty = false := by
      cases l with
      | nil => simp at hk
      | cons _ _ => rfl
    rw [hne]
    cases k with
    | zero => simp
    | succ k =>
      simp only [Bool.false_eq_true, if_false, List.getElem?_cons_succ]
      rw [ih]
      · rw [List.drop_drop]
        congr 4
        omega
      · simp only [List.length_drop]; omega
      · simp only [List.length_drop]; omega

theorem packBits_take_full (fuel : Nat) (l : List Bool) (h : l.length ≤ 8 * fuel) :
    ((packBits fuel l).take (l.length / 8)).flatMap bitsMsb = l.take (8 * (l.length / 8)) := by
  induction fuel generalizing l with
  | zero =>
    have : l = [] := List.eq_nil_of_length_eq_zero (by omega)
    subst this; rfl
  | succ fuel ih =>
    by_cases h8 : l.length < 8
    · have : l.length / 8 = 0 := by omega
      simp [this]
    · unfold packBits
      have hne : l.isEmpty = false := by
        cases l with
        | nil => simp at h8
        | cons _ _ => rfl
      have hd : (l.drop 8).length = l.length - 8 := List.length_drop
      have hq : l.length / 8 = (l.length - 8) / 8 + 1 := by omega
      have ih' := ih (l.drop 8) (by omega)
      rw [hd] at ih'
      rw [hne, hq]
      simp only [Bool.false_eq_true, if_false, List.take_succ_cons, List.flatMap_cons, ih']
      rw [bitsMsb_packByte_of_length8 _ (by simp; omega), Nat.mul_add, Nat.mul_one,
        Nat.add_comm _ 8, List.take_add]

theorem encodeBool_take4 (l : List Bool) :
    (encodeBool l).take 4 = le 4 (l.length % 4294967296) := by
  unfold encodeBool
  rw [List.take_left' (le_length _ _)]

theorem encodeBool_drop4 (l : List Bool) :
    (encodeBool l).drop 4 = packBits (l.length + 1) l := by
  unfold encodeBool
  rw [List.drop_left' (le_length _ _)]

theorem encodeBool_length (l : List Bool) :
    (encodeBool l).length = 4 + (l.length + 7) / 8 := by
  unfold encodeBool
  rw [List.length_append, le_length, packBits_length _ _ (by omega)]

theorem flatMap_bitsMsb_length (xs : Bytes) : (xs.flatMap bitsMsb).length = 8 * xs.length := by
  induction xs with
  | nil => rfl
  | cons x t ih => simp [List.flatMap_cons, ih, bitsMsb]; omega

theorem decodeBool_encodeBool (l : List Bool) (h : l.length < 4294967296) :
    (decodeBool (encodeBool l)).res = .ok l := by
  have hmod : l.length % 4294967296 = l.length := Nat.mod_eq_of_lt h
  have htake := encodeBool_take4 l
  have hdrop := encodeBool_drop4 l
  have hlen := encodeBool_length l
  have hcount : unle (le 4 l.length) = l.length := unle_le_of_lt 4 _ (by simpa using h)
  rw [hmod] at htake
  unfold decodeBool
  simp only [htake, hdrop, hcount, hlen]
  rw [if_neg (by omega)]
  by_cases h0 : l.length = 0
  · rw [if_pos h0]; simp [List.eq_nil_of_length_eq_zero h0]
  · rw [if_neg h0, if_neg (by omega)]
    by_cases h8 : l.length % 8 = 0
    · rw [if_pos h8, packBits_take_full _ _ (by omega)]
      have : 8 * (l.length / 8) = l.length := by omega
      simp [this]
    · rw [if_neg h8, packBits_getElem? _ _ _ (by omega) (by omega),
        packBits_take_full _ _ (by omega)]
      have hc : ((l.drop (8 * (l.length / 8))).take 8).length = l.length % 8 := by
        rw [List.length_take, List.length_drop]; omega
      simp only
      have hd : (l.drop (8 * (l.length / 8))).take 8 = l.drop (8 * (l.length / 8)) :=
        List.take_of_length_le (by rw [List.length_drop]; omega)
      rw [← hc, topBits_packByte _ (by omega), hd, List.take_append_drop]

theorem decodeBool_total (bs : Bytes) :
    (decodeBool bs).res ≠ .panic ∧ (decodeBool bs).alloc ≤ 8 * bs.length := by
  unfold decodeBool
  simp only []
  generalize unle (bs.take 4) = count
  split
  · simp
  · split
    · simp
    · split
      · simp
      · split
        · simp; omega
        · split
          · next hnone =>
            rw [List.getElem?_eq_none_iff, List.length_drop] at hnone
            omega
          · simp; omega

theorem decodeBool_ok_length (bs : Bytes) (l : List Bool) (h : (decodeBool bs).res = .ok l) :
    l.length = unle (bs.take 4) := by
  unfold decodeBool at h
  simp only [] at h
  generalize unle (bs.take 4) = count at h
  split at h
  · simp at h
  · split at h
    · simp at h; subst h; simp [*]
    · split at h
      · simp at h
      · split at h
        · simp at h; subst h
          rw [flatMap_bitsMsb_length, List.length_take, List.length_drop]; omega
        · split at h
          · simp at h
          · simp at h; subst h
            rw [List.length_append, flatMap_bitsMsb_length, List.length_take, List.length_drop]
            simp [topBits, bitsMsb]; omega

theorem unle_lt (bs : Bytes) : unle bs < 2 ^ (8 * bs.length) := by
  induction bs with
  | nil => simp [unle]
  | cons b t ih =>
    have hb : b.toNat < 256 := UInt8.toNat_lt b
    have hp : 2 ^ (8 * (t.length + 1)) = 256 * 2 ^ (8 * t.length) := by
      rw [Nat.mul_succ, Nat.pow_add, Nat.mul_comm]
    simp only [unle, List.length_cons, hp]
    generalize 2 ^ (8 * t.length) = P at *
    have : 256 * (unle t + 1) ≤ 256 * P := Nat.mul_le_mul_left _ ih
    omega

theorem unle_take4_lt (bs : Bytes) : unle (bs.take 4) < 4294967296 := by
  have h := unle_lt (bs.take 4)
  have h2 : (bs.take 4).length ≤ 4 := by simp [List.length_take]; omega
  have : 2 ^ (8 * (bs.take 4).length) ≤ 2 ^ (8 * 4) :=
    Nat.pow_le_pow_right (by decide) (by omega)
  omega

/-! ### scalars and datatype-directed decoding -/

theorem scalar_roundtrip (t : STy) (v : SV) (h : t.holds v = true) :
    fromProto t (toProto t v) = .ok v := by
  cases t <;> cases v <;> simp [STy.holds, STy.width] at h <;> simp [toProto, fromProto] <;>
    first | exact h | exact of_decide_eq_true h

theorem fromProto_ne_panic (t : STy) (pv : PV) : fromProto t pv ≠ .panic := by
  cases t <;> cases pv <;> simp [fromProto]

theorem kindOf_eq (valid : Bytes → Bool) (dt : DT) (pv : PV) :
    kindOf valid dt pv =
      match runDecoder valid (kindArm dt).2 pv with
      | .ok v => .ok ((kindArm dt).1, v)
      | .err e => .err e
      | .panic => .panic := rfl

theorem kindArm_fst (dt : DT) : (kindArm dt).1 = dt := by
  cases dt <;> rfl

theorem liftDec_ne_panic {α} (d : Dec α) (f : α → KV) (h : d.res ≠ .panic) :
    liftDec d f ≠ .panic := by
  unfold liftDec
  split <;> simp_all

theorem templateValue_ne_panic (d : Option Bool) (r : Bool) : templateValue d r ≠ .panic := by
  unfold templateValue
  split <;> simp

theorem decodeW_ne_panic (w : Nat) (bs : Bytes) : (decodeW w bs).res ≠ .panic := by
  unfold decodeW
  split <;> simp

theorem decodeStr_ne_panic (valid : Bytes → Bool) (bs : Bytes) :
    (decodeStr valid bs).res ≠ .panic := by
  unfold decodeStr
  split
  · simp
  · split
    · simp
    · exact validateAll_ne_panic _ _

theorem runDecoder_ne_panic (valid : Bytes → Bool) (d : Decoder) (pv : PV) :
    runDecoder valid d pv ≠ .panic := by
  unfold runDecoder
  split
  · split
    · simp
    · simp
    · next h => exact absurd h (fromProto_ne_panic _ _)
  · exact liftDec_ne_panic _ _ (decodeW_ne_panic _ _)
  · exact liftDec_ne_panic _ _ (decodeBool_total _).1
  · exact liftDec_ne_panic _ _ (decodeStr_ne_panic _ _)
  · simp
  · simp
  · exact templateValue_ne_panic _ _
  · simp
  · simp
  · simp

theorem kindOf_ne_panic (valid : Bytes → Bool) (dt : DT) (pv : PV) :
    kindOf valid dt pv ≠ .panic := by
  rw [kindOf_eq]
  have := runDecoder_ne_panic valid (kindArm dt).2 pv
  split <;> simp_all

theorem kindOf_name (valid : Bytes → Bool) (dt k : DT) (pv : PV) (v : KV)
    (h : kindOf valid dt pv = .ok (k, v)) : k = dt := by
  rw [kindOf_eq] at h
  split at h <;> simp at h
  rw [← h.1, kindArm_fst]

theorem kindOf_of_runDecoder (valid : Bytes → Bool) (dt : DT) (d : Decoder) (pv : PV) (v : KV)
    (harm : (kindArm dt).2 = d) (h : runDecoder valid d pv = .ok v) :
    kindOf valid dt pv = .ok (dt, v) := by
  rw [kindOf_eq, harm, h, kindArm_fst]

theorem arrW_width_pos (dt : DT) (w : Nat) (harm : (kindArm dt).2 = .arrW w) : 0 < w := by
  cases dt <;> simp [kindArm] at harm <;> omega

theorem decodeW_alloc_le (w : Nat) (bs : Bytes) : (decodeW w bs).alloc ≤ bs.length := by
  unfold decodeW
  split
  · simp
  · exact Nat.div_le_self _ _

theorem decodeStr_alloc (valid : Bytes → Bool) (bs : Bytes) : (decodeStr valid bs).alloc = 0 := by
  unfold decodeStr
  split
  · rfl
  · split <;> rfl

theorem decodeW_exact (w : Nat) (bs : Bytes) (l : List Nat)
    (h : (decodeW w bs).res = .ok l) :
    l.length * w = bs.length ∧ encodeW w l = bs ∧ (decodeW w (encodeW w l)).res = .ok l := by
  obtain ⟨hm, hl⟩ := decodeW_ok w bs l h
  have hlen : bs.length = w * (bs.length / w) := by
    have := Nat.div_add_mod bs.length w
    omega
  have henc : encodeW w l = bs := by rw [hl]; exact encodeW_takeChunks w _ bs hlen
  refine ⟨?_, henc, by rw [henc]; exact h⟩
  rw [hl, takeChunks_length, Nat.mul_comm]; exact hlen.symm

theorem encodeBool_bit (l : List Bool) (i : Nat) (hi : i < l.length) :
    ∃ b, (encodeBool l)[4 + i / 8]? = some b ∧ bit b (7 - i % 8) = l[i] := by
  have hget : (encodeBool l)[4 + i / 8]? = (packBits (l.length + 1) l)[i / 8]? := by
    rw [← encodeBool_drop4, List.getElem?_drop]
  have hc : ((l.drop (8 * (i / 8))).take 8).length ≤ 8 := by
    rw [List.length_take]; omega
  have hj : i % 8 < ((l.drop (8 * (i / 8))).take 8).length := by
    rw [List.length_take, List.length_drop]; omega
  refine ⟨_, hget.trans (packBits_getElem? _ l (i / 8) (by omega) (by omega)), ?_⟩
  rw [bit_packByte _ hc _ hj, List.getElem_take, List.getElem_drop]
  congr 1
  omega

end Srad.Codec
