/- Helper lemmas for C15 (`Props/C15.lean`). -/
import SradModel.Model.CmdSpec

namespace Srad.Cmd
open Srad.Codec

/-! ### metric.rs -/

theorem toMessageMetric_eq_delivery (m : Metric) : toMessageMetric m = m.delivery := by
  rcases m with ⟨name, alias, ts, isNull, value⟩
  cases alias <;> cases name <;> cases value <;> cases isNull <;>
    simp [toMessageMetric, Metric.delivery, Metric.specId] <;>
    (rename_i b; cases b <;> simp)

theorem drainIter_eq_spec (ms : List Metric) : drainIter ms = deliveredSpec ms := by
  induction ms with
  | nil => rfl
  | cons m t ih =>
    simp only [drainIter, deliveredSpec, List.filterMap_cons, toMessageMetric_eq_delivery]
    cases h : m.delivery <;> simp [ih, deliveredSpec]

/-! ### rebirth recognition -/

theorem rebirthLoop_cons_rebirth (acc : Bool) (x : Metric) (t : List Metric) (h : x.isRebirth = true) :
    rebirthLoop acc (x :: t) = rebirthLoop (rebirthVal x) t := by
  rcases x with ⟨name, alias, ts, isNull, value⟩
  simp [Metric.isRebirth] at h
  obtain ⟨ha, hn⟩ := h
  subst ha; subst hn
  simp [rebirthLoop, rebirthVal]

theorem rebirthLoop_cons_other (acc : Bool) (x : Metric) (t : List Metric) (h : x.isRebirth = false) :
    rebirthLoop acc (x :: t) = rebirthLoop acc t := by
  rcases x with ⟨name, alias, ts, isNull, value⟩
  cases alias with
  | some a => simp [rebirthLoop]
  | none =>
    cases name with
    | none => simp [rebirthLoop]
    | some n =>
      have : n ≠ rebirthName := by
        intro e; subst e; simp [Metric.isRebirth] at h
      simp [rebirthLoop, this]

theorem rebirthLoop_eq (acc : Bool) (ms : List Metric) :
    rebirthLoop acc ms =
      match (ms.filter Metric.isRebirth).getLast? with
      | none => acc
      | some m => rebirthVal m := by
  induction ms generalizing acc with
  | nil => rfl
  | cons x t ih =>
    cases h : x.isRebirth with
    | false => rw [rebirthLoop_cons_other _ _ _ h, ih]; simp [h]
    | true =>
      rw [rebirthLoop_cons_rebirth _ _ _ h, ih]
      simp only [List.filter_cons, h, if_true]
      rw [List.getLast?_cons]
      cases (List.filter Metric.isRebirth t).getLast? <;> simp

theorem rebirthVal_iff (m : Metric) : rebirthVal m = true ↔ m.value = some (.bool true) := by
  rcases m with ⟨name, alias, ts, isNull, value⟩
  cases value with
  | none => simp [rebirthVal]
  | some v => cases v <;> simp [rebirthVal]

theorem rebirthRequested_iff (ms : List Metric) : rebirthRequested ms = true ↔ RebirthRequested ms := by
  unfold rebirthRequested RebirthRequested
  rw [rebirthLoop_eq]
  cases h : (ms.filter Metric.isRebirth).getLast? with
  | none => simp
  | some m => simp [rebirthVal_iff]

/-! ### managers -/

theorem cbFor_all (t : Option Nat) (m : SMetric) (mm : MessageMetric) :
    ∀ e ∈ cbFor t m mm, e.isCb = true ∧ e.target? = some t := by
  intro e he
  unfold cbFor at he
  split at he
  · split at he <;> simp at he
    subst he; simp [Eff.isCb, Eff.target?]
  · simp at he; subst he; simp [Eff.isCb, Eff.target?]

theorem callbacks_all (g : Mgr) (t : Option Nat) (mms : List MessageMetric) :
    ∀ e ∈ g.callbacks t mms, e.isCb = true ∧ e.target? = some t := by
  induction mms with
  | nil => intro e he; simp [Mgr.callbacks] at he
  | cons mm r ih =>
    intro e he
    unfold Mgr.callbacks at he
    split at he
    · rcases List.mem_append.mp he with h | h
      · exact cbFor_all _ _ _ e h
      · exact ih e h
    · exact ih e he

/-- what a CMD message makes a manager do -/
def cmdEffs (target : Option Nat) (g : Mgr) (kind : MsgKind) (p : Payload) : List Eff :=
  if kind = .cmd then
    match p.ts with
    | some t => deliver target g t p.metrics
    | none => []
  else []

theorem cmdEffs_filter_isCmd (target : Option Nat) (g : Mgr) (kind : MsgKind) (p : Payload) :
    (cmdEffs target g kind p).filter Eff.isCmd = expectedCmd target kind p := by
  unfold cmdEffs expectedCmd
  by_cases hk : kind = .cmd
  · cases hts : p.ts with
    | none => simp [hk]
    | some t =>
      simp only [hk, if_true, deliver, List.filter_cons, Eff.isCmd, drainIter_eq_spec]
      congr 1
      apply List.filter_eq_nil_iff.mpr
      intro e he
      have := (callbacks_all _ _ _ e he).1
      cases e <;> simp_all [Eff.isCb, Eff.isCmd]
  · simp [hk]

theorem cmdEffs_all (target : Option Nat) (g : Mgr) (kind : MsgKind) (p : Payload) :
    ∀ e ∈ cmdEffs target g kind p, (e.isCmd = true ∨ e.isCb = true) ∧ e.target? = some target := by
  intro e he
  unfold cmdEffs at he
  split at he
  · split at he
    · simp only [deliver, List.mem_cons] at he
      rcases he with h | h
      · subst h; simp [Eff.isCmd, Eff.target?]
      · have := callbacks_all _ _ _ e h
        exact ⟨Or.inr this.1, this.2⟩
    · simp at he
  · simp at he

theorem cmdEffs_no_birth (target : Option Nat) (g : Mgr) (kind : MsgKind) (p : Payload) :
    ∀ e ∈ cmdEffs target g kind p, e.isBirth = false ∧ e ≠ .panic := by
  intro e he
  have := cmdEffs_all target g kind p e he
  cases e <;> simp_all [Eff.isCmd, Eff.isCb, Eff.isBirth, Eff.isNBirth, Eff.isDevHandOver, Eff.target?]

/-! ### the node task -/

/-- `Honoured` as a Boolean -/
def honouredB (st : St) (kind : MsgKind) (p : Payload) : Bool :=
  kind == .cmd && p.ts.isSome && rebirthRequested p.metrics && st.birthed &&
    decide (st.cooldown ≤ st.wall - st.last)

theorem honouredB_iff (st : St) (kind : MsgKind) (p : Payload) :
    honouredB st kind p = true ↔ Honoured st kind p := by
  simp [honouredB, Honoured, rebirthRequested_iff, and_assoc]

theorem nodeBirth_effs (decs : List Dec) (ty : BirthTy) (sl : Option Nat) (st : St) :
    (nodeBirth decs ty sl st).effs = [.nbirth 0 st.bdSeq] := by
  unfold nodeBirth; split <;> rfl

theorem onNodeMessage_effs (decs : List Dec) (kind : MsgKind) (p : Payload) (st : St)
    (h : st.last ≤ st.wall) :
    (onNodeMessage decs kind p st).effs =
      cmdEffs none st.nodeMgr kind p ++ (if honouredB st kind p then [.nbirth 0 st.bdSeq] else []) := by
  unfold onNodeMessage cmdEffs honouredB
  by_cases hk : kind = .cmd
  · subst hk
    cases hts : p.ts with
    | none => simp
    | some t =>
      cases hr : rebirthRequested p.metrics with
      | false => simp
      | true =>
        have h1 : ¬ st.wall < st.last := by omega
        by_cases hc : st.wall - st.last < st.cooldown
        · have : ¬ st.cooldown ≤ st.wall - st.last := by omega
          simp [h1, hc, this]
        · have : st.cooldown ≤ st.wall - st.last := by omega
          cases hb : st.birthed with
          | false => simp [h1, hc]
          | true => simp [h1, hc, this, nodeBirth_effs]
  · simp [hk]

theorem nodeBirth_frame (decs : List Dec) (ty : BirthTy) (sl : Option Nat) (st : St) :
    let r := nodeBirth decs ty sl st
    r.st.devs = st.devs ∧ r.st.alias = st.alias ∧ r.st.online = st.online ∧ r.st.bdSeq = st.bdSeq ∧
    r.st.wall = st.wall ∧ r.st.cooldown = st.cooldown ∧ r.st.dead = st.dead ∧ r.st.last = st.last ∧
    r.st.queue = st.queue ∧ r.st.seq = 0 ∧ r.st.epoch = (st.epoch + 1) % 18446744073709551616 := by
  unfold nodeBirth; split <;> simp

theorem nodeBirth_accept (decs : List Dec) (ty : BirthTy) (sl : Option Nat) (st : St)
    (h : decs.head?.getD .accept = .accept) :
    let r := nodeBirth decs ty sl st
    r.bc = [.birth ty r.st.epoch] ∧ r.st.birthed = true ∧ r.st.parked = st.parked := by
  unfold nodeBirth; rw [h]; simp

theorem nodeBirth_reject (decs : List Dec) (ty : BirthTy) (sl : Option Nat) (st : St)
    (h : decs.head?.getD .accept = .reject) :
    let r := nodeBirth decs ty sl st
    r.bc = [] ∧ r.st.birthed = false ∧ r.st.parked = st.parked := by
  unfold nodeBirth; rw [h]; simp

theorem nodeBirth_park (decs : List Dec) (ty : BirthTy) (sl : Option Nat) (st : St)
    (h : decs.head?.getD .accept = .park) :
    let r := nodeBirth decs ty sl st
    r.bc = [] ∧ r.st.birthed = false ∧ r.st.parked = some { ty := ty, setLast := sl } := by
  unfold nodeBirth; rw [h]; simp

theorem onNodeMessage_frame (decs : List Dec) (kind : MsgKind) (p : Payload) (st : St) :
    let r := onNodeMessage decs kind p st
    r.st.devs = st.devs ∧ r.st.alias = st.alias ∧ r.st.online = st.online ∧ r.st.bdSeq = st.bdSeq ∧
    r.st.wall = st.wall ∧ r.st.cooldown = st.cooldown ∧ r.st.queue = st.queue := by
  have nb := nodeBirth_frame decs .rebirth (some st.wall) st
  unfold onNodeMessage
  by_cases hk : kind = .cmd
  · subst hk
    cases hts : p.ts with
    | none => simp
    | some t =>
      cases hr : rebirthRequested p.metrics with
      | false => simp
      | true =>
        by_cases h1 : st.wall < st.last
        · simp [h1]
        · by_cases hc : st.wall - st.last < st.cooldown
          · simp [h1, hc]
          · cases hb : st.birthed with
            | false => simp [h1, hc]
            | true =>
              simp only [h1, hc, Bool.not_true, Bool.false_eq_true, if_false, ne_eq, not_true_eq_false]
              split <;> simp_all
  · simp [hk]

/-- a command that is not honoured changes nothing but (possibly) the request time -/
theorem onNodeMessage_not_honoured (decs : List Dec) (kind : MsgKind) (p : Payload) (st : St)
    (h : st.last ≤ st.wall) (hn : honouredB st kind p = false) :
    let r := onNodeMessage decs kind p st
    r.bc = [] ∧ r.st.birthed = st.birthed ∧ r.st.seq = st.seq ∧ r.st.parked = st.parked ∧
    r.st.dead = st.dead ∧ r.st.nodeMgr = st.nodeMgr ∧ (r.st.last = st.last ∨ r.st.last = st.wall) ∧
    r.decs = decs := by
  unfold honouredB at hn
  unfold onNodeMessage
  by_cases hk : kind = .cmd
  · subst hk
    cases hts : p.ts with
    | none => simp
    | some t =>
      cases hr : rebirthRequested p.metrics with
      | false => simp
      | true =>
        have h1 : ¬ st.wall < st.last := by omega
        by_cases hc : st.wall - st.last < st.cooldown
        · simp [h1, hc]
        · have : st.cooldown ≤ st.wall - st.last := by omega
          cases hb : st.birthed with
          | false => simp [h1, hc]
          | true => simp [hts, hr, hb, this] at hn
  · simp [hk]

theorem onNodeMessage_honoured (decs : List Dec) (kind : MsgKind) (p : Payload) (st : St)
    (h : st.last ≤ st.wall) (hh : honouredB st kind p = true) :
    onNodeMessage decs kind p st =
      (let r := nodeBirth decs .rebirth (some st.wall) st
       let st2 : St := if r.st.parked.isSome then r.st else { r.st with last := st.wall }
       { r with st := st2, effs := cmdEffs none st.nodeMgr kind p ++ r.effs }) := by
  unfold honouredB at hh
  simp only [Bool.and_eq_true, beq_iff_eq, decide_eq_true_eq] at hh
  obtain ⟨⟨⟨⟨hk, hts⟩, hr⟩, hb⟩, hc⟩ := hh
  subst hk
  obtain ⟨t, hts⟩ := Option.isSome_iff_exists.mp hts
  unfold onNodeMessage cmdEffs
  have h1 : ¬ st.wall < st.last := by omega
  have h2 : ¬ st.wall - st.last < st.cooldown := by omega
  simp [hts, hr, h1, h2, hb]

/-! ### the device tasks -/

theorem devPhase_nil (alias : Option Nat → Bytes → Nat) (o b : Bool) (cur seq : Nat) (devs : List Dev) :
    devPhase alias o b cur [] seq devs = (seq, devs, []) := by
  induction devs generalizing seq with
  | nil => rfl
  | cons d ds ih => simp [devPhase, devRun, ih]

theorem devRun_rebirth (alias : Bytes → Nat) (cur seq : Nat) (d : Dev) :
    (devRun alias true true cur seq d [.birth .rebirth cur]).1 = (if d.enabled then (seq + 1) % 256 else seq) ∧
    (devRun alias true true cur seq d [.birth .rebirth cur]).2.2 =
      (if d.enabled then [.dbirth d.name ((seq + 1) % 256)] else []) ∧
    (devRun alias true true cur seq d [.birth .rebirth cur]).2.1.name = d.name ∧
    (devRun alias true true cur seq d [.birth .rebirth cur]).2.1.enabled = d.enabled := by
  cases he : d.enabled <;>
    simp [devRun, devHandle, devBirth, getNextSeq, he]

/-- a rebirth broadcast on a birthed node: one DBIRTH per enabled device, in the order of the
device tasks, numbered consecutively -/
theorem devPhase_rebirth (alias : Option Nat → Bytes → Nat) (cur seq k : Nat) (devs : List Dev)
    (h : seq % 256 = k % 256) :
    (devPhase alias true true cur [.birth .rebirth cur] seq devs).2.2 =
      ((devs.filter (·.enabled)).zipIdx k).map fun p => Eff.dbirth p.1.name ((p.2 + 1) % 256) := by
  induction devs generalizing seq k with
  | nil => rfl
  | cons d ds ih =>
    have hr := devRun_rebirth (alias (some d.name)) cur seq d
    simp only [devPhase]
    rw [hr.2.1]
    cases he : d.enabled with
    | false =>
      rw [hr.1]; simp only [he, Bool.false_eq_true, if_false, List.nil_append]
      rw [ih seq k h]; simp [he]
    | true =>
      rw [hr.1]; simp only [he, if_true]
      rw [ih ((seq + 1) % 256) (k + 1) (by omega)]
      simp only [List.filter_cons, he, if_true, List.zipIdx_cons, List.map_cons, List.singleton_append]
      congr 2
      omega

theorem devPhase_names (alias : Option Nat → Bytes → Nat) (o b : Bool) (cur : Nat) (bc : List DevMsg)
    (seq : Nat) (devs : List Dev) :
    (devPhase alias o b cur bc seq devs).2.1.map (·.name) = devs.map (·.name) := by
  have hh : ∀ (al : Bytes → Nat) (s : Nat) (d : Dev) (m : DevMsg), (devHandle al o b cur s d m).2.1.name = d.name := by
    intro al s d m
    cases m <;> simp only [devHandle, devBirth, devDeath] <;> (repeat' split) <;> simp
  have hr : ∀ (al : Bytes → Nat) (l : List DevMsg) (s : Nat) (d : Dev), (devRun al o b cur s d l).2.1.name = d.name := by
    intro al l
    induction l with
    | nil => intro s d; rfl
    | cons m t ih => intro s d; simp only [devRun]; rw [ih, hh]
  induction devs generalizing seq with
  | nil => rfl
  | cons d ds ih => simp [devPhase, hr, ih]

/-! ### one NCMD step -/

theorem nodeRun_single (decs : List Dec) (st : St) (i : NodeIn) (hd : st.dead = false)
    (hp : st.parked = none) :
    nodeRun decs st [i] =
      { st := (nodeHandle decs st i).st, effs := (nodeHandle decs st i).effs,
        bc := (nodeHandle decs st i).bc, decs := (nodeHandle decs st i).decs } := by
  simp [nodeRun, hd, hp]

/-- the DBIRTH part of the birth sequence -/
def dbirthSeq (devs : List Dev) : List Eff :=
  (devs.filter (·.enabled)).zipIdx.map fun p => Eff.dbirth p.1.name ((p.2 + 1) % 256)

theorem step_ncmd_effs (decs : List Dec) (kind : MsgKind) (p : Payload) (st : St)
    (hr : st.Ready) (hi : st.Inv) :
    (step decs st (.node (.msg kind p))).2 =
      cmdEffs none st.nodeMgr kind p ++
        (if honouredB st kind p then
          .nbirth 0 st.bdSeq :: (if decs.head?.getD .accept = .accept then dbirthSeq st.devs else [])
         else []) := by
  obtain ⟨hd, hp, hl⟩ := hr
  simp only [step, nodeRun_single decs st _ hd hp, nodeHandle, finish]
  cases hh : honouredB st kind p with
  | false =>
    have h1 := onNodeMessage_not_honoured decs kind p st hl hh
    have h2 := onNodeMessage_effs decs kind p st hl
    simp only [h1.1, devPhase_nil, h2, hh]
    simp
  | true =>
    have hb : st.birthed = true := ((honouredB_iff st kind p).mp hh).2.2.2.1
    have ho : st.online = true := hi.1 hb
    rw [onNodeMessage_honoured decs kind p st hl hh]
    cases hdec : decs.head?.getD .accept with
    | accept =>
      simp only [nodeBirth, hdec, hp, Option.isSome_none, Bool.false_eq_true, if_false, if_true, ho]
      rw [devPhase_rebirth st.alias _ 0 0 st.devs rfl]
      simp [dbirthSeq]
    | reject =>
      simp only [nodeBirth, hdec, hp, Option.isSome_none, Bool.false_eq_true, if_false, devPhase_nil]
      simp
    | park =>
      simp only [nodeBirth, hdec, Option.isSome_some, if_true, devPhase_nil]
      simp

theorem step_ncmd_state (decs : List Dec) (kind : MsgKind) (p : Payload) (st : St)
    (hr : st.Ready) :
    let st' := (step decs st (.node (.msg kind p))).1
    st'.bdSeq = st.bdSeq ∧ st'.online = st.online ∧ st'.wall = st.wall ∧ st'.cooldown = st.cooldown ∧
    st'.dead = false ∧ st'.devs.map (·.name) = st.devs.map (·.name) ∧
    (honouredB st kind p = false →
      st'.birthed = st.birthed ∧ st'.seq = st.seq ∧ st'.parked = none ∧ st'.devs = st.devs ∧
      (st'.last = st.last ∨ st'.last = st.wall)) ∧
    (honouredB st kind p = true →
      (decs.head?.getD .accept = .accept → st'.birthed = true ∧ st'.last = st.wall ∧ st'.parked = none) ∧
      (decs.head?.getD .accept = .reject → st'.birthed = false ∧ st'.last = st.wall ∧ st'.parked = none) ∧
      (decs.head?.getD .accept = .park → st'.birthed = false ∧ st'.last = st.last ∧
        st'.parked = some { ty := .rebirth, setLast := some st.wall })) := by
  obtain ⟨hd, hp, hl⟩ := hr
  have hf := onNodeMessage_frame decs kind p st
  simp only [step, nodeRun_single decs st _ hd hp, nodeHandle, finish, devPhase_names]
  refine ⟨hf.2.2.2.1, hf.2.2.1, hf.2.2.2.2.1, hf.2.2.2.2.2.1, ?_, congrArg _ hf.1, ?_, ?_⟩
  · cases hh : honouredB st kind p with
    | false => rw [(onNodeMessage_not_honoured decs kind p st hl hh).2.2.2.2.1]; exact hd
    | true =>
      rw [onNodeMessage_honoured decs kind p st hl hh]
      cases hdec : decs.head?.getD .accept <;> simp [nodeBirth, hdec, hp, hd]
  · intro hh
    have h1 := onNodeMessage_not_honoured decs kind p st hl hh
    simp only [h1.1, devPhase_nil]
    exact ⟨h1.2.1, h1.2.2.1, by rw [h1.2.2.2.1]; exact hp, hf.1, h1.2.2.2.2.2.2.1⟩
  · intro hh
    rw [onNodeMessage_honoured decs kind p st hl hh]
    refine ⟨?_, ?_, ?_⟩ <;> intro hdec <;> simp [nodeBirth, hdec, hp]

/-! ### one DCMD step -/

theorem devCmd_eq (d : Dev) (kind : MsgKind) (p : Payload) :
    devCmd d kind p = cmdEffs (some d.name) d.mgr kind p := by
  unfold devCmd cmdEffs
  by_cases hk : kind = .cmd
  · cases hts : p.ts <;> simp [hk]
  · simp [hk]

theorem devOne_cmd (alias : Option Nat → Bytes → Nat) (o b : Bool) (cur : Nat) (name : Nat) (kind : MsgKind)
    (p : Payload) (seq : Nat) (devs : List Dev) :
    devOne alias o b cur name (.cmd kind p) seq devs =
      (seq, devs, match devs.find? (fun d => d.name == name) with
        | some d => cmdEffs (some name) d.mgr kind p
        | none => []) := by
  induction devs with
  | nil => rfl
  | cons d ds ih =>
    unfold devOne
    by_cases h : d.name = name
    · subst h
      simp [devHandle, devCmd_eq]
    · have : (d.name == name) = false := by simpa using h
      simp only [h, if_false, ih, List.find?_cons, this]

theorem step_dcmd (decs : List Dec) (st : St) (d : Nat) (kind : MsgKind) (p : Payload) :
    step decs st (.dev d (.cmd kind p)) =
      (st, match st.devs.find? (fun x => x.name == d) with
        | some x => cmdEffs (some d) x.mgr kind p
        | none => []) := by
  simp [step, devOne_cmd]

/-! ### invariants -/

theorem nodeBirth_good (decs : List Dec) (ty : BirthTy) (sl : Option Nat) (st : St)
    (hg : st.Good) (hpk : st.parked = none) (ho : st.online = true)
    (hsl : ∀ now, sl = some now → now ≤ st.wall) : (nodeBirth decs ty sl st).st.Good := by
  obtain ⟨⟨h1, h2⟩, hd, hl, hp⟩ := hg
  unfold nodeBirth
  split <;> simp_all [St.Good, St.Inv]
  intro pk now e h; subst e; exact hsl now h

theorem onOnline_good (decs : List Dec) (subOk : Bool) (st : St) (hg : st.Good)
    (hpk : st.parked = none) : (onOnline decs subOk st).st.Good := by
  unfold onOnline
  split
  · exact hg
  · rename_i ho
    split
    · have : ({ st with online := true } : St).Good := by
        obtain ⟨⟨h1, h2⟩, hd, hl, hp⟩ := hg
        simp_all [St.Good, St.Inv]
      exact nodeBirth_good decs .birth none _ this hpk rfl (by simp)
    · obtain ⟨⟨h1, h2⟩, hd, hl, hp⟩ := hg
      simp_all [St.Good, St.Inv]

theorem onOffline_good (decs : List Dec) (st : St) (hg : st.Good) (hpk : st.parked = none) :
    (onOffline decs st).st.Good := by
  obtain ⟨⟨h1, h2⟩, hd, hl, hp⟩ := hg
  unfold onOffline
  split <;> simp_all [St.Good, St.Inv]

theorem onNodeMessage_good (decs : List Dec) (kind : MsgKind) (p : Payload) (st : St) (hg : st.Good)
    (hpk : st.parked = none) : (onNodeMessage decs kind p st).st.Good := by
  have hl : st.last ≤ st.wall := hg.2.2.1
  cases hh : honouredB st kind p with
  | false =>
    have h1 := onNodeMessage_not_honoured decs kind p st hl hh
    have hf := onNodeMessage_frame decs kind p st
    obtain ⟨⟨i1, i2⟩, hd, _, hp⟩ := hg
    refine ⟨⟨?_, ?_⟩, ?_, ?_, ?_⟩
    · rw [h1.2.1, hf.2.2.1]; exact i1
    · rw [h1.2.2.2.1, hpk]; simp
    · rw [h1.2.2.2.2.1]; exact hd
    · rw [hf.2.2.2.2.1]; rcases h1.2.2.2.2.2.2.1 with e | e <;> rw [e] <;> omega
    · rw [h1.2.2.2.1, hpk]; simp
  | true =>
    have hb : st.birthed = true := ((honouredB_iff st kind p).mp hh).2.2.2.1
    have ho : st.online = true := hg.1.1 hb
    rw [onNodeMessage_honoured decs kind p st hl hh]
    have hn := nodeBirth_good decs .rebirth (some st.wall) st hg hpk ho (by simp)
    have hfr := nodeBirth_frame decs .rebirth (some st.wall) st
    simp only
    split
    · exact hn
    · obtain ⟨⟨i1, i2⟩, hd, _, hp⟩ := hn
      refine ⟨⟨i1, i2⟩, hd, ?_, hp⟩
      show st.wall ≤ (nodeBirth decs BirthTy.rebirth (some st.wall) st).st.wall
      rw [hfr.2.2.2.2.1]; exact Nat.le_refl _

theorem nodeHandle_good (decs : List Dec) (st : St) (i : NodeIn) (hg : st.Good)
    (hpk : st.parked = none) : (nodeHandle decs st i).st.Good := by
  cases i with
  | online s => exact onOnline_good decs s st hg hpk
  | offline => exact onOffline_good decs st hg hpk
  | msg k p => exact onNodeMessage_good decs k p st hg hpk

theorem nodeRun_good (decs : List Dec) (st : St) (ins : List NodeIn) (hg : st.Good) :
    (nodeRun decs st ins).st.Good := by
  induction ins generalizing decs st with
  | nil => exact hg
  | cons i rest ih =>
    unfold nodeRun
    split
    · exact hg
    · split
      · obtain ⟨⟨i1, i2⟩, hd, hl, hp⟩ := hg
        exact ⟨⟨i1, i2⟩, hd, hl, hp⟩
      · rename_i hp
        have hpk : st.parked = none := by
          cases h : st.parked <;> simp_all
        exact ih _ _ (nodeHandle_good decs st i hg hpk)

theorem resolveParked_good (decs : List Dec) (ok : Bool) (st : St) (hg : st.Good) :
    (resolveParked decs ok st).st.Good := by
  unfold resolveParked
  split
  · exact hg
  · rename_i pk hpk
    simp only
    apply nodeRun_good
    obtain ⟨⟨i1, i2⟩, hd, hl, hp⟩ := hg
    have hon := (i2 (by simp [hpk])).2
    cases hs : pk.setLast with
    | none => simp_all [St.Good, St.Inv]
    | some now =>
      have := hp pk now hpk hs
      simp_all [St.Good, St.Inv]

/-- `Good` does not look at `seq` and `devs` -/
theorem good_of_frame (st st' : St) (hg : st.Good) (h1 : st'.online = st.online)
    (h2 : st'.birthed = st.birthed) (h3 : st'.dead = st.dead) (h4 : st'.last = st.last)
    (h5 : st'.wall = st.wall) (h6 : st'.parked = st.parked) : st'.Good := by
  obtain ⟨⟨i1, i2⟩, hd, hl, hp⟩ := hg
  refine ⟨⟨?_, ?_⟩, ?_, ?_, ?_⟩
  · rw [h1, h2]; exact i1
  · rw [h1, h2, h6]; exact i2
  · rw [h3]; exact hd
  · rw [h4, h5]; exact hl
  · rw [h5, h6]; exact hp

theorem finish_good (r : NodeOut) (hg : r.st.Good) : (finish r).1.Good :=
  good_of_frame r.st _ hg rfl rfl rfl rfl rfl rfl

theorem step_good (decs : List Dec) (st : St) (op : Op) (hg : st.Good) (hw : op.WallOk st) :
    (step decs st op).1.Good := by
  cases op with
  | node i => exact finish_good _ (nodeRun_good decs st [i] hg)
  | resolve ok => exact finish_good _ (resolveParked_good decs ok st hg)
  | dev d m => exact good_of_frame st _ hg rfl rfl rfl rfl rfl rfl
  | unreg d => exact good_of_frame st _ hg rfl rfl rfl rfl rfl rfl
  | setWall w =>
    obtain ⟨⟨i1, i2⟩, hd, hl, hp⟩ := hg
    have hw' : st.wall ≤ w := hw
    refine ⟨⟨i1, i2⟩, hd, Nat.le_trans hl hw', ?_⟩
    intro pk now h1 h2
    exact Nat.le_trans (hp pk now h1 h2) hw'
  | reg t m =>
    cases t with
    | none => exact good_of_frame st _ hg rfl rfl rfl rfl rfl rfl
    | some d => exact good_of_frame st _ hg rfl rfl rfl rfl rfl rfl

theorem runSteps_good (st : St) (h : List (List Dec × Op)) (hg : st.Good) (hm : MonotoneClock st h) :
    (runSteps st h).Good := by
  induction h generalizing st with
  | nil => exact hg
  | cons x t ih =>
    obtain ⟨decs, op⟩ := x
    exact ih _ (step_good decs st op hg hm.1) hm.2

theorem init_good (cooldown wall : Nat) (devs : List Dev) (alias : Option Nat → Bytes → Nat) :
    (St.init cooldown wall devs alias).Good := by
  simp [St.init, St.Good, St.Inv]

/-- a good, unblocked state is ready -/
theorem ready_of_good (st : St) (hg : st.Good) (hp : st.parked = none) : st.Ready :=
  ⟨hg.2.1, hp, hg.2.2.1⟩

/-! ### SimpleMetricManager -/

theorem mem_cbFor (t : Option Nat) (m : SMetric) (mm : MessageMetric) (e : Eff) :
    e ∈ cbFor t m mm ↔ ∃ v, convert m.ty mm.value = some v ∧ e = .cb t m.name v := by
  unfold cbFor convert
  cases hv : mm.value with
  | none => simp
  | some pv =>
    simp only
    cases hf : fromProto m.ty pv <;> simp

theorem find?_key_of_nodup {α β : Type} [DecidableEq α] (l : List (α × β)) (k : α) (b : β)
    (hnd : (l.map (·.1)).Nodup) (hm : (k, b) ∈ l) : l.find? (fun e => e.1 == k) = some (k, b) := by
  induction l with
  | nil => simp at hm
  | cons x r ih =>
    simp only [List.map_cons, List.nodup_cons] at hnd
    rcases List.mem_cons.mp hm with h | h
    · subst h; simp
    · have hne : x.1 ≠ k := by
        intro e
        apply hnd.1
        rw [e]
        exact List.mem_map.mpr ⟨(k, b), h, rfl⟩
      have : (x.1 == k) = false := by simpa using hne
      simp only [List.find?_cons, this]
      exact ih hnd.2 h

theorem callbacks_mem (g : Mgr) (t : Option Nat) (mms : List MessageMetric)
    (hnd : (g.lookup.map (·.1)).Nodup) (e : Eff) :
    e ∈ g.callbacks t mms ↔
      ∃ mm ∈ mms, ∃ m v, (mm.id, m) ∈ g.lookup ∧ convert m.ty mm.value = some v ∧ e = .cb t m.name v := by
  induction mms with
  | nil => simp [Mgr.callbacks]
  | cons mm r ih =>
    unfold Mgr.callbacks
    cases hf : g.lookup.find? (fun e => e.1 == mm.id) with
    | none =>
      simp only [ih, List.mem_cons]
      constructor
      · rintro ⟨mm', h1, h2⟩; exact ⟨mm', Or.inr h1, h2⟩
      · rintro ⟨mm', h1 | h1, m, v, h2, h3⟩
        · subst h1
          have := find?_key_of_nodup g.lookup mm'.id m hnd h2
          rw [this] at hf; cases hf
        · exact ⟨mm', h1, m, v, h2, h3⟩
    | some x =>
      have hx := List.find?_some hf
      have hxm := List.mem_of_find?_eq_some hf
      have hid : x.1 = mm.id := by simpa using hx
      simp only [List.mem_append, mem_cbFor, ih, List.mem_cons]
      constructor
      · rintro (⟨v, h1, h2⟩ | ⟨mm', h1, h2⟩)
        · refine ⟨mm, Or.inl rfl, x.2, v, ?_, h1, h2⟩
          rw [← hid]; exact hxm
        · exact ⟨mm', Or.inr h1, h2⟩
      · rintro ⟨mm', h1 | h1, m, v, h2, h3, h4⟩
        · subst h1
          have := find?_key_of_nodup g.lookup mm'.id m hnd h2
          rw [this] at hf
          cases hf
          exact Or.inl ⟨v, h3, h4⟩
        · exact Or.inr ⟨mm', h1, m, v, h2, h3, h4⟩

theorem mem_lookup_initialiseBirth (alias : Bytes → Nat) (g : Mgr) (id : MetricId) (m : SMetric) :
    (id, m) ∈ (g.initialiseBirth alias).lookup ↔ m ∈ g.metrics ∧ m.hasCb = true ∧ id = m.id alias := by
  simp only [Mgr.initialiseBirth, List.mem_map, List.mem_filter]
  constructor
  · rintro ⟨a, ⟨h1, h2⟩, h3⟩
    cases h3; exact ⟨h1, h2, rfl⟩
  · rintro ⟨h1, h2, h3⟩
    exact ⟨m, ⟨h1, h2⟩, by rw [h3]⟩

theorem register_lookup (g : Mgr) (m : SMetric) : (g.register m).lookup = g.lookup := by
  unfold Mgr.register; split <;> rfl

/-! ### superseded birth notifications -/

/-- a birth notification of a node birth that is no longer the current one is skipped -/
theorem devHandle_stale (alias : Bytes → Nat) (o b : Bool) (cur seq : Nat) (d : Dev) (ty : BirthTy)
    (e : Nat) (h : e ≠ cur) : devHandle alias o b cur seq d (.birth ty e) = (seq, d, []) := by
  simp only [devHandle, devBirth, getNextSeq]
  split
  · rfl
  · split
    · rfl
    · split <;> simp_all

theorem devPhase_stale (alias : Option Nat → Bytes → Nat) (o b : Bool) (cur : Nat) (ty : BirthTy)
    (e : Nat) (h : e ≠ cur) (bc : List DevMsg) (seq : Nat) (devs : List Dev) :
    devPhase alias o b cur (.birth ty e :: bc) seq devs = devPhase alias o b cur bc seq devs := by
  induction devs generalizing seq with
  | nil => rfl
  | cons d ds ih =>
    simp only [devPhase, devRun, devHandle_stale _ o b cur seq d ty e h, List.nil_append]
    rw [ih]

theorem epoch_succ_ne (e : Nat) : e ≠ (e + 1) % 18446744073709551616 := by omega

theorem resolveParked_eq (decs : List Dec) (ok : Bool) (st : St) (pk : Parked)
    (hpk : st.parked = some pk) :
    resolveParked decs ok st =
      { (nodeRun decs (st.resumed pk ok) st.queue) with
        bc := (if ok then [DevMsg.birth pk.ty st.epoch] else []) ++
          (nodeRun decs (st.resumed pk ok) st.queue).bc } := by
  unfold resolveParked
  rw [hpk]
  cases hs : pk.setLast <;> simp [St.resumed, hs]

/-- the scenario of a rebirth command queued behind a parked node birth -/
theorem resolve_then_rebirth (decs : List Dec) (st : St) (pk : Parked) (kind : MsgKind) (p : Payload)
    (hg : st.Good) (hpk : st.parked = some pk) (hq : st.queue = [.msg kind p])
    (hacc : decs.head?.getD .accept = .accept)
    (hh : Honoured (st.resumed pk true) kind p) :
    (step decs st (.resolve true)).2 =
      cmdEffs none st.nodeMgr kind p ++ (.nbirth 0 st.bdSeq :: dbirthSeq st.devs) := by
  obtain ⟨⟨i1, i2⟩, hd, hl, hp⟩ := hg
  have hon : st.online = true := (i2 (by simp [hpk])).2
  have hb := (honouredB_iff _ kind p).mpr hh
  have hl2 : (st.resumed pk true).last ≤ (st.resumed pk true).wall := by
    simp only [St.resumed]
    cases hs : pk.setLast with
    | none => simpa using hl
    | some now => simpa using hp pk now hpk hs
  have key : (finish { (nodeRun decs (st.resumed pk true) [.msg kind p]) with
        bc := [DevMsg.birth pk.ty st.epoch] ++ (nodeRun decs (st.resumed pk true) [.msg kind p]).bc }).2 =
      cmdEffs none st.nodeMgr kind p ++ (.nbirth 0 st.bdSeq :: dbirthSeq st.devs) := by
    rw [nodeRun_single _ _ _ (by simpa [St.resumed] using hd) (by simp [St.resumed])]
    simp only [nodeHandle, finish]
    rw [onNodeMessage_honoured decs kind p _ hl2 hb]
    simp only [St.resumed, nodeBirth, hacc, Option.isSome_none, Bool.false_eq_true, if_false, hon,
      List.singleton_append]
    rw [devPhase_stale _ _ _ _ _ _ (epoch_succ_ne st.epoch)]
    rw [devPhase_rebirth st.alias _ 0 0 st.devs rfl]
    simp [dbirthSeq]
  rw [step, resolveParked_eq decs true st pk hpk, hq]
  exact key


end Srad.Cmd
