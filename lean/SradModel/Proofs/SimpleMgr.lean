/-
Helper lemmas for M16 (`Props/M16.lean`): the `SimpleMetricManager` state machine of
`Model/SimpleMgr.lean`. Core Lean only.
-/
import SradModel.Model.SimpleMgrSpec
import SradModel.Proofs.Birth

namespace Srad.SimpleMgr
open Srad.Birth Srad.Codec

/-! ### lists -/

theorem filterMap_congr_mem {α β} {f g : α → Option β} :
    ∀ {l : List α}, (∀ a ∈ l, f a = g a) → l.filterMap f = l.filterMap g := by
  intro l
  induction l with
  | nil => intro _; rfl
  | cons x t ih =>
    intro h
    have hx := h x (by simp)
    have ht := ih (fun a ha => h a (by simp [ha]))
    simp only [List.filterMap_cons, hx, ht]

/-- in a list with pairwise distinct keys, searching for the key of a member finds that member -/
theorem find?_key_of_mem {α κ} [DecidableEq κ] (key : α → κ) :
    ∀ {l : List α}, (l.map key).Nodup → ∀ {p : α}, p ∈ l →
      l.find? (fun q => decide (key q = key p)) = some p := by
  intro l
  induction l with
  | nil => intro _ p hp; cases hp
  | cons x t ih =>
    intro hnd p hp
    simp only [List.map_cons, List.nodup_cons] at hnd
    rw [List.find?_cons]
    by_cases hk : key x = key p
    · simp only [hk, decide_true]
      simp only [List.mem_cons] at hp
      rcases hp with hp | hp
      · rw [hp]
      · exact absurd (hk ▸ List.mem_map.mpr ⟨p, hp, rfl⟩) hnd.1
    · simp only [hk, decide_false]
      simp only [List.mem_cons] at hp
      rcases hp with hp | hp
      · exact absurd (by rw [hp]) hk
      · exact ih hnd.2 hp

theorem nodup_of_nodup_map {α β} (f : α → β) : ∀ {l : List α}, (l.map f).Nodup → l.Nodup := by
  intro l
  induction l with
  | nil => intro _; exact List.nodup_nil
  | cons x t ih =>
    intro h
    simp only [List.map_cons, List.nodup_cons] at h
    rw [List.nodup_cons]
    exact ⟨fun hx => h.1 (List.mem_map.mpr ⟨x, hx, rfl⟩), ih h.2⟩

/-! ### `HashMap` as an association list -/

theorem collect_go (l : List (MetricId × Name)) :
    ∀ acc : List (MetricId × Name), ((acc ++ l).map (·.1)).Nodup →
      l.foldl (fun acc e => hmInsert acc e.1 e.2) acc = acc ++ l := by
  induction l with
  | nil => intro acc _; simp
  | cons e t ih =>
    intro acc hnd
    have hfresh : acc.any (fun x => decide (x.1 = e.1)) = false := by
      rw [Bool.eq_false_iff]
      intro hc
      obtain ⟨x, hx, hxe⟩ := List.any_eq_true.mp hc
      simp only [decide_eq_true_eq] at hxe
      rw [List.map_append, List.nodup_append] at hnd
      exact hnd.2.2 x.1 (List.mem_map.mpr ⟨x, hx, rfl⟩) e.1 (by simp) hxe
    have hins : hmInsert acc e.1 e.2 = acc ++ [e] := by
      unfold hmInsert
      simp [hfresh]
    simp only [List.foldl_cons, hins]
    rw [ih (acc ++ [e]) (by simpa using hnd)]
    simp

/-- collecting pairs with pairwise distinct keys keeps them all, in order -/
theorem collect_eq_self {l : List (MetricId × Name)} (h : (l.map (·.1)).Nodup) : collect l = l := by
  unfold collect
  rw [collect_go l [] (by simpa using h)]
  simp

theorem hmGet_eq_some {l : List (MetricId × Name)} (h : (l.map (·.1)).Nodup) (k : MetricId)
    (n : Name) : hmGet l k = some n ↔ (k, n) ∈ l := by
  unfold hmGet
  constructor
  · intro hg
    cases hf : l.find? (fun e => decide (e.1 = k)) with
    | none => rw [hf] at hg; cases hg
    | some p =>
      rw [hf] at hg
      simp only [Option.map_some, Option.some.injEq] at hg
      have h1 := List.find?_some hf
      simp only [decide_eq_true_eq] at h1
      have := List.mem_of_find?_eq_some hf
      rw [← h1, ← hg]
      exact this
  · intro hm
    have := find?_key_of_mem (fun e : MetricId × Name => e.1) h hm
    simp only at this
    rw [this]
    rfl

theorem hmGet_eq_none {l : List (MetricId × Name)} (k : MetricId) :
    hmGet l k = none ↔ ∀ n, (k, n) ∉ l := by
  unfold hmGet
  constructor
  · intro hg n hm
    cases hf : l.find? (fun e => decide (e.1 = k)) with
    | none =>
      have := List.find?_eq_none.mp hf (k, n) hm
      simp at this
    | some p => rw [hf] at hg; cases hg
  · intro hn
    have : l.find? (fun e => decide (e.1 = k)) = none := by
      rw [List.find?_eq_none]
      intro x hx hxe
      simp only [decide_eq_true_eq] at hxe
      exact hn x.2 (by rw [← hxe]; exact hx)
    rw [this]
    rfl

/-! ### one registration at the `BirthInitializer` -/

theorem registerMetric_entry {cfg : Cfg} {h : Name → Nat} {now : Nat} {bi bi' : Init PV} {e : Entry}
    {id : MetricId}
    (hr : registerMetric cfg h bi (details now e) (some (birthValue e)) = .ok (id, bi')) :
    ¬ Used bi id ∧ Used bi' id ∧ (∀ i, Used bi i → Used bi' i) ∧
    bi'.metrics = bi.metrics ++ [birthMetricOf now e id] ∧ IdShape e id ∧
    bi'.obj = bi.obj ∧ bi'.registry = bi.registry := by
  unfold registerMetric at hr
  split at hr
  · split at hr <;> cases hr
  · split at hr
    · rename_i id' st' hc
      simp only [Birth.Res.ok.injEq, Prod.mk.injEq] at hr
      obtain ⟨rfl, rfl⟩ := hr
      obtain ⟨hn, hm, hnames, hobj, hreg, hid⟩ := createToken_ok hc
      simp only [details] at hn hnames hid
      have hpush := pushWithId_metrics st' (intoMetric (details now e) (some (birthValue e))) id'
      obtain ⟨pm, pn, pa, prest⟩ := hpush
      rcases hid with ⟨hua, rfl, hal⟩ | ⟨hua, a, rfl, hg, hal⟩
      · refine ⟨hn, ?_, ?_, ?_, Or.inl ⟨hua, rfl⟩, ?_, ?_⟩
        · show e.name ∈ (pushWithId st' _ _).names
          rw [pn, hnames]; simp
        · intro i hi
          cases i with
          | name n => show n ∈ (pushWithId st' _ _).names; rw [pn, hnames]; simp; right; exact hi
          | alias a => show a ∈ (pushWithId st' _ _).aliases; rw [pa, hal]; exact hi
        · rw [pm, hm]
          simp [birthMetricOf, intoMetric, details, birthValue, idAlias]
        · simpa [pushWithId] using hobj
        · simpa [pushWithId] using hreg
      · refine ⟨genAlias_ok hg, ?_, ?_, ?_, Or.inr ⟨hua, a, rfl⟩, ?_, ?_⟩
        · show a ∈ (pushWithId st' _ _).aliases
          rw [pa, hal]; simp
        · intro i hi
          cases i with
          | name n => show n ∈ (pushWithId st' _ _).names; rw [pn, hnames]; simp; right; exact hi
          | alias b => show b ∈ (pushWithId st' _ _).aliases; rw [pa, hal]; simp; right; exact hi
        · rw [pm, hm]
          simp [birthMetricOf, intoMetric, details, birthValue, idAlias]
        · simpa [pushWithId] using hobj
        · simpa [pushWithId] using hreg
    · cases hr
    · cases hr

/-! ### the loop of `initialise_birth` -/

/-- what a run of the loop over `ents` that did not panic did -/
structure GoOk (cfg : Cfg) (h : Name → Nat) (now : Nat) (bi : Init PV) (ents : List Entry)
    (bi' : Init PV) (toks : List (Entry × MetricId)) : Prop where
  ents : toks.map (·.1) = ents
  metrics : bi'.metrics = bi.metrics ++ toks.map (fun p => birthMetricOf now p.1 p.2)
  fresh : ∀ id ∈ toks.map (·.2), ¬ Used bi id
  nodup : (toks.map (·.2)).Nodup
  shape : ∀ p ∈ toks, IdShape p.1 p.2
  mono : ∀ i, Used bi i → Used bi' i
  obj : bi'.obj = bi.obj

theorem birthGo_ok {cfg : Cfg} {h : Name → Nat} {now : Nat} :
    ∀ (ents : List Entry) (bi : Init PV),
      (birthGo cfg h now bi ents).2.2 = none →
      GoOk cfg h now bi ents (birthGo cfg h now bi ents).1 (birthGo cfg h now bi ents).2.1 := by
  intro ents
  induction ents with
  | nil =>
    intro bi _
    exact ⟨rfl, by simp [birthGo], by simp [birthGo], by simp [birthGo], by simp [birthGo],
      fun _ hi => hi, rfl⟩
  | cons e t ih =>
    intro bi hnone
    unfold birthGo at hnone ⊢
    cases hr : registerMetric cfg h bi (details now e) (some (birthValue e)) with
    | ok p =>
      obtain ⟨id, bi1⟩ := p
      rw [hr] at hnone
      simp only at hnone ⊢
      obtain ⟨h1, h2, h3, h4, h5, h6, _⟩ := registerMetric_entry hr
      have g := ih bi1 hnone
      refine ⟨?_, ?_, ?_, ?_, ?_, ?_, ?_⟩
      · simp [g.ents]
      · rw [g.metrics, h4]; simp
      · intro i hi
        simp only [List.map_cons, List.mem_cons] at hi
        rcases hi with hi | hi
        · rw [hi]; exact h1
        · exact fun hu => g.fresh i hi (h3 i hu)
      · simp only [List.map_cons, List.nodup_cons]
        exact ⟨fun hm => g.fresh id hm h2, g.nodup⟩
      · intro p hp
        simp only [List.mem_cons] at hp
        rcases hp with hp | hp
        · rw [hp]; exact h5
        · exact g.shape p hp
      · exact fun i hi => g.mono i (h3 i hi)
      · rw [g.obj]; exact (registerMetric_entry hr).2.2.2.2.2.1
    | err er => rw [hr] at hnone; simp at hnone
    | panic => rw [hr] at hnone; simp at hnone

/-- the entry at which the loop panicked is one of the entries -/
theorem birthGo_fail {cfg : Cfg} {h : Name → Nat} {now : Nat} :
    ∀ (ents : List Entry) (bi : Init PV) (n : Name),
      (birthGo cfg h now bi ents).2.2 = some n → n ∈ ents.map (·.name) := by
  intro ents
  induction ents with
  | nil => intro bi n hn; simp [birthGo] at hn
  | cons e t ih =>
    intro bi n hn
    unfold birthGo at hn
    cases hr : registerMetric cfg h bi (details now e) (some (birthValue e)) with
    | ok p =>
      rw [hr] at hn
      simp only at hn
      simp only [List.map_cons, List.mem_cons]
      right
      exact ih p.2 n hn
    | err er => rw [hr] at hn; simp at hn; simp [hn]
    | panic => rw [hr] at hn; simp at hn; simp [hn]

/-- the loop is `Birth.runSimple` (C11's model of `initialise_birth`) on the same entries: same
initializer, same ids, and it panics exactly when `runSimple` does -/
theorem birthGo_runSimple {cfg : Cfg} {h : Name → Nat} {now : Nat} :
    ∀ (ents : List Entry) (bi : Init PV),
      runSimple cfg h now bi (ents.map toSimple) =
        match (birthGo cfg h now bi ents).2.2 with
        | none => .ok ((birthGo cfg h now bi ents).1, (birthGo cfg h now bi ents).2.1.map (·.2))
        | some _ => .panic := by
  intro ents
  induction ents with
  | nil => intro bi; simp [birthGo, runSimple]
  | cons e t ih =>
    intro bi
    have hsame : registerMetric cfg h bi ⟨(toSimple e).name, (toSimple e).useAlias, (toSimple e).dt, now⟩
        (some (.user (toSimple e).value)) =
        registerMetric cfg h bi (details now e) (some (birthValue e)) := rfl
    simp only [List.map_cons]
    unfold runSimple birthGo
    rw [hsame]
    cases hr : registerMetric cfg h bi (details now e) (some (birthValue e)) with
    | ok p =>
      obtain ⟨id, bi1⟩ := p
      simp only
      rw [ih bi1]
      cases hf : (birthGo cfg h now bi1 t).2.2 <;> simp
    | err er => simp
    | panic => simp

theorem cmdPairs_cmdLookup (toks : List (Entry × MetricId)) :
    cmdPairs toks = cmdLookup ((toks.map (·.1)).map toSimple) (toks.map (·.2)) := by
  induction toks with
  | nil => rfl
  | cons p t ih =>
    obtain ⟨e, id⟩ := p
    simp only [cmdPairs, cmdLookup, List.map_cons, List.zip_cons_cons, List.filterMap_cons,
      List.filter_cons] at ih ⊢
    cases hcb : e.hasCb
    · simp only [toSimple, hcb, Bool.false_eq_true, if_false]
      exact ih
    · simp only [toSimple, hcb, if_true, List.map_cons]
      rw [← ih]

/-! ### iteration order -/

theorem iterOrder_perm (ms : List Entry) (order : List Name) :
    (iterOrder ms order).Perm (ms.map (·.name)) := by
  unfold iterOrder
  split
  · rename_i hp; exact List.isPerm_iff.mp hp
  · exact List.Perm.refl _

/-- the entries in iteration order are a permutation of the entries -/
theorem arrange_perm {ms : List Entry} (hnd : (ms.map (·.name)).Nodup) (order : List Name) :
    (arrange ms order).Perm ms := by
  unfold arrange
  have h1 := (iterOrder_perm ms order).filterMap (fun n => ms.find? (fun e => decide (e.name = n)))
  have h2 : (ms.map (·.name)).filterMap (fun n => ms.find? (fun e => decide (e.name = n))) = ms := by
    rw [List.filterMap_map]
    have : ms.filterMap ((fun n => ms.find? (fun e => decide (e.name = n))) ∘ (·.name)) =
        ms.filterMap some := by
      apply filterMap_congr_mem
      intro a ha
      exact find?_key_of_mem (fun e : Entry => e.name) hnd ha
    rw [this, List.filterMap_some]
  rw [h2] at h1
  exact h1

/-! ### `metric.token = Some(token)` -/

theorem setTokens_names (toks : List (Entry × MetricId)) (ms : List Entry) :
    (setTokens toks ms).map (·.name) = ms.map (·.name) := by
  unfold setTokens
  rw [List.map_map]
  apply List.map_congr_left
  intro e _
  simp only [Function.comp]
  split <;> rfl

theorem poison_names (n : Name) (ms : List Entry) : (poison n ms).map (·.name) = ms.map (·.name) := by
  unfold poison
  rw [List.map_map]
  apply List.map_congr_left
  intro e _
  simp only [Function.comp]
  split <;> rfl

/-- when every entry was birthed, every entry carries the token of this birth -/
theorem setTokens_perm {toks : List (Entry × MetricId)} {ms : List Entry}
    (hnd : (ms.map (·.name)).Nodup) (hp : (toks.map (·.1)).Perm ms) :
    (setTokens toks ms).Perm (toks.map withToken) := by
  have hkeys : (toks.map (fun q => q.1.name)).Nodup := by
    have := (hp.map (·.name)).nodup_iff.mpr hnd
    rw [List.map_map] at this
    exact this
  have h1 : (setTokens toks ms).Perm (setTokens toks (toks.map (·.1))) := by
    unfold setTokens
    exact (hp.symm.map _)
  have h2 : setTokens toks (toks.map (·.1)) = toks.map withToken := by
    unfold setTokens
    rw [List.map_map]
    apply List.map_congr_left
    intro p hpm
    simp only [Function.comp]
    rw [find?_key_of_mem (fun q : Entry × MetricId => q.1.name) hkeys hpm]
    rfl
  rw [h2] at h1
  exact h1

theorem withToken_tokens (toks : List (Entry × MetricId)) :
    (toks.map withToken).filterMap (·.token) = toks.map (·.2) := by
  rw [List.filterMap_map]
  have : ((fun e : Entry => e.token) ∘ withToken) = (some ∘ (fun p : Entry × MetricId => p.2)) := by
    funext p; rfl
  rw [this, List.filterMap_eq_map]

/-! ### the invariant of the reachable states -/

theorem Inv.empty {H} : Inv ({} : St H) :=
  ⟨by simp, by simp, by simp, by simp⟩

/-! ### every operation preserves the invariant -/

/-- a change of the entries that leaves name, handler flag and token alone -/
theorem Inv.map_entries {H} {s : St H} (g : Entry → Entry) (hn : ∀ e, (g e).name = e.name)
    (hc : ∀ e, (g e).hasCb = e.hasCb) (ht : ∀ e, (g e).token = e.token) (hi : Inv s) :
    Inv { s with metrics := s.metrics.map g } := by
  have hnames : (s.metrics.map g).map (·.name) = s.metrics.map (·.name) := by
    rw [List.map_map]; apply List.map_congr_left; intro e _; exact hn e
  have htoks : (s.metrics.map g).filterMap (·.token) = s.metrics.filterMap (·.token) := by
    rw [List.filterMap_map]; apply filterMap_congr_mem; intro e _; exact ht e
  refine ⟨by rw [hnames]; exact hi.names, fun hd => by rw [htoks]; exact hi.tokens hd,
    hi.keys, ?_⟩
  intro hd id n
  rw [hi.lookup hd id n]
  constructor
  · rintro ⟨e, he, h1, h2, h3⟩
    exact ⟨g e, List.mem_map.mpr ⟨e, he, rfl⟩, by rw [hn, h1], by rw [hc, h2], by rw [ht, h3]⟩
  · rintro ⟨e', he', h1, h2, h3⟩
    obtain ⟨e, he, rfl⟩ := List.mem_map.mp he'
    exact ⟨e, he, by rw [← hn, h1], by rw [← hc, h2], by rw [← ht, h3]⟩

theorem register_inv {H} {s s' : St H} {n : Name} {ty : STy} {v : SV} {a c b : Bool} (hi : Inv s)
    (hr : register s n ty v a c = .ok (s', b)) : Inv s' := by
  unfold register at hr
  split at hr
  · cases hr
  · split at hr
    · cases hr; exact hi
    · rename_i hd hn
      cases hr
      refine ⟨?_, ?_, hi.keys, ?_⟩
      · simp only [List.map_append, List.map_cons, List.map_nil]
        rw [List.nodup_append]
        refine ⟨hi.names, by simp, ?_⟩
        intro x hx y hy
        simp only [List.mem_singleton] at hy
        rw [hy]; intro hxy; rw [hxy] at hx; exact hn hx
      · intro hd'
        simp only [List.filterMap_append, List.filterMap_cons, List.filterMap_nil, List.append_nil]
        exact hi.tokens hd'
      · intro hd' id m
        rw [hi.lookup hd' id m]
        constructor
        · rintro ⟨e, he, h⟩; exact ⟨e, by simp [he], h⟩
        · rintro ⟨e, he, h1, h2, h3⟩
          simp only [List.mem_append, List.mem_singleton] at he
          rcases he with he | he
          · exact ⟨e, he, h1, h2, h3⟩
          · rw [he] at h3; cases h3

theorem update_inv {H} {now : Nat} {s s' : St H} {n : Name} {f : SV → SV} {pm : Option PM}
    (hi : Inv s) (hu : update now s n f = .ok (s', pm)) : Inv s' := by
  unfold update at hu
  split at hu
  · cases hu; exact hi
  · split at hu
    · cases hu
    · cases hu
      exact hi.map_entries _ (by intro e; split <;> rfl) (by intro e; split <;> rfl)
        (by intro e; split <;> rfl)

theorem init_inv {H} {s s' : St H} {h : H} (hi : Inv s) (hr : init s h = .ok s') : Inv s' := by
  unfold init at hr
  split at hr
  · cases hr
  · cases hr; exact ⟨hi.names, hi.tokens, hi.keys, hi.lookup⟩

theorem initialiseBirth_dead {H} (cfg : Cfg) (h : Name → Nat) (now : Nat) (order : List Name)
    (bi : Init PV) {s : St H} (hd : s.dead = true) :
    initialiseBirth cfg h now order bi s = ⟨s, none⟩ := by
  unfold initialiseBirth; simp [hd]

theorem initialiseBirth_fail {H} {cfg : Cfg} {h : Name → Nat} {now : Nat} {order : List Name}
    {bi : Init PV} {s : St H} {n : Name} (hd : s.dead = false)
    (hf : (birthGo cfg h now bi (arrange s.metrics order)).2.2 = some n) :
    initialiseBirth cfg h now order bi s =
      ⟨{ s with metrics := poison n (setTokens (birthGo cfg h now bi (arrange s.metrics order)).2.1 s.metrics),
                dead := true }, none⟩ := by
  unfold initialiseBirth; simp [hd, hf]

theorem initialiseBirth_succ {H} {cfg : Cfg} {h : Name → Nat} {now : Nat} {order : List Name}
    {bi : Init PV} {s : St H} (hd : s.dead = false)
    (hf : (birthGo cfg h now bi (arrange s.metrics order)).2.2 = none) :
    initialiseBirth cfg h now order bi s =
      ⟨{ s with metrics := setTokens (birthGo cfg h now bi (arrange s.metrics order)).2.1 s.metrics,
                lookup := collect (cmdPairs (birthGo cfg h now bi (arrange s.metrics order)).2.1) },
       some (birthGo cfg h now bi (arrange s.metrics order)).1⟩ := by
  unfold initialiseBirth; simp [hd, hf]

theorem cmdPairs_keys_nodup {toks : List (Entry × MetricId)} (hnd : (toks.map (·.2)).Nodup) :
    ((cmdPairs toks).map (·.1)).Nodup := by
  unfold cmdPairs
  rw [List.map_map]
  exact List.Nodup.sublist ((List.filter_sublist (p := fun p : Entry × MetricId => p.1.hasCb)).map
    (fun p : Entry × MetricId => p.2)) hnd

/-- a birth that did not panic: the loop ran over a permutation of the entries, and the state
afterwards is described by the tokens it handed out -/
theorem initialiseBirth_ok {H} {cfg : Cfg} {h : Name → Nat} {now : Nat} {order : List Name}
    {bi bi' : Init PV} {s : St H} (hi : Inv s)
    (hb : (initialiseBirth cfg h now order bi s).bi = some bi') :
    s.dead = false ∧
    ∃ toks, GoOk cfg h now bi (arrange s.metrics order) bi' toks ∧
      (toks.map (·.1)).Perm s.metrics ∧
      (initialiseBirth cfg h now order bi s).st =
        { s with metrics := setTokens toks s.metrics, lookup := cmdPairs toks } := by
  cases hd : s.dead with
  | true => rw [initialiseBirth_dead cfg h now order bi hd] at hb; cases hb
  | false =>
    refine ⟨rfl, ?_⟩
    cases hf : (birthGo cfg h now bi (arrange s.metrics order)).2.2 with
    | some n => rw [initialiseBirth_fail hd hf] at hb; cases hb
    | none =>
      rw [initialiseBirth_succ hd hf] at hb ⊢
      simp only [Option.some.injEq] at hb
      have g := birthGo_ok (arrange s.metrics order) bi hf
      rw [hb] at g
      refine ⟨_, g, ?_, ?_⟩
      · rw [g.ents]; exact arrange_perm hi.names order
      · show ({ s with metrics := _, lookup := collect _ } : St H) = _
        rw [collect_eq_self (cmdPairs_keys_nodup g.nodup)]
        simp only [hd]

theorem mem_cmdPairs (toks : List (Entry × MetricId)) (id : MetricId) (n : Name) :
    (id, n) ∈ cmdPairs toks ↔ ∃ p ∈ toks, p.1.hasCb = true ∧ p.2 = id ∧ p.1.name = n := by
  unfold cmdPairs
  simp only [List.mem_map, List.mem_filter, Prod.mk.injEq]
  constructor
  · rintro ⟨p, ⟨hp, hcb⟩, h1, h2⟩; exact ⟨p, hp, hcb, h1, h2⟩
  · rintro ⟨p, hp, hcb, h1, h2⟩; exact ⟨p, ⟨hp, hcb⟩, h1, h2⟩

/-- the state a successful birth leaves satisfies the invariant again -/
theorem inv_after_birth {H} {s : St H} {toks : List (Entry × MetricId)} (hi : Inv s)
    (_hd : s.dead = false) (hp : (toks.map (·.1)).Perm s.metrics)
    (hnd : (toks.map (·.2)).Nodup) :
    Inv { s with metrics := setTokens toks s.metrics, lookup := cmdPairs toks } := by
  have hperm := setTokens_perm hi.names hp
  refine ⟨?_, ?_, ?_, ?_⟩
  · simp only [setTokens_names]; exact hi.names
  · intro _
    have := (hperm.filterMap (·.token)).nodup_iff.mpr (by rw [withToken_tokens]; exact hnd)
    exact this
  · intro _
    exact cmdPairs_keys_nodup hnd
  · intro _ id n
    simp only
    rw [mem_cmdPairs]
    constructor
    · rintro ⟨p, hpm, hcb, rfl, rfl⟩
      refine ⟨withToken p, hperm.mem_iff.mpr (List.mem_map.mpr ⟨p, hpm, rfl⟩), rfl, hcb, rfl⟩
    · rintro ⟨e, he, h1, h2, h3⟩
      obtain ⟨p, hpm, rfl⟩ := List.mem_map.mp (hperm.mem_iff.mp he)
      simp only [withToken, Option.some.injEq] at h1 h2 h3
      exact ⟨p, hpm, h2, h3, h1⟩

theorem initialiseBirth_inv {H} (cfg : Cfg) (h : Name → Nat) (now : Nat) (order : List Name)
    (bi : Init PV) {s : St H} (hi : Inv s) : Inv (initialiseBirth cfg h now order bi s).st := by
  cases hb : (initialiseBirth cfg h now order bi s).bi with
  | some bi' =>
    obtain ⟨hd, toks, g, hp, hst⟩ := initialiseBirth_ok hi hb
    rw [hst]
    exact inv_after_birth hi hd hp g.nodup
  | none =>
    cases hd : s.dead with
    | true => rw [initialiseBirth_dead cfg h now order bi hd]; exact hi
    | false =>
      cases hf : (birthGo cfg h now bi (arrange s.metrics order)).2.2 with
      | none => rw [initialiseBirth_succ hd hf] at hb; cases hb
      | some n =>
        rw [initialiseBirth_fail hd hf]
        have : Inv ({ s with
            metrics := poison n (setTokens (birthGo cfg h now bi (arrange s.metrics order)).2.1 s.metrics),
            dead := true } : St H) :=
          ⟨by simp only [poison_names, setTokens_names]; exact hi.names,
           (fun hc => by cases hc), (fun hc => by cases hc), (fun hc => by cases hc)⟩
        exact this

theorem step_inv {H} {s : St H} (op : Op H) (hi : Inv s) : Inv (step s op) := by
  cases op with
  | register n ty v a c =>
    simp only [step]
    cases hr : register s n ty v a c with
    | ok p => obtain ⟨s', b⟩ := p; exact register_inv hi hr
    | panic => exact hi
  | birth cfg h now order bi => exact initialiseBirth_inv cfg h now order bi hi
  | update now n f =>
    simp only [step]
    cases hu : update now s n f with
    | ok p => obtain ⟨s', pm⟩ := p; exact update_inv hi hu
    | panic => exact hi
  | publish _ => exact hi
  | command _ => exact hi
  | init h =>
    simp only [step]
    cases hr : init s h with
    | ok s' => exact init_inv hi hr
    | panic => exact hi

theorem run_inv {H} (ops : List (Op H)) : ∀ {s : St H}, Inv s → Inv (run s ops) := by
  induction ops with
  | nil => intro s hi; exact hi
  | cons op t ih => intro s hi; exact ih (step_inv op hi)

/-! ### the command path meets its specification -/

theorem callbacks_head {H} {s : St H} (hi : Inv s) (hd : s.dead = false) (m : CmdMetric)
    (t : List CmdMetric) :
    callbacks s (m :: t) =
      match route s m with
      | some i => i :: callbacks s t
      | none => callbacks s t := by
  rw [callbacks]
  unfold route
  cases hf : s.metrics.find? (fun e => e.hasCb && decide (e.token = some m.id)) with
  | none =>
    have hnone : hmGet s.lookup m.id = none := by
      rw [hmGet_eq_none]
      intro n hm
      obtain ⟨e, he, _, h2, h3⟩ := (hi.lookup hd m.id n).mp hm
      have := List.find?_eq_none.mp hf e he
      simp [h2, h3] at this
    simp only [hnone, Option.bind_none]
  | some e =>
    have hem := List.mem_of_find?_eq_some hf
    have hpe := List.find?_some hf
    simp only [Bool.and_eq_true, decide_eq_true_eq] at hpe
    have hl : (m.id, e.name) ∈ s.lookup := (hi.lookup hd m.id e.name).mpr ⟨e, hem, rfl, hpe.1, hpe.2⟩
    have hg : hmGet s.lookup m.id = some e.name := (hmGet_eq_some (hi.keys hd) m.id e.name).mpr hl
    have hfe : s.metrics.find? (fun x => decide (x.name = e.name)) = some e :=
      find?_key_of_mem (fun x : Entry => x.name) hi.names hem
    simp only [hg, hfe, Option.bind_some]
    cases cmdCb e m.value <;> rfl

theorem callbacks_eq_route {H} {s : St H} (hi : Inv s) (hd : s.dead = false) :
    ∀ ms : List CmdMetric, callbacks s ms = ms.filterMap (route s) := by
  intro ms
  induction ms with
  | nil => rfl
  | cons m t ih =>
    rw [callbacks_head hi hd, List.filterMap_cons]
    cases route s m with
    | none => exact ih
    | some i => simp only; rw [ih]

end Srad.SimpleMgr
