/-
Helper lemmas for C16 (host event loop, M10). Core Lean only.
-/
import SradModel.Model.HostLoopSpec

namespace Srad.HostLoop

/-! ### reading traces -/

theorem lastWill_nil : lastWill [] = none := rfl
theorem birthOut_nil : birthOut [] = false := rfl

theorem lastWill_snoc_will (tr : List Eff) (t : Str) (ts : Nat) :
    lastWill (tr ++ [.setWill t ts]) = some ts := by
  simp [lastWill, lastWillRev]

theorem lastWill_snoc_sub (tr : List Eff) (fs : List Str) :
    lastWill (tr ++ [.subscribe fs]) = lastWill tr := by
  simp [lastWill, lastWillRev]

theorem lastWill_snoc_pub (tr : List Eff) (t : Str) (o : Bool) (ts : Nat) (x : Bool) :
    lastWill (tr ++ [.publishState t o ts x]) = lastWill tr := by
  simp [lastWill, lastWillRev]

theorem lastWill_snoc_disc (tr : List Eff) : lastWill (tr ++ [.disconnect]) = lastWill tr := by
  simp [lastWill, lastWillRev]

theorem birthOut_snoc_will (tr : List Eff) (t : Str) (ts : Nat) :
    birthOut (tr ++ [.setWill t ts]) = false := by
  simp [birthOut, birthOutRev]

theorem birthOut_snoc_sub (tr : List Eff) (fs : List Str) :
    birthOut (tr ++ [.subscribe fs]) = birthOut tr := by
  simp [birthOut, birthOutRev]

theorem birthOut_snoc_birth (tr : List Eff) (t : Str) (ts : Nat) (x : Bool) :
    birthOut (tr ++ [.publishState t true ts x]) = true := by
  simp [birthOut, birthOutRev]

theorem birthOut_snoc_death (tr : List Eff) (t : Str) (ts : Nat) (x : Bool) :
    birthOut (tr ++ [.publishState t false ts x]) = birthOut tr := by
  simp [birthOut, birthOutRev]

theorem birthOut_snoc_disc (tr : List Eff) : birthOut (tr ++ [.disconnect]) = birthOut tr := by
  simp [birthOut, birthOutRev]

theorem append_two {α} (tr : List α) (a b : α) : tr ++ [a, b] = (tr ++ [a]) ++ [b] := by simp

/-- declarative reading of `birthOutRev` -/
theorem birthOutRev_iff (l : List Eff) :
    birthOutRev l = true ↔
      ∃ pre t ts x post, l = pre ++ Eff.publishState t true ts x :: post ∧
        ∀ e ∈ pre, e.isWill = false := by
  induction l with
  | nil => simp [birthOutRev]
  | cons e l ih =>
    cases e with
    | setWill t ts =>
      simp only [birthOutRev, Bool.false_eq_true, false_iff]
      rintro ⟨pre, t', ts', x, post, h, hp⟩
      cases pre with
      | nil => simp at h
      | cons p pre =>
        simp only [List.cons_append, List.cons.injEq] at h
        have := hp p (by simp)
        rw [← h.1] at this
        simp [Eff.isWill] at this
    | publishState t o ts x =>
      cases o with
      | true =>
        simp only [birthOutRev, true_iff]
        exact ⟨[], t, ts, x, l, by simp, by simp⟩
      | false =>
        simp only [birthOutRev]
        rw [ih]
        constructor
        · rintro ⟨pre, t', ts', x', post, h, hp⟩
          refine ⟨Eff.publishState t false ts x :: pre, t', ts', x', post, by simp [h], ?_⟩
          intro e he
          simp only [List.mem_cons] at he
          rcases he with rfl | he
          · rfl
          · exact hp e he
        · rintro ⟨pre, t', ts', x', post, h, hp⟩
          cases pre with
          | nil => simp at h
          | cons p pre =>
            simp only [List.cons_append, List.cons.injEq] at h
            exact ⟨pre, t', ts', x', post, h.2, fun e he => hp e (by simp [he])⟩
    | subscribe fs =>
      simp only [birthOutRev]
      rw [ih]
      constructor
      · rintro ⟨pre, t', ts', x', post, h, hp⟩
        refine ⟨Eff.subscribe fs :: pre, t', ts', x', post, by simp [h], ?_⟩
        intro e he
        simp only [List.mem_cons] at he
        rcases he with rfl | he
        · rfl
        · exact hp e he
      · rintro ⟨pre, t', ts', x', post, h, hp⟩
        cases pre with
        | nil => simp at h
        | cons p pre =>
          simp only [List.cons_append, List.cons.injEq] at h
          exact ⟨pre, t', ts', x', post, h.2, fun e he => hp e (by simp [he])⟩
    | disconnect =>
      simp only [birthOutRev]
      rw [ih]
      constructor
      · rintro ⟨pre, t', ts', x', post, h, hp⟩
        refine ⟨Eff.disconnect :: pre, t', ts', x', post, by simp [h], ?_⟩
        intro e he
        simp only [List.mem_cons] at he
        rcases he with rfl | he
        · rfl
        · exact hp e he
      · rintro ⟨pre, t', ts', x', post, h, hp⟩
        cases pre with
        | nil => simp at h
        | cons p pre =>
          simp only [List.cons_append, List.cons.injEq] at h
          exact ⟨pre, t', ts', x', post, h.2, fun e he => hp e (by simp [he])⟩

/-- **Declarative reading of `birthOut`**: some `{online:true}` publish in the trace is followed
by no will registration. -/
theorem birthOut_iff (tr : List Eff) :
    birthOut tr = true ↔
      ∃ pre t ts x post, tr = pre ++ Eff.publishState t true ts x :: post ∧
        ∀ e ∈ post, e.isWill = false := by
  unfold birthOut
  rw [birthOutRev_iff]
  constructor
  · rintro ⟨pre, t, ts, x, post, h, hp⟩
    refine ⟨post.reverse, t, ts, x, pre.reverse, ?_, ?_⟩
    · have := congrArg List.reverse h
      simpa using this
    · intro e he
      exact hp e (by simpa using he)
  · rintro ⟨pre, t, ts, x, post, h, hp⟩
    refine ⟨post.reverse, t, ts, x, pre.reverse, ?_, ?_⟩
    · rw [h]; simp
    · intro e he
      exact hp e (by simpa using he)

theorem lastWillRev_iff (l : List Eff) (w : Nat) :
    lastWillRev l = some w ↔
      ∃ pre t post, l = pre ++ Eff.setWill t w :: post ∧ ∀ e ∈ pre, e.isWill = false := by
  induction l with
  | nil => simp [lastWillRev]
  | cons e l ih =>
    cases e with
    | setWill t ts =>
      simp only [lastWillRev, Option.some.injEq]
      constructor
      · rintro rfl
        exact ⟨[], t, l, by simp, by simp⟩
      · rintro ⟨pre, t', post, h, hp⟩
        cases pre with
        | nil => simp at h; exact h.1.2
        | cons p pre =>
          simp only [List.cons_append, List.cons.injEq] at h
          have := hp p (by simp)
          rw [← h.1] at this
          simp [Eff.isWill] at this
    | publishState t o ts x =>
      simp only [lastWillRev]
      rw [ih]
      constructor
      · rintro ⟨pre, t', post, h, hp⟩
        refine ⟨Eff.publishState t o ts x :: pre, t', post, by simp [h], ?_⟩
        intro e he
        simp only [List.mem_cons] at he
        rcases he with rfl | he
        · rfl
        · exact hp e he
      · rintro ⟨pre, t', post, h, hp⟩
        cases pre with
        | nil => simp at h
        | cons p pre =>
          simp only [List.cons_append, List.cons.injEq] at h
          exact ⟨pre, t', post, h.2, fun e he => hp e (by simp [he])⟩
    | subscribe fs =>
      simp only [lastWillRev]
      rw [ih]
      constructor
      · rintro ⟨pre, t', post, h, hp⟩
        refine ⟨Eff.subscribe fs :: pre, t', post, by simp [h], ?_⟩
        intro e he
        simp only [List.mem_cons] at he
        rcases he with rfl | he
        · rfl
        · exact hp e he
      · rintro ⟨pre, t', post, h, hp⟩
        cases pre with
        | nil => simp at h
        | cons p pre =>
          simp only [List.cons_append, List.cons.injEq] at h
          exact ⟨pre, t', post, h.2, fun e he => hp e (by simp [he])⟩
    | disconnect =>
      simp only [lastWillRev]
      rw [ih]
      constructor
      · rintro ⟨pre, t', post, h, hp⟩
        refine ⟨Eff.disconnect :: pre, t', post, by simp [h], ?_⟩
        intro e he
        simp only [List.mem_cons] at he
        rcases he with rfl | he
        · rfl
        · exact hp e he
      · rintro ⟨pre, t', post, h, hp⟩
        cases pre with
        | nil => simp at h
        | cons p pre =>
          simp only [List.cons_append, List.cons.injEq] at h
          exact ⟨pre, t', post, h.2, fun e he => hp e (by simp [he])⟩

/-- **Declarative reading of `lastWill`**: `w` is the timestamp of a will registration that is
followed by no other will registration. -/
theorem lastWill_iff (tr : List Eff) (w : Nat) :
    lastWill tr = some w ↔
      ∃ pre t post, tr = pre ++ Eff.setWill t w :: post ∧ ∀ e ∈ post, e.isWill = false := by
  unfold lastWill
  rw [lastWillRev_iff]
  constructor
  · rintro ⟨pre, t, post, h, hp⟩
    refine ⟨post.reverse, t, pre.reverse, ?_, ?_⟩
    · have := congrArg List.reverse h
      simpa using this
    · intro e he
      exact hp e (by simpa using he)
  · rintro ⟨pre, t, post, h, hp⟩
    refine ⟨post.reverse, t, pre.reverse, ?_, ?_⟩
    · rw [h]; simp
    · intro e he
      exact hp e (by simpa using he)


/-! ### monitor -/

theorem monRun_append (own : Str) (m : Mon) (a b : List Eff) :
    monRun own m (a ++ b) = (monRun own m a).bind fun m' => monRun own m' b := by
  induction a generalizing m with
  | nil => simp [monRun]
  | cons e a ih =>
    simp only [List.cons_append, monRun]
    cases monStep own m e with
    | none => simp
    | some m' => simpa using ih m'

/-- the monitor's will is the trace's last will -/
theorem monRun_will (own : Str) (m m' : Mon) (tr : List Eff) (h : monRun own m tr = some m') :
    m'.will = match lastWillRev tr.reverse with
      | some w => some w
      | none => m.will := by
  induction tr generalizing m with
  | nil => simp [monRun] at h; simp [lastWillRev, h]
  | cons e tr ih =>
    simp only [monRun] at h
    cases hs : monStep own m e with
    | none => simp [hs] at h
    | some m1 =>
      rw [hs] at h
      have := ih m1 h
      rw [this]
      simp only [List.reverse_cons]
      -- lastWillRev (tr.reverse ++ [e])
      have key : ∀ (l : List Eff), lastWillRev (l ++ [e]) =
          match lastWillRev l with
          | some w => some w
          | none => lastWillRev [e] := by
        intro l
        induction l with
        | nil => cases h' : lastWillRev [e] <;> simp [lastWillRev, h']
        | cons x l ihl =>
          cases x <;> simp [lastWillRev, ihl]
      rw [key]
      cases hl : lastWillRev tr.reverse with
      | some w => simp
      | none =>
        simp only
        cases e with
        | setWill t ts =>
          simp only [monStep] at hs
          split at hs
          · simp at hs; simp [lastWillRev, ← hs]
          · simp at hs
        | subscribe fs =>
          simp only [monStep] at hs
          split at hs
          · simp at hs; simp [lastWillRev, ← hs]
          · simp at hs
        | publishState t o ts x =>
          cases o <;> simp only [monStep] at hs <;> split at hs <;> simp at hs <;>
            simp [lastWillRev, ← hs]
        | disconnect =>
          simp only [monStep] at hs
          split at hs
          · simp at hs; simp [lastWillRev, ← hs]
          · simp at hs

/-- a monitor run that starts outside `idle` and ends in `idle` passes a will registration -/
theorem monRun_back_to_idle (own : Str) (m m' : Mon) (tr : List Eff)
    (h : monRun own m tr = some m') (h0 : m.phase ≠ .idle) (h1 : m'.phase = .idle) :
    ∃ e ∈ tr, e.isWill = true := by
  induction tr generalizing m with
  | nil => simp [monRun] at h; subst h; exact absurd h1 h0
  | cons e tr ih =>
    simp only [monRun] at h
    cases hs : monStep own m e with
    | none => simp [hs] at h
    | some m1 =>
      rw [hs] at h
      cases e with
      | setWill t ts => exact ⟨Eff.setWill t ts, by simp, rfl⟩
      | subscribe fs =>
        simp only [monStep] at hs
        split at hs
        · rename_i hc; exact absurd hc.1 h0
        · simp at hs
      | publishState t o ts x =>
        have hm1 : m1.phase ≠ .idle := by
          cases o <;> simp only [monStep] at hs <;> split at hs <;> simp at hs <;> subst hs
          · exact h0
          · simp
        obtain ⟨e, he, hw⟩ := ih m1 h hm1
        exact ⟨e, by simp [he], hw⟩
      | disconnect =>
        have hm1 : m1.phase ≠ .idle := by
          simp only [monStep] at hs
          split at hs <;> simp at hs
          subst hs; exact h0
        obtain ⟨e, he, hw⟩ := ih m1 h hm1
        exact ⟨e, by simp [he], hw⟩


/-! ### the invariant tying the model's state to what its trace says -/

structure Inv (own : Str) (s : St) (tr : List Eff) : Prop where
  will : lastWill tr = some s.willTs
  born : birthOut tr = s.published
  on : s.online = s.published
  drain : s.draining = true → s.online = true
  pend : s.pending = true → s.draining = true
  mon : ∃ m, monRun own Mon.init tr = some m ∧ m.will = some s.willTs ∧
      m.phase = (if s.published then Phase.born else Phase.idle)

theorem monRun_snoc (own : Str) (tr eff : List Eff) (m : Mon)
    (h : monRun own Mon.init tr = some m) :
    monRun own Mon.init (tr ++ eff) = monRun own m eff := by
  rw [monRun_append, h]; rfl

theorem new_inv (host : Str) (now : Nat) (s : St) (e : List Eff)
    (h : new host now = some (s, e)) : Inv (stateHostTopic host) s e ∧
      s = { willTs := now } ∧ e = [.setWill (stateHostTopic host) now] := by
  unfold new at h
  split at h
  · simp at h
  · simp only [updateLastWill, Option.some.injEq, Prod.mk.injEq] at h
    obtain ⟨rfl, rfl⟩ := h
    refine ⟨⟨?_, ?_, rfl, ?_, ?_, ?_⟩, rfl, rfl⟩
    · simp [lastWill, lastWillRev]
    · simp [birthOut, birthOutRev]
    · simp
    · simp
    · exact ⟨⟨some now, .idle⟩, by simp [monRun, monStep, Mon.init], rfl, by simp⟩

set_option linter.unusedSimpArgs false in
theorem step_inv (cfg : SubCfg) (host : Str) (s : St) (tr : List Eff) (i : In) (now : Nat)
    (h : Inv (stateHostTopic host) s tr) :
    Inv (stateHostTopic host) (step cfg host s i now).1 (tr ++ (step cfg host s i now).2.1) := by
  obtain ⟨hw, hb, hon, hdr, hpe, m, hm, hmw, hmp⟩ := h
  obtain ⟨on, pub, w, dr, pe⟩ := s
  simp only at hw hb hon hdr hpe hmw hmp
  subst hon
  have hmm : m = ⟨some w, if on then Phase.born else Phase.idle⟩ := by
    cases m; simp_all
  subst hmm
  unfold lastWill at hw
  unfold birthOut at hb
  cases i with
  | timeout =>
    cases dr <;> cases pe <;> cases on <;>
      simp_all [step, endDrain, takeShutdown] <;>
      constructor <;>
      simp_all [lastWill, birthOut, lastWillRev, birthOutRev, monRun_append, monRun, monStep]
  | cancel =>
    cases dr <;> cases pe <;> cases on <;>
      simp_all [step, takeShutdown] <;>
      constructor <;>
      simp_all [lastWill, birthOut, lastWillRev, birthOutRev, monRun_append, monRun, monStep]
  | ev e =>
    cases e with
    | other =>
      cases dr <;> simp_all [step, handleEvent] <;>
      constructor <;>
      simp_all [lastWill, birthOut, lastWillRev, birthOutRev, monRun_append, monRun, monStep]
    | state h o ts =>
      cases dr <;> cases on <;> cases o <;> by_cases hh : h = host <;>
        simp_all [step, handleEvent] <;>
      constructor <;>
      simp_all [lastWill, birthOut, lastWillRev, birthOutRev, monRun_append, monRun, monStep]
    | online =>
      cases dr <;> cases on <;> simp_all [step, handleEvent, handleOnline] <;>
      constructor <;>
      simp_all [lastWill, birthOut, lastWillRev, birthOutRev, monRun_append, monRun, monStep]
    | offline =>
      cases dr <;> cases pe <;> cases on <;>
        simp_all [step, handleEvent, handleOffline, updateLastWill, endDrain, takeShutdown] <;>
      constructor <;>
      simp_all [lastWill, birthOut, lastWillRev, birthOutRev, monRun_append, monRun, monStep]


theorem exec_inv (cfg : SubCfg) (host : Str) (s : St) (tr : List Eff) (xs : List Step)
    (h : Inv (stateHostTopic host) s tr) :
    Inv (stateHostTopic host) (exec cfg host s xs).1 (tr ++ (exec cfg host s xs).2.1) := by
  induction xs generalizing s tr with
  | nil => simpa [exec] using h
  | cons x xs ih =>
    have h1 := step_inv cfg host s tr x.inp x.now h
    have h2 := ih _ _ h1
    simpa [exec, List.append_assoc] using h2

theorem exec_append (cfg : SubCfg) (host : Str) (s : St) (a b : List Step) :
    exec cfg host s (a ++ b) =
      ((exec cfg host (exec cfg host s a).1 b).1,
       (exec cfg host s a).2.1 ++ (exec cfg host (exec cfg host s a).1 b).2.1,
       (exec cfg host s a).2.2 ++ (exec cfg host (exec cfg host s a).1 b).2.2) := by
  induction a generalizing s with
  | nil => simp [exec]
  | cons x a ih => simp [exec, ih, List.append_assoc]

theorem history_inv (cfg : SubCfg) (host : Str) (now0 : Nat) (steps : List Step)
    (s : St) (tr : List Eff) (r : List Ret)
    (h : history cfg host now0 steps = some (s, tr, r)) : Inv (stateHostTopic host) s tr := by
  unfold history at h
  cases hn : new host now0 with
  | none => simp [hn] at h
  | some p =>
    obtain ⟨s0, e0⟩ := p
    simp only [hn, Option.some.injEq, Prod.mk.injEq] at h
    obtain ⟨rfl, rfl, rfl⟩ := h
    exact exec_inv cfg host s0 e0 steps (new_inv host now0 s0 e0 hn).1

/-- extending a history by one step = one `step` from the state it reached -/
theorem history_snoc (cfg : SubCfg) (host : Str) (now0 : Nat) (steps : List Step)
    (s : St) (tr : List Eff) (r : List Ret) (x : Step)
    (h : history cfg host now0 steps = some (s, tr, r)) :
    history cfg host now0 (steps ++ [x]) =
      some ((step cfg host s x.inp x.now).1, tr ++ (step cfg host s x.inp x.now).2.1,
            r ++ (step cfg host s x.inp x.now).2.2) := by
  unfold history at h ⊢
  cases hn : new host now0 with
  | none => simp [hn] at h
  | some p =>
    obtain ⟨s0, e0⟩ := p
    simp only [hn, Option.some.injEq, Prod.mk.injEq] at h
    obtain ⟨rfl, rfl, rfl⟩ := h
    simp [exec_append, exec, List.append_assoc]

theorem history_isSome (cfg : SubCfg) (host : Str) (now0 : Nat) (steps : List Step) :
    (history cfg host now0 steps).isSome = validName host := by
  unfold history new
  cases validName host <;> simp

/-! ### topic levels and filter matching -/

theorem levels_ne_nil (s : Str) : levels s ≠ [] := by
  induction s with
  | nil => simp [levels]
  | cons c cs ih =>
    simp only [levels]
    split
    · simp
    · split <;> simp

theorem levels_append_slash (a b : Str) : levels (a ++ '/' :: b) = levels a ++ levels b := by
  induction a with
  | nil => simp [levels]
  | cons c a ih =>
    simp only [List.cons_append, levels]
    split
    · simp [ih]
    · rw [ih]
      cases hl : levels a with
      | nil => exact absurd hl (levels_ne_nil a)
      | cons l ls => simp

theorem levels_noSlash (s : Str) (h : '/' ∉ s) : levels s = [s] := by
  induction s with
  | nil => rfl
  | cons c cs ih =>
    simp only [List.mem_cons, not_or] at h
    simp only [levels]
    rw [if_neg (fun hc => h.1 hc.symm), ih h.2]

theorem matchLv_hash (ts : List Str) : matchLv [['#']] ts = true := by
  simp [matchLv]

theorem matchLv_refl (ls : List Str) : matchLv ls ls = true := by
  induction ls with
  | nil => rfl
  | cons l ls ih =>
    simp only [matchLv]
    split
    · rfl
    · simp [ih]

/-- a common literal prefix can be stripped when the filter continues after it -/
theorem matchLv_prefix (xs fs ts : List Str) (h : matchLv fs ts = true) :
    matchLv (xs ++ fs) (xs ++ ts) = true := by
  induction xs with
  | nil => simpa using h
  | cons x xs ih =>
    simp only [List.cons_append, matchLv]
    split
    · rfl
    · simp [ih]

theorem matchLv_plus (fs : List Str) (t : Str) (ts : List Str)
    (h : matchLv fs ts = true) : matchLv (['+'] :: fs) (t :: ts) = true := by
  simp only [matchLv]
  split
  · rfl
  · simp [h]

theorem levels_spbv : levels spbv = [spbv] := by decide


theorem levels_full : levels Topic.full.render = [spbv, ['#']] := by decide

theorem levels_group (g : Str) :
    levels (Topic.group g).render = [spbv] ++ levels g ++ [['+'], ['#']] := by
  show levels (spbv ++ '/' :: (g ++ '/' :: (['+'] ++ '/' :: ['#']))) = _
  rw [levels_append_slash, levels_append_slash, levels_append_slash, levels_spbv]
  simp [levels]

theorem levels_nodeFilter (g n : Str) :
    levels (Topic.node g n).render = [spbv] ++ levels g ++ [['+']] ++ levels n ++ [['#']] := by
  have : (Topic.node g n).render = spbv ++ '/' :: (g ++ '/' :: (['+'] ++ '/' :: (n ++ '/' :: ['#']))) := by
    simp [Topic.render]
  rw [this]
  rw [levels_append_slash, levels_append_slash, levels_append_slash, levels_append_slash,
    levels_spbv]
  simp [levels]

theorem levels_nodeTopic (g v n : Str) :
    levels (nodeTopic g v n) = [spbv] ++ levels g ++ levels v ++ levels n := by
  have : nodeTopic g v n = spbv ++ '/' :: (g ++ '/' :: (v ++ '/' :: n)) := by
    simp [nodeTopic]
  rw [this]
  rw [levels_append_slash, levels_append_slash, levels_append_slash, levels_spbv]
  simp

theorem levels_deviceTopic (g v n d : Str) :
    levels (deviceTopic g v n d) = [spbv] ++ levels g ++ levels v ++ levels n ++ levels d := by
  have : deviceTopic g v n d = spbv ++ '/' :: (g ++ '/' :: (v ++ '/' :: (n ++ '/' :: d))) := by
    simp [deviceTopic]
  rw [this]
  rw [levels_append_slash, levels_append_slash, levels_append_slash, levels_append_slash,
    levels_spbv]
  simp

theorem levels_stateHostTopic (h : Str) :
    levels (stateHostTopic h) = [spbv, stateLit] ++ levels h := by
  show levels (spbv ++ '/' :: (stateLit ++ '/' :: h)) = _
  rw [levels_append_slash, levels_append_slash, levels_spbv]
  have : levels stateLit = [stateLit] := by decide
  simp [this]

/-- `spBv1.0/#` matches every topic under `spBv1.0/` -/
theorem full_matches (rest : List Str) :
    matchLv (levels Topic.full.render) ([spbv] ++ rest) = true := by
  rw [levels_full]
  simp [matchLv]

/-- `spBv1.0/g/+/#` matches every topic `spBv1.0/g/<at least one more level>/…` -/
theorem group_matches (g : Str) (x : Str) (rest : List Str) :
    matchLv (levels (Topic.group g).render) ([spbv] ++ levels g ++ (x :: rest)) = true := by
  rw [levels_group, List.append_assoc, List.append_assoc]
  apply matchLv_prefix
  apply matchLv_prefix
  apply matchLv_plus
  exact matchLv_hash _

/-- `spBv1.0/g/+/n/#` matches `spBv1.0/g/<one level>/n` and everything below it -/
theorem node_matches (g n : Str) (x : Str) (rest : List Str) :
    matchLv (levels (Topic.node g n).render) ([spbv] ++ levels g ++ [x] ++ levels n ++ rest)
      = true := by
  rw [levels_nodeFilter]
  simp only [List.append_assoc]
  apply matchLv_prefix
  apply matchLv_prefix
  show matchLv (['+'] :: (levels n ++ [['#']])) (x :: (levels n ++ rest)) = true
  apply matchLv_plus
  apply matchLv_prefix
  exact matchLv_hash _


/-! ### more facts about reachable traces -/

/-- every subscription the model emits is the configured filter list -/
theorem step_subscribe (cfg : SubCfg) (host : Str) (s : St) (i : In) (now : Nat) (fs : List Str)
    (h : Eff.subscribe fs ∈ (step cfg host s i now).2.1) : fs = subscribed cfg host := by
  obtain ⟨on, pub, w, dr, pe⟩ := s
  cases i with
  | timeout => cases dr <;> simp_all [step, endDrain, takeShutdown]
  | cancel => cases dr <;> cases pe <;> simp_all [step, takeShutdown]
  | ev e =>
    cases e with
    | other => cases dr <;> simp_all [step, handleEvent]
    | state h' o ts =>
      cases dr <;> cases pub <;> cases o <;> by_cases hh : h' = host <;>
        simp_all [step, handleEvent]
    | online =>
      cases dr <;> cases on <;> simp_all [step, handleEvent, handleOnline, subscribed]
    | offline =>
      cases dr <;> cases on <;>
        simp_all [step, handleEvent, handleOffline, updateLastWill, endDrain, takeShutdown]

theorem exec_subscribe (cfg : SubCfg) (host : Str) (s : St) (xs : List Step) (fs : List Str)
    (h : Eff.subscribe fs ∈ (exec cfg host s xs).2.1) : fs = subscribed cfg host := by
  induction xs generalizing s with
  | nil => simp [exec] at h
  | cons x xs ih =>
    simp only [exec, List.mem_append] at h
    rcases h with h | h
    · exact step_subscribe cfg host s x.inp x.now fs h
    · exact ih _ h

theorem history_subscribe (cfg : SubCfg) (host : Str) (now0 : Nat) (steps : List Step)
    (s : St) (tr : List Eff) (r : List Ret)
    (h : history cfg host now0 steps = some (s, tr, r)) (fs : List Str)
    (hm : Eff.subscribe fs ∈ tr) : fs = subscribed cfg host := by
  unfold history at h
  cases hn : new host now0 with
  | none => simp [hn] at h
  | some p =>
    obtain ⟨s0, e0⟩ := p
    simp only [hn, Option.some.injEq, Prod.mk.injEq] at h
    obtain ⟨rfl, rfl, rfl⟩ := h
    obtain ⟨-, -, rfl⟩ := new_inv host now0 s0 e0 hn
    simp only [List.mem_append, List.mem_singleton] at hm
    rcases hm with hm | hm
    · simp at hm
    · exact exec_subscribe cfg host s0 steps fs hm

/-- without `cancel` the loop is never inside its shutdown drain -/
theorem exec_no_cancel (cfg : SubCfg) (host : Str) (s : St) (xs : List Step)
    (hs : s.draining = false ∧ s.pending = false) (hx : ∀ x ∈ xs, x.inp ≠ In.cancel) :
    (exec cfg host s xs).1.draining = false ∧ (exec cfg host s xs).1.pending = false := by
  induction xs generalizing s with
  | nil => simpa [exec] using hs
  | cons x xs ih =>
    simp only [exec]
    apply ih
    · obtain ⟨on, pub, w, dr, pe⟩ := s
      simp only at hs
      obtain ⟨rfl, rfl⟩ := hs
      have hx0 := hx x (by simp)
      cases hi : x.inp with
      | timeout => simp [step]
      | cancel => exact absurd hi hx0
      | ev e =>
        cases e with
        | other => simp [step, handleEvent]
        | state h' o ts =>
          cases o <;> cases pub <;> by_cases hh : h' = host <;> simp [step, handleEvent, hh]
        | online => cases on <;> simp [step, handleEvent, handleOnline]
        | offline => cases on <;> simp [step, handleEvent, handleOffline, updateLastWill]
    · intro y hy; exact hx y (by simp [hy])

/-! ### what acceptance by the monitor means -/

theorem accepted_birth (own : Str) (tr pre post : List Eff) (t : Str) (ts : Nat) (x : Bool)
    (h : Accepted own tr) (hs : tr = pre ++ Eff.publishState t true ts x :: post) :
    t = own ∧ x = false ∧ lastWill pre = some ts := by
  obtain ⟨m, hm, -⟩ := h
  subst hs
  rw [monRun_append] at hm
  cases h1 : monRun own Mon.init pre with
  | none => simp [h1] at hm
  | some m1 =>
    simp only [h1, Option.bind_some, monRun] at hm
    cases h2 : monStep own m1 (Eff.publishState t true ts x) with
    | none => simp [h2] at hm
    | some m2 =>
      simp only [monStep] at h2
      split at h2
      · rename_i hc
        refine ⟨hc.1, hc.2.1, ?_⟩
        have := monRun_will own Mon.init m1 pre h1
        rw [hc.2.2.1] at this
        unfold lastWill
        cases hl : lastWillRev pre.reverse with
        | none => simp [hl, Mon.init] at this
        | some w => simp [hl] at this; simp [this]
      · simp at h2

theorem accepted_between (own : Str) (tr a mid post : List Eff) (f1 f2 : List Str)
    (h : Accepted own tr) (hs : tr = a ++ Eff.subscribe f1 :: (mid ++ Eff.subscribe f2 :: post)) :
    ∃ e ∈ mid, e.isWill = true := by
  obtain ⟨m, hm, -⟩ := h
  subst hs
  rw [monRun_append] at hm
  cases h1 : monRun own Mon.init a with
  | none => simp [h1] at hm
  | some m1 =>
    simp only [h1, Option.bind_some, monRun] at hm
    cases h2 : monStep own m1 (Eff.subscribe f1) with
    | none => simp [h2] at hm
    | some m2 =>
      simp only [h2] at hm
      rw [monRun_append] at hm
      cases h3 : monRun own m2 mid with
      | none => simp [h3] at hm
      | some m3 =>
        simp only [h3, Option.bind_some, monRun] at hm
        cases h4 : monStep own m3 (Eff.subscribe f2) with
        | none => simp [h4] at hm
        | some m4 =>
          have hp2 : m2.phase ≠ .idle := by
            simp only [monStep] at h2
            split at h2 <;> simp at h2
            subst h2; simp
          have hp3 : m3.phase = .idle := by
            simp only [monStep] at h4
            split at h4
            · rename_i hc; exact hc.1
            · simp at h4
          exact monRun_back_to_idle own m2 m3 mid h3 hp2 hp3

theorem accepted_after_subscribe (own : Str) (tr a rest : List Eff) (fs : List Str)
    (h : Accepted own tr) (hs : tr = a ++ Eff.subscribe fs :: rest) :
    ∃ ts rest', rest = Eff.publishState own true ts false :: rest' := by
  obtain ⟨m, hm, hfin⟩ := h
  subst hs
  rw [monRun_append] at hm
  cases h1 : monRun own Mon.init a with
  | none => simp [h1] at hm
  | some m1 =>
    simp only [h1, Option.bind_some, monRun] at hm
    cases h2 : monStep own m1 (Eff.subscribe fs) with
    | none => simp [h2] at hm
    | some m2 =>
      simp only [h2] at hm
      have hp2 : m2.phase = .subscribed := by
        simp only [monStep] at h2
        split at h2 <;> simp at h2
        subst h2; rfl
      cases rest with
      | nil =>
        simp only [monRun, Option.some.injEq] at hm
        subst hm
        exact absurd hp2 hfin
      | cons e rest' =>
        simp only [monRun] at hm
        cases h3 : monStep own m2 e with
        | none => simp [h3] at hm
        | some m3 =>
          cases e with
          | setWill t ts => simp [monStep, hp2] at h3
          | subscribe f => simp [monStep, hp2] at h3
          | disconnect => simp [monStep, hp2] at h3
          | publishState t o ts x =>
            cases o with
            | false => simp [monStep, hp2] at h3
            | true =>
              simp only [monStep] at h3
              split at h3
              · rename_i hc
                obtain ⟨rfl, rfl, -, -⟩ := hc
                exact ⟨ts, rest', rfl⟩
              · simp at h3

theorem inv_accepted (own : Str) (s : St) (tr : List Eff) (h : Inv own s tr) : Accepted own tr := by
  obtain ⟨m, hm, -, hp⟩ := h.mon
  refine ⟨m, hm, ?_⟩
  rw [hp]
  split <;> simp

end Srad.HostLoop
