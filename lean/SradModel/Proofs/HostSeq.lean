import SradModel.Model.HostSpec
import SradModel.Proofs.Reseq

namespace Srad.Host.SeqP
/-! ### frame facts for the small handlers -/

theorem cancelTimer_fst (s : St) : (cancelTimer s).1 = { s with timer := .none } := by
  obtain ⟨life, bts, sts, bd, lr, rs, dv, tm⟩ := s
  cases tm <;> rfl

theorem cancelTimer_eff (s : St) : ∀ e ∈ (cancelTimer s).2, e = Eff.timerCancel := by
  unfold cancelTimer
  split <;> simp

theorem startTimer_fst (c : Cfg) (s : St) (now : Nat) :
    (startTimer c s now).1 = { s with timer := (startTimer c s now).1.timer } := by
  unfold startTimer
  split <;> rfl

theorem startTimer_eff (c : Cfg) (s : St) (now : Nat) :
    ∀ e ∈ (startTimer c s now).2, e = Eff.timerStart := by
  unfold startTimer
  split <;> simp

/-- effects that carry a message to a store (the ones `C05_effects_bounded` counts) -/
def isMsgEff : Eff → Bool
  | .nodeData _ | .devData _ _ | .devBirth _ _ _ => true
  | _ => false

theorem setStale_cases (s : St) (t : Nat) :
    ((setStale s t).1 = s ∧ (setStale s t).2 = []) ∨
    ((setStale s t).1.life = .stale ∧ s.life = .birthed) := by
  unfold setStale
  split
  · exact Or.inl ⟨rfl, rfl⟩
  · split
    · exact Or.inl ⟨rfl, rfl⟩
    · refine Or.inr ⟨rfl, ?_⟩
      cases h : s.life <;> simp_all

theorem setStale_eff (s : St) (t : Nat) :
    ∀ e ∈ (setStale s t).2, isMsgEff e = false ∧ e ≠ Eff.ncmd := by
  unfold setStale
  split
  · simp
  · split
    · simp
    · intro e he
      simp only [List.mem_append, List.mem_map, List.mem_singleton] at he
      rcases he with (he | he) | ⟨d, _, he⟩
      · rw [cancelTimer_eff _ e he]; simp [isMsgEff]
      · subst he; simp [isMsgEff]
      · subst he; simp [isMsgEff]

theorem issueRebirth_cases (c : Cfg) (s : St) (r : Reason) (now wall : Nat) :
    (issueRebirth c s r now wall).1 = s ∨
    (issueRebirth c s r now wall).1.life = .stale ∨
    (issueRebirth c s r now wall).1 = { s with lastRebirth := wall } := by
  unfold issueRebirth
  split
  · exact Or.inl rfl
  · split
    · exact Or.inl rfl
    · rcases setStale_cases { s with lastRebirth := wall } now with ⟨h, _⟩ | ⟨h, _⟩
      · exact Or.inr (Or.inr h)
      · exact Or.inr (Or.inl h)

theorem issueRebirth_eff (c : Cfg) (s : St) (r : Reason) (now wall : Nat) :
    ∀ e ∈ (issueRebirth c s r now wall).2, isMsgEff e = false := by
  unfold issueRebirth
  split
  · simp
  · split
    · simp
    · intro e he
      simp only [List.mem_append, List.mem_singleton] at he
      rcases he with he | he
      · exact (setStale_eff _ _ e he).1
      · subst he; rfl

/-- if the node is still birthed after `issueRebirth`, the resequencer was not touched -/
theorem issueRebirth_reseq (c : Cfg) (s : St) (r : Reason) (now wall : Nat)
    (h : (issueRebirth c s r now wall).1.life = .birthed) :
    (issueRebirth c s r now wall).1.reseq = s.reseq := by
  rcases issueRebirth_cases c s r now wall with h1 | h1 | h1
  · rw [h1]
  · rw [h1] at h; cases h
  · rw [h1]

theorem setStale_reseq (s : St) (t : Nat) (h : (setStale s t).1.life = .birthed) :
    (setStale s t).1.reseq = s.reseq := by
  rcases setStale_cases s t with ⟨h1, _⟩ | ⟨h1, _⟩
  · rw [h1]
  · rw [h1] at h; cases h

/-! ### `apply` only reads and writes `devices` -/

theorem apply_fst (s : St) (m : RMsg) :
    (apply s m).1 = { s with devices := (apply s m).1.devices } := by
  cases m with
  | ndata id ans => rfl
  | dbirth d id ans =>
    simp only [apply]
    split <;> rfl
  | ddeath d id =>
    simp only [apply]
    split <;> rfl
  | ddata d id ans =>
    simp only [apply]
    split <;> rfl

theorem apply_reseq (s : St) (m : RMsg) : (apply s m).1.reseq = s.reseq := by
  rw [apply_fst]

theorem apply_congr (s s' : St) (m : RMsg) (h : s.devices = s'.devices) :
    (apply s m).1.devices = (apply s' m).1.devices ∧ (apply s m).2 = (apply s' m).2 := by
  cases m with
  | ndata id ans => exact ⟨h, rfl⟩
  | dbirth d id ans =>
    simp only [apply, h]
    split <;> exact ⟨rfl, rfl⟩
  | ddeath d id =>
    simp only [apply, h]
    split <;> first | exact ⟨rfl, rfl⟩ | exact ⟨h, rfl⟩
  | ddata d id ans =>
    simp only [apply, h]
    split <;> first | exact ⟨rfl, rfl⟩ | exact ⟨h, rfl⟩

theorem apply_eff (s : St) (m : RMsg) :
    ∀ e ∈ (apply s m).2.1, e.observable = true ∧ e ≠ Eff.ncmd := by
  cases m with
  | ndata id ans => simp [apply, Eff.observable]
  | dbirth d id ans =>
    simp only [apply]
    split <;> split <;> simp [Eff.observable]
  | ddeath d id =>
    simp only [apply]
    split <;> simp [Eff.observable]
  | ddata d id ans =>
    simp only [apply]
    split <;> simp [Eff.observable]

theorem apply_cnt (s : St) (m : RMsg) : ((apply s m).2.1.filter isMsgEff).length ≤ 1 := by
  cases m with
  | ndata id ans => simp [apply, List.filter, isMsgEff]
  | dbirth d id ans =>
    simp only [apply]
    split <;> split <;> simp [List.filter, isMsgEff]
  | ddeath d id =>
    simp only [apply]
    split <;> simp [List.filter, isMsgEff]
  | ddata d id ans =>
    simp only [apply]
    split <;> simp [List.filter, isMsgEff]

/-! ### one iteration of the host's drain loop / of its ghost `drainSeqs` -/

theorem drainBuf_msg_none (c : Cfg) (now fuel : Nat) (rel : Bool) (s s1 : St) (acc e1 : List Eff)
    (r' : Reseq.St (Nat × RMsg)) (m : Nat × RMsg)
    (hd : Reseq.drain s.reseq = (r', .msg m))
    (ha : apply { s with reseq := r' } m.2 = (s1, e1, none)) :
    drainBuf c now (fuel + 1) rel s acc = drainBuf c now fuel true s1 (acc ++ e1) := by
  simp only [drainBuf, hd, ha]

theorem drainBuf_msg_some (c : Cfg) (now fuel : Nat) (rel : Bool) (s s1 : St) (acc e1 : List Eff)
    (r' : Reseq.St (Nat × RMsg)) (m : Nat × RMsg) (r : Reason)
    (hd : Reseq.drain s.reseq = (r', .msg m))
    (ha : apply { s with reseq := r' } m.2 = (s1, e1, some r)) :
    drainBuf c now (fuel + 1) rel s acc = (s1, acc ++ e1, some r) := by
  simp only [drainBuf, hd, ha]

/-- the loop stops: the resequencer is left as `drain` left it, only timer effects are added,
nothing but the timer changes -/
theorem drainBuf_stop (c : Cfg) (now fuel : Nat) (rel : Bool) (s : St) (acc : List Eff)
    (r' : Reseq.St (Nat × RMsg)) (r : Reseq.DrainRes (Nat × RMsg))
    (hd : Reseq.drain s.reseq = (r', r)) (hr : ∀ m, r ≠ .msg m) :
    ∃ tm te, drainBuf c now (fuel + 1) rel s acc =
        ({ s with reseq := r', timer := tm }, acc ++ te, none) ∧
      ∀ e ∈ te, e = Eff.timerCancel ∨ e = Eff.timerStart := by
  cases r with
  | msg m => exact absurd rfl (hr m)
  | empty =>
    refine ⟨.none, (cancelTimer { s with reseq := r' }).2, ?_, ?_⟩
    · simp only [drainBuf, hd]
      rw [cancelTimer_fst]
    · intro e he; exact Or.inl (cancelTimer_eff _ e he)
  | missing =>
    cases rel with
    | false =>
      refine ⟨s.timer, [], ?_, by simp⟩
      simp [drainBuf, hd]
    | true =>
      refine ⟨(startTimer c (cancelTimer { s with reseq := r' }).1 now).1.timer,
        (cancelTimer { s with reseq := r' }).2 ++
          (startTimer c (cancelTimer { s with reseq := r' }).1 now).2, ?_, ?_⟩
      · simp only [drainBuf, hd, if_true, List.append_assoc]
        rw [startTimer_fst, cancelTimer_fst]
      · intro e he
        rcases List.mem_append.mp he with he | he
        · exact Or.inl (cancelTimer_eff _ e he)
        · exact Or.inr (startTimer_eff _ _ _ e he)
  | panic =>
    refine ⟨s.timer, [], ?_, by simp⟩
    simp [drainBuf, hd]

theorem drainSeqs_msg_none (fuel : Nat) (r r' : Reseq.St (Nat × RMsg)) (s s1 : St) (e1 : List Eff)
    (accN : List Nat) (m : Nat × RMsg)
    (hd : Reseq.drain r = (r', .msg m))
    (ha : apply { s with reseq := r' } m.2 = (s1, e1, none)) :
    drainSeqs (fuel + 1) r s accN = drainSeqs fuel r' s1 (accN ++ [m.1]) := by
  simp only [drainSeqs, hd, ha]

theorem drainSeqs_msg_some (fuel : Nat) (r r' : Reseq.St (Nat × RMsg)) (s s1 : St) (e1 : List Eff)
    (accN : List Nat) (m : Nat × RMsg) (rs : Reason)
    (hd : Reseq.drain r = (r', .msg m))
    (ha : apply { s with reseq := r' } m.2 = (s1, e1, some rs)) :
    drainSeqs (fuel + 1) r s accN = accN ++ [m.1] := by
  simp only [drainSeqs, hd, ha]

theorem drainSeqs_stop (fuel : Nat) (r r' : Reseq.St (Nat × RMsg)) (s : St)
    (accN : List Nat) (dr : Reseq.DrainRes (Nat × RMsg))
    (hd : Reseq.drain r = (r', dr)) (hr : ∀ m, dr ≠ .msg m) :
    drainSeqs (fuel + 1) r s accN = accN := by
  cases dr with
  | msg m => exact absurd rfl (hr m)
  | empty => simp only [drainSeqs, hd]
  | missing => simp only [drainSeqs, hd]
  | panic => simp only [drainSeqs, hd]

/-- a message released by `drain` carries the expected number, which then advances by one -/
theorem drain_msg_next (r r' : Reseq.St (Nat × RMsg)) (m : Nat × RMsg) (h : Reseq.Inv r)
    (hd : Reseq.drain r = (r', .msg m)) :
    m.1 = r.next ∧ r'.next = (r.next + 1) % 256 ∧ Reseq.Inv r' := by
  have h1 := (Reseq.step_release_in_order r .drain h trivial).1 m (by simp [Reseq.stepOp, hd])
  have h2 := Reseq.drain_inv r h
  rw [hd] at h2
  simp only [Reseq.stepOp, hd] at h1
  exact ⟨h1.1, h1.2, h2⟩

theorem drain_stop_same (r r' : Reseq.St (Nat × RMsg)) (dr : Reseq.DrainRes (Nat × RMsg))
    (hd : Reseq.drain r = (r', dr)) (hr : ∀ m, dr ≠ .msg m) : r' = r := by
  rcases Reseq.drain_cases r with ⟨off, m, t, _, _, hd'⟩ | ⟨dr', hd', _⟩
  · rw [hd'] at hd
    cases hd
    exact absurd rfl (hr m)
  · rw [hd'] at hd
    cases hd
    rfl

/-- **lock-step**: `drainBuf` and its ghost follow the same branches -/
theorem drain_lockstep (c : Cfg) (now n0 : Nat) : ∀ (fuel : Nat) (rel : Bool) (s : St)
    (acc : List Eff) (accN : List Nat), Reseq.Inv s.reseq →
    s.reseq.next = (n0 + accN.length) % 256 →
    (∀ k (hk : k < accN.length), accN[k] = (n0 + k) % 256) →
    (∀ k (hk : k < (drainSeqs fuel s.reseq s accN).length),
        (drainSeqs fuel s.reseq s accN)[k] = (n0 + k) % 256) ∧
    (drainBuf c now fuel rel s acc).1.reseq.next
        = (n0 + (drainSeqs fuel s.reseq s accN).length) % 256 ∧
    ((drainBuf c now fuel rel s acc).2.1.filter isMsgEff).length + accN.length
        ≤ (acc.filter isMsgEff).length + (drainSeqs fuel s.reseq s accN).length := by
  intro fuel
  induction fuel with
  | zero =>
    intro rel s acc accN _ hn hacc
    simp only [drainBuf, drainSeqs]
    exact ⟨hacc, hn, Nat.le_refl _⟩
  | succ fuel ih =>
    intro rel s acc accN hinv hn hacc
    cases hd : Reseq.drain s.reseq with
    | mk r' dr =>
    by_cases hmsg : ∃ m, dr = .msg m
    · obtain ⟨m, rfl⟩ := hmsg
      obtain ⟨hm1, hr'n, hr'inv⟩ := drain_msg_next _ _ _ hinv hd
      have hacc' : ∀ k (hk : k < (accN ++ [m.1]).length), (accN ++ [m.1])[k] = (n0 + k) % 256 := by
        intro k hk
        by_cases hk' : k < accN.length
        · rw [List.getElem_append_left hk']; exact hacc k hk'
        · have hk2 : k = accN.length := by simp at hk; omega
          subst hk2
          simp [hm1, hn]
      cases ha : apply { s with reseq := r' } m.2 with
      | mk s1 rest =>
      obtain ⟨e1, ro⟩ := rest
      have hs1 : s1.reseq = r' := by
        have := apply_reseq { s with reseq := r' } m.2
        rw [ha] at this; exact this
      have hcnt : (e1.filter isMsgEff).length ≤ 1 := by
        have := apply_cnt { s with reseq := r' } m.2
        rw [ha] at this; exact this
      cases ro with
      | none =>
        rw [drainBuf_msg_none c now fuel rel s s1 acc e1 r' m hd ha,
          drainSeqs_msg_none fuel s.reseq r' s s1 e1 accN m hd ha]
        have := ih true s1 (acc ++ e1) (accN ++ [m.1]) (hs1 ▸ hr'inv)
          (by rw [hs1, hr'n, hn]; simp; omega) hacc'
        rw [hs1] at this
        obtain ⟨h1, h2, h3⟩ := this
        refine ⟨h1, h2, ?_⟩
        simp only [List.filter_append, List.length_append, List.length_singleton] at h3
        omega
      | some rs =>
        rw [drainBuf_msg_some c now fuel rel s s1 acc e1 r' m rs hd ha,
          drainSeqs_msg_some fuel s.reseq r' s s1 e1 accN m rs hd ha]
        refine ⟨hacc', ?_, ?_⟩
        · simp only [hs1, hr'n, hn, List.length_append, List.length_singleton]; omega
        · simp only [List.filter_append, List.length_append, List.length_singleton]; omega
    · have hr : ∀ m, dr ≠ .msg m := fun m h => hmsg ⟨m, h⟩
      obtain ⟨tm, te, hdb, hte⟩ := drainBuf_stop c now fuel rel s acc r' dr hd hr
      rw [hdb, drainSeqs_stop fuel s.reseq r' s accN dr hd hr]
      have hsame := drain_stop_same _ _ _ hd hr
      refine ⟨hacc, by simp only [hsame, hn], ?_⟩
      have : te.filter isMsgEff = [] := by
        rw [List.filter_eq_nil_iff]
        intro e he
        rcases hte e he with h | h <;> subst h <;> simp [isMsgEff]
      simp only [List.filter_append, this, List.append_nil]
      omega

/-! ### branch equations for `handleRMsg` and its ghost `appliedSeqs` -/

section Branches
variable (c : Cfg) (s : St) (seq ts : Nat) (m : RMsg) (now : Nat)

theorem handleRMsg_old (h1 : ts < s.birthTs ∨ ts < s.staleTs) :
    handleRMsg c s seq ts m now = (s, [], none) := by
  simp only [handleRMsg, h1, if_true]

theorem appliedSeqs_old (h1 : ts < s.birthTs ∨ ts < s.staleTs) :
    appliedSeqs c s (.rmsg seq ts m) = [] := by
  simp only [appliedSeqs, h1, if_true]

theorem handleRMsg_stale (h1 : ¬ (ts < s.birthTs ∨ ts < s.staleTs)) (h2 : s.life ≠ .birthed) :
    handleRMsg c s seq ts m now = (s, [], some .recordedStateStale) := by
  simp only [handleRMsg, h1, if_false]
  rw [if_pos h2]

theorem appliedSeqs_stale (h1 : ¬ (ts < s.birthTs ∨ ts < s.staleTs)) (h2 : s.life ≠ .birthed) :
    appliedSeqs c s (.rmsg seq ts m) = [] := by
  simp only [appliedSeqs, h1, if_false]
  rw [if_pos h2]

theorem handleRMsg_noreseq (h1 : ¬ (ts < s.birthTs ∨ ts < s.staleTs)) (h2 : s.life = .birthed)
    (h3 : c.resequence = false) : handleRMsg c s seq ts m now = apply s m := by
  simp [handleRMsg, h1, h2, h3]

theorem appliedSeqs_noreseq (h1 : ¬ (ts < s.birthTs ∨ ts < s.staleTs)) (h2 : s.life = .birthed)
    (h3 : c.resequence = false) : appliedSeqs c s (.rmsg seq ts m) = [seq] := by
  simp [appliedSeqs, h1, h2, h3]

theorem handleRMsg_reseq (h1 : ¬ (ts < s.birthTs ∨ ts < s.staleTs)) (h2 : s.life = .birthed)
    (h3 : c.resequence = true) :
    handleRMsg c s seq ts m now =
      match Reseq.process s.reseq seq (seq, m) with
      | (r', .inserted) =>
        let s1 := { s with reseq := r' }
        match s1.timer with
        | .none => let (s2, e2) := startTimer c s1 now; (s2, e2, none)
        | _ => (s1, [], none)
      | (r', .dup) => ({ s with reseq := r' }, [], some .reorderFail)
      | (r', .next m') =>
        match apply { s with reseq := r' } m'.2 with
        | (s1, e1, some r) => (s1, e1, some r)
        | (s1, e1, none) => drainBuf c now (s1.reseq.buf.length + 1) false s1 e1 := by
  unfold handleRMsg
  rw [if_neg h1, if_neg (by simp [h2]), if_neg (by simp [h3])]
  rfl

theorem appliedSeqs_reseq (h1 : ¬ (ts < s.birthTs ∨ ts < s.staleTs)) (h2 : s.life = .birthed)
    (h3 : c.resequence = true) :
    appliedSeqs c s (.rmsg seq ts m) =
      match Reseq.process s.reseq seq (seq, m) with
      | (r', .next m') =>
        match apply { s with reseq := r' } m'.2 with
        | (_, _, some _) => [m'.1]
        | (s1, _, none) => drainSeqs (s1.reseq.buf.length + 1) s1.reseq s1 [m'.1]
      | _ => [] := by
  unfold appliedSeqs
  simp only
  rw [if_neg h1, if_neg (by simp [h2]), if_neg (by simp [h3])]
  rfl

theorem handleRMsg_inserted (h1 : ¬ (ts < s.birthTs ∨ ts < s.staleTs)) (h2 : s.life = .birthed)
    (h3 : c.resequence = true) (r' : Reseq.St (Nat × RMsg))
    (hp : Reseq.process s.reseq seq (seq, m) = (r', .inserted)) :
    ∃ tm te, handleRMsg c s seq ts m now = ({ s with reseq := r', timer := tm }, te, none) ∧
      ∀ e ∈ te, e = Eff.timerStart := by
  rw [handleRMsg_reseq c s seq ts m now h1 h2 h3]
  simp only [hp]
  cases htm : s.timer with
  | none =>
    refine ⟨(startTimer c { s with reseq := r' } now).1.timer,
      (startTimer c { s with reseq := r' } now).2, ?_, startTimer_eff _ _ _⟩
    simp only
    rw [startTimer_fst]
    simp [htm]
  | armed d => exact ⟨.armed d, [], by simp [← htm], by simp⟩
  | fired => exact ⟨.fired, [], by simp [← htm], by simp⟩

theorem appliedSeqs_inserted (h1 : ¬ (ts < s.birthTs ∨ ts < s.staleTs)) (h2 : s.life = .birthed)
    (h3 : c.resequence = true) (r' : Reseq.St (Nat × RMsg))
    (hp : Reseq.process s.reseq seq (seq, m) = (r', .inserted)) :
    appliedSeqs c s (.rmsg seq ts m) = [] := by
  rw [appliedSeqs_reseq c s seq ts m h1 h2 h3]
  simp only [hp]

theorem handleRMsg_dup (h1 : ¬ (ts < s.birthTs ∨ ts < s.staleTs)) (h2 : s.life = .birthed)
    (h3 : c.resequence = true) (r' : Reseq.St (Nat × RMsg))
    (hp : Reseq.process s.reseq seq (seq, m) = (r', .dup)) :
    handleRMsg c s seq ts m now = ({ s with reseq := r' }, [], some .reorderFail) := by
  rw [handleRMsg_reseq c s seq ts m now h1 h2 h3]
  simp only [hp]

theorem appliedSeqs_dup (h1 : ¬ (ts < s.birthTs ∨ ts < s.staleTs)) (h2 : s.life = .birthed)
    (h3 : c.resequence = true) (r' : Reseq.St (Nat × RMsg))
    (hp : Reseq.process s.reseq seq (seq, m) = (r', .dup)) :
    appliedSeqs c s (.rmsg seq ts m) = [] := by
  rw [appliedSeqs_reseq c s seq ts m h1 h2 h3]
  simp only [hp]

theorem handleRMsg_next_some (h1 : ¬ (ts < s.birthTs ∨ ts < s.staleTs)) (h2 : s.life = .birthed)
    (h3 : c.resequence = true) (r' : Reseq.St (Nat × RMsg)) (m' : Nat × RMsg)
    (hp : Reseq.process s.reseq seq (seq, m) = (r', .next m'))
    (s1 : St) (e1 : List Eff) (r : Reason)
    (ha : apply { s with reseq := r' } m'.2 = (s1, e1, some r)) :
    handleRMsg c s seq ts m now = (s1, e1, some r) := by
  rw [handleRMsg_reseq c s seq ts m now h1 h2 h3]
  simp only [hp, ha]

theorem appliedSeqs_next_some (h1 : ¬ (ts < s.birthTs ∨ ts < s.staleTs)) (h2 : s.life = .birthed)
    (h3 : c.resequence = true) (r' : Reseq.St (Nat × RMsg)) (m' : Nat × RMsg)
    (hp : Reseq.process s.reseq seq (seq, m) = (r', .next m'))
    (s1 : St) (e1 : List Eff) (r : Reason)
    (ha : apply { s with reseq := r' } m'.2 = (s1, e1, some r)) :
    appliedSeqs c s (.rmsg seq ts m) = [m'.1] := by
  rw [appliedSeqs_reseq c s seq ts m h1 h2 h3]
  simp only [hp, ha]

theorem handleRMsg_next_none (h1 : ¬ (ts < s.birthTs ∨ ts < s.staleTs)) (h2 : s.life = .birthed)
    (h3 : c.resequence = true) (r' : Reseq.St (Nat × RMsg)) (m' : Nat × RMsg)
    (hp : Reseq.process s.reseq seq (seq, m) = (r', .next m'))
    (s1 : St) (e1 : List Eff)
    (ha : apply { s with reseq := r' } m'.2 = (s1, e1, none)) :
    handleRMsg c s seq ts m now = drainBuf c now (s1.reseq.buf.length + 1) false s1 e1 := by
  rw [handleRMsg_reseq c s seq ts m now h1 h2 h3]
  simp only [hp, ha]

theorem appliedSeqs_next_none (h1 : ¬ (ts < s.birthTs ∨ ts < s.staleTs)) (h2 : s.life = .birthed)
    (h3 : c.resequence = true) (r' : Reseq.St (Nat × RMsg)) (m' : Nat × RMsg)
    (hp : Reseq.process s.reseq seq (seq, m) = (r', .next m'))
    (s1 : St) (e1 : List Eff)
    (ha : apply { s with reseq := r' } m'.2 = (s1, e1, none)) :
    appliedSeqs c s (.rmsg seq ts m) = drainSeqs (s1.reseq.buf.length + 1) s1.reseq s1 [m'.1] := by
  rw [appliedSeqs_reseq c s seq ts m h1 h2 h3]
  simp only [hp, ha]

end Branches

/-- what one resequenceable message does to the expected number, the applied numbers and the
number of store-touching effects -/
theorem handleRMsg_spec (c : Cfg) (s : St) (seq ts : Nat) (m : RMsg) (now : Nat)
    (hinv : Reseq.Inv s.reseq) (hseq : seq < 256) :
    ((handleRMsg c s seq ts m now).2.1.filter isMsgEff).length
        ≤ (appliedSeqs c s (.rmsg seq ts m)).length ∧
    (c.resequence = true →
      (∀ k (hk : k < (appliedSeqs c s (.rmsg seq ts m)).length),
        (appliedSeqs c s (.rmsg seq ts m))[k] = (s.reseq.next + k) % 256) ∧
      (handleRMsg c s seq ts m now).1.reseq.next
        = (s.reseq.next + (appliedSeqs c s (.rmsg seq ts m)).length) % 256) := by
  have hnext : s.reseq.next % 256 = s.reseq.next := Nat.mod_eq_of_lt hinv.1
  by_cases h1 : ts < s.birthTs ∨ ts < s.staleTs
  · rw [handleRMsg_old c s seq ts m now h1, appliedSeqs_old c s seq ts m h1]
    simp [hnext]
  by_cases h2 : s.life ≠ .birthed
  · rw [handleRMsg_stale c s seq ts m now h1 h2, appliedSeqs_stale c s seq ts m h1 h2]
    simp [hnext]
  have h2' : s.life = .birthed := by
    cases h : s.life <;> simp_all
  cases h3 : c.resequence with
  | false =>
    rw [handleRMsg_noreseq c s seq ts m now h1 h2' h3, appliedSeqs_noreseq c s seq ts m h1 h2' h3]
    exact ⟨apply_cnt s m, fun h => by cases h⟩
  | true =>
    rcases Reseq.process_cases s.reseq seq (seq, m) with ⟨hn, hp⟩ | ⟨s', hp, hn, _⟩ | ⟨s', hp, hn, _⟩
    · have hm0 : seq = (s.reseq.next + 0) % 256 := by rw [Nat.add_zero, hnext, hn]
      have hsing : ∀ k (hk : k < [seq].length), [seq][k] = (s.reseq.next + k) % 256 := by
        intro k hk
        have : k = 0 := by simpa using hk
        subst this
        simpa using hm0
      cases ha : apply { s with reseq := { s.reseq with next := Reseq.wadd s.reseq.next 1 } } m with
      | mk s1 rest =>
      obtain ⟨e1, ro⟩ := rest
      have hs1 : s1.reseq = { s.reseq with next := Reseq.wadd s.reseq.next 1 } := by
        have := apply_reseq { s with reseq := { s.reseq with next := Reseq.wadd s.reseq.next 1 } } m
        rw [ha] at this; exact this
      have hcnt : (e1.filter isMsgEff).length ≤ 1 := by
        have := apply_cnt { s with reseq := { s.reseq with next := Reseq.wadd s.reseq.next 1 } } m
        rw [ha] at this; exact this
      cases ro with
      | some r =>
        rw [handleRMsg_next_some c s seq ts m now h1 h2' h3 _ _ hp s1 e1 r ha,
          appliedSeqs_next_some c s seq ts m h1 h2' h3 _ _ hp s1 e1 r ha]
        refine ⟨hcnt, fun _ => ⟨hsing, ?_⟩⟩
        rw [hs1]; rfl
      | none =>
        rw [handleRMsg_next_none c s seq ts m now h1 h2' h3 _ _ hp s1 e1 ha,
          appliedSeqs_next_none c s seq ts m h1 h2' h3 _ _ hp s1 e1 ha]
        dsimp only
        have hinv1 : Reseq.Inv s1.reseq := by
          rw [hs1]
          have := Reseq.process_inv s.reseq seq m hinv hseq
          rw [hp] at this; exact this
        have := drain_lockstep c now s.reseq.next (s1.reseq.buf.length + 1) false s1 e1 [seq]
          hinv1 (by rw [hs1]; rfl) hsing
        obtain ⟨h4, h5, h6⟩ := this
        refine ⟨?_, fun _ => ⟨h4, h5⟩⟩
        simp only [List.length_singleton] at h6
        omega
    · obtain ⟨tm, te, he, hte⟩ := handleRMsg_inserted c s seq ts m now h1 h2' h3 s' hp
      rw [he, appliedSeqs_inserted c s seq ts m h1 h2' h3 s' hp]
      refine ⟨?_, fun _ => ⟨by simp, by simp [hn, hnext]⟩⟩
      have : te.filter isMsgEff = [] := by
        rw [List.filter_eq_nil_iff]
        intro e he
        rw [hte e he]; simp [isMsgEff]
      simp [this]
    · rw [handleRMsg_dup c s seq ts m now h1 h2' h3 s' hp,
        appliedSeqs_dup c s seq ts m h1 h2' h3 s' hp]
      simp [hn, hnext]

/-! ### `step` -/

theorem step_rmsg_eq (c : Cfg) (s : St) (seq ts : Nat) (m : RMsg) (now wall : Nat) :
    step c s (.rmsg seq ts m) now wall =
      match (handleRMsg c s seq ts m now).2.2 with
      | none => ((handleRMsg c s seq ts m now).1, (handleRMsg c s seq ts m now).2.1)
      | some r => ((issueRebirth c (handleRMsg c s seq ts m now).1 r now wall).1,
          (handleRMsg c s seq ts m now).2.1 ++
            (issueRebirth c (handleRMsg c s seq ts m now).1 r now wall).2) := by
  simp only [step]
  generalize handleRMsg c s seq ts m now = x
  obtain ⟨s1, e1, ro⟩ := x
  cases ro <;> rfl

theorem step_ndeath_fst (c : Cfg) (s : St) (bd : Nat) (now wall : Nat) :
    (step c s (.ndeath bd) now wall).1 =
      if bd ≠ (setStale (cancelTimer s).1 now).1.bdseq then
        (issueRebirth c (setStale (cancelTimer s).1 now).1 .outOfSyncBdSeq now wall).1
      else (setStale (cancelTimer s).1 now).1 := by
  simp only [step]
  split <;> rfl

/-- a step that is neither an NBIRTH nor a resequenceable message leaves the resequencer alone
unless the node ends up stale -/
theorem step_other_reseq (c : Cfg) (s : St) (i : In) (now wall : Nat)
    (hnb : ∀ ts bd id ans, i ≠ .nbirth ts bd id ans) (hnr : ∀ seq ts m, i ≠ .rmsg seq ts m)
    (hl : (step c s i now wall).1.life = .birthed) :
    (step c s i now wall).1.reseq = s.reseq := by
  cases i with
  | nbirth ts bd id ans => exact absurd rfl (hnb ts bd id ans)
  | rmsg seq ts m => exact absurd rfl (hnr seq ts m)
  | ndeath bd =>
    rw [step_ndeath_fst] at hl ⊢
    have h0 : (cancelTimer s).1.reseq = s.reseq := by rw [cancelTimer_fst]
    split at hl
    · rw [if_pos (by assumption)]
      have h1 := issueRebirth_reseq _ _ _ _ _ hl
      rcases issueRebirth_cases c (setStale (cancelTimer s).1 now).1 .outOfSyncBdSeq now wall
        with h2 | h2 | h2
      · rw [h2] at hl
        rw [h1, setStale_reseq _ _ hl, h0]
      · rw [h2] at hl; cases hl
      · rw [h2] at hl
        rw [h1, setStale_reseq _ _ hl, h0]
    · rw [if_neg (by assumption)]
      rw [setStale_reseq _ _ hl, h0]
  | offline => exact setStale_reseq _ _ hl
  | rebirthReq r => exact issueRebirth_reseq _ _ _ _ _ hl
  | timerFire =>
    simp only [step] at hl ⊢
    split
    · rename_i d hd
      rw [hd] at hl
      exact issueRebirth_reseq _ _ _ _ _ hl
    · rfl

theorem appliedSeqs_other (c : Cfg) (s : St) (i : In) (hnr : ∀ seq ts m, i ≠ .rmsg seq ts m) :
    appliedSeqs c s i = [] := by
  cases i with
  | rmsg seq ts m => exact absurd rfl (hnr seq ts m)
  | _ => rfl

theorem applied_consecutive (c : Cfg) (s : St) (i : In) (now wall : Nat) (hinv : HostInv s)
    (hwf : i.WF) (hres : c.resequence = true) :
    (∀ k (hk : k < (appliedSeqs c s i).length),
        (appliedSeqs c s i)[k] = (s.reseq.next + k) % 256) ∧
    ((step c s i now wall).1.life = .birthed → (∀ ts bd id ans, i ≠ .nbirth ts bd id ans) →
        (step c s i now wall).1.reseq.next = (s.reseq.next + (appliedSeqs c s i).length) % 256) := by
  by_cases hr : ∃ seq ts m, i = .rmsg seq ts m
  · obtain ⟨seq, ts, m, rfl⟩ := hr
    obtain ⟨_, h2⟩ := handleRMsg_spec c s seq ts m now hinv.1 hwf
    obtain ⟨h3, h4⟩ := h2 hres
    refine ⟨h3, fun hl _ => ?_⟩
    rw [step_rmsg_eq] at hl ⊢
    cases hro : (handleRMsg c s seq ts m now).2.2 with
    | none => exact h4
    | some r =>
      simp only [hro] at hl ⊢
      rw [issueRebirth_reseq _ _ _ _ _ hl, h4]
  · have hnr : ∀ seq ts m, i ≠ .rmsg seq ts m := fun seq ts m h => hr ⟨seq, ts, m, h⟩
    rw [appliedSeqs_other c s i hnr]
    refine ⟨fun k hk => by simp at hk, fun hl hnb => ?_⟩
    rw [step_other_reseq c s i now wall hnb hnr hl]
    simp [Nat.mod_eq_of_lt hinv.1.1]

theorem nbirth_restarts (c : Cfg) (s : St) (ts bd id : Nat) (ans : Ans) (now wall : Nat)
    (hnew : s.birthTs < ts) (hok : ans = .ok) :
    (step c s (.nbirth ts bd id ans) now wall).1.reseq = Reseq.setNext Reseq.init 1 ∧
    (step c s (.nbirth ts bd id ans) now wall).1.life = .birthed ∧
    (step c s (.nbirth ts bd id ans) now wall).1.birthTs = ts := by
  have h1 : ¬ ts ≤ s.birthTs := by omega
  simp only [step, handleBirth, h1, hok, if_false]
  simp

theorem effects_bounded (c : Cfg) (s : St) (seq ts : Nat) (m : RMsg) (now wall : Nat)
    (hinv : HostInv s) (hseq : seq < 256) :
    ((step c s (.rmsg seq ts m) now wall).2.filter isMsgEff).length
      ≤ (appliedSeqs c s (.rmsg seq ts m)).length := by
  obtain ⟨h1, _⟩ := handleRMsg_spec c s seq ts m now hinv.1 hseq
  rw [step_rmsg_eq]
  cases hro : (handleRMsg c s seq ts m now).2.2 with
  | none => exact h1
  | some r =>
    simp only [List.filter_append, List.length_append]
    have : (issueRebirth c (handleRMsg c s seq ts m now).1 r now wall).2.filter isMsgEff = [] := by
      rw [List.filter_eq_nil_iff]
      intro e he
      simp [issueRebirth_eff _ _ _ _ _ e he]
    rw [this]
    simpa using h1

/-! ### `applyAll` -/

theorem apply_sim (s t : St) (m : RMsg) (hdev : s.devices = t.devices) :
    apply s m = ({ s with devices := (apply t m).1.devices }, (apply t m).2.1, (apply t m).2.2) := by
  obtain ⟨h1, h2⟩ := apply_congr s t m hdev
  have h3 := apply_fst s m
  rw [h1] at h3
  rw [← h2, ← h3]

theorem applyAll_cons_none (s : St) (m : RMsg) (l : List RMsg) (h : (apply s m).2.2 = none) :
    applyAll s (m :: l) = ((applyAll (apply s m).1 l).1,
      (apply s m).2.1 ++ (applyAll (apply s m).1 l).2.1, (applyAll (apply s m).1 l).2.2) := by
  cases ha : apply s m with
  | mk s1 rest =>
  obtain ⟨e1, ro⟩ := rest
  rw [ha] at h
  simp only at h
  subst h
  simp only [applyAll, ha]

theorem applyAll_cons_some (s : St) (m : RMsg) (l : List RMsg) (r : Reason)
    (h : (apply s m).2.2 = some r) : (applyAll s (m :: l)).2.2 = some r := by
  cases ha : apply s m with
  | mk s1 rest =>
  obtain ⟨e1, ro⟩ := rest
  rw [ha] at h
  simp only at h
  subst h
  simp only [applyAll, ha]

theorem applyAll_cons_clean (s : St) (m : RMsg) (l : List RMsg)
    (h : (applyAll s (m :: l)).2.2 = none) :
    (apply s m).2.2 = none ∧ (applyAll (apply s m).1 l).2.2 = none := by
  cases hr : (apply s m).2.2 with
  | some r => rw [applyAll_cons_some s m l r hr] at h; cases h
  | none =>
    rw [applyAll_cons_none s m l hr] at h
    exact ⟨rfl, h⟩

theorem applyAll_append (s : St) (l1 l2 : List RMsg) (h : (applyAll s l1).2.2 = none) :
    applyAll s (l1 ++ l2) = ((applyAll (applyAll s l1).1 l2).1,
      (applyAll s l1).2.1 ++ (applyAll (applyAll s l1).1 l2).2.1,
      (applyAll (applyAll s l1).1 l2).2.2) := by
  induction l1 generalizing s with
  | nil => simp [applyAll]
  | cons m t ih =>
    obtain ⟨h1, h2⟩ := applyAll_cons_clean s m t h
    rw [List.cons_append, applyAll_cons_none s m _ h1, applyAll_cons_none s m t h1, ih _ h2]
    simp

theorem applyAll_prefix_clean (s : St) (l1 l2 : List RMsg)
    (h : (applyAll s (l1 ++ l2)).2.2 = none) : (applyAll s l1).2.2 = none := by
  induction l1 generalizing s with
  | nil => rfl
  | cons m t ih =>
    rw [List.cons_append] at h
    obtain ⟨h1, h2⟩ := applyAll_cons_clean s m _ h
    rw [applyAll_cons_none s m t h1]
    exact ih _ h2

theorem applyAll_congr (s s' : St) (l : List RMsg) (h : s.devices = s'.devices) :
    (applyAll s l).1.devices = (applyAll s' l).1.devices ∧ (applyAll s l).2 = (applyAll s' l).2 := by
  induction l generalizing s s' with
  | nil => exact ⟨h, rfl⟩
  | cons m t ih =>
    obtain ⟨h1, h2⟩ := apply_congr s s' m h
    cases hr : (apply s m).2.2 with
    | none =>
      have hr' : (apply s' m).2.2 = none := by rw [← h2]; exact hr
      obtain ⟨h3, h4⟩ := ih _ _ h1
      rw [applyAll_cons_none s m t hr, applyAll_cons_none s' m t hr']
      simp only [h3, h4, h2, and_self]
    | some r =>
      have hr' : (apply s' m).2.2 = some r := by rw [← h2]; exact hr
      have e1 : applyAll s (m :: t) = apply s m := by
        cases ha : apply s m with
        | mk s1 rest =>
        obtain ⟨e1, ro⟩ := rest
        rw [ha] at hr; simp only at hr; subst hr
        simp only [applyAll, ha]
      have e2 : applyAll s' (m :: t) = apply s' m := by
        cases ha : apply s' m with
        | mk s1 rest =>
        obtain ⟨e1, ro⟩ := rest
        rw [ha] at hr'; simp only at hr'; subst hr'
        simp only [applyAll, ha]
      rw [e1, e2]
      exact ⟨h1, h2⟩

theorem applyAll_eff (s : St) (l : List RMsg) :
    ∀ e ∈ (applyAll s l).2.1, e.observable = true ∧ e ≠ Eff.ncmd := by
  induction l generalizing s with
  | nil => simp [applyAll]
  | cons m t ih =>
    cases hr : (apply s m).2.2 with
    | none =>
      rw [applyAll_cons_none s m t hr]
      intro e he
      rcases List.mem_append.mp he with he | he
      · exact apply_eff s m e he
      · exact ih _ e he
    | some r =>
      have e1 : applyAll s (m :: t) = apply s m := by
        cases ha : apply s m with
        | mk s1 rest =>
        obtain ⟨e1, ro⟩ := rest
        rw [ha] at hr; simp only at hr; subst hr
        simp only [applyAll, ha]
      rw [e1]
      exact apply_eff s m

theorem filter_observable_eq (l : List Eff) (h : ∀ e ∈ l, e.observable = true ∧ e ≠ Eff.ncmd) :
    l.filter Eff.observable = l :=
  List.filter_eq_self.mpr (fun e he => (h e he).1)

theorem filter_timer_nil (te : List Eff) (h : ∀ e ∈ te, e = Eff.timerCancel ∨ e = Eff.timerStart) :
    te.filter Eff.observable = [] ∧ Eff.ncmd ∉ te := by
  refine ⟨?_, ?_⟩
  · rw [List.filter_eq_nil_iff]
    intro e he
    rcases h e he with h | h <;> subst h <;> simp [Eff.observable]
  · intro hmem
    rcases h _ hmem with h | h <;> cases h

theorem range_split (k k1 : Nat) (h : k ≤ k1) :
    List.range k1 = List.range k ++ List.range' k (k1 - k) := by
  have h1 : k1 = k + (k1 - k) := by omega
  conv => lhs; rw [h1, List.range_eq_range', ← List.range'_append_1]
  simp [List.range_eq_range']

theorem range'_split (k k1 : Nat) (h : k < k1) :
    List.range' k (k1 - k) = k :: List.range' (k + 1) (k1 - (k + 1)) := by
  have : k1 - k = (k1 - (k + 1)) + 1 := by omega
  rw [this, List.range'_succ]

/-! ### promptness: the host's drain loop against the resequencer's `PInv` -/

/-- Host drain loop, started with `k` messages already applied, arrived set `A` whose first
missing index is `k1`, reference state `t` (same devices): it applies exactly
`msgs k … msgs (k1-1)` in order (given that this raises no reason) and stops. -/
theorem hostDrain_spec (c : Cfg) (now : Nat) (msgs : Nat → RMsg) (A : List Nat) (k1 : Nat)
    (hk1n : k1 ∉ A) :
    ∀ (fuel k : Nat) (rel : Bool) (s t : St) (acc : List Eff),
      Reseq.PInv 1 msgs A k s.reseq → s.reseq.buf.length < fuel → k ≤ k1 →
      (∀ j, k ≤ j → j < k1 → j ∈ A) → s.devices = t.devices →
      (applyAll t ((List.range' k (k1 - k)).map msgs)).2.2 = none →
      (drainBuf c now fuel rel s acc).2.2 = none ∧
      (drainBuf c now fuel rel s acc).1.devices
        = (applyAll t ((List.range' k (k1 - k)).map msgs)).1.devices ∧
      Reseq.PInv 1 msgs A k1 (drainBuf c now fuel rel s acc).1.reseq ∧
      (drainBuf c now fuel rel s acc).1.life = s.life ∧
      (drainBuf c now fuel rel s acc).1.birthTs = s.birthTs ∧
      (drainBuf c now fuel rel s acc).1.staleTs = s.staleTs ∧
      (drainBuf c now fuel rel s acc).2.1.filter Eff.observable
        = acc.filter Eff.observable ++ (applyAll t ((List.range' k (k1 - k)).map msgs)).2.1 ∧
      (Eff.ncmd ∉ acc → Eff.ncmd ∉ (drainBuf c now fuel rel s acc).2.1) := by
  intro fuel
  induction fuel with
  | zero => intro k rel s t acc _ hf; omega
  | succ fuel ih =>
    intro k rel s t acc hP hf hkk1 hmem hdev hclean
    by_cases hlt : k < k1
    · have hkA : k ∈ A := hmem k (Nat.le_refl _) hlt
      obtain ⟨r', hd, hP', hlen⟩ := Reseq.drain_step_mem 1 msgs A k s.reseq hP hkA
      rw [range'_split k k1 hlt, List.map_cons] at hclean ⊢
      obtain ⟨hc1, hc2⟩ := applyAll_cons_clean t (msgs k) _ hclean
      rw [applyAll_cons_none t (msgs k) _ hc1]
      have ha := apply_sim { s with reseq := r' } t (msgs k) hdev
      rw [hc1] at ha
      rw [drainBuf_msg_none c now fuel rel s _ acc _ r' (Reseq.runMsg 1 msgs k) hd ha]
      have := ih (k + 1) true
        { s with reseq := r', devices := (apply t (msgs k)).1.devices } (apply t (msgs k)).1
        (acc ++ (apply t (msgs k)).2.1) hP' (by simp only; omega) (by omega)
        (fun j h1 h2 => hmem j (by omega) h2) rfl hc2
      obtain ⟨h1, h2, h3, h4, h5, h6, h7, h8⟩ := this
      refine ⟨h1, h2, h3, h4, h5, h6, ?_, ?_⟩
      · rw [h7, List.filter_append, filter_observable_eq _ (apply_eff t (msgs k)),
          List.append_assoc]
      · intro hn
        apply h8
        intro hmem'
        rcases List.mem_append.mp hmem' with h | h
        · exact hn h
        · exact (apply_eff t (msgs k) _ h).2 rfl
    · have hkeq : k = k1 := by omega
      subst hkeq
      obtain ⟨dr, hd, hdr⟩ := Reseq.drain_step_nmem 1 msgs A k s.reseq hP hk1n
      obtain ⟨tm, te, hdb, hte⟩ := drainBuf_stop c now fuel rel s acc s.reseq dr hd hdr
      obtain ⟨hte1, hte2⟩ := filter_timer_nil te hte
      rw [hdb]
      simp only [Nat.sub_self, List.range'_zero, List.map_nil, applyAll, List.append_nil,
        List.filter_append, hte1]
      refine ⟨trivial, hdev, hP, trivial, trivial, trivial, trivial, ?_⟩
      intro hn hmem'
      rcases List.mem_append.mp hmem' with h | h
      · exact hn h
      · exact hte2 h

/-- One delivery of message `i` of the session to a birthed node whose resequencer satisfies
`PInv … A k`; `k1` is the first index missing from `i :: A`, `t` a reference state with the same
devices. The arrival applies exactly `msgs k … msgs (k1-1)`, raises nothing. -/
theorem hostHandle_spec (c : Cfg) (msgs : Nat → RMsg) (A : List Nat) (k i k1 : Nat) (s t : St)
    (ts now : Nat) (hres : c.resequence = true) (hl : s.life = .birthed) (hfresh : Fresh s ts)
    (hP : Reseq.PInv 1 msgs A k s.reseq) (hk : k ∉ A) (hi : i ∉ A) (hiw : i < k + 256)
    (hkk1 : k ≤ k1) (hmem : ∀ j, k ≤ j → j < k1 → j ∈ i :: A) (hk1n : k1 ∉ i :: A)
    (hdev : s.devices = t.devices)
    (hclean : (applyAll t ((List.range' k (k1 - k)).map msgs)).2.2 = none) :
    (handleRMsg c s ((1 + i) % 256) ts (msgs i) now).2.2 = none ∧
    (handleRMsg c s ((1 + i) % 256) ts (msgs i) now).1.devices
      = (applyAll t ((List.range' k (k1 - k)).map msgs)).1.devices ∧
    Reseq.PInv 1 msgs (i :: A) k1 (handleRMsg c s ((1 + i) % 256) ts (msgs i) now).1.reseq ∧
    (handleRMsg c s ((1 + i) % 256) ts (msgs i) now).1.life = .birthed ∧
    (handleRMsg c s ((1 + i) % 256) ts (msgs i) now).1.birthTs = s.birthTs ∧
    (handleRMsg c s ((1 + i) % 256) ts (msgs i) now).1.staleTs = s.staleTs ∧
    (handleRMsg c s ((1 + i) % 256) ts (msgs i) now).2.1.filter Eff.observable
      = (applyAll t ((List.range' k (k1 - k)).map msgs)).2.1 ∧
    Eff.ncmd ∉ (handleRMsg c s ((1 + i) % 256) ts (msgs i) now).2.1 := by
  have h1 : ¬ (ts < s.birthTs ∨ ts < s.staleTs) := by
    obtain ⟨ha, hb⟩ := hfresh
    omega
  by_cases hik : i = k
  · subst hik
    obtain ⟨r1, hp, hP1⟩ := Reseq.process_next 1 msgs A i s.reseq hP hk
    have hlt : i < k1 := by
      rcases Nat.lt_or_ge i k1 with h | h
      · exact h
      · have : k1 = i := by omega
        exact absurd (this ▸ List.mem_cons_self ..) hk1n
    rw [range'_split i k1 hlt, List.map_cons] at hclean ⊢
    obtain ⟨hc1, hc2⟩ := applyAll_cons_clean t (msgs i) _ hclean
    rw [applyAll_cons_none t (msgs i) _ hc1]
    have ha := apply_sim { s with reseq := r1 } t (msgs i) hdev
    rw [hc1] at ha
    rw [handleRMsg_next_none c s ((1 + i) % 256) ts (msgs i) now h1 hl hres r1
      (Reseq.runMsg 1 msgs i) hp _ _ ha]
    have := hostDrain_spec c now msgs (i :: A) k1 hk1n (r1.buf.length + 1) (i + 1) false
      { s with reseq := r1, devices := (apply t (msgs i)).1.devices } (apply t (msgs i)).1
      (apply t (msgs i)).2.1 hP1 (by simp only; omega) (by omega)
      (fun j h1 h2 => hmem j (by omega) h2) rfl hc2
    obtain ⟨h1', h2, h3, h4, h5, h6, h7, h8⟩ := this
    refine ⟨h1', h2, h3, h4.trans hl, h5, h6, ?_, ?_⟩
    · rw [h7, filter_observable_eq _ (apply_eff t (msgs i))]
    · exact h8 (fun h => (apply_eff t (msgs i) _ h).2 rfl)
  · obtain ⟨r1, hp, hP1⟩ := Reseq.process_ins 1 msgs A k i s.reseq hP hi hiw hik
    have hkeq : k1 = k := by
      rcases Nat.lt_or_ge k k1 with h | h
      · have := hmem k (Nat.le_refl _) h
        rcases List.mem_cons.mp this with h' | h'
        · exact absurd h'.symm hik
        · exact absurd h' hk
      · omega
    subst hkeq
    obtain ⟨tm, te, he, hte⟩ :=
      handleRMsg_inserted c s ((1 + i) % 256) ts (msgs i) now h1 hl hres r1 hp
    obtain ⟨hte1, hte2⟩ := filter_timer_nil te (fun e h => Or.inr (hte e h))
    rw [he]
    simp only [Nat.sub_self, List.range'_zero, List.map_nil, applyAll]
    exact ⟨trivial, hdev, hP1, hl, trivial, trivial, hte1, hte2⟩

theorem hostStep_spec (c : Cfg) (msgs : Nat → RMsg) (A : List Nat) (k i k1 : Nat) (s t : St)
    (ts now wall : Nat) (hres : c.resequence = true) (hl : s.life = .birthed)
    (hfresh : Fresh s ts)
    (hP : Reseq.PInv 1 msgs A k s.reseq) (hk : k ∉ A) (hi : i ∉ A) (hiw : i < k + 256)
    (hkk1 : k ≤ k1) (hmem : ∀ j, k ≤ j → j < k1 → j ∈ i :: A) (hk1n : k1 ∉ i :: A)
    (hdev : s.devices = t.devices)
    (hclean : (applyAll t ((List.range' k (k1 - k)).map msgs)).2.2 = none) :
    (step c s (.rmsg ((1 + i) % 256) ts (msgs i)) now wall).1.devices
      = (applyAll t ((List.range' k (k1 - k)).map msgs)).1.devices ∧
    Reseq.PInv 1 msgs (i :: A) k1 (step c s (.rmsg ((1 + i) % 256) ts (msgs i)) now wall).1.reseq ∧
    (step c s (.rmsg ((1 + i) % 256) ts (msgs i)) now wall).1.life = .birthed ∧
    (step c s (.rmsg ((1 + i) % 256) ts (msgs i)) now wall).1.birthTs = s.birthTs ∧
    (step c s (.rmsg ((1 + i) % 256) ts (msgs i)) now wall).1.staleTs = s.staleTs ∧
    (step c s (.rmsg ((1 + i) % 256) ts (msgs i)) now wall).2.filter Eff.observable
      = (applyAll t ((List.range' k (k1 - k)).map msgs)).2.1 ∧
    Eff.ncmd ∉ (step c s (.rmsg ((1 + i) % 256) ts (msgs i)) now wall).2 := by
  obtain ⟨h0, h⟩ := hostHandle_spec c msgs A k i k1 s t ts now hres hl hfresh hP hk hi hiw hkk1
    hmem hk1n hdev hclean
  rw [step_rmsg_eq]
  simp only [h0]
  exact h

/-! ### the whole delivery -/

theorem run_cons (c : Cfg) (s : St) (e : Ev) (es : List Ev) :
    run c s (e :: es) = ((run c (step c s e.inp e.now e.wall).1 es).1,
      (step c s e.inp e.now e.wall).2 ++ (run c (step c s e.inp e.now e.wall).1 es).2) := rfl

theorem run_append (c : Cfg) (s : St) (l1 l2 : List Ev) :
    run c s (l1 ++ l2) = ((run c (run c s l1).1 l2).1,
      (run c s l1).2 ++ (run c (run c s l1).1 l2).2) := by
  induction l1 generalizing s with
  | nil => simp [run]
  | cons e es ih =>
    rw [List.cons_append, run_cons, ih, run_cons]
    simp

theorem run_single (c : Cfg) (s : St) (e : Ev) :
    run c s [e] = step c s e.inp e.now e.wall := by
  rw [run_cons]
  simp [run]

theorem mexOf_mono (A B : List Nat) (h : ∀ i ∈ A, i ∈ B) : Reseq.mexOf A ≤ Reseq.mexOf B := by
  rcases Nat.lt_or_ge (Reseq.mexOf B) (Reseq.mexOf A) with hlt | hge
  · exact absurd (h _ ((Reseq.mexOf_spec A).1 _ hlt)) (Reseq.mexOf_spec B).2
  · exact hge

theorem prompt_take (c : Cfg) (s0 : St) (ts : Nat → Nat) (msgs : Nat → RMsg)
    (clk : Nat → Nat × Nat) (arr : List Nat)
    (hres : c.resequence = true) (hb : s0.life = .birthed)
    (hstart : s0.reseq = Reseq.setNext Reseq.init 1)
    (hnodup : arr.Nodup) (hwin : Reseq.WindowOk arr) (hfresh : ∀ i ∈ arr, Fresh s0 (ts i))
    (hclean : (applyAll s0 ((List.range (Reseq.mexOf arr)).map msgs)).2.2 = none) :
    ∀ n, n ≤ arr.length →
      (run c s0 ((arr.take n).map (sessEv ts msgs clk))).1.life = .birthed ∧
      (run c s0 ((arr.take n).map (sessEv ts msgs clk))).1.birthTs = s0.birthTs ∧
      (run c s0 ((arr.take n).map (sessEv ts msgs clk))).1.staleTs = s0.staleTs ∧
      (run c s0 ((arr.take n).map (sessEv ts msgs clk))).1.devices
        = (applyAll s0 ((List.range (Reseq.mexOf (arr.take n))).map msgs)).1.devices ∧
      Reseq.PInv 1 msgs (arr.take n) (Reseq.mexOf (arr.take n))
        (run c s0 ((arr.take n).map (sessEv ts msgs clk))).1.reseq ∧
      (run c s0 ((arr.take n).map (sessEv ts msgs clk))).2.filter Eff.observable
        = (applyAll s0 ((List.range (Reseq.mexOf (arr.take n))).map msgs)).2.1 ∧
      Eff.ncmd ∉ (run c s0 ((arr.take n).map (sessEv ts msgs clk))).2 := by
  intro n
  induction n with
  | zero =>
    intro _
    have h0 : Reseq.mexOf ([] : List Nat) = 0 := by decide
    simp only [List.take_zero, List.map_nil, run, h0, List.range_zero, applyAll, List.filter_nil,
      List.not_mem_nil, not_false_eq_true, and_true, true_and]
    refine ⟨hb, ?_⟩
    rw [hstart]
    exact ⟨(by intro i hi; omega), (by intro i hi; cases hi), rfl,
      Or.inl ⟨rfl, rfl, (by intro i hi; cases hi)⟩⟩
  | succ n ih =>
    intro hn
    have hn' : n < arr.length := by omega
    obtain ⟨il, ib, ist, idev, iP, ieff, incmd⟩ := ih (by omega)
    have htake : arr.take (n + 1) = arr.take n ++ [arr[n]] :=
      List.take_succ_eq_append_getElem hn'
    have hnd : (arr.take n ++ [arr[n]]).Nodup := by
      rw [← htake]; exact hnodup.sublist (List.take_sublist _ _)
    have hi : arr[n] ∉ arr.take n := by
      intro hmem
      have := (List.nodup_append.mp hnd).2.2 _ hmem _ (List.mem_singleton.mpr rfl)
      exact this rfl
    have hAB : ∀ i, i ∈ arr[n] :: arr.take n ↔ i ∈ arr.take (n + 1) := by
      intro i; rw [htake, List.mem_cons, List.mem_append, List.mem_singleton, or_comm]
    have hk := (Reseq.mexOf_spec (arr.take n)).2
    have hkk1 : Reseq.mexOf (arr.take n) ≤ Reseq.mexOf (arr.take (n + 1)) :=
      mexOf_mono _ _ (fun i hi => (hAB i).mp (List.mem_cons_of_mem _ hi))
    have hk1arr : Reseq.mexOf (arr.take (n + 1)) ≤ Reseq.mexOf arr :=
      mexOf_mono _ _ (fun i hi => List.mem_of_mem_take hi)
    obtain ⟨hs1, hs2⟩ := Reseq.mexOf_spec (arr.take (n + 1))
    -- cleanliness of the relevant prefixes
    have hc1 : (applyAll s0 ((List.range (Reseq.mexOf (arr.take (n + 1)))).map msgs)).2.2 = none := by
      rw [range_split _ _ hk1arr, List.map_append] at hclean
      exact applyAll_prefix_clean _ _ _ hclean
    have hc0 : (applyAll s0 ((List.range (Reseq.mexOf (arr.take n))).map msgs)).2.2 = none := by
      rw [range_split _ _ hkk1, List.map_append] at hc1
      exact applyAll_prefix_clean _ _ _ hc1
    have happ := applyAll_append s0 ((List.range (Reseq.mexOf (arr.take n))).map msgs)
      ((List.range' (Reseq.mexOf (arr.take n))
        (Reseq.mexOf (arr.take (n + 1)) - Reseq.mexOf (arr.take n))).map msgs) hc0
    rw [← List.map_append, ← range_split _ _ hkk1] at happ
    have hc2 : (applyAll (applyAll s0 ((List.range (Reseq.mexOf (arr.take n))).map msgs)).1
        ((List.range' (Reseq.mexOf (arr.take n))
          (Reseq.mexOf (arr.take (n + 1)) - Reseq.mexOf (arr.take n))).map msgs)).2.2 = none := by
      rw [happ] at hc1; exact hc1
    have hstep := hostStep_spec c msgs (arr.take n) (Reseq.mexOf (arr.take n)) arr[n]
      (Reseq.mexOf (arr.take (n + 1)))
      (run c s0 ((arr.take n).map (sessEv ts msgs clk))).1
      (applyAll s0 ((List.range (Reseq.mexOf (arr.take n))).map msgs)).1
      (ts arr[n]) (clk arr[n]).1 (clk arr[n]).2 hres il
      (by have := hfresh arr[n] (List.getElem_mem hn'); unfold Fresh at this ⊢; rw [ib, ist]; exact this)
      iP hk hi (hwin n hn') hkk1
      (fun j _ h2 => (hAB j).mpr (hs1 j h2)) (fun h => hs2 ((hAB _).mp h)) idev hc2
    obtain ⟨h1, h2, h3, h4, h5, h6, h7⟩ := hstep
    rw [htake, List.map_append, run_append, List.map_singleton, run_single, ← htake]
    simp only [sessEv]
    rw [happ]
    refine ⟨h3, h4.trans ib, h5.trans ist, h1, Reseq.PInv_congr _ _ _ _ _ _ hAB h2, ?_, ?_⟩
    · rw [List.filter_append, ieff, h6]
    · intro hmem
      rcases List.mem_append.mp hmem with h | h
      · exact incmd h
      · exact h7 h

theorem prompt_in_order (c : Cfg) (s0 : St) (ts : Nat → Nat) (msgs : Nat → RMsg)
    (clk : Nat → Nat × Nat) (arr : List Nat)
    (hres : c.resequence = true) (hb : s0.life = .birthed)
    (hstart : s0.reseq = Reseq.setNext Reseq.init 1)
    (hnodup : arr.Nodup) (hwin : Reseq.WindowOk arr) (hfresh : ∀ i ∈ arr, Fresh s0 (ts i))
    (hclean : (applyAll s0 ((List.range (Reseq.mexOf arr)).map msgs)).2.2 = none) :
    ((run c s0 (arr.map (sessEv ts msgs clk))).2.filter Eff.observable
        = (applyAll s0 ((List.range (Reseq.mexOf arr)).map msgs)).2.1) ∧
    Eff.ncmd ∉ (run c s0 (arr.map (sessEv ts msgs clk))).2 ∧
    (run c s0 (arr.map (sessEv ts msgs clk))).1.life = .birthed ∧
    (run c s0 (arr.map (sessEv ts msgs clk))).1.reseq.next = (1 + Reseq.mexOf arr) % 256 := by
  have := prompt_take c s0 ts msgs clk arr hres hb hstart hnodup hwin hfresh hclean arr.length
    (Nat.le_refl _)
  rw [List.take_length] at this
  obtain ⟨h1, _, _, _, h5, h6, h7⟩ := this
  exact ⟨h6, h7, h1, h5.2.2.1⟩

end Srad.Host.SeqP