import SradModel.Model.EonSpec

namespace Srad.Eon.P03

end Srad.Eon.P03
